(* Completeness of the parser model with respect to the grammar: a derivable
   token list is parsed to the derived AST (executable definitions). *)
From Coq Require Import String List NArith Bool Lia Arith.
From GQL Require Import Base.Bytes Syntax.Lexer Syntax.Ast Syntax.Parser Syntax.Grammar Proofs.SyntaxSound.
Import ListNotations.
Open Scope N_scope.

(* kind of the next token *)
Definition hk (rest : list token) : option tkind := match rest with t :: _ => Some (tk t) | [] => None end.
Definition nk (k : tkind) (rest : list token) : Prop := hk rest <> Some k.

Lemma tkind_beq_refl : forall k, tkind_beq k k = true.
Proof. destruct k; reflexivity. Qed.
Lemma tkind_beq_neq : forall a b, a <> b -> tkind_beq a b = false.
Proof. intros a b H. destruct (tkind_beq a b) eqn:E; [apply tkind_beq_eq in E; contradiction|reflexivity]. Qed.

Lemma peek_nk : forall k pe rest, nk k rest -> peek k (pe, rest) = false.
Proof.
  intros k pe [|t r] H; [reflexivity|]. unfold peek; simpl. apply tkind_beq_neq. intro E. apply H. simpl. congruence.
Qed.
Lemma peek_yes : forall k pe t r, tk t = k -> peek k (pe, t :: r) = true.
Proof. intros k pe t r <-. unfold peek; simpl. apply tkind_beq_refl. Qed.
Lemma skip_nk : forall k pe rest, nk k rest -> skip k (pe, rest) = Ok (false, (pe, rest)).
Proof. intros k pe rest H. unfold skip. rewrite (peek_nk _ _ _ H). reflexivity. Qed.
Lemma skip_yes : forall k pe t r, tk t = k -> skip k (pe, t :: r) = Ok (true, (tend t, r)).
Proof. intros k pe t r H. unfold skip. rewrite (peek_yes _ _ _ _ H). reflexivity. Qed.
Lemma expect_yes : forall k pe t r, tk t = k -> expect k (pe, t :: r) = Ok (t, (tend t, r)).
Proof. intros k pe t r <-. unfold expect; simpl. rewrite tkind_beq_refl. reflexivity. Qed.
Lemma bytes_eqb_refl : forall a, bytes_eqb a a = true.
Proof. intro a. apply bytes_eqb_eq. reflexivity. Qed.
Lemma bytes_eqb_neq : forall a b, a <> b -> bytes_eqb a b = false.
Proof. intros a b H. destruct (bytes_eqb a b) eqn:E; [apply bytes_eqb_eq in E; contradiction|reflexivity]. Qed.
Lemma expect_kw_yes : forall w pe t r, tk t = NAME -> tval t = w -> expect_kw w (pe, t :: r) = Ok (t, (tend t, r)).
Proof. intros w pe t r K <-. unfold expect_kw; simpl. rewrite K, bytes_eqb_refl. reflexivity. Qed.
Lemma parse_name_yes : forall pe t r, tk t = NAME -> parse_name (pe, t :: r) = Ok (tok_name t, (tend t, r)).
Proof. intros pe t r K. unfold parse_name. rewrite (expect_yes _ _ _ _ K). reflexivity. Qed.
Lemma parse_named_yes : forall pe t r, tk t = NAME -> parse_named (pe, t :: r) = Ok (tok_named t, (tend t, r)).
Proof. intros pe t r K. unfold parse_named. rewrite (parse_name_yes _ _ _ K). reflexivity. Qed.

Lemma nk_cons : forall k t r, tk t <> k -> nk k (t :: r).
Proof. intros k t r H E. simpl in E. congruence. Qed.
Lemma nk_cons_eq : forall k k' t r, tk t = k' -> k' <> k -> nk k (t :: r).
Proof. intros k k' t r <- H. apply nk_cons. exact H. Qed.

Lemma endof_nonnil : forall p pe pe', p <> [] -> endof pe p = endof pe' p.
Proof. intros [|t p] pe pe' H; [contradiction|reflexivity]. Qed.

Lemma mkl_span_c : forall p pe rest, p <> [] -> mkl (cur_start (pe, p ++ rest)) (endof pe p, rest) = span p.
Proof. intros [|t p] pe rest H; [contradiction|reflexivity]. Qed.

(* ---- the loop of reverse(): complete when items are non-empty, do not start with the closing
        token, the item parser is complete on them before another item or the closing token ---- *)
Section ManyComplete.
  Context {A : Type}.
  Variable item : pst -> res (A * pst).
  Variable J : list token -> A -> Prop.
  Variable close : tkind.
  Variable Q : list token -> Prop.     (* what may follow an item *)
  Hypothesis first : forall p a, J p a -> exists t p', p = t :: p' /\ tk t <> close.
  Hypothesis item_complete : forall p a pe rest, J p a -> Q rest -> item (pe, p ++ rest) = Ok (a, (endof pe p, rest)).
  Hypothesis Q_item : forall p a rest, J p a -> Q (p ++ rest).
  Hypothesis Q_close : forall c rest, tk c = close -> Q (c :: rest).

  Lemma many_complete : forall ps l, DStar J ps l -> forall fuel c rest pe, tk c = close -> (length l < fuel)%nat ->
    many fuel item close (pe, ps ++ c :: rest) = Ok (l, (tend c, rest)).
  Proof.
    intros ps l D. induction D as [|p a ps l Hpa Hrest IH]; intros fuel c rest pe Hc Hf.
    - destruct fuel; [simpl in Hf; lia|]. cbn [many app]. rewrite (peek_yes _ _ _ _ Hc). reflexivity.
    - destruct fuel; [simpl in Hf; lia|]. cbn [many].
      destruct (first _ _ Hpa) as (t & p' & -> & Ht).
      rewrite <- app_assoc. cbn [app]. unfold peek at 1. cbn [snd]. rewrite (tkind_beq_neq _ _ Ht).
      change (t :: p' ++ ps ++ c :: rest) with ((t :: p') ++ ps ++ c :: rest).
      rewrite (item_complete _ _ pe (ps ++ c :: rest) Hpa).
      + rewrite (IH fuel c rest (endof pe (t :: p')) Hc ltac:(simpl in Hf; lia)). reflexivity.
      + destruct Hrest as [|p2 a2 ps2 l2 H2 _].
        * apply Q_close. exact Hc.
        * rewrite <- app_assoc. eapply Q_item. exact H2.
  Qed.

  Lemma reverse_complete : forall open ne p l, DDelim J open close ne p l -> forall fuel rest pe, (length l < fuel)%nat ->
    reverse fuel open item close ne (pe, p ++ rest) = Ok (l, (endof pe p, rest)).
  Proof.
    intros open ne p l D fuel rest pe Hf. destruct D as [o ps c l Ho Hc Hs Hne].
    unfold reverse. cbn [app]. rewrite (expect_yes _ _ _ _ Ho). rewrite <- app_assoc. cbn [app].
    rewrite (many_complete _ _ Hs fuel c rest (tend o) Hc Hf).
    assert (E : ne && is_nil l = false).
    { destruct ne; [|reflexivity]. destruct l; [exfalso; apply Hne; reflexivity|reflexivity]. }
    rewrite E. f_equal. f_equal. f_equal.
    change (o :: ps ++ [c]) with ([o] ++ ps ++ [c]). rewrite !endof_app. reflexivity.
  Qed.
End ManyComplete.

Lemma DStar_length : forall A (I : list token -> A -> Prop) ps l, DStar I ps l ->
  (forall p a, I p a -> p <> []) -> (length l <= length ps)%nat.
Proof.
  intros A I ps l D Hn. induction D as [|p a ps l Hpa _ IH]; [simpl; lia|].
  rewrite app_length. simpl. specialize (Hn _ _ Hpa). destruct p; [contradiction|simpl; lia].
Qed.

Lemma DStar_strengthen : forall A (I : list token -> A -> Prop) n ps l, DStar I ps l -> (length ps < n)%nat ->
  DStar (fun p a => I p a /\ (length p < n)%nat) ps l.
Proof.
  intros A I n ps l D. induction D as [|p a ps l Hpa _ IH]; intro Hl; [constructor|].
  rewrite app_length in Hl. constructor; [split; [exact Hpa|lia] | apply IH; lia].
Qed.

Lemma DDelim_strengthen : forall A (I : list token -> A -> Prop) o c ne n p l, DDelim I o c ne p l -> (length p <= n)%nat ->
  DDelim (fun p a => I p a /\ (length p < n)%nat) o c ne p l.
Proof.
  intros A I o c ne n p l D Hl. destruct D as [o0 ps c0 l Ho Hc Hs Hne]. constructor; auto.
  apply DStar_strengthen; [exact Hs|]. simpl in Hl. rewrite app_length in Hl. lia.
Qed.

Lemma DDelim_items : forall A (I : list token -> A -> Prop) o c ne p l, DDelim I o c ne p l ->
  (forall p a, I p a -> p <> []) -> (length l < length p)%nat.
Proof.
  intros A I o c ne p l D Hn. destruct D as [o0 ps c0 l Ho Hc Hs Hne]. simpl. rewrite app_length. simpl.
  pose proof (DStar_length _ _ _ _ Hs Hn). lia.
Qed.

(* ---- values ---- *)
Lemma DValue_first : forall c p v, DValue c p v -> exists t p', p = t :: p' /\ tk t <> BRACKET_R /\ tk t <> BRACE_R.
Proof.
  intros c p v D. destruct D as [d n _ Kd _|t K|t K|t K|t K _|t K _|t K _ _ _|p l Dl|p l Dl];
    try (eexists; eexists; split; [reflexivity|]; rewrite ?K, ?Kd; split; discriminate).
  - eexists; eexists; split; [reflexivity|]. destruct K as [K|K]; rewrite K; split; discriminate.
  - destruct Dl as [o ps c0 l Ho _ _ _]. eexists; eexists; split; [reflexivity|]. rewrite Ho; split; discriminate.
  - destruct Dl as [o ps c0 l Ho _ _ _]. eexists; eexists; split; [reflexivity|]. rewrite Ho; split; discriminate.
Qed.

Lemma parse_value_complete : forall fuel c p v, DValue c p v -> (length p < fuel)%nat ->
  forall pe rest, parse_value fuel c (pe, p ++ rest) = Ok (v, (endof pe p, rest)).
Proof.
  induction fuel as [|f IH]; intros c p v D Hl pe rest; [lia|].
  destruct D as [d n Hc Kd Kn|t K|t K|t K|t K V|t K V|t K V1 V2 V3|p l Dl|p l Dl].
  - subst c. cbn [parse_value app snd]. rewrite Kd. unfold parse_variable. rewrite (expect_yes _ _ _ _ Kd).
    rewrite (parse_name_yes _ _ _ Kn). reflexivity.
  - cbn [parse_value app snd]. rewrite K. reflexivity.
  - cbn [parse_value app snd]. rewrite K. reflexivity.
  - cbn [parse_value app snd]. destruct K as [K|K]; rewrite K; reflexivity.
  - cbn [parse_value app snd]. rewrite K, V. reflexivity.
  - cbn [parse_value app snd]. rewrite K, V. reflexivity.
  - cbn [parse_value app snd]. rewrite K. rewrite (bytes_eqb_neq _ _ V1), (bytes_eqb_neq _ _ V2), (bytes_eqb_neq _ _ V3). reflexivity.
  - pose proof Dl as Dl0. destruct Dl0 as [o ps c0 l Ho Hc Hs Hne].
    cbn [parse_value]. cbn [app snd]. rewrite Ho.
    change (o :: (ps ++ [c0]) ++ rest) with ((o :: ps ++ [c0]) ++ rest).
    assert (Hf : (length (o :: ps ++ [c0]) < S f)%nat) by exact Hl.
    rewrite (reverse_complete (parse_value f c) (fun p a => DValue c p a /\ (length p < f)%nat) BRACKET_R (fun _ => True))
      with (open := BRACKET_L) (ne := false) (l := l).
    + reflexivity.
    + intros p a [Hp _]. destruct (DValue_first _ _ _ Hp) as (t & p' & -> & N1 & _). eauto.
    + intros p a pe' rest' [Hp Hlen] _. apply IH; assumption.
    + auto.
    + auto.
    + apply DDelim_strengthen; [exact Dl|]. simpl in Hf |- *. lia.
    + pose proof (DDelim_items _ _ _ _ _ _ _ Dl) as X. simpl in Hf.
      assert (length l < length (o :: ps ++ [c0]))%nat.
      { apply X. intros p a Hp. destruct (DValue_first _ _ _ Hp) as (t & p' & -> & _). discriminate. }
      simpl in H. lia.
  - pose proof Dl as Dl0. destruct Dl0 as [o ps c0 l Ho Hc Hs Hne].
    cbn [parse_value]. cbn [app snd]. rewrite Ho.
    change (o :: (ps ++ [c0]) ++ rest) with ((o :: ps ++ [c0]) ++ rest).
    assert (Hf : (length (o :: ps ++ [c0]) < S f)%nat) by exact Hl.
    rewrite (reverse_complete (parse_objfield_with (parse_value f c))
               (fun p a => DObjFieldOf (DValue c) p a /\ (length p < f)%nat) BRACE_R (fun _ => True))
      with (open := BRACE_L) (ne := false) (l := l).
    + reflexivity.
    + intros p a [Hp _]. destruct Hp as [n cl pv v Kn _ _]. eexists; eexists; split; [reflexivity|]. rewrite Kn; discriminate.
    + intros p a pe' rest' [Hp Hlen] _. destruct Hp as [n cl pv v Kn Kc Hv].
      unfold parse_objfield_with. cbn [app]. rewrite (parse_name_yes _ _ _ Kn). rewrite (expect_yes _ _ _ _ Kc).
      rewrite (IH c pv v Hv ltac:(simpl in Hlen; lia)). reflexivity.
    + auto.
    + auto.
    + apply DDelim_strengthen; [exact Dl|]. simpl in Hf |- *. lia.
    + pose proof (DDelim_items _ _ _ _ _ _ _ Dl) as X. simpl in Hf.
      assert (length l < length (o :: ps ++ [c0]))%nat.
      { apply X. intros p a Hp. destruct Hp. discriminate. }
      simpl in H. lia.
Qed.

(* ---- types ---- *)
Ltac eo := unfold mkl, span, endof; cbn [fst start_of app];
  repeat (first [rewrite fold_left_app | progress cbn [fold_left app]]); reflexivity.

Lemma parse_type_complete : forall fuel p t, DType p t -> (length p < fuel)%nat ->
  forall pe rest, nk BANG rest -> parse_type fuel (pe, p ++ rest) = Ok (t, (endof pe p, rest)).
Proof.
  induction fuel as [|f IH]; intros p t D Hl pe rest Hn; [lia|].
  destruct D as [n Kn|o p t c Ko Dt Kc|p t b Dt NN Kb].
  - cbn [parse_type app snd]. rewrite Kn. rewrite (parse_named_yes _ _ _ Kn). rewrite (skip_nk _ _ _ Hn). reflexivity.
  - cbn [parse_type app snd]. rewrite Ko. unfold advance. cbn [snd]. rewrite <- app_assoc.
    rewrite (IH p t Dt ltac:(simpl in Hl; rewrite app_length in Hl; simpl in Hl; lia) (tend o) ([c] ++ rest)
               ltac:(apply (nk_cons_eq _ BRACKET_R); [exact Kc|discriminate])).
    cbn [app]. rewrite (expect_yes _ _ _ _ Kc). rewrite (skip_nk _ _ _ Hn). eo.
  - rewrite <- app_assoc. destruct Dt as [n Kn|o p t c Ko Dt Kc|p t b' Dt NN' Kb']; [| |discriminate NN].
    + cbn [parse_type app snd]. rewrite Kn. rewrite (parse_named_yes _ _ _ Kn). rewrite (skip_yes _ _ _ _ Kb). reflexivity.
    + cbn [parse_type app snd]. rewrite Ko. unfold advance. cbn [snd]. rewrite <- app_assoc.
      rewrite (IH p t Dt ltac:(simpl in Hl; rewrite !app_length in Hl; simpl in Hl; lia) (tend o) ([c] ++ b :: rest)
                 ltac:(apply (nk_cons_eq _ BRACKET_R); [exact Kc|discriminate])).
      cbn [app]. rewrite (expect_yes _ _ _ _ Kc). rewrite (skip_yes _ _ _ _ Kb). eo.
Qed.

Ltac eo2 := unfold mkl, span, endof, cur_start; cbn [fst snd start_of app];
  repeat (first [rewrite fold_left_app | progress cbn [fold_left app]]); reflexivity.

(* ---- first tokens ---- *)
Definition starts (ks : list tkind) (p : list token) : Prop := p = [] \/ exists k, hk p = Some k /\ In k ks.

Lemma nk_app : forall k ks p rest, starts ks p -> ~ In k ks -> nk k rest -> nk k (p ++ rest).
Proof.
  intros k ks p rest [->|(k' & H1 & H2)] Hk Hr; [exact Hr|].
  destruct p as [|t p]; [discriminate H1|]. simpl in H1. inversion H1; subst k'.
  intro E. simpl in E. inversion E as [E']. rewrite E' in H2. contradiction.
Qed.

Lemma delim_starts : forall A (I : list token -> A -> Prop) o c ne p l, DDelim I o c ne p l -> hk p = Some o.
Proof. intros A I o c ne p l D. destruct D as [o0 ps c0 l Ho _ _ _]. simpl. rewrite Ho. reflexivity. Qed.

Lemma optdelim_starts : forall A (I : list token -> A -> Prop) o c p l, DOptDelim I o c p l -> starts [o] p.
Proof.
  intros A I o c p l D. destruct D as [|p l D]; [left; reflexivity|]. right. exists o. split; [eapply delim_starts; eassumption|left; reflexivity].
Qed.

Lemma direcs_starts : forall p l, DDirecs p l -> starts [AT] p.
Proof.
  intros p l D. destruct D as [|p a ps l Hd _]; [left; reflexivity|]. right. exists AT. split; [|left; reflexivity].
  destruct Hd as [a0 n pa args Ka _ _]. simpl. rewrite Ka. reflexivity.
Qed.

Lemma selset_starts : forall p ss, DSelSet p ss -> hk p = Some BRACE_L.
Proof. intros p ss D. destruct D as [p l D]. eapply delim_starts; eassumption. Qed.

Lemma optselset_starts : forall p o, DOpt DSelSet p o -> starts [BRACE_L] p.
Proof.
  intros p o D. destruct D as [|p a D]; [left; reflexivity|]. right. exists BRACE_L. split; [eapply selset_starts; eassumption|left; reflexivity].
Qed.

Lemma peek_hk : forall k pe p, hk p = Some k -> peek k (pe, p) = true.
Proof. intros k pe [|t r] H; [discriminate|]. simpl in H. inversion H. apply peek_yes. reflexivity. Qed.

Lemma peek_app_hk : forall k pe p rest, hk p = Some k -> peek k (pe, p ++ rest) = true.
Proof. intros k pe [|t r] rest H; [discriminate|]. simpl in H. inversion H. apply peek_yes. reflexivity. Qed.

(* ---- optional delimited lists ---- *)
Section OptDelimComplete.
  Context {A : Type}.
  Variable item : pst -> res (A * pst).
  Variable I : list token -> A -> Prop.
  Variables open close : tkind.
  Variable fuel : nat.
  Variable Q : list token -> Prop.
  Hypothesis first : forall p a, I p a -> exists t p', p = t :: p' /\ tk t <> close.
  Hypothesis item_complete : forall p a pe rest, I p a -> (length p < fuel)%nat -> Q rest ->
    item (pe, p ++ rest) = Ok (a, (endof pe p, rest)).
  Hypothesis Q_item : forall p a rest, I p a -> Q (p ++ rest).
  Hypothesis Q_close : forall c rest, tk c = close -> Q (c :: rest).

  Lemma delim_complete : forall ne p l, DDelim I open close ne p l -> (length p <= fuel)%nat -> forall pe rest,
    reverse fuel open item close ne (pe, p ++ rest) = Ok (l, (endof pe p, rest)).
  Proof.
    intros ne p l D Hl pe rest.
    apply (reverse_complete item (fun p a => I p a /\ (length p < fuel)%nat) close Q) with (open := open) (ne := ne).
    - intros p0 a [H _]. eapply first; eassumption.
    - intros p0 a pe0 rest0 [H1 H2] HQ. apply item_complete; assumption.
    - intros p0 a rest0 [H _]. eapply Q_item; eassumption.
    - exact Q_close.
    - apply DDelim_strengthen; assumption.
    - pose proof (DDelim_items _ _ _ _ _ _ _ D) as X.
      assert (length l < length p)%nat; [|lia].
      apply X. intros p0 a H. destruct (first _ _ H) as (t & p' & -> & _). discriminate.
  Qed.

  Lemma opt_delim_complete : forall p l, DOptDelim I open close p l -> (length p <= fuel)%nat -> forall pe rest, nk open rest ->
    (if peek open (pe, p ++ rest) then reverse fuel open item close true (pe, p ++ rest) else Ok ([], (pe, p ++ rest)))
    = Ok (l, (endof pe p, rest)).
  Proof.
    intros p l D Hl pe rest Hn. destruct D as [|p l D].
    - cbn [app]. rewrite (peek_nk _ _ _ Hn). reflexivity.
    - rewrite (peek_app_hk _ _ _ _ (delim_starts _ _ _ _ _ _ _ D)). apply delim_complete; assumption.
  Qed.
End OptDelimComplete.

(* ---- "for peek(k) { item }" ---- *)
Section WhileComplete.
  Context {A : Type}.
  Variable item : pst -> res (A * pst).
  Variable J : list token -> A -> Prop.
  Variable k : tkind.
  Variable Q : list token -> Prop.
  Hypothesis first : forall p a, J p a -> exists t p', p = t :: p' /\ tk t = k.
  Hypothesis item_complete : forall p a pe rest, J p a -> Q rest -> item (pe, p ++ rest) = Ok (a, (endof pe p, rest)).
  Hypothesis Q_item : forall p a rest, J p a -> Q (p ++ rest).

  Lemma while_peek_complete : forall ps l, DStar J ps l -> forall fuel pe rest, Q rest -> nk k rest -> (length l < fuel)%nat ->
    while_peek fuel k item (pe, ps ++ rest) = Ok (l, (endof pe ps, rest)).
  Proof.
    intros ps l D. induction D as [|p a ps l Hpa Hrest IH]; intros fuel pe rest HQ Hn Hf.
    - destruct fuel; [simpl in Hf; lia|]. cbn [while_peek app]. rewrite (peek_nk _ _ _ Hn). reflexivity.
    - destruct fuel; [simpl in Hf; lia|]. cbn [while_peek].
      destruct (first _ _ Hpa) as (t & p' & -> & Ht).
      rewrite <- app_assoc. cbn [app]. rewrite (peek_yes _ _ _ _ Ht).
      change (t :: p' ++ ps ++ rest) with ((t :: p') ++ ps ++ rest).
      rewrite (item_complete _ _ pe (ps ++ rest) Hpa).
      + rewrite (IH fuel (endof pe (t :: p')) rest HQ Hn ltac:(simpl in Hf; lia)).
        f_equal. f_equal. f_equal. change (t :: p' ++ ps) with ((t :: p') ++ ps). rewrite endof_app. reflexivity.
      + destruct Hrest as [|p2 a2 ps2 l2 H2 _]; [exact HQ|]. rewrite <- app_assoc. eapply Q_item. exact H2.
  Qed.
End WhileComplete.

(* ---- arguments, directives ---- *)
Lemma parse_argument_complete : forall fuel p a pe rest, DArgument p a -> (length p < fuel)%nat -> True ->
  parse_argument fuel (pe, p ++ rest) = Ok (a, (endof pe p, rest)).
Proof.
  intros fuel p a pe rest D Hl _. destruct D as [n c pv v Kn Kc Dv].
  unfold parse_argument. cbn [app]. rewrite (parse_name_yes _ _ _ Kn). rewrite (expect_yes _ _ _ _ Kc).
  rewrite (parse_value_complete fuel false pv v Dv ltac:(simpl in Hl; lia)). eo2.
Qed.

Lemma parse_arguments_complete : forall fuel p l, DArguments p l -> (length p <= fuel)%nat -> forall pe rest, nk PAREN_L rest ->
  parse_arguments fuel (pe, p ++ rest) = Ok (l, (endof pe p, rest)).
Proof.
  intros fuel p l D Hl pe rest Hn. unfold parse_arguments.
  apply (opt_delim_complete (parse_argument fuel) DArgument PAREN_L PAREN_R fuel (fun _ => True)); auto.
  - intros p0 a H. destruct H as [n c pv v Kn _ _]. eexists; eexists; split; [reflexivity|]. rewrite Kn. discriminate.
  - intros. apply parse_argument_complete; auto.
Qed.

Lemma direc_first : forall p d, DDirec p d -> exists t p', p = t :: p' /\ tk t = AT.
Proof. intros p d D. destruct D as [a n pa args Ka _ _]. eauto. Qed.

Lemma parse_directive_complete : forall fuel p d, DDirec p d -> (length p <= fuel)%nat -> forall pe rest, nk PAREN_L rest ->
  parse_directive fuel (pe, p ++ rest) = Ok (d, (endof pe p, rest)).
Proof.
  intros fuel p d D Hl pe rest Hn. destruct D as [a n pa args Ka Kn Da].
  unfold parse_directive. cbn [app]. rewrite (expect_yes _ _ _ _ Ka). rewrite (parse_name_yes _ _ _ Kn).
  rewrite (parse_arguments_complete fuel pa args Da ltac:(simpl in Hl; lia) _ _ Hn). eo2.
Qed.

Lemma DStar_item_length : forall A (I : list token -> A -> Prop) n ps l, DStar I ps l -> (length ps <= n)%nat ->
  DStar (fun p a => I p a /\ (length p <= n)%nat) ps l.
Proof.
  intros A I n ps l D. induction D as [|p a ps l Hpa _ IH]; intro Hl; [constructor|].
  rewrite app_length in Hl. constructor; [split; [exact Hpa|lia] | apply IH; lia].
Qed.

Lemma parse_directives_complete : forall fuel p l, DDirecs p l -> (length p < fuel)%nat -> forall pe rest,
  nk PAREN_L rest -> nk AT rest -> parse_directives fuel (pe, p ++ rest) = Ok (l, (endof pe p, rest)).
Proof.
  intros fuel p l D Hl pe rest H1 H2. unfold parse_directives.
  apply (while_peek_complete (parse_directive fuel) (fun p a => DDirec p a /\ (length p <= fuel)%nat) AT (nk PAREN_L)).
  - intros p0 a [H _]. eapply direc_first; eassumption.
  - intros p0 a pe0 rest0 [Ha Hb] HQ. apply parse_directive_complete; assumption.
  - intros p0 a rest0 [H _]. destruct (direc_first _ _ H) as (t & p' & -> & Kt). apply (nk_cons_eq _ AT); [exact Kt|discriminate].
  - apply DStar_item_length; [exact D|lia].
  - exact H1.
  - exact H2.
  - assert (length l <= length p)%nat; [|lia]. apply (DStar_length _ _ _ _ D).
    intros p0 a H. destruct (direc_first _ _ H) as (t & p' & -> & _). discriminate.
Qed.

(* ---- selections ---- *)
Definition sel_follow (rest : list token) : Prop := nk COLON rest /\ nk PAREN_L rest /\ nk AT rest /\ nk BRACE_L rest.

Lemma not_in1 : forall (a b : tkind), a <> b -> ~ In a [b].
Proof. intros a b H [E|[]]. congruence. Qed.

Section Selections.
  Variable psel : pst -> res (selset * pst).
  Variable fuel n : nat.
  Hypothesis Hpsel : forall p ss, DSelSet p ss -> (length p < n)%nat -> forall pe rest,
    psel (pe, p ++ rest) = Ok (ss, (endof pe p, rest)).

  Lemma field_tail_complete : forall pa args pd dirs ps sub al nm start pe3 rest,
    DArguments pa args -> DDirecs pd dirs -> DOpt DSelSet ps sub ->
    (length (pa ++ pd ++ ps) < n)%nat -> (length (pa ++ pd ++ ps) < fuel)%nat -> sel_follow rest ->
    (' (args0, st4) <- parse_arguments fuel (pe3, pa ++ pd ++ ps ++ rest) ;;
     ' (dirs0, st5) <- parse_directives fuel st4 ;;
     if peek BRACE_L st5 then ' (ss, st6) <- psel st5 ;; Ok (SField al nm args0 dirs0 (Some ss) (mkl start st6), st6)
     else Ok (SField al nm args0 dirs0 None (mkl start st5), st5))
    = Ok (SField al nm args dirs sub (mkloc start (endof pe3 (pa ++ pd ++ ps))), (endof pe3 (pa ++ pd ++ ps), rest)).
  Proof.
    intros pa args pd dirs ps sub al nm start pe3 rest Da Dd Ds Ln Lf (F1 & F2 & F3 & F4).
    rewrite !app_length in Ln, Lf.
    pose proof (direcs_starts _ _ Dd) as Sd. pose proof (optselset_starts _ _ Ds) as Ss.
    rewrite (parse_arguments_complete fuel pa args Da ltac:(lia)).
    2:{ apply (nk_app _ [AT]); [exact Sd|apply not_in1; discriminate|].
        apply (nk_app _ [BRACE_L]); [exact Ss|apply not_in1; discriminate|exact F2]. }
    cbv beta iota.
    rewrite (parse_directives_complete fuel pd dirs Dd ltac:(lia)).
    2:{ apply (nk_app _ [BRACE_L]); [exact Ss|apply not_in1; discriminate|exact F2]. }
    2:{ apply (nk_app _ [BRACE_L]); [exact Ss|apply not_in1; discriminate|exact F3]. }
    cbv beta iota.
    destruct Ds as [|ps ss Dss].
    - cbn [app]. rewrite (peek_nk _ _ _ F4). rewrite !app_nil_r. rewrite endof_app. reflexivity.
    - rewrite (peek_app_hk _ _ _ _ (selset_starts _ _ Dss)).
      rewrite (Hpsel ps ss Dss ltac:(lia)). unfold mkl. cbn [fst]. rewrite !endof_app. reflexivity.
  Qed.

  Lemma parse_selection_complete : forall p s, DSelectionOf DSelSet p s -> (length p <= n)%nat -> (length p < fuel)%nat ->
    forall pe rest, sel_follow rest -> parse_selection_with psel fuel (pe, p ++ rest) = Ok (s, (endof pe p, rest)).
  Proof.
    intros p s D Ln Lf pe rest F. pose proof F as (F1 & F2 & F3 & F4).
    destruct D as [pn al nm pa args pd dirs ps sub Dn Da Dd Ds | sp pn nmm pd dirs Ks Dn Dd | sp pt tc pd dirs ps ss Ks Dt Dd Dss].
    - (* field *)
      pose proof (optdelim_starts _ _ _ _ _ _ Da) as Sa.
      pose proof (direcs_starts _ _ Dd) as Sd. pose proof (optselset_starts _ _ Ds) as Ss.
      rewrite !app_length in Ln, Lf.
      assert (NC : nk COLON (pa ++ pd ++ ps ++ rest)).
      { apply (nk_app _ [PAREN_L]); [exact Sa|apply not_in1; discriminate|].
        apply (nk_app _ [AT]); [exact Sd|apply not_in1; discriminate|].
        apply (nk_app _ [BRACE_L]); [exact Ss|apply not_in1; discriminate|exact F1]. }
      inversion Dn as [t Kt E1 E2 | a c t Ka Kc Kt E1 E2]; subst.
      + unfold parse_selection_with. rewrite <- !app_assoc. cbn [app].
        unfold peek at 1. cbn [snd]. rewrite Kt. cbn [tkind_beq].
        unfold parse_field_with. rewrite (parse_name_yes _ _ _ Kt). rewrite (skip_nk _ _ _ NC). cbv beta iota.
        rewrite (field_tail_complete pa args pd dirs ps sub None (tok_name t) _ (tend t) rest Da Dd Ds
                   ltac:(rewrite !app_length; simpl in Ln; lia) ltac:(rewrite !app_length; simpl in Lf; lia) F).
        eo2.
      + unfold parse_selection_with. rewrite <- !app_assoc. cbn [app].
        unfold peek at 1. cbn [snd]. rewrite Ka. cbn [tkind_beq].
        unfold parse_field_with. rewrite (parse_name_yes _ _ _ Ka). rewrite (skip_yes _ _ _ _ Kc). cbv beta iota.
        rewrite (parse_name_yes _ _ _ Kt). cbv beta iota.
        rewrite (field_tail_complete pa args pd dirs ps sub (Some (tok_name a)) (tok_name t) _ (tend t) rest Da Dd Ds
                   ltac:(rewrite !app_length; simpl in Ln; lia) ltac:(rewrite !app_length; simpl in Lf; lia) F).
        eo2.
    - (* spread *)
      destruct Dn as [t Kt Vt]. unfold parse_selection_with. cbn [app]. rewrite <- ?app_assoc. cbn [app].
      rewrite (peek_yes _ _ _ _ Ks). unfold parse_fragment_with. rewrite (expect_yes _ _ _ _ Ks).
      assert (Hk : cur_is_kw (kw "on") (tend sp, t :: pd ++ rest) = false).
      { unfold cur_is_kw. cbn [snd]. rewrite Kt. cbn [tkind_beq andb]. apply bytes_eqb_neq. exact Vt. }
      rewrite (peek_yes _ _ _ _ Kt). rewrite Hk. cbn [negb andb].
      unfold parse_fragment_name. rewrite Hk. rewrite (parse_name_yes _ _ _ Kt).
      simpl in Lf. rewrite (parse_directives_complete fuel pd dirs Dd ltac:(lia) _ _ F2 F3). eo2.
    - (* inline fragment *)
      unfold parse_selection_with. cbn [app]. rewrite <- ?app_assoc. rewrite (peek_yes _ _ _ _ Ks).
      unfold parse_fragment_with. rewrite (expect_yes _ _ _ _ Ks).
      pose proof (direcs_starts _ _ Dd) as Sd. pose proof (selset_starts _ _ Dss) as Hss.
      simpl in Ln, Lf. rewrite !app_length in Ln, Lf.
      assert (ND1 : nk PAREN_L (ps ++ rest)).
      { destruct ps as [|t0 r0]; [discriminate Hss|]. simpl in Hss. inversion Hss. apply (nk_cons_eq _ BRACE_L); [assumption|discriminate]. }
      assert (ND2 : nk AT (ps ++ rest)).
      { destruct ps as [|t0 r0]; [discriminate Hss|]. simpl in Hss. inversion Hss. apply (nk_cons_eq _ BRACE_L); [assumption|discriminate]. }
      destruct Dt as [|pt tc Dtc].
      + (* no type condition: the next token is @ or { *)
        cbn [app].
        assert (Hp : peek NAME (tend sp, pd ++ ps ++ rest) && negb (cur_is_kw (kw "on") (tend sp, pd ++ ps ++ rest)) = false).
        { assert (nk NAME (pd ++ ps ++ rest)).
          { apply (nk_app _ [AT]); [exact Sd|apply not_in1; discriminate|].
            destruct ps as [|t0 r0]; [discriminate Hss|]. simpl in Hss. inversion Hss. apply (nk_cons_eq _ BRACE_L); [assumption|discriminate]. }
          rewrite (peek_nk _ _ _ H). reflexivity. }
        rewrite Hp.
        assert (Hk : cur_is_kw (kw "on") (tend sp, pd ++ ps ++ rest) = false).
        { unfold cur_is_kw. cbn [snd]. destruct (pd ++ ps ++ rest) as [|t0 r0] eqn:E; [reflexivity|].
          assert (nk NAME (pd ++ ps ++ rest)).
          { apply (nk_app _ [AT]); [exact Sd|apply not_in1; discriminate|].
            destruct ps as [|t1 r1]; [discriminate Hss|]. simpl in Hss. inversion Hss. apply (nk_cons_eq _ BRACE_L); [assumption|discriminate]. }
          rewrite E in H. rewrite tkind_beq_neq; [reflexivity|]. intro X. apply H. simpl. congruence. }
        rewrite Hk. cbv beta iota.
        rewrite (parse_directives_complete fuel pd dirs Dd ltac:(lia) _ _ ND1 ND2). cbv beta iota.
        rewrite (Hpsel ps ss Dss ltac:(lia)). eo2.
      + destruct Dtc as [o t Ko Vo Kt]. cbn [app].
        assert (Hk : cur_is_kw (kw "on") (tend sp, o :: t :: pd ++ ps ++ rest) = true).
        { unfold cur_is_kw. cbn [snd]. rewrite Ko, Vo. cbn [tkind_beq andb]. apply bytes_eqb_refl. }
        rewrite Hk. rewrite andb_false_r. unfold advance. cbn [snd]. rewrite (parse_named_yes _ _ _ Kt). cbv beta iota.
        rewrite (parse_directives_complete fuel pd dirs Dd ltac:(lia) _ _ ND1 ND2). cbv beta iota.
        rewrite (Hpsel ps ss Dss ltac:(lia)). eo2.
  Qed.
End Selections.

Lemma selection_first : forall p s, DSelectionOf DSelSet p s -> exists t p', p = t :: p' /\ (tk t = NAME \/ tk t = SPREAD).
Proof.
  intros p s D. destruct D as [pn al nm pa args pd dirs ps sub Dn _ _ _ | sp pn nmm pd dirs Ks _ _ | sp pt tc pd dirs ps ss Ks _ _ _].
  - inversion Dn; subst; eexists; eexists; (split; [reflexivity|left; assumption]).
  - eexists; eexists; split; [reflexivity|right; assumption].
  - eexists; eexists; split; [reflexivity|right; assumption].
Qed.

Lemma sel_follow_first : forall t r, tk t = NAME \/ tk t = SPREAD \/ tk t = BRACE_R -> sel_follow (t :: r).
Proof.
  intros t r H. repeat split; apply nk_cons; intro E; rewrite E in H; destruct H as [H|[H|H]]; discriminate H.
Qed.

Lemma parse_selset_complete : forall fuel p ss, DSelSet p ss -> (length p < fuel)%nat -> forall pe rest,
  parse_selset fuel (pe, p ++ rest) = Ok (ss, (endof pe p, rest)).
Proof.
  induction fuel as [|f IH]; intros p ss D Hl pe rest; [lia|].
  destruct D as [p l D]. cbn [parse_selset].
  rewrite (delim_complete (parse_selection_with (parse_selset f) f) (DSelectionOf DSelSet) BRACE_L BRACE_R f sel_follow)
    with (ne := true) (l := l); [| | | | |exact D|lia].
  - cbv beta iota. f_equal. f_equal. f_equal. apply mkl_span_c. eapply delim_nonnil; eassumption.
  - intros p0 a H. destruct (selection_first _ _ H) as (t & p' & -> & [K|K]); eexists; eexists; (split; [reflexivity|]); rewrite K; discriminate.
  - intros p0 a pe0 rest0 H Hlen HQ. apply (parse_selection_complete (parse_selset f) f f); auto. lia.
  - intros p0 a rest0 H. destruct (selection_first _ _ H) as (t & p' & -> & K). apply sel_follow_first. tauto.
  - intros c rest0 K. apply sel_follow_first. tauto.
Qed.

(* ---- variable definitions, operations, fragments ---- *)
Definition vd_follow (rest : list token) : Prop := nk BANG rest /\ nk EQUALS rest.

Lemma parse_vardef_complete : forall fuel p v pe rest, DVarDef p v -> (length p < fuel)%nat -> vd_follow rest ->
  parse_vardef fuel (pe, p ++ rest) = Ok (v, (endof pe p, rest)).
Proof.
  intros fuel p v pe rest D Hl [F1 F2]. destruct D as [d n c pt t pv dv Kd Kn Kc Dt Dv].
  unfold parse_vardef. cbn [app]. rewrite (expect_yes _ _ _ _ Kd). rewrite (parse_name_yes _ _ _ Kn).
  rewrite (expect_yes _ _ _ _ Kc). rewrite <- app_assoc. simpl in Hl. rewrite !app_length in Hl.
  destruct Dv as [|pv dv0 Dd].
  - cbn [app]. rewrite (parse_type_complete fuel pt t Dt ltac:(lia) _ _ F1). rewrite (skip_nk _ _ _ F2). rewrite app_nil_r. eo2.
  - destruct Dd as [e pv v0 Ke Dv0].
    rewrite (parse_type_complete fuel pt t Dt ltac:(lia)).
    2:{ apply (nk_cons_eq _ EQUALS); [exact Ke|discriminate]. }
    cbn [app]. rewrite (skip_yes _ _ _ _ Ke).
    rewrite (parse_value_complete fuel true pv v0 Dv0 ltac:(simpl in Hl; lia)). eo2.
Qed.

Lemma parse_vardefs_complete : forall fuel p l, DVarDefs p l -> (length p <= fuel)%nat -> forall pe rest, nk PAREN_L rest ->
  parse_vardefs fuel (pe, p ++ rest) = Ok (l, (endof pe p, rest)).
Proof.
  intros fuel p l D Hl pe rest Hn. unfold parse_vardefs.
  apply (opt_delim_complete (parse_vardef fuel) DVarDef PAREN_L PAREN_R fuel vd_follow); auto.
  - intros p0 a H. destruct H as [d n c pt t pv dv Kd _ _ _ _]. eexists; eexists; split; [reflexivity|]. rewrite Kd. discriminate.
  - intros. apply parse_vardef_complete; auto.
  - intros p0 a rest0 H. destruct H as [d n c pt t pv dv Kd _ _ _ _]. split; apply (nk_cons_eq _ DOLLAR); auto; discriminate.
  - intros c rest0 K. split; apply (nk_cons_eq _ PAREN_R); auto; discriminate.
Qed.

Lemma optype_of_query : forall v op, optype_of v = Some op ->
  bytes_eqb v (kw "fragment") = false /\
  (bytes_eqb v (kw "query") || bytes_eqb v (kw "mutation") || bytes_eqb v (kw "subscription")) = true /\
  (if bytes_eqb v (kw "query") then Some Query else if bytes_eqb v (kw "mutation") then Some Mutation
   else if bytes_eqb v (kw "subscription") then Some Subscription else None) = Some op.
Proof.
  intros v op H. unfold optype_of in H. split; [|split; [|exact H]].
  - destruct (bytes_eqb v (kw "query")) eqn:E1; [apply bytes_eqb_eq in E1; subst; reflexivity|].
    destruct (bytes_eqb v (kw "mutation")) eqn:E2; [apply bytes_eqb_eq in E2; subst; reflexivity|].
    destruct (bytes_eqb v (kw "subscription")) eqn:E3; [apply bytes_eqb_eq in E3; subst; reflexivity|discriminate].
  - destruct (bytes_eqb v (kw "query")); [reflexivity|].
    destruct (bytes_eqb v (kw "mutation")); [reflexivity|].
    destruct (bytes_eqb v (kw "subscription")); [reflexivity|discriminate].
Qed.

Lemma parse_optype_yes : forall pe k r op, tk k = NAME -> optype_of (tval k) = Some op ->
  parse_optype (pe, k :: r) = Ok (op, (tend k, r)).
Proof.
  intros pe k r op K H. unfold parse_optype. rewrite (expect_yes _ _ _ _ K). cbv beta iota.
  unfold optype_of in H.
  destruct (bytes_eqb (tval k) (kw "query")); [inversion H; reflexivity|].
  destruct (bytes_eqb (tval k) (kw "mutation")); [inversion H; reflexivity|].
  destruct (bytes_eqb (tval k) (kw "subscription")); [inversion H; reflexivity|discriminate].
Qed.

Lemma parse_operation_complete : forall fuel p o, DOperation p o -> (length p < fuel)%nat -> forall pe rest,
  parse_operation fuel (pe, p ++ rest) = Ok (DOp o, (endof pe p, rest)).
Proof.
  intros fuel p o D Hl pe rest. destruct D as [p ss Ds | k op pn nm pv vds pd dirs ps ss Kk Ho Dn Dv Dd Ds].
  - unfold parse_operation. rewrite (peek_app_hk _ _ _ _ (selset_starts _ _ Ds)).
    rewrite (parse_selset_complete fuel p ss Ds Hl). cbv beta iota. f_equal. f_equal. f_equal. f_equal.
    apply mkl_span_c. eapply selset_nonnil; eassumption.
  - unfold parse_operation. cbn [app]. unfold peek at 1. cbn [snd]. rewrite Kk. cbn [tkind_beq].
    rewrite (parse_optype_yes _ _ _ _ Kk Ho). cbv beta iota.
    pose proof (optdelim_starts _ _ _ _ _ _ Dv) as Sv. pose proof (direcs_starts _ _ Dd) as Sd.
    pose proof (selset_starts _ _ Ds) as Hs. simpl in Hl. rewrite !app_length in Hl. rewrite <- !app_assoc.
    assert (NS : forall k0, k0 <> BRACE_L -> nk k0 (ps ++ rest)).
    { intros k0 Hk0. destruct ps as [|t0 r0]; [discriminate Hs|]. simpl in Hs. inversion Hs. apply (nk_cons_eq _ BRACE_L); auto. }
    match goal with |- match ?X with Ok _ => _ | Err => _ | OutOfFuel => _ end = _ =>
      assert (E : X = Ok (nm, (endof (tend k) pn, pv ++ pd ++ ps ++ rest))) end.
    { destruct Dn as [|pn n0 Dn0].
      - cbn [app]. rewrite peek_nk; [reflexivity|].
        apply (nk_app _ [PAREN_L]); [exact Sv|apply not_in1; discriminate|].
        apply (nk_app _ [AT]); [exact Sd|apply not_in1; discriminate|]. apply NS. discriminate.
      - destruct Dn0 as [t Kt]. cbn [app]. rewrite (peek_yes _ _ _ _ Kt). rewrite (parse_name_yes _ _ _ Kt). reflexivity. }
    rewrite E. cbv beta iota.
    rewrite (parse_vardefs_complete fuel pv vds Dv ltac:(lia)).
    2:{ apply (nk_app _ [AT]); [exact Sd|apply not_in1; discriminate|]. apply NS. discriminate. }
    cbv beta iota.
    rewrite (parse_directives_complete fuel pd dirs Dd ltac:(lia)); [|apply NS; discriminate|apply NS; discriminate].
    cbv beta iota.
    rewrite (parse_selset_complete fuel ps ss Ds ltac:(lia)). eo2.
Qed.

Lemma parse_fragment_definition_complete : forall fuel p f, DFragment p f -> (length p < fuel)%nat -> forall pe rest,
  parse_fragment_definition fuel (pe, p ++ rest) = Ok (DFrag f, (endof pe p, rest)).
Proof.
  intros fuel p f D Hl pe rest. destruct D as [fk pn n o t pd dirs ps ss Kf Vf Dn Ko Vo Kt Dd Ds].
  destruct Dn as [tn Ktn Vtn].
  unfold parse_fragment_definition. cbn [app]. rewrite (expect_kw_yes _ _ _ _ Kf Vf). cbv beta iota.
  assert (Hk : cur_is_kw (kw "on") (tend fk, tn :: o :: t :: (pd ++ ps) ++ rest) = false).
  { unfold cur_is_kw. cbn [snd]. rewrite Ktn. cbn [tkind_beq andb]. apply bytes_eqb_neq. exact Vtn. }
  unfold parse_fragment_name. rewrite Hk. rewrite (parse_name_yes _ _ _ Ktn). cbv beta iota.
  rewrite (expect_kw_yes _ _ _ _ Ko Vo). cbv beta iota. rewrite (parse_named_yes _ _ _ Kt). cbv beta iota.
  pose proof (selset_starts _ _ Ds) as Hs. simpl in Hl. rewrite !app_length in Hl. rewrite <- !app_assoc.
  assert (NS : forall k0, k0 <> BRACE_L -> nk k0 (ps ++ rest)).
  { intros k0 Hk0. destruct ps as [|t0 r0]; [discriminate Hs|]. simpl in Hs. inversion Hs. apply (nk_cons_eq _ BRACE_L); auto. }
  rewrite (parse_directives_complete fuel pd dirs Dd ltac:(lia)); [|apply NS; discriminate|apply NS; discriminate].
  cbv beta iota.
  rewrite (parse_selset_complete fuel ps ss Ds ltac:(lia)). eo2.
Qed.

(* ---- executable documents ---- *)
Definition is_exec (d : definition) : bool := match d with DOp _ | DFrag _ => true | _ => false end.
Definition exec_only (d : document) : bool := forallb is_exec (doc_defs d).

Lemma typesystem_not_exec : forall p d, DTypeSystem p d -> is_exec d = false.
Proof. intros p d D. destruct D; reflexivity. Qed.

Lemma exec_definition_first : forall p d, DDefinition p d -> is_exec d = true ->
  exists t p', p = t :: p' /\ (tk t = BRACE_L \/ tk t = NAME).
Proof.
  intros p d D E. destruct D as [p o Do|p f Df|p d Dt].
  - destruct Do as [p ss Ds|k op pn nm pv vds pd dirs ps ss Kk _ _ _ _ _].
    + pose proof (selset_starts _ _ Ds) as H. destruct p as [|t r]; [discriminate H|]. simpl in H. inversion H. eauto.
    + eauto.
  - destruct Df as [fk pn n o t pd dirs ps ss Kf _ _ _ _ _ _ _]. eauto.
  - rewrite (typesystem_not_exec _ _ Dt) in E. discriminate E.
Qed.

Lemma parse_definition_complete_exec : forall fuel p d, DDefinition p d -> is_exec d = true -> (length p < fuel)%nat ->
  forall pe rest, parse_definition fuel (pe, p ++ rest) = Ok (d, (endof pe p, rest)).
Proof.
  intros fuel p d D E Hl pe rest. destruct D as [p o Do|p f Df|p d Dt].
  - pose proof Do as Do'. destruct Do' as [p ss Ds|k op pn nm pv vds pd dirs ps ss Kk Ho _ _ _ _].
    + unfold parse_definition. rewrite (peek_app_hk _ _ _ _ (selset_starts _ _ Ds)). apply parse_operation_complete; assumption.
    + unfold parse_definition. cbn [app]. unfold peek. cbn [snd]. rewrite Kk. cbn [tkind_beq orb].
      unfold parse_type_system_definition, keyword_token, peek_description, peek. cbn [snd]. rewrite Kk. cbn [tkind_beq orb negb]. rewrite ?Kk. cbn [tkind_beq negb].
      destruct (optype_of_query _ _ Ho) as (H1 & H2 & _). rewrite H1, H2.
      change (k :: (pn ++ pv ++ pd ++ ps) ++ rest) with ((k :: pn ++ pv ++ pd ++ ps) ++ rest).
      apply parse_operation_complete; assumption.
  - pose proof Df as Df'. destruct Df' as [fk pn n o t pd dirs ps ss Kf Vf _ _ _ _ _ _].
    unfold parse_definition. cbn [app]. unfold peek. cbn [snd]. rewrite Kf. cbn [tkind_beq orb].
    unfold parse_type_system_definition, keyword_token, peek_description, peek. cbn [snd]. rewrite Kf. cbn [tkind_beq orb negb]. rewrite ?Kf. cbn [tkind_beq negb].
    rewrite Vf. rewrite bytes_eqb_refl.
    change (fk :: (pn ++ o :: t :: pd ++ ps) ++ rest) with ((fk :: pn ++ o :: t :: pd ++ ps) ++ rest).
    apply parse_fragment_definition_complete; assumption.
  - rewrite (typesystem_not_exec _ _ Dt) in E. discriminate E.
Qed.

Lemma DStar_exec : forall ps l n, DStar DDefinition ps l -> forallb is_exec l = true -> (length ps < n)%nat ->
  DStar (fun p d => DDefinition p d /\ is_exec d = true /\ (length p < n)%nat) ps l.
Proof.
  intros ps l n D. induction D as [|p a ps l Hpa _ IH]; intros E Hl; [constructor|].
  simpl in E. apply andb_true_iff in E. destruct E as [E1 E2]. rewrite app_length in Hl.
  constructor; [repeat split; [assumption|assumption|lia] | apply IH; [assumption|lia]].
Qed.

Theorem parse_tokens_complete_exec : forall ts d, Derives ts d -> exec_only d = true -> parse_tokens ts = Ok d.
Proof.
  intros ts d D E. destruct D as [p defs e Ds Hne Ke]. unfold exec_only in E. cbn [doc_defs] in E.
  unfold parse_tokens, parse_document.
  set (fuel := S (2 * length (p ++ [e]))).
  assert (Hf : (length p < fuel)%nat) by (unfold fuel; rewrite app_length; simpl; lia).
  change (p ++ [e]) with (p ++ e :: []) at 2.
  rewrite (many_complete (parse_definition fuel)
             (fun p d => DDefinition p d /\ is_exec d = true /\ (length p < fuel)%nat) EOF (fun _ => True))
    with (l := defs).
  - cbv beta iota. destruct defs as [|d0 defs']; [contradiction Hne; reflexivity|]. cbn [is_nil snd].
    f_equal. f_equal. unfold mkl, span, cur_start, endof. cbn [fst snd]. rewrite !fold_left_app. cbn [fold_left].
    destruct p; reflexivity.
  - intros p0 a (H1 & H2 & _). destruct (exec_definition_first _ _ H1 H2) as (t & p' & -> & [K|K]);
      eexists; eexists; (split; [reflexivity|]); rewrite K; discriminate.
  - intros p0 a pe rest (H1 & H2 & H3) _. apply parse_definition_complete_exec; assumption.
  - auto.
  - auto.
  - apply DStar_exec; assumption.
  - exact Ke.
  - assert (length defs <= length p)%nat; [|lia].
    apply (DStar_length _ _ _ _ (DStar_exec _ _ fuel Ds E Hf)).
    intros p0 a (H1 & H2 & _). destruct (exec_definition_first _ _ H1 H2) as (t & p' & -> & _). discriminate.
Qed.
