(* Completeness of CollectFields (Exec.collect) through named fragment spreads: every included,
   type-matching occurrence reachable from the selection set (CollectProofs.Occurs) is collected.

   The argument is the closure argument for a depth-first walk with a visited set.  No acyclicity
   of the fragment table is assumed: collect cuts cycles with the visited list, Occurs has finite
   derivations.

   [Closed g V sels] says the selection set is closed one step deep: its included fields are in g,
   its included spreads of existing, matching fragments are in V, and the bodies of its included,
   matching inline fragments are Closed again.  A run of collect from (visited, g) to (g', v')
   establishes
     - Closed g' v' sels, and
     - Closed g' v' (body of F) for every existing, matching fragment F in v' but not in visited
       (the fragments of [visited] are the ones whose walk is still in progress further up; nothing
       is claimed about them, which is where a cycle is cut).
   With visited = [] every fragment of v' is closed, and an induction on the derivation of Occurs
   ends the proof. *)
From Coq Require Import List ZArith NArith String Bool.
From GQL Require Import Exec.Syntax Exec.Coerce Exec.Exec Proofs.CollectProofs.
Import ListNotations.
Open Scope string_scope.
Open Scope list_scope.

Section Complete.
Variables (S : schema) (D : document) (vars : list (name * jv)) (obj : name).

Inductive Closed (g : groups) (V : list name) : list selection -> Prop :=
| Closed_intro sels :
    (forall id al nm args ds sub,
        In (SField id al nm args ds sub) sels -> included S ds vars = true ->
        in_group g (key_of al nm) {| oc_id := id; oc_name := nm; oc_args := args; oc_sub := sub |}) ->
    (forall id nm ds f,
        In (SSpread id nm ds) sels -> included S ds vars = true ->
        find_fragment nm (d_frags D) = Some f -> fragment_matches S (Some (fr_cond f)) obj = true ->
        In nm V) ->
    (forall id tc ds sub,
        In (SInline id tc ds sub) sels -> included S ds vars = true ->
        fragment_matches S tc obj = true -> Closed g V sub) ->
    Closed g V sels.

(* every existing, matching fragment of V that is not in V0 has a Closed body *)
Definition FragsClosed (g : groups) (V V0 : list name) : Prop :=
  forall nm f, In nm V -> ~ In nm V0 ->
    find_fragment nm (d_frags D) = Some f -> fragment_matches S (Some (fr_cond f)) obj = true ->
    Closed g V (fr_sel f).

Definition gincl (g g' : groups) : Prop := forall k o, in_group g k o -> in_group g' k o.

Lemma Closed_mono : forall g V sels, Closed g V sels ->
  forall g' V', gincl g g' -> incl V V' -> Closed g' V' sels.
Proof.
  intros g V sels H. induction H as [sels Hf Hs Hi IH]. intros g' V' Hg HV.
  constructor.
  - intros. apply Hg. eapply Hf; eassumption.
  - intros. apply HV. eapply Hs; eassumption.
  - intros. eapply IH; eassumption.
Qed.

Lemma Closed_nil : forall g V, Closed g V [].
Proof. intros. constructor; intros; contradiction. Qed.

Lemma Closed_inv_tail : forall g V x sels, Closed g V (x :: sels) -> Closed g V sels.
Proof.
  intros g V x sels H. inversion H as [sels0 Hf Hs Hi]; subst.
  constructor; intros.
  - eapply Hf; [right; eassumption|assumption].
  - eapply Hs; [right; eassumption|eassumption..].
  - eapply Hi; [right; eassumption|assumption..].
Qed.

(* consing a selection that contributes nothing (excluded, or a non-matching condition) *)
Lemma Closed_cons_field : forall g V id al nm args ds sub rest,
  (included S ds vars = true ->
   in_group g (key_of al nm) {| oc_id := id; oc_name := nm; oc_args := args; oc_sub := sub |}) ->
  Closed g V rest -> Closed g V (SField id al nm args ds sub :: rest).
Proof.
  intros g V id al nm args ds sub rest Hh H. inversion H as [sels0 Hf Hs Hi]; subst.
  constructor; intros *; intros [E|Hin].
  - inversion E; subst. exact Hh.
  - apply Hf. exact Hin.
  - discriminate E.
  - eapply Hs. exact Hin.
  - discriminate E.
  - eapply Hi. exact Hin.
Qed.

Lemma Closed_cons_spread : forall g V id nm ds rest,
  (included S ds vars = true -> forall f, find_fragment nm (d_frags D) = Some f ->
   fragment_matches S (Some (fr_cond f)) obj = true -> In nm V) ->
  Closed g V rest -> Closed g V (SSpread id nm ds :: rest).
Proof.
  intros g V id nm ds rest Hh H. inversion H as [sels0 Hf Hs Hi]; subst.
  constructor; intros *; intros [E|Hin].
  - discriminate E.
  - apply Hf. exact Hin.
  - inversion E; subst. intros. eapply Hh; eassumption.
  - eapply Hs. exact Hin.
  - discriminate E.
  - eapply Hi. exact Hin.
Qed.

Lemma Closed_cons_inline : forall g V id tc ds sub rest,
  (included S ds vars = true -> fragment_matches S tc obj = true -> Closed g V sub) ->
  Closed g V rest -> Closed g V (SInline id tc ds sub :: rest).
Proof.
  intros g V id tc ds sub rest Hh H. inversion H as [sels0 Hf Hs Hi]; subst.
  constructor; intros *; intros [E|Hin].
  - discriminate E.
  - apply Hf. exact Hin.
  - discriminate E.
  - eapply Hs. exact Hin.
  - inversion E; subst. exact Hh.
  - eapply Hi. exact Hin.
Qed.

Lemma nmem_In : forall k l, nmem k l = true <-> In k l.
Proof.
  intros k l. induction l as [|k' r IH]; cbn [nmem In].
  - split; [discriminate|contradiction].
  - rewrite orb_true_iff, IH, String.eqb_eq. split; intros [H|H]; auto.
Qed.

Lemma In_name_dec : forall (k : name) l, In k l \/ ~ In k l.
Proof.
  intros k l. destruct (nmem k l) eqn:E.
  - left. apply nmem_In. exact E.
  - right. intro H. apply nmem_In in H. congruence.
Qed.

Lemma gincl_refl : forall g, gincl g g.
Proof. intros g k o H. exact H. Qed.

(* FragsClosed across two consecutive runs: visited -> v1 -> v' *)
Lemma FragsClosed_trans : forall g1 g' v0 v1 v',
  FragsClosed g1 v1 v0 -> FragsClosed g' v' v1 -> gincl g1 g' -> incl v1 v' ->
  FragsClosed g' v' v0.
Proof.
  intros g1 g' v0 v1 v' H1 H2 Hg Hv nm f Hin Hn Hf Hm.
  destruct (In_name_dec nm v1) as [Hi|Hi].
  - eapply Closed_mono; [eapply H1; eassumption|exact Hg|exact Hv].
  - eapply H2; eassumption.
Qed.

(* the invariant of one run of collect *)
Lemma collect_closed : forall fuel sels visited g g' v',
  collect fuel S D vars obj sels visited g = Some (g', v') ->
  incl visited v' /\ Closed g' v' sels /\ FragsClosed g' v' visited.
Proof.
  induction fuel as [|fuel IH]; intros sels visited g g' v' H; [discriminate|].
  cbn [collect] in H.
  destruct sels as [|[id al nm args ds sub|id nm ds|id tc ds sub] rest].
  - inversion H; subst. split; [apply incl_refl|]. split; [apply Closed_nil|].
    intros nm f Hin Hn. contradiction.
  - (* field *)
    destruct (included S ds vars) eqn:Ei.
    + destruct (IH _ _ _ _ _ H) as (Hv & Hc & Hfr).
      split; [exact Hv|]. split; [|exact Hfr].
      apply Closed_cons_field; [|exact Hc]. intros _.
      eapply collect_keeps; [exact H|]. apply add_occ_adds.
    + destruct (IH _ _ _ _ _ H) as (Hv & Hc & Hfr).
      split; [exact Hv|]. split; [|exact Hfr].
      apply Closed_cons_field; [|exact Hc]. intros E. congruence.
  - (* spread *)
    destruct (included S ds vars) eqn:Ei; cbn [andb] in H.
    2:{ destruct (IH _ _ _ _ _ H) as (Hv & Hc & Hfr).
        split; [exact Hv|]. split; [|exact Hfr].
        apply Closed_cons_spread; [|exact Hc]. intros E. congruence. }
    destruct (nmem nm visited) eqn:En; cbn [negb] in H.
    { (* already visited *)
      destruct (IH _ _ _ _ _ H) as (Hv & Hc & Hfr).
      split; [exact Hv|]. split; [|exact Hfr].
      apply Closed_cons_spread; [|exact Hc]. intros _ f _ _.
      apply Hv. apply nmem_In. exact En. }
    assert (Hnv : ~ In nm visited) by (intro Hx; apply nmem_In in Hx; congruence).
    destruct (find_fragment nm (d_frags D)) as [f|] eqn:Ef.
    2:{ destruct (IH _ _ _ _ _ H) as (Hv & Hc & Hfr).
        split; [exact Hv|]. split; [|exact Hfr].
        apply Closed_cons_spread; [|exact Hc]. intros _ f0 E. congruence. }
    destruct (fragment_matches S (Some (fr_cond f)) obj) eqn:Em.
    + destruct (collect fuel S D vars obj (fr_sel f) (nm :: visited) g) as [[g1 v1]|] eqn:E1; [|discriminate].
      destruct (IH _ _ _ _ _ E1) as (Hv1 & Hc1 & Hfr1).
      destruct (IH _ _ _ _ _ H) as (Hv & Hc & Hfr).
      assert (Hg : gincl g1 g') by (intros k o Hko; eapply collect_keeps; eassumption).
      split; [intros x Hx; apply Hv, Hv1; right; exact Hx|].
      split.
      * apply Closed_cons_spread; [|exact Hc]. intros _ f0 _ _. apply Hv, Hv1. left. reflexivity.
      * (* fragments new since visited: nm itself, those of the body walk, those of the rest *)
        assert (Hfr1' : FragsClosed g1 v1 visited).
        { intros nm0 f0 Hin0 Hn0 Hf0 Hm0.
          destruct (String.eqb nm0 nm) eqn:Eq.
          - apply String.eqb_eq in Eq. subst nm0. rewrite Ef in Hf0. inversion Hf0; subst f0. exact Hc1.
          - apply String.eqb_neq in Eq. eapply Hfr1; try eassumption.
            intros [Hx|Hx]; [apply Eq; symmetry; exact Hx|exact (Hn0 Hx)]. }
        eapply FragsClosed_trans; eassumption.
    + destruct (IH _ _ _ _ _ H) as (Hv & Hc & Hfr).
      split; [intros x Hx; apply Hv; right; exact Hx|].
      split.
      * apply Closed_cons_spread; [|exact Hc]. intros _ f0 _ _. apply Hv. left. reflexivity.
      * intros nm0 f0 Hin0 Hn0 Hf0 Hm0.
        destruct (String.eqb nm0 nm) eqn:Eq.
        -- apply String.eqb_eq in Eq. subst nm0. rewrite Ef in Hf0. inversion Hf0; subst f0. congruence.
        -- apply String.eqb_neq in Eq. eapply Hfr; try eassumption.
           intros [Hx|Hx]; [apply Eq; symmetry; exact Hx|exact (Hn0 Hx)].
  - (* inline fragment *)
    destruct (included S ds vars && fragment_matches S tc obj) eqn:Ei.
    + destruct (collect fuel S D vars obj sub visited g) as [[g1 v1]|] eqn:E1; [|discriminate].
      destruct (IH _ _ _ _ _ E1) as (Hv1 & Hc1 & Hfr1).
      destruct (IH _ _ _ _ _ H) as (Hv & Hc & Hfr).
      assert (Hg : gincl g1 g') by (intros k o Hko; eapply collect_keeps; eassumption).
      split; [intros x Hx; apply Hv, Hv1; exact Hx|].
      split.
      * apply Closed_cons_inline; [|exact Hc]. intros _ _.
        eapply Closed_mono; [exact Hc1|exact Hg|exact Hv].
      * eapply FragsClosed_trans; eassumption.
    + destruct (IH _ _ _ _ _ H) as (Hv & Hc & Hfr).
      split; [exact Hv|]. split; [|exact Hfr].
      apply Closed_cons_inline; [|exact Hc]. intros E1 E2. rewrite E1, E2 in Ei. discriminate Ei.
Qed.

(* closed everywhere: every reachable occurrence is in g *)
Lemma Closed_Occurs : forall g V,
  FragsClosed g V [] ->
  forall sels k o, Occurs S D vars obj sels k o -> Closed g V sels -> in_group g k o.
Proof.
  intros g V HF sels k o Ho.
  induction Ho as [sels id al nm args ds sub Hin Hi
                  |sels id tc ds sub k o Hin Hi Hm Hs IHo
                  |sels id nm ds f k o Hin Hi Hf Hm Hs IHo]; intros Hc;
    inversion Hc as [sels0 Cf Cs Ci]; subst.
  - eapply Cf; eassumption.
  - apply IHo. eapply Ci; eassumption.
  - apply IHo. eapply HF; [eapply Cs; eassumption|intros []|exact Hf|exact Hm].
Qed.

(* completeness, with an arbitrary accumulator to start from *)
Theorem collect_complete_acc : forall fuel sels g g' v',
  collect fuel S D vars obj sels [] g = Some (g', v') ->
  forall k o, Occurs S D vars obj sels k o -> in_group g' k o.
Proof.
  intros fuel sels g g' v' H k o Ho.
  destruct (collect_closed _ _ _ _ _ _ H) as (_ & Hc & Hfr).
  eapply Closed_Occurs; eassumption.
Qed.

Theorem collect_complete : forall fuel sels g' v',
  collect fuel S D vars obj sels [] [] = Some (g', v') ->
  forall k o, Occurs S D vars obj sels k o -> in_group g' k o.
Proof. intros fuel sels g' v'. apply collect_complete_acc. Qed.

(* with a non-empty visited list: what is reachable without entering a fragment of [visited]
   is collected *)
Inductive OccursAvoiding (V : list name) : list selection -> name -> occ -> Prop :=
| Oa_field sels id al nm args ds sub :
    In (SField id al nm args ds sub) sels -> included S ds vars = true ->
    OccursAvoiding V sels (key_of al nm) {| oc_id := id; oc_name := nm; oc_args := args; oc_sub := sub |}
| Oa_inline sels id tc ds sub k o :
    In (SInline id tc ds sub) sels -> included S ds vars = true -> fragment_matches S tc obj = true ->
    OccursAvoiding V sub k o -> OccursAvoiding V sels k o
| Oa_spread sels id nm ds f k o :
    In (SSpread id nm ds) sels -> included S ds vars = true -> ~ In nm V ->
    find_fragment nm (d_frags D) = Some f -> fragment_matches S (Some (fr_cond f)) obj = true ->
    OccursAvoiding V (fr_sel f) k o -> OccursAvoiding V sels k o.

Lemma OccursAvoiding_nil : forall sels k o,
  Occurs S D vars obj sels k o <-> OccursAvoiding [] sels k o.
Proof.
  intros sels k o. split; intros H.
  - induction H.
    + eapply Oa_field; eassumption.
    + eapply Oa_inline; eassumption.
    + eapply Oa_spread; try eassumption. intros [].
  - induction H.
    + eapply Oc_field; eassumption.
    + eapply Oc_inline; eassumption.
    + eapply Oc_spread; eassumption.
Qed.

Theorem collect_complete_avoiding : forall fuel sels visited g g' v',
  collect fuel S D vars obj sels visited g = Some (g', v') ->
  forall k o, OccursAvoiding visited sels k o -> in_group g' k o.
Proof.
  intros fuel sels visited g g' v' H k o Ho.
  destruct (collect_closed _ _ _ _ _ _ H) as (_ & Hc & Hfr).
  clear H. revert Hc.
  induction Ho as [sels id al nm args ds sub Hin Hi
                  |sels id tc ds sub k o Hin Hi Hm Hs IHo
                  |sels id nm ds f k o Hin Hi Hn Hf Hm Hs IHo]; intros Hc;
    inversion Hc as [sels0 Cf Cs Ci]; subst.
  - eapply Cf; eassumption.
  - apply IHo. eapply Ci; eassumption.
  - apply IHo. eapply Hfr; [eapply Cs; eassumption|exact Hn|exact Hf|exact Hm].
Qed.

(* ---- groups are never empty ---- *)
Definition nonempty_groups (g : groups) : Prop := forall k os, In (k, os) g -> os <> [].

Lemma add_occ_nonempty : forall k o g, nonempty_groups g -> nonempty_groups (add_occ k o g).
Proof.
  intros k o g. induction g as [|[k0 os0] g IH]; intros Hn k' os' Hin.
  - cbn in Hin. destruct Hin as [E|[]]. inversion E; subst. discriminate.
  - cbn [add_occ] in Hin. destruct (String.eqb k k0).
    + destruct Hin as [E|Hin].
      * inversion E; subst. intro Hx. apply app_eq_nil in Hx. destruct Hx as [_ Hx]. discriminate Hx.
      * eapply Hn. right. exact Hin.
    + destruct Hin as [E|Hin].
      * inversion E; subst. eapply Hn. left. reflexivity.
      * eapply IH; [|exact Hin]. intros k1 os1 H1. eapply Hn. right. exact H1.
Qed.

Lemma collect_nonempty : forall fuel sels visited g g' v',
  collect fuel S D vars obj sels visited g = Some (g', v') ->
  nonempty_groups g -> nonempty_groups g'.
Proof.
  induction fuel as [|fuel IH]; intros sels visited g g' v' H Hn; [discriminate|].
  cbn [collect] in H.
  destruct sels as [|[id al nm args ds sub|id nm ds|id tc ds sub] rest].
  - inversion H; subst. exact Hn.
  - destruct (included S ds vars); eapply IH; try eassumption. apply add_occ_nonempty. exact Hn.
  - destruct (included S ds vars && negb (nmem nm visited)); [|eapply IH; eassumption].
    destruct (find_fragment nm (d_frags D)) as [f|]; [|eapply IH; eassumption].
    destruct (fragment_matches S (Some (fr_cond f)) obj); [|eapply IH; eassumption].
    destruct (collect fuel S D vars obj (fr_sel f) (nm :: visited) g) as [[g1 v1]|] eqn:E1; [|discriminate].
    eapply IH; [exact H|]. eapply IH; eassumption.
  - destruct (included S ds vars && fragment_matches S tc obj); [|eapply IH; eassumption].
    destruct (collect fuel S D vars obj sub visited g) as [[g1 v1]|] eqn:E1; [|discriminate].
    eapply IH; [exact H|]. eapply IH; eassumption.
Qed.

(* a collected occurrence is exactly a reachable one *)
Theorem collect_exact : forall fuel sels g' v',
  collect fuel S D vars obj sels [] [] = Some (g', v') ->
  forall k o, in_group g' k o <-> Occurs S D vars obj sels k o.
Proof.
  intros fuel sels g' v' H k o. split.
  - intros Hin. destruct (collect_sound _ _ _ _ _ _ _ _ _ _ H k o Hin) as [[os [[] _]]|Ho]. exact Ho.
  - eapply collect_complete. exact H.
Qed.

(* a response key is present iff at least one of its occurrences is included *)
Theorem collect_key_present_iff : forall fuel sels g' v',
  collect fuel S D vars obj sels [] [] = Some (g', v') ->
  forall k, In k (map fst g') <-> exists o, Occurs S D vars obj sels k o.
Proof.
  intros fuel sels g' v' H k. split.
  - intros Hin. apply in_map_iff in Hin. destruct Hin as [[k0 os] [E Hin]]. cbn in E. subst k0.
    assert (Hne : os <> []).
    { eapply (collect_nonempty _ _ _ _ _ _ H); [intros ? ? []|exact Hin]. }
    destruct os as [|o os]; [congruence|]. exists o.
    apply (collect_exact _ _ _ _ H). exists (o :: os). split; [exact Hin|left; reflexivity].
  - intros [o Ho]. apply (collect_exact _ _ _ _ H) in Ho. destruct Ho as [os [Hin _]].
    apply in_map_iff. exists (k, os). split; [reflexivity|exact Hin].
Qed.

(* ---- collect_all: the merged selection sets of a field group (one visited list) ---- *)
Lemma collect_all_closed : forall fuel sets visited g g',
  collect_all fuel S D vars obj sets visited g = Some g' ->
  gincl g g' /\
  exists v', incl visited v' /\ (forall s, In s sets -> Closed g' v' s) /\ FragsClosed g' v' visited.
Proof.
  intros fuel sets. induction sets as [|s r IH]; intros visited g g' H; cbn [collect_all] in H.
  - inversion H; subst. split; [apply gincl_refl|]. exists visited.
    split; [apply incl_refl|]. split; [intros s []|]. intros nm f Hin Hn. contradiction.
  - destruct (collect fuel S D vars obj s visited g) as [[g1 v1]|] eqn:E1; [|discriminate].
    destruct (collect_closed _ _ _ _ _ _ E1) as (Hv1 & Hc1 & Hfr1).
    destruct (IH _ _ _ H) as (Hg & v' & Hv & Hc & Hfr).
    split; [intros k o Hko; apply Hg; eapply collect_keeps; eassumption|].
    exists v'. split; [intros x Hx; apply Hv, Hv1; exact Hx|].
    split.
    + intros s0 [<-|Hin]; [|apply Hc; exact Hin].
      eapply Closed_mono; [exact Hc1|exact Hg|exact Hv].
    + eapply FragsClosed_trans; eassumption.
Qed.

Theorem collect_all_complete : forall fuel sets g',
  collect_all fuel S D vars obj sets [] [] = Some g' ->
  forall s k o, In s sets -> Occurs S D vars obj s k o -> in_group g' k o.
Proof.
  intros fuel sets g' H s k o Hin Ho.
  destruct (collect_all_closed _ _ _ _ _ H) as (_ & v' & _ & Hc & Hfr).
  eapply Closed_Occurs; [exact Hfr|exact Ho|apply Hc; exact Hin].
Qed.

Lemma collect_all_sound_acc : forall fuel sets visited g g',
  collect_all fuel S D vars obj sets visited g = Some g' ->
  forall k o, in_group g' k o -> in_group g k o \/ exists s, In s sets /\ Occurs S D vars obj s k o.
Proof.
  intros fuel sets. induction sets as [|s r IH]; intros visited g g' H k o Hin; cbn [collect_all] in H.
  - inversion H; subst. left. exact Hin.
  - destruct (collect fuel S D vars obj s visited g) as [[g1 v1]|] eqn:E1; [|discriminate].
    destruct (IH _ _ _ H k o Hin) as [Hg|[s0 [Hs0 Ho]]].
    + destruct (collect_sound _ _ _ _ _ _ _ _ _ _ E1 k o Hg) as [Hg'|Ho]; [left; exact Hg'|].
      right. exists s. split; [left; reflexivity|exact Ho].
    + right. exists s0. split; [right; exact Hs0|exact Ho].
Qed.

Theorem collect_all_exact : forall fuel sets g',
  collect_all fuel S D vars obj sets [] [] = Some g' ->
  forall k o, in_group g' k o <-> exists s, In s sets /\ Occurs S D vars obj s k o.
Proof.
  intros fuel sets g' H k o. split.
  - intros Hin. destruct (collect_all_sound_acc _ _ _ _ _ H k o Hin) as [[os [[] _]]|Ho]. exact Ho.
  - intros [s [Hin Ho]]. eapply collect_all_complete; eassumption.
Qed.

End Complete.

(* the statements in the argument order of collect (fuel first), as quoted in Properties/C01.v *)
Lemma collect_complete_full : forall fuel S D vars obj sels g' v',
  collect fuel S D vars obj sels [] [] = Some (g', v') ->
  forall k o, Occurs S D vars obj sels k o -> in_group g' k o.
Proof. intros fuel S D vars obj. apply collect_complete. Qed.

Lemma collect_key_present : forall fuel S D vars obj sels g' v',
  collect fuel S D vars obj sels [] [] = Some (g', v') ->
  (forall k, In k (map fst g') <-> exists o, Occurs S D vars obj sels k o).
Proof. intros fuel S D vars obj. apply collect_key_present_iff. Qed.

Lemma collect_all_exact_full : forall fuel S D vars obj sets g',
  collect_all fuel S D vars obj sets [] [] = Some g' ->
  forall k o, in_group g' k o <-> exists s, In s sets /\ Occurs S D vars obj s k o.
Proof. intros fuel S D vars obj. apply collect_all_exact. Qed.
