(* Part 2 of the reflection of the unmemoised executable into the declarative decomposition
   (see Proofs/ValidateReflect.v): from "every unordered pair once, never a field with
   itself, nested sets under TypeInfo's parent type" to [within] over all ordered pairs and
   the rule's own parent types. *)
From Coq Require Import List Arith Lia Bool String NArith ZArith.
From GQL Require Import Exec.Syntax Validate.Overlap Validate.OverlapSpec Validate.OverlapWf Validate.Cost
     Proofs.ValidateRules Proofs.ValidateOverlap Proofs.ValidateMemo Proofs.ValidateCost Proofs.ValidateMemoHard
     Proofs.ValidateArgs Proofs.ValidateL1 Proofs.ValidateFcBound Proofs.ValidateReflect.
Import ListNotations.
Open Scope string_scope.
Open Scope list_scope.

(* ---- reflexivity of the two-field test ---- *)
Lemma value_eqb_refl : forall v, value_eqb v v = true.
Proof.
  induction v using value_ind'; simpl;
    try (apply String.eqb_refl); try (apply Z.eqb_refl).
  - rewrite Z.eqb_refl, Pos.eqb_refl. reflexivity.
  - destruct b; reflexivity.
  - induction H as [|x r Hx Hr IH]; [reflexivity|]. rewrite Hx. simpl. exact IH.
  - induction H as [|[k x] r Hx Hr IH]; [reflexivity|]. simpl in Hx. rewrite String.eqb_refl, Hx. simpl. exact IH.
Qed.

Lemma same_args_refl : forall a, NoDup (map fst a) -> same_args a a = true.
Proof.
  intros a ND. apply same_args_spec. split; [reflexivity|].
  intros n v Hin. exists v. split; [apply find_arg_nodup; assumption | apply value_eqb_refl].
Qed.

Lemma types_conflict_refl : forall S t, types_conflict S t t = false.
Proof.
  intros S t. induction t as [n|t IH|t IH]; simpl; [|exact IH|exact IH].
  rewrite String.eqb_refl. destruct (is_leaf S n || is_leaf S n); reflexivity.
Qed.

Lemma pt_eqb_refl : forall p, pt_eqb p p = true.
Proof. intros [n|]; simpl; [apply String.eqb_refl | reflexivity]. Qed.

Lemma excl_refl : forall S a, excl S a a = false.
Proof. intros S a. unfold excl. rewrite pt_eqb_refl. reflexivity. Qed.

Lemma base2_refl : forall S a, NoDup (map fst (fe_args a)) -> base2 S false a a = true.
Proof.
  intros S a ND. unfold base2, base_ok. rewrite String.eqb_refl, (same_args_refl _ ND). simpl.
  unfold ty_conflict. destruct (fe_ty a) as [t|]; [rewrite types_conflict_refl|]; reflexivity.
Qed.

(* ---- symmetry of the decomposition (for a symmetric two-field test) ---- *)
Section Sym.
Variable S : schema.
Variable D : document.
Variable base : bool -> fentry -> fentry -> bool.
Hypothesis base_sym : forall ex a b, base ex a b = base ex b a.
Notation Pfc := (OverlapSpec.fc S D base).
Notation Psubsets := (OverlapSpec.subsets S D base).
Notation PFF := (OverlapSpec.FF S D base).
Notation PFrFr := (OverlapSpec.FrFr S D base).

Lemma L2_sym :
  (forall fl a b, Pfc fl a b -> Pfc fl b a) /\
  (forall fl s1 s2, Psubsets fl s1 s2 -> Psubsets fl s2 s1) /\
  (forall fl s g, PFF fl s g -> True) /\
  (forall fl g1 g2, PFrFr fl g1 g2 -> PFrFr fl g2 g1).
Proof.
  apply L2_mutind2.
  - intros fl a b Hb Hs IH. constructor.
    + rewrite exf_sym, base_sym. exact Hb.
    + intros [H1 H2]. rewrite exf_sym. apply IH. split; assumption.
  - intros fl s1 s2 H1 IH1 H2 IH2 H3 IH3 H4 IH4. constructor.
    + intros a b Ha Hb Hk. apply (IH1 b a Hb Ha (eq_sym Hk)).
    + exact H3.
    + exact H2.
    + intros g1 g2 Hg1 Hg2. apply (IH4 g2 g1 Hg2 Hg1).
  - intros; exact I.
  - intros; exact I.
  - intros; exact I.
  - intros fl g1 g2 [E|E]; apply frfr_none; [right|left]; exact E.
  - intros fl g. apply frfr_same.
  - intros fl g1 g2 b1 b2 E1 E2 H1 IH1 H2 IH2 H3 IH3.
    apply (frfr_i S D base fl g2 g1 b2 b1 E2 E1).
    + intros x y Hx Hy Hk. apply (IH1 y x Hy Hx (eq_sym Hk)).
    + intros h Hh. apply (IH3 h Hh).
    + intros h Hh. apply (IH2 h Hh).
Qed.
End Sym.

(* ---- parent types that differ without the rule being able to tell ---- *)
Section Peq.
Variable S : schema.
Variable D : document.

(* a parent "type" without fields that is not an object type: nil, a leaf, a union, an
   input object, an unknown name *)
Definition nf (p : ptype) : Prop :=
  match p with
  | None => True
  | Some n => match lookup_type S n with
              | Some (TObject _ _) | Some (TInterface _) => False
              | _ => True
              end
  end.
Definition peq (p q : ptype) : Prop := p = q \/ (nf p /\ nf q).

Lemma peq_refl : forall p, peq p p.
Proof. intro p. left. reflexivity. Qed.
Lemma peq_sym : forall p q, peq p q -> peq q p.
Proof. intros p q [E|[H1 H2]]; [left; symmetry; exact E | right; split; assumption]. Qed.

Lemma nf_not_object : forall p, nf p -> pt_is_object S p = false.
Proof.
  intros [n|] H; [|reflexivity]. simpl in *. unfold is_object.
  destruct (lookup_type S n) as [[| | | | |]|]; try reflexivity; contradiction.
Qed.

Lemma nf_no_field : forall p nm, nf p -> rule_field_ty S p nm = None.
Proof.
  intros [n|] nm H; [|reflexivity]. simpl in *.
  destruct (lookup_type S n) as [[| | | | |]|]; try reflexivity; contradiction.
Qed.

Lemma peq_field_ty : forall p q nm, peq p q -> rule_field_ty S p nm = rule_field_ty S q nm.
Proof.
  intros p q nm [E|[H1 H2]]; [subst; reflexivity|]. rewrite (nf_no_field p nm H1), (nf_no_field q nm H2). reflexivity.
Qed.

Lemma peq_comp : forall p, peq p (comp S p).
Proof.
  intros [n|]; [|left; reflexivity]. simpl. destruct (is_composite S n) eqn:E; [left; reflexivity|].
  right. split; [|exact I]. simpl. unfold is_composite in E.
  destruct (lookup_type S n) as [[| | | | |]|]; try exact I; discriminate.
Qed.

Lemma peq_inline : forall p q tc, peq p q -> peq (inline_pt S p tc) (inline_pt S q tc).
Proof. intros p q [c|] H; simpl; [left; reflexivity | exact H]. Qed.

(* entries that differ in such parent types only *)
Definition eqv (a b : fentry) : Prop :=
  fe_id a = fe_id b /\ fe_key a = fe_key b /\ fe_name a = fe_name b /\ fe_args a = fe_args b /\
  fe_sub a = fe_sub b /\ fe_ty a = fe_ty b /\ peq (fe_pt a) (fe_pt b).

Lemma eqv_refl : forall a, eqv a a.
Proof. intro a. repeat split; try reflexivity. apply peq_refl. Qed.

Lemma excl_eqv : forall a a' b b', eqv a a' -> eqv b b' -> excl S a b = excl S a' b'.
Proof.
  intros a a' b b' (_ & _ & _ & _ & _ & _ & Pa) (_ & _ & _ & _ & _ & _ & Pb). unfold excl.
  destruct Pa as [Ea|[Na Na']].
  - destruct Pb as [Eb|[Nb Nb']].
    + rewrite Ea, Eb. reflexivity.
    + rewrite (nf_not_object _ Nb), (nf_not_object _ Nb'). rewrite !andb_false_r. reflexivity.
  - rewrite (nf_not_object _ Na), (nf_not_object _ Na'). rewrite !andb_false_r. reflexivity.
Qed.

Lemma base2_eqv : forall ex a a' b b', eqv a a' -> eqv b b' -> base2 S ex a b = base2 S ex a' b'.
Proof.
  intros ex a a' b b' (_ & _ & Na & Aa & _ & Ta & _) (_ & _ & Nb & Ab & _ & Tb & _).
  unfold base2, base_ok. rewrite Na, Aa, Ta, Nb, Ab, Tb. reflexivity.
Qed.

Notation Pfc := (OverlapSpec.fc S D (base2 S)).
Notation PFF := (OverlapSpec.FF S D (base2 S)).
Notation PFrFr := (OverlapSpec.FrFr S D (base2 S)).
Notation Pwithin := (within S D (base2 S)).

Lemma fc_eqv : forall fl a b a' b', Pfc fl a b -> eqv a a' -> eqv b b' -> Pfc fl a' b'.
Proof.
  intros fl a b a' b' H Ea Eb. inversion H as [fl0 a0 b0 Hb Hs]; subst.
  assert (Ex : exf S fl a' b' = exf S fl a b) by (unfold exf; rewrite (excl_eqv a a' b b' Ea Eb); reflexivity).
  pose proof Ea as (_ & _ & _ & _ & Sa & Ta & _). pose proof Eb as (_ & _ & _ & _ & Sb & Tb & _).
  constructor.
  - rewrite Ex, <- (base2_eqv _ a a' b b' Ea Eb). exact Hb.
  - intros [H1 H2]. rewrite Ex. unfold subset_of, sub_pt. rewrite <- Sa, <- Sb, <- Ta, <- Tb.
    apply Hs. split; unfold has_sub in *; [rewrite Sa | rewrite Sb]; assumption.
Qed.

Lemma dfields_sel_eqv : forall x p q, peq p q -> Forall2 eqv (dfields_sel S p x) (dfields_sel S q x).
Proof.
  induction x as [id al nm args ds sub IH | id g ds | id tc ds sub IH] using selection_ind'; intros p q H.
  - simpl. constructor; [|constructor]. unfold mk_entry, eqv. simpl.
    repeat split; try reflexivity; [apply peq_field_ty; exact H | exact H].
  - simpl. constructor.
  - rewrite !dfields_inline. unfold dfields.
    pose proof (peq_inline p q tc H) as H'. revert H'. generalize (inline_pt S p tc) (inline_pt S q tc). intros p' q' H'.
    induction IH as [|y r Hy Hr IHr]; simpl; [constructor|]. apply Forall2_app; [apply Hy; exact H' | exact IHr].
Qed.

Lemma dfields_eqv : forall ss p q, peq p q -> Forall2 eqv (dfields S p ss) (dfields S q ss).
Proof.
  intros ss p q H. unfold dfields. induction ss as [|x r IH]; simpl; [constructor|].
  apply Forall2_app; [apply dfields_sel_eqv; exact H | exact IH].
Qed.

Lemma Forall2_in_r : forall {A B} (R : A -> B -> Prop) l l' y, Forall2 R l l' -> In y l' -> exists x, In x l /\ R x y.
Proof.
  intros A B R l l' y H. induction H as [|a b l l' Hab H IH]; intros Hy; [destruct Hy|].
  destruct Hy as [Hy|Hy]; [subst; exists a; split; [left; reflexivity | exact Hab]|].
  destruct (IH Hy) as [x [Hx Rx]]. exists x. split; [right; exact Hx | exact Rx].
Qed.

Lemma fields_pre : forall p q ss y, peq p q -> In y (fields S (q, ss)) -> exists x, In x (fields S (p, ss)) /\ eqv x y.
Proof. intros p q ss y H Hy. unfold fields in *. simpl in *. eapply Forall2_in_r; [apply dfields_eqv; exact H | exact Hy]. Qed.

(* ---- FF and within under a change of such a parent type (acyclic documents) ---- *)
Variable rk : name -> nat.
Hypothesis Hrk : ranked S D rk.

Lemma FF_peq : forall fl s g, PFF fl s g ->
  forall q g0, peq (fst s) q -> Occ (snd s) g0 -> rk g <= rk g0 -> PFF fl (q, snd s) g.
Proof.
  intros fl s g H. induction H as [fl s g E | fl s g E | fl s g b E Hd He IH]; intros q g0 Hp Ho Hle.
  - apply ff_none. exact E.
  - exfalso. pose proof (Hrk g s E g0 Ho) as R. lia.
  - apply (ff_i S D (base2 S) fl (q, snd s) g b E).
    + intros x y Hx Hy Hk. destruct s as [p ss]. simpl in *.
      destruct (fields_pre p q ss x Hp Hx) as [x0 [Hx0 Ex]].
      apply (fc_eqv fl x0 y x y); [|exact Ex|apply eqv_refl].
      apply Hd; [exact Hx0 | exact Hy |]. destruct Ex as (_ & K & _). congruence.
    + intros h Hh. apply (IH h Hh q g0 Hp Ho).
      pose proof (Hrk g b E h (dspreads_occ _ _ Hh)) as R. lia.
Qed.

Lemma within_peq : forall s q, Pwithin s -> peq (fst s) q -> Pwithin (q, snd s).
Proof.
  intros [p ss] q (H1 & H2 & H3) Hp. simpl in *. split; [|split].
  - intros a b Ha Hb Hk.
    destruct (fields_pre p q ss a Hp Ha) as [a0 [Ha0 Ea]]. destruct (fields_pre p q ss b Hp Hb) as [b0 [Hb0 Eb]].
    apply (fc_eqv false a0 b0 a b); [|exact Ea|exact Eb]. apply H1; [exact Ha0 | exact Hb0 |].
    destruct Ea as (_ & Ka & _). destruct Eb as (_ & Kb & _). congruence.
  - intros g Hg. unfold frs in Hg. simpl in Hg.
    apply (FF_peq false (p, ss) g (H2 g Hg) q g Hp (dspreads_occ _ _ Hg) (le_n _)).
  - exact H3.
Qed.
End Peq.

(* ---- the selection sets the rule visits are closed under "sub-selection of a field",
   up to such a change of the parent type ---- *)
Lemma sets_go_flat : forall S pt l,
  (fix go (l : list selection) : list (ptype * list selection) :=
     match l with [] => [] | x :: r => sets_sel S pt x ++ go r end) l = flat_map (sets_sel S pt) l.
Proof. intros S pt l. induction l as [|x r IH]; simpl; [reflexivity | rewrite IH; reflexivity]. Qed.

Lemma sets_sel_field : forall S pt id al nm args ds sub,
  sets_sel S pt (SField id al nm args ds sub) =
  match sub with [] => [] | _ => sets_of S (comp S (option_map named_of (ti_field_ty S pt nm))) sub end.
Proof. intros. simpl. destruct sub as [|y r]; [reflexivity|]. rewrite sets_go_flat. reflexivity. Qed.

Lemma sets_sel_inline : forall S pt id tc ds sub,
  sets_sel S pt (SInline id tc ds sub) = sets_of S (comp S (inline_pt S pt tc)) sub.
Proof. intros. simpl. rewrite sets_go_flat. reflexivity. Qed.

Lemma alookup_in : forall {A} k (l : list (name * A)) v, alookup k l = Some v -> In (k, v) l.
Proof.
  intros A k l v. induction l as [|[k' v'] r IH]; simpl; intro H; [discriminate|].
  destruct (String.eqb k k') eqn:E; [|right; apply IH; exact H].
  apply String.eqb_eq in E. inversion H; subst. left. reflexivity.
Qed.

Section Closure.
Variable S : schema.
Variable D : document.
Hypothesis Hmeta : meta_ok S = true.

Lemma meta_string : is_composite S "String" = false.
Proof. unfold meta_ok in Hmeta. apply andb_true_iff in Hmeta. apply negb_true_iff. exact (proj1 Hmeta). Qed.

Lemma meta_typename : forall p, rule_field_ty S p "__typename" = None.
Proof.
  intros [t|]; [|reflexivity]. simpl. unfold meta_ok in Hmeta. apply andb_true_iff in Hmeta. destruct Hmeta as [_ H].
  rewrite forallb_forall in H. unfold lookup_type.
  destruct (alookup t (s_types S)) as [td|] eqn:E; [|reflexivity]. apply alookup_in in E.
  specialize (H _ E). simpl in H.
  destruct td as [| |fs ifs|fs| |]; try reflexivity; simpl in H; destruct (find_field "__typename" fs); try discriminate; reflexivity.
Qed.

Definition rft_eq (p1 p2 : ptype) : Prop := forall nm, rule_field_ty S p1 nm = rule_field_ty S p2 nm.

Lemma rft_comp : forall p, rft_eq (comp S p) p.
Proof. intros p nm. apply (peq_field_ty S). apply peq_sym. apply peq_comp. Qed.

Lemma sets_sub_sel : forall x p1 p2 e, rft_eq p1 p2 -> In e (dfields_sel S p2 x) -> fe_sub e <> [] ->
  exists p'', In (p'', fe_sub e) (sets_sel S p1 x) /\ peq S (sub_pt e) p''.
Proof.
  induction x as [id al nm args ds sub IH | id g ds | id tc ds sub IH] using selection_ind'; intros p1 p2 e Hr He Hne.
  - simpl in He. destruct He as [He|[]]. subst e. simpl in Hne. rewrite sets_sel_field.
    destruct sub as [|y r]; [contradiction|]. set (sub := y :: r) in *.
    exists (comp S (option_map named_of (ti_field_ty S p1 nm))). split; [left; reflexivity|].
    unfold sub_pt, mk_entry. simpl. rewrite <- (Hr nm).
    destruct p1 as [t|]; [|left; reflexivity].
    unfold ti_field_ty. destruct (String.eqb nm "__typename") eqn:En.
    + apply String.eqb_eq in En. subst nm. rewrite meta_typename. simpl.
      left. destruct (is_composite S t); simpl; [rewrite meta_string|]; reflexivity.
    + apply peq_comp.
  - destruct He.
  - rewrite dfields_inline in He. rewrite sets_sel_inline.
    unfold dfields in He. apply in_flat_map in He. destruct He as [y [Hy He]].
    rewrite Forall_forall in IH.
    destruct (IH y Hy (comp S (inline_pt S p1 tc)) (inline_pt S p2 tc) e) as [p'' [Hin Hp]]; [|exact He|exact Hne|].
    + intro nm0. rewrite rft_comp. destruct tc as [c|]; simpl; [reflexivity | apply Hr].
    + exists p''. split; [|exact Hp]. unfold sets_of. right. apply in_flat_map. exists y. split; assumption.
Qed.

Lemma sets_sub : forall p ss e, In e (dfields S p ss) -> fe_sub e <> [] ->
  exists p'', In (p'', fe_sub e) (sets_of S p ss) /\ peq S (sub_pt e) p''.
Proof.
  intros p ss e He Hne. unfold dfields in He. apply in_flat_map in He. destruct He as [x [Hx He]].
  destruct (sets_sub_sel x p p e (fun nm => eq_refl) He Hne) as [p'' [Hin Hp]].
  exists p''. split; [|exact Hp]. unfold sets_of. right. apply in_flat_map. exists x. split; assumption.
Qed.

(* a visited set's own nested sets are visited *)
Lemma sets_sel_trans : forall x pt p ss, In (p, ss) (sets_sel S pt x) -> incl (sets_of S p ss) (sets_sel S pt x).
Proof.
  assert (G : forall sub pt', Forall (fun x => forall pt p ss, In (p, ss) (sets_sel S pt x) -> incl (sets_of S p ss) (sets_sel S pt x)) sub ->
              forall p ss, In (p, ss) (sets_of S pt' sub) -> incl (sets_of S p ss) (sets_of S pt' sub)).
  { intros sub pt' IH p ss Hin. unfold sets_of in Hin at 1. destruct Hin as [Hin|Hin].
    - inversion Hin; subst. apply incl_refl.
    - apply in_flat_map in Hin. destruct Hin as [y [Hy Hin]]. rewrite Forall_forall in IH.
      intros z Hz. unfold sets_of. right. apply in_flat_map. exists y. split; [exact Hy|].
      apply (IH y Hy pt' p ss Hin z Hz). }
  induction x as [id al nm args ds sub IH | id g ds | id tc ds sub IH] using selection_ind'; intros pt p ss Hin.
  - rewrite sets_sel_field in *. destruct sub as [|y r]; [destruct Hin|]. apply G; assumption.
  - destruct Hin.
  - rewrite sets_sel_inline in *. apply G; assumption.
Qed.

Lemma sets_of_trans : forall pt0 ss0 p ss, In (p, ss) (sets_of S pt0 ss0) -> incl (sets_of S p ss) (sets_of S pt0 ss0).
Proof.
  intros pt0 ss0 p ss Hin. unfold sets_of in Hin at 1. destruct Hin as [Hin|Hin].
  - inversion Hin; subst. apply incl_refl.
  - apply in_flat_map in Hin. destruct Hin as [y [Hy Hin]].
    intros z Hz. unfold sets_of. right. apply in_flat_map. exists y. split; [exact Hy|].
    apply (sets_sel_trans y pt0 p ss Hin z Hz).
Qed.

Lemma all_sets_trans : forall p ss, In (p, ss) (all_sets S D) -> incl (sets_of S p ss) (all_sets S D).
Proof.
  intros p ss Hin z Hz. unfold all_sets in *. apply in_app_iff in Hin. apply in_app_iff.
  destruct Hin as [Hin|Hin]; [left|right]; apply in_flat_map in Hin; destruct Hin as [o [Ho Hin]];
    apply in_flat_map; exists o; (split; [exact Ho|]); apply (sets_of_trans _ _ p ss Hin z Hz).
Qed.

Lemma all_sets_sub : forall s e, In s (all_sets S D) -> In e (fields S s) -> fe_sub e <> [] ->
  exists p'', In (p'', fe_sub e) (all_sets S D) /\ peq S (sub_pt e) p''.
Proof.
  intros [p ss] e Hs He Hne. unfold fields in He. simpl in He.
  destruct (sets_sub p ss e He Hne) as [p'' [Hin Hp]]. exists p''. split; [|exact Hp].
  apply (all_sets_trans p ss Hs). exact Hin.
Qed.
End Closure.

(* ================= the unmemoised executable decides L2 ================= *)
Lemma last_fragment_mem : forall g fs acc f,
  last_fragment g fs acc = Some f -> acc = Some f \/ In f fs.
Proof.
  intros g fs. induction fs as [|x r IH]; intros acc f H; simpl in *; [left; exact H|].
  destruct (IH _ f H) as [E|E]; [|right; right; exact E].
  destruct (String.eqb g (fr_name x)); [|left; exact E]. inversion E; subst. right. left. reflexivity.
Qed.

Lemma frag_mem : forall D g fr, frag D g = Some fr -> In fr (d_frags D).
Proof. intros D g fr H. unfold frag in H. destruct (last_fragment_mem _ _ _ _ H) as [E|E]; [discriminate | exact E]. Qed.

Section Decide.
Variable S : schema.
Variable D : document.
Hypothesis Hid : ids_distinct S D.
Hypothesis Hargs : args_unique S D.
Hypothesis Hmeta : meta_ok S = true.
Variable rk : name -> nat.
Hypothesis Hrk : ranked S D rk.

Notation Pfc := (OverlapSpec.fc S D (base2 S)).
Notation Psubsets := (OverlapSpec.subsets S D (base2 S)).
Notation PFrFr := (OverlapSpec.FrFr S D (base2 S)).
Notation Pwithin := (within S D (base2 S)).

Lemma within_subsets : forall s, Pwithin s -> Psubsets false s s.
Proof. intros s (H1 & H2 & H3). constructor; assumption. Qed.

Lemma lt_within : (forall s, In s (all_sets S D) -> within_lt S D s) ->
  forall n s, In s (all_sets S D) -> sels_sz (snd s) < n -> Pwithin s.
Proof.
  intros HL n. induction n as [|n IH]; intros s Hs Hn; [lia|].
  destruct (HL s Hs) as (HA & HB & HC).
  destruct (L2_sym S D (base2 S) (base2_sym S)) as (Sfc & _ & _ & Sfr).
  split; [|split].
  - intros a b Ha Hb Hk. unfold fields in Ha, Hb.
    pose proof (HA (fe_key a) (keys_of_mem _ _ Ha)) as FO.
    destruct (ForallOrdPairs_In FO a b (with_key_mem _ _ a Ha eq_refl) (with_key_mem _ _ b Hb (eq_sym Hk))) as [E|[H|H]];
      [|exact H|apply Sfc; exact H].
    subst b. constructor.
    + unfold exf. rewrite excl_refl. simpl. apply base2_refl. apply (Hargs s a (DS_top S D s Hs) Ha).
    + intros [Hsub _]. unfold exf. rewrite excl_refl. simpl. apply within_subsets.
      assert (Hne : fe_sub a <> []) by (unfold has_sub in Hsub; destruct (fe_sub a); [discriminate | discriminate]).
      destruct (all_sets_sub S D Hmeta s a Hs Ha Hne) as [p'' [Hin Hp]].
      assert (W : Pwithin (p'', fe_sub a)).
      { apply IH; [exact Hin|]. simpl.
        pose proof (Wt_in _ _ Ha) as L1. rewrite Wt_dfields in L1. unfold w in L1. lia. }
      apply (within_peq S D rk Hrk (p'', fe_sub a) (sub_pt a) W). apply peq_sym. exact Hp.
  - intros g Hg. apply HB. apply dspreads_iff. exact Hg.
  - intros g1 g2 Hg1 Hg2. unfold frs in *.
    destruct (ForallOrdPairs_In HC g1 g2 (proj2 (dspreads_iff _ _) Hg1) (proj2 (dspreads_iff _ _) Hg2)) as [E|[H|H]];
      [subst; apply frfr_same | exact H | apply Sfr; exact H].
Qed.

Theorem exec_decides_L2 : forall fuel,
  run_overlap S D false fuel = [] -> run_complete S D false fuel = true -> L2_accepts S D.
Proof.
  intros fuel Hr Hc.
  pose proof (run_reflect S D Hid Hargs fuel Hr Hc) as HL.
  assert (W : forall s, In s (all_sets S D) -> Pwithin s).
  { intros s Hs. apply (lt_within HL (Datatypes.S (sels_sz (snd s))) s Hs). lia. }
  intros s [Hs|[g Hg]]; [apply W; exact Hs|].
  apply fbody_some in Hg. destruct Hg as [fr [Ef Eb]]. subst s. unfold bodyf.
  assert (Hin : In (comp S (resolve S (fr_cond fr)), fr_sel fr) (all_sets S D)).
  { unfold all_sets. apply in_app_iff. right. apply in_flat_map. exists fr. split; [apply (frag_mem D g); exact Ef|].
    left. reflexivity. }
  apply (within_peq S D rk Hrk _ (resolve S (fr_cond fr)) (W _ Hin)). simpl. apply peq_sym. apply peq_comp.
Qed.
End Decide.
