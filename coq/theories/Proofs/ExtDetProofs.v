(* Proofs for C12: sorting makes the output independent of the order oracle. *)
From Coq Require Import List NArith Bool Lia Permutation Sorted.
From GQL Require Import Ext.Determinism.
Import ListNotations.
Open Scope N_scope.

(* ---- a sorted list is determined by its elements ---- *)
Section Unique.
  Variable A : Type.
  Variable le : A -> A -> Prop.
  Hypothesis le_antisym : forall a b, le a b -> le b a -> a = b.

  Lemma sorted_perm_unique : forall l1 l2,
    StronglySorted le l1 -> StronglySorted le l2 -> Permutation l1 l2 -> l1 = l2.
  Proof.
    induction l1 as [|a r1 IH]; intros l2 S1 S2 P.
    - apply Permutation_nil in P. symmetry. exact P.
    - destruct l2 as [|b r2]; [apply Permutation_sym, Permutation_nil in P; discriminate|].
      inversion S1 as [|? ? S1r F1]; subst. inversion S2 as [|? ? S2r F2]; subst.
      assert (E : a = b).
      { assert (Ia : In a (b :: r2)) by (eapply Permutation_in; [exact P | left; reflexivity]).
        assert (Ib : In b (a :: r1)) by (eapply Permutation_in; [apply Permutation_sym; exact P | left; reflexivity]).
        destruct Ia as [Ia|Ia]; [symmetry; exact Ia|].
        destruct Ib as [Ib|Ib]; [exact Ib|].
        apply le_antisym.
        - rewrite Forall_forall in F1. apply F1. exact Ib.
        - rewrite Forall_forall in F2. apply F2. exact Ia. }
      subst b. f_equal. apply IH; [exact S1r | exact S2r |].
      eapply Permutation_cons_inv. exact P.
  Qed.

  (* any correct sorting function: sort.Sort, sort.Strings, sort.Stable, ... *)
  Variable srt : list A -> list A.
  Hypothesis srt_sorted : forall l, StronglySorted le (srt l).
  Hypothesis srt_perm : forall l, Permutation (srt l) l.

  Theorem sort_of_permutation : forall l1 l2, Permutation l1 l2 -> srt l1 = srt l2.
  Proof.
    intros l1 l2 P. apply sorted_perm_unique; try apply srt_sorted.
    eapply Permutation_trans; [apply srt_perm|]. eapply Permutation_trans; [exact P|].
    apply Permutation_sym. apply srt_perm.
  Qed.
End Unique.

(* ---- insertion sort is a correct sorting function for a total order ---- *)
Section Isort.
  Variable A : Type.
  Variable leb : A -> A -> bool.
  Hypothesis leb_total : forall a b, leb a b = true \/ leb b a = true.
  Hypothesis leb_trans : forall a b c, leb a b = true -> leb b c = true -> leb a c = true.

  Definition leP (a b : A) : Prop := leb a b = true.

  Lemma insert_perm : forall a l, Permutation (insert leb a l) (a :: l).
  Proof.
    intros a. induction l as [|b r IH]; cbn [insert]; [apply Permutation_refl|].
    destruct (leb a b); [apply Permutation_refl|].
    eapply Permutation_trans; [apply perm_skip; exact IH | apply perm_swap].
  Qed.

  Lemma isort_perm : forall l, Permutation (isort leb l) l.
  Proof.
    induction l as [|a r IH]; cbn [isort]; [apply Permutation_refl|].
    eapply Permutation_trans; [apply insert_perm | apply perm_skip; exact IH].
  Qed.

  Lemma insert_sorted : forall a l, StronglySorted leP l -> StronglySorted leP (insert leb a l).
  Proof.
    intros a. induction l as [|b r IH]; intros S; cbn [insert].
    - constructor; [constructor | constructor].
    - inversion S as [|? ? Sr F]; subst. destruct (leb a b) eqn:E.
      + constructor; [exact S|]. constructor; [exact E|].
        rewrite Forall_forall in *. intros x I. eapply leb_trans; [exact E | apply F; exact I].
      + constructor; [apply IH; exact Sr|].
        rewrite Forall_forall in *. intros x I.
        assert (I' : In x (a :: r)) by (eapply Permutation_in; [apply insert_perm | exact I]).
        destruct I' as [I'|I']; [subst x | apply F; exact I'].
        destruct (leb_total a b) as [T|T]; [rewrite T in E; discriminate | exact T].
  Qed.

  Lemma isort_sorted : forall l, StronglySorted leP (isort leb l).
  Proof. induction l as [|a r IH]; cbn [isort]; [constructor | apply insert_sorted; exact IH]. Qed.

  Hypothesis leb_antisym : forall a b, leb a b = true -> leb b a = true -> a = b.

  Theorem isort_of_permutation : forall l1 l2, Permutation l1 l2 -> isort leb l1 = isort leb l2.
  Proof.
    apply (sort_of_permutation A leP leb_antisym (isort leb) isort_sorted isort_perm).
  Qed.
End Isort.

Lemma filter_perm : forall A (p : A -> bool) l1 l2, Permutation l1 l2 -> Permutation (filter p l1) (filter p l2).
Proof.
  intros A p l1 l2 P. induction P as [|x l l' P IH|x y l|l l' l'' P1 IH1 P2 IH2]; cbn [filter].
  - apply Permutation_refl.
  - destruct (p x); [apply perm_skip|]; exact IH.
  - destruct (p x), (p y); try apply Permutation_refl. apply perm_swap.
  - eapply Permutation_trans; eassumption.
Qed.

(* ---- the sites ---- *)
Section SiteProofs.
  Variable K V O : Type.
  Variable leb : K -> K -> bool.
  Hypothesis leb_total : forall a b, leb a b = true \/ leb b a = true.
  Hypothesis leb_trans : forall a b c, leb a b = true -> leb b c = true -> leb a c = true.
  Hypothesis leb_antisym : forall a b, leb a b = true -> leb b a = true -> a = b.

  (* an order oracle only permutes *)
  Definition is_oracle (o : oracle K V) : Prop := forall m, Permutation (o m) m.

  Lemma oracles_agree : forall o1 o2 m, is_oracle o1 -> is_oracle o2 -> Permutation (o1 m) (o2 m).
  Proof.
    intros o1 o2 m H1 H2. eapply Permutation_trans; [apply H1 | apply Permutation_sym; apply H2].
  Qed.

  Theorem sorted_keys_independent : forall o1 o2 m, is_oracle o1 -> is_oracle o2 ->
    sorted_keys K V leb o1 m = sorted_keys K V leb o2 m.
  Proof.
    intros o1 o2 m H1 H2. unfold sorted_keys.
    apply (isort_of_permutation K leb leb_total leb_trans leb_antisym).
    apply Permutation_map. apply oracles_agree; assumption.
  Qed.

  Theorem site_by_name_independent : forall (f : K -> list O) o1 o2 m, is_oracle o1 -> is_oracle o2 ->
    site_by_name K V O leb f o1 m = site_by_name K V O leb f o2 m.
  Proof.
    intros f o1 o2 m H1 H2. unfold site_by_name. rewrite (sorted_keys_independent o1 o2 m H1 H2). reflexivity.
  Qed.

  (* (distance, name) is a total order without ties between different names *)
  Lemma lex_total : forall a b, lex_leb K leb a b = true \/ lex_leb K leb b a = true.
  Proof.
    intros [d1 k1] [d2 k2]. unfold lex_leb. cbn [fst snd].
    destruct (N.lt_trichotomy d1 d2) as [L|[E|L]].
    - left. apply orb_true_iff. left. apply N.ltb_lt. exact L.
    - subst d2. rewrite N.ltb_irrefl, N.eqb_refl. cbn. apply leb_total.
    - right. apply orb_true_iff. left. apply N.ltb_lt. exact L.
  Qed.

  Lemma lex_cases : forall a b, lex_leb K leb a b = true ->
    fst a < fst b \/ (fst a = fst b /\ leb (snd a) (snd b) = true).
  Proof.
    intros a b H. unfold lex_leb in H. apply orb_true_iff in H. destruct H as [H|H].
    - left. apply N.ltb_lt. exact H.
    - apply andb_true_iff in H. destruct H as [H1 H2]. right. split; [apply N.eqb_eq; exact H1 | exact H2].
  Qed.

  Lemma lex_trans : forall a b c, lex_leb K leb a b = true -> lex_leb K leb b c = true -> lex_leb K leb a c = true.
  Proof.
    intros a b c H1 H2. apply lex_cases in H1. apply lex_cases in H2. unfold lex_leb. apply orb_true_iff.
    destruct H1 as [H1|[H1 H1']], H2 as [H2|[H2 H2']].
    - left. apply N.ltb_lt. lia.
    - left. apply N.ltb_lt. lia.
    - left. apply N.ltb_lt. lia.
    - right. apply andb_true_iff. split; [apply N.eqb_eq; lia | eapply leb_trans; eassumption].
  Qed.

  Lemma lex_antisym : forall a b, lex_leb K leb a b = true -> lex_leb K leb b a = true -> a = b.
  Proof.
    intros [d1 k1] [d2 k2] H1 H2. apply lex_cases in H1. apply lex_cases in H2. cbn [fst snd] in *.
    destruct H1 as [H1|[H1 H1']], H2 as [H2|[H2 H2']]; try lia.
    subst d2. f_equal. apply leb_antisym; assumption.
  Qed.

  Variable dist : K -> K -> N.
  Variable keep : K -> K -> N -> bool.

  Theorem site_suggestions_independent : forall input o1 o2 m, is_oracle o1 -> is_oracle o2 ->
    site_suggestions K V leb dist keep input o1 m = site_suggestions K V leb dist keep input o2 m.
  Proof.
    intros input o1 o2 m H1 H2. unfold site_suggestions. f_equal.
    apply (isort_of_permutation (N * K) (lex_leb K leb) lex_total lex_trans lex_antisym).
    apply filter_perm. apply Permutation_map. apply Permutation_map. apply oracles_agree; assumption.
  Qed.
End SiteProofs.

(* the byte-wise string order of sort.Strings is such an order *)
Fixpoint bytes_leb (a b : list N) : bool :=
  match a, b with
  | [], _ => true
  | _ :: _, [] => false
  | x :: r, y :: s => (x <? y) || ((x =? y) && bytes_leb r s)
  end.

Lemma bytes_leb_total : forall a b, bytes_leb a b = true \/ bytes_leb b a = true.
Proof.
  induction a as [|x r IH]; intros [|y s]; cbn [bytes_leb]; auto.
  destruct (N.lt_trichotomy x y) as [L|[E|L]].
  - left. apply orb_true_iff. left. apply N.ltb_lt. exact L.
  - subst y. rewrite N.ltb_irrefl, N.eqb_refl. cbn. apply IH.
  - right. apply orb_true_iff. left. apply N.ltb_lt. exact L.
Qed.

Lemma bytes_leb_cases : forall x r y s, bytes_leb (x :: r) (y :: s) = true ->
  x < y \/ (x = y /\ bytes_leb r s = true).
Proof.
  intros x r y s H. cbn [bytes_leb] in H. apply orb_true_iff in H. destruct H as [H|H].
  - left. apply N.ltb_lt. exact H.
  - apply andb_true_iff in H. destruct H as [H1 H2]. right. split; [apply N.eqb_eq; exact H1 | exact H2].
Qed.

Lemma bytes_leb_trans : forall a b c, bytes_leb a b = true -> bytes_leb b c = true -> bytes_leb a c = true.
Proof.
  induction a as [|x r IH]; intros [|y s] [|z t] H1 H2; try reflexivity; try discriminate.
  apply bytes_leb_cases in H1. apply bytes_leb_cases in H2. cbn [bytes_leb]. apply orb_true_iff.
  destruct H1 as [H1|[H1 H1']], H2 as [H2|[H2 H2']].
  - left. apply N.ltb_lt. lia.
  - left. apply N.ltb_lt. lia.
  - left. apply N.ltb_lt. lia.
  - right. apply andb_true_iff. split; [apply N.eqb_eq; lia | eapply IH; eassumption].
Qed.

Lemma bytes_leb_antisym : forall a b, bytes_leb a b = true -> bytes_leb b a = true -> a = b.
Proof.
  induction a as [|x r IH]; intros [|y s] H1 H2; try reflexivity; try discriminate.
  apply bytes_leb_cases in H1. apply bytes_leb_cases in H2.
  destruct H1 as [H1|[H1 H1']], H2 as [H2|[H2 H2']]; try lia.
  subst y. f_equal. apply IH; assumption.
Qed.

(* ------------------------------------------------------------------ *)
(* History independence on the persisted-state machine (Ext/History.v) *)
(* ------------------------------------------------------------------ *)
From GQL Require Import Ext.History.

Section HistoryProofs.
  Variable val resp : Type.
  Variable init : N -> val.

  Lemma wf_empty : wf val init (empty val).
  Proof. intros s v H. discriminate. Qed.

  Lemma wf_set_init : forall f s, (forall s' v, f s' = Some v -> v = init s') ->
    forall s' v, set_slot val f s (Some (init s)) s' = Some v -> v = init s'.
  Proof.
    intros f s H s' v E. unfold set_slot in E. destruct (N.eqb_spec s' s) as [Q|Q].
    - injection E as E. subst. reflexivity.
    - apply H. exact E.
  Qed.

  Lemma wf_set_none : forall f s, (forall s' v, f s' = Some v -> v = init s') ->
    forall s' v, set_slot val f s None s' = Some v -> v = init s'.
  Proof.
    intros f s H s' v E. unfold set_slot in E. destruct (s' =? s); [discriminate | apply H; exact E].
  Qed.

  Lemma exec_wf : forall p st, wf val init st ->
    fst (exec val resp init p st) = answer val resp init p /\ wf val init (snd (exec val resp init p st)).
  Proof.
    induction p as [r|s k IH]; intros st W; [split; [reflexivity | exact W]|].
    cbn [exec answer]. destruct (slots val st s) as [v|] eqn:E.
    - rewrite (W s v E). apply IH. exact W.
    - apply IH. unfold wf. cbn [slots]. apply wf_set_init. exact W.
  Qed.

  Lemma step_wf : forall st o, wf val init st -> wf val init (step val resp init st o).
  Proof.
    intros st [p|s|] W; cbn [step].
    - apply exec_wf. exact W.
    - unfold wf. cbn [slots]. apply wf_set_none. exact W.
    - apply wf_empty.
  Qed.

  Lemma run_from_wf : forall h st, wf val init st -> wf val init (run_from val resp init st h).
  Proof.
    induction h as [|o r IH]; intros st W; [exact W|]. cbn [run_from fold_left]. apply IH. apply step_wf. exact W.
  Qed.

  Theorem history_independent : forall h p,
    fst (exec val resp init p (run val resp init h)) = fst (exec val resp init p (empty val)).
  Proof.
    intros h p.
    destruct (exec_wf p (run val resp init h) (run_from_wf h (empty val) wf_empty)) as [A _].
    destruct (exec_wf p (empty val) wf_empty) as [B _]. rewrite A, B. reflexivity.
  Qed.

  Theorem history_independent_from : forall st h p, wf val init st ->
    fst (exec val resp init p (run_from val resp init st h)) = answer val resp init p.
  Proof. intros st h p W. apply exec_wf. apply run_from_wf. exact W. Qed.
End HistoryProofs.
