(* C20 / C18: paths recorded by the executor (Exec/Exec.v).
   (A) every response under construction is "positioned": a deferred value (thunk) records as its
       path the position it occupies, objects have distinct keys;
   (B) the paths of the resolver invocations of a request are pairwise distinct (C20: every
       selected field of every object value is resolved at most once);
   (C) every error path addresses a null of the response, at the path or at one of its
       prefixes (C18).
   Each part is one induction on fuel over the four mutually recursive functions, with the same
   skeleton as Proofs/ExecInv.v, whose result (exec_inv) is reused for the "lies under p" facts. *)
From Coq Require Import List ZArith NArith String Bool Lia.
From GQL Require Import Exec.Syntax Exec.Coerce Exec.Exec Exec.Request
     Proofs.ExecInv Proofs.CollectProofs Run.ExecRun.
Import ListNotations.
Open Scope string_scope.
Open Scope list_scope.

(* ------------------------------------------------------------------------------------------ *)
(* paths                                                                                      *)
(* ------------------------------------------------------------------------------------------ *)
Definition sprefix (p q : path) : Prop := exists x r, q = p ++ x :: r.

Lemma sprefix_prefix : forall p q, sprefix p q -> prefix p q.
Proof. intros p q [x [r ->]]. exists (x :: r). reflexivity. Qed.

Lemma sprefix_irrefl : forall p, ~ sprefix p p.
Proof.
  intros p [x [r H]]. apply (f_equal (@List.length pseg)) in H.
  rewrite app_length in H. cbn [List.length] in H. lia.
Qed.

Lemma prefix_sprefix : forall p q r, prefix p q -> sprefix q r -> sprefix p r.
Proof.
  intros p q r [a ->] [x [b ->]]. destruct a as [|y a].
  - exists x, b. rewrite app_nil_r. reflexivity.
  - exists y, (a ++ x :: b). rewrite <- app_assoc. reflexivity.
Qed.

Lemma sprefix_prefix_trans : forall p q r, sprefix p q -> prefix q r -> sprefix p r.
Proof. intros p q r [x [a ->]] [b ->]. exists x, (a ++ b). rewrite <- app_assoc. reflexivity. Qed.

Lemma snoc_prefix_sprefix : forall p x q, prefix (p ++ [x]) q -> sprefix p q.
Proof. intros p x q [r ->]. exists x, r. rewrite <- app_assoc. reflexivity. Qed.

(* two different children of p have no common extension *)
Lemma snoc_apart : forall p (a b : pseg) x, prefix (p ++ [a]) x -> prefix (p ++ [b]) x -> a = b.
Proof.
  intros p a b x [r ->] [r' H]. rewrite <- !app_assoc in H. apply app_inv_head in H.
  cbn in H. inversion H. reflexivity.
Qed.

Lemma NoDup_app_intro : forall (A : Type) (l1 l2 : list A),
  NoDup l1 -> NoDup l2 -> (forall x, In x l1 -> In x l2 -> False) -> NoDup (l1 ++ l2).
Proof.
  intros A l1 l2 H1 H2 Hd. induction H1 as [|x l1 Hx H1 IH]; [exact H2|].
  cbn [app]. constructor.
  - intro Hin. apply in_app_or in Hin. destruct Hin as [Hin|Hin]; [exact (Hx Hin)|].
    exact (Hd x (or_introl eq_refl) Hin).
  - apply IH. intros y Hy1 Hy2. exact (Hd y (or_intror Hy1) Hy2).
Qed.

(* ------------------------------------------------------------------------------------------ *)
(* (A) positioned responses                                                                   *)
(* ------------------------------------------------------------------------------------------ *)
Inductive Pos : path -> presp -> Prop :=
| Pos_null b : Pos b QNull
| Pos_leaf b v : Pos b (QLeaf v)
| Pos_list b l : PosL b 0%N l -> Pos b (QList l)
| Pos_obj b l : NoDup (map fst l) -> PosF b l -> Pos b (QObj l)
| Pos_thunk b t nodes occs o : is_nonnull t = false -> Pos b (QThunk t nodes occs b o)
with PosL : path -> N -> list presp -> Prop :=
| PosL_nil b i : PosL b i []
| PosL_cons b i y l : Pos (b ++ [PIdx i]) y -> PosL b (i + 1)%N l -> PosL b i (y :: l)
with PosF : path -> list (name * presp) -> Prop :=
| PosF_nil b : PosF b []
| PosF_cons b k y l : Pos (b ++ [PKey k]) y -> PosF b l -> PosF b ((k, y) :: l).

Scheme Pos_mut := Minimality for Pos Sort Prop
  with PosL_mut := Minimality for PosL Sort Prop
  with PosF_mut := Minimality for PosF Sort Prop.
Combined Scheme Pos_mutind from Pos_mut, PosL_mut, PosF_mut.

Lemma Pos_thunks_ok_all :
  (forall b q, Pos b q -> thunks_ok b q) /\
  (forall b i l, PosL b i l -> Forall (thunks_ok b) l) /\
  (forall b l, PosF b l -> Forall (fun kv => thunks_ok b (snd kv)) l).
Proof.
  apply Pos_mutind.
  - intros b. unfold thunks_ok. cbn. constructor.
  - intros b v. unfold thunks_ok. cbn. constructor.
  - intros b l _ IH. apply thunks_ok_list_intro. exact IH.
  - intros b l _ _ IH. apply thunks_ok_obj_intro. exact IH.
  - intros b t nodes occs o H. unfold thunks_ok. cbn. constructor; [|constructor].
    split; cbn; [exact H|apply prefix_refl].
  - intros. constructor.
  - intros b i y l _ IH1 _ IH2. constructor; [|exact IH2].
    eapply thunks_ok_weaken; [apply prefix_app|exact IH1].
  - intros. constructor.
  - intros b k y l _ IH1 _ IH2. constructor; [|exact IH2].
    cbn [snd]. eapply thunks_ok_weaken; [apply prefix_app|exact IH1].
Qed.

Lemma Pos_list_inv : forall b l, Pos b (QList l) -> PosL b 0%N l.
Proof. intros b l H. inversion H; subst; assumption. Qed.
Lemma Pos_obj_inv : forall b l, Pos b (QObj l) -> NoDup (map fst l) /\ PosF b l.
Proof. intros b l H. inversion H; subst; split; assumption. Qed.
Lemma Pos_thunk_inv : forall b t nodes occs tp o, Pos b (QThunk t nodes occs tp o) -> tp = b /\ is_nonnull t = false.
Proof. intros b t nodes occs tp o H. inversion H; subst; split; [reflexivity|assumption]. Qed.
Lemma PosL_cons_inv : forall b i y l, PosL b i (y :: l) -> Pos (b ++ [PIdx i]) y /\ PosL b (i + 1)%N l.
Proof. intros b i y l H. inversion H; subst; split; assumption. Qed.
Lemma PosF_cons_inv : forall b k y l, PosF b ((k, y) :: l) -> Pos (b ++ [PKey k]) y /\ PosF b l.
Proof. intros b k y l H. inversion H; subst; split; assumption. Qed.

Lemma Pos_thunks_ok : forall b q, Pos b q -> thunks_ok b q.
Proof. exact (proj1 Pos_thunks_ok_all). Qed.

Definition posr (b : path) (r : xres presp) : Prop :=
  match r with XOk y _ => Pos b y | _ => True end.

Lemma posr_catch : forall b t r, posr b r -> posr b (catch_at t r).
Proof.
  intros b t [y s|e s|] H; cbn in *; auto.
  destruct (is_nonnull t); cbn; [exact I|constructor].
Qed.

Lemma items_loop_pos : forall cmp b,
  (forall i x s, posr (b ++ [PIdx i]) (cmp i x s)) ->
  forall l i s, match items_loop cmp l i s with XOk ys _ => PosL b i ys | _ => True end.
Proof.
  intros cmp b Hc. induction l as [|x l IH]; intros i s; cbn [items_loop].
  - constructor.
  - specialize (Hc i x s). destruct (cmp i x s) as [y s'|e s'|]; cbn in Hc |- *; auto.
    specialize (IH (i + 1)%N s').
    destruct (items_loop cmp l (i + 1)%N s') as [ys s''|e s''|]; auto.
    constructor; assumption.
Qed.

Lemma dethunk_list_pos : forall f,
  (forall b x s, Pos b x -> posr b (f x s)) ->
  forall l b i s, PosL b i l ->
    match dethunk_list f l s with XOk ys _ => PosL b i ys | _ => True end.
Proof.
  intros f Hf. induction l as [|x l IH]; intros b i s Hl; cbn [dethunk_list].
  - constructor.
  - destruct (PosL_cons_inv _ _ _ _ Hl) as [Hy Hr]. specialize (Hf _ x s Hy).
    destruct (f x s) as [y s'|e s'|]; cbn in Hf |- *; auto.
    specialize (IH b (i + 1)%N s' Hr).
    destruct (dethunk_list f l s') as [ys s''|e s''|]; auto.
    constructor; assumption.
Qed.

Lemma dethunk_fields_pos : forall f,
  (forall b x s, Pos b x -> posr b (f x s)) ->
  forall l b s, PosF b l ->
    match dethunk_fields f l s with
    | XOk ys _ => PosF b ys /\ map fst ys = map fst l
    | _ => True
    end.
Proof.
  intros f Hf. induction l as [|[k x] l IH]; intros b s Hl; cbn [dethunk_fields].
  - split; [constructor|reflexivity].
  - destruct (PosF_cons_inv _ _ _ _ Hl) as [Hy Hr]. specialize (Hf _ x s Hy).
    destruct (f x s) as [y s'|e s'|]; cbn in Hf |- *; auto.
    specialize (IH b s' Hr).
    destruct (dethunk_fields f l s') as [ys s''|e s''|]; auto.
    destruct IH as [I1 I2]. split; [constructor; assumption|].
    cbn [map fst]. rewrite I2. reflexivity.
Qed.

Definition posO (b : path) (r : xres (option presp)) : Prop :=
  match r with XOk (Some y) _ => Pos b y | _ => True end.

Lemma exec_field_pos : forall fuel' cmp dth E obj src k occs p s,
  (forall t nodes occs0 fpath p0 v s0, posr p0 (cmp t nodes occs0 fpath p0 v s0)) ->
  (forall q s0 b, Pos b q -> posr b (dth q s0)) ->
  posO (p ++ [PKey k]) (exec_field fuel' cmp dth E obj src k occs p s).
Proof.
  intros fuel' cmp dth E obj src k occs p s IHc IHd. unfold exec_field.
  set (fname := match occs with o :: _ => oc_name o | [] => "" end).
  set (fargs := match occs with o :: _ => oc_args o | [] => [] end).
  set (nodes := map oc_id occs).
  set (fp := p ++ [PKey k]).
  destruct (String.eqb fname "__typename"); [cbn; constructor|].
  destruct (find_field fname (object_fields (en_S E) obj)) as [fd|]; [|exact I].
  destruct (get_argument_values fuel' (en_S E) (f_args fd) fargs (Some (en_vars E))) as [args|]; [|exact I].
  set (s1 := add_call _ s).
  destruct (match en_or E fp with Some o => force o | None => (OVal RNull, false) end) as [o thunked].
  set (s2 := match en_or E fp with Some _ => s1 | None => add_missing fp s1 end).
  set (c0 := match o with
             | OVal v => cmp (f_type fd) nodes occs fp fp v s2
             | _ => XRaise {| e_path := fp; e_nodes := nodes |} s2
             end).
  assert (Hc0 : posr fp c0).
  { unfold c0. destruct o; try exact I. apply IHc. }
  set (r1 := if thunked && negb (is_nonnull (f_type fd))
             then XOk (QThunk (f_type fd) nodes occs fp o) s2
             else match c0 with
                  | XRaise e s' => if thunked then XRaise e (set_escape s') else c0
                  | _ => c0
                  end).
  assert (Hr1 : posr fp r1).
  { unfold r1. destruct (thunked && negb (is_nonnull (f_type fd))) eqn:Et.
    - cbn. constructor.
      apply andb_true_iff in Et. destruct Et as [_ Et]. destruct (is_nonnull (f_type fd)); [discriminate|reflexivity].
    - destruct c0 as [q0 s0|e0 s0|]; cbn in Hc0 |- *; auto.
      destruct thunked; exact I. }
  pose proof (posr_catch fp (f_type fd) r1 Hr1) as Hcatch.
  destruct (catch_at (f_type fd) r1) as [y s'|e s'|]; cbn in Hcatch |- *; auto.
  destruct (en_serial E && match p with [] => true | _ :: _ => false end).
  - pose proof (IHd y s' fp Hcatch) as Hd.
    destruct (dth y s') as [y' s''|e s''|]; cbn in Hd |- *; auto.
  - cbn. exact Hcatch.
Qed.

Lemma collect_all_keys_nodup : forall fuel S D vars obj sets visited g g',
  collect_all fuel S D vars obj sets visited g = Some g' -> NoDup (map fst g) -> NoDup (map fst g').
Proof.
  intros fuel S D vars obj sets. induction sets as [|x sets IH]; intros visited g g' H Hn; cbn [collect_all] in H.
  - inversion H; subst. exact Hn.
  - destruct (collect fuel S D vars obj x visited g) as [[g1 v1]|] eqn:E1; [|discriminate].
    eapply IH; [exact H|]. eapply collect_keys_nodup; eassumption.
Qed.

Definition posG (b : path) (g : groups) (r : xres (list (name * presp))) : Prop :=
  match r with
  | XOk fs _ => PosF b fs /\ NoDup (map fst fs) /\ incl (map fst fs) (map fst g)
  | _ => True
  end.

Definition PA (fuel : nat) : Prop :=
  (forall E t nodes occs fpath p v s, posr p (complete fuel E t nodes occs fpath p v s)) /\
  (forall E obj occs p src s, posr p (exec_object fuel E obj occs p src s)) /\
  (forall E obj src g p s, NoDup (map fst g) -> posG p g (exec_groups fuel E obj src g p s)) /\
  (forall E q s b, Pos b q -> posr b (dethunk fuel E q s)).

Lemma pos_inv : forall fuel, PA fuel.
Proof.
  induction fuel as [|fuel [IHc [IHo [IHg IHd]]]].
  - repeat split; intros; exact I.
  - repeat split.
    + (* complete *)
      intros E t nodes occs fpath p v s. cbn [complete].
      destruct t as [n|t'|t'].
      * destruct (rv_nullish v); [cbn; constructor|].
        destruct (lookup_type (en_S E) n) as [[k|vals|fs ifs|fs|ms|fs]|].
        -- cbn. destruct (nullish (serialize_scalar k v)); constructor.
        -- cbn. destruct (nullish (serialize_enum vals v)); constructor.
        -- apply IHo.
        -- destruct (en_tor E v) as [rt|]; [|exact I].
           destruct (possible_type (en_S E) n rt); [|exact I]. apply IHo.
        -- destruct (en_tor E v) as [rt|]; [|exact I].
           destruct (possible_type (en_S E) n rt); [|exact I]. apply IHo.
        -- exact I.
        -- exact I.
      * destruct (rv_nullish v); [cbn; constructor|].
        destruct v; try exact I.
        pose proof (items_loop_pos
                      (fun i x s0 => catch_at t' (complete fuel E t' nodes occs fpath (p ++ [PIdx i]) x s0)) p) as HL.
        match goal with |- posr p (match items_loop ?c ?l0 ?i0 ?s0 with _ => _ end) =>
          specialize (HL (fun i x s1 => posr_catch (p ++ [PIdx i]) t' _
                              (IHc E t' nodes occs fpath (p ++ [PIdx i]) x s1)) l0 i0 s0);
          destruct (items_loop c l0 i0 s0) as [ys s'|e s'|]; cbn in HL |- *; auto
        end.
        constructor. exact HL.
      * specialize (IHc E t' nodes occs fpath p v s).
        destruct (complete fuel E t' nodes occs fpath p v s) as [q s'|e s'|]; cbn in IHc |- *; auto.
        destruct q; cbn; try exact IHc. exact I.
    + (* exec_object *)
      intros E obj occs p src s. cbn [exec_object].
      destruct (collect_all fuel (en_S E) (en_D E) (en_vars E) obj (map oc_sub occs) [] []) as [g|] eqn:Eg; [|exact I].
      assert (Hn : NoDup (map fst g)) by (eapply collect_all_keys_nodup; [exact Eg|constructor]).
      specialize (IHg E obj src g p s Hn).
      destruct (exec_groups fuel E obj src g p s) as [fs s'|e s'|]; cbn in IHg |- *; auto.
      destruct IHg as [H1 [H2 _]]. constructor; assumption.
    + (* exec_groups *)
      intros E obj src g p s Hn. cbn [exec_groups].
      destruct g as [|[k occs] rest]; [cbn; split; [constructor|split; [constructor|intros x []]]|].
      pose proof (exec_field_pos fuel (complete fuel E) (dethunk fuel E) E obj src k occs p s
                       (fun t nodes occs0 fpath p0 v s0 => IHc E t nodes occs0 fpath p0 v s0)
                       (fun q s0 b H0 => IHd E q s0 b H0)) as Hthis.
      destruct (exec_field fuel (complete fuel E) (dethunk fuel E) E obj src k occs p s) as [y s'|e s'|]; cbn in Hthis |- *; auto.
      cbn [map fst] in Hn. inversion Hn as [|? ? Hk Hn']; subst.
      specialize (IHg E obj src rest p s' Hn').
      destruct (exec_groups fuel E obj src rest p s') as [ys s''|e s''|]; cbn in IHg |- *; auto.
      destruct IHg as [G1 [G2 G3]].
      destruct y as [q|].
      * split; [constructor; assumption|]. cbn [map fst]. split.
        -- constructor; [|exact G2]. intro Hin. apply Hk. apply G3. exact Hin.
        -- intros x [<-|Hx]; [left; reflexivity|right; apply G3; exact Hx].
      * split; [exact G1|]. split; [exact G2|]. intros x Hx. right. apply G3. exact Hx.
    + (* dethunk *)
      intros E q s b Hq. cbn [dethunk].
      destruct q as [|v|l|l|t nodes occs tp o].
      * cbn. constructor.
      * cbn. constructor.
      * pose proof (Pos_list_inv _ _ Hq) as HL0.
        pose proof (dethunk_list_pos (dethunk fuel E) (fun b0 x s0 H0 => IHd E x s0 b0 H0) l b 0%N s HL0) as HL.
        destruct (dethunk_list (dethunk fuel E) l s) as [ys s'|e s'|]; cbn; auto.
        constructor. exact HL.
      * destruct (Pos_obj_inv _ _ Hq) as [Hn0 HF0].
        pose proof (dethunk_fields_pos (dethunk fuel E) (fun b0 x s0 H0 => IHd E x s0 b0 H0) l b s HF0) as HL.
        destruct (dethunk_fields (dethunk fuel E) l s) as [ys s'|e s'|]; cbn; auto.
        destruct HL as [L1 L2]. constructor; [rewrite L2; exact Hn0|exact L1].
      * destruct (Pos_thunk_inv _ _ _ _ _ _ Hq) as [-> Hnn].
        assert (Hc : posr b (match o with
                                 | OVal v => complete fuel E t nodes occs b b v s
                                 | _ => XRaise {| e_path := b; e_nodes := nodes |} s
                                 end)).
        { destruct o; try exact I. apply IHc. }
        pose proof (posr_catch b t _ Hc) as Hcatch.
        destruct (catch_at t _) as [y s'|e s'|]; cbn in Hcatch |- *; [|exact I|exact I].
        apply IHd. exact Hcatch.
Qed.

(* ------------------------------------------------------------------------------------------ *)
(* (B) resolver invocations: pairwise distinct paths                                          *)
(* ------------------------------------------------------------------------------------------ *)
(* the paths of the deferred values of a response under construction *)
Definition InT (tp : path) (q : presp) : Prop := exists t, In (t, tp) (thunks q).

Lemma InT_list : forall tp l, InT tp (QList l) <-> exists x, In x l /\ InT tp x.
Proof.
  intros tp l. unfold InT. cbn [thunks]. split.
  - intros [t H]. apply in_flat_map in H. destruct H as [x [H1 H2]]. exists x. split; [exact H1|exists t; exact H2].
  - intros [x [H1 [t H2]]]. exists t. apply in_flat_map. exists x. split; assumption.
Qed.

Lemma InT_obj : forall tp (l : list (name * presp)), InT tp (QObj l) <-> exists kv, In kv l /\ InT tp (snd kv).
Proof.
  intros tp l. unfold InT. cbn [thunks]. split.
  - intros [t H]. apply in_flat_map in H. destruct H as [x [H1 H2]]. exists x. split; [exact H1|exists t; exact H2].
  - intros [x [H1 [t H2]]]. exists t. apply in_flat_map. exists x. split; assumption.
Qed.

Lemma InT_thunk : forall tp t nodes occs p o, InT tp (QThunk t nodes occs p o) -> tp = p.
Proof. intros tp t nodes occs p o [t0 H]. cbn in H. destruct H as [H|[]]. inversion H. reflexivity. Qed.

Lemma InT_null : forall tp, ~ InT tp QNull.
Proof. intros tp [t []]. Qed.

Lemma InT_nil : forall tp q, thunks q = [] -> ~ InT tp q.
Proof. intros tp q H [t Ht]. rewrite H in Ht. exact Ht. Qed.

Lemma InT_under : forall b q tp, Pos b q -> InT tp q -> prefix b tp.
Proof.
  intros b q tp Hp [t Ht]. pose proof (Pos_thunks_ok b q Hp) as H. unfold thunks_ok in H.
  rewrite Forall_forall in H. destruct (H _ Ht) as [_ H2]. exact H2.
Qed.

(* regions of sibling subtrees *)
Definition Ridx (b : path) (i : N) (x : path) : Prop := exists j, (i <= j)%N /\ prefix (b ++ [PIdx j]) x.
Definition Rkey (b : path) (ks : list name) (x : path) : Prop := exists k, In k ks /\ prefix (b ++ [PKey k]) x.

Lemma Ridx_up : forall b i x y, Ridx b i x -> prefix x y -> Ridx b i y.
Proof. intros b i x y [j [H1 H2]] H. exists j. split; [exact H1|eapply prefix_trans; eassumption]. Qed.

Lemma Rkey_up : forall b ks x y, Rkey b ks x -> prefix x y -> Rkey b ks y.
Proof. intros b ks x y [k [H1 H2]] H. exists k. split; [exact H1|eapply prefix_trans; eassumption]. Qed.

Lemma Ridx_sep : forall b i x, prefix (b ++ [PIdx i]) x -> Ridx b (i + 1) x -> False.
Proof.
  intros b i x H [j [H1 H2]]. pose proof (snoc_apart _ _ _ _ H H2) as E. inversion E. lia.
Qed.

Lemma Rkey_sep : forall b k ks x, ~ In k ks -> prefix (b ++ [PKey k]) x -> Rkey b ks x -> False.
Proof.
  intros b k ks x Hk H [k' [H1 H2]]. pose proof (snoc_apart _ _ _ _ H H2) as E. inversion E. subst. exact (Hk H1).
Qed.

Lemma Ridx_sprefix : forall b i x, Ridx b i x -> sprefix b x.
Proof. intros b i x [j [_ H]]. eapply snoc_prefix_sprefix. exact H. Qed.

Lemma Rkey_sprefix : forall b ks x, Rkey b ks x -> sprefix b x.
Proof. intros b ks x [k [_ H]]. eapply snoc_prefix_sprefix. exact H. Qed.

Lemma InT_PosL : forall l b i, PosL b i l -> forall tp x, In x l -> InT tp x -> Ridx b i tp.
Proof.
  induction l as [|y l IH]; intros b i Hl tp x Hx Ht; [contradiction|].
  destruct (PosL_cons_inv _ _ _ _ Hl) as [Hy Hr]. destruct Hx as [->|Hx].
  - exists i. split; [lia|]. eapply InT_under; eassumption.
  - destruct (IH b (i + 1)%N Hr tp x Hx Ht) as [j [H1 H2]]. exists j. split; [lia|exact H2].
Qed.

Lemma InT_PosF : forall (l : list (name * presp)) b, PosF b l -> forall tp kv, In kv l -> InT tp (snd kv) ->
  Rkey b (map fst l) tp.
Proof.
  induction l as [|[k y] l IH]; intros b Hl tp kv Hx Ht; [contradiction|].
  destruct (PosF_cons_inv _ _ _ _ Hl) as [Hy Hr]. destruct Hx as [<-|Hx].
  - exists k. split; [left; reflexivity|]. cbn [snd] in Ht. eapply InT_under; eassumption.
  - destruct (IH b Hr tp kv Hx Ht) as [k' [H1 H2]]. exists k'. split; [right; exact H1|exact H2].
Qed.

(* what a sub-execution adds to the calls: new calls cs, all in region R, pairwise distinct
   paths, none strictly below a deferred value (T) of the result *)
Definition cres {A : Type} (R : path -> Prop) (T : A -> path -> Prop) (s : st) (r : xres A) : Prop :=
  match r with
  | XOk a s' => exists cs, st_calls s' = st_calls s ++ cs /\ Forall (fun c => R (c_path c)) cs /\
                           NoDup (map c_path cs) /\
                           (forall c tp, In c cs -> T a tp -> ~ sprefix tp (c_path c))
  | XRaise _ s' => exists cs, st_calls s' = st_calls s ++ cs /\ Forall (fun c => R (c_path c)) cs /\
                              NoDup (map c_path cs)
  | XFuel => True
  end.

Definition Tq (q : presp) (tp : path) : Prop := InT tp q.
Definition Tl (l : list presp) (tp : path) : Prop := InT tp (QList l).
Definition Tf (l : list (name * presp)) (tp : path) : Prop := InT tp (QObj l).
Definition To (y : option presp) (tp : path) : Prop := match y with Some q => InT tp q | None => False end.

Lemma cres_weaken : forall A (R R' : path -> Prop) (T : A -> path -> Prop) s r,
  (forall x, R x -> R' x) -> cres R T s r -> cres R' T s r.
Proof.
  intros A R R' T s [a s'|e s'|] HR H; cbn in *; auto.
  - destruct H as [cs [H1 [H2 [H3 H4]]]]. exists cs. repeat split; auto.
    eapply Forall_impl; [|exact H2]. intros c Hc. apply HR. exact Hc.
  - destruct H as [cs [H1 [H2 H3]]]. exists cs. repeat split; auto.
    eapply Forall_impl; [|exact H2]. intros c Hc. apply HR. exact Hc.
Qed.

Lemma cres_calls_eq : forall A (R : path -> Prop) (T : A -> path -> Prop) s0 s r,
  st_calls s = st_calls s0 -> cres R T s r -> cres R T s0 r.
Proof. intros A R T s0 s [a s'|e s'|] He H; cbn in *; auto; rewrite <- He; exact H. Qed.

Lemma cres_ok_nil : forall A (R : path -> Prop) (T : A -> path -> Prop) s a, cres R T s (XOk a s).
Proof.
  intros. cbn. exists []. rewrite app_nil_r. repeat split; [constructor|constructor|]. intros c tp [].
Qed.

Lemma cres_raise_nil : forall A (R : path -> Prop) (T : A -> path -> Prop) s e, cres R T s (@XRaise A e s).
Proof. intros. cbn. exists []. rewrite app_nil_r. repeat split; constructor. Qed.

Lemma cres_catch : forall R s t r, cres R Tq s r -> cres R Tq s (catch_at t r).
Proof.
  intros R s t [q s'|e s'|] H; cbn in *; auto.
  destruct (is_nonnull t); cbn; [exact H|].
  destruct H as [cs [H1 [H2 H3]]]. exists cs. repeat split; auto.
  intros c tp _ Ht. exfalso. exact (InT_null _ Ht).
Qed.

(* two executions in separated regions *)
Lemma combine_sep : forall (R1 R2 T1 T2 : path -> Prop) cs1 cs2,
  (forall a b, R1 a -> prefix a b -> R1 b) -> (forall a b, R2 a -> prefix a b -> R2 b) ->
  (forall a, R1 a -> R2 a -> False) ->
  Forall (fun c => R1 (c_path c)) cs1 -> Forall (fun c => R2 (c_path c)) cs2 ->
  (forall tp, T1 tp -> R1 tp) -> (forall tp, T2 tp -> R2 tp) ->
  NoDup (map c_path cs1) -> NoDup (map c_path cs2) ->
  (forall c tp, In c cs1 -> T1 tp -> ~ sprefix tp (c_path c)) ->
  (forall c tp, In c cs2 -> T2 tp -> ~ sprefix tp (c_path c)) ->
  NoDup (map c_path (cs1 ++ cs2)) /\
  (forall c tp, In c (cs1 ++ cs2) -> T1 tp \/ T2 tp -> ~ sprefix tp (c_path c)).
Proof.
  intros R1 R2 T1 T2 cs1 cs2 U1 U2 Sep F1 F2 HT1 HT2 N1 N2 C1 C2.
  rewrite Forall_forall in F1, F2. split.
  - rewrite map_app. apply NoDup_app_intro; [exact N1|exact N2|].
    intros x H1 H2. apply in_map_iff in H1. destruct H1 as [c1 [<- H1]].
    apply in_map_iff in H2. destruct H2 as [c2 [E2 H2]].
    apply (Sep (c_path c1)); [apply F1; exact H1|rewrite <- E2; apply F2; exact H2].
  - intros c tp Hc Ht Hs. apply in_app_or in Hc. destruct Hc as [Hc|Hc]; destruct Ht as [Ht|Ht].
    + exact (C1 c tp Hc Ht Hs).
    + apply (Sep (c_path c)); [apply F1; exact Hc|].
      eapply U2; [apply HT2; exact Ht|apply sprefix_prefix; exact Hs].
    + apply (Sep (c_path c)); [|apply F2; exact Hc].
      eapply U1; [apply HT1; exact Ht|apply sprefix_prefix; exact Hs].
    + exact (C2 c tp Hc Ht Hs).
Qed.

(* an execution, then the forcing of what it deferred *)
Lemma seq_nodup : forall cs1 cs2 (T : path -> Prop),
  NoDup (map c_path cs1) -> NoDup (map c_path cs2) ->
  (forall c tp, In c cs1 -> T tp -> ~ sprefix tp (c_path c)) ->
  Forall (fun c => exists tp, T tp /\ sprefix tp (c_path c)) cs2 ->
  NoDup (map c_path (cs1 ++ cs2)).
Proof.
  intros cs1 cs2 T N1 N2 C1 F2. rewrite Forall_forall in F2.
  rewrite map_app. apply NoDup_app_intro; [exact N1|exact N2|].
  intros x H1 H2. apply in_map_iff in H1. destruct H1 as [c1 [<- H1]].
  apply in_map_iff in H2. destruct H2 as [c2 [E2 H2]].
  destruct (F2 c2 H2) as [tp [Ht Hs]]. rewrite E2 in Hs. exact (C1 c1 tp H1 Ht Hs).
Qed.

(* forcing: the new calls lie strictly below deferred values of the forced response *)
Definition dinv (q : presp) (s : st) (r : xres presp) : Prop :=
  match r with
  | XOk _ s' => exists cs, st_calls s' = st_calls s ++ cs /\
                           Forall (fun c => exists tp, InT tp q /\ sprefix tp (c_path c)) cs /\
                           NoDup (map c_path cs)
  | _ => True
  end.

Lemma items_loop_calls : forall cmp b,
  (forall i x s, cres (sprefix (b ++ [PIdx i])) Tq s (cmp i x s) /\ posr (b ++ [PIdx i]) (cmp i x s)) ->
  forall l i s, cres (Ridx b i) Tl s (items_loop cmp l i s).
Proof.
  intros cmp b Hc. induction l as [|x l IH]; intros i s; cbn [items_loop].
  - apply cres_ok_nil.
  - pose proof (items_loop_pos cmp b (fun i0 x0 s0 => proj2 (Hc i0 x0 s0)) l (i + 1)%N) as HP.
    destruct (Hc i x s) as [H1 P1].
    destruct (cmp i x s) as [y s'|e s'|]; cbn in H1, P1 |- *; auto.
    + destruct H1 as [cs1 [E1 [F1 [N1 C1]]]].
      specialize (IH (i + 1)%N s'). specialize (HP s').
      destruct (items_loop cmp l (i + 1)%N s') as [ys s''|e s''|]; cbn in IH |- *; auto.
      * destruct IH as [cs2 [E2 [F2 [N2 C2]]]].
        destruct (combine_sep (prefix (b ++ [PIdx i])) (Ridx b (i + 1)) (Tq y) (Tl ys) cs1 cs2) as [K1 K2]; auto.
        -- intros a c Ha Hac. eapply prefix_trans; eassumption.
        -- apply Ridx_up.
        -- apply Ridx_sep.
        -- eapply Forall_impl; [|exact F1]. intros c Hc0. apply sprefix_prefix. exact Hc0.
        -- intros tp Ht. eapply InT_under; eassumption.
        -- intros tp Ht. apply InT_list in Ht. destruct Ht as [x0 [Hx0 Ht]]. eapply InT_PosL; eassumption.
        -- exists (cs1 ++ cs2). rewrite E2, E1, app_assoc. split; [reflexivity|]. split; [|split; [exact K1|]].
           ++ apply Forall_app. split.
              ** eapply Forall_impl; [|exact F1]. intros c Hc0. exists i. split; [lia|apply sprefix_prefix; exact Hc0].
              ** eapply Forall_impl; [|exact F2]. intros c [j [J1 J2]]. exists j. split; [lia|exact J2].
           ++ intros c tp Hin Ht. apply K2; [exact Hin|].
              apply InT_list in Ht. destruct Ht as [x0 [[<-|Hx0] Ht]]; [left; exact Ht|].
              right. apply InT_list. exists x0. split; assumption.
      * destruct IH as [cs2 [E2 [F2 N2]]].
        destruct (combine_sep (prefix (b ++ [PIdx i])) (Ridx b (i + 1)) (fun _ => False) (fun _ => False) cs1 cs2) as [K1 _]; auto.
        -- intros a c Ha Hac. eapply prefix_trans; eassumption.
        -- apply Ridx_up.
        -- apply Ridx_sep.
        -- eapply Forall_impl; [|exact F1]. intros c Hc0. apply sprefix_prefix. exact Hc0.
        -- intros tp [].
        -- intros tp [].
        -- exists (cs1 ++ cs2). rewrite E2, E1, app_assoc. split; [reflexivity|]. split; [|exact K1].
           apply Forall_app. split.
           ++ eapply Forall_impl; [|exact F1]. intros c Hc0. exists i. split; [lia|apply sprefix_prefix; exact Hc0].
           ++ eapply Forall_impl; [|exact F2]. intros c [j [J1 J2]]. exists j. split; [lia|exact J2].
    + destruct H1 as [cs1 [E1 [F1 N1]]]. exists cs1. split; [exact E1|]. split; [|exact N1].
      eapply Forall_impl; [|exact F1]. intros c Hc0. exists i. split; [lia|apply sprefix_prefix; exact Hc0].
Qed.

Lemma dethunk_list_calls : forall f,
  (forall b x s, Pos b x -> dinv x s (f x s)) ->
  forall l b i s, PosL b i l ->
    match dethunk_list f l s with
    | XOk _ s' => exists cs, st_calls s' = st_calls s ++ cs /\
                             Forall (fun c => exists tp, InT tp (QList l) /\ sprefix tp (c_path c)) cs /\
                             NoDup (map c_path cs)
    | _ => True
    end.
Proof.
  intros f Hf. induction l as [|x l IH]; intros b i s Hl; cbn [dethunk_list].
  - exists []. rewrite app_nil_r. repeat split; constructor.
  - destruct (PosL_cons_inv _ _ _ _ Hl) as [Hy Hr]. specialize (Hf _ x s Hy).
    destruct (f x s) as [y s'|e s'|]; cbn in Hf |- *; auto.
    destruct Hf as [cs1 [E1 [F1 N1]]].
    specialize (IH b (i + 1)%N s' Hr).
    destruct (dethunk_list f l s') as [ys s''|e s''|]; auto.
    destruct IH as [cs2 [E2 [F2 N2]]].
    assert (G1 : Forall (fun c => prefix (b ++ [PIdx i]) (c_path c)) cs1).
    { eapply Forall_impl; [|exact F1]. intros c [tp [Ht Hs]].
      eapply prefix_trans; [eapply InT_under; eassumption|apply sprefix_prefix; exact Hs]. }
    assert (G2 : Forall (fun c => Ridx b (i + 1) (c_path c)) cs2).
    { eapply Forall_impl; [|exact F2]. intros c [tp [Ht Hs]].
      apply InT_list in Ht. destruct Ht as [x0 [Hx0 Ht]].
      eapply Ridx_up; [eapply InT_PosL; eassumption|apply sprefix_prefix; exact Hs]. }
    destruct (combine_sep (prefix (b ++ [PIdx i])) (Ridx b (i + 1)) (fun _ => False) (fun _ => False) cs1 cs2) as [K1 _]; auto.
    + intros a c Ha Hac. eapply prefix_trans; eassumption.
    + apply Ridx_up.
    + apply Ridx_sep.
    + intros tp [].
    + intros tp [].
    + exists (cs1 ++ cs2). rewrite E2, E1, app_assoc. split; [reflexivity|]. split; [|exact K1].
      apply Forall_app. split.
      * eapply Forall_impl; [|exact F1]. intros c [tp [Ht Hs]]. exists tp. split; [|exact Hs].
        apply InT_list. exists x. split; [left; reflexivity|exact Ht].
      * eapply Forall_impl; [|exact F2]. intros c [tp [Ht Hs]]. exists tp. split; [|exact Hs].
        apply InT_list in Ht. destruct Ht as [x0 [Hx0 Ht]]. apply InT_list. exists x0. split; [right; exact Hx0|exact Ht].
Qed.

Lemma dethunk_fields_calls : forall f,
  (forall b x s, Pos b x -> dinv x s (f x s)) ->
  forall l b s, PosF b l -> NoDup (map fst l) ->
    match dethunk_fields f l s with
    | XOk _ s' => exists cs, st_calls s' = st_calls s ++ cs /\
                             Forall (fun c => exists tp, InT tp (QObj l) /\ sprefix tp (c_path c)) cs /\
                             NoDup (map c_path cs)
    | _ => True
    end.
Proof.
  intros f Hf. induction l as [|[k x] l IH]; intros b s Hl Hn; cbn [dethunk_fields].
  - exists []. rewrite app_nil_r. repeat split; constructor.
  - destruct (PosF_cons_inv _ _ _ _ Hl) as [Hy Hr]. specialize (Hf _ x s Hy).
    cbn [map fst] in Hn. inversion Hn as [|? ? Hk Hn']; subst.
    destruct (f x s) as [y s'|e s'|]; cbn in Hf |- *; auto.
    destruct Hf as [cs1 [E1 [F1 N1]]].
    specialize (IH b s' Hr Hn').
    destruct (dethunk_fields f l s') as [ys s''|e s''|]; auto.
    destruct IH as [cs2 [E2 [F2 N2]]].
    assert (G1 : Forall (fun c => prefix (b ++ [PKey k]) (c_path c)) cs1).
    { eapply Forall_impl; [|exact F1]. intros c [tp [Ht Hs]].
      eapply prefix_trans; [eapply InT_under; eassumption|apply sprefix_prefix; exact Hs]. }
    assert (G2 : Forall (fun c => Rkey b (map fst l) (c_path c)) cs2).
    { eapply Forall_impl; [|exact F2]. intros c [tp [Ht Hs]].
      apply InT_obj in Ht. destruct Ht as [x0 [Hx0 Ht]].
      eapply Rkey_up; [eapply InT_PosF; eassumption|apply sprefix_prefix; exact Hs]. }
    destruct (combine_sep (prefix (b ++ [PKey k])) (Rkey b (map fst l)) (fun _ => False) (fun _ => False) cs1 cs2) as [K1 _]; auto.
    + intros a c Ha Hac. eapply prefix_trans; eassumption.
    + apply Rkey_up.
    + intros a. apply Rkey_sep. exact Hk.
    + intros tp [].
    + intros tp [].
    + exists (cs1 ++ cs2). rewrite E2, E1, app_assoc. split; [reflexivity|]. split; [|exact K1].
      apply Forall_app. split.
      * eapply Forall_impl; [|exact F1]. intros c [tp [Ht Hs]]. exists tp. split; [|exact Hs].
        apply InT_obj. exists (k, x). split; [left; reflexivity|exact Ht].
      * eapply Forall_impl; [|exact F2]. intros c [tp [Ht Hs]]. exists tp. split; [|exact Hs].
        apply InT_obj in Ht. destruct Ht as [x0 [Hx0 Ht]]. apply InT_obj. exists x0. split; [right; exact Hx0|exact Ht].
Qed.

(* the field's own invocation, then what its value's completion adds strictly below *)
Lemma cres_first : forall fp s s2 c r,
  st_calls s2 = st_calls s ++ [c] -> c_path c = fp ->
  cres (sprefix fp) Tq s2 r -> posr fp r -> cres (prefix fp) Tq s r.
Proof.
  intros fp s s2 c [q s'|e s'|] Hs Hc H Hp; cbn in *; auto.
  - destruct H as [cs [E [F [N C]]]]. exists (c :: cs).
    split; [rewrite E, Hs, <- app_assoc; reflexivity|].
    assert (Hnot : ~ In (c_path c) (map c_path cs)).
    { intro Hin. apply in_map_iff in Hin. destruct Hin as [c' [E' Hin]].
      rewrite Forall_forall in F. specialize (F c' Hin). rewrite E', Hc in F. exact (sprefix_irrefl _ F). }
    split; [|split].
    + constructor; [rewrite Hc; apply prefix_refl|].
      eapply Forall_impl; [|exact F]. intros c' Hc'. apply sprefix_prefix. exact Hc'.
    + cbn [map]. constructor; assumption.
    + intros c' tp [<-|Hin] Ht.
      * intro Hs'. rewrite Hc in Hs'. apply (sprefix_irrefl fp).
        eapply prefix_sprefix; [eapply InT_under; eassumption|exact Hs'].
      * apply C; assumption.
  - destruct H as [cs [E [F N]]]. exists (c :: cs).
    split; [rewrite E, Hs, <- app_assoc; reflexivity|].
    assert (Hnot : ~ In (c_path c) (map c_path cs)).
    { intro Hin. apply in_map_iff in Hin. destruct Hin as [c' [E' Hin]].
      rewrite Forall_forall in F. specialize (F c' Hin). rewrite E', Hc in F. exact (sprefix_irrefl _ F). }
    split.
    + constructor; [rewrite Hc; apply prefix_refl|].
      eapply Forall_impl; [|exact F]. intros c' Hc'. apply sprefix_prefix. exact Hc'.
    + cbn [map]. constructor; assumption.
Qed.

Lemma exec_field_cres : forall fuel E obj src k occs p s,
  (forall t nodes occs0 fpath p0 v s0, cres (sprefix p0) Tq s0 (complete fuel E t nodes occs0 fpath p0 v s0)) ->
  (forall q s0 b, Pos b q -> dinv q s0 (dethunk fuel E q s0)) ->
  cres (prefix (p ++ [PKey k])) To s (exec_field fuel (complete fuel E) (dethunk fuel E) E obj src k occs p s).
Proof.
  intros fuel E obj src k occs p s IHc IHd.
  destruct (pos_inv fuel) as [PAc [_ [_ PAd]]].
  destruct (exec_inv fuel) as [_ [_ [_ XId]]].
  unfold exec_field.
  set (fname := match occs with o :: _ => oc_name o | [] => "" end).
  set (fargs := match occs with o :: _ => oc_args o | [] => [] end).
  set (nodes := map oc_id occs).
  set (fp := p ++ [PKey k]).
  destruct (String.eqb fname "__typename"); [apply cres_ok_nil|].
  destruct (find_field fname (object_fields (en_S E) obj)) as [fd|]; [|apply cres_ok_nil].
  destruct (get_argument_values fuel (en_S E) (f_args fd) fargs (Some (en_vars E))) as [args|]; [|exact I].
  set (s1 := add_call _ s).
  assert (Hs1 : exists c, st_calls s1 = st_calls s ++ [c] /\ c_path c = fp).
  { eexists. split; [unfold s1; cbn [add_call st_calls]; reflexivity|reflexivity]. }
  destruct Hs1 as [c [Hs1 Hcp]].
  destruct (match en_or E fp with Some o => force o | None => (OVal RNull, false) end) as [o thunked].
  set (s2 := match en_or E fp with Some _ => s1 | None => add_missing fp s1 end).
  assert (Hs2 : st_calls s2 = st_calls s ++ [c]).
  { rewrite <- Hs1. unfold s2. destruct (en_or E fp); reflexivity. }
  set (c0 := match o with
             | OVal v => complete fuel E (f_type fd) nodes occs fp fp v s2
             | _ => XRaise {| e_path := fp; e_nodes := nodes |} s2
             end).
  assert (Hc0 : cres (sprefix fp) Tq s2 c0 /\ posr fp c0).
  { unfold c0. destruct o; try (split; [apply cres_raise_nil|exact I]). split; [apply IHc|apply PAc]. }
  destruct Hc0 as [Hc0 Pc0].
  pose proof (cres_first fp s s2 c c0 Hs2 Hcp Hc0 Pc0) as Hf0.
  set (r1 := if thunked && negb (is_nonnull (f_type fd))
             then XOk (QThunk (f_type fd) nodes occs fp o) s2
             else match c0 with
                  | XRaise e s' => if thunked then XRaise e (set_escape s') else c0
                  | _ => c0
                  end).
  assert (Hr1 : cres (prefix fp) Tq s r1 /\ posr fp r1).
  { unfold r1. destruct (thunked && negb (is_nonnull (f_type fd))) eqn:Et.
    - split.
      + cbn. exists [c]. split; [exact Hs2|]. split; [|split].
        * constructor; [rewrite Hcp; apply prefix_refl|constructor].
        * cbn. constructor; [intros []|constructor].
        * intros c' tp [<-|[]] Ht Hs'. apply InT_thunk in Ht. subst tp. rewrite Hcp in Hs'.
          exact (sprefix_irrefl _ Hs').
      + cbn. constructor.
        apply andb_true_iff in Et. destruct Et as [_ Et]. destruct (is_nonnull (f_type fd)); [discriminate|reflexivity].
    - destruct c0 as [q0 s0|e0 s0|]; [split; assumption| |split; exact I].
      destruct thunked; [|split; assumption]. split; [exact Hf0|exact I]. }
  destruct Hr1 as [Hr1 Pr1].
  pose proof (cres_catch _ s (f_type fd) r1 Hr1) as Hcatch.
  pose proof (posr_catch fp (f_type fd) r1 Pr1) as Pcatch.
  destruct (catch_at (f_type fd) r1) as [y s'|e s'|]; cbn in Pcatch; [| exact Hcatch | exact I].
  destruct (en_serial E && match p with [] => true | _ :: _ => false end).
  - pose proof (IHd y s' fp Pcatch) as Hd.
    pose proof (XId E y s' fp (Pos_thunks_ok _ _ Pcatch)) as XI.
    destruct (dethunk fuel E y s') as [y' s''|e s''|]; cbn in Hd, XI |- *; [|contradiction|exact I].
    destruct Hcatch as [cs1 [E1 [F1 [N1 C1]]]]. destruct Hd as [cs2 [E2 [F2 N2]]]. destruct XI as [_ XI].
    exists (cs1 ++ cs2). rewrite E2, E1, app_assoc. split; [reflexivity|]. split; [|split].
    + apply Forall_app. split; [exact F1|].
      eapply Forall_impl; [|exact F2]. intros c' [tp [Ht Hs']].
      eapply prefix_trans; [eapply InT_under; eassumption|apply sprefix_prefix; exact Hs'].
    + eapply (seq_nodup cs1 cs2 (Tq y)); eassumption.
    + intros c' tp _ Ht. exfalso. exact (InT_nil _ _ XI Ht).
  - exact Hcatch.
Qed.

Definition PB (fuel : nat) : Prop :=
  (forall E t nodes occs fpath p v s, cres (sprefix p) Tq s (complete fuel E t nodes occs fpath p v s)) /\
  (forall E obj occs p src s, cres (sprefix p) Tq s (exec_object fuel E obj occs p src s)) /\
  (forall E obj src g p s, NoDup (map fst g) ->
     cres (Rkey p (map fst g)) Tf s (exec_groups fuel E obj src g p s)) /\
  (forall E q s b, Pos b q -> dinv q s (dethunk fuel E q s)).

Lemma calls_inv : forall fuel, PB fuel.
Proof.
  induction fuel as [|fuel [IHc [IHo [IHg IHd]]]].
  - repeat split; intros; exact I.
  - destruct (pos_inv fuel) as [PAc [PAo [PAg PAd]]].
    destruct (exec_inv fuel) as [_ [_ [_ XId]]].
    repeat split.
    + (* complete *)
      intros E t nodes occs fpath p v s. cbn [complete].
      destruct t as [n|t'|t'].
      * destruct (rv_nullish v); [apply cres_ok_nil|].
        destruct (lookup_type (en_S E) n) as [[k|vals|fs ifs|fs|ms|fs]|].
        -- apply cres_ok_nil.
        -- apply cres_ok_nil.
        -- apply IHo.
        -- destruct (en_tor E v) as [rt|]; [|apply (cres_calls_eq _ _ _ s (add_tcall (fpath, v) s) _ eq_refl); apply cres_raise_nil].
           destruct (possible_type (en_S E) n rt); [|apply (cres_calls_eq _ _ _ s (add_tcall (fpath, v) s) _ eq_refl); apply cres_raise_nil].
           apply (cres_calls_eq _ _ _ s (add_tcall (fpath, v) s) _ eq_refl). apply IHo.
        -- destruct (en_tor E v) as [rt|]; [|apply (cres_calls_eq _ _ _ s (add_tcall (fpath, v) s) _ eq_refl); apply cres_raise_nil].
           destruct (possible_type (en_S E) n rt); [|apply (cres_calls_eq _ _ _ s (add_tcall (fpath, v) s) _ eq_refl); apply cres_raise_nil].
           apply (cres_calls_eq _ _ _ s (add_tcall (fpath, v) s) _ eq_refl). apply IHo.
        -- apply cres_raise_nil.
        -- apply cres_raise_nil.
      * destruct (rv_nullish v); [apply cres_ok_nil|].
        destruct v; try apply cres_raise_nil.
        pose proof (items_loop_calls
                      (fun i x s0 => catch_at t' (complete fuel E t' nodes occs fpath (p ++ [PIdx i]) x s0)) p) as HL.
        match goal with |- cres _ _ s (match items_loop ?c ?l0 ?i0 ?s0 with _ => _ end) =>
          specialize (HL (fun i x s1 => conj
                            (cres_catch _ s1 t' _ (IHc E t' nodes occs fpath (p ++ [PIdx i]) x s1))
                            (posr_catch (p ++ [PIdx i]) t' _ (PAc E t' nodes occs fpath (p ++ [PIdx i]) x s1))) l0 i0 s0);
          destruct (items_loop c l0 i0 s0) as [ys s'|e s'|]; cbn in HL |- *; auto
        end.
        -- destruct HL as [cs [H1 [H2 [H3 H4]]]]. exists cs. repeat split; auto.
           eapply Forall_impl; [|exact H2]. intros c Hc. eapply Ridx_sprefix. exact Hc.
        -- destruct HL as [cs [H1 [H2 H3]]]. exists cs. repeat split; auto.
           eapply Forall_impl; [|exact H2]. intros c Hc. eapply Ridx_sprefix. exact Hc.
      * specialize (IHc E t' nodes occs fpath p v s).
        destruct (complete fuel E t' nodes occs fpath p v s) as [q s'|e s'|]; cbn in IHc |- *; auto.
        destruct q; cbn; try exact IHc.
        destruct IHc as [cs [H1 [H2 [H3 _]]]]. exists cs. repeat split; auto.
    + (* exec_object *)
      intros E obj occs p src s. cbn [exec_object].
      destruct (collect_all fuel (en_S E) (en_D E) (en_vars E) obj (map oc_sub occs) [] []) as [g|] eqn:Eg; [|exact I].
      assert (Hn : NoDup (map fst g)) by (eapply collect_all_keys_nodup; [exact Eg|constructor]).
      specialize (IHg E obj src g p s Hn).
      destruct (exec_groups fuel E obj src g p s) as [fs s'|e s'|]; cbn in IHg |- *; auto.
      * destruct IHg as [cs [H1 [H2 [H3 H4]]]]. exists cs. repeat split; auto.
        eapply Forall_impl; [|exact H2]. intros c Hc. eapply Rkey_sprefix. exact Hc.
      * destruct IHg as [cs [H1 [H2 H3]]]. exists cs. repeat split; auto.
        eapply Forall_impl; [|exact H2]. intros c Hc. eapply Rkey_sprefix. exact Hc.
    + (* exec_groups *)
      intros E obj src g p s Hn. cbn [exec_groups].
      destruct g as [|[k occs] rest]; [apply cres_ok_nil|].
      pose proof (exec_field_cres fuel E obj src k occs p s
                       (fun t nodes occs0 fpath p0 v s0 => IHc E t nodes occs0 fpath p0 v s0)
                       (fun q s0 b H0 => IHd E q s0 b H0)) as Hthis.
      pose proof (exec_field_pos fuel (complete fuel E) (dethunk fuel E) E obj src k occs p s
                       (fun t nodes occs0 fpath p0 v s0 => PAc E t nodes occs0 fpath p0 v s0)
                       (fun q s0 b H0 => PAd E q s0 b H0)) as Pthis.
      cbn [map fst] in Hn. inversion Hn as [|? ? Hk Hn']; subst.
      assert (Hup1 : forall a b, prefix (p ++ [PKey k]) a -> prefix a b -> prefix (p ++ [PKey k]) b)
        by (intros a b Ha Hab; eapply prefix_trans; eassumption).
      destruct (exec_field fuel (complete fuel E) (dethunk fuel E) E obj src k occs p s) as [y s'|e s'|];
        cbn in Hthis, Pthis |- *; auto.
      * destruct Hthis as [cs1 [E1 [F1 [N1 C1]]]].
        specialize (IHg E obj src rest p s' Hn'). specialize (PAg E obj src rest p s' Hn').
        destruct (exec_groups fuel E obj src rest p s') as [ys s''|e s''|]; cbn in IHg, PAg |- *; auto.
        -- destruct IHg as [cs2 [E2 [F2 [N2 C2]]]]. destruct PAg as [G1 [G2 G3]].
           destruct (combine_sep (prefix (p ++ [PKey k])) (Rkey p (map fst rest)) (To y) (Tf ys) cs1 cs2) as [K1 K2]; auto.
           ++ apply Rkey_up.
           ++ intros a. apply Rkey_sep. exact Hk.
           ++ intros tp Ht. destruct y as [q|]; [|contradiction]. eapply InT_under; eassumption.
           ++ intros tp Ht. apply InT_obj in Ht. destruct Ht as [kv [Hkv Ht]].
              destruct (InT_PosF ys p G1 tp kv Hkv Ht) as [k' [K1 K2]]. exists k'. split; [apply G3; exact K1|exact K2].
           ++ exists (cs1 ++ cs2). rewrite E2, E1, app_assoc. split; [reflexivity|]. split; [|split; [exact K1|]].
              ** apply Forall_app. split.
                 --- eapply Forall_impl; [|exact F1]. intros c Hc. exists k. split; [left; reflexivity|exact Hc].
                 --- eapply Forall_impl; [|exact F2]. intros c [k' [J1 J2]]. exists k'. split; [right; exact J1|exact J2].
              ** intros c tp Hin Ht. apply K2; [exact Hin|].
                 destruct y as [q|]; [|right; exact Ht].
                 apply InT_obj in Ht. destruct Ht as [kv [[<-|Hkv] Ht]]; [left; exact Ht|].
                 right. apply InT_obj. exists kv. split; assumption.
        -- destruct IHg as [cs2 [E2 [F2 N2]]].
           destruct (combine_sep (prefix (p ++ [PKey k])) (Rkey p (map fst rest)) (fun _ => False) (fun _ => False) cs1 cs2) as [K1 _]; auto.
           ++ apply Rkey_up.
           ++ intros a. apply Rkey_sep. exact Hk.
           ++ intros tp [].
           ++ intros tp [].
           ++ exists (cs1 ++ cs2). rewrite E2, E1, app_assoc. split; [reflexivity|]. split; [|exact K1].
              apply Forall_app. split.
              ** eapply Forall_impl; [|exact F1]. intros c Hc. exists k. split; [left; reflexivity|exact Hc].
              ** eapply Forall_impl; [|exact F2]. intros c [k' [J1 J2]]. exists k'. split; [right; exact J1|exact J2].
      * destruct Hthis as [cs1 [E1 [F1 N1]]]. exists cs1. repeat split; auto.
        eapply Forall_impl; [|exact F1]. intros c Hc. exists k. split; [left; reflexivity|exact Hc].
    + (* dethunk *)
      intros E q s b Hq. cbn [dethunk].
      destruct q as [|v|l|l|t nodes occs tp o].
      * cbn. exists []. rewrite app_nil_r. repeat split; constructor.
      * cbn. exists []. rewrite app_nil_r. repeat split; constructor.
      * pose proof (Pos_list_inv _ _ Hq) as HL0.
        pose proof (dethunk_list_calls (dethunk fuel E) (fun b0 x s0 H0 => IHd E x s0 b0 H0) l b 0%N s HL0) as HL.
        destruct (dethunk_list (dethunk fuel E) l s) as [ys s'|e s'|]; cbn; auto.
      * destruct (Pos_obj_inv _ _ Hq) as [Hn0 HF0].
        pose proof (dethunk_fields_calls (dethunk fuel E) (fun b0 x s0 H0 => IHd E x s0 b0 H0) l b s HF0 Hn0) as HL.
        destruct (dethunk_fields (dethunk fuel E) l s) as [ys s'|e s'|]; cbn; auto.
      * destruct (Pos_thunk_inv _ _ _ _ _ _ Hq) as [-> Hnn].
        assert (Hc : cres (sprefix b) Tq s (match o with
                                 | OVal v => complete fuel E t nodes occs b b v s
                                 | _ => XRaise {| e_path := b; e_nodes := nodes |} s
                                 end) /\
                     posr b (match o with
                                 | OVal v => complete fuel E t nodes occs b b v s
                                 | _ => XRaise {| e_path := b; e_nodes := nodes |} s
                                 end)).
        { destruct o; try (split; [apply cres_raise_nil|exact I]). split; [apply IHc|apply PAc]. }
        destruct Hc as [Hc Pc].
        pose proof (cres_catch _ s t _ Hc) as Hcatch.
        pose proof (posr_catch b t _ Pc) as Pcatch.
        destruct (catch_at t _) as [y s'|e s'|]; cbn in Hcatch, Pcatch |- *; [|exact I|exact I].
        specialize (IHd E y s' b Pcatch).
        destruct (dethunk fuel E y s') as [y' s''|e s''|]; cbn in IHd |- *; [|exact I|exact I].
        destruct Hcatch as [cs1 [E1 [F1 [N1 C1]]]]. destruct IHd as [cs2 [E2 [F2 N2]]].
        exists (cs1 ++ cs2). rewrite E2, E1, app_assoc. split; [reflexivity|]. split.
        -- assert (Hself : InT b (QThunk t nodes occs b o)) by (exists t; cbn; left; reflexivity).
           apply Forall_app. split.
           ++ eapply Forall_impl; [|exact F1]. intros c Hc0. exists b. split; [exact Hself|exact Hc0].
           ++ eapply Forall_impl; [|exact F2]. intros c [tp [Ht Hs']]. exists b. split; [exact Hself|].
              eapply prefix_sprefix; [eapply InT_under; eassumption|exact Hs'].
        -- eapply (seq_nodup cs1 cs2 (Tq y)); eassumption.
Qed.

(* C20: no response path is resolved twice in a request *)
Theorem request_calls_nodup : forall fuel S D opn inputs root or tor data s,
  request fuel S D opn inputs root or tor = RDone data s -> NoDup (map c_path (st_calls s)).
Proof.
  intros fuel S D opn inputs root or tor data s H. unfold request in H.
  destruct (get_operation D opn) as [op|]; [|discriminate].
  destruct (root_type S op) as [rt|]; [|discriminate].
  destruct (get_variable_values fuel S (o_vars op) inputs) as [[vars|e]|]; try discriminate.
  destruct (collect fuel S D vars rt (o_sel op) [] []) as [[g v]|] eqn:Ec; [|discriminate].
  set (E := {| en_S := S; en_D := D; en_vars := vars; en_or := or; en_tor := tor;
               en_serial := match o_kind op with OpMutation => true | _ => false end |}) in *.
  assert (Hkeys : NoDup (map fst g)) by (eapply collect_keys_nodup; [exact Ec|constructor]).
  destruct (calls_inv fuel) as [_ [_ [Bg Bd]]]. destruct (pos_inv fuel) as [_ [_ [Ag _]]].
  destruct (exec_inv fuel) as [_ [_ [_ XId]]].
  specialize (Bg E rt root g [] st0 Hkeys). specialize (Ag E rt root g [] st0 Hkeys).
  destruct (exec_groups fuel E rt root g [] st0) as [fs s1|e s1|]; try discriminate.
  - cbn in Bg, Ag. destruct Bg as [cs1 [E1 [F1 [N1 C1]]]]. destruct Ag as [G1 [G2 G3]].
    assert (Hpos : Pos [] (QObj fs)) by (constructor; assumption).
    specialize (Bd E (QObj fs) s1 [] Hpos). specialize (XId E (QObj fs) s1 [] (Pos_thunks_ok _ _ Hpos)).
    destruct (dethunk fuel E (QObj fs) s1) as [q s2|e s2|]; try discriminate.
    + injection H as _ Hs. rewrite <- Hs. cbn in Bd. destruct Bd as [cs2 [E2 [F2 N2]]]. rewrite E2, E1.
      eapply (seq_nodup cs1 cs2 (Tf fs)); eassumption.
    + contradiction.
  - injection H as _ Hs. rewrite <- Hs. cbn [st_calls add_err]. cbn in Bg. destruct Bg as [cs1 [E1 [F1 N1]]].
    rewrite E1. exact N1.
Qed.
Print Assumptions request_calls_nodup.

(* ------------------------------------------------------------------------------------------ *)
(* (C) error paths address a null of the response                                             *)
(* ------------------------------------------------------------------------------------------ *)
(* null_on_path (Run/ExecRun.v) on responses under construction *)
Fixpoint qnull_on (q : presp) (r : path) {struct r} : bool :=
  match q with
  | QNull => true
  | _ =>
    match r with
    | [] => false
    | PKey k :: r' => match q with
                      | QObj l => match alookup k l with Some x => qnull_on x r' | None => false end
                      | _ => false
                      end
    | PIdx i :: r' => match q with
                      | QList l => match nth_error l (N.to_nat i) with Some x => qnull_on x r' | None => false end
                      | _ => false
                      end
    end
  end.

Lemma qnull_on_null : forall r, qnull_on QNull r = true.
Proof. intros [|[k|i] r]; reflexivity. Qed.

Lemma alookup_in_keys : forall A k (l : list (name * A)) x, alookup k l = Some x -> In k (map fst l).
Proof.
  intros A k l x. induction l as [|[k' v] l IH]; cbn; intros H; [discriminate|].
  destruct (String.eqb k k') eqn:Ek; [left; symmetry; apply String.eqb_eq; exact Ek|right; apply IH; exact H].
Qed.

Lemma alookup_map_snd : forall A B (f : A -> B) k (l : list (name * A)),
  alookup k (map (fun kv => (fst kv, f (snd kv))) l) = option_map f (alookup k l).
Proof.
  intros A B f k l. induction l as [|[k' v] l IH]; cbn; [reflexivity|].
  destruct (String.eqb k k'); [reflexivity|exact IH].
Qed.

Lemma qnull_obj_head : forall k y ys r, qnull_on y r = true -> qnull_on (QObj ((k, y) :: ys)) (PKey k :: r) = true.
Proof. intros k y ys r H. cbn. rewrite String.eqb_refl. exact H. Qed.

Lemma qnull_obj_cons : forall k y ys r, ~ In k (map fst ys) ->
  qnull_on (QObj ys) r = true -> qnull_on (QObj ((k, y) :: ys)) r = true.
Proof.
  intros k y ys [|[k0|i] r] Hk H; cbn in H |- *; try discriminate.
  destruct (String.eqb k0 k) eqn:Ek; [|exact H].
  apply String.eqb_eq in Ek. subst k0. exfalso. apply Hk.
  destruct (alookup k ys) as [x|] eqn:Ea; [|discriminate]. eapply alookup_in_keys. exact Ea.
Qed.

(* the walk carries over to the final response *)
Lemma qnull_to_resp : forall r q, qnull_on q r = true -> null_on_path (to_resp q) r = true.
Proof.
  induction r as [|a r IH]; intros q H.
  - destruct q; cbn in H |- *; try discriminate; reflexivity.
  - destruct a as [k|i]; destruct q as [|v|l|l|t nodes occs tp o]; cbn in H |- *; try discriminate; try reflexivity.
    + rewrite alookup_map_snd. destruct (alookup k l) as [x|]; cbn; [apply IH; exact H|discriminate].
    + rewrite nth_error_map. destruct (nth_error l (N.to_nat i)) as [x|]; cbn; [apply IH; exact H|discriminate].
Qed.

Definition qn_nth (l : list presp) (j : nat) (r : path) : bool :=
  match nth_error l j with Some x => qnull_on x r | None => false end.

(* an error recorded below b, and the null the response q (at b) holds on its path *)
Definition eok (b : path) (q : presp) (e : gerr) : Prop := exists r, e_path e = b ++ r /\ qnull_on q r = true.
Definition eokL (b : path) (i : N) (ys : list presp) (e : gerr) : Prop :=
  exists j r, e_path e = b ++ PIdx (i + N.of_nat j) :: r /\ qn_nth ys j r = true.
Definition eokF (b : path) (fs : list (name * presp)) (e : gerr) : Prop := eok b (QObj fs) e.
Definition eokO (b : path) (y : option presp) (e : gerr) : Prop :=
  match y with Some q => eok b q e | None => False end.

Lemma eokL_head : forall b i y ys e, eok (b ++ [PIdx i]) y e -> eokL b i (y :: ys) e.
Proof.
  intros b i y ys e [r [H1 H2]]. exists 0%nat, r. split.
  - rewrite H1, <- app_assoc. cbn. rewrite N.add_0_r. reflexivity.
  - exact H2.
Qed.

Lemma eokL_tail : forall b i y ys e, eokL b (i + 1) ys e -> eokL b i (y :: ys) e.
Proof.
  intros b i y ys e [j [r [H1 H2]]]. exists (S j), r. split; [|exact H2].
  rewrite H1. do 3 f_equal. rewrite Nat2N.inj_succ. lia.
Qed.

Lemma eokL_list : forall b ys e, eokL b 0 ys e -> eok b (QList ys) e.
Proof.
  intros b ys e [j [r [H1 H2]]]. exists (PIdx (0 + N.of_nat j) :: r). split; [exact H1|].
  cbn. rewrite Nat2N.id. exact H2.
Qed.

Lemma eokF_head : forall b k y ys e, eok (b ++ [PKey k]) y e -> eokF b ((k, y) :: ys) e.
Proof.
  intros b k y ys e [r [H1 H2]]. exists (PKey k :: r). split.
  - rewrite H1, <- app_assoc. reflexivity.
  - apply qnull_obj_head. exact H2.
Qed.

Lemma eokF_tail : forall b k y ys e, ~ In k (map fst ys) -> eokF b ys e -> eokF b ((k, y) :: ys) e.
Proof.
  intros b k y ys e Hk [r [H1 H2]]. exists r. split; [exact H1|]. apply qnull_obj_cons; assumption.
Qed.

Definition eres {A : Type} (OK : A -> gerr -> Prop) (s : st) (r : xres A) : Prop :=
  match r with
  | XOk a s' => exists es, st_errs s' = st_errs s ++ es /\ Forall (OK a) es
  | _ => True
  end.

(* a raise and the errors recorded before it lie under b *)
Definition rinv {A : Type} (b : path) (s : st) (r : xres A) : Prop :=
  match r with
  | XRaise e s' => (exists es, st_errs s' = st_errs s ++ es /\ Forall (fun e0 => prefix b (e_path e0)) es) /\
                   prefix b (e_path e)
  | _ => True
  end.

Lemma inv1_rinv : forall b s r, inv1 b s r -> rinv b s r.
Proof. intros b s [q s'|e s'|] H; cbn in *; auto. destruct H as [[_ He] Hp]. split; assumption. Qed.

Lemma eres_ok_nil : forall A (OK : A -> gerr -> Prop) s a, eres OK s (XOk a s).
Proof. intros. cbn. exists []. rewrite app_nil_r. split; constructor. Qed.

Lemma eres_errs_eq : forall A (OK : A -> gerr -> Prop) s0 s r,
  st_errs s = st_errs s0 -> eres OK s r -> eres OK s0 r.
Proof. intros A OK s0 s [a s'|e s'|] He H; cbn in *; auto; rewrite <- He; exact H. Qed.

Lemma rinv_errs_eq : forall A b s0 s (r : xres A), st_errs s = st_errs s0 -> rinv b s r -> rinv b s0 r.
Proof. intros A b s0 s [a s'|e s'|] He H; cbn in *; auto; rewrite <- He; exact H. Qed.

Lemma eres_catch : forall b s t r, rinv b s r -> eres (eok b) s r -> eres (eok b) s (catch_at t r).
Proof.
  intros b s t [q s'|e s'|] Hr H; cbn in *; auto.
  destruct (is_nonnull t); cbn; [exact I|].
  destruct Hr as [[es [E F]] Hp]. exists (es ++ [e]). split; [rewrite E, app_assoc; reflexivity|].
  apply Forall_app. split.
  - eapply Forall_impl; [|exact F]. intros e0 [r Hr]. exists r. split; [exact Hr|apply qnull_on_null].
  - constructor; [|constructor]. destruct Hp as [r Hr]. exists r. split; [exact Hr|apply qnull_on_null].
Qed.

Lemma items_loop_errs : forall cmp b,
  (forall i x s, eres (eok (b ++ [PIdx i])) s (cmp i x s)) ->
  forall l i s, eres (eokL b i) s (items_loop cmp l i s).
Proof.
  intros cmp b Hc. induction l as [|x l IH]; intros i s; cbn [items_loop].
  - apply eres_ok_nil.
  - specialize (Hc i x s). destruct (cmp i x s) as [y s'|e s'|]; cbn in Hc |- *; auto.
    destruct Hc as [es1 [E1 F1]]. specialize (IH (i + 1)%N s').
    destruct (items_loop cmp l (i + 1)%N s') as [ys s''|e s''|]; cbn in IH |- *; auto.
    destruct IH as [es2 [E2 F2]]. exists (es1 ++ es2). rewrite E2, E1, app_assoc. split; [reflexivity|].
    apply Forall_app. split.
    + eapply Forall_impl; [|exact F1]. intros e He. apply eokL_head. exact He.
    + eapply Forall_impl; [|exact F2]. intros e He. apply eokL_tail. exact He.
Qed.

(* forcing keeps the nulls where they are and puts the new errors' nulls in place *)
Definition deres (b : path) (q : presp) (s : st) (r : xres presp) : Prop :=
  match r with
  | XOk q' s' => (forall r0, qnull_on q r0 = true -> qnull_on q' r0 = true) /\
                 exists es, st_errs s' = st_errs s ++ es /\ Forall (eok b q') es
  | _ => True
  end.

Lemma dethunk_list_errs : forall f,
  (forall b x s, Pos b x -> deres b x s (f x s)) ->
  forall l b i s, PosL b i l ->
    match dethunk_list f l s with
    | XOk ys s' => (forall j r, qn_nth l j r = true -> qn_nth ys j r = true) /\
                   exists es, st_errs s' = st_errs s ++ es /\ Forall (eokL b i ys) es
    | _ => True
    end.
Proof.
  intros f Hf. induction l as [|x l IH]; intros b i s Hl; cbn [dethunk_list].
  - split; [auto|]. exists []. rewrite app_nil_r. split; constructor.
  - destruct (PosL_cons_inv _ _ _ _ Hl) as [Hy Hr]. specialize (Hf _ x s Hy).
    destruct (f x s) as [y s'|e s'|]; cbn in Hf |- *; auto.
    destruct Hf as [S1 [es1 [E1 F1]]]. specialize (IH b (i + 1)%N s' Hr).
    destruct (dethunk_list f l s') as [ys s''|e s''|]; auto.
    destruct IH as [S2 [es2 [E2 F2]]]. split.
    + intros [|j] r H; unfold qn_nth in *; cbn [nth_error] in *; [apply S1; exact H|apply (S2 j r); exact H].
    + exists (es1 ++ es2). rewrite E2, E1, app_assoc. split; [reflexivity|].
      apply Forall_app. split.
      * eapply Forall_impl; [|exact F1]. intros e He. apply eokL_head. exact He.
      * eapply Forall_impl; [|exact F2]. intros e He. apply eokL_tail. exact He.
Qed.

Lemma dethunk_fields_errs : forall f,
  (forall b x s, Pos b x -> deres b x s (f x s)) ->
  forall l b s, PosF b l -> NoDup (map fst l) ->
    match dethunk_fields f l s with
    | XOk ys s' => map fst ys = map fst l /\
                   (forall r, qnull_on (QObj l) r = true -> qnull_on (QObj ys) r = true) /\
                   exists es, st_errs s' = st_errs s ++ es /\ Forall (eokF b ys) es
    | _ => True
    end.
Proof.
  intros f Hf. induction l as [|[k x] l IH]; intros b s Hl Hn; cbn [dethunk_fields].
  - split; [reflexivity|]. split; [auto|]. exists []. rewrite app_nil_r. split; constructor.
  - destruct (PosF_cons_inv _ _ _ _ Hl) as [Hy Hr]. specialize (Hf _ x s Hy).
    cbn [map fst] in Hn. inversion Hn as [|? ? Hk Hn']; subst.
    destruct (f x s) as [y s'|e s'|]; cbn in Hf |- *; auto.
    destruct Hf as [S1 [es1 [E1 F1]]]. specialize (IH b s' Hr Hn').
    destruct (dethunk_fields f l s') as [ys s''|e s''|]; auto.
    destruct IH as [M2 [S2 [es2 [E2 F2]]]]. split; [cbn [map fst]; rewrite M2; reflexivity|]. split.
    + intros [|[k0|i] r] H; cbn in H |- *; try discriminate.
      destruct (String.eqb k0 k) eqn:Ek; [apply S1; exact H|].
      apply (S2 (PKey k0 :: r)). exact H.
    + exists (es1 ++ es2). rewrite E2, E1, app_assoc. split; [reflexivity|].
      apply Forall_app. split.
      * eapply Forall_impl; [|exact F1]. intros e He. apply eokF_head. exact He.
      * eapply Forall_impl; [|exact F2]. intros e He. apply eokF_tail; [rewrite M2; exact Hk|exact He].
Qed.

Lemma exec_field_eres : forall fuel E obj src k occs p s,
  (forall t nodes occs0 fpath p0 v s0, eres (eok p0) s0 (complete fuel E t nodes occs0 fpath p0 v s0)) ->
  (forall q s0 b, Pos b q -> deres b q s0 (dethunk fuel E q s0)) ->
  eres (eokO (p ++ [PKey k])) s (exec_field fuel (complete fuel E) (dethunk fuel E) E obj src k occs p s).
Proof.
  intros fuel E obj src k occs p s IHc IHd.
  destruct (pos_inv fuel) as [PAc [_ [_ PAd]]].
  destruct (exec_inv fuel) as [XIc [_ [_ XId]]].
  unfold exec_field.
  set (fname := match occs with o :: _ => oc_name o | [] => "" end).
  set (fargs := match occs with o :: _ => oc_args o | [] => [] end).
  set (nodes := map oc_id occs).
  set (fp := p ++ [PKey k]).
  destruct (String.eqb fname "__typename"); [apply eres_ok_nil|].
  destruct (find_field fname (object_fields (en_S E) obj)) as [fd|]; [|apply eres_ok_nil].
  destruct (get_argument_values fuel (en_S E) (f_args fd) fargs (Some (en_vars E))) as [args|]; [|exact I].
  set (s1 := add_call _ s).
  destruct (match en_or E fp with Some o => force o | None => (OVal RNull, false) end) as [o thunked].
  set (s2 := match en_or E fp with Some _ => s1 | None => add_missing fp s1 end).
  assert (Hs2 : st_errs s2 = st_errs s).
  { unfold s2, s1. destruct (en_or E fp); reflexivity. }
  set (c0 := match o with
             | OVal v => complete fuel E (f_type fd) nodes occs fp fp v s2
             | _ => XRaise {| e_path := fp; e_nodes := nodes |} s2
             end).
  assert (Hc0 : eres (eok fp) s2 c0 /\ rinv fp s2 c0 /\ posr fp c0).
  { unfold c0.
    destruct o; try (split; [exact I|split; [|exact I]]; cbn; split;
                     [exists []; rewrite app_nil_r; split; constructor|apply prefix_refl]).
    split; [apply IHc|split; [apply inv1_rinv; apply XIc|apply PAc]]. }
  set (r1 := if thunked && negb (is_nonnull (f_type fd))
             then XOk (QThunk (f_type fd) nodes occs fp o) s2
             else match c0 with
                  | XRaise e s' => if thunked then XRaise e (set_escape s') else c0
                  | _ => c0
                  end).
  assert (Hr1 : eres (eok fp) s2 r1 /\ rinv fp s2 r1 /\ posr fp r1).
  { unfold r1. destruct (thunked && negb (is_nonnull (f_type fd))) eqn:Et.
    - split; [apply eres_ok_nil|split; [exact I|]]. cbn. constructor.
      apply andb_true_iff in Et. destruct Et as [_ Et]. destruct (is_nonnull (f_type fd)); [discriminate|reflexivity].
    - destruct Hc0 as [H1 [H2 H3]].
      destruct c0 as [q0 s0|e0 s0|]; [split; [assumption|split; assumption]| |split; [exact I|split; exact I]].
      destruct thunked; [|split; [assumption|split; assumption]].
      split; [exact I|split; [exact H2|exact I]]. }
  destruct Hr1 as [Hr1 [Rr1 Pr1]].
  pose proof (eres_catch fp s2 (f_type fd) r1 Rr1 Hr1) as Hcatch.
  pose proof (posr_catch fp (f_type fd) r1 Pr1) as Pcatch.
  destruct (catch_at (f_type fd) r1) as [y s'|e s'|]; cbn in Pcatch; [|exact I|exact I].
  cbn in Hcatch. destruct Hcatch as [es1 [E1 F1]]. rewrite Hs2 in E1.
  destruct (en_serial E && match p with [] => true | _ :: _ => false end).
  - pose proof (IHd y s' fp Pcatch) as Hd.
    destruct (dethunk fuel E y s') as [y' s''|e s''|]; cbn in Hd |- *; [|exact I|exact I].
    destruct Hd as [St [es2 [E2 F2]]].
    exists (es1 ++ es2). rewrite E2, E1, app_assoc. split; [reflexivity|].
    apply Forall_app. split; [|exact F2].
    eapply Forall_impl; [|exact F1]. intros e [r [R1 R2]]. exists r. split; [exact R1|apply St; exact R2].
  - cbn. exists es1. split; [exact E1|exact F1].
Qed.

Definition PC (fuel : nat) : Prop :=
  (forall E t nodes occs fpath p v s, eres (eok p) s (complete fuel E t nodes occs fpath p v s)) /\
  (forall E obj occs p src s, eres (eok p) s (exec_object fuel E obj occs p src s)) /\
  (forall E obj src g p s, NoDup (map fst g) -> eres (eokF p) s (exec_groups fuel E obj src g p s)) /\
  (forall E q s b, Pos b q -> deres b q s (dethunk fuel E q s)).

Lemma errs_inv : forall fuel, PC fuel.
Proof.
  induction fuel as [|fuel [IHc [IHo [IHg IHd]]]].
  - repeat split; intros; exact I.
  - destruct (pos_inv fuel) as [PAc [PAo [PAg PAd]]].
    destruct (exec_inv fuel) as [XIc [_ [_ XId]]].
    repeat split.
    + (* complete *)
      intros E t nodes occs fpath p v s. cbn [complete].
      destruct t as [n|t'|t'].
      * destruct (rv_nullish v); [apply eres_ok_nil|].
        destruct (lookup_type (en_S E) n) as [[k|vals|fs ifs|fs|ms|fs]|].
        -- apply eres_ok_nil.
        -- apply eres_ok_nil.
        -- apply IHo.
        -- destruct (en_tor E v) as [rt|]; [|exact I].
           destruct (possible_type (en_S E) n rt); [|exact I].
           apply (eres_errs_eq _ _ s (add_tcall (fpath, v) s) _ eq_refl). apply IHo.
        -- destruct (en_tor E v) as [rt|]; [|exact I].
           destruct (possible_type (en_S E) n rt); [|exact I].
           apply (eres_errs_eq _ _ s (add_tcall (fpath, v) s) _ eq_refl). apply IHo.
        -- exact I.
        -- exact I.
      * destruct (rv_nullish v); [apply eres_ok_nil|].
        destruct v; try exact I.
        pose proof (items_loop_errs
                      (fun i x s0 => catch_at t' (complete fuel E t' nodes occs fpath (p ++ [PIdx i]) x s0)) p) as HL.
        match goal with |- eres _ s (match items_loop ?c ?l0 ?i0 ?s0 with _ => _ end) =>
          specialize (HL (fun i x s1 => eres_catch (p ++ [PIdx i]) s1 t' _
                            (inv1_rinv _ _ _ (XIc E t' nodes occs fpath (p ++ [PIdx i]) x s1))
                            (IHc E t' nodes occs fpath (p ++ [PIdx i]) x s1)) l0 i0 s0);
          destruct (items_loop c l0 i0 s0) as [ys s'|e s'|]; cbn in HL |- *; auto
        end.
        destruct HL as [es [H1 H2]]. exists es. split; [exact H1|].
        eapply Forall_impl; [|exact H2]. intros e He. apply eokL_list. exact He.
      * specialize (IHc E t' nodes occs fpath p v s).
        destruct (complete fuel E t' nodes occs fpath p v s) as [q s'|e s'|]; cbn in IHc |- *; auto.
        destruct q; cbn; try exact IHc. exact I.
    + (* exec_object *)
      intros E obj occs p src s. cbn [exec_object].
      destruct (collect_all fuel (en_S E) (en_D E) (en_vars E) obj (map oc_sub occs) [] []) as [g|] eqn:Eg; [|exact I].
      assert (Hn : NoDup (map fst g)) by (eapply collect_all_keys_nodup; [exact Eg|constructor]).
      specialize (IHg E obj src g p s Hn).
      destruct (exec_groups fuel E obj src g p s) as [fs s'|e s'|]; cbn in IHg |- *; auto.
    + (* exec_groups *)
      intros E obj src g p s Hn. cbn [exec_groups].
      destruct g as [|[k occs] rest]; [apply eres_ok_nil|].
      pose proof (exec_field_eres fuel E obj src k occs p s
                       (fun t nodes occs0 fpath p0 v s0 => IHc E t nodes occs0 fpath p0 v s0)
                       (fun q s0 b H0 => IHd E q s0 b H0)) as Hthis.
      cbn [map fst] in Hn. inversion Hn as [|? ? Hk Hn']; subst.
      destruct (exec_field fuel (complete fuel E) (dethunk fuel E) E obj src k occs p s) as [y s'|e s'|];
        cbn in Hthis |- *; auto.
      destruct Hthis as [es1 [E1 F1]].
      specialize (IHg E obj src rest p s' Hn'). specialize (PAg E obj src rest p s' Hn').
      destruct (exec_groups fuel E obj src rest p s') as [ys s''|e s''|]; cbn in IHg, PAg |- *; auto.
      destruct IHg as [es2 [E2 F2]]. destruct PAg as [G1 [G2 G3]].
      exists (es1 ++ es2). rewrite E2, E1, app_assoc. split; [reflexivity|].
      apply Forall_app. split.
      * eapply Forall_impl; [|exact F1]. intros e He. destruct y as [q|]; [|contradiction].
        apply eokF_head. exact He.
      * eapply Forall_impl; [|exact F2]. intros e He. destruct y as [q|]; [|exact He].
        apply eokF_tail; [|exact He]. intro Hin. apply Hk. apply G3. exact Hin.
    + (* dethunk *)
      intros E q s b Hq. cbn [dethunk].
      destruct q as [|v|l|l|t nodes occs tp o].
      * cbn. split; [auto|]. exists []. rewrite app_nil_r. split; constructor.
      * cbn. split; [auto|]. exists []. rewrite app_nil_r. split; constructor.
      * pose proof (Pos_list_inv _ _ Hq) as HL0.
        pose proof (dethunk_list_errs (dethunk fuel E) (fun b0 x s0 H0 => IHd E x s0 b0 H0) l b 0%N s HL0) as HL.
        destruct (dethunk_list (dethunk fuel E) l s) as [ys s'|e s'|]; cbn; auto.
        destruct HL as [St [es [H1 H2]]]. split.
        -- intros [|[k0|i] r] H; cbn in H |- *; try discriminate. apply (St (N.to_nat i) r). exact H.
        -- exists es. split; [exact H1|].
           eapply Forall_impl; [|exact H2]. intros e He. apply eokL_list. exact He.
      * destruct (Pos_obj_inv _ _ Hq) as [Hn0 HF0].
        pose proof (dethunk_fields_errs (dethunk fuel E) (fun b0 x s0 H0 => IHd E x s0 b0 H0) l b s HF0 Hn0) as HL.
        destruct (dethunk_fields (dethunk fuel E) l s) as [ys s'|e s'|]; cbn; auto.
        destruct HL as [_ [St [es [H1 H2]]]]. split; [exact St|]. exists es. split; [exact H1|exact H2].
      * destruct (Pos_thunk_inv _ _ _ _ _ _ Hq) as [-> Hnn].
        assert (Hc : eres (eok b) s (match o with
                                 | OVal v => complete fuel E t nodes occs b b v s
                                 | _ => XRaise {| e_path := b; e_nodes := nodes |} s
                                 end) /\
                     rinv b s (match o with
                                 | OVal v => complete fuel E t nodes occs b b v s
                                 | _ => XRaise {| e_path := b; e_nodes := nodes |} s
                                 end) /\
                     posr b (match o with
                                 | OVal v => complete fuel E t nodes occs b b v s
                                 | _ => XRaise {| e_path := b; e_nodes := nodes |} s
                                 end)).
        { destruct o; try (split; [exact I|split; [|exact I]]; cbn; split;
                           [exists []; rewrite app_nil_r; split; constructor|apply prefix_refl]).
          split; [apply IHc|split; [apply inv1_rinv; apply XIc|apply PAc]]. }
        destruct Hc as [Hc [Rc Pc]].
        pose proof (eres_catch b s t _ Rc Hc) as Hcatch.
        pose proof (posr_catch b t _ Pc) as Pcatch.
        destruct (catch_at t _) as [y s'|e s'|]; cbn in Hcatch, Pcatch |- *; [|exact I|exact I].
        specialize (IHd E y s' b Pcatch).
        destruct (dethunk fuel E y s') as [y' s''|e s''|]; cbn in IHd |- *; [|exact I|exact I].
        destruct Hcatch as [es1 [E1 F1]]. destruct IHd as [St [es2 [E2 F2]]]. split.
        -- intros [|[k0|i] r] H; cbn in H; discriminate.
        -- exists (es1 ++ es2). rewrite E2, E1, app_assoc. split; [reflexivity|].
           apply Forall_app. split; [|exact F2].
           eapply Forall_impl; [|exact F1]. intros e [r [R1 R2]]. exists r. split; [exact R1|apply St; exact R2].
Qed.

(* C18: every error path of a completed request addresses a null of the data, at the path
   itself or at one of its prefixes *)
Theorem request_error_paths_null : forall fuel S D opn inputs root or tor d s,
  request fuel S D opn inputs root or tor = RDone (Some d) s -> paths_ok (Some d) (st_errs s) = true.
Proof.
  intros fuel S D opn inputs root or tor d s H. unfold request in H.
  destruct (get_operation D opn) as [op|]; [|discriminate].
  destruct (root_type S op) as [rt|]; [|discriminate].
  destruct (get_variable_values fuel S (o_vars op) inputs) as [[vars|e]|]; try discriminate.
  destruct (collect fuel S D vars rt (o_sel op) [] []) as [[g v]|] eqn:Ec; [|discriminate].
  set (E := {| en_S := S; en_D := D; en_vars := vars; en_or := or; en_tor := tor;
               en_serial := match o_kind op with OpMutation => true | _ => false end |}) in *.
  assert (Hkeys : NoDup (map fst g)) by (eapply collect_keys_nodup; [exact Ec|constructor]).
  destruct (errs_inv fuel) as [_ [_ [Cg Cd]]]. destruct (pos_inv fuel) as [_ [_ [Ag _]]].
  specialize (Cg E rt root g [] st0 Hkeys). specialize (Ag E rt root g [] st0 Hkeys).
  destruct (exec_groups fuel E rt root g [] st0) as [fs s1|e s1|]; try discriminate.
  cbn in Cg, Ag. destruct Cg as [es1 [E1 F1]]. destruct Ag as [G1 [G2 G3]].
  assert (Hpos : Pos [] (QObj fs)) by (constructor; assumption).
  specialize (Cd E (QObj fs) s1 [] Hpos).
  destruct (dethunk fuel E (QObj fs) s1) as [q s2|e s2|]; try discriminate.
  injection H as Hd Hs. subst d s. cbn in Cd. destruct Cd as [St [es2 [E2 F2]]].
  unfold paths_ok. apply forallb_forall. intros e He. rewrite E2, E1 in He.
  assert (Hok : eok [] q e).
  { apply in_app_or in He. destruct He as [He|He].
    - rewrite Forall_forall in F1. destruct (F1 e He) as [r [R1 R2]]. exists r. split; [exact R1|apply St; exact R2].
    - rewrite Forall_forall in F2. apply F2. exact He. }
  destruct Hok as [r [R1 R2]]. cbn [app] in R1. rewrite R1. apply qnull_to_resp. exact R2.
Qed.
Print Assumptions request_error_paths_null.

(* The two theorems are not vacuous: a query whose list field is deferred, whose second item has
   a field that is deferred and fails, with an aliased second occurrence of the same field.  The
   request completes with data, five invocations and one error, whose path addresses the null. *)
Definition ex_schema : schema :=
  {| s_types := [("Q", TObject [{| f_name := "a"; f_args := []; f_type := TNamed "Int" |};
                                {| f_name := "l"; f_args := []; f_type := TList (TNonNull (TNamed "Q")) |}] []);
                 ("Int", TScalar SInt)];
     s_query := "Q"; s_mutation := None |}.
Definition ex_doc : document :=
  {| d_ops := [{| o_kind := OpQuery; o_name := None; o_vars := [];
                  o_sel := [SField 0%N None "l" [] []
                                   [SField 1%N (Some "x") "a" [] [] []; SField 2%N None "a" [] [] []]] |}];
     d_frags := [] |}.
Definition ex_oracle : oracle := fun p =>
  match p with
  | [PKey "l"] => Some (OThunk (OVal (RList [RObj 1%N "Q"; RObj 2%N "Q"])))
  | [PKey "l"; PIdx 1%N; PKey "a"] => Some (OThunk OErr)
  | _ => Some (OVal (RInt 7))
  end.

Example paths_nonvacuous :
  exists s,
    request 10 ex_schema ex_doc None [] (RObj 0%N "Q") ex_oracle (fun _ => Some "Q")
    = RDone (Some (PObj [("l", PList [PObj [("x", PLeaf (JInt 7)); ("a", PLeaf (JInt 7))];
                                      PObj [("x", PLeaf (JInt 7)); ("a", PNull)]])])) s /\
    map c_path (st_calls s) = [[PKey "l"]; [PKey "l"; PIdx 0%N; PKey "x"]; [PKey "l"; PIdx 0%N; PKey "a"];
                               [PKey "l"; PIdx 1%N; PKey "x"]; [PKey "l"; PIdx 1%N; PKey "a"]] /\
    map e_path (st_errs s) = [[PKey "l"; PIdx 1%N; PKey "a"]].
Proof. eexists. split; [vm_compute; reflexivity|split; reflexivity]. Qed.
