(* C09: input coercion (Exec.Coerce) terminates within the fuel bounds of
   Total.CoerceBound.  Fuel is a recursion-depth bound; [None] = out of fuel.
   Generalised measure: [depth(value) * (w + 1) + ty_size t <= fuel] where
   [in_width S <= w]; every recursive call either strips a wrapper of the type
   (same value, ty_size decreases by one) or descends into the value (depth
   decreases, the type is replaced by one of size at most [w]). *)
From Coq Require Import List Arith String Bool Lia.
From GQL Require Import Exec.Syntax Exec.Coerce Total.CoerceBound.
Import ListNotations.

(* ------------------------------------------------------------------ *)
(* list_max / alookup / find_field helpers                              *)
(* ------------------------------------------------------------------ *)

Lemma in_list_max : forall (x : nat) (l : list nat), In x l -> x <= list_max l.
Proof.
  intros x l Hin.
  pose proof (proj1 (list_max_le l (list_max l)) (le_n _)) as HF.
  rewrite Forall_forall in HF. exact (HF x Hin).
Qed.

Lemma in_map_list_max : forall {A : Type} (f : A -> nat) (x : A) (l : list A),
  In x l -> f x <= list_max (map f l).
Proof.
  intros A f x l Hin. apply in_list_max. apply in_map. exact Hin.
Qed.

Lemma alookup_In : forall {A : Type} (n : name) (l : list (name * A)) (d : A),
  alookup n l = Some d -> In (n, d) l.
Proof.
  intros A n l. induction l as [|[k' v'] r IH]; intros d Hl.
  - simpl in Hl. discriminate Hl.
  - simpl in Hl. destruct (String.eqb n k') eqn:E.
    + apply String.eqb_eq in E. subst k'. injection Hl as Hl. subst v'. left. reflexivity.
    + right. apply IH. exact Hl.
Qed.

Lemma find_field_In : forall (n : name) (fs : list fielddef) (fd : fielddef),
  find_field n fs = Some fd -> In fd fs.
Proof.
  intros n fs. induction fs as [|f r IH]; intros fd Hf.
  - simpl in Hf. discriminate Hf.
  - simpl in Hf. destruct (String.eqb n (f_name f)).
    + injection Hf as Hf. subst fd. left. reflexivity.
    + right. apply IH. exact Hf.
Qed.

Lemma lookup_type_in_width : forall (Sc : schema) (n : name) (d : typedef),
  lookup_type Sc n = Some d -> typedef_in_width d <= in_width Sc.
Proof.
  intros Sc n d Hl. unfold lookup_type in Hl. apply alookup_In in Hl.
  unfold in_width.
  exact (in_map_list_max (fun kv : name * typedef => typedef_in_width (snd kv)) (n, d) (s_types Sc) Hl).
Qed.

Lemma lookup_type_out_width : forall (Sc : schema) (n : name) (d : typedef),
  lookup_type Sc n = Some d -> typedef_out_width d <= out_width Sc.
Proof.
  intros Sc n d Hl. unfold lookup_type in Hl. apply alookup_In in Hl.
  unfold out_width.
  exact (in_map_list_max (fun kv : name * typedef => typedef_out_width (snd kv)) (n, d) (s_types Sc) Hl).
Qed.

Lemma input_field_width : forall (Sc : schema) (n : name) (fs : list argdef) (f : argdef),
  lookup_type Sc n = Some (TInputObject fs) -> In f fs -> ty_size (a_type f) <= in_width Sc.
Proof.
  intros Sc n fs f Hl Hin.
  apply lookup_type_in_width in Hl. simpl in Hl.
  pose proof (in_map_list_max (fun a : argdef => ty_size (a_type a)) f fs Hin) as Hf.
  unfold argdefs_width in Hl. lia.
Qed.

(* ---- statement 5 ---- *)
Lemma find_field_arg_width : forall S obj fname fd,
  find_field fname (object_fields S obj) = Some fd -> argdefs_width (f_args fd) <= in_width S.
Proof.
  intros Sc obj fname fd Hf. unfold object_fields in Hf.
  destruct (lookup_type Sc obj) as [[k|vals|fs ifs|fs|ms|fs]|] eqn:EL;
    try (simpl in Hf; discriminate Hf).
  apply find_field_In in Hf.
  apply lookup_type_in_width in EL. simpl in EL. unfold fields_arg_width in EL.
  pose proof (in_map_list_max (fun f : fielddef => argdefs_width (f_args f)) fd fs Hf) as Hm.
  lia.
Qed.

Lemma find_field_out_width : forall S obj fname fd,
  find_field fname (object_fields S obj) = Some fd -> ty_size (f_type fd) <= out_width S.
Proof.
  intros Sc obj fname fd Hf. unfold object_fields in Hf.
  destruct (lookup_type Sc obj) as [[k|vals|fs ifs|fs|ms|fs]|] eqn:EL;
    try (simpl in Hf; discriminate Hf).
  apply find_field_In in Hf.
  apply lookup_type_out_width in EL. simpl in EL. unfold fields_out_width in EL.
  pose proof (in_map_list_max (fun f : fielddef => ty_size (f_type f)) fd fs Hf) as Hm.
  lia.
Qed.

(* ------------------------------------------------------------------ *)
(* omap / oall                                                          *)
(* ------------------------------------------------------------------ *)

Lemma omap_not_none : forall {A B : Type} (f : A -> option B) (l : list A),
  (forall x, In x l -> f x <> None) -> omap f l <> None.
Proof.
  intros A B f l. induction l as [|x r IH]; intros Hall.
  - simpl. discriminate.
  - simpl. destruct (f x) as [y|] eqn:Ex.
    + destruct (omap f r) as [ys|] eqn:Er.
      * discriminate.
      * exfalso. apply IH; [|reflexivity]. intros x' Hin. apply Hall. right. exact Hin.
    + exfalso. apply (Hall x); [left; reflexivity | exact Ex].
Qed.

Lemma oall_not_none : forall {A : Type} (f : A -> option bool) (l : list A),
  (forall x, In x l -> f x <> None) -> oall f l <> None.
Proof.
  intros A f l. induction l as [|x r IH]; intros Hall.
  - simpl. discriminate.
  - simpl. destruct (f x) as [y|] eqn:Ex.
    + destruct (oall f r) as [ys|] eqn:Er.
      * discriminate.
      * exfalso. apply IH; [|reflexivity]. intros x' Hin. apply Hall. right. exact Hin.
    + exfalso. apply (Hall x); [left; reflexivity | exact Ex].
Qed.

(* ------------------------------------------------------------------ *)
(* sizes                                                                *)
(* ------------------------------------------------------------------ *)

Lemma ty_size_pos : forall t, 1 <= ty_size t.
Proof. intros t. destruct t; simpl; lia. Qed.

Lemma value_depth_pos : forall v, 1 <= value_depth v.
Proof. intros v. destruct v; simpl; lia. Qed.

Lemma jv_depth_pos : forall v, 1 <= jv_depth v.
Proof. intros v. destruct v; simpl; lia. Qed.

Lemma value_depth_in_list : forall x l, In x l -> value_depth x < value_depth (VList l).
Proof.
  intros x l Hin. pose proof (in_map_list_max value_depth x l Hin) as Hm.
  simpl. lia.
Qed.

Lemma value_depth_alookup : forall k l v,
  alookup k l = Some v -> value_depth v < value_depth (VObj l).
Proof.
  intros k l v Hl. apply alookup_In in Hl.
  pose proof (in_map_list_max (fun kv : name * value => value_depth (snd kv)) (k, v) l Hl) as Hm.
  simpl in Hm. simpl. lia.
Qed.

Lemma jv_depth_in_list : forall x l, In x l -> jv_depth x < jv_depth (JList l).
Proof.
  intros x l Hin. pose proof (in_map_list_max jv_depth x l Hin) as Hm.
  simpl. lia.
Qed.

Lemma jlookup_depth : forall k m,
  jlookup k m = JNull \/
  jv_depth (jlookup k m) <= list_max (map (fun kv : name * jv => jv_depth (snd kv)) m).
Proof.
  intros k m. unfold jlookup. destruct (alookup k m) as [v|] eqn:El.
  - right. apply alookup_In in El.
    exact (in_map_list_max (fun kv : name * jv => jv_depth (snd kv)) (k, v) m El).
  - left. reflexivity.
Qed.

(* the map [coerce_value] looks the fields up in *)
Lemma jlookup_sub : forall k v,
  jlookup k (match v with JObj m => m | _ => [] end) = JNull \/
  jv_depth (jlookup k (match v with JObj m => m | _ => [] end)) < jv_depth v.
Proof.
  intros k v. destruct v as [| b | z | n d | s | l | m]; try (left; reflexivity).
  destruct (jlookup_depth k m) as [EN|Hd].
  - left. exact EN.
  - right. simpl. lia.
Qed.

Definition lit_depth (lit : option value) : nat :=
  match lit with Some v => value_depth v | None => 0 end.

(* ---- arithmetic of the measure ---- *)
Lemma arith_strip : forall d w s fuel',
  d * (w + 1) + S s <= S fuel' -> d * (w + 1) + s <= fuel'.
Proof. intros d w s fuel' H. lia. Qed.

Lemma arith_desc_list : forall d' d w s fuel',
  d' < d -> d * (w + 1) + S s <= S fuel' -> d' * (w + 1) + s <= fuel'.
Proof. intros d' d w s fuel' Hd H. nia. Qed.

Lemma arith_desc_obj : forall d' d w s' s fuel',
  d' < d -> s' <= w -> d * (w + 1) + s <= S fuel' -> 1 <= s -> d' * (w + 1) + s' <= fuel'.
Proof. intros d' d w s' s fuel' Hd Hs H H1. nia. Qed.

Lemma arith_fuel_pos : forall d w s fuel',
  1 <= d -> 1 <= s -> d * (w + 1) + s <= S fuel' -> 1 <= fuel'.
Proof. intros d w s fuel' Hd Hs H. nia. Qed.

Lemma coerce_bound_mono : forall w w' d d',
  w <= w' -> d <= d' -> coerce_bound w d <= coerce_bound w' d'.
Proof.
  intros w w' d d' Hw Hd. unfold coerce_bound.
  apply Nat.mul_le_mono; lia.
Qed.

Lemma coerce_bound_fits : forall w dd d s fuel,
  d <= dd -> s <= w -> coerce_bound w dd <= fuel -> d * (w + 1) + s <= fuel.
Proof. intros w dd d s fuel Hd Hs Hb. unfold coerce_bound in Hb. nia. Qed.

Lemma coerce_bound_pos : forall w dd fuel, coerce_bound w dd <= fuel -> 1 <= fuel.
Proof. intros w dd fuel Hb. unfold coerce_bound in Hb. nia. Qed.

(* ------------------------------------------------------------------ *)
(* value_from_ast                                                       *)
(* ------------------------------------------------------------------ *)

Lemma value_from_ast_gen : forall (Sc : schema) (w : nat), in_width Sc <= w ->
  forall fuel t lit vars,
    lit_depth lit * (w + 1) + ty_size t <= fuel ->
    value_from_ast fuel Sc t lit vars <> None.
Proof.
  intros Sc w Hw fuel. induction fuel as [|fuel' IH]; intros t lit vars Hb.
  - pose proof (ty_size_pos t) as Hp. lia.
  - destruct lit as [v|]; [|simpl; discriminate].
    cbn [lit_depth] in Hb.
    destruct t as [n|t'|t'].
    + (* TNamed *)
      destruct v as [x|z|fn fd|s|b|e|l|lfs]; simpl; try (destruct vars; discriminate);
        destruct (lookup_type Sc n) as [[k|vals|fs ifs|fs|ms|fs]|] eqn:EL; try discriminate.
      destruct (omap _ fs) as [kvs|] eqn:E; [discriminate|].
      exfalso. revert E. apply omap_not_none. intros f Hin.
      destruct (value_from_ast fuel' Sc (a_type f) (alookup (a_name f) lfs) vars) as [fv|] eqn:E2;
        [discriminate|].
      exfalso. revert E2. apply IH.
      pose proof (input_field_width Sc n fs f EL Hin) as Hfw.
      destruct (alookup (a_name f) lfs) as [v'|] eqn:EA.
      * cbn [lit_depth]. pose proof (value_depth_alookup _ _ _ EA) as Hd.
        eapply arith_desc_obj; [exact Hd | lia | exact Hb | apply ty_size_pos].
      * cbn [lit_depth].
        pose proof (arith_fuel_pos _ _ _ _ (value_depth_pos (VObj lfs)) (ty_size_pos (TNamed n)) Hb) as Hf.
        pose proof (value_depth_pos (VObj lfs)) as Hp. cbn [ty_size] in Hb. nia.
    + (* TList *)
      cbn [ty_size] in Hb.
      destruct v as [x|z|fn fd|s|b|e|l|lfs]; simpl; try (destruct vars; discriminate);
        try (match goal with
             | |- match ?e with Some _ => _ | None => None end <> None =>
               let E := fresh "E" in
               destruct e eqn:E; [discriminate|];
               exfalso; revert E; apply IH; cbn [lit_depth]; apply arith_strip; exact Hb
             end).
      destruct (omap _ l) as [l'|] eqn:E; [discriminate|].
      exfalso. revert E. apply omap_not_none. intros x Hin.
      apply IH. cbn [lit_depth].
      apply (arith_desc_list _ _ _ _ _ (value_depth_in_list x l Hin) Hb).
    + (* TNonNull *)
      cbn [ty_size] in Hb.
      destruct v as [x|z|fn fd|s|b|e|l|lfs]; simpl; try (destruct vars; discriminate);
        apply IH; cbn [lit_depth]; apply arith_strip; exact Hb.
Qed.

(* ---- statement 1 ---- *)
Lemma value_from_ast_terminates : forall S t lit vars fuel,
  vfa_bound S t lit <= fuel -> value_from_ast fuel S t lit vars <> None.
Proof.
  intros Sc t lit vars fuel Hb. unfold vfa_bound in Hb.
  apply (value_from_ast_gen Sc (Nat.max (ty_size t) (in_width Sc))); [lia|].
  apply (coerce_bound_fits _ _ _ _ _ (le_n _) (Nat.le_max_l _ _)).
  exact Hb.
Qed.

(* ------------------------------------------------------------------ *)
(* get_argument_values                                                  *)
(* ------------------------------------------------------------------ *)

Lemma args_lookup_depth : forall k (args : list (name * value)),
  lit_depth (alookup k args) <= args_depth args.
Proof.
  intros k args. destruct (alookup k args) as [v|] eqn:El.
  - apply alookup_In in El. cbn [lit_depth]. unfold args_depth.
    exact (in_map_list_max (fun kv : name * value => value_depth (snd kv)) (k, v) args El).
  - cbn [lit_depth]. lia.
Qed.

(* ---- statement 4 ---- *)
Lemma get_argument_values_terminates_uniform : forall S defs args vars w d fuel,
  argdefs_width defs <= w -> in_width S <= w -> args_depth args <= d ->
  coerce_bound w d <= fuel ->
  get_argument_values fuel S defs args vars <> None.
Proof.
  intros Sc defs args vars w d fuel Hdw Hw Hd Hb. unfold get_argument_values.
  destruct (omap _ defs) as [kvs|] eqn:E; [discriminate|].
  exfalso. revert E. apply omap_not_none. intros a Hin.
  destruct (value_from_ast fuel Sc (a_type a) (alookup (a_name a) args) vars) as [v|] eqn:E2;
    [discriminate|].
  exfalso. revert E2. apply (value_from_ast_gen Sc w Hw).
  apply (coerce_bound_fits w d); [| | exact Hb].
  - pose proof (args_lookup_depth (a_name a) args) as Hl. lia.
  - pose proof (in_map_list_max (fun a0 : argdef => ty_size (a_type a0)) a defs Hin) as Hm.
    unfold argdefs_width in Hdw. lia.
Qed.

(* ---- statement 2 ---- *)
Lemma get_argument_values_terminates : forall S defs args vars fuel,
  args_bound S defs args <= fuel -> get_argument_values fuel S defs args vars <> None.
Proof.
  intros Sc defs args vars fuel Hb. unfold args_bound in Hb.
  apply (get_argument_values_terminates_uniform Sc defs args vars
           (Nat.max (argdefs_width defs) (in_width Sc)) (args_depth args)); first [exact Hb | lia].
Qed.

(* ------------------------------------------------------------------ *)
(* valid_input / coerce_value                                           *)
(* ------------------------------------------------------------------ *)

Lemma valid_input_null : forall fuel (Sc : schema) t,
  1 <= fuel -> valid_input fuel Sc t JNull <> None.
Proof.
  intros fuel Sc t Hf. destruct fuel as [|fuel']; [lia|]. simpl. discriminate.
Qed.

Lemma coerce_value_null : forall fuel (Sc : schema) t,
  1 <= fuel -> coerce_value fuel Sc t JNull <> None.
Proof.
  intros fuel Sc t Hf. destruct fuel as [|fuel']; [lia|]. simpl. discriminate.
Qed.

Lemma valid_input_gen : forall (Sc : schema) (w : nat), in_width Sc <= w ->
  forall fuel t v,
    jv_depth v * (w + 1) + ty_size t <= fuel ->
    valid_input fuel Sc t v <> None.
Proof.
  intros Sc w Hw fuel. induction fuel as [|fuel' IH]; intros t v Hb.
  - pose proof (ty_size_pos t) as Hp. lia.
  - simpl. destruct (nullish v) eqn:EN; [discriminate|].
    destruct t as [n|t'|t'].
    + destruct (lookup_type Sc n) as [[k|vals|fs ifs|fs|ms|fs]|] eqn:EL; try discriminate.
      destruct v as [| b | z | fn fd | s | l | m]; try discriminate.
      destruct (oall _ fs) as [b|] eqn:E; [discriminate|].
      exfalso. revert E. apply oall_not_none. intros f Hin.
      pose proof (input_field_width Sc n fs f EL Hin) as Hfw.
      destruct (jlookup_depth (a_name f) m) as [EJ|Hd].
      * rewrite EJ. apply valid_input_null.
        apply (arith_fuel_pos _ _ _ _ (jv_depth_pos (JObj m)) (ty_size_pos (TNamed n)) Hb).
      * apply IH.
        assert (Hlt : jv_depth (jlookup (a_name f) m) < jv_depth (JObj m)) by (simpl; lia).
        eapply arith_desc_obj; [exact Hlt | lia | exact Hb | apply ty_size_pos].
    + cbn [ty_size] in Hb.
      destruct v as [| b | z | fn fd | s | l | m];
        try (apply IH; apply arith_strip; exact Hb).
      apply oall_not_none. intros x Hin. apply IH.
      apply (arith_desc_list _ _ _ _ _ (jv_depth_in_list x l Hin) Hb).
    + cbn [ty_size] in Hb. apply IH. apply arith_strip. exact Hb.
Qed.

Lemma coerce_value_gen : forall (Sc : schema) (w : nat), in_width Sc <= w ->
  forall fuel t v,
    jv_depth v * (w + 1) + ty_size t <= fuel ->
    coerce_value fuel Sc t v <> None.
Proof.
  intros Sc w Hw fuel. induction fuel as [|fuel' IH]; intros t v Hb.
  - pose proof (ty_size_pos t) as Hp. lia.
  - simpl. destruct (nullish v) eqn:EN; [discriminate|].
    destruct t as [n|t'|t'].
    + destruct (lookup_type Sc n) as [[k|vals|fs ifs|fs|ms|fs]|] eqn:EL; try discriminate.
      destruct (omap _ fs) as [kvs|] eqn:E; [discriminate|].
      exfalso. revert E. apply omap_not_none. intros f Hin.
      pose proof (input_field_width Sc n fs f EL Hin) as Hfw.
      destruct (coerce_value fuel' Sc (a_type f)
                  (jlookup (a_name f) (match v with JObj m => m | _ => [] end))) as [fv|] eqn:E2;
        [discriminate|].
      exfalso. revert E2.
      destruct (jlookup_sub (a_name f) v) as [EJ|Hlt].
      * rewrite EJ. apply coerce_value_null.
        apply (arith_fuel_pos _ _ _ _ (jv_depth_pos v) (ty_size_pos (TNamed n)) Hb).
      * apply IH.
        eapply arith_desc_obj; [exact Hlt | lia | exact Hb | apply ty_size_pos].
    + cbn [ty_size] in Hb.
      destruct v as [| b | z | fn fd | s | l | m];
        try (match goal with
             | |- match ?e with Some _ => _ | None => None end <> None =>
               let E := fresh "E" in
               destruct e eqn:E; [discriminate|];
               exfalso; revert E; apply IH; apply arith_strip; exact Hb
             end).
      destruct (omap _ l) as [l'|] eqn:E; [discriminate|].
      exfalso. revert E. apply omap_not_none. intros x Hin. apply IH.
      apply (arith_desc_list _ _ _ _ _ (jv_depth_in_list x l Hin) Hb).
    + cbn [ty_size] in Hb. apply IH. apply arith_strip. exact Hb.
Qed.

(* bound-level corollaries, for raw values *)
Lemma valid_input_terminates : forall S t v w d fuel,
  in_width S <= w -> ty_size t <= w -> jv_depth v <= d -> coerce_bound w d <= fuel ->
  valid_input fuel S t v <> None.
Proof.
  intros Sc t v w d fuel Hw Ht Hd Hb.
  apply (valid_input_gen Sc w Hw). apply (coerce_bound_fits w d); assumption.
Qed.

Lemma coerce_value_terminates : forall S t v w d fuel,
  in_width S <= w -> ty_size t <= w -> jv_depth v <= d -> coerce_bound w d <= fuel ->
  coerce_value fuel S t v <> None.
Proof.
  intros Sc t v w d fuel Hw Ht Hd Hb.
  apply (coerce_value_gen Sc w Hw). apply (coerce_bound_fits w d); assumption.
Qed.

(* ------------------------------------------------------------------ *)
(* get_variable_value(s)                                                *)
(* ------------------------------------------------------------------ *)

Lemma get_variable_value_gen : forall (Sc : schema) w dd d input fuel,
  in_width Sc <= w -> ty_size (v_type d) <= w ->
  (input = JNull \/ jv_depth input <= dd) ->
  lit_depth (v_default d) <= dd ->
  coerce_bound w dd <= fuel ->
  get_variable_value fuel Sc d input <> None.
Proof.
  intros Sc w dd d input fuel Hw Ht Hin Hdd Hb. unfold get_variable_value.
  destruct (negb (is_input_type Sc (v_type d))); [discriminate|].
  pose proof (coerce_bound_pos _ _ _ Hb) as Hpos.
  assert (HV : valid_input fuel Sc (v_type d) input <> None).
  { destruct Hin as [EJ|Hd].
    - rewrite EJ. apply valid_input_null. exact Hpos.
    - apply (valid_input_terminates Sc _ _ w dd); assumption. }
  destruct (valid_input fuel Sc (v_type d) input) as [[|]|]; [|discriminate|contradiction].
  destruct (nullish input).
  - destruct (v_default d) as [dv|] eqn:ED; [|discriminate].
    destruct (value_from_ast fuel Sc (v_type d) (Some dv) None) as [x|] eqn:E; [discriminate|].
    exfalso. revert E. apply (value_from_ast_gen Sc w Hw).
    apply (coerce_bound_fits w dd); assumption.
  - destruct (coerce_value fuel Sc (v_type d) input) as [x|] eqn:E; [discriminate|].
    exfalso. revert E. destruct Hin as [EJ|Hd].
    + rewrite EJ. apply coerce_value_null. exact Hpos.
    + apply (coerce_value_terminates Sc _ _ w dd); assumption.
Qed.

Lemma get_variable_values_gen : forall (Sc : schema) w dd inputs fuel,
  in_width Sc <= w -> inputs_depth inputs <= dd -> coerce_bound w dd <= fuel ->
  forall ds,
    (forall d, In d ds -> ty_size (v_type d) <= w /\ lit_depth (v_default d) <= dd) ->
    get_variable_values fuel Sc ds inputs <> None.
Proof.
  intros Sc w dd inputs fuel Hw Hi Hb ds.
  induction ds as [|d r IH]; intros Hall.
  - simpl. discriminate.
  - simpl.
    assert (HR : get_variable_values fuel Sc r inputs <> None).
    { apply IH. intros d' Hin. apply Hall. right. exact Hin. }
    clear IH.
    destruct (get_variable_value fuel Sc d (jlookup (v_name d) inputs)) as [[x|u]|] eqn:E.
    + destruct (get_variable_values fuel Sc r inputs) as [[m|e]|]; try discriminate.
      contradiction.
    + discriminate.
    + exfalso. revert E.
      destruct (Hall d (or_introl eq_refl)) as [Ht Hd].
      apply (get_variable_value_gen Sc w dd); try assumption.
      destruct (jlookup_depth (v_name d) inputs) as [EJ|Hl].
      * left. exact EJ.
      * right. unfold inputs_depth in Hi. lia.
Qed.

(* uniform version *)
Lemma get_variable_values_terminates_uniform : forall S ds inputs w d fuel,
  vardefs_width ds <= w -> in_width S <= w ->
  vardefs_depth ds <= d -> inputs_depth inputs <= d ->
  coerce_bound w d <= fuel ->
  get_variable_values fuel S ds inputs <> None.
Proof.
  intros Sc ds inputs w dd fuel Hvw Hw Hvd Hi Hb.
  apply (get_variable_values_gen Sc w dd inputs fuel Hw Hi Hb).
  intros d Hin. split.
  - pose proof (in_map_list_max (fun d0 : vardef => ty_size (v_type d0)) d ds Hin) as Hm.
    unfold vardefs_width in Hvw. lia.
  - pose proof (in_map_list_max (fun d0 : vardef => lit_depth (v_default d0)) d ds Hin) as Hm.
    unfold vardefs_depth in Hvd. unfold lit_depth in *. lia.
Qed.

(* ---- statement 3 ---- *)
Lemma get_variable_values_terminates : forall S ds inputs fuel,
  vars_bound S ds inputs <= fuel -> get_variable_values fuel S ds inputs <> None.
Proof.
  intros Sc ds inputs fuel Hb. unfold vars_bound in Hb.
  apply (get_variable_values_terminates_uniform Sc ds inputs
           (Nat.max (vardefs_width ds) (in_width Sc))
           (Nat.max (vardefs_depth ds) (inputs_depth inputs))); first [exact Hb | lia].
Qed.

Print Assumptions value_from_ast_terminates.
Print Assumptions get_argument_values_terminates.
Print Assumptions get_argument_values_terminates_uniform.
Print Assumptions get_variable_values_terminates.
Print Assumptions find_field_arg_width.
Print Assumptions find_field_out_width.
Print Assumptions valid_input_terminates.
Print Assumptions coerce_value_terminates.
