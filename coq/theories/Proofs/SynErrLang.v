(* Languages of token lists and the two facts that carry the "viable prefix" argument through the
   recogniser's combinators:

     SoundL g L   when g succeeds, the tokens it consumed are in L;
     CompL g L    when g fails, the tokens it consumed before the reported token can be
                  continued to something in L.

   For the named parse functions SoundL comes from the C03 soundness lemmas (through the
   agreement of recogniser and parser model); CompL is proved here, production by production,
   and ends in: whatever the recogniser of documents had consumed when it failed begins a
   derivable -- hence parsed -- document. *)
From Coq Require Import String List NArith Bool Lia PeanoNat.
From GQL Require Import Base.Bytes Syntax.Lexer Syntax.Ast Syntax.Parser Syntax.Grammar SynErr.LexErr SynErr.ParseErr.
From GQL Require Import Proofs.SyntaxSound Proofs.SyntaxComplete Proofs.SynErrWB Proofs.SynErrErase Proofs.SynErrComplete.
Import ListNotations.
Open Scope N_scope.

Definition lang := list token -> Prop.
Definition SoundL (g : R) (L : lang) : Prop := forall ts r, g ts = OkE r -> exists u, ts = u ++ r /\ L u.
Definition CompL (g : R) (L : lang) : Prop := forall ts r, g ts = ErrE r -> exists u, ts = u ++ r /\ exists cont, L (u ++ cont).
Definition Inh (L : lang) : Prop := exists w, L w.

Definition EpsL : lang := fun p => p = [].
Definition TokL (q : token -> bool) : lang := fun l => exists t, l = [t] /\ q t = true.
Definition CatL (A B : lang) : lang := fun p => exists a b, p = a ++ b /\ A a /\ B b.
Definition AltL (A B : lang) : lang := fun p => A p \/ B p.
Inductive StarL (A : lang) : lang :=
| StarL_nil : StarL A []
| StarL_cons : forall a p, A a -> StarL A p -> StarL A (a ++ p).
Inductive SepL (A : lang) (sep : tkind) : lang :=
| SepL_one : forall a, A a -> SepL A sep a
| SepL_cons : forall a s p, A a -> tk s = sep -> SepL A sep p -> SepL A sep (a ++ s :: p).
(* the language of a grammar relation *)
Definition LangOf {X} (I : list token -> X -> Prop) : lang := fun p => exists a, I p a.

Lemma SoundL_mono : forall g (L L' : lang), (forall p, L p -> L' p) -> SoundL g L -> SoundL g L'.
Proof. intros g L L' H S ts r E. destruct (S _ _ E) as (u & -> & Lu). eauto. Qed.
Lemma CompL_mono : forall g (L L' : lang), (forall p, L p -> L' p) -> CompL g L -> CompL g L'.
Proof. intros g L L' H C ts r E. destruct (C _ _ E) as (u & -> & cont & Lu). eauto 6. Qed.

(* named parse functions *)
Lemma SoundL_of : forall X (f : pst -> res (X * pst)) g I, Er f g -> Sound f I -> SoundL g (LangOf I).
Proof.
  intros X f g I E S ts r H. destruct (SoundE_of _ _ _ _ E S _ _ H) as (u & a & -> & D).
  exists u. split; [reflexivity|]. exists a. exact D.
Qed.
Lemma CompL_of : forall X g (I : list token -> X -> Prop), Completable g I -> CompL g (LangOf I).
Proof.
  intros X g I C ts r H. destruct (C _ _ H) as (u & -> & cont & a & D).
  exists u. split; [reflexivity|]. exists cont, a. exact D.
Qed.

(* ---- combinators ---- *)
Lemma SoundL_okE : SoundL okE EpsL.
Proof. intros ts r H. inversion H; subst. exists []. split; reflexivity. Qed.
Lemma CompL_okE : forall L, CompL okE L.
Proof. intros L ts r H. discriminate H. Qed.
Lemma SoundL_fuelE : forall L, SoundL fuelE L.
Proof. intros L ts r H. discriminate H. Qed.
Lemma CompL_fuelE : forall L, CompL fuelE L.
Proof. intros L ts r H. discriminate H. Qed.
Lemma SoundL_failE : forall L, SoundL failE L.
Proof. intros L ts r H. discriminate H. Qed.
Lemma CompL_failE : forall L, Inh L -> CompL failE L.
Proof. intros L [w Hw] ts r H. inversion H; subst. exists []. split; [reflexivity|]. exists w. exact Hw. Qed.

Lemma SoundL_tokE : forall q, SoundL (tokE q) (TokL q).
Proof.
  intros q ts r H. unfold tokE in H. destruct ts as [|t ts]; [discriminate H|].
  destruct (q t) eqn:Q; [|discriminate H]. inversion H; subst. exists [t]. split; [reflexivity|]. exists t. auto.
Qed.
Lemma CompL_tokE : forall q, Inh (TokL q) -> CompL (tokE q) (TokL q).
Proof.
  intros q [w Hw] ts r H. unfold tokE in H. exists []. split.
  - destruct ts as [|t ts]; [inversion H; reflexivity|]. destruct (q t); [discriminate H|]. inversion H; reflexivity.
  - exists w. exact Hw.
Qed.

Lemma SoundL_seqE : forall g1 g2 A B, SoundL g1 A -> SoundL g2 B -> SoundL (g1 ;;; g2) (CatL A B).
Proof.
  intros g1 g2 A B S1 S2 ts r H. unfold seqE in H. destruct (g1 ts) as [m|a|] eqn:E1; try discriminate H.
  destruct (S1 _ _ E1) as (u1 & -> & L1). destruct (S2 _ _ H) as (u2 & -> & L2).
  exists (u1 ++ u2). split; [apply app_assoc|]. exists u1, u2. auto.
Qed.
Lemma CompL_seqE : forall g1 g2 A B, SoundL g1 A -> CompL g1 A -> CompL g2 B -> Inh B -> CompL (g1 ;;; g2) (CatL A B).
Proof.
  intros g1 g2 A B S1 C1 C2 [w Hw] ts r H. unfold seqE in H. destruct (g1 ts) as [m|a|] eqn:E1; try discriminate H.
  - destruct (S1 _ _ E1) as (u1 & -> & L1). destruct (C2 _ _ H) as (u2 & -> & cont & L2).
    exists (u1 ++ u2). split; [apply app_assoc|]. exists cont, u1, (u2 ++ cont). split; [symmetry; apply app_assoc|auto].
  - inversion H; subst a. destruct (C1 _ _ E1) as (u & -> & cont & L1).
    exists u. split; [reflexivity|]. exists (cont ++ w), (u ++ cont), w. split; [apply app_assoc|auto].
Qed.

Lemma SoundL_ifE : forall q g1 g2 L, SoundL g1 L -> SoundL g2 L -> SoundL (ifE q g1 g2) L.
Proof.
  intros q g1 g2 L S1 S2 ts r H. unfold ifE, caseE in H.
  destruct (hd_error ts) as [t|]; [destruct (q t)|]; eauto.
Qed.
Lemma CompL_ifE : forall q g1 g2 L, CompL g1 L -> CompL g2 L -> CompL (ifE q g1 g2) L.
Proof.
  intros q g1 g2 L C1 C2 ts r H. unfold ifE, caseE in H.
  destruct (hd_error ts) as [t|]; [destruct (q t)|]; eauto.
Qed.
Lemma SoundL_caseE : forall sel L, (forall o, SoundL (sel o) L) -> SoundL (caseE sel) L.
Proof. intros sel L S ts r H. exact (S _ _ _ H). Qed.
Lemma CompL_caseE : forall sel L, (forall o, CompL (sel o) L) -> CompL (caseE sel) L.
Proof. intros sel L C ts r H. exact (C _ _ _ H). Qed.

(* "if the current token satisfies q, consume it and go on with g, else h" *)
Lemma SoundL_if_any : forall q g h A B, SoundL g A -> SoundL h B ->
  SoundL (ifE q (anyE ;;; g) h) (AltL (CatL (TokL q) A) B).
Proof.
  intros q g h A B Sg Sh ts r H. unfold ifE, caseE in H. destruct ts as [|t ts]; cbn [hd_error] in H.
  - destruct (Sh _ _ H) as (u & E & Lu). exists u. split; [exact E|right; exact Lu].
  - destruct (q t) eqn:Q.
    + unfold seqE, anyE, tokE in H. destruct (Sg _ _ H) as (u & -> & Lu).
      exists (t :: u). split; [reflexivity|]. left. exists [t], u. split; [reflexivity|]. split; [exists t; auto|exact Lu].
    + destruct (Sh _ _ H) as (u & E & Lu). exists u. split; [exact E|right; exact Lu].
Qed.
Lemma CompL_if_any : forall q g h A B, CompL g A -> CompL h B ->
  CompL (ifE q (anyE ;;; g) h) (AltL (CatL (TokL q) A) B).
Proof.
  intros q g h A B Cg Ch ts r H. unfold ifE, caseE in H. destruct ts as [|t ts]; cbn [hd_error] in H.
  - destruct (Ch _ _ H) as (u & E & cont & Lu). exists u. split; [exact E|]. exists cont. right; exact Lu.
  - destruct (q t) eqn:Q.
    + unfold seqE, anyE, tokE in H. destruct (Cg _ _ H) as (u & -> & cont & Lu).
      exists (t :: u). split; [reflexivity|]. exists cont. left. exists [t], (u ++ cont). split; [reflexivity|]. split; [exists t; auto|exact Lu].
    + destruct (Ch _ _ H) as (u & E & cont & Lu). exists u. split; [exact E|]. exists cont. right; exact Lu.
Qed.
(* skip(k): an optional token *)
Lemma SoundL_optE : forall k, SoundL (optE k) (AltL (TokL (is_k k)) EpsL).
Proof.
  intros k ts r H. unfold optE, ifE, caseE in H. destruct ts as [|t ts]; cbn [hd_error] in H.
  - inversion H; subst. exists []. split; [reflexivity|right; reflexivity].
  - destruct (is_k k t) eqn:Q.
    + cbn in H. inversion H; subst. exists [t]. split; [reflexivity|]. left. exists t. auto.
    + inversion H; subst. exists []. split; [reflexivity|right; reflexivity].
Qed.
Lemma CompL_optE : forall k L, CompL (optE k) L.
Proof. intros k L ts r H. exfalso. exact (optE_no_fail _ _ _ H). Qed.

Lemma StarL_snoc : forall A p a, StarL A p -> A a -> StarL A (p ++ a).
Proof.
  intros A p a S Ha. induction S as [|a0 p0 H0 _ IH].
  - cbn [app]. rewrite <- (app_nil_r a). constructor; [exact Ha|constructor].
  - rewrite <- app_assoc. constructor; assumption.
Qed.

(* the loop of reverse() *)
Lemma SoundL_manyE : forall item A close, SoundL item A ->
  forall fuel, SoundL (manyE fuel item close) (CatL (StarL A) (TokL (is_k close))).
Proof.
  intros item A close S. induction fuel as [|f IH]; intros ts r H; cbn [manyE] in H; [discriminate H|].
  unfold ifE, caseE in H.
  assert (Step : (item ;;; manyE f item close) ts = OkE r ->
                 exists u, ts = u ++ r /\ CatL (StarL A) (TokL (is_k close)) u).
  { intro X. unfold seqE in X. destruct (item ts) as [m|a0|] eqn:Ei; try discriminate X.
    destruct (S _ _ Ei) as (u1 & -> & L1). destruct (IH _ _ X) as (u2 & -> & ps & c & -> & Sp & Lc).
    exists (u1 ++ ps ++ c). split; [rewrite <- !app_assoc; reflexivity|].
    exists (u1 ++ ps), c. split; [apply app_assoc|]. split; [constructor; assumption|exact Lc]. }
  destruct ts as [|t ts]; cbn [hd_error] in H; [exact (Step H)|].
  destruct (is_k close t) eqn:Q; [|exact (Step H)].
  cbn in H. inversion H; subst. exists [t]. split; [reflexivity|].
  exists [], [t]. split; [reflexivity|]. split; [constructor|exists t; auto].
Qed.

Definition ctok (k : tkind) : token := mktok k 0 0 [].
Lemma Inh_TokL_k : forall k, Inh (TokL (is_k k)).
Proof. intro k. exists [ctok k]. exists (ctok k). split; [reflexivity|]. unfold is_k. cbn. destruct k; reflexivity. Qed.

Lemma manyE_pieces : forall item A close, SoundL item A -> CompL item A ->
  forall fuel ts r, manyE fuel item close ts = ErrE r ->
    exists ps u, ts = ps ++ u ++ r /\ StarL A ps /\ exists cont, A (u ++ cont).
Proof.
  intros item A close S C. induction fuel as [|f IH]; intros ts r H; cbn [manyE] in H; [discriminate H|].
  unfold ifE, caseE in H.
  assert (X : (item ;;; manyE f item close) ts = ErrE r).
  { destruct ts as [|t ts']; cbn [hd_error] in H; [exact H|].
    destruct (is_k close t); [|exact H]. cbn in H. discriminate H. }
  clear H. unfold seqE in X. destruct (item ts) as [m|a0|] eqn:Ei; try discriminate X.
  - destruct (S _ _ Ei) as (u1 & -> & L1).
    destruct (IH _ _ X) as (ps & u & -> & Sp & Cc).
    exists (u1 ++ ps), u. split; [rewrite <- app_assoc; reflexivity|]. split; [constructor; assumption|exact Cc].
  - inversion X; subst a0. destruct (C _ _ Ei) as (u & -> & Cc).
    exists [], u. split; [reflexivity|]. split; [constructor|exact Cc].
Qed.

Lemma CompL_manyE : forall item A close, SoundL item A -> CompL item A ->
  forall fuel, CompL (manyE fuel item close) (CatL (StarL A) (TokL (is_k close))).
Proof.
  intros item A close S C fuel ts r H.
  destruct (manyE_pieces _ _ _ S C _ _ _ H) as (ps & u & -> & Sp & cont & La).
  exists (ps ++ u). split; [apply app_assoc|]. exists (cont ++ [ctok close]).
  exists (ps ++ (u ++ cont)), [ctok close]. split; [rewrite <- !app_assoc; reflexivity|].
  split; [apply StarL_snoc; assumption|]. exists (ctok close). split; [reflexivity|]. unfold is_k. cbn. destruct close; reflexivity.
Qed.

(* at least one item *)
Definition Plus (A : lang) : lang := CatL A (StarL A).
Lemma SoundL_many1E : forall item A close, SoundL item A ->
  forall fuel, SoundL (many1E fuel item close) (CatL (Plus A) (TokL (is_k close))).
Proof.
  intros item A close S [|f] ts r H; cbn [many1E] in H; [discriminate H|].
  unfold ifE, caseE in H.
  assert (X : (item ;;; manyE f item close) ts = OkE r).
  { destruct ts as [|t ts']; cbn [hd_error] in H; [exact H|].
    destruct (is_k close t); [|exact H]. discriminate H. }
  clear H. unfold seqE in X. destruct (item ts) as [m|a0|] eqn:Ei; try discriminate X.
  destruct (S _ _ Ei) as (u1 & -> & L1).
  destruct (SoundL_manyE _ _ close S f _ _ X) as (u2 & -> & ps & c & -> & Sp & Lc).
  exists (u1 ++ ps ++ c). split; [rewrite <- !app_assoc; reflexivity|].
  exists (u1 ++ ps), c. split; [apply app_assoc|]. split; [exists u1, ps; auto|exact Lc].
Qed.
Lemma CompL_many1E : forall item A close, SoundL item A -> CompL item A -> Inh A ->
  forall fuel, CompL (many1E fuel item close) (CatL (Plus A) (TokL (is_k close))).
Proof.
  intros item A close S C [w Hw] [|f] ts r H; cbn [many1E] in H; [discriminate H|].
  assert (Cl : TokL (is_k close) [ctok close]).
  { exists (ctok close). split; [reflexivity|]. unfold is_k. cbn. destruct close; reflexivity. }
  unfold ifE, caseE in H.
  assert (Step : (item ;;; manyE f item close) ts = ErrE r ->
                 exists u, ts = u ++ r /\ exists cont, CatL (Plus A) (TokL (is_k close)) (u ++ cont)).
  { intro X. unfold seqE in X. destruct (item ts) as [m|a0|] eqn:Ei; try discriminate X.
    - destruct (S _ _ Ei) as (u1 & -> & L1).
      destruct (manyE_pieces _ _ _ S C _ _ _ X) as (ps & u & -> & Sp & cont & La).
      exists (u1 ++ ps ++ u). split; [rewrite <- !app_assoc; reflexivity|]. exists (cont ++ [ctok close]).
      exists (u1 ++ ps ++ (u ++ cont)), [ctok close]. split; [rewrite <- !app_assoc; reflexivity|]. split; [|exact Cl].
      exists u1, (ps ++ (u ++ cont)). split; [reflexivity|]. split; [exact L1|apply StarL_snoc; assumption].
    - inversion X; subst a0. destruct (C _ _ Ei) as (u & -> & cont & La).
      exists u. split; [reflexivity|]. exists (cont ++ [ctok close]).
      exists (u ++ cont), [ctok close]. split; [apply app_assoc|]. split; [|exact Cl].
      exists (u ++ cont), []. split; [symmetry; apply app_nil_r|]. split; [exact La|constructor]. }
  destruct ts as [|t ts']; cbn [hd_error] in H; [exact (Step H)|].
  destruct (is_k close t) eqn:Q; [|exact (Step H)].
  inversion H; subst. exists []. split; [reflexivity|]. exists (w ++ [ctok close]).
  exists w, [ctok close]. split; [reflexivity|]. split; [|exact Cl].
  exists w, []. split; [symmetry; apply app_nil_r|]. split; [exact Hw|constructor].
Qed.

(* open Item* close / open Item+ close *)
Definition DelimL (A : lang) (open close : tkind) (ne : bool) : lang :=
  CatL (TokL (is_k open)) (CatL (if ne then Plus A else StarL A) (TokL (is_k close))).
Lemma SoundL_reverseE : forall item A open close ne fuel, SoundL item A ->
  SoundL (reverseE fuel open item close ne) (DelimL A open close ne).
Proof.
  intros item A open close ne fuel S. unfold reverseE, DelimL. apply SoundL_seqE; [apply SoundL_tokE|].
  destruct ne; [apply SoundL_many1E | apply SoundL_manyE]; exact S.
Qed.
Lemma Inh_StarL : forall A, Inh (StarL A).
Proof. intro A. exists []. constructor. Qed.
Lemma Inh_CatL : forall A B, Inh A -> Inh B -> Inh (CatL A B).
Proof. intros A B [a Ha] [b Hb]. exists (a ++ b), a, b. auto. Qed.
Lemma Inh_Plus : forall A, Inh A -> Inh (Plus A).
Proof. intros A H. apply Inh_CatL; [exact H|apply Inh_StarL]. Qed.
Lemma Inh_EpsL : Inh EpsL.
Proof. exists []. reflexivity. Qed.
Lemma Inh_AltL_l : forall A B, Inh A -> Inh (AltL A B).
Proof. intros A B [a Ha]. exists a. left; exact Ha. Qed.
Lemma Inh_AltL_r : forall A B, Inh B -> Inh (AltL A B).
Proof. intros A B [a Ha]. exists a. right; exact Ha. Qed.

Lemma CompL_reverseE : forall item A open close ne fuel, SoundL item A -> CompL item A -> Inh A ->
  CompL (reverseE fuel open item close ne) (DelimL A open close ne).
Proof.
  intros item A open close ne fuel S C I. unfold reverseE, DelimL.
  apply CompL_seqE; [apply SoundL_tokE|apply CompL_tokE; apply Inh_TokL_k| |].
  - destruct ne; [apply CompL_many1E | apply CompL_manyE]; assumption.
  - apply Inh_CatL; [destruct ne; [apply Inh_Plus; exact I|apply Inh_StarL]|apply Inh_TokL_k].
Qed.

(* "for peek(k) { item }" *)
Lemma SoundL_whileE : forall k item A, SoundL item A -> forall fuel, SoundL (whileE fuel k item) (StarL A).
Proof.
  intros k item A S. induction fuel as [|f IH]; intros ts r H; cbn [whileE] in H; [discriminate H|].
  unfold ifE, caseE in H.
  assert (Stop : okE ts = OkE r -> exists u, ts = u ++ r /\ StarL A u).
  { intro X. inversion X; subst. exists []. split; [reflexivity|constructor]. }
  destruct ts as [|t ts']; cbn [hd_error] in H; [exact (Stop H)|].
  destruct (is_k k t); [|exact (Stop H)].
  unfold seqE in H. destruct (item (t :: ts')) as [m|a0|] eqn:Ei; try discriminate H.
  destruct (S _ _ Ei) as (u1 & E1 & L1). destruct (IH _ _ H) as (u2 & -> & L2).
  exists (u1 ++ u2). split; [rewrite E1; apply app_assoc|constructor; assumption].
Qed.
Lemma CompL_whileE : forall k item A, SoundL item A -> CompL item A -> forall fuel, CompL (whileE fuel k item) (StarL A).
Proof.
  intros k item A S C. induction fuel as [|f IH]; intros ts r H; cbn [whileE] in H; [discriminate H|].
  unfold ifE, caseE in H.
  destruct ts as [|t ts']; cbn [hd_error] in H; [discriminate H|].
  destruct (is_k k t); [|discriminate H].
  unfold seqE in H. destruct (item (t :: ts')) as [m|a0|] eqn:Ei; try discriminate H.
  - destruct (S _ _ Ei) as (u1 & E1 & L1). destruct (IH _ _ H) as (u2 & -> & cont & L2).
    exists (u1 ++ u2). split; [rewrite E1; apply app_assoc|]. exists cont. rewrite <- app_assoc. constructor; assumption.
  - inversion H; subst a0. destruct (C _ _ Ei) as (u & E & cont & La).
    exists u. split; [exact E|]. exists cont. rewrite <- (app_nil_r (u ++ cont)). constructor; [exact La|constructor].
Qed.

(* "for { item; if !skip(sep) break }" *)
Lemma SoundL_sep_byE : forall sep item A, SoundL item A -> forall fuel, SoundL (sep_byE fuel sep item) (SepL A sep).
Proof.
  intros sep item A S. induction fuel as [|f IH]; intros ts r H; cbn [sep_byE] in H; [discriminate H|].
  unfold seqE at 1 in H. destruct (item ts) as [m|a0|] eqn:Ei; try discriminate H.
  destruct (S _ _ Ei) as (u1 & -> & L1). unfold ifE, caseE in H.
  assert (Stop : okE m = OkE r -> exists u, u1 ++ m = u ++ r /\ SepL A sep u).
  { intro X. inversion X; subst. exists u1. split; [reflexivity|constructor; exact L1]. }
  destruct m as [|t m']; cbn [hd_error] in H; [exact (Stop H)|].
  destruct (is_k sep t) eqn:Q; [|exact (Stop H)].
  unfold seqE, anyE, tokE in H. destruct (IH _ _ H) as (u2 & -> & L2).
  exists (u1 ++ t :: u2). split; [rewrite <- app_assoc; reflexivity|].
  apply SepL_cons; [exact L1|apply tkind_beq_eq; exact Q|exact L2].
Qed.
Lemma CompL_sep_byE : forall sep item A, SoundL item A -> CompL item A -> forall fuel, CompL (sep_byE fuel sep item) (SepL A sep).
Proof.
  intros sep item A S C. induction fuel as [|f IH]; intros ts r H; cbn [sep_byE] in H; [discriminate H|].
  unfold seqE at 1 in H. destruct (item ts) as [m|a0|] eqn:Ei; try discriminate H.
  - destruct (S _ _ Ei) as (u1 & -> & L1). unfold ifE, caseE in H.
    destruct m as [|t m']; cbn [hd_error] in H; [discriminate H|].
    destruct (is_k sep t) eqn:Q; [|discriminate H].
    unfold seqE, anyE, tokE in H. destruct (IH _ _ H) as (u2 & -> & cont & L2).
    exists (u1 ++ t :: u2). split; [rewrite <- app_assoc; reflexivity|]. exists cont.
    rewrite <- app_assoc. cbn [app]. apply SepL_cons; [exact L1|apply tkind_beq_eq; exact Q|exact L2].
  - inversion H; subst a0. destruct (C _ _ Ei) as (u & -> & cont & La).
    exists u. split; [reflexivity|]. exists cont. constructor; exact La.
Qed.

(* branches *)
Lemma SoundL_ifE_alt : forall q g1 g2 A B, SoundL g1 A -> SoundL g2 B -> SoundL (ifE q g1 g2) (AltL A B).
Proof.
  intros q g1 g2 A B S1 S2. apply SoundL_ifE; [eapply SoundL_mono; [|exact S1]|eapply SoundL_mono; [|exact S2]];
    intros p H; [left|right]; exact H.
Qed.
Lemma CompL_ifE_alt : forall q g1 g2 A B, CompL g1 A -> CompL g2 B -> CompL (ifE q g1 g2) (AltL A B).
Proof.
  intros q g1 g2 A B C1 C2. apply CompL_ifE; [eapply CompL_mono; [|exact C1]|eapply CompL_mono; [|exact C2]];
    intros p H; [left|right]; exact H.
Qed.
Lemma SoundL_if_ok : forall q g A, SoundL g A -> SoundL (ifE q g okE) (AltL A EpsL).
Proof. intros q g A S. apply SoundL_ifE_alt; [exact S|apply SoundL_okE]. Qed.
Lemma CompL_if_ok : forall q g A, CompL g A -> CompL (ifE q g okE) A.
Proof. intros q g A C. apply CompL_ifE; [exact C|apply CompL_okE]. Qed.
Lemma CompL_if_fail : forall q g A, CompL g A -> Inh A -> CompL (ifE q g failE) A.
Proof. intros q g A C I. apply CompL_ifE; [exact C|apply CompL_failE; exact I]. Qed.
Lemma CompL_fail_if : forall q g A, CompL g A -> Inh A -> CompL (ifE q failE g) A.
Proof. intros q g A C I. apply CompL_ifE; [apply CompL_failE; exact I|exact C]. Qed.
Lemma SoundL_fail_if : forall q g A, SoundL g A -> SoundL (ifE q failE g) A.
Proof. intros q g A S. apply SoundL_ifE; [apply SoundL_failE|exact S]. Qed.

(* structural languages over a grammar relation are the grammar's list relations *)
Lemma StarL_DStar : forall X (I : list token -> X -> Prop) p, StarL (LangOf I) p -> exists l, DStar I p l.
Proof.
  intros X I p S. induction S as [|a p [x Hx] _ [l IH]]; [exists []; constructor|].
  exists (x :: l). constructor; assumption.
Qed.
Lemma Plus_DStar : forall X (I : list token -> X -> Prop) p, Plus (LangOf I) p -> exists l, DStar I p l /\ l <> [].
Proof.
  intros X I p (a & b & -> & [x Hx] & S). destruct (StarL_DStar _ _ _ S) as [l Dl].
  exists (x :: l). split; [constructor; assumption|discriminate].
Qed.
Lemma DelimL_DDelim : forall X (I : list token -> X -> Prop) o c ne p, DelimL (LangOf I) o c ne p -> exists l, DDelim I o c ne p l.
Proof.
  intros X I o c ne p (a & b & -> & (to & -> & Ko) & (m & e & -> & M & (tc & -> & Kc))).
  unfold is_k in Ko, Kc. apply tkind_beq_eq in Ko, Kc. cbn [app].
  destruct ne.
  - destruct (Plus_DStar _ _ _ M) as (l & Dl & Ne). exists l. constructor; auto.
  - destruct (StarL_DStar _ _ _ M) as (l & Dl). exists l. constructor; auto. discriminate.
Qed.
Lemma SepL_DSep : forall X (I : list token -> X -> Prop) sep p, SepL (LangOf I) sep p -> exists l, DSep I sep p l.
Proof.
  intros X I sep p S. induction S as [a [x Hx]|a s p [x Hx] Ks _ [l IH]].
  - exists [x]. constructor; exact Hx.
  - exists (x :: l). constructor; assumption.
Qed.
Lemma CompL_if_ok_alt : forall q g A, CompL g A -> CompL (ifE q g okE) (AltL A EpsL).
Proof. intros q g A C. apply CompL_ifE_alt; [exact C|apply CompL_okE]. Qed.
