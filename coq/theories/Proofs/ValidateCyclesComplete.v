(* NoFragmentCycles, completeness: with unique fragment names, if some fragment reaches
   itself through spreads, the DFS (visitedFrags / spreadPath / spreadPathIndexByName)
   reports an error.  Invariant: visited nodes off the current path are "finished" -- their
   defined successors are finished too; a node entered by a call that reports nothing is
   not on a cycle (a cycle through it would have to re-enter the path, which is an error). *)
From Coq Require Import List Arith Lia Bool String NArith Relations Relation_Operators Operators_Properties.
From GQL Require Import Exec.Syntax Validate.VSyntax Validate.Overlap Validate.Rules
     Proofs.ValidateRules Proofs.ValidateCycles.
Import ListNotations.
Open Scope string_scope.
Open Scope list_scope.

Section Complete.
Variable W : wdoc.
Hypothesis names_nodup : NoDup (map wf_name (w_frags W)).
Notation names := (map wf_name (w_frags W)).
Notation edge := (edge W).
Notation reach := (reach W).
Definition defined (y : name) : Prop := In y names.
Definition Names (idx : list (name * nat)) : list name := map fst idx.

Lemma edge_defined : forall x y, edge x y -> defined x.
Proof. intros x y [f [Hf [Hn _]]]. subst x. apply in_map. exact Hf. Qed.

Lemma frag_unique : forall f f', In f (w_frags W) -> In f' (w_frags W) -> wf_name f = wf_name f' -> f = f'.
Proof.
  intros f f'. generalize names_nodup. generalize (w_frags W). induction l as [|x r IH]; intros ND Hf Hf' E; [destruct Hf|].
  simpl in ND. inversion ND as [|? ? Hx ND']; subst.
  destruct Hf as [Hf|Hf]; destruct Hf' as [Hf'|Hf'].
  - congruence.
  - subst x. exfalso. apply Hx. rewrite E. apply in_map. exact Hf'.
  - subst x. exfalso. apply Hx. rewrite <- E. apply in_map. exact Hf.
  - apply IH; assumption.
Qed.

Lemma reach_first_edge : forall a b, reach a b -> exists y, edge a y.
Proof. intros a b H. induction H as [a b H|a c b H1 IH1 H2 IH2]; [exists b; exact H | exact IH1]. Qed.

Lemma closed_reach : forall (X : name -> Prop),
  (forall x y, X x -> edge x y -> X y) -> forall a z, X a -> reach a z -> X z.
Proof.
  intros X HX a z Ha R. induction R as [a b H|a c b H1 IH1 H2 IH2]; [eapply HX; eauto|]. apply IH2. apply IH1. exact Ha.
Qed.

(* ---- the count of unvisited definitions bounds the recursion depth ---- *)
Definition unv (st : cyc) : nat :=
  List.length (filter (fun x => negb (nmem x (cy_visited st))) names).

Lemma filter_len_le : forall (p q : name -> bool) l,
  (forall x, p x = true -> q x = true) -> List.length (filter p l) <= List.length (filter q l).
Proof.
  intros p q l H. induction l as [|x r IH]; simpl; [lia|].
  destruct (p x) eqn:Ep; [rewrite (H x Ep); simpl; lia|]. destruct (q x); simpl; lia.
Qed.

Lemma filter_len_lt : forall (p q : name -> bool) l n,
  (forall x, p x = true -> q x = true) -> In n l -> q n = true -> p n = false ->
  List.length (filter p l) < List.length (filter q l).
Proof.
  intros p q l n H. induction l as [|x r IH]; intros Hin Hq Hp; [destruct Hin|]. simpl.
  destruct Hin as [E|Hin].
  - subst x. rewrite Hp, Hq. simpl. pose proof (filter_len_le p q r H). lia.
  - specialize (IH Hin Hq Hp). destruct (p x) eqn:Ep; [rewrite (H x Ep); simpl; lia|]. destruct (q x); simpl; lia.
Qed.

Lemma unv_mono : forall st st', incl (cy_visited st) (cy_visited st') -> unv st' <= unv st.
Proof.
  intros st st' H. unfold unv. apply filter_len_le. intros x Hx.
  apply negb_true_iff in Hx. apply negb_true_iff. apply nmem_not_in in Hx. apply nmem_not_in.
  intro K. apply Hx. apply H. exact K.
Qed.

Lemma unv_dec : forall st n, In n names -> ~ In n (cy_visited st) ->
  unv {| cy_visited := n :: cy_visited st; cy_errs := cy_errs st |} < unv st.
Proof.
  intros st n Hn Hv. unfold unv. simpl. apply (filter_len_lt _ _ names n).
  - intros x Hx. apply negb_true_iff in Hx. apply negb_true_iff. apply orb_false_iff in Hx. exact (proj2 Hx).
  - exact Hn.
  - apply negb_true_iff. apply nmem_not_in. exact Hv.
  - apply negb_false_iff. rewrite String.eqb_refl. reflexivity.
Qed.

Lemma unv_le : forall st, unv st <= List.length (w_frags W).
Proof.
  intro st. unfold unv. rewrite <- (map_length wf_name (w_frags W)).
  generalize names. intro l. induction l as [|x r IH]; simpl; [lia|].
  destruct (negb (nmem x (cy_visited st))); simpl; lia.
Qed.

(* ---- pre/post conditions ---- *)
Definition newly (st st' : cyc) (x : name) : Prop := In x (cy_visited st') /\ ~ In x (cy_visited st).
Definition grows (st st' : cyc) : Prop := exists l, cy_errs st' = cy_errs st ++ l.

(* visited nodes off the path P are finished: their defined successors are finished *)
Definition INV (st : cyc) (P : list name) : Prop :=
  forall x y, In x (cy_visited st) -> ~ In x P -> edge x y -> defined y -> In y (cy_visited st) /\ ~ In y P.

Definition Post (B : list name) (st st' : cyc) : Prop :=
  grows st st' /\ incl (cy_visited st) (cy_visited st') /\
  (cy_errs st' = [] -> forall x, newly st st' x ->
     (forall y, edge x y -> ~ In y B /\ (defined y -> In y (cy_visited st'))) /\ ~ reach x x).

Lemma grows_nil : forall st st', grows st st' -> cy_errs st' = [] -> cy_errs st = [].
Proof. intros st st' [l E] H. rewrite E in H. apply app_eq_nil in H. exact (proj1 H). Qed.

Lemma Post_refl : forall B st, Post B st st.
Proof.
  intros B st. split; [exists []; rewrite app_nil_r; reflexivity|]. split; [apply incl_refl|].
  intros _ x [H1 H2]. contradiction.
Qed.

Lemma Post_trans : forall B a b c, Post B a b -> Post B b c -> Post B a c.
Proof.
  intros B a b c (G1 & I1 & C1) (G2 & I2 & C2). split; [|split].
  - destruct G1 as [l1 E1]. destruct G2 as [l2 E2]. exists (l1 ++ l2). rewrite E2, E1, app_assoc. reflexivity.
  - eapply incl_tran; eauto.
  - intros Hc x [Hx Hn]. pose proof (grows_nil _ _ G2 Hc) as Hb.
    destruct (in_dec string_dec x (cy_visited b)) as [Hxb|Hxb].
    + destruct (C1 Hb x (conj Hxb Hn)) as [He Hr]. split; [|exact Hr].
      intros y Hy. destruct (He y Hy) as [H1 H2]. split; [exact H1|]. intro Hd. apply I2. apply H2. exact Hd.
    + apply (C2 Hc x (conj Hx Hxb)).
Qed.

Lemma Post_weaken : forall B B' st st', incl B B' -> Post B' st st' -> Post B st st'.
Proof.
  intros B B' st st' Hi (G & I & C). split; [exact G|]. split; [exact I|].
  intros Hc x Hx. destruct (C Hc x Hx) as [He Hr]. split; [|exact Hr].
  intros y Hy. destruct (He y Hy) as [H1 H2]. split; [|exact H2]. intro K. apply H1. apply Hi. exact K.
Qed.

Lemma INV_after : forall st st' P B,
  incl P B -> Post B st st' -> cy_errs st' = [] -> INV st P -> INV st' P.
Proof.
  intros st st' P B Hi (G & I & C) Hc HI x y Hx Hp He Hd.
  destruct (in_dec string_dec x (cy_visited st)) as [Hxs|Hxs].
  - destruct (HI x y Hxs Hp He Hd) as [H1 H2]. split; [apply I; exact H1 | exact H2].
  - destruct (C Hc x (conj Hx Hxs)) as [Hed _]. destruct (Hed y He) as [H1 H2].
    split; [apply H2; exact Hd | intro K; apply H1; apply Hi; exact K].
Qed.

Lemma detect_post : forall fuel f path idx st,
  In f (w_frags W) -> ~ In (wf_name f) (cy_visited st) -> unv st < fuel ->
  (cy_errs st = [] -> INV st (Names idx)) ->
  Post (wf_name f :: Names idx) st (detect W fuel f path idx st) /\
  In (wf_name f) (cy_visited (detect W fuel f path idx st)).
Proof.
  induction fuel as [|fu IH]; intros f path idx st Hf Hnv Hfu HI; [lia|].
  cbn [detect].
  set (n := wf_name f).
  set (st1 := {| cy_visited := n :: cy_visited st; cy_errs := cy_errs st |}).
  set (B := n :: Names idx).
  assert (Hn : In n names) by (apply in_map; exact Hf).
  assert (U1 : unv st1 < fu) by (pose proof (unv_dec st n Hn Hnv); unfold st1; lia).
  (* the edges of n are the spreads of f *)
  assert (Edges : forall y, edge n y -> In y (spread_names (wf_sel f))).
  { intros y [f' [Hf' [En Hy]]]. rewrite (frag_unique f f' Hf Hf' (eq_sym En)). exact Hy. }
  (* the final assembly, given what the loop over the spreads established *)
  assert (Assemble : forall st',
            Post B st1 st' ->
            (cy_errs st' = [] -> forall y, In y (spread_names (wf_sel f)) ->
                                           ~ In y B /\ (defined y -> In y (cy_visited st'))) ->
            Post B st st' /\ In n (cy_visited st')).
  { intros st' (G & I & C) HS.
    assert (In1 : In n (cy_visited st')) by (apply I; left; reflexivity).
    split; [|exact In1]. split; [exact G|]. split; [intros x Hx; apply I; right; exact Hx|].
    intros Hc.
    assert (NewFacts : forall x, newly st st' x -> forall y, edge x y -> ~ In y B /\ (defined y -> In y (cy_visited st'))).
    { intros x [Hx Hxn] y Hy. destruct (string_dec x n) as [E|E].
      - subst x. apply (HS Hc y). apply Edges. exact Hy.
      - assert (N1 : newly st1 st' x). { split; [exact Hx|]. intros [K|K]; [apply E; symmetry; exact K | contradiction]. }
        apply (proj1 (C Hc x N1) y Hy). }
    intros x Hnew. split; [apply NewFacts; exact Hnew|].
    destruct Hnew as [Hx Hxn]. destruct (string_dec x n) as [E|E].
    2:{ assert (N1 : newly st1 st' x). { split; [exact Hx|]. intros [K|K]; [apply E; symmetry; exact K | contradiction]. }
        apply (proj2 (C Hc x N1)). }
    subst x. intro Rnn.
    pose proof (grows_nil _ _ G Hc) as Hc1. assert (Hc0 : cy_errs st = []) by exact Hc1.
    set (X := fun z => newly st st' z \/ (In z (cy_visited st) /\ ~ In z (Names idx)) \/ ~ defined z).
    assert (XC : forall a b, X a -> edge a b -> X b).
    { intros a b [Ha|[Ha|Ha]] Hab.
      - destruct (NewFacts a Ha b Hab) as [H1 H2].
        destruct (in_dec string_dec b names) as [Hd|Hd]; [|right; right; exact Hd].
        destruct (in_dec string_dec b (cy_visited st)) as [Hb|Hb].
        + right. left. split; [exact Hb|]. intro K. apply H1. right. exact K.
        + left. split; [apply H2; exact Hd | exact Hb].
      - destruct (in_dec string_dec b names) as [Hd|Hd]; [|right; right; exact Hd].
        destruct Ha as [Ha1 Ha2]. destruct (HI Hc0 a b Ha1 Ha2 Hab Hd) as [H1 H2]. right. left. auto.
      - exfalso. apply Ha. apply (edge_defined a b Hab). }
    assert (Xn : X n) by (left; split; assumption).
    apply clos_trans_tn1 in Rnn.
    assert (Last : exists p, X p /\ edge p n).
    { inversion Rnn as [Hnn | p z Hpn Rnp]; subst.
      - exists n. split; assumption.
      - exists p. split; [|exact Hpn]. apply (closed_reach X XC n p Xn). apply clos_tn1_trans. exact Rnp. }
    destruct Last as [p [[Hp|[Hp|Hp]] Hpn]].
    - destruct (NewFacts p Hp n Hpn) as [H1 _]. apply H1. left. reflexivity.
    - destruct Hp as [Hp1 Hp2]. destruct (HI Hc0 p n Hp1 Hp2 Hpn Hn) as [H1 _]. contradiction.
    - apply Hp. apply (edge_defined p n Hpn). }
  destruct (ctx_spreads (wf_sel f)) as [|sp0 sps] eqn:Esp.
  { apply Assemble; [apply Post_refl|]. intros _ y Hy. unfold spread_names in Hy. rewrite Esp in Hy. destruct Hy. }
  (* the loop over the spreads *)
  match goal with |- context [fold_left ?stp ?l ?s0] => set (step := stp); set (sprs := l) end.
  assert (Loop : forall l st_a,
            In n (cy_visited st_a) -> unv st_a < fu ->
            (cy_errs st_a = [] -> INV st_a B) ->
            Post B st_a (fold_left step l st_a) /\
            (cy_errs (fold_left step l st_a) = [] ->
             forall sp, In sp l -> ~ In (snd (snd sp)) B /\
                                   (defined (snd (snd sp)) -> In (snd (snd sp)) (cy_visited (fold_left step l st_a))))).
  { induction l as [|sp r IHl]; intros st_a Hna Ua HIa; simpl.
    - split; [apply Post_refl | intros _ sp []].
    - set (g := snd (snd sp)).
      assert (Step : Post B st_a (step st_a sp) /\
                     (cy_errs (step st_a sp) = [] -> ~ In g B /\ (defined g -> In g (cy_visited (step st_a sp))))).
      { unfold step. fold g. change ((wf_name f, Datatypes.length path) :: idx) with ((n, Datatypes.length path) :: idx).
        destruct (alookup g ((n, Datatypes.length path) :: idx)) as [ci|] eqn:El.
        - split.
          + split; [eexists; reflexivity|]. split; [apply incl_refl|]. simpl. intro K. apply app_eq_nil in K. destruct K as [_ K]. discriminate.
          + simpl. intro K. apply app_eq_nil in K. destruct K as [_ K]. discriminate.
        - apply alookup_none in El. simpl in El.
          destruct (nmem g (cy_visited st_a)) eqn:Ev.
          + split; [apply Post_refl|]. intros _. split; [exact El | intros _; apply nmem_in; exact Ev].
          + apply nmem_not_in in Ev.
            destruct (fragw W g) as [sf|] eqn:Efw.
            * destruct (fragw_some W g sf Efw) as [Hsf Hname].
              assert (Pre : cy_errs st_a = [] -> INV st_a (Names ((n, Datatypes.length path) :: idx))) by exact HIa.
              destruct (IH sf (path ++ [fst sp]) ((n, Datatypes.length path) :: idx) st_a Hsf
                           ltac:(rewrite Hname; exact Ev) Ua Pre) as [P1 P2].
              rewrite Hname in P1, P2. split.
              -- apply (Post_weaken B (g :: Names ((n, Datatypes.length path) :: idx))); [|exact P1].
                 intros z Hz. right. exact Hz.
              -- intros _. split; [exact El | intros _; exact P2].
            * split; [apply Post_refl|]. intros _. split; [exact El|]. intro Hd. apply fragw_none in Efw. contradiction. }
      destruct Step as [Ps Hs].
      assert (Hnb : In n (cy_visited (step st_a sp))) by (apply (proj1 (proj2 Ps)); exact Hna).
      assert (Ub : unv (step st_a sp) < fu) by (pose proof (unv_mono _ _ (proj1 (proj2 Ps))); lia).
      assert (HIb : cy_errs (step st_a sp) = [] -> INV (step st_a sp) B).
      { intro Hc. apply (INV_after st_a _ B B (incl_refl _) Ps Hc). apply HIa. apply (grows_nil _ _ (proj1 Ps) Hc). }
      destruct (IHl (step st_a sp) Hnb Ub HIb) as [Pr Hr].
      split; [eapply Post_trans; eauto|].
      intros Hc sp' [E|Hin]; [|apply (Hr Hc sp' Hin)]. subst sp'.
      pose proof (grows_nil _ _ (proj1 Pr) Hc) as Hcb. destruct (Hs Hcb) as [H1 H2].
      split; [exact H1|]. intro Hd. apply (proj1 (proj2 Pr)). apply H2. exact Hd. }
  assert (HI1 : cy_errs st1 = [] -> INV st1 B).
  { intro Hc. intros x y Hx Hp He Hd. simpl in Hx. destruct Hx as [Hx|Hx]; [exfalso; apply Hp; left; exact Hx|].
    assert (Hp' : ~ In x (Names idx)) by (intro K; apply Hp; right; exact K).
    destruct (HI Hc x y Hx Hp' He Hd) as [H1 H2]. split; [right; exact H1|].
    intros [K|K]; [|contradiction]. subst y. contradiction. }
  destruct (Loop sprs st1 (or_introl eq_refl) U1 HI1) as [PL HL].
  apply Assemble; [exact PL|].
  intros Hc y Hy. unfold spread_names in Hy. rewrite Esp in Hy. apply in_map_iff in Hy. destruct Hy as [sp [E Hsp]].
  subst y. apply (HL Hc sp Hsp).
Qed.

Theorem no_fragment_cycles_complete :
  Violates_no_fragment_cycles W -> rule_no_fragment_cycles W <> [].
Proof.
  intros [g Rg] Hnil. unfold rule_no_fragment_cycles in Hnil.
  set (step := fun st f => if nmem (wf_name f) (cy_visited st) then st
                           else detect W (Datatypes.S (List.length (w_frags W))) f [] [] st) in Hnil.
  assert (Loop : forall l st_a, incl l (w_frags W) ->
            (cy_errs st_a = [] -> INV st_a []) ->
            Post [] st_a (fold_left step l st_a) /\
            (cy_errs (fold_left step l st_a) = [] -> forall f, In f l -> In (wf_name f) (cy_visited (fold_left step l st_a)))).
  { induction l as [|f r IHl]; intros st_a Hi HIa; simpl.
    - split; [apply Post_refl | intros _ f []].
    - assert (Step : Post [] st_a (step st_a f) /\ In (wf_name f) (cy_visited (step st_a f))).
      { unfold step. destruct (nmem (wf_name f) (cy_visited st_a)) eqn:Ev.
        - split; [apply Post_refl | apply nmem_in; exact Ev].
        - apply nmem_not_in in Ev.
          destruct (detect_post (Datatypes.S (List.length (w_frags W))) f [] [] st_a (Hi f (or_introl eq_refl)) Ev
                                ltac:(pose proof (unv_le st_a); lia) HIa) as [P1 P2].
          split; [|exact P2]. apply (Post_weaken [] (wf_name f :: Names [])); [intros z []|exact P1]. }
      destruct Step as [Ps Hs].
      assert (HIb : cy_errs (step st_a f) = [] -> INV (step st_a f) []).
      { intro Hc. apply (INV_after st_a _ [] [] (incl_refl _) Ps Hc). apply HIa. apply (grows_nil _ _ (proj1 Ps) Hc). }
      destruct (IHl (step st_a f) (fun x Hx => Hi x (or_intror Hx)) HIb) as [Pr Hr].
      split; [eapply Post_trans; eauto|].
      intros Hc f' [E|Hin]; [|apply (Hr Hc f' Hin)]. subst f'. apply (proj1 (proj2 Pr)). exact Hs. }
  set (st0 := {| cy_visited := []; cy_errs := [] |}) in *.
  destruct (Loop (w_frags W) st0 (incl_refl _) (fun _ x y Hx => match Hx with end)) as [(G & I & C) HV].
  destruct (reach_first_edge g g Rg) as [y Hy]. pose proof (edge_defined g y Hy) as Hd.
  apply in_map_iff in Hd. destruct Hd as [f [En Hf]].
  assert (Hvis : In g (cy_visited (fold_left step (w_frags W) st0))) by (rewrite <- En; apply (HV Hnil f Hf)).
  destruct (C Hnil g (conj Hvis (fun K => K))) as [_ Hr]. exact (Hr Rg).
Qed.

Theorem no_fragment_cycles_iff :
  rule_no_fragment_cycles W <> [] <-> Violates_no_fragment_cycles W.
Proof. split; [apply no_fragment_cycles_sound | apply no_fragment_cycles_complete]. Qed.

End Complete.
