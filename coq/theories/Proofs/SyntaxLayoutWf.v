(* A small calculus for proving layout_wfb of the printer's layouts compositionally.
   P0 A: A may be followed by any well-formed layout (A ends in a punctuator or separator);
   P1 A: A may be followed by a well-formed layout whose text starts with a "safe" byte
         (one that cannot continue a name, a number or an empty string);
   SF A: if what follows A starts safely, so does A followed by it (A is empty or starts safely);
   SFs A: A followed by anything starts safely. *)
From Coq Require Import String List NArith Bool Lia.
From GQL Require Import Base.Bytes Syntax.Lexer Syntax.Ast Syntax.Parser Syntax.Printer
  Proofs.SyntaxPrinter Proofs.SyntaxUtf8 Proofs.SyntaxRender.
Import ListNotations.
Open Scope N_scope.

Definition safe_byte (b : N) : bool := negb (is_name_char b) && negb (b =? 46) && negb (b =? 34).
Definition safe_next (s : bytes) : bool := match s with [] => true | b :: _ => safe_byte b end.

Definition wf0 (L : layout) : Prop := layout_wfb L = true.
Definition wf1 (L : layout) : Prop := layout_wfb L = true /\ safe_next (flat L) = true.

Definition P0 (A : layout) : Prop := forall L, wf0 L -> wf0 (A ++ L).
Definition P1 (A : layout) : Prop := forall L, wf1 L -> wf0 (A ++ L).
Definition SF (A : layout) : Prop := forall L, safe_next (flat L) = true -> safe_next (flat (A ++ L)) = true.
Definition SFs (A : layout) : Prop := forall L, safe_next (flat (A ++ L)) = true.

Lemma safe_bound : forall s, safe_next s = true -> bound_ok s = true.
Proof.
  intros [|b r] H; [reflexivity|]. cbn in *. unfold safe_byte in H.
  apply andb_true_iff in H. destruct H as [H _]. exact H.
Qed.
Lemma safe_not_quote : forall s, safe_next s = true -> not_quote s = true.
Proof.
  intros [|b r] H; [reflexivity|]. cbn in *. unfold safe_byte in H.
  apply andb_true_iff in H. destruct H as [_ H]. exact H.
Qed.

Lemma P0_P1 : forall A, P0 A -> P1 A.
Proof. intros A H L [H1 _]. apply H. exact H1. Qed.
Lemma SFs_SF : forall A, SFs A -> SF A.
Proof. intros A H L _. apply H. Qed.

Lemma P0_nil : P0 []. Proof. intros L H. exact H. Qed.
Lemma P1_nil : P1 []. Proof. intros L [H _]. exact H. Qed.
Lemma SF_nil : SF []. Proof. intros L H. exact H. Qed.

Lemma P0_app : forall A B, P0 A -> P0 B -> P0 (A ++ B).
Proof. intros A B HA HB L H. rewrite <- app_assoc. apply HA. apply HB. exact H. Qed.
Lemma P1_app0 : forall A B, P0 A -> P1 B -> P1 (A ++ B).
Proof. intros A B HA HB L H. rewrite <- app_assoc. apply HA. apply HB. exact H. Qed.
Lemma P1_app1 : forall A B, P1 A -> P1 B -> SF B -> P1 (A ++ B).
Proof.
  intros A B HA HB SB L H. rewrite <- app_assoc. apply HA. split; [apply HB; exact H|]. apply SB. destruct H as [_ H]. exact H.
Qed.
Lemma P0_app1 : forall A B, P1 A -> P0 B -> SFs B -> P0 (A ++ B).
Proof. intros A B HA HB SB L H. rewrite <- app_assoc. apply HA. split; [apply HB; exact H|apply SB]. Qed.
Lemma SF_app : forall A B, SF A -> SF B -> SF (A ++ B).
Proof. intros A B HA HB L H. rewrite <- app_assoc. apply HA. apply HB. exact H. Qed.
Lemma SFs_app : forall A B, SFs A -> SFs (A ++ B).
Proof. intros A B HA L. rewrite <- app_assoc. apply HA. Qed.

(* pieces *)
Lemma P0_punct : forall k X, is_punct k = true -> P0 X -> P0 (PTok k [] :: X).
Proof.
  intros k X Hk HX L H. cbn [app]. unfold wf0. cbn [layout_wfb].
  assert (piece_wfb k [] (flat (X ++ L)) = true) by (destruct k; try discriminate Hk; reflexivity).
  rewrite H0. apply HX. exact H.
Qed.
Lemma P1_punct : forall k X, is_punct k = true -> P1 X -> P1 (PTok k [] :: X).
Proof.
  intros k X Hk HX L H. cbn [app]. unfold wf0. cbn [layout_wfb].
  assert (piece_wfb k [] (flat (X ++ L)) = true) by (destruct k; try discriminate Hk; reflexivity).
  rewrite H0. apply HX. exact H.
Qed.
Lemma SFs_punct : forall k X, is_punct k = true -> tkind_beq k SPREAD = false -> SFs (PTok k [] :: X).
Proof. intros k X Hk Hs L. destruct k; try discriminate Hk; try discriminate Hs; reflexivity. Qed.

Definition sep_wf (s : bytes) : bool := forallb is_sep_byte s && negb (is_nil s).

Lemma P0_sep : forall s X, sep_wf s = true -> P0 X -> P0 (PSep s :: X).
Proof.
  intros s X Hs HX L H. cbn [app]. unfold wf0. cbn [layout_wfb]. apply andb_true_iff in Hs. destruct Hs as [Hs _].
  rewrite Hs. apply HX. exact H.
Qed.
Lemma P1_sep : forall s X, sep_wf s = true -> P1 X -> P1 (PSep s :: X).
Proof.
  intros s X Hs HX L H. cbn [app]. unfold wf0. cbn [layout_wfb]. apply andb_true_iff in Hs. destruct Hs as [Hs _].
  rewrite Hs. apply HX. exact H.
Qed.
Lemma SFs_sep : forall s X, sep_wf s = true -> SFs (PSep s :: X).
Proof.
  intros s X Hs L. apply andb_true_iff in Hs. destruct Hs as [Hs Hn].
  destruct s as [|c s']; [discriminate Hn|]. cbn [forallb] in Hs. apply andb_true_iff in Hs. destruct Hs as [Hc _].
  change (flat ((PSep (c :: s') :: X) ++ L)) with (c :: s' ++ flat (X ++ L)). cbn [safe_next].
  unfold is_sep_byte in Hc. apply orb_true_iff in Hc. destruct Hc as [Hc|Hc]; [apply orb_true_iff in Hc; destruct Hc as [Hc|Hc]|];
    apply N.eqb_eq in Hc; subst; reflexivity.
Qed.

(* wordy pieces: a name, a number, a string *)
Definition wordy_ok (k : tkind) (v : bytes) : bool :=
  match k with
  | NAME => name_ok v
  | INT => num_okb v false
  | FLOAT => num_okb v true
  | STRING => str_okb v
  | _ => false
  end.

Lemma wordy_piece : forall k v rest, wordy_ok k v = true -> safe_next rest = true -> piece_wfb k v rest = true.
Proof.
  intros k v rest H S. destruct k; try discriminate H; cbn [piece_wfb wordy_ok] in *; rewrite H; cbn [andb].
  - apply safe_bound; exact S.
  - apply safe_bound; exact S.
  - apply safe_bound; exact S.
  - rewrite (safe_not_quote _ S). apply orb_true_r.
Qed.

Lemma P1_wordy : forall k v X, wordy_ok k v = true -> P1 X -> SF X -> P1 (PTok k v :: X).
Proof.
  intros k v X Hv HX SX L H. cbn [app]. unfold wf0. cbn [layout_wfb].
  rewrite (wordy_piece k v _ Hv (SX L (proj2 H))). apply HX. exact H.
Qed.
Lemma P0_wordy : forall k v X, wordy_ok k v = true -> P0 X -> SFs X -> P0 (PTok k v :: X).
Proof.
  intros k v X Hv HX SX L H. cbn [app]. unfold wf0. cbn [layout_wfb].
  rewrite (wordy_piece k v _ Hv (SX L)). apply HX. exact H.
Qed.
Lemma P1_wordy_last : forall k v, wordy_ok k v = true -> P1 [PTok k v].
Proof. intros k v Hv. apply P1_wordy; [exact Hv|apply P1_nil|apply SF_nil]. Qed.

(* join *)
Lemma ljoin_ne_P1 : forall sep l, sep_wf sep = true -> Forall P1 l -> P1 (ljoin_ne l sep).
Proof.
  intros sep l Hs H. induction H as [|a l Ha Hl IH]; [apply P1_nil|].
  destruct l as [|b l']; [exact Ha|]. change (ljoin_ne (a :: b :: l') sep) with (a ++ PSep sep :: ljoin_ne (b :: l') sep).
  apply P1_app1; [exact Ha|apply P1_sep; assumption|apply SFs_SF; apply SFs_sep; exact Hs].
Qed.
Lemma filter_Forall : forall A (P : A -> Prop) f l, Forall P l -> Forall P (filter f l).
Proof. intros A P f l H. induction H; simpl; [constructor|]. destruct (f x); [constructor; assumption|assumption]. Qed.
Lemma ljoin_P1 : forall sep l, sep_wf sep = true -> Forall P1 l -> P1 (ljoin l sep).
Proof. intros sep l Hs H. unfold ljoin. apply ljoin_ne_P1; [exact Hs|apply filter_Forall; exact H]. Qed.

(* the first element of a join decides how it starts *)
Lemma ljoin_SF : forall sep l, sep_wf sep = true -> Forall SF l -> SF (ljoin l sep).
Proof.
  intros sep l Hs H. unfold ljoin. induction H as [|a l Ha Hl IH]; [apply SF_nil|].
  cbn [filter]. destruct (is_nil a) eqn:E; cbn [negb]; [exact IH|].
  destruct (filter (fun x => negb (is_nil x)) l) as [|b l'] eqn:F; [exact Ha|].
  change (ljoin_ne (a :: b :: l') sep) with (a ++ PSep sep :: ljoin_ne (b :: l') sep).
  apply SF_app; [exact Ha|apply SFs_SF; apply SFs_sep; exact Hs].
Qed.

Lemma lwrap_P1 : forall a m b, P0 a -> P1 m -> P0 b -> SFs b -> P1 (lwrap a m b).
Proof.
  intros a m b Ha Hm Hb Sb. unfold lwrap. destruct (is_nil m); [apply P1_nil|].
  apply P1_app0; [exact Ha|]. apply P0_P1. apply P0_app1; assumption.
Qed.
Lemma lwrap_P1_open : forall a m, P0 a -> P1 m -> P1 (lwrap a m []).
Proof.
  intros a m Ha Hm. unfold lwrap. destruct (is_nil m); [apply P1_nil|]. rewrite app_nil_r. apply P1_app0; assumption.
Qed.
Lemma lwrap_SF : forall a m b, SFs a -> SF (lwrap a m b).
Proof. intros a m b Ha. unfold lwrap. destruct (is_nil m); [apply SF_nil|]. apply SFs_SF. apply SFs_app. exact Ha. Qed.

(* indent keeps separators separators, and does not touch tokens *)
Lemma indent_sep : forall s, forallb is_sep_byte s = true -> forallb is_sep_byte (indent_bytes s) = true.
Proof.
  induction s as [|c s IH]; intro H; [reflexivity|]. cbn [forallb] in H. apply andb_true_iff in H. destruct H as [Hc Hs].
  cbn [indent_bytes]. destruct (c =? 10) eqn:E.
  - cbn [forallb]. rewrite (IH Hs). reflexivity.
  - cbn [forallb]. rewrite Hc, (IH Hs). reflexivity.
Qed.
