(* C17, finish-outcome clause: every finish function of the model's log is
   given the outcome of its phase (Ext/ExtensionsSpec.v outcome_ok). *)
From Coq Require Import List NArith Bool Lia.
From GQL Require Import Ext.ExtensionsModel Ext.ExtensionsSpec Proofs.ExtProofs.
Import ListNotations.
Open Scope N_scope.

(* ---- counting helpers ---- *)

Lemma count_zero : forall p l, (forall ev, In ev l -> p ev = false) -> count p l = 0.
Proof.
  intros p. induction l as [|a r IH]; intros H; [reflexivity|].
  rewrite count_cons, (H a (or_introl eq_refl)), IH; [reflexivity|]. intros ev I. apply H. right. exact I.
Qed.

Lemma count_ext : forall p q l, (forall ev, In ev l -> p ev = q ev) -> count p l = count q l.
Proof.
  intros p q. induction l as [|a r IH]; intros H; [reflexivity|].
  rewrite !count_cons, (H a (or_introl eq_refl)), IH; [reflexivity|]. intros ev I. apply H. right. exact I.
Qed.

Lemma existsb_count : forall p l, existsb p l = nz (count p l).
Proof.
  intros p. induction l as [|a r IH]; [reflexivity|].
  cbn [existsb]. rewrite count_cons, IH. unfold nz. destruct (p a); cbn [orb].
  - destruct (count p r); reflexivity.
  - rewrite N.add_0_l. reflexivity.
Qed.

Lemma forallb_app_true : forall (p : event -> bool) l1 l2,
  forallb p l1 = true -> forallb p l2 = true -> forallb p (l1 ++ l2) = true.
Proof. intros p l1 l2 H1 H2. rewrite forallb_app, H1, H2. reflexivity. Qed.

(* ---- what kinds of events the pieces contain ---- *)

Definition is_finish_ev (ev : event) : bool := match ev with EFinish _ _ _ _ => true | _ => false end.

Lemma in_results : forall ev xs, In ev (results xs) -> exists i r o, ev = EHas i r \/ ev = EGet i o.
Proof.
  intros ev xs H. unfold results in H. apply in_flat_map in H. destruct H as [ix [_ H]]. unfold res_ev in H.
  destruct (x_has (snd ix)); cbn [In] in H.
  - destruct H as [H|[H|[]]]; subst ev.
    + exists (fst ix), HRTrue, true. left. reflexivity.
    + exists (fst ix), HRTrue, (is_ok (x_get (snd ix))). right. reflexivity.
  - destruct H as [H|[]]; subst ev. exists (fst ix), HRFalse, true. left. reflexivity.
  - destruct H as [H|[]]; subst ev. exists (fst ix), HRFail, true. left. reflexivity.
Qed.

Lemma in_fields : forall ev fs k xs, In ev (fields_log k fs xs) ->
  exists i j, (exists r, ev = EStart i (PResolve j) r) \/ (exists n o, ev = EFinish i (PResolve j) n o).
Proof.
  intros ev. induction fs as [|fb r IH]; intros k xs H; [contradiction|].
  cbn [fields_log] in H. apply in_app_or in H. destruct H as [H|H]; [|eapply IH; exact H].
  apply in_block0 in H. destruct H as [H|H].
  - apply in_starts in H. destruct H as [ix [_ E]]. exists (fst ix), k. left. eexists. exact E.
  - apply in_fins in H. destruct H as [ix [b [_ [_ E]]]]. exists (fst ix), k. right. eexists _, _. exact E.
Qed.

(* a predicate that is false on every event except some finish / start kinds *)
Definition only_on_finish (p : event -> bool) : Prop := forall ev, is_finish_ev ev = false -> p ev = false.

Lemma outcome_nofinish : forall c l piece,
  (forall ev, In ev piece -> is_finish_ev ev = false) -> forallb (outcome_ok c l) piece = true.
Proof.
  intros c l piece H. apply forallb_forall. intros ev I. specialize (H ev I).
  destruct ev; try reflexivity. discriminate.
Qed.

Lemma nofinish_inits : forall xs ev, In ev (inits xs) -> is_finish_ev ev = false.
Proof. intros xs ev I. apply in_inits in I. destruct I as [ix [_ E]]. subst ev. reflexivity. Qed.
Lemma nofinish_starts : forall ph xs ev, In ev (starts ph xs) -> is_finish_ev ev = false.
Proof. intros ph xs ev I. apply in_starts in I. destruct I as [ix [_ E]]. subst ev. reflexivity. Qed.
Lemma nofinish_results : forall xs ev, In ev (results xs) -> is_finish_ev ev = false.
Proof. intros xs ev I. apply in_results in I. destruct I as [i [r [o [E|E]]]]; subst ev; reflexivity. Qed.

(* all finish events of a fins piece are judged alike *)
Lemma outcome_fins : forall c l ph n xs,
  outcome_ok c l (EFinish 0 ph n true) = true -> forallb (outcome_ok c l) (fins ph n xs) = true.
Proof.
  intros c l ph n xs H. apply forallb_forall. intros ev I. apply in_fins in I.
  destruct I as [ix [b [_ [_ E]]]]. subst ev. exact H.
Qed.

(* ---- failed start hooks of a top-level phase, per piece ---- *)

Definition top (ph : phase) : Prop := ph = PParse \/ ph = PValid \/ ph = PExec.

Lemma sf_inits : forall ph xs, count (start_failed ph) (inits xs) = 0.
Proof. intros. apply count_zero. intros ev I. apply in_inits in I. destruct I as [ix [_ E]]. subst ev. reflexivity. Qed.
Lemma sf_results : forall ph xs, count (start_failed ph) (results xs) = 0.
Proof. intros. apply count_zero. intros ev I. apply in_results in I. destruct I as [i [r [o [E|E]]]]; subst ev; reflexivity. Qed.
Lemma sf_fins : forall ph ph' n xs, count (start_failed ph) (fins ph' n xs) = 0.
Proof. intros. apply count_zero. intros ev I. apply in_fins in I. destruct I as [ix [b [_ [_ E]]]]. subst ev. reflexivity. Qed.
Lemma sf_starts_same : forall ph xs, count (start_failed ph) (starts ph xs) = start_errs ph xs.
Proof.
  intros ph. induction xs as [|[i x] r IH]; [reflexivity|].
  unfold starts in *. cbn [flat_map start_errs]. unfold start_ev at 1. cbn [fst snd app].
  rewrite count_cons, IH. destruct (start_beh ph x); cbn [sres_of start_failed]; rewrite ?phase_eqb_refl; reflexivity.
Qed.
Lemma sf_starts_other : forall ph ph' xs, phase_eqb ph' ph = false -> count (start_failed ph) (starts ph' xs) = 0.
Proof.
  intros ph ph' xs H. apply count_zero. intros ev I. apply in_starts in I. destruct I as [ix [_ E]]. subst ev.
  cbn. destruct (sres_of (start_beh ph' (snd ix))); try reflexivity. exact H.
Qed.
Lemma sf_fields : forall ph fs k xs, top ph -> count (start_failed ph) (fields_log k fs xs) = 0.
Proof.
  intros ph fs k xs T. apply count_zero. intros ev I. apply in_fields in I.
  destruct I as [i [j [[r E]|[n [o E]]]]]; subst ev; [|reflexivity].
  cbn. destruct r; try reflexivity. destruct T as [T|[T|T]]; subst ph; reflexivity.
Qed.
Lemma sf_body : forall ph c xs, top ph -> count (start_failed ph) (body_log c xs) = 0.
Proof. intros ph [| | | |mut roots] xs T; try reflexivity. apply sf_fields. exact T. Qed.

Lemma sf_block_same : forall ph n mid xs,
  count (start_failed ph) (block ph n mid xs) = start_errs ph xs + count (start_failed ph) mid.
Proof. intros. unfold block. rewrite !count_app, sf_starts_same, sf_fins. lia. Qed.
Lemma sf_block_other : forall ph ph' n mid xs, phase_eqb ph' ph = false ->
  count (start_failed ph) (block ph' n mid xs) = count (start_failed ph) mid.
Proof. intros ph ph' n mid xs H. unfold block. rewrite !count_app, sf_starts_other, sf_fins by exact H. lia. Qed.

(* ---- the prefix before the first execution finish ---- *)

Lemma bef_clean_app : forall A B, (forall ev, In ev A -> is_exec_finish ev = false) ->
  before_exec_finish (A ++ B) = A ++ before_exec_finish B.
Proof.
  induction A as [|a r IH]; intros B H; [reflexivity|].
  cbn [app before_exec_finish]. rewrite (H a (or_introl eq_refl)). f_equal. apply IH. intros ev I. apply H. right. exact I.
Qed.

Lemma bef_fins_exec : forall n xs R ev, In ev (fins PExec n xs) -> before_exec_finish (fins PExec n xs ++ R) = [].
Proof.
  intros n xs R ev I. destruct (fins PExec n xs) as [|a r] eqn:E; [contradiction|].
  assert (Ia : In a (fins PExec n xs)) by (rewrite E; left; reflexivity).
  apply in_fins in Ia. destruct Ia as [ix [b [_ [_ Ea]]]]. subst a. reflexivity.
Qed.

Lemma clean_inits : forall xs ev, In ev (inits xs) -> is_exec_finish ev = false.
Proof. intros xs ev I. apply in_inits in I. destruct I as [ix [_ E]]. subst ev. reflexivity. Qed.
Lemma clean_starts : forall ph xs ev, In ev (starts ph xs) -> is_exec_finish ev = false.
Proof. intros ph xs ev I. apply in_starts in I. destruct I as [ix [_ E]]. subst ev. reflexivity. Qed.
Lemma clean_block0 : forall ph n xs ev, ph = PParse \/ ph = PValid -> In ev (block ph n [] xs) -> is_exec_finish ev = false.
Proof.
  intros ph n xs ev Hph I. apply in_block0 in I. destruct I as [I|I]; [eapply clean_starts; exact I|].
  apply in_fins in I. destruct I as [ix [b [_ [_ E]]]]. subst ev. destruct Hph; subst ph; reflexivity.
Qed.
Lemma clean_body : forall c xs ev, In ev (body_log c xs) -> is_exec_finish ev = false.
Proof.
  intros [| | | |mut roots] xs ev I; cbn [body_log] in I; try contradiction.
  apply in_fields in I. destruct I as [i [j [[r E]|[n [o E]]]]]; subst ev; reflexivity.
Qed.

(* ---- failures before the execution finish ---- *)

Definition failure' (ev : event) : bool := is_failure ev && negb (nil_exec_start ev).

Lemma failure'_plain : forall l, (forall ev, In ev l -> nil_exec_start ev = false) ->
  count failure' l = count is_failure l.
Proof.
  intros l H. apply count_ext. intros ev I. unfold failure'. rewrite (H ev I). cbn. apply andb_true_r.
Qed.

Lemma nonil_inits : forall xs ev, In ev (inits xs) -> nil_exec_start ev = false.
Proof. intros xs ev I. apply in_inits in I. destruct I as [ix [_ E]]. subst ev. reflexivity. Qed.
Lemma nonil_block0 : forall ph n xs ev, ph = PParse \/ ph = PValid -> In ev (block ph n [] xs) -> nil_exec_start ev = false.
Proof.
  intros ph n xs ev Hph I. apply in_block0 in I. destruct I as [I|I].
  - apply in_starts in I. destruct I as [ix [_ E]]. subst ev. destruct Hph; subst ph; reflexivity.
  - apply in_fins in I. destruct I as [ix [b [_ [_ E]]]]. subst ev. reflexivity.
Qed.
Lemma nonil_body : forall c xs ev, In ev (body_log c xs) -> nil_exec_start ev = false.
Proof.
  intros [| | | |mut roots] xs ev I; cbn [body_log] in I; try contradiction.
  apply in_fields in I. destruct I as [i [j [[r E]|[n [o E]]]]]; subst ev; reflexivity.
Qed.

Lemma failure'_starts_exec : forall xs, count failure' (starts PExec xs) = start_errs PExec xs.
Proof.
  induction xs as [|[i x] r IH]; [reflexivity|].
  unfold starts in *. cbn [flat_map start_errs]. unfold start_ev at 1. cbn [fst snd app].
  rewrite count_cons, IH. cbn [start_beh]. destruct (x_exec x); reflexivity.
Qed.

(* the request's own errors + the failed hooks of the resolve phases = the errors of the result *)
Lemma fail_fields_eq : forall fs k xs,
  count is_failure (fields_log k fs xs) + N.of_nat (length (filter (fun st : step => rerrs (snd st)) fs)) =
  fields_errs k fs xs.
Proof.
  induction fs as [|fb r IH]; intros k xs; [reflexivity|].
  cbn [fields_log fields_errs filter]. rewrite count_app, fail_block, count_nil. specialize (IH (k + 1) xs).
  unfold rn. destruct (rerrs (snd fb)); cbn [length]; lia.
Qed.

Lemma fail_body_eq : forall c xs,
  count is_failure (body_log c xs) + class_errors c = body_errs c xs.
Proof.
  intros [| | | |mut roots] xs; cbn [body_log body_errs class_errors]; try (rewrite count_nil; reflexivity).
  pose proof (fail_fields_eq (sched (CExec mut roots)) 0 xs) as H. lia.
Qed.

(* ---- resolve: the k-th notification is about the k-th resolver call ---- *)

Lemma resolve_ok : forall c l pre fs xs,
  sched c = pre ++ fs ->
  forallb (outcome_ok c l) (fields_log (N.of_nat (length pre)) fs xs) = true.
Proof.
  intros c l pre fs. revert pre. induction fs as [|fb r IH]; intros pre xs E; [reflexivity|].
  cbn [fields_log]. apply forallb_app_true.
  - unfold block. cbn [app]. apply forallb_app_true.
    + apply forallb_forall. intros ev I. apply in_starts in I. destruct I as [ix [_ Ev]]. subst ev. reflexivity.
    + apply outcome_fins. cbn [outcome_ok]. rewrite Nat2N.id, E, nth_error_app2 by lia.
      rewrite PeanoNat.Nat.sub_diag. cbn [nth_error]. apply N.eqb_refl.
  - replace (N.of_nat (length pre) + 1) with (N.of_nat (length (pre ++ [fb]))) by (rewrite app_length; cbn [length]; lia).
    apply IH. rewrite <- app_assoc. exact E.
Qed.

Lemma body_ok : forall c l xs, forallb (outcome_ok c l) (body_log c xs) = true.
Proof.
  intros c l xs. destruct c as [| | | |mut roots]; try reflexivity. cbn [body_log].
  apply (resolve_ok (CExec mut roots) l [] (sched (CExec mut roots)) xs). reflexivity.
Qed.

(* ---- a log made of complete phase blocks: which blocks are present ---- *)

Inductive stage :=
| SP                                   (* initialisation and parse only *)
| SV (nv : N)                          (* ... and validation *)
| SE (nv : N) (ne : N) (ran : bool).   (* ... and execution; ran: the body ran and results were collected *)

Section Glog.
  Variable c : cls.
  Variable xs : list (N * ext).

  Definition mid_of (ran : bool) : list event := if ran then body_log c xs else [].
  Definition res_of (ran : bool) : list event := if ran then results xs else [].
  Definition glog (np : N) (st : stage) : list event :=
    inits xs ++ block PParse np [] xs ++
    match st with
    | SP => []
    | SV nv => block PValid nv [] xs
    | SE nv ne ran => block PValid nv [] xs ++ block PExec ne (mid_of ran) xs ++ res_of ran
    end.

  Definition is_syn : bool := match c with CSyntax => true | _ => false end.
  Definition vn : N := match c with CInvalid m => m + 1 | _ => 0 end.

  Definition parse_fits (np : N) : Prop :=
    Bool.eqb (0 <? np) (is_syn || nz (start_errs PParse xs)) = true.
  Definition valid_fits (nv : N) : Prop :=
    nv = if nz (start_errs PValid xs) then start_errs PValid xs else vn.
  Definition exec_fits (np nv ne : N) (ran : bool) : Prop :=
    ne = count failure' (inits xs) + count failure' (block PParse np [] xs)
         + count failure' (block PValid nv [] xs)
         + start_errs PExec xs + count is_failure (mid_of ran)
         + (if nz (start_errs PExec xs) then 0 else class_errors c).
  Definition stage_fits (np : N) (st : stage) : Prop :=
    parse_fits np /\
    match st with
    | SP => True
    | SV nv => valid_fits nv
    | SE nv ne ran => valid_fits nv /\ exec_fits np nv ne ran
    end.

  Lemma sf_mid : forall ph ran, top ph -> count (start_failed ph) (mid_of ran) = 0.
  Proof. intros ph [|] T; [apply sf_body; exact T | reflexivity]. Qed.
  Lemma sf_res : forall ph ran, count (start_failed ph) (res_of ran) = 0.
  Proof. intros ph [|]; [apply sf_results | reflexivity]. Qed.

  Ltac sf_count :=
    unfold glog; rewrite ?count_app;
    repeat rewrite sf_block_same;
    repeat (rewrite sf_block_other by reflexivity);
    rewrite ?sf_inits, ?sf_res, ?count_nil;
    repeat (rewrite sf_mid by (unfold top; auto)).

  Lemma glog_sf_parse : forall np st, count (start_failed PParse) (glog np st) = start_errs PParse xs.
  Proof. intros np [|nv|nv ne ran]; sf_count; lia. Qed.
  Lemma glog_sf_valid : forall np nv, count (start_failed PValid) (glog np (SV nv)) = start_errs PValid xs.
  Proof. intros np nv; sf_count; lia. Qed.
  Lemma glog_sf_valid_e : forall np nv ne ran, count (start_failed PValid) (glog np (SE nv ne ran)) = start_errs PValid xs.
  Proof. intros; sf_count; lia. Qed.
  Lemma glog_sf_exec : forall np nv ne ran, count (start_failed PExec) (glog np (SE nv ne ran)) = start_errs PExec xs.
  Proof. intros; sf_count; lia. Qed.

  Lemma parse_block_ok : forall np st l, l = glog np st -> parse_fits np ->
    forallb (outcome_ok c l) (block PParse np [] xs) = true.
  Proof.
    intros np st l El Hp. unfold block. cbn [app]. apply forallb_app_true.
    - apply outcome_nofinish. apply nofinish_starts.
    - apply outcome_fins. cbn [outcome_ok]. rewrite existsb_count, El, glog_sf_parse. exact Hp.
  Qed.

  Lemma valid_block_ok : forall nv l, count (start_failed PValid) l = start_errs PValid xs -> valid_fits nv ->
    forallb (outcome_ok c l) (block PValid nv [] xs) = true.
  Proof.
    intros nv l Hc Hv. unfold block. cbn [app]. apply forallb_app_true.
    - apply outcome_nofinish. apply nofinish_starts.
    - apply outcome_fins. cbn [outcome_ok]. rewrite existsb_count, Hc. unfold valid_fits, vn in Hv.
      destruct (nz (start_errs PValid xs)); subst nv; apply N.eqb_refl.
  Qed.

  Lemma mid_clean : forall ran ev, In ev (mid_of ran) -> is_exec_finish ev = false.
  Proof. intros [|] ev I; [eapply clean_body; exact I | contradiction]. Qed.
  Lemma mid_nonil : forall ran ev, In ev (mid_of ran) -> nil_exec_start ev = false.
  Proof. intros [|] ev I; [eapply nonil_body; exact I | contradiction]. Qed.

  Lemma exec_block_ok : forall np nv ne ran l, l = glog np (SE nv ne ran) -> exec_fits np nv ne ran ->
    forallb (outcome_ok c l) (block PExec ne (mid_of ran) xs) = true.
  Proof.
    intros np nv ne ran l El He. unfold block. apply forallb_app_true; [|apply forallb_app_true].
    - apply outcome_nofinish. apply nofinish_starts.
    - destruct ran; [apply body_ok | reflexivity].
    - apply forallb_forall. intros ev I. pose proof I as I'. apply in_fins in I'.
      destruct I' as [ix [b [_ [_ E]]]]. subst ev. cbn [outcome_ok].
      rewrite existsb_count. rewrite El at 2. rewrite glog_sf_exec.
      assert (B : before_exec_finish l =
                  inits xs ++ block PParse np [] xs ++ block PValid nv [] xs ++ starts PExec xs ++ mid_of ran).
      { rewrite El. unfold glog.
        rewrite bef_clean_app by apply clean_inits. f_equal.
        rewrite bef_clean_app by (intros ev0 I0; eapply clean_block0; [|exact I0]; auto). f_equal.
        rewrite bef_clean_app by (intros ev0 I0; eapply clean_block0; [|exact I0]; auto). f_equal.
        unfold block. rewrite <- !app_assoc.
        rewrite bef_clean_app by apply clean_starts. f_equal.
        rewrite bef_clean_app by apply mid_clean.
        rewrite (bef_fins_exec ne xs (res_of ran) _ I). rewrite app_nil_r. reflexivity. }
      rewrite B. fold failure'. rewrite !count_app, failure'_starts_exec.
      rewrite (failure'_plain (mid_of ran)) by apply mid_nonil.
      unfold exec_fits in He. apply N.eqb_eq. lia.
  Qed.

  Theorem glog_outcomes : forall np st, stage_fits np st -> outcomesb c (glog np st) = true.
  Proof.
    intros np st [Hp Hs]. unfold outcomesb.
    remember (glog np st) as l eqn:El.
    assert (HI : forallb (outcome_ok c l) (inits xs) = true) by (apply outcome_nofinish; apply nofinish_inits).
    assert (HP : forallb (outcome_ok c l) (block PParse np [] xs) = true) by (eapply parse_block_ok; eassumption).
    rewrite El at 2. unfold glog. apply forallb_app_true; [exact HI|]. apply forallb_app_true; [exact HP|].
    destruct st as [|nv|nv ne ran].
    - reflexivity.
    - apply valid_block_ok; [rewrite El; apply glog_sf_valid | exact Hs].
    - destruct Hs as [Hv He]. apply forallb_app_true; [|apply forallb_app_true].
      + apply valid_block_ok; [rewrite El; apply glog_sf_valid_e | exact Hv].
      + eapply exec_block_ok; eassumption.
      + destruct ran; [|reflexivity]. apply outcome_nofinish. apply nofinish_results.
  Qed.
End Glog.

(* ---- the model's log is such a log, and its outcome sizes fit ---- *)

Lemma quiet_prefix : forall xs,
  init_errs xs = 0 -> start_errs PParse xs = 0 -> fin_errs PParse xs = 0 ->
  start_errs PValid xs = 0 -> fin_errs PValid xs = 0 ->
  count failure' (inits xs) + count failure' (block PParse 0 [] xs) + count failure' (block PValid 0 [] xs) = 0.
Proof.
  intros xs E0 E1 E2 E3 E4.
  rewrite (failure'_plain (inits xs)) by apply nonil_inits.
  rewrite (failure'_plain (block PParse 0 [] xs)) by (intros ev I; eapply nonil_block0; [|exact I]; auto).
  rewrite (failure'_plain (block PValid 0 [] xs)) by (intros ev I; eapply nonil_block0; [|exact I]; auto).
  rewrite fail_inits, !fail_block, count_nil. lia.
Qed.

Lemma shape_outcomes : forall c xs, outcomesb c (shape (flags_of c xs) c xs) = true.
Proof.
  intros c xs. unfold shape, parse_part, valid_part, exec_part.
  cbn [flags_of f_init f_ps f_pf f_vs f_vsn f_vf f_es f_esn f_eb].
  destruct (nz (init_errs xs)) eqn:E0.
  { rewrite app_nil_r. unfold outcomesb. apply outcome_nofinish. apply nofinish_inits. }
  apply nz_false in E0.
  destruct (nz (start_errs PParse xs)) eqn:E1.
  { change (inits xs ++ block PParse 1 [] xs) with (inits xs ++ block PParse 1 [] xs).
    replace (inits xs ++ block PParse 1 [] xs) with (glog c xs 1 SP) by (unfold glog; rewrite app_nil_r; reflexivity).
    apply glog_outcomes. split; [|exact I]. unfold parse_fits. rewrite E1, orb_true_r. reflexivity. }
  pose proof E1 as E1n. apply nz_false in E1.
  (* everything after a successful parse start, for a class that is not a syntax error *)
  assert (HR : is_syn c = false ->
    outcomesb c (inits xs ++ block PParse 0 [] xs ++
      (if nz (fin_errs PParse xs) then [] else
       if nz (start_errs PValid xs) then block PValid (start_errs PValid xs) [] xs else
       match c with
       | CInvalid m => block PValid (m + 1) [] xs
       | _ => block PValid 0 [] xs ++
          (if nz (fin_errs PValid xs) then [] else match c with COpErr => [] | _ =>
             if nz (start_errs PExec xs) then block PExec (start_errs PExec xs) [] xs
             else block PExec (body_errs c xs) (body_log c xs) xs ++ results xs end)
       end)) = true).
  { intros NS.
    assert (PF : parse_fits c xs 0) by (unfold parse_fits; rewrite NS, E1n; reflexivity).
    destruct (nz (fin_errs PParse xs)) eqn:E2.
    { replace (inits xs ++ block PParse 0 [] xs ++ []) with (glog c xs 0 SP) by reflexivity.
      apply glog_outcomes. split; [exact PF | exact I]. }
    apply nz_false in E2.
    destruct (nz (start_errs PValid xs)) eqn:E3.
    { replace (inits xs ++ block PParse 0 [] xs ++ block PValid (start_errs PValid xs) [] xs)
        with (glog c xs 0 (SV (start_errs PValid xs))) by reflexivity.
      apply glog_outcomes. split; [exact PF|]. unfold valid_fits. rewrite E3. reflexivity. }
    pose proof E3 as E3n. apply nz_false in E3.
    (* validation ran: classes that are not validation errors *)
    assert (HV : vn c = 0 ->
      outcomesb c (inits xs ++ block PParse 0 [] xs ++ block PValid 0 [] xs ++
          (if nz (fin_errs PValid xs) then [] else match c with COpErr => [] | _ =>
             if nz (start_errs PExec xs) then block PExec (start_errs PExec xs) [] xs
             else block PExec (body_errs c xs) (body_log c xs) xs ++ results xs end)) = true).
    { intros V0.
      assert (VF : valid_fits c xs 0) by (unfold valid_fits; rewrite E3n, V0; reflexivity).
      destruct (nz (fin_errs PValid xs)) eqn:E4.
      { replace (inits xs ++ block PParse 0 [] xs ++ block PValid 0 [] xs ++ [])
          with (glog c xs 0 (SV 0)) by (unfold glog; rewrite app_nil_r; reflexivity).
        apply glog_outcomes. split; [exact PF | exact VF]. }
      apply nz_false in E4.
      assert (HE : outcomesb c (inits xs ++ block PParse 0 [] xs ++ block PValid 0 [] xs ++
             (if nz (start_errs PExec xs) then block PExec (start_errs PExec xs) [] xs
              else block PExec (body_errs c xs) (body_log c xs) xs ++ results xs)) = true).
      { pose proof (quiet_prefix xs E0 E1 E2 E3 E4) as QP.
        destruct (nz (start_errs PExec xs)) eqn:E5.
        - replace (inits xs ++ block PParse 0 [] xs ++ block PValid 0 [] xs ++ block PExec (start_errs PExec xs) [] xs)
            with (glog c xs 0 (SE 0 (start_errs PExec xs) false))
            by (unfold glog, mid_of, res_of; rewrite app_nil_r; reflexivity).
          apply glog_outcomes. split; [exact PF|]. split; [exact VF|].
          unfold exec_fits, mid_of. rewrite E5, count_nil. lia.
        - replace (inits xs ++ block PParse 0 [] xs ++ block PValid 0 [] xs ++
                     block PExec (body_errs c xs) (body_log c xs) xs ++ results xs)
            with (glog c xs 0 (SE 0 (body_errs c xs) true)) by reflexivity.
          apply glog_outcomes. split; [exact PF|]. split; [exact VF|].
          unfold exec_fits, mid_of. rewrite E5. apply nz_false in E5.
          pose proof (fail_body_eq c xs). lia. }
      destruct c; try exact HE.
      replace (inits xs ++ block PParse 0 [] xs ++ block PValid 0 [] xs ++ [])
        with (glog COpErr xs 0 (SV 0)) by (unfold glog; rewrite app_nil_r; reflexivity).
      apply glog_outcomes. split; [exact PF | exact VF]. }
    destruct c; try (apply HV; reflexivity).
    replace (inits xs ++ block PParse 0 [] xs ++ block PValid (m + 1) [] xs)
      with (glog (CInvalid m) xs 0 (SV (m + 1))) by reflexivity.
    apply glog_outcomes. split; [exact PF|]. unfold valid_fits. rewrite E3n. reflexivity. }
  destruct c; try (apply HR; reflexivity).
  replace (inits xs ++ block PParse 1 [] xs) with (glog CSyntax xs 1 SP) by (unfold glog; rewrite app_nil_r; reflexivity).
  apply glog_outcomes. split; [|exact I]. reflexivity.
Qed.

Theorem model_outcomes : forall c exts, outcomesb c (result_log (do_model c exts)) = true.
Proof.
  intros c exts. rewrite result_log_eq. destruct (do_m_log c (index_from 0 exts)) as [HL _]. rewrite HL.
  apply shape_outcomes.
Qed.
