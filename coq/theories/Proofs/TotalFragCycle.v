(* C09: the fragment-cycle check of Total/FragCycle.v is sound: whenever it
   accepts a document, the rank table it computed is a rank in the sense of
   [rank_respected] (no spread increases it, every spread below a field
   strictly decreases it), and its values are bounded by [max_rank]. *)
From Coq Require Import List ListDec Arith NArith String Bool Lia.
From GQL Require Import Exec.Syntax Total.FragCycle.
Import ListNotations.
Open Scope string_scope.
Open Scope list_scope.

(* ---- a. / b. the edge-by-edge check decides [rank_respected] ---- *)
Lemma rank_ok_sound : forall D rk, rank_ok D rk = true -> rank_respected D rk.
Proof.
  intros D rk Hok f e Hf He.
  unfold rank_ok in Hok.
  rewrite forallb_forall in Hok.
  specialize (Hok f Hf).
  rewrite forallb_forall in Hok.
  specialize (Hok e He).
  apply Nat.leb_le in Hok. exact Hok.
Qed.

Lemma rank_ok_complete : forall D rk, rank_respected D rk -> rank_ok D rk = true.
Proof.
  intros D rk Hr.
  unfold rank_ok.
  apply forallb_forall. intros f Hf.
  apply forallb_forall. intros e He.
  apply Nat.leb_le. apply Hr; assumption.
Qed.

Lemma rank_ok_iff : forall D rk, rank_ok D rk = true <-> rank_respected D rk.
Proof. intros D rk; split; [apply rank_ok_sound | apply rank_ok_complete]. Qed.

(* ---- c. soundness of the check ---- *)
Lemma cycle_check_rank :
  forall D, fragment_cycle_through_field D = false ->
            rank_respected D (rk_of (rank_candidate D)).
Proof.
  intros D H. unfold fragment_cycle_through_field in H.
  apply negb_false_iff in H. apply rank_ok_sound; exact H.
Qed.

Lemma cycle_check_sound : forall D, fragment_cycle_through_field D = false -> has_rank D.
Proof.
  intros D H. exists (rk_of (rank_candidate D)). apply cycle_check_rank; exact H.
Qed.

(* ---- d. the candidate is bounded ---- *)
Lemma alookup_map_keys :
  forall (A B : Type) (g : name -> B) (a : name) (t : list (name * A)),
    alookup a (map (fun kv => (fst kv, g (fst kv))) t)
    = match alookup a t with Some _ => Some (g a) | None => None end.
Proof.
  intros A B g a t. induction t as [|[k v] r IH]; simpl.
  - reflexivity.
  - destruct (String.eqb a k) eqn:E.
    + apply String.eqb_eq in E. subst k. reflexivity.
    + exact IH.
Qed.

Lemma rk_of_relax :
  forall D t a,
    rk_of (relax D t) a = match alookup a t with Some _ => relax1 D t a | None => 0 end.
Proof.
  intros D t a. unfold rk_of, relax.
  rewrite (alookup_map_keys nat nat (relax1 D t) a t).
  destruct (alookup a t); reflexivity.
Qed.

Lemma relax1_le :
  forall D t m a, (forall b, rk_of t b <= m) -> relax1 D t a <= m + 1.
Proof.
  intros D t m a Hb. unfold relax1.
  induction (succs D a) as [|e r IH]; simpl.
  - lia.
  - assert (He : rk_of t (fst e) + edge_weight e <= m + 1).
    { specialize (Hb (fst e)). unfold edge_weight. destruct (snd e); lia. }
    apply Nat.max_lub; [exact IH | exact He].
Qed.

Lemma relax_le :
  forall D t m, (forall b, rk_of t b <= m) -> forall a, rk_of (relax D t) a <= m + 1.
Proof.
  intros D t m Hb a. rewrite rk_of_relax.
  destruct (alookup a t).
  - apply relax1_le; exact Hb.
  - lia.
Qed.

Lemma iter_relax_le :
  forall n D t m, (forall a, rk_of t a <= m) -> forall a, rk_of (iter_relax n D t) a <= m + n.
Proof.
  induction n as [|n IH]; intros D t m Hb a; simpl.
  - specialize (Hb a). lia.
  - specialize (IH D (relax D t) (m + 1) (relax_le D t m Hb) a). lia.
Qed.

Lemma rk_of_init :
  forall (fs : list fragment) a, rk_of (map (fun f => (fr_name f, 0)) fs) a = 0.
Proof.
  intros fs a. unfold rk_of. induction fs as [|f r IH]; simpl.
  - reflexivity.
  - destruct (String.eqb a (fr_name f)); [reflexivity | exact IH].
Qed.

Lemma rank_candidate_bounded : forall D a, rk_of (rank_candidate D) a <= max_rank D.
Proof.
  intros D a. unfold rank_candidate, max_rank.
  pose proof (iter_relax_le (S (List.length (d_frags D))) D
                            (map (fun f => (fr_name f, 0)) (d_frags D)) 0) as H.
  specialize (H (fun b => Nat.eq_le_incl _ _ (rk_of_init (d_frags D) b)) a).
  simpl in H. simpl. lia.
Qed.

(* what the termination proof of the planner's recursion needs *)
Theorem cycle_check_bounded_rank :
  forall D, fragment_cycle_through_field D = false ->
            exists rk, rank_respected D rk /\ forall a, rk a <= max_rank D.
Proof.
  intros D H. exists (rk_of (rank_candidate D)). split.
  - apply cycle_check_rank; exact H.
  - apply rank_candidate_bounded.
Qed.

(* ---- e. examples ---- *)
Definition fld (nm : name) (sub : list selection) : selection := SField 0%N None nm [] [] sub.
Definition spr (nm : name) : selection := SSpread 0%N nm [].
Definition frag (nm : name) (sel : list selection) : fragment :=
  {| fr_name := nm; fr_cond := "Q"; fr_sel := sel |}.
Definition doc (sel : list selection) (fs : list fragment) : document :=
  {| d_ops := [{| o_kind := OpQuery; o_name := None; o_vars := []; o_sel := sel |}];
     d_frags := fs |}.

(* { ...F } fragment F on Q { x { ...F } } *)
Example reject_self_through_field :
  fragment_cycle_through_field (doc [spr "F"] [frag "F" [fld "x" [spr "F"]]]) = true.
Proof. vm_compute. reflexivity. Qed.

(* F: { x { ...G } }  G: { ...F } *)
Example reject_two_through_field :
  fragment_cycle_through_field
    (doc [spr "F"] [frag "F" [fld "x" [spr "G"]]; frag "G" [spr "F"]]) = true.
Proof. vm_compute. reflexivity. Qed.

(* the cycle is found through an inline fragment as well *)
Example reject_through_inline :
  fragment_cycle_through_field
    (doc [spr "F"] [frag "F" [SInline 0%N (Some "Q") [] [fld "x" [SInline 0%N None [] [spr "F"]]]]]) = true.
Proof. vm_compute. reflexivity. Qed.

(* F: { ...F x } : a cycle on one level *)
Example accept_same_level_self :
  fragment_cycle_through_field (doc [spr "F"] [frag "F" [spr "F"; fld "x" []]]) = false.
Proof. vm_compute. reflexivity. Qed.

(* F: { ...G }  G: { ...F y } *)
Example accept_same_level_two :
  fragment_cycle_through_field
    (doc [spr "F"] [frag "F" [spr "G"]; frag "G" [spr "F"; fld "y" []]]) = false.
Proof. vm_compute. reflexivity. Qed.

(* F: { x { ...G } }  G: { y } *)
Example accept_acyclic :
  fragment_cycle_through_field
    (doc [spr "F"] [frag "F" [fld "x" [spr "G"]]; frag "G" [fld "y" []]]) = false.
Proof. vm_compute. reflexivity. Qed.

(* a chain as long as the table: the candidate needs all its rounds *)
Example accept_chain :
  fragment_cycle_through_field
    (doc [spr "A"] [frag "C" [fld "z" []]; frag "B" [fld "y" [spr "C"]]; frag "A" [fld "x" [spr "B"]]]) = false.
Proof. vm_compute. reflexivity. Qed.

(* ---- f. completeness: a document that has a rank is accepted ---- *)
(* The relaxation computes, after k rounds, the largest weight of a walk of at
   most k spread edges; when a rank exists every cycle weighs 0, so the largest
   weights are reached by walks without repeated fragments, which have at most
   |fragments| edges. *)

Lemma succs_in :
  forall D a e,
    In e (succs D a) <-> exists f, In f (d_frags D) /\ fr_name f = a /\ In e (frag_edges f).
Proof.
  intros D a e. unfold succs. rewrite in_flat_map. split.
  - intros [f [Hf He]]. exists f. destruct (String.eqb (fr_name f) a) eqn:E.
    + apply String.eqb_eq in E. auto.
    + contradiction.
  - intros [f [Hf [Hn He]]]. exists f. split; [exact Hf|].
    rewrite Hn, String.eqb_refl. exact He.
Qed.

Definition weight (p : list (name * bool)) : nat := list_sum (map edge_weight p).

Fixpoint endof (a : name) (p : list (name * bool)) : name :=
  match p with
  | [] => a
  | e :: r => endof (fst e) r
  end.

Lemma weight_app : forall p q, weight (p ++ q) = weight p + weight q.
Proof. intros p q. unfold weight. rewrite map_app, list_sum_app. reflexivity. Qed.

Lemma endof_app : forall p q a, endof a (p ++ q) = endof (endof a p) q.
Proof. induction p as [|e r IH]; intros q a; simpl; [reflexivity | apply IH]. Qed.

Lemma loop_cut :
  forall p a x, In x (map fst p) ->
                exists q1 q2, p = q1 ++ q2 /\ q1 <> [] /\ endof a q1 = x.
Proof.
  induction p as [|e r IH]; intros a x Hin; simpl in Hin.
  - contradiction.
  - destruct Hin as [Heq | Hin].
    + exists [e], r. simpl. split; [reflexivity|]. split; [discriminate | exact Heq].
    + destruct (IH (fst e) x Hin) as [q1 [q2 [E [Hne He]]]].
      exists (e :: q1), q2. simpl. split; [rewrite E; reflexivity|].
      split; [discriminate | exact He].
Qed.

Lemma fold_max_ge :
  forall (A : Type) (g : A -> nat) (l : list A) (e : A),
    In e l -> g e <= fold_right (fun e m => Nat.max m (g e)) 0 l.
Proof.
  intros A g l e. induction l as [|x r IH]; simpl; intros Hin.
  - contradiction.
  - destruct Hin as [Heq | Hin].
    + subst x. lia.
    + specialize (IH Hin). lia.
Qed.

Lemma fold_max_achieved :
  forall (A : Type) (g : A -> nat) (l : list A),
    fold_right (fun e m => Nat.max m (g e)) 0 l = 0
    \/ exists e, In e l /\ fold_right (fun e m => Nat.max m (g e)) 0 l = g e.
Proof.
  intros A g l. induction l as [|x r IH]; simpl.
  - left; reflexivity.
  - destruct (Nat.max_spec (fold_right (fun e m => Nat.max m (g e)) 0 r) (g x)) as [[_ Hm] | [_ Hm]].
    + right. exists x. split; [left; reflexivity | exact Hm].
    + rewrite Hm. destruct IH as [IH | [e [He IH]]].
      * left; exact IH.
      * right. exists e. split; [right; exact He | exact IH].
Qed.

Lemma alookup_some_in :
  forall (A : Type) (a : name) (t : list (name * A)),
    In a (map fst t) -> exists v, alookup a t = Some v.
Proof.
  intros A a t. induction t as [|[k v] r IH]; simpl; intros Hin.
  - contradiction.
  - destruct (String.eqb a k) eqn:E.
    + exists v; reflexivity.
    + destruct Hin as [Heq | Hin].
      * subst k. rewrite String.eqb_refl in E. discriminate.
      * apply IH; exact Hin.
Qed.

Lemma relax_keys : forall D t, map fst (relax D t) = map fst t.
Proof.
  intros D t. unfold relax. rewrite map_map. apply map_ext. intros kv. reflexivity.
Qed.

Lemma iter_relax_keys : forall n D t, map fst (iter_relax n D t) = map fst t.
Proof.
  induction n as [|n IH]; intros D t; simpl.
  - reflexivity.
  - rewrite IH. apply relax_keys.
Qed.

Lemma iter_relax_succ : forall n D t, iter_relax (S n) D t = relax D (iter_relax n D t).
Proof.
  induction n as [|n IH]; intros D t.
  - reflexivity.
  - change (iter_relax (S (S n)) D t) with (iter_relax (S n) D (relax D t)).
    rewrite IH. reflexivity.
Qed.

Section Complete.
  Variable D : document.

  Fixpoint is_walk (a : name) (p : list (name * bool)) : Prop :=
    match p with
    | [] => True
    | e :: r => In e (succs D a) /\ is_walk (fst e) r
    end.

  Lemma is_walk_app :
    forall p q a, is_walk a (p ++ q) -> is_walk a p /\ is_walk (endof a p) q.
  Proof.
    induction p as [|e r IH]; intros q a Hw; simpl in *.
    - split; [exact I | exact Hw].
    - destruct Hw as [He Hw]. destruct (IH q (fst e) Hw) as [H1 H2].
      split; [split; assumption | exact H2].
  Qed.

  Definition t0 : rank_table := map (fun f => (fr_name f, 0)) (d_frags D).
  Definition r_at (k : nat) (a : name) : nat := rk_of (iter_relax k D t0) a.

  Lemma t0_keys : map fst t0 = map fr_name (d_frags D).
  Proof. unfold t0. rewrite map_map. reflexivity. Qed.

  Lemma succs_defined : forall a e, In e (succs D a) -> In a (map fr_name (d_frags D)).
  Proof.
    intros a e He. apply succs_in in He. destruct He as [f [Hf [Hn _]]].
    rewrite <- Hn. apply in_map; exact Hf.
  Qed.

  Lemma r_at_succ :
    forall k a, r_at (S k) a =
                match alookup a (iter_relax k D t0) with
                | Some _ => relax1 D (iter_relax k D t0) a
                | None => 0
                end.
  Proof. intros k a. unfold r_at. rewrite iter_relax_succ. apply rk_of_relax. Qed.

  (* the table after k rounds dominates the walks of at most k edges *)
  Lemma walk_le_table :
    forall k p a, is_walk a p -> List.length p <= k -> weight p <= r_at k a.
  Proof.
    induction k as [|k IH]; intros p a Hw Hlen.
    - destruct p; simpl in Hlen; [unfold weight; simpl; lia | lia].
    - destruct p as [|e r]; [unfold weight; simpl; lia|].
      simpl in Hw, Hlen. destruct Hw as [He Hw].
      rewrite r_at_succ.
      assert (Hdef : In a (map fst (iter_relax k D t0))).
      { rewrite iter_relax_keys, t0_keys. apply (succs_defined a e He). }
      destruct (alookup_some_in nat a _ Hdef) as [v Hv]. rewrite Hv.
      pose proof (fold_max_ge _ (fun e => rk_of (iter_relax k D t0) (fst e) + edge_weight e)
                              (succs D a) e He) as Hge.
      unfold relax1.
      assert (IHr : weight r <= r_at k (fst e)) by (apply IH; [exact Hw | lia]).
      unfold r_at in IHr. unfold weight in *. simpl. simpl in Hge. lia.
  Qed.

  (* and is reached by one of them *)
  Lemma table_is_walk :
    forall k a, exists p, is_walk a p /\ List.length p <= k /\ weight p = r_at k a.
  Proof.
    induction k as [|k IH]; intros a.
    - exists []. simpl. split; [exact I|]. split; [lia|].
      unfold r_at, weight. simpl. symmetry. apply rk_of_init.
    - rewrite r_at_succ. destruct (alookup a (iter_relax k D t0)).
      + unfold relax1.
        destruct (fold_max_achieved _ (fun e => rk_of (iter_relax k D t0) (fst e) + edge_weight e)
                                    (succs D a)) as [H0 | [e [He Hm]]].
        * exists []. simpl. split; [exact I|]. split; [lia|]. unfold weight. simpl.
          symmetry. exact H0.
        * destruct (IH (fst e)) as [p [Hw [Hlen Hwt]]].
          exists (e :: p). simpl. split; [split; assumption|]. split; [lia|].
          rewrite Hm. unfold r_at in Hwt. unfold weight in *. simpl. lia.
      + exists []. simpl. split; [exact I|]. split; [lia | reflexivity].
  Qed.

  Variable rk : name -> nat.
  Hypothesis Hrk : rank_respected D rk.

  Lemma walk_rank : forall p a, is_walk a p -> rk (endof a p) + weight p <= rk a.
  Proof.
    induction p as [|e r IH]; intros a Hw; simpl in *.
    - unfold weight. simpl. lia.
    - destruct Hw as [He Hw]. specialize (IH (fst e) Hw).
      apply succs_in in He. destruct He as [f [Hf [Hn He]]].
      pose proof (Hrk f e Hf He) as Hr. rewrite Hn in Hr.
      unfold weight in *. simpl. lia.
  Qed.

  (* a walk that repeats a fragment can be shortened without losing weight *)
  Lemma dup_loop :
    forall p a, is_walk a p -> ~ NoDup (a :: map fst p) ->
                exists p', is_walk a p' /\ endof a p' = endof a p /\ weight p' = weight p
                           /\ List.length p' < List.length p.
  Proof.
    induction p as [|e r IH]; intros a Hw Hnd.
    - exfalso. apply Hnd. constructor; [intros [] | constructor].
    - destruct (in_dec string_dec a (map fst (e :: r))) as [Hin | Hnin].
      + destruct (loop_cut (e :: r) a a Hin) as [q1 [q2 [E [Hne Hend]]]].
        rewrite E in Hw. destruct (is_walk_app q1 q2 a Hw) as [Hw1 Hw2].
        rewrite Hend in Hw2.
        pose proof (walk_rank q1 a Hw1) as Hr. rewrite Hend in Hr.
        exists q2. split; [exact Hw2|]. split.
        * rewrite E, endof_app, Hend. reflexivity.
        * split.
          -- rewrite E, weight_app. lia.
          -- rewrite E, app_length. destruct q1; [congruence | simpl; lia].
      + simpl in Hw. destruct Hw as [He Hw].
        assert (Hnd' : ~ NoDup (fst e :: map fst r)).
        { intros Hn. apply Hnd. constructor; [exact Hnin | exact Hn]. }
        destruct (IH (fst e) Hw Hnd') as [r' [Hw' [Hend [Hwt Hlen]]]].
        exists (e :: r'). simpl. split; [split; assumption|]. split; [exact Hend|].
        split; [| lia]. unfold weight in *. simpl. lia.
  Qed.

  Lemma walk_simple :
    forall k p a, List.length p <= k -> is_walk a p ->
                  exists p', is_walk a p' /\ endof a p' = endof a p /\ weight p' = weight p
                             /\ NoDup (a :: map fst p').
  Proof.
    induction k as [|k IH]; intros p a Hlen Hw.
    - destruct p; [| simpl in Hlen; lia].
      exists []. simpl. repeat split; try reflexivity.
      constructor; [intros [] | constructor].
    - destruct (NoDup_dec string_dec (a :: map fst p)) as [Hn | Hn].
      + exists p. repeat split; try assumption; reflexivity.
      + destruct (dup_loop p a Hw Hn) as [p1 [Hw1 [He1 [Hwt1 Hl1]]]].
        destruct (IH p1 a) as [p2 [Hw2 [He2 [Hwt2 Hn2]]]]; [lia | exact Hw1 |].
        exists p2. split; [exact Hw2|]. split; [congruence|]. split; [congruence | exact Hn2].
  Qed.

  Lemma walk_nodes :
    forall p a x, is_walk a p -> In x (a :: map fst p) ->
                  In x (endof a p :: map fr_name (d_frags D)).
  Proof.
    induction p as [|e r IH]; intros a x Hw Hin.
    - simpl in *. destruct Hin as [Heq | []]. left; exact Heq.
    - simpl in Hw. destruct Hw as [He Hw]. destruct Hin as [Heq | Hin].
      + subst x. right. apply (succs_defined a e He).
      + simpl. apply (IH (fst e) x Hw). exact Hin.
  Qed.

  Lemma walk_short :
    forall p a, is_walk a p ->
                exists p', is_walk a p' /\ weight p' = weight p
                           /\ List.length p' <= List.length (d_frags D).
  Proof.
    intros p a Hw.
    destruct (walk_simple (List.length p) p a (le_n _) Hw) as [p' [Hw' [_ [Hwt Hn]]]].
    exists p'. split; [exact Hw'|]. split; [exact Hwt|].
    assert (Hincl : incl (a :: map fst p') (endof a p' :: map fr_name (d_frags D))).
    { intros x Hx. apply walk_nodes; assumption. }
    pose proof (NoDup_incl_length Hn Hincl) as Hlen.
    simpl in Hlen. rewrite !map_length in Hlen. lia.
  Qed.

  Lemma candidate_respected : rank_respected D (rk_of (rank_candidate D)).
  Proof.
    intros f e Hf He.
    change (rk_of (rank_candidate D)) with (r_at (S (List.length (d_frags D)))).
    destruct (table_is_walk (S (List.length (d_frags D))) (fst e)) as [p [Hw [_ Hwt]]].
    assert (Hw' : is_walk (fr_name f) (e :: p)).
    { simpl. split; [| exact Hw]. apply succs_in. exists f. auto. }
    destruct (walk_short (e :: p) (fr_name f) Hw') as [p' [Hw2 [Hwt2 Hlen2]]].
    pose proof (walk_le_table (S (List.length (d_frags D))) p' (fr_name f) Hw2) as Hle.
    assert (Hl : List.length p' <= S (List.length (d_frags D))) by lia.
    specialize (Hle Hl).
    unfold weight in *. simpl in Hwt2. lia.
  Qed.
End Complete.

Theorem cycle_check_complete :
  forall D, has_rank D -> fragment_cycle_through_field D = false.
Proof.
  intros D [rk Hrk]. unfold fragment_cycle_through_field.
  apply negb_false_iff. apply rank_ok_complete. apply (candidate_respected D rk Hrk).
Qed.

Theorem cycle_check_iff :
  forall D, fragment_cycle_through_field D = false <-> has_rank D.
Proof. intros D. split; [apply cycle_check_sound | apply cycle_check_complete]. Qed.
