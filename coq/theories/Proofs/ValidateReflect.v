(* The unmemoised executable conflict finder reflects into the declarative decomposition:
   if [run_overlap S D false fuel] completes within its fuel (no out-of-fuel flag) and
   reports nothing, then every check of the A-J decomposition passes on every selection
   set of the document (L2_accepts, with the symmetric two-field test and all ordered pairs).
   Part 1: every call of the executable that completes silently establishes the matching
   Prop-level predicate of Validate/OverlapSpec.v.
   Part 2: the code compares every unordered pair once and never a field with itself, and
   visits nested selection sets under the parent type TypeInfo computes; the Prop-level
   [within] ranges over all ordered pairs and uses the rule's own parent type -- closed by
   symmetry, by the diagonal (a field against itself = its sub-selection checked on its
   own) and by a congruence in the parent type. *)
From Coq Require Import List Arith Lia Bool String NArith.
From GQL Require Import Exec.Syntax Validate.Overlap Validate.OverlapSpec
     Proofs.ValidateOverlap Proofs.ValidateMemo Proofs.ValidateCost Proofs.ValidateMemoHard
     Proofs.ValidateArgs Proofs.ValidateL1.
Import ListNotations.
Open Scope string_scope.
Open Scope list_scope.

(* ---- seq ---- *)
Lemma seq_acc : forall {A} (step : A -> mst -> list N * mst) l c st,
  fold_left (fun acc x => let '(cs, st') := step x (snd acc) in (fst acc ++ cs, st')) l (c, st) =
  let r := seq step l st in (c ++ fst r, snd r).
Proof.
  intros A step l. unfold seq. induction l as [|x r IH]; intros c st; simpl.
  - rewrite app_nil_r. reflexivity.
  - destruct (step x st) as [cs st'] eqn:E. simpl.
    rewrite (IH (c ++ cs) st'), (IH cs st'). simpl. rewrite app_assoc. reflexivity.
Qed.

Lemma seq_cons : forall {A} (step : A -> mst -> list N * mst) x r st,
  seq step (x :: r) st =
  (fst (step x st) ++ fst (seq step r (snd (step x st))), snd (seq step r (snd (step x st)))).
Proof.
  intros A step x r st. unfold seq at 1. simpl.
  destruct (step x st) as [cs st'] eqn:E. simpl. rewrite seq_acc. reflexivity.
Qed.

Lemma seq_nil_l : forall {A} (step : A -> mst -> list N * mst) st, seq step [] st = ([], st).
Proof. reflexivity. Qed.

Definition clean (r : list N * mst) : Prop := fst r = [] /\ m_oof (snd r) = false.

Lemma clean_eq : forall (r : list N * mst) st, r = ([], st) -> m_oof st = false -> clean r.
Proof. intros r st E Ho. subst r. split; [reflexivity | exact Ho]. Qed.

Lemma seq_oof_mono : forall {A} (step : A -> mst -> list N * mst) l,
  (forall x st, m_oof st = true -> m_oof (snd (step x st)) = true) ->
  forall st, m_oof st = true -> m_oof (snd (seq step l st)) = true.
Proof.
  intros A step l H. induction l as [|x r IH]; intros st Ho; [exact Ho|].
  rewrite seq_cons. simpl. apply IH. apply H. exact Ho.
Qed.

Lemma seq_clean : forall {A} (step : A -> mst -> list N * mst) (P : A -> Prop) l,
  (forall x st, m_oof st = true -> m_oof (snd (step x st)) = true) ->
  (forall x st, In x l -> clean (step x st) -> P x) ->
  forall st, clean (seq step l st) -> forall x, In x l -> P x.
Proof.
  intros A step P l Hm. induction l as [|y r IH]; intros HP st [Hc Ho] x Hx; [destruct Hx|].
  rewrite seq_cons in Hc, Ho. simpl in Hc, Ho. apply app_eq_nil in Hc. destruct Hc as [Hc1 Hc2].
  assert (Ho1 : m_oof (snd (step y st)) = false).
  { destruct (m_oof (snd (step y st))) eqn:E; [|reflexivity].
    rewrite (seq_oof_mono step r Hm _ E) in Ho. discriminate. }
  destruct Hx as [Hx|Hx].
  - subst y. apply (HP x st (or_introl eq_refl)). split; assumption.
  - apply (IH (fun z st' Hz => HP z st' (or_intror Hz)) (snd (step y st)) (conj Hc2 Ho) x Hx).
Qed.

Lemma oof_false_back : forall st st', (m_oof st = true -> m_oof st' = true) -> m_oof st' = false -> m_oof st = false.
Proof. intros st st' H E. destruct (m_oof st); [rewrite (H eq_refl) in E; discriminate | reflexivity]. Qed.

Lemma seq_oof_back : forall {A} (step : A -> mst -> list N * mst) l st c st',
  (forall x st, m_oof st = true -> m_oof (snd (step x st)) = true) ->
  seq step l st = (c, st') -> m_oof st' = false -> m_oof st = false.
Proof.
  intros A step l st c st' Hm E Ho. apply (oof_false_back st st'); [|exact Ho].
  intro H. pose proof (seq_oof_mono step l Hm st H) as R. rewrite E in R. exact R.
Qed.

(* ---- the out-of-fuel flag is never reset ---- *)
Section Mono.
Variable S : schema.
Variable D : document.
Variable memo : bool.

Lemma oof_mono : forall f,
  (forall fl a b st, m_oof st = true -> m_oof (snd (Overlap.fc S D memo f fl a b st)) = true) /\
  (forall fl l1 l2 st, m_oof st = true -> m_oof (snd (between S D memo f fl l1 l2 st)) = true) /\
  (forall fl s1 s2 st, m_oof st = true -> m_oof (snd (Overlap.subsets S D memo f fl s1 s2 st)) = true) /\
  (forall fl s g st, m_oof st = true -> m_oof (snd (ffrag S D memo f fl s g st)) = true) /\
  (forall fl g1 g2 st, m_oof st = true -> m_oof (snd (frfr S D memo f fl g1 g2 st)) = true).
Proof.
  induction f as [|f IH]; [split; [|split; [|split; [|split]]]; intros; reflexivity|].
  destruct IH as (Ifc & Ibt & Isub & Iff & Ifr).
  split; [|split; [|split; [|split]]].
  - intros fl a b st Ho. simpl.
    destruct (negb (base_ok S (fl || excl S a b) a b)); [exact Ho|].
    destruct (has_sub a && has_sub b); [|exact Ho].
    pose proof (Isub (fl || excl S a b) (sub_pt a, fe_sub a) (sub_pt b, fe_sub b) (inc_fc st) Ho) as R.
    destruct (Overlap.subsets S D memo f (fl || excl S a b) (sub_pt a, fe_sub a) (sub_pt b, fe_sub b) (inc_fc st)) as [cs st'].
    exact R.
  - intros fl l1 l2 st Ho. simpl.
    apply seq_oof_mono; [|exact Ho]. intros k st1 H1.
    apply seq_oof_mono; [|exact H1]. intros a st2 H2.
    apply seq_oof_mono; [|exact H2]. intros b st3 H3. apply Ifc. exact H3.
  - intros fl s1 s2 st Ho. simpl.
    pose proof (Ibt fl (dfields S (fst s1) (snd s1)) (dfields S (fst s2) (snd s2)) st Ho) as R1.
    destruct (between S D memo f fl (dfields S (fst s1) (snd s1)) (dfields S (fst s2) (snd s2)) st) as [c1 st1].
    pose proof (seq_oof_mono (fun g => ffrag S D memo f fl s1 g) (dspreads (snd s2)) (fun g st' => Iff fl s1 g st') st1 R1) as R2.
    destruct (seq (fun g => ffrag S D memo f fl s1 g) (dspreads (snd s2)) st1) as [c2 st2].
    pose proof (seq_oof_mono (fun g => ffrag S D memo f fl s2 g) (dspreads (snd s1)) (fun g st' => Iff fl s2 g st') st2 R2) as R3.
    destruct (seq (fun g => ffrag S D memo f fl s2 g) (dspreads (snd s1)) st2) as [c3 st3].
    pose proof (seq_oof_mono (fun a => seq (fun b => frfr S D memo f fl a b) (dspreads (snd s2))) (dspreads (snd s1))
                  (fun a st' H' => seq_oof_mono (fun b => frfr S D memo f fl a b) (dspreads (snd s2)) (fun b st'' => Ifr fl a b st'') st' H') st3 R3) as R4.
    destruct (seq (fun a => seq (fun b => frfr S D memo f fl a b) (dspreads (snd s2))) (dspreads (snd s1)) st3) as [c4 st4].
    exact R4.
  - intros fl s g st Ho. simpl.
    destruct (memo && ff_has st (fst s) (first_id (snd s)) g fl); [exact Ho|].
    assert (Ho' : m_oof (if memo then ff_add st (fst s) (first_id (snd s)) g fl else st) = true)
      by (destruct memo; exact Ho).
    destruct (frag D g) as [fr|]; [|exact Ho'].
    destruct (same_set s (resolve S (fr_cond fr), fr_sel fr)); [exact Ho'|].
    match goal with |- context [between S D memo f fl ?x ?y ?z] =>
      pose proof (Ibt fl x y z Ho') as R1; destruct (between S D memo f fl x y z) as [c1 st1] end.
    match goal with |- context [seq ?stp ?l st1] =>
      pose proof (seq_oof_mono stp l (fun h st' => Iff fl s h st') st1 R1) as R2;
      destruct (seq stp l st1) as [c2 st2] end.
    exact R2.
  - intros fl g1 g2 st Ho. simpl.
    destruct (frag D g1) as [f1|]; [|exact Ho].
    destruct (frag D g2) as [f2|]; [|exact Ho].
    destruct (String.eqb g1 g2); [exact Ho|].
    destruct (memo && pair_has st g1 g2 fl); [exact Ho|].
    assert (Ho' : m_oof (if memo then pair_add st g1 g2 fl else st) = true)
      by (destruct memo; exact Ho).
    match goal with |- context [between S D memo f fl ?x ?y ?z] =>
      pose proof (Ibt fl x y z Ho') as R1; destruct (between S D memo f fl x y z) as [c1 st1] end.
    match goal with |- context [seq ?stp ?l st1] =>
      pose proof (seq_oof_mono stp l (fun h st' => Ifr fl g1 h st') st1 R1) as R2;
      destruct (seq stp l st1) as [c2 st2] end.
    match goal with |- context [seq ?stp ?l st2] =>
      pose proof (seq_oof_mono stp l (fun h st' => Ifr fl h g2 st') st2 R2) as R3;
      destruct (seq stp l st2) as [c3 st3] end.
    exact R3.
Qed.

Lemma pairs_within_oof_mono : forall fuel l st,
  m_oof st = true -> m_oof (snd (pairs_within S D memo fuel l st)) = true.
Proof.
  intros fuel l. induction l as [|a r IH]; intros st Ho; simpl; [exact Ho|].
  pose proof (seq_oof_mono (fun b => Overlap.fc S D memo fuel false a b) r
                (fun b st' => proj1 (oof_mono fuel) false a b st') st Ho) as R1.
  destruct (seq (fun b => Overlap.fc S D memo fuel false a b) r st) as [c1 st1].
  specialize (IH st1 R1). destruct (pairs_within S D memo fuel r st1) as [c2 st2]. exact IH.
Qed.

Lemma frags_within_oof_mono : forall fuel s gs st,
  m_oof st = true -> m_oof (snd (frags_within S D memo fuel s gs st)) = true.
Proof.
  intros fuel s gs. induction gs as [|g r IH]; intros st Ho; simpl; [exact Ho|].
  destruct (oof_mono fuel) as (_ & _ & _ & Iff & Ifr).
  pose proof (Iff false s g st Ho) as R1. destruct (ffrag S D memo fuel false s g st) as [c1 st1].
  pose proof (seq_oof_mono (fun h => frfr S D memo fuel false g h) r (fun h st' => Ifr false g h st') st1 R1) as R2.
  destruct (seq (fun h => frfr S D memo fuel false g h) r st1) as [c2 st2].
  specialize (IH st2 R2). destruct (frags_within S D memo fuel s r st2) as [c3 st3]. exact IH.
Qed.

Lemma within_set_oof_mono : forall fuel s st,
  m_oof st = true -> m_oof (snd (within_set S D memo fuel s st)) = true.
Proof.
  intros fuel s st Ho. unfold within_set.
  pose proof (seq_oof_mono (fun k => pairs_within S D memo fuel (with_key k (dfields S (fst s) (snd s))))
                (keys_of (dfields S (fst s) (snd s))) (fun k st' => pairs_within_oof_mono fuel _ st') st Ho) as R1.
  destruct (seq (fun k => pairs_within S D memo fuel (with_key k (dfields S (fst s) (snd s))))
                (keys_of (dfields S (fst s) (snd s))) st) as [c1 st1].
  pose proof (frags_within_oof_mono fuel s (dspreads (snd s)) st1 R1) as R2.
  destruct (frags_within S D memo fuel s (dspreads (snd s)) st1) as [c2 st2]. exact R2.
Qed.
End Mono.

(* ================= Part 1: a silent, complete call establishes the predicate ================= *)
Section Reflect.
Variable S : schema.
Variable D : document.
Hypothesis Hid : ids_distinct S D.
Hypothesis Hargs : args_unique S D.

Notation DS := (DS S D).
Notation F := (fun s : fset => dfields S (fst s) (snd s)).
Notation Pfc := (OverlapSpec.fc S D (base2 S)).
Notation Psubsets := (OverlapSpec.subsets S D (base2 S)).
Notation PFF := (OverlapSpec.FF S D (base2 S)).
Notation PFrFr := (OverlapSpec.FrFr S D (base2 S)).

Lemma clean_app2 : forall (c1 c2 : list N) (st : mst), clean (c1 ++ c2, st) -> c1 = [] /\ c2 = [] /\ m_oof st = false.
Proof. intros c1 c2 st [H1 H2]. simpl in *. apply app_eq_nil in H1. destruct H1; auto. Qed.

Lemma exec_reflect : forall f,
  (forall fl a b sa sb st, DS sa -> DS sb -> In a (F sa) -> In b (F sb) ->
     clean (Overlap.fc S D false f fl a b st) -> Pfc fl a b) /\
  (forall fl s1 s2 l1 l2 st, DS s1 -> DS s2 -> incl l1 (F s1) -> incl l2 (F s2) ->
     clean (between S D false f fl l1 l2 st) ->
     forall a b, In a l1 -> In b l2 -> fe_key a = fe_key b -> Pfc fl a b) /\
  (forall fl s1 s2 st, DS s1 -> DS s2 ->
     clean (Overlap.subsets S D false f fl s1 s2 st) -> Psubsets fl s1 s2) /\
  (forall fl s g st, DS s -> clean (ffrag S D false f fl s g st) -> PFF fl s g) /\
  (forall fl g1 g2 st, clean (frfr S D false f fl g1 g2 st) -> PFrFr fl g1 g2).
Proof.
  induction f as [|f IH].
  { split; [|split; [|split; [|split]]]; intros; match goal with H : clean _ |- _ => destruct H as [_ H]; simpl in H; discriminate end. }
  destruct IH as (Ifc & Ibt & Isub & Iff & Ifr).
  destruct (oof_mono S D false f) as (Mfc & Mbt & Msub & Mff & Mfr).
  split; [|split; [|split; [|split]]].
  - (* fc *) intros fl a b sa sb st Hsa Hsb Ha Hb [Hc Ho]. simpl in Hc, Ho.
    destruct (base_ok S (fl || excl S a b) a b) eqn:Eb; simpl in Hc, Ho; [|discriminate].
    assert (Eb2 : base2 S (exf S fl a b) a b = true).
    { unfold exf. rewrite <- (base_ok_is_base2 S _ a b (Hargs sa a Hsa Ha) (Hargs sb b Hsb Hb)). exact Eb. }
    constructor; [exact Eb2|]. intros [Hs1 Hs2]. rewrite Hs1, Hs2 in Hc, Ho. simpl in Hc, Ho.
    destruct (Overlap.subsets S D false f (fl || excl S a b) (sub_pt a, fe_sub a) (sub_pt b, fe_sub b) (inc_fc st)) as [cs st'] eqn:Es.
    simpl in Hc, Ho. destruct cs as [|c cs]; [|discriminate].
    apply (Isub (exf S fl a b) (subset_of a) (subset_of b) (inc_fc st) (DS_sub S D sa a Hsa Ha) (DS_sub S D sb b Hsb Hb)).
    unfold exf, subset_of. rewrite Es. split; [reflexivity | exact Ho].
  - (* between *) intros fl s1 s2 l1 l2 st H1 H2 I1 I2 Hcl a b Ha Hb Hk. simpl in Hcl.
    assert (Hk1 : In (fe_key a) (keys_of l1)) by (apply keys_of_mem; exact Ha).
    refine (seq_clean _ (fun k => forall a b, In a l1 -> In b l2 -> fe_key a = k -> fe_key b = k -> Pfc fl a b)
              (keys_of l1) _ _ st Hcl (fe_key a) Hk1 a b Ha Hb eq_refl (eq_sym Hk)).
    + intros k st1 Ho1. apply seq_oof_mono; [|exact Ho1]. intros x st2 Ho2.
      apply seq_oof_mono; [|exact Ho2]. intros y st3 Ho3. apply Mfc. exact Ho3.
    + intros k st1 _ Hcl1 a0 b0 Ha0 Hb0 Ka Kb.
      refine (seq_clean _ (fun x => forall y, In y l2 -> fe_key y = k -> Pfc fl x y) (with_key k l1) _ _ st1 Hcl1 a0
                (with_key_mem k l1 a0 Ha0 Ka) b0 Hb0 Kb).
      * intros x st2 Ho2. apply seq_oof_mono; [|exact Ho2]. intros y st3 Ho3. apply Mfc. exact Ho3.
      * intros x st2 Hx Hcl2 y Hy Ky.
        refine (seq_clean _ (fun y => Pfc fl x y) (with_key k l2) _ _ st2 Hcl2 y (with_key_mem k l2 y Hy Ky)).
        -- intros z st3 Ho3. apply Mfc. exact Ho3.
        -- intros z st3 Hz Hcl3. apply with_key_in in Hx. apply with_key_in in Hz.
           apply (Ifc fl x z s1 s2 st3 H1 H2 (I1 x (proj1 Hx)) (I2 z (proj1 Hz)) Hcl3).
  - (* subsets *) intros fl s1 s2 st D1 D2 Hcl. simpl in Hcl.
    destruct (between S D false f fl (dfields S (fst s1) (snd s1)) (dfields S (fst s2) (snd s2)) st) as [c1 st1] eqn:E1.
    destruct (seq (fun g => ffrag S D false f fl s1 g) (dspreads (snd s2)) st1) as [c2 st2] eqn:E2.
    destruct (seq (fun g => ffrag S D false f fl s2 g) (dspreads (snd s1)) st2) as [c3 st3] eqn:E3.
    destruct (seq (fun a => seq (fun b => frfr S D false f fl a b) (dspreads (snd s2))) (dspreads (snd s1)) st3) as [c4 st4] eqn:E4.
    apply clean_app2 in Hcl. destruct Hcl as (C1 & C234 & O4).
    apply app_eq_nil in C234. destruct C234 as [C2 C34]. apply app_eq_nil in C34. destruct C34 as [C3 C4]. subst.
    assert (O3 : m_oof st3 = false).
    { refine (seq_oof_back _ _ _ _ _ _ E4 O4). intros x st' H'. apply seq_oof_mono; [|exact H']. intros y st'' H''. apply Mfr. exact H''. }
    assert (O2 : m_oof st2 = false).
    { refine (seq_oof_back _ _ _ _ _ _ E3 O3). intros x st' H'. apply Mff. exact H'. }
    assert (O1 : m_oof st1 = false).
    { refine (seq_oof_back _ _ _ _ _ _ E2 O2). intros x st' H'. apply Mff. exact H'. }
    constructor.
    + intros a b Ha Hb Hk.
      apply (Ibt fl s1 s2 (F s1) (F s2) st D1 D2 (incl_refl _) (incl_refl _)); auto.
      exact (clean_eq _ _ E1 O1).
    + intros g Hg. apply dspreads_iff in Hg.
      refine (seq_clean (fun g => ffrag S D false f fl s1 g) (fun g => PFF fl s1 g) (dspreads (snd s2)) (fun g st' => Mff fl s1 g st') _ st1 _ g Hg).
      * intros x st' _ Hcl. apply (Iff fl s1 x st' D1 Hcl).
      * exact (clean_eq _ _ E2 O2).
    + intros g Hg. apply dspreads_iff in Hg.
      refine (seq_clean (fun g => ffrag S D false f fl s2 g) (fun g => PFF fl s2 g) (dspreads (snd s1)) (fun g st' => Mff fl s2 g st') _ st2 _ g Hg).
      * intros x st' _ Hcl. apply (Iff fl s2 x st' D2 Hcl).
      * exact (clean_eq _ _ E3 O3).
    + intros g1 g2 Hg1 Hg2. apply dspreads_iff in Hg1. apply dspreads_iff in Hg2.
      refine (seq_clean (fun a => seq (fun b => frfr S D false f fl a b) (dspreads (snd s2)))
                (fun g1 => forall g2, In g2 (dspreads (snd s2)) -> PFrFr fl g1 g2) (dspreads (snd s1)) _ _ st3 _ g1 Hg1 g2 Hg2).
      * intros x st' H'. apply seq_oof_mono; [|exact H']. intros y st'' H''. apply Mfr. exact H''.
      * intros x st' _ Hcl y Hy.
        refine (seq_clean (fun b => frfr S D false f fl x b) (fun y => PFrFr fl x y) (dspreads (snd s2)) (fun y st'' => Mfr fl x y st'') _ st' Hcl y Hy).
        intros z st'' _ Hcl'. apply (Ifr fl x z st'' Hcl').
      * exact (clean_eq _ _ E4 O4).
  - (* ffrag *) intros fl s g st Hs Hcl. simpl in Hcl.
    destruct (frag D g) as [fr|] eqn:Ef.
    2:{ apply ff_none. unfold fbody. rewrite Ef. reflexivity. }
    pose proof (fbody_frag S D g fr Ef) as Eb.
    destruct (same_set s (resolve S (fr_cond fr), fr_sel fr)) eqn:Es.
    { apply ff_same. rewrite Eb. f_equal. symmetry.
      apply (same_set_eq S D Hid s (resolve S (fr_cond fr), fr_sel fr) Hs (DS_frag S D g fr Ef) Es). }
    match type of Hcl with context [between S D false f fl ?x ?y ?z] =>
      destruct (between S D false f fl x y z) as [c1 st1] eqn:E1 end.
    match type of Hcl with context [seq ?stp ?l st1] =>
      destruct (seq stp l st1) as [c2 st2] eqn:E2 end.
    apply clean_app2 in Hcl. destruct Hcl as (C1 & C2 & O2). subst.
    assert (O1 : m_oof st1 = false).
    { refine (seq_oof_back _ _ _ _ _ _ E2 O2). intros x st' H'. apply Mff. exact H'. }
    apply (ff_i S D (base2 S) fl s g (resolve S (fr_cond fr), fr_sel fr) Eb).
    + intros x y Hx Hy Hk.
      apply (Ibt fl s (resolve S (fr_cond fr), fr_sel fr) (F s) (dfields S (resolve S (fr_cond fr)) (fr_sel fr)) st Hs (DS_frag S D g fr Ef) (incl_refl _) (incl_refl _)); auto.
      exact (clean_eq _ _ E1 O1).
    + intros h Hh. unfold frs in Hh. simpl in Hh. apply dspreads_iff in Hh.
      refine (seq_clean (fun h => ffrag S D false f fl s h) (fun h => PFF fl s h) (dspreads (fr_sel fr)) (fun h st' => Mff fl s h st') _ st1 _ h Hh).
      * intros x st' _ Hcl. apply (Iff fl s x st' Hs Hcl).
      * exact (clean_eq _ _ E2 O2).
  - (* frfr *) intros fl g1 g2 st Hcl. simpl in Hcl.
    destruct (frag D g1) as [f1|] eqn:Ef1.
    2:{ apply frfr_none. left. unfold fbody. rewrite Ef1. reflexivity. }
    destruct (frag D g2) as [f2|] eqn:Ef2.
    2:{ apply frfr_none. right. unfold fbody. rewrite Ef2. reflexivity. }
    destruct (String.eqb g1 g2) eqn:Eg.
    { apply String.eqb_eq in Eg. subst g2. apply frfr_same. }
    pose proof (fbody_frag S D g1 f1 Ef1) as Eb1. pose proof (fbody_frag S D g2 f2 Ef2) as Eb2.
    match type of Hcl with context [between S D false f fl ?x ?y ?z] =>
      destruct (between S D false f fl x y z) as [c1 st1] eqn:E1 end.
    match type of Hcl with context [seq ?stp ?l st1] =>
      destruct (seq stp l st1) as [c2 st2] eqn:E2 end.
    match type of Hcl with context [seq ?stp ?l st2] =>
      destruct (seq stp l st2) as [c3 st3] eqn:E3 end.
    apply clean_app2 in Hcl. destruct Hcl as (C1 & C23 & O3).
    apply app_eq_nil in C23. destruct C23 as [C2 C3]. subst.
    assert (O2 : m_oof st2 = false).
    { refine (seq_oof_back _ _ _ _ _ _ E3 O3). intros x st' H'. apply Mfr. exact H'. }
    assert (O1 : m_oof st1 = false).
    { refine (seq_oof_back _ _ _ _ _ _ E2 O2). intros x st' H'. apply Mfr. exact H'. }
    apply (frfr_i S D (base2 S) fl g1 g2 _ _ Eb1 Eb2).
    + intros x y Hx Hy Hk.
      apply (Ibt fl (resolve S (fr_cond f1), fr_sel f1) (resolve S (fr_cond f2), fr_sel f2)
                 (dfields S (resolve S (fr_cond f1)) (fr_sel f1)) (dfields S (resolve S (fr_cond f2)) (fr_sel f2)) st
                 (DS_frag S D g1 f1 Ef1) (DS_frag S D g2 f2 Ef2) (incl_refl _) (incl_refl _)); auto.
      exact (clean_eq _ _ E1 O1).
    + intros h Hh. unfold frs in Hh. simpl in Hh. apply dspreads_iff in Hh.
      refine (seq_clean (fun h => frfr S D false f fl g1 h) (fun h => PFrFr fl g1 h) (dspreads (fr_sel f2)) (fun h st' => Mfr fl g1 h st') _ st1 _ h Hh).
      * intros x st' _ Hcl. apply (Ifr fl g1 x st' Hcl).
      * exact (clean_eq _ _ E2 O2).
    + intros h Hh. unfold frs in Hh. simpl in Hh. apply dspreads_iff in Hh.
      refine (seq_clean (fun h => frfr S D false f fl h g2) (fun h => PFrFr fl h g2) (dspreads (fr_sel f1)) (fun h st' => Mfr fl h g2 st') _ st2 _ h Hh).
      * intros x st' _ Hcl. apply (Ifr fl x g2 st' Hcl).
      * exact (clean_eq _ _ E3 O3).
Qed.

(* ---- the top level: findConflictsWithinSelectionSet on one set, then the whole run ---- *)
Definition within_lt (s : fset) : Prop :=
  (forall k, In k (keys_of (F s)) -> ForallOrdPairs (Pfc false) (with_key k (F s))) /\
  (forall g, In g (dspreads (snd s)) -> PFF false s g) /\
  ForallOrdPairs (PFrFr false) (dspreads (snd s)).

Lemma pairs_within_reflect : forall fuel s l st, DS s -> incl l (F s) ->
  clean (pairs_within S D false fuel l st) -> ForallOrdPairs (Pfc false) l.
Proof.
  intros fuel s l. induction l as [|a r IH]; intros st Hs Hi Hcl; [constructor|]. simpl in Hcl.
  destruct (seq (fun b => Overlap.fc S D false fuel false a b) r st) as [c1 st1] eqn:E1.
  destruct (pairs_within S D false fuel r st1) as [c2 st2] eqn:E2.
  apply clean_app2 in Hcl. destruct Hcl as (C1 & C2 & O2). subst.
  assert (O1 : m_oof st1 = false).
  { apply (oof_false_back st1 st2); [|exact O2]. intro H'.
    pose proof (pairs_within_oof_mono S D false fuel r st1 H') as R. rewrite E2 in R. exact R. }
  constructor.
  - apply Forall_forall. intros b Hb.
    refine (seq_clean (fun b => Overlap.fc S D false fuel false a b) (fun b => Pfc false a b) r
              (fun b st' => proj1 (oof_mono S D false fuel) false a b st') _ st (clean_eq _ _ E1 O1) b Hb).
    intros x st' Hx Hcl.
    apply (proj1 (exec_reflect fuel) false a x s s st' Hs Hs (Hi a (or_introl eq_refl)) (Hi x (or_intror Hx)) Hcl).
  - apply (IH st1 Hs (fun x Hx => Hi x (or_intror Hx))). exact (clean_eq _ _ E2 O2).
Qed.

Lemma frags_within_reflect : forall fuel s gs st, DS s ->
  clean (frags_within S D false fuel s gs st) ->
  (forall g, In g gs -> PFF false s g) /\ ForallOrdPairs (PFrFr false) gs.
Proof.
  intros fuel s gs. induction gs as [|g r IH]; intros st Hs Hcl.
  { split; [intros g []|constructor]. }
  simpl in Hcl.
  destruct (ffrag S D false fuel false s g st) as [c1 st1] eqn:E1.
  destruct (seq (fun h => frfr S D false fuel false g h) r st1) as [c2 st2] eqn:E2.
  destruct (frags_within S D false fuel s r st2) as [c3 st3] eqn:E3.
  apply clean_app2 in Hcl. destruct Hcl as (C1 & C23 & O3).
  apply app_eq_nil in C23. destruct C23 as [C2 C3]. subst.
  destruct (oof_mono S D false fuel) as (_ & _ & _ & Mff & Mfr).
  assert (O2 : m_oof st2 = false).
  { apply (oof_false_back st2 st3); [|exact O3]. intro H'.
    pose proof (frags_within_oof_mono S D false fuel s r st2 H') as R. rewrite E3 in R. exact R. }
  assert (O1 : m_oof st1 = false).
  { refine (seq_oof_back _ _ _ _ _ _ E2 O2). intros x st' H'. apply Mfr. exact H'. }
  destruct (IH st2 Hs (clean_eq _ _ E3 O3)) as [IH1 IH2].
  destruct (exec_reflect fuel) as (_ & _ & _ & Iff & Ifr).
  split.
  - intros h [Hh|Hh]; [subst h | apply IH1; exact Hh].
    apply (Iff false s g st Hs). exact (clean_eq _ _ E1 O1).
  - constructor; [|exact IH2]. apply Forall_forall. intros h Hh.
    refine (seq_clean (fun h => frfr S D false fuel false g h) (fun h => PFrFr false g h) r
              (fun h st' => Mfr false g h st') _ st1 (clean_eq _ _ E2 O2) h Hh).
    intros x st' _ Hcl. apply (Ifr false g x st' Hcl).
Qed.

Lemma within_set_reflect : forall fuel s st, DS s ->
  clean (within_set S D false fuel s st) -> within_lt s.
Proof.
  intros fuel s st Hs Hcl. unfold within_set in Hcl.
  destruct (seq (fun k => pairs_within S D false fuel (with_key k (dfields S (fst s) (snd s))))
                (keys_of (dfields S (fst s) (snd s))) st) as [c1 st1] eqn:E1.
  destruct (frags_within S D false fuel s (dspreads (snd s)) st1) as [c2 st2] eqn:E2.
  apply clean_app2 in Hcl. destruct Hcl as (C1 & C2 & O2). subst.
  assert (O1 : m_oof st1 = false).
  { apply (oof_false_back st1 st2); [|exact O2]. intro H'.
    pose proof (frags_within_oof_mono S D false fuel s (dspreads (snd s)) st1 H') as R. rewrite E2 in R. exact R. }
  destruct (frags_within_reflect fuel s (dspreads (snd s)) st1 Hs (clean_eq _ _ E2 O2)) as [HB HC].
  split; [|split; assumption].
  intros k Hk.
  refine (seq_clean (fun k => pairs_within S D false fuel (with_key k (dfields S (fst s) (snd s))))
            (fun k => ForallOrdPairs (Pfc false) (with_key k (F s))) (keys_of (F s))
            (fun k st' => pairs_within_oof_mono S D false fuel _ st') _ st (clean_eq _ _ E1 O1) k Hk).
  intros x st' _ Hcl.
  apply (pairs_within_reflect fuel s (with_key x (F s)) st' Hs (fun e He => proj1 (with_key_in _ _ _ He)) Hcl).
Qed.

Lemma run_reflect : forall fuel,
  run_overlap S D false fuel = [] -> run_complete S D false fuel = true ->
  forall s, In s (all_sets S D) -> within_lt s.
Proof.
  intros fuel Hr Hc s Hs. unfold run_overlap in Hr. unfold run_complete in Hc. apply negb_true_iff in Hc.
  refine (seq_clean (within_set S D false fuel) within_lt (all_sets S D)
            (fun s st' => within_set_oof_mono S D false fuel s st') _ (mst0) (conj Hr Hc) s Hs).
  intros x st' Hx Hcl. apply (within_set_reflect fuel x st' (DS_top S D x Hx) Hcl).
Qed.
End Reflect.
