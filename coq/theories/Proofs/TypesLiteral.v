(* C10: printing a literal and reading it back.  For every literal whose leaves are lexemes the
   lexer accepts (lit_wf), the library's lexer and value parser applied to the printer's text
   give the literal back: parse_lit (print_lit l) = Some l.
   Built on the print -> lex -> parse machinery of the syntax properties (Proofs/Syntax*.v). *)
From Coq Require Import String List NArith Bool Lia.
From GQL Require Import Base.Bytes Syntax.Lexer Syntax.Ast Syntax.Parser Syntax.Grammar Syntax.Printer
  Proofs.SyntaxSound Proofs.SyntaxComplete Proofs.SyntaxPrinter Proofs.SyntaxUtf8 Proofs.SyntaxRender
  Proofs.SyntaxLayoutWf Proofs.SyntaxRoundTrip.
From GQL Require Import Types.Literal.
Import ListNotations.
Open Scope N_scope.

(* ---------- induction over literals ---------- *)
Section LitInd.
  Variable P : lit -> Prop.
  Hypothesis HInt : forall lx, P (LInt lx).
  Hypothesis HFloat : forall lx, P (LFloat lx).
  Hypothesis HStr : forall b, P (LStr b).
  Hypothesis HBool : forall b, P (LBool b).
  Hypothesis HEnum : forall n, P (LEnum n).
  Hypothesis HList : forall l, Forall P l -> P (LList l).
  Hypothesis HObj : forall fs, Forall (fun f => P (snd f)) fs -> P (LObj fs).

  Fixpoint lit_ind' (l : lit) : P l :=
    match l with
    | LInt lx => HInt lx
    | LFloat lx => HFloat lx
    | LStr b => HStr b
    | LBool b => HBool b
    | LEnum n => HEnum n
    | LList vs => HList vs ((fix go (vs : list lit) : Forall P vs :=
                              match vs with [] => Forall_nil _ | v :: r => Forall_cons v (lit_ind' v) (go r) end) vs)
    | LObj fs => HObj fs ((fix go (fs : list (bytes * lit)) : Forall (fun f => P (snd f)) fs :=
                             match fs with [] => Forall_nil _ | f :: r => Forall_cons f (lit_ind' (snd f)) (go r) end) fs)
    end.
End LitInd.

(* the model's lexeme predicates are the ones of the syntax development *)
Lemma num_lexeme_ok_eq : forall lx f, num_lexeme_ok lx f = num_okb lx f.
Proof. reflexivity. Qed.
Lemma name_lexeme_ok_eq : forall v, name_lexeme_ok v = name_ok v.
Proof. reflexivity. Qed.
Lemma string_ok_eq : forall v, string_ok v = str_okb v.
Proof. reflexivity. Qed.

Lemma enum_lexeme_facts : forall n, enum_lexeme_ok n = true ->
  name_ok n = true /\ n <> kw "true" /\ n <> kw "false" /\ n <> kw "null".
Proof.
  intros n H. unfold enum_lexeme_ok in H.
  apply andb_true_iff in H. destruct H as [H H3]. apply andb_true_iff in H. destruct H as [H H2].
  apply andb_true_iff in H. destruct H as [H0 H1].
  apply negb_true_iff in H1, H2, H3.
  split; [exact H0|]. repeat split; intro E; subst n; discriminate.
Qed.

(* ---------- the layout of a literal is well formed ---------- *)
Definition lay_field (f : bytes * lit) : layout :=
  [PTok NAME (fst f)] ++ PTok COLON [] :: PSep [32] :: lay_value (ast_of_lit (snd f)).

Lemma lay_lit_list : forall vs,
  lay_value (ast_of_lit (LList vs)) = T BRACKET_L ++ ljoin (map (fun v => lay_value (ast_of_lit v)) vs) comma_sp ++ T BRACKET_R.
Proof. intro vs. cbn [ast_of_lit lay_value]. rewrite map_map. reflexivity. Qed.

Lemma lay_lit_obj : forall fs,
  lay_value (ast_of_lit (LObj fs)) = T BRACE_L ++ ljoin (map lay_field fs) comma_sp ++ T BRACE_R.
Proof. intro fs. cbn [ast_of_lit]. rewrite lay_value_obj. rewrite map_map. reflexivity. Qed.

Lemma lit_layout_P1 : forall l, lit_wf l = true -> P1 (lay_value (ast_of_lit l)).
Proof.
  induction l as [lx|lx|b|b|n|vs IH|fs IH] using lit_ind'; intro W.
  - apply P1_wordy_last. exact W.
  - apply P1_wordy_last. exact W.
  - apply P1_wordy_last. exact W.
  - cbn [ast_of_lit lay_value]. destruct b; apply P1_wordy_last; reflexivity.
  - apply P1_wordy_last. exact (proj1 (enum_lexeme_facts n W)).
  - rewrite lay_lit_list. unfold T. cbn [app]. apply P1_punct; [reflexivity|]. apply P0_P1. apply P0_app1.
    + apply ljoin_P1; [reflexivity|]. rewrite Forall_map. cbn [lit_wf] in W. rewrite forallb_forall in W.
      rewrite Forall_forall in *. intros v Hv. exact (IH v Hv (W v Hv)).
    + apply P0_punct; [reflexivity|apply P0_nil].
    + apply SFs_punct; reflexivity.
  - rewrite lay_lit_obj. unfold T. cbn [app]. apply P1_punct; [reflexivity|]. apply P0_P1. apply P0_app1.
    + apply ljoin_P1; [reflexivity|]. rewrite Forall_map. cbn [lit_wf] in W. rewrite forallb_forall in W.
      rewrite Forall_forall in *. intros f Hf. specialize (W f Hf). apply andb_true_iff in W. destruct W as [Wn Wv].
      unfold lay_field. cbn [app]. apply P1_wordy; [exact Wn| |apply SFs_SF; apply SFs_punct; reflexivity].
      apply P1_punct; [reflexivity|]. apply P1_sep; [reflexivity|exact (IH f Hf Wv)].
    + apply P0_punct; [reflexivity|apply P0_nil].
    + apply SFs_punct; reflexivity.
Qed.

Lemma lit_layout_wf : forall l, lit_wf l = true -> layout_wfb (lay_value (ast_of_lit l)) = true.
Proof.
  intros l W. pose proof (lit_layout_P1 l W [] (conj eq_refl eq_refl)) as H. rewrite app_nil_r in H. exact H.
Qed.

(* ---------- tokens with the layout's signatures derive the literal ---------- *)
Section Stars.
  Context {A B : Type}.
  Variable I : list token -> B -> Prop.
  Variable lay : A -> layout.
  Variable R : A -> B -> Prop.

  Lemma star_derive : forall l,
    Forall (fun a => forall ts, map sig ts = ltoks (lay a) -> exists b, I ts b /\ R a b) l ->
    forall ts, map sig ts = flat_map ltoks (map lay l) -> exists l', DStar I ts l' /\ Forall2 R l l'.
  Proof.
    induction l as [|a l IH]; intros H ts Hts.
    - cbn in Hts. apply map_eq_nil in Hts. subst. exists []. split; constructor.
    - inversion H as [|? ? Ha Hl]; subst. cbn [map flat_map] in Hts.
      apply map_eq_app in Hts. destruct Hts as (t1 & t2 & -> & H1 & H2).
      destruct (Ha t1 H1) as (b & Db & Rb). destruct (IH Hl t2 H2) as (l' & Dl & Rl).
      exists (b :: l'). split; constructor; assumption.
  Qed.
End Stars.

Lemma Forall2_map_eq : forall (l : list lit) (l' : list value), Forall2 (fun a b => lit_of_ast b = a) l l' -> map lit_of_ast l' = l.
Proof. induction 1 as [|a b l l' H _ IH]; [reflexivity|]. cbn [map]. rewrite H, IH. reflexivity. Qed.

Definition field_of (f : objfield) : bytes * lit := match f with OField n v _ => (nval n, lit_of_ast v) end.

Lemma Forall2_field_eq : forall (l : list (bytes * lit)) (l' : list objfield),
  Forall2 (fun a b => field_of b = a) l l' -> map field_of l' = l.
Proof. induction 1 as [|a b l l' H _ IH]; [reflexivity|]. cbn [map]. rewrite H, IH. reflexivity. Qed.

Lemma lit_of_ast_obj : forall fs l, lit_of_ast (VObj fs l) = LObj (map field_of fs).
Proof. reflexivity. Qed.

Ltac one_tok H t K V :=
  let tl := fresh "tl" in let Hs := fresh "Hs" in
  apply map_eq_cons in H; destruct H as (t & tl & -> & Hs & H); apply sig_inv in Hs; destruct Hs as [K V];
  apply map_eq_nil in H; subst tl.

Lemma lit_derives : forall l, lit_wf l = true ->
  forall ts, map sig ts = ltoks (lay_value (ast_of_lit l)) -> exists v, DValue true ts v /\ lit_of_ast v = l.
Proof.
  induction l as [lx|lx|b|b|n|vs IH|fs IH] using lit_ind'; intros W ts Hts.
  - cbn [ast_of_lit lay_value ltoks tokval] in Hts. one_tok Hts t K V.
    exists (VInt (tval t) (tokloc t)). split; [apply DV_int; assumption|]. cbn [lit_of_ast]. rewrite V. reflexivity.
  - cbn [ast_of_lit lay_value ltoks tokval] in Hts. one_tok Hts t K V.
    exists (VFloat (tval t) (tokloc t)). split; [apply DV_float; assumption|]. cbn [lit_of_ast]. rewrite V. reflexivity.
  - cbn [ast_of_lit lay_value ltoks tokval] in Hts. one_tok Hts t K V.
    exists (VStr (tval t) (tokloc t)). split; [apply DV_string; left; assumption|]. cbn [lit_of_ast]. rewrite V. reflexivity.
  - destruct b; cbn [ast_of_lit lay_value Kw ltoks tokval] in Hts; one_tok Hts t K V.
    + exists (VBool true (tokloc t)). split; [apply DV_true; assumption|reflexivity].
    + exists (VBool false (tokloc t)). split; [apply DV_false; assumption|reflexivity].
  - cbn [ast_of_lit lay_value ltoks tokval] in Hts. one_tok Hts t K V.
    destruct (enum_lexeme_facts n W) as (_ & N1 & N2 & N3).
    exists (VEnum (tval t) (tokloc t)). split; [apply DV_enum; try assumption; rewrite V; assumption|].
    cbn [lit_of_ast]. rewrite V. reflexivity.
  - rewrite lay_lit_list in Hts. unfold T in Hts. cbn [app ltoks tokval] in Hts.
    apply map_eq_cons in Hts. destruct Hts as (o & tl & -> & So & Hts). apply sig_inv in So. destruct So as [Ko _].
    rewrite ltoks_app, ltoks_ljoin in Hts. cbn [ltoks tokval] in Hts.
    apply map_eq_app in Hts. destruct Hts as (mid & cl & -> & Hmid & Hcl). one_tok Hcl t Kc Vc.
    cbn [lit_wf] in W. rewrite forallb_forall in W.
    destruct (star_derive (DValue true) (fun v => lay_value (ast_of_lit v)) (fun a b => lit_of_ast b = a) vs
                ltac:(rewrite Forall_forall in *; intros v Hv ts0 H0; exact (IH v Hv (W v Hv) ts0 H0)) mid Hmid) as (l' & Dl & Rl).
    exists (VList l' (span (o :: mid ++ [t]))). split.
    + apply DV_list. constructor; try assumption. intros X; discriminate X.
    + cbn [lit_of_ast]. rewrite (Forall2_map_eq _ _ Rl). reflexivity.
  - rewrite lay_lit_obj in Hts. unfold T in Hts. cbn [app ltoks tokval] in Hts.
    apply map_eq_cons in Hts. destruct Hts as (o & tl & -> & So & Hts). apply sig_inv in So. destruct So as [Ko _].
    rewrite ltoks_app, ltoks_ljoin in Hts. cbn [ltoks tokval] in Hts.
    apply map_eq_app in Hts. destruct Hts as (mid & cl & -> & Hmid & Hcl). one_tok Hcl t Kc Vc.
    cbn [lit_wf] in W. rewrite forallb_forall in W.
    assert (E : Forall (fun f => forall ts0, map sig ts0 = ltoks (lay_field f) ->
                       exists b, DObjFieldOf (DValue true) ts0 b /\ field_of b = f) fs).
    { rewrite Forall_forall in *. intros f Hf ts0 H0. specialize (W f Hf). apply andb_true_iff in W. destruct W as [_ Wv].
      unfold lay_field in H0. cbn [app ltoks tokval] in H0.
      apply map_eq_cons in H0. destruct H0 as (n' & tl & -> & Sn & H0). apply sig_inv in Sn. destruct Sn as [Kn Vn].
      apply map_eq_cons in H0. destruct H0 as (c' & tv & -> & Sc & H0). apply sig_inv in Sc. destruct Sc as [Kcol _].
      destruct (IH f Hf Wv tv H0) as (v & Dv & Ev).
      exists (OField (tok_name n') v (span (n' :: c' :: tv))). split; [constructor; assumption|].
      cbn [field_of tok_name nval]. rewrite Vn, Ev. destruct f; reflexivity. }
    destruct (star_derive (DObjFieldOf (DValue true)) lay_field (fun a b => field_of b = a) fs E mid Hmid) as (l' & Dl & Rl).
    exists (VObj l' (span (o :: mid ++ [t]))). split.
    + apply DV_object. constructor; try assumption. intros X; discriminate X.
    + rewrite lit_of_ast_obj. rewrite (Forall2_field_eq _ _ Rl). reflexivity.
Qed.

(* ---------- print, then lex and parse ---------- *)
Theorem parse_print_lit : forall l, lit_wf l = true -> parse_lit (print_lit l) = Some l.
Proof.
  intros l W. unfold parse_lit, print_lit, print_value.
  set (L := lay_value (ast_of_lit l)).
  rewrite (lex_flat_layout L (lit_layout_wf l W)).
  destruct (lit_derives l W (ptoks 0 L) (sig_ptoks L 0)) as (v & Dv & Ev).
  assert (Hf : (List.length (ptoks 0 L) < S (List.length (ptoks 0 L ++ [eof_tok (nlen (flat L))])))%nat)
    by (rewrite app_length; cbn [List.length]; lia).
  rewrite (parse_value_complete _ true (ptoks 0 L) v Dv Hf 0 [eof_tok (nlen (flat L))]).
  cbn [tk eof_tok]. rewrite Ev. reflexivity.
Qed.
