(* Termination of the parser model: with fuel above the number of tokens no parse function
   returns OutOfFuel. *)
From Coq Require Import String List NArith Bool Lia.
From GQL Require Import Base.Bytes Syntax.Lexer Syntax.Ast Syntax.Parser Syntax.Grammar Proofs.SyntaxSound Proofs.SyntaxComplete.
Import ListNotations.
Open Scope N_scope.

Definition len (st : pst) : nat := List.length (snd st).
Definition NF {A} (P : pst -> res (A * pst)) (n : nat) : Prop := forall st, (len st < n)%nat -> P st <> OutOfFuel.
Definition NoGrow {A} (P : pst -> res (A * pst)) : Prop := forall st a st', P st = Ok (a, st') -> (len st' <= len st)%nat.
Definition Shrinks {A} (P : pst -> res (A * pst)) : Prop := forall st a st', P st = Ok (a, st') -> (len st' < len st)%nat.

Lemma consumes_len : forall st p st', consumes st p st' -> len st = (List.length p + len st')%nat.
Proof. intros st p st' [H _]. unfold len. rewrite H, app_length. reflexivity. Qed.

Lemma sound_nogrow : forall A (P : pst -> res (A * pst)) I, Sound P I -> NoGrow P.
Proof. intros A P I S st a st' H. destruct (S _ _ _ H) as (p & C & _). rewrite (consumes_len _ _ _ C). lia. Qed.

Lemma sound_shrinks : forall A (P : pst -> res (A * pst)) I, Sound P I -> (forall p a, I p a -> p <> []) -> Shrinks P.
Proof.
  intros A P I S N st a st' H. destruct (S _ _ _ H) as (p & C & D). rewrite (consumes_len _ _ _ C).
  specialize (N _ _ D). destruct p; [contradiction|simpl; lia].
Qed.

Lemma expect_len : forall k st t st', expect k st = Ok (t, st') -> len st = S (len st').
Proof. intros k st t st' H. apply expect_ok in H. destruct H as [C _]. rewrite (consumes_len _ _ _ C). reflexivity. Qed.
Lemma expect_kw_len : forall w st t st', expect_kw w st = Ok (t, st') -> len st = S (len st').
Proof. intros w st t st' H. apply expect_kw_ok in H. destruct H as [C _]. rewrite (consumes_len _ _ _ C). reflexivity. Qed.
Lemma advance_len : forall st st', advance st = Ok st' -> len st = S (len st').
Proof. intros st st' H. apply advance_ok in H. destruct H as (t & C). rewrite (consumes_len _ _ _ C). reflexivity. Qed.
Lemma skip_len : forall k st b st', skip k st = Ok (b, st') -> (len st' <= len st)%nat.
Proof.
  intros k st b st' H. apply skip_ok in H. destruct H as [[_ (t & C & _)]|[_ [-> _]]]; [rewrite (consumes_len _ _ _ C); simpl|]; lia.
Qed.
Lemma parse_name_len : forall st n st', parse_name st = Ok (n, st') -> len st = S (len st').
Proof. intros st n st' H. apply parse_name_tok in H. destruct H as (t & C & _). rewrite (consumes_len _ _ _ C). reflexivity. Qed.
Lemma parse_named_len : forall st n st', parse_named st = Ok (n, st') -> len st = S (len st').
Proof. intros st n st' H. apply parse_named_tok in H. destruct H as (t & C & _). rewrite (consumes_len _ _ _ C). reflexivity. Qed.

Lemma expect_nf : forall k st, expect k st <> OutOfFuel.
Proof. intros k [pe [|t r]]; unfold expect; simpl; [discriminate|]. destruct (tkind_beq (tk t) k); discriminate. Qed.
Lemma expect_kw_nf : forall w st, expect_kw w st <> OutOfFuel.
Proof. intros w [pe [|t r]]; unfold expect_kw; simpl; [discriminate|]. destruct (tkind_beq (tk t) NAME && bytes_eqb (tval t) w); discriminate. Qed.
Lemma advance_nf : forall st, advance st <> OutOfFuel.
Proof. intros [pe [|t r]]; unfold advance; simpl; discriminate. Qed.
Lemma skip_nf : forall k st, skip k st <> OutOfFuel.
Proof. intros k st. unfold skip. destruct (peek k st); [|discriminate]. pose proof (advance_nf st). destruct (advance st); [discriminate|discriminate|contradiction]. Qed.
Lemma parse_name_nf : forall st, parse_name st <> OutOfFuel.
Proof. intro st. unfold parse_name. pose proof (expect_nf NAME st). destruct (expect NAME st) as [[? ?]| |]; [discriminate|discriminate|contradiction]. Qed.
Lemma parse_named_nf : forall st, parse_named st <> OutOfFuel.
Proof. intro st. unfold parse_named. pose proof (parse_name_nf st). destruct (parse_name st) as [[? ?]| |]; [discriminate|discriminate|contradiction]. Qed.

(* one step of a chain: the sub-call does not run out of fuel (tac proves that), so either it
   fails (the whole chain fails) or it returns and the rest is considered *)
Ltac tstep tac :=
  cbv zeta; try (match goal with |- ?X = OutOfFuel -> False => change (X <> OutOfFuel) end);
  match goal with
  | |- (match ?e with Ok _ => _ | Err => Err | OutOfFuel => OutOfFuel end) <> OutOfFuel =>
    let E := fresh "E" in let x := fresh "x" in let s := fresh "s" in
    destruct e as [[x s]| |] eqn:E; [cbv beta iota | discriminate | exfalso; revert E; tac]
  end.
Ltac tstep1 tac :=
  cbv zeta; try (match goal with |- ?X = OutOfFuel -> False => change (X <> OutOfFuel) end);
  match goal with
  | |- (match ?e with Ok _ => _ | Err => Err | OutOfFuel => OutOfFuel end) <> OutOfFuel =>
    let E := fresh "E" in let x := fresh "x" in
    destruct e as [x| |] eqn:E; [cbv beta iota | discriminate | exfalso; revert E; tac]
  end.

Section Loops.
  Context {A : Type}.
  Variable item : pst -> res (A * pst).
  Variable n : nat.
  Hypothesis item_nf : NF item n.
  Hypothesis item_shrinks : Shrinks item.

  Lemma many_nf : forall close fuel st, (len st < fuel)%nat -> (len st < n)%nat -> many fuel item close st <> OutOfFuel.
  Proof.
    intros close fuel. induction fuel as [|f IH]; intros st H1 H2; [lia|]. cbn [many].
    destruct (peek close st).
    - tstep1 ltac:(apply advance_nf). discriminate.
    - tstep ltac:(apply item_nf; exact H2). apply item_shrinks in E.
      specialize (IH s ltac:(lia) ltac:(lia)). destruct (many f item close s) as [[? ?]| |]; [discriminate|discriminate|contradiction].
  Qed.

  Lemma reverse_nf : forall open close ne fuel st, (len st <= fuel)%nat -> (len st <= n)%nat ->
    reverse fuel open item close ne st <> OutOfFuel.
  Proof.
    intros open close ne fuel st H1 H2. unfold reverse. tstep ltac:(apply expect_nf). apply expect_len in E.
    pose proof (many_nf close fuel s ltac:(lia) ltac:(lia)) as X.
    destruct (many fuel item close s) as [[l s']| |]; [|discriminate|contradiction]. cbv beta iota.
    destruct (ne && is_nil l); discriminate.
  Qed.

  Lemma while_peek_nf : forall k fuel st, (len st < fuel)%nat -> (len st < n)%nat -> while_peek fuel k item st <> OutOfFuel.
  Proof.
    intros k fuel. induction fuel as [|f IH]; intros st H1 H2; [lia|]. cbn [while_peek].
    destruct (peek k st); [|discriminate].
    tstep ltac:(apply item_nf; exact H2). apply item_shrinks in E.
    specialize (IH s ltac:(lia) ltac:(lia)). destruct (while_peek f k item s) as [[? ?]| |]; [discriminate|discriminate|contradiction].
  Qed.

  Lemma sep_by_nf : forall sep fuel st, (len st < fuel)%nat -> (len st < n)%nat -> sep_by fuel sep item st <> OutOfFuel.
  Proof.
    intros sep fuel. induction fuel as [|f IH]; intros st H1 H2; [lia|]. cbn [sep_by].
    tstep ltac:(apply item_nf; exact H2). apply item_shrinks in E.
    tstep ltac:(apply skip_nf). apply skip_len in E0.
    destruct x0; [|discriminate].
    specialize (IH s0 ltac:(lia) ltac:(lia)). destruct (sep_by f sep item s0) as [[? ?]| |]; [discriminate|discriminate|contradiction].
  Qed.
End Loops.

(* ---- values, types ---- *)
Lemma DValue_nonnil : forall c p v, DValue c p v -> p <> [].
Proof. intros c p v D. destruct (DValue_first _ _ _ D) as (t & p' & -> & _). discriminate. Qed.

Lemma parse_variable_nf : forall st, parse_variable st <> OutOfFuel.
Proof.
  intro st. unfold parse_variable. tstep ltac:(apply expect_nf). tstep ltac:(apply parse_name_nf). discriminate.
Qed.

Lemma parse_value_nf : forall fuel c, NF (parse_value fuel c) fuel.
Proof.
  induction fuel as [|f IH]; intros c st H; [unfold len in H; lia|]. cbn [parse_value].
  destruct (snd st) as [|t r] eqn:Hs; [discriminate|].
  assert (L : len st = S (List.length r)) by (unfold len; rewrite Hs; reflexivity).
  destruct (tk t); try discriminate.
  - destruct c; [discriminate|apply parse_variable_nf].
  - pose proof (reverse_nf (parse_value f c) f (IH c)
        (sound_shrinks _ _ _ (parse_value_sound f c) (DValue_nonnil c)) BRACKET_L BRACKET_R false f st ltac:(lia) ltac:(lia)) as X.
    destruct (reverse f BRACKET_L (parse_value f c) BRACKET_R false st) as [[? ?]| |]; [discriminate|discriminate|contradiction].
  - assert (NFo : NF (parse_objfield_with (parse_value f c)) f).
    { intros st0 H0. unfold parse_objfield_with. tstep ltac:(apply parse_name_nf). apply parse_name_len in E.
      tstep ltac:(apply expect_nf). apply expect_len in E0.
      tstep ltac:(apply IH; lia). discriminate. }
    pose proof (reverse_nf (parse_objfield_with (parse_value f c)) f NFo
        (sound_shrinks _ _ _ (objfield_sound _ _ (parse_value_sound f c)) ltac:(intros p a D; destruct D; discriminate))
        BRACE_L BRACE_R false f st ltac:(lia) ltac:(lia)) as X.
    destruct (reverse f BRACE_L (parse_objfield_with (parse_value f c)) BRACE_R false st) as [[? ?]| |]; [discriminate|discriminate|contradiction].
  - destruct (bytes_eqb (tval t) (kw "true")); [discriminate|].
    destruct (bytes_eqb (tval t) (kw "false")); [discriminate|].
    destruct (bytes_eqb (tval t) (kw "null")); discriminate.
Qed.

Lemma parse_type_nf : forall fuel, NF (parse_type fuel) fuel.
Proof.
  induction fuel as [|f IH]; intros st H; [unfold len in H; lia|]. cbn [parse_type].
  destruct (snd st) as [|t r] eqn:Hs; [discriminate|].
  assert (L : len st = S (List.length r)) by (unfold len; rewrite Hs; reflexivity).
  tstep ltac:(idtac).
  - tstep ltac:(apply skip_nf). destruct x0; discriminate.
  - destruct (tk t); try discriminate.
    + tstep1 ltac:(apply advance_nf). apply advance_len in E.
      tstep ltac:(apply IH; lia). tstep ltac:(apply expect_nf). discriminate.
    + tstep ltac:(apply parse_named_nf). discriminate.
Qed.

(* ---- automation: sub-calls that never run out of fuel, and how much input they leave ---- *)
Ltac nf_more := fail.
Ltac len_more E := fail.
Ltac nf_solve := first
  [ apply expect_nf | apply expect_kw_nf | apply advance_nf | apply skip_nf | apply parse_name_nf
  | apply parse_named_nf | apply parse_variable_nf
  | (apply parse_value_nf; lia) | (apply parse_type_nf; lia) | nf_more ].
Ltac len_fact E := first
  [ apply expect_len in E | apply expect_kw_len in E | apply parse_name_len in E | apply parse_named_len in E
  | apply advance_len in E | apply skip_len in E
  | apply (sound_nogrow _ _ _ (parse_value_sound _ _)) in E | apply (sound_nogrow _ _ _ (parse_type_sound _)) in E
  | len_more E ].
Ltac go1 := tstep nf_solve; match goal with E : _ = Ok (_, _) |- _ => len_fact E end.
Ltac go := repeat go1.

Lemma parse_argument_nf : forall fuel, NF (parse_argument fuel) fuel.
Proof. intros fuel st H. unfold parse_argument. go. discriminate. Qed.

Lemma DArgument_nonnil : forall p a, DArgument p a -> p <> [].
Proof. intros p a D. destruct D. discriminate. Qed.

Lemma parse_arguments_nf : forall fuel, NF (parse_arguments fuel) fuel.
Proof.
  intros fuel st H. unfold parse_arguments. destruct (peek PAREN_L st); [|discriminate].
  apply (reverse_nf _ fuel (parse_argument_nf fuel) (sound_shrinks _ _ _ (parse_argument_sound fuel) DArgument_nonnil)); lia.
Qed.

Ltac nf_more ::= first [ (apply parse_arguments_nf; lia) ].
Ltac len_more E ::= first [ apply (sound_nogrow _ _ _ (parse_arguments_sound _)) in E ].

Lemma parse_directive_nf : forall fuel, NF (parse_directive fuel) fuel.
Proof. intros fuel st H. unfold parse_directive. go. discriminate. Qed.

Lemma DDirec_nonnil : forall p a, DDirec p a -> p <> [].
Proof. intros p a D. destruct D. discriminate. Qed.

Lemma parse_directives_nf : forall fuel, NF (parse_directives fuel) fuel.
Proof.
  intros fuel st H. unfold parse_directives.
  apply (while_peek_nf _ fuel (parse_directive_nf fuel) (sound_shrinks _ _ _ (parse_directive_sound fuel) DDirec_nonnil)); lia.
Qed.

Ltac nf_more ::= first [ (apply parse_arguments_nf; lia) | (apply parse_directives_nf; lia) ].
Ltac len_more E ::= first [ apply (sound_nogrow _ _ _ (parse_arguments_sound _)) in E
                          | apply (sound_nogrow _ _ _ (parse_directives_sound _)) in E
                          | apply (sound_nogrow _ _ _ parse_fragment_name_sound) in E ].

Lemma parse_fragment_name_nf : forall st, parse_fragment_name st <> OutOfFuel.
Proof. intro st. unfold parse_fragment_name. destruct (cur_is_kw (kw "on") st); [discriminate|apply parse_name_nf]. Qed.

(* ---- selections ---- *)
Section SelTerm.
  Variable psel : pst -> res (selset * pst).
  Variable fuel n : nat.
  Hypothesis psel_nf : NF psel n.
  Hypothesis Hn : (n <= fuel)%nat.

  Lemma parse_field_nf : forall st, (len st <= n)%nat -> parse_field_with psel fuel st <> OutOfFuel.
  Proof.
    intros st H. unfold parse_field_with. go.
    tstep ltac:(idtac).
    - destruct x1 as [al nm].
      assert (L1 : (len s1 <= len s0)%nat).
      { destruct x0.
        - destruct (parse_name s0) as [[n1 st3]| |] eqn:EN; try discriminate. apply parse_name_len in EN. inversion E1; subst. lia.
        - inversion E1; subst. lia. }
      clear E1. go. match goal with |- context [peek BRACE_L ?s] => destruct (peek BRACE_L s) end; [|discriminate].
      tstep ltac:(apply psel_nf; lia). discriminate.
    - match goal with |- context [if ?b then _ else _] => destruct b end; [|discriminate]. go. discriminate.
  Qed.

  Lemma parse_fragment_nf : forall st, (len st <= n)%nat -> parse_fragment_with psel fuel st <> OutOfFuel.
  Proof.
    intros st H. unfold parse_fragment_with. go.
    match goal with |- context [if ?b then _ else _] => destruct b end.
    - destruct (parse_fragment_name s) as [[x0 s0]| |] eqn:E0; [cbv beta iota|discriminate|exfalso; revert E0; apply parse_fragment_name_nf].
      apply (sound_nogrow _ _ _ parse_fragment_name_sound) in E0. go. discriminate.
    - tstep ltac:(idtac).
      + assert (L0 : (len s0 <= len s)%nat).
        { destruct (cur_is_kw (kw "on") s).
          - destruct (advance s) as [s1| |] eqn:EA; try discriminate. apply advance_len in EA.
            destruct (parse_named s1) as [[n1 s2]| |] eqn:EN; try discriminate. apply parse_named_len in EN. inversion E0; subst. lia.
          - inversion E0; subst. lia. }
        clear E0. go. tstep ltac:(apply psel_nf; lia). discriminate.
      + match goal with |- context [if ?b then _ else _] => destruct b end; [|discriminate]. go. discriminate.
  Qed.

  Lemma parse_selection_nf : forall st, (len st <= n)%nat -> parse_selection_with psel fuel st <> OutOfFuel.
  Proof.
    intros st H. unfold parse_selection_with. destruct (peek SPREAD st); [apply parse_fragment_nf|apply parse_field_nf]; exact H.
  Qed.
End SelTerm.

Lemma DSelection_nonnil : forall p a, DSelectionOf DSelSet p a -> p <> [].
Proof. intros p a D. destruct (selection_first _ _ D) as (t & p' & -> & _). discriminate. Qed.

Lemma parse_selset_nf : forall fuel, NF (parse_selset fuel) fuel.
Proof.
  induction fuel as [|f IH]; intros st H; [unfold len in H; lia|]. cbn [parse_selset]. cbv zeta.
  assert (X : reverse f BRACE_L (parse_selection_with (parse_selset f) f) BRACE_R true st <> OutOfFuel).
  { apply (reverse_nf (parse_selection_with (parse_selset f) f) f).
    - intros st0 H0. apply (parse_selection_nf (parse_selset f) f f IH (le_n f)). lia.
    - apply (sound_shrinks _ _ _ (parse_selection_sound _ f (parse_selset_sound f)) DSelection_nonnil).
    - lia.
    - lia. }
  destruct (reverse f BRACE_L (parse_selection_with (parse_selset f) f) BRACE_R true st) as [[? ?]| |]; [discriminate|discriminate|contradiction].
Qed.

Ltac nf_more ::= first [ (apply parse_arguments_nf; lia) | (apply parse_directives_nf; lia) | (apply parse_selset_nf; lia)
                       | apply parse_fragment_name_nf ].
Ltac len_more E ::= first [ apply (sound_nogrow _ _ _ (parse_arguments_sound _)) in E
                          | apply (sound_nogrow _ _ _ (parse_directives_sound _)) in E
                          | apply (sound_nogrow _ _ _ parse_fragment_name_sound) in E
                          | apply (sound_nogrow _ _ _ (parse_selset_sound _)) in E ].

(* ---- operations, fragments ---- *)
Lemma parse_optype_nf : forall st, parse_optype st <> OutOfFuel.
Proof.
  intro st. unfold parse_optype. tstep ltac:(apply expect_nf).
  destruct (bytes_eqb (tval x) (kw "query")); [discriminate|].
  destruct (bytes_eqb (tval x) (kw "mutation")); [discriminate|].
  destruct (bytes_eqb (tval x) (kw "subscription")); discriminate.
Qed.
Lemma parse_optype_len : forall st o st', parse_optype st = Ok (o, st') -> len st = S (len st').
Proof. intros st o st' H. apply parse_optype_ok in H. destruct H as (k & C & _). rewrite (consumes_len _ _ _ C). reflexivity. Qed.

Lemma default_nf : forall fuel (b : bool) st5, (len st5 < fuel)%nat ->
  (if b then ' (v, st6) <- parse_value fuel true st5 ;; Ok (Some v, st6) else Ok (None, st5)) <> OutOfFuel.
Proof. intros fuel b st5 H. destruct b; [|discriminate]. go. discriminate. Qed.
Lemma default_len : forall fuel (b : bool) st5 dv st6,
  (if b then ' (v, st6) <- parse_value fuel true st5 ;; Ok (Some v, st6) else Ok (None, st5)) = Ok (dv, st6) -> (len st6 <= len st5)%nat.
Proof.
  intros fuel b st5 dv st6 H. destruct b; [|inversion H; subst; lia].
  destruct (parse_value fuel true st5) as [[v s]| |] eqn:E; try discriminate.
  apply (sound_nogrow _ _ _ (parse_value_sound _ _)) in E. inversion H; subst. lia.
Qed.

Lemma parse_vardef_nf : forall fuel, NF (parse_vardef fuel) fuel.
Proof.
  intros fuel st H. unfold parse_vardef. go.
  match goal with |- context [if ?b then _ else _] => destruct b end; [|discriminate]. go. discriminate.
Qed.
Lemma DVarDef_nonnil : forall p a, DVarDef p a -> p <> [].
Proof. intros p a D. destruct D. discriminate. Qed.
Lemma parse_vardefs_nf : forall fuel, NF (parse_vardefs fuel) fuel.
Proof.
  intros fuel st H. unfold parse_vardefs. destruct (peek PAREN_L st); [|discriminate].
  apply (reverse_nf _ fuel (parse_vardef_nf fuel) (sound_shrinks _ _ _ (parse_vardef_sound fuel) DVarDef_nonnil)); lia.
Qed.

Ltac nf_more ::= first [ (apply parse_arguments_nf; lia) | (apply parse_directives_nf; lia) | (apply parse_selset_nf; lia)
                       | apply parse_fragment_name_nf | apply parse_optype_nf | (apply parse_vardefs_nf; lia) ].
Ltac len_more E ::= first [ apply (sound_nogrow _ _ _ (parse_arguments_sound _)) in E
                          | apply (sound_nogrow _ _ _ (parse_directives_sound _)) in E
                          | apply (sound_nogrow _ _ _ parse_fragment_name_sound) in E
                          | apply (sound_nogrow _ _ _ (parse_selset_sound _)) in E
                          | apply parse_optype_len in E
                          | apply (sound_nogrow _ _ _ (parse_vardefs_sound _)) in E ].

Lemma parse_operation_nf : forall fuel, NF (parse_operation fuel) fuel.
Proof.
  intros fuel st H. unfold parse_operation. destruct (peek BRACE_L st).
  - go. discriminate.
  - go. tstep ltac:(idtac).
    + assert (L0 : (len s0 <= len s)%nat).
      { destruct (peek NAME s); [|inversion E0; subst; lia].
        destruct (parse_name s) as [[n1 s2]| |] eqn:EN; try discriminate. apply parse_name_len in EN. inversion E0; subst. lia. }
      clear E0. go. discriminate.
    + destruct (peek NAME s); [|discriminate]. go. discriminate.
Qed.

Lemma parse_fragment_definition_nf : forall fuel, NF (parse_fragment_definition fuel) fuel.
Proof. intros fuel st H. unfold parse_fragment_definition. go. discriminate. Qed.

(* ---- type-system definitions ---- *)
Lemma parse_description_nf : forall st, parse_description st <> OutOfFuel.
Proof. intro st. unfold parse_description. destruct (snd st); [discriminate|]. destruct (peek_description st); discriminate. Qed.

Ltac nf_more ::= first [ (apply parse_arguments_nf; lia) | (apply parse_directives_nf; lia) | (apply parse_selset_nf; lia)
                       | apply parse_fragment_name_nf | apply parse_optype_nf | (apply parse_vardefs_nf; lia)
                       | apply parse_description_nf | (apply default_nf; lia) ].
Ltac len_more E ::= first [ apply (sound_nogrow _ _ _ (parse_arguments_sound _)) in E
                          | apply (sound_nogrow _ _ _ (parse_directives_sound _)) in E
                          | apply (sound_nogrow _ _ _ parse_fragment_name_sound) in E
                          | apply (sound_nogrow _ _ _ (parse_selset_sound _)) in E
                          | apply parse_optype_len in E
                          | apply (sound_nogrow _ _ _ (parse_vardefs_sound _)) in E
                          | apply (sound_nogrow _ _ _ parse_description_sound) in E
                          | apply default_len in E ].

Lemma parse_ivdef_nf : forall fuel, NF (parse_ivdef fuel) fuel.
Proof. intros fuel st H. unfold parse_ivdef. go. discriminate. Qed.
Lemma DIVDef_nonnil : forall p a, DIVDef p a -> p <> [].
Proof. intros p a D. destruct D. intro X. apply app_eq_nil in X. destruct X as [_ X]. discriminate. Qed.
Lemma parse_argdefs_nf : forall fuel, NF (parse_argdefs fuel) fuel.
Proof.
  intros fuel st H. unfold parse_argdefs. destruct (peek PAREN_L st); [|discriminate].
  apply (reverse_nf _ fuel (parse_ivdef_nf fuel) (sound_shrinks _ _ _ (parse_ivdef_sound fuel) DIVDef_nonnil)); lia.
Qed.

Ltac nf_more2 := first [ (apply parse_argdefs_nf; lia) ].
Ltac len_more2 E := first [ apply (sound_nogrow _ _ _ (parse_argdefs_sound _)) in E ].
Ltac go2 := repeat (first [ go1 | (tstep nf_more2; match goal with E : _ = Ok (_, _) |- _ => len_more2 E end) ]).

Lemma parse_fielddef_nf : forall fuel, NF (parse_fielddef fuel) fuel.
Proof. intros fuel st H. unfold parse_fielddef. go2. discriminate. Qed.
Lemma DFieldDef_nonnil : forall p a, DFieldDef p a -> p <> [].
Proof. intros p a D. destruct D. intro X. apply app_eq_nil in X. destruct X as [_ X]. discriminate. Qed.

Lemma parse_optypedef_nf : forall st, parse_optypedef st <> OutOfFuel.
Proof. intro st. unfold parse_optypedef. go. discriminate. Qed.
Lemma DOpTypeDef_nonnil : forall p a, DOpTypeDef p a -> p <> [].
Proof. intros p a D. destruct D. discriminate. Qed.
Lemma DNamed_nonnil : forall p a, DNamed p a -> p <> [].
Proof. intros p a D. destruct D. discriminate. Qed.
Lemma DName_nonnil : forall p a, DName p a -> p <> [].
Proof. intros p a D. destruct D. discriminate. Qed.

Lemma parse_implements_nf : forall fuel, NF (parse_implements fuel) fuel.
Proof.
  intros fuel st H. unfold parse_implements. destruct (cur_is_kw (kw "implements") st); [|discriminate]. go.
  apply (sep_by_nf parse_named fuel (fun st0 _ => parse_named_nf st0) (sound_shrinks _ _ _ parse_named_sound DNamed_nonnil)); lia.
Qed.

Lemma reverse_nf_le : forall A (item : pst -> res (A * pst)) I fuel open close ne st,
  NF item fuel -> Sound item I -> (forall p a, I p a -> p <> []) -> (len st <= fuel)%nat ->
  reverse fuel open item close ne st <> OutOfFuel.
Proof. intros A item I fuel open close ne st N S NN H. apply (reverse_nf item fuel N (sound_shrinks _ _ _ S NN)); lia. Qed.

Lemma parse_objdef_nf : forall fuel, NF (parse_objdef fuel) fuel.
Proof.
  intros fuel st H. unfold parse_objdef. go.
  tstep ltac:(apply parse_implements_nf; lia). apply (sound_nogrow _ _ _ (parse_implements_sound _)) in E2. go.
  tstep ltac:(apply (reverse_nf_le _ _ _ _ _ _ _ _ (parse_fielddef_nf fuel) (parse_fielddef_sound fuel) DFieldDef_nonnil); lia).
  discriminate.
Qed.

Lemma parse_enumvaldef_nf : forall fuel, NF (parse_enumvaldef fuel) fuel.
Proof. intros fuel st H. unfold parse_enumvaldef. go. discriminate. Qed.
Lemma DEnumValDef_nonnil : forall p a, DEnumValDef p a -> p <> [].
Proof. intros p a D. destruct D. intro X. apply app_eq_nil in X. destruct X as [_ X]. discriminate. Qed.

Lemma parse_schema_definition_nf : forall fuel, NF (parse_schema_definition fuel) fuel.
Proof.
  intros fuel st H. unfold parse_schema_definition. go.
  tstep ltac:(apply (reverse_nf_le _ _ _ _ _ _ _ _ (fun st0 _ => parse_optypedef_nf st0) parse_optypedef_sound DOpTypeDef_nonnil); lia).
  discriminate.
Qed.
Lemma parse_scalar_definition_nf : forall fuel, NF (parse_scalar_definition fuel) fuel.
Proof. intros fuel st H. unfold parse_scalar_definition. go. discriminate. Qed.
Lemma parse_interface_definition_nf : forall fuel, NF (parse_interface_definition fuel) fuel.
Proof.
  intros fuel st H. unfold parse_interface_definition. go.
  tstep ltac:(apply (reverse_nf_le _ _ _ _ _ _ _ _ (parse_fielddef_nf fuel) (parse_fielddef_sound fuel) DFieldDef_nonnil); lia).
  discriminate.
Qed.
Lemma parse_union_definition_nf : forall fuel, NF (parse_union_definition fuel) fuel.
Proof.
  intros fuel st H. unfold parse_union_definition. go.
  tstep ltac:(apply (sep_by_nf parse_named fuel (fun st0 _ => parse_named_nf st0) (sound_shrinks _ _ _ parse_named_sound DNamed_nonnil)); lia).
  discriminate.
Qed.
Lemma parse_enum_definition_nf : forall fuel, NF (parse_enum_definition fuel) fuel.
Proof.
  intros fuel st H. unfold parse_enum_definition. go.
  tstep ltac:(apply (reverse_nf_le _ _ _ _ _ _ _ _ (parse_enumvaldef_nf fuel) (parse_enumvaldef_sound fuel) DEnumValDef_nonnil); lia).
  discriminate.
Qed.
Lemma parse_input_definition_nf : forall fuel, NF (parse_input_definition fuel) fuel.
Proof.
  intros fuel st H. unfold parse_input_definition. go.
  tstep ltac:(apply (reverse_nf_le _ _ _ _ _ _ _ _ (parse_ivdef_nf fuel) (parse_ivdef_sound fuel) DIVDef_nonnil); lia).
  discriminate.
Qed.
Lemma parse_extend_definition_nf : forall fuel, NF (parse_extend_definition fuel) fuel.
Proof. intros fuel st H. unfold parse_extend_definition. go. tstep ltac:(apply parse_objdef_nf; lia). discriminate. Qed.
Lemma parse_directive_definition_nf : forall fuel, NF (parse_directive_definition fuel) fuel.
Proof.
  intros fuel st H. unfold parse_directive_definition. go2.
  tstep ltac:(apply (sep_by_nf parse_name fuel (fun st0 _ => parse_name_nf st0) (sound_shrinks _ _ _ parse_name_sound DName_nonnil)); lia).
  discriminate.
Qed.

Lemma parse_definition_nf : forall fuel, NF (parse_definition fuel) fuel.
Proof.
  intros fuel st H. unfold parse_definition. destruct (peek BRACE_L st); [apply parse_operation_nf; exact H|].
  destruct (peek NAME st || peek STRING st || peek BLOCK_STRING st); [|discriminate].
  unfold parse_type_system_definition. destruct (keyword_token st) as [k|]; [|discriminate].
  destruct (negb (tkind_beq (tk k) NAME)); [discriminate|].
  destruct (bytes_eqb (tval k) (kw "fragment")); [apply parse_fragment_definition_nf; exact H|].
  destruct (bytes_eqb (tval k) (kw "query") || bytes_eqb (tval k) (kw "mutation") || bytes_eqb (tval k) (kw "subscription"));
    [apply parse_operation_nf; exact H|].
  destruct (bytes_eqb (tval k) (kw "schema")); [apply parse_schema_definition_nf; exact H|].
  destruct (bytes_eqb (tval k) (kw "scalar")); [apply parse_scalar_definition_nf; exact H|].
  destruct (bytes_eqb (tval k) (kw "type")).
  { tstep ltac:(apply parse_objdef_nf; exact H). discriminate. }
  destruct (bytes_eqb (tval k) (kw "interface")); [apply parse_interface_definition_nf; exact H|].
  destruct (bytes_eqb (tval k) (kw "union")); [apply parse_union_definition_nf; exact H|].
  destruct (bytes_eqb (tval k) (kw "enum")); [apply parse_enum_definition_nf; exact H|].
  destruct (bytes_eqb (tval k) (kw "input")); [apply parse_input_definition_nf; exact H|].
  destruct (bytes_eqb (tval k) (kw "extend")); [apply parse_extend_definition_nf; exact H|].
  destruct (bytes_eqb (tval k) (kw "directive")); [apply parse_directive_definition_nf; exact H|discriminate].
Qed.

Lemma DDefinition_nonnil : forall p d, DDefinition p d -> p <> [].
Proof.
  intros p d D. destruct D as [p o Do|p f Df|p d Dt].
  - destruct Do as [p ss Ds|]; [eapply selset_nonnil; eassumption|discriminate].
  - destruct Df. discriminate.
  - destruct Dt; try discriminate; try (intro X; apply app_eq_nil in X; destruct X as [_ X]; discriminate).
    match goal with H : DObjDef _ _ |- _ => destruct H end. intro X; apply app_eq_nil in X; destruct X as [_ X]; discriminate.
Qed.

Theorem parse_document_terminates : forall fuel ts, (List.length ts < fuel)%nat -> parse_document fuel ts <> OutOfFuel.
Proof.
  intros fuel ts H. unfold parse_document. cbv zeta.
  pose proof (many_nf (parse_definition fuel) fuel (parse_definition_nf fuel)
                (sound_shrinks _ _ _ (parse_definition_sound fuel) DDefinition_nonnil) EOF fuel (0, ts) H H) as X.
  destruct (many fuel (parse_definition fuel) EOF (0, ts)) as [[defs s]| |]; [|discriminate|contradiction].
  cbv beta iota. destruct (is_nil defs); [discriminate|]. destruct (snd s); discriminate.
Qed.

Theorem parse_tokens_terminates : forall ts, parse_tokens ts <> OutOfFuel.
Proof. intro ts. unfold parse_tokens. apply parse_document_terminates. lia. Qed.
