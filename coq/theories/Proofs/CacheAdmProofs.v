(* The transition relation that the runner accepts as "some eviction policy"
   (CacheSpec.adm_get / adm_bypass) holds of every Get of the model, for every
   eviction policy that names a retained key. *)
From Coq Require Import List NArith ZArith Bool Lia.
From GQL Require Import Base.Bytes Cache.LRU Cache.CacheSpec Proofs.CacheProofs.
Import ListNotations.
Open Scope N_scope.

Section Adm.
  Context {R : Type}.
  Variable kid : bytes -> N.
  Hypothesis kid_inj : forall a b, kid a = kid b -> a = b.

  Definition proj (e : entry R) : pent := (kid (e_key e), e_schema e).

  Lemma pent_eqb_true : forall a b, pent_eqb a b = true <-> a = b.
  Proof.
    intros [a1 a2] [b1 b2]. unfold pent_eqb. simpl. rewrite andb_true_iff, !N.eqb_eq.
    split; [intros [-> ->]; reflexivity|intro H; injection H; auto].
  Qed.

  Lemma mem_pent_In : forall a l, mem_pent a l = true <-> In a l.
  Proof.
    intros a l. unfold mem_pent. rewrite existsb_exists. split.
    - intros [x [Hx E]]. apply pent_eqb_true in E. subst. exact Hx.
    - intro H. exists a. split; [exact H|apply pent_eqb_true; reflexivity].
  Qed.

  Lemma subset_pent_incl : forall l1 l2, subset_pent l1 l2 = true <-> incl l1 l2.
  Proof.
    intros l1 l2. unfold subset_pent. rewrite forallb_forall. split.
    - intros H x Hx. apply mem_pent_In. apply H. exact Hx.
    - intros H x Hx. apply mem_pent_In. apply H. exact Hx.
  Qed.

  Lemma has_kid_In : forall k l, has_kid k l = true <-> In k (map fst l).
  Proof.
    intros k l. unfold has_kid. rewrite existsb_exists. split.
    - intros [x [Hx E]]. apply N.eqb_eq in E. subst. apply in_map. exact Hx.
    - intro H. apply in_map_iff in H. destruct H as [x [E Hx]]. exists x. split; [exact Hx|apply N.eqb_eq; exact E].
  Qed.

  Lemma nodup_kid_NoDup : forall l, NoDup (map fst l) -> nodup_kid l = true.
  Proof.
    induction l as [|a l IH]; simpl; intro H; [reflexivity|].
    inversion H as [|? ? Hn Hd]; subst. apply andb_true_iff. split; [|apply IH; exact Hd].
    apply negb_true_iff. destruct (has_kid (fst a) l) eqn:E; [|reflexivity].
    apply has_kid_In in E. contradiction.
  Qed.

  Lemma proj_keys_NoDup : forall es : list (entry R), NoDup (map e_key es) -> NoDup (map fst (map proj es)).
  Proof.
    intros es H. rewrite map_map. simpl.
    induction es as [|e es IH]; simpl; [constructor|].
    inversion H as [|? ? Hn Hd]; subst. constructor; [|apply IH; exact Hd].
    intro Hin. apply Hn. apply in_map_iff in Hin. destruct Hin as [x [E Hx]].
    apply kid_inj in E. apply in_map_iff. exists x. split; assumption.
  Qed.

  Lemma proj_remove : forall k (es : list (entry R)), map proj (remove_key k es) = remove_kid (kid k) (map proj es).
  Proof.
    intros k es. unfold remove_key, remove_kid. induction es as [|e es IH]; simpl; [reflexivity|].
    unfold has_key at 1. destruct (bytes_eqb (e_key e) k) eqn:E; simpl.
    - apply bytes_eqb_eq in E. rewrite E, N.eqb_refl. simpl. exact IH.
    - destruct (kid (e_key e) =? kid k) eqn:E2.
      + apply N.eqb_eq in E2. apply kid_inj in E2. apply bytes_eqb_eq in E2. congruence.
      + simpl. rewrite IH. reflexivity.
  Qed.

  Lemma remove_key_absent : forall k (es : list (entry R)), ~ In k (map e_key es) -> remove_key k es = es.
  Proof.
    intros k es. unfold remove_key. induction es as [|e es IH]; simpl; intro H; [reflexivity|].
    destruct (has_key k e) eqn:E.
    - apply has_key_true in E. exfalso. apply H. left. exact E.
    - simpl. rewrite IH; [reflexivity|]. intro Hin. apply H. right. exact Hin.
  Qed.

  Lemma remove_key_length_exact : forall k (es : list (entry R)),
    NoDup (map e_key es) -> In k (map e_key es) -> S (length (remove_key k es)) = length es.
  Proof.
    intros k es. unfold remove_key. induction es as [|e es IH]; simpl; intros Hd Hin; [contradiction|].
    inversion Hd as [|? ? Hn Hd']; subst. destruct (has_key k e) eqn:E; simpl.
    - apply has_key_true in E. subst k. f_equal.
      change (filter (fun e0 => negb (has_key (e_key e) e0)) es) with (remove_key (e_key e) es).
      rewrite remove_key_absent; [reflexivity|exact Hn].
    - destruct Hin as [Hin|Hin]; [apply has_key_true in Hin; congruence|].
      rewrite (IH Hd' Hin). reflexivity.
  Qed.

  Section Policy.
    Variable victim : list (entry R) -> bytes.
    Hypothesis victim_present : forall es, es <> [] -> In (victim es) (map e_key es).

    Lemma evict_length : forall fuel max (es : list (entry R)), NoDup (map e_key es) -> (length es <= fuel)%nat ->
      nlen (evict victim fuel max es) = N.min (nlen es) max.
    Proof.
      induction fuel as [|f IH]; intros max es Hd Hl; simpl.
      - destruct es; simpl in Hl; [|lia]. unfold nlen. simpl. lia.
      - destruct (max <? nlen es) eqn:E.
        + apply N.ltb_lt in E.
          assert (Hne : es <> []) by (intro Z; subst es; unfold nlen in E; simpl in E; lia).
          pose proof (remove_key_length_exact _ _ Hd (victim_present es Hne)) as HL.
          rewrite IH; [|apply remove_key_NoDup; exact Hd|lia].
          unfold nlen in *. lia.
        + apply N.ltb_ge in E. lia.
    Qed.

    Lemma evict_noop : forall fuel max (es : list (entry R)), nlen es <= max -> evict victim fuel max es = es.
    Proof.
      intros fuel max es H. destruct fuel; simpl; [reflexivity|].
      destruct (max <? nlen es) eqn:E; [apply N.ltb_lt in E; lia|reflexivity].
    Qed.

    (* a Get on the cached path *)
    Lemma lookup_store_admissible : forall (c : cfg) (s : state R) sch k (v : R),
      NoDup (map e_key (entries s)) ->
      let P := map proj (entries s) in
      match lookup s sch k with
      | (s1, Some _) => adm_get (eff_max c) P (kid k) sch 1 (map proj (entries s1)) = true
      | (s1, None) => adm_get (eff_max c) P (kid k) sch 2 (map proj (entries (store victim c s1 sch k v))) = true
      end.
    Proof.
      intros c s sch k v Hd P.
      destruct (lookup s sch k) as [s1 [r|]] eqn:LK.
      - (* hit *)
        unfold lookup in LK. destruct (find_key k (entries s)) as [e|] eqn:F; [|discriminate].
        destruct (e_schema e =? sch) eqn:ES; [|discriminate]. injection LK as <- _. simpl entries.
        destruct (find_key_some _ _ _ F) as [Hin Hk]. apply N.eqb_eq in ES.
        unfold adm_get. apply andb_true_iff. split.
        + apply nodup_kid_NoDup. apply proj_keys_NoDup. simpl. constructor.
          * rewrite Hk. apply remove_key_notin.
          * apply remove_key_NoDup. exact Hd.
        + rewrite !andb_true_iff. repeat split.
          * apply mem_pent_In. unfold P. apply in_map_iff. exists e. split; [|exact Hin]. unfold proj. rewrite Hk, ES. reflexivity.
          * apply subset_pent_incl. intros x Hx. simpl in Hx. destruct Hx as [Hx|Hx].
            -- subst x. unfold P. apply in_map. exact Hin.
            -- apply in_map_iff in Hx. destruct Hx as [y [Ey Hy]]. subst x. unfold P. apply in_map. eapply remove_key_In. exact Hy.
          * apply subset_pent_incl. intros x Hx. unfold P in Hx. apply in_map_iff in Hx. destruct Hx as [y [Ey Hy]]. subst x.
            simpl. destruct (bytes_eqb (e_key y) k) eqn:Ek.
            -- apply bytes_eqb_eq in Ek. left.
               (* y and e carry the same key in a list without duplicate keys *)
               assert (y = e).
               { clear - Hd Hin Hy Ek Hk. induction (entries s) as [|z zs IH]; [contradiction|].
                 simpl in Hd. inversion Hd as [|? ? Hn Hd']; subst.
                 destruct Hin as [Hin|Hin]; destruct Hy as [Hy|Hy]; subst.
                 - reflexivity.
                 - exfalso. apply Hn. apply in_map_iff. exists y. split; [congruence|exact Hy].
                 - exfalso. apply Hn. apply in_map_iff. exists e. split; [congruence|exact Hin].
                 - apply IH; assumption. }
               subst y. reflexivity.
            -- right. apply in_map. unfold remove_key. apply filter_In. split; [exact Hy|].
               unfold has_key. rewrite Ek. reflexivity.
      - (* miss *)
        assert (Habs : ~ In k (map e_key (entries s1))) by (eapply lookup_miss_absent; exact LK).
        assert (Hd1 : NoDup (map e_key (entries s1))).
        { replace s1 with (fst (lookup s sch k)) by (rewrite LK; reflexivity). apply lookup_NoDup. exact Hd. }
        assert (E1 : map proj (entries s1) = remove_kid (kid k) P /\ ~ In (kid k, sch) P).
        { unfold lookup in LK. destruct (find_key k (entries s)) as [e|] eqn:F.
          - destruct (e_schema e =? sch) eqn:ES; [discriminate|]. injection LK as <-. simpl. split; [unfold P; apply proj_remove|].
            intro Hin. unfold P in Hin. apply in_map_iff in Hin. destruct Hin as [y [Ey Hy]]. unfold proj in Ey.
            injection Ey as Ek Es. apply kid_inj in Ek.
            destruct (find_key_some _ _ _ F) as [Hine Hke].
            assert (y = e).
            { clear - Hd Hine Hy Ek Hke. induction (entries s) as [|z zs IH]; [contradiction|].
              simpl in Hd. inversion Hd as [|? ? Hn Hd']; subst.
              destruct Hine as [Hine|Hine]; destruct Hy as [Hy|Hy]; subst.
              - reflexivity.
              - exfalso. apply Hn. apply in_map_iff. exists y. split; [congruence|exact Hy].
              - exfalso. apply Hn. apply in_map_iff. exists e. split; [congruence|exact Hine].
              - apply IH; assumption. }
            subst y. apply N.eqb_neq in ES. congruence.
          - injection LK as <-. simpl. split.
            + unfold P. rewrite <- proj_remove. rewrite remove_key_absent; [reflexivity|apply find_key_none; exact F].
            + intro Hin. unfold P in Hin. apply in_map_iff in Hin. destruct Hin as [y [Ey Hy]]. unfold proj in Ey.
              injection Ey as Ek _. apply kid_inj in Ek. apply (find_key_none _ _ F). apply in_map_iff. exists y. split; assumption. }
        destruct E1 as [E1 Hnot].
        unfold LRU.store. destruct (find_key k (entries s1)) as [e|] eqn:F1.
        { exfalso. apply Habs. destruct (find_key_some _ _ _ F1) as [Hin Hk]. subst k. apply in_map. exact Hin. }
        cbn [entries].
        set (es := mkE k sch v :: entries s1).
        assert (Hdes : NoDup (map e_key es)) by (simpl; constructor; assumption).
        assert (Q : map proj es = (kid k, sch) :: remove_kid (kid k) P) by (simpl; rewrite E1; reflexivity).
        unfold adm_get. apply andb_true_iff. split.
        + apply nodup_kid_NoDup. apply proj_keys_NoDup. apply evict_NoDup. exact Hdes.
        + apply andb_true_iff. split.
          * apply negb_true_iff. destruct (mem_pent (kid k, sch) P) eqn:M; [|reflexivity].
            apply mem_pent_In in M. contradiction.
          * cbv zeta. rewrite <- Q. rewrite !andb_true_iff. repeat split.
            -- apply subset_pent_incl. intros x Hx. apply in_map_iff in Hx. destruct Hx as [y [Ey Hy]]. subst x.
               apply in_map. eapply evict_In. exact Hy.
            -- apply N.eqb_eq.
               assert (HN : forall l : list (entry R), nlen (map proj l) = nlen l)
                 by (intro l; unfold nlen; rewrite map_length; reflexivity).
               rewrite !HN. apply evict_length; [exact Hdes|lia].
            -- apply orb_true_iff. destruct (eff_max c <? nlen (map proj es)) eqn:E; [left; exact E|right].
               apply N.ltb_ge in E. unfold nlen in E. rewrite map_length in E.
               rewrite evict_noop; [|exact E]. apply subset_pent_incl. apply incl_refl.
    Qed.

    Lemma pents_eqb_refl : forall l, pents_eqb l l = true.
    Proof.
      induction l as [|a l IH]; simpl; [reflexivity|]. rewrite IH.
      replace (pent_eqb a a) with true; [reflexivity|]. symmetry. apply pent_eqb_true. reflexivity.
    Qed.

    Context {A : Type}.
    Variable hash : bytes -> bytes.
    Variable fresh : cfg -> req -> R.
    Variable ok : R -> bool.
    Variable synth : req -> A.
    Variable no_synth : A.

    Definition hitc (o : out R A) : N := match o_hit o with None => 0 | Some true => 1 | Some false => 2 end.

    Lemma get_admissible : forall c (s : state R) r,
      NoDup (map e_key (entries s)) ->
      let res := get hash fresh ok synth no_synth victim c s r in
      match key hash c r with
      | Some k => adm_get (eff_max c) (map proj (entries s)) (kid k) (rq_schema r) (hitc (snd res))
                          (map proj (entries (fst res))) = true
      | None => adm_bypass (map proj (entries s)) (hitc (snd res)) (map proj (entries (fst res))) = true
      end.
    Proof.
      intros c s r Hd res. unfold res, LRU.get. destruct (key hash c r) as [k|].
      - pose proof (lookup_store_admissible c s (rq_schema r) k (fresh c r) Hd) as HL.
        destruct (lookup s (rq_schema r) k) as [s1 [v|]]; simpl; exact HL.
      - simpl. unfold adm_bypass, hitc. simpl. apply pents_eqb_refl.
    Qed.
  End Policy.
End Adm.
