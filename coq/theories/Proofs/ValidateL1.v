(* Reflection of the executable brute-force oracle: whenever [L1o] returns a verdict (it
   returns None when it runs out of fuel), the verdict is the truth value of the Spec
   [L1_accepts] -- for every schema and document, cyclic or not. *)
From Coq Require Import List Arith Lia Bool String NArith.
From GQL Require Import Exec.Syntax Validate.Overlap Validate.OverlapSpec Validate.Cost
     Proofs.ValidateRules Proofs.ValidateMemo Proofs.ValidateCost.
Import ListNotations.
Open Scope string_scope.
Open Scope list_scope.

Lemma all_o_true : forall {A} (f : A -> option bool) l,
  all_o f l = Some true -> forall x, In x l -> f x = Some true.
Proof.
  intros A f l. induction l as [|y r IH]; intros H x Hx; [destruct Hx|]. simpl in H.
  destruct (f y) as [[|]|] eqn:Ey; destruct (all_o f r) as [[|]|] eqn:Er; try discriminate.
  destruct Hx as [Hx|Hx]; [subst; exact Ey | apply IH; [reflexivity | exact Hx]].
Qed.

Lemma all_o_false : forall {A} (f : A -> option bool) l,
  all_o f l = Some false -> exists x, In x l /\ f x = Some false.
Proof.
  intros A f l. induction l as [|y r IH]; intros H; [discriminate|]. simpl in H.
  destruct (f y) as [[|]|] eqn:Ey.
  - destruct (all_o f r) as [[|]|] eqn:Er; try discriminate.
    destruct (IH eq_refl) as [x [Hx Hf]]. exists x. split; [right; exact Hx | exact Hf].
  - exists y. split; [left; reflexivity | exact Ey].
  - destruct (all_o f r) as [[|]|] eqn:Er; try discriminate.
    destruct (IH eq_refl) as [x [Hx Hf]]. exists x. split; [right; exact Hx | exact Hf].
Qed.

Lemma dedup_complete' : forall l seen x, In x l -> In x seen \/ In x (dedup l seen).
Proof.
  induction l as [|y r IH]; intros seen x H; [destruct H|]. simpl.
  destruct (nmem y seen) eqn:E.
  - destruct H as [H|H]; [subst; left; apply nmem_in; exact E | apply IH; exact H].
  - destruct H as [H|H]; [subst; right; left; reflexivity|].
    destruct (IH (y :: seen) x H) as [[K|K]|K]; [subst; right; left; reflexivity | left; exact K | right; right; exact K].
Qed.

Lemma dspreads_iff : forall ss g, In g (dspreads ss) <-> In g (dspreads_raw ss).
Proof.
  intros ss g. split; [apply dspreads_raw_in|]. intro H. unfold dspreads.
  destruct (dedup_complete' _ [] g H) as [[]|K]. exact K.
Qed.

Section L1R.
Variable S : schema.
Variable D : document.
Notation EF := (EF S D).
Notation fbody := (fbody S D).
Notation compat := (compat S D (base2 S)).
Notation Fs := (fun s : fset => dfields S (fst s) (snd s)).
Definition bodyf (fr : fragment) : fset := (resolve S (fr_cond fr), fr_sel fr).

Lemma fbody_some : forall g b, fbody g = Some b <-> exists fr, frag D g = Some fr /\ b = bodyf fr.
Proof.
  intros g b. unfold OverlapSpec.fbody. destruct (frag D g) as [fr|]; simpl; split.
  - intro H. inversion H. exists fr. auto.
  - intros [fr' [H1 H2]]. inversion H1; subst. reflexivity.
  - discriminate.
  - intros [fr' [H1 _]]. discriminate.
Qed.

(* names reachable from [init] through the spreads of fragment bodies *)
Inductive RG (init : list name) : name -> Prop :=
| RG0 : forall g, In g init -> RG init g
| RGS : forall h g fr, RG init h -> frag D h = Some fr -> In g (dspreads (fr_sel fr)) -> RG init g.

Lemma reach_o_spec : forall init n seen gs,
  reach_o D n seen = Some gs ->
  (forall x, In x seen -> RG init x) -> incl init seen ->
  (forall x, In x gs -> RG init x) /\ incl init gs /\
  (forall h fr g, In h gs -> frag D h = Some fr -> In g (dspreads (fr_sel fr)) -> In g gs).
Proof.
  intros init n. induction n as [|n IH]; intros seen gs H Hs Hi; simpl in H; [discriminate|].
  destruct (forallb (fun x => nmem x seen) (flat_map (frag_spreads D) seen)) eqn:E.
  - inversion H; subst gs. split; [exact Hs|]. split; [exact Hi|].
    intros h fr g Hh Hf Hg. rewrite forallb_forall in E. apply nmem_in. apply E.
    apply in_flat_map. exists h. split; [exact Hh|]. unfold frag_spreads. rewrite Hf. exact Hg.
  - apply (IH _ gs H).
    + intros x Hx. apply dedup_incl in Hx. apply in_app_or in Hx. destruct Hx as [Hx|Hx]; [apply Hs; exact Hx|].
      apply in_flat_map in Hx. destruct Hx as [h [Hh Hx]]. unfold frag_spreads in Hx.
      destruct (frag D h) as [fr|] eqn:Ef; [|destruct Hx]. apply (RGS init h x fr (Hs h Hh) Ef Hx).
    + intros x Hx. destruct (dedup_complete' (seen ++ flat_map (frag_spreads D) seen) [] x) as [[]|K]; [|exact K].
      apply in_or_app. left. apply Hi. exact Hx.
Qed.

Lemma EF_RG : forall s e,
  EF s e <-> (In e (Fs s) \/ exists g fr, RG (dspreads (snd s)) g /\ frag D g = Some fr /\ In e (Fs (bodyf fr))).
Proof.
  intros s e. split.
  - intro H. induction H as [s e Hin | s g b e Hin Eb He IH]; [left; exact Hin|]. right.
    apply fbody_some in Eb. destruct Eb as [fr [Ef Ebb]]. subst b.
    assert (Rg : RG (dspreads (snd s)) g) by (apply RG0; apply dspreads_iff; exact Hin).
    destruct IH as [Hd|[g' [fr' [R' [Ef' Hin']]]]].
    + exists g, fr. auto.
    + exists g', fr'. split; [|auto].
      clear -R' Rg Ef. simpl in R'. induction R' as [g' Hg'|h g' fr0 Rh IHh Ef0 Hg'].
      * apply (RGS _ g g' fr Rg Ef Hg').
      * apply (RGS _ h g' fr0 IHh Ef0 Hg').
  - intros [Hd|[g [fr [R [Ef Hin]]]]]; [apply EF_d; exact Hd|].
    assert (G : forall g, RG (dspreads (snd s)) g -> forall fr e, frag D g = Some fr -> EF (bodyf fr) e -> EF s e).
    { clear. intros g R. induction R as [g Hg|h g fr0 Rh IHh Ef0 Hg]; intros fr e Ef He.
      - apply (EF_s S D s g (bodyf fr) e); [apply dspreads_iff; exact Hg | apply fbody_some; eauto | exact He].
      - apply (IHh fr0 e Ef0).
        apply (EF_s S D (bodyf fr0) g (bodyf fr) e); [apply dspreads_iff; exact Hg | apply fbody_some; eauto | exact He]. }
    apply (G g R fr e Ef). apply EF_d. exact Hin.
Qed.

Lemma expanded_o_spec : forall s l, expanded_o S D s = Some l -> forall e, In e l <-> EF s e.
Proof.
  intros s l H e. unfold expanded_o in H.
  destruct (reach_o D (Datatypes.S (Datatypes.S (List.length (d_frags D)))) (dspreads (snd s))) as [gs|] eqn:Er; [|discriminate].
  inversion H; subst l. clear H.
  destruct (reach_o_spec (dspreads (snd s)) _ _ gs Er (fun x Hx => RG0 _ x Hx) (incl_refl _)) as (Hs & Hi & Hc).
  rewrite EF_RG. rewrite in_app_iff. split.
  - intros [Hd|Hf]; [left; exact Hd|]. right. apply in_flat_map in Hf. destruct Hf as [g [Hg Hf]].
    unfold frag_fields in Hf. destruct (frag D g) as [fr|] eqn:Ef; [|destruct Hf].
    exists g, fr. split; [apply Hs; exact Hg|]. split; [exact Ef | exact Hf].
  - intros [Hd|[g [fr [R [Ef Hin]]]]]; [left; exact Hd|]. right. apply in_flat_map. exists g. split.
    + assert (Hgs : forall g0, RG (dspreads (snd s)) g0 -> In g0 gs).
      { intros g0 R0. induction R0 as [g0 Hg|h g0 fr0 Rh IHh Ef0 Hg]; [apply Hi; exact Hg|].
        apply (Hc h fr0 g0 IHh Ef0 Hg). }
      apply Hgs. exact R.
    + unfold frag_fields. rewrite Ef. exact Hin.
Qed.

Lemma compat_o_reflect : forall f fl a b,
  (compat_o S D f fl a b = Some true -> compat fl a b) /\
  (compat_o S D f fl a b = Some false -> ~ compat fl a b).
Proof.
  induction f as [|f IH]; intros fl a b; [split; intro H; discriminate|]. simpl.
  destruct (negb (base2_ok S (fl || excl S a b) a b)) eqn:Eb.
  - split; [intro H; discriminate|]. intros _ C. inversion C as [fl' a' b' Hb _]; subst.
    unfold OverlapSpec.exf, base2 in Hb. unfold base2_ok in Eb. rewrite Hb in Eb. discriminate.
  - apply negb_false_iff in Eb.
    destruct (has_sub a && has_sub b) eqn:Eh.
    + apply andb_true_iff in Eh.
      destruct (expanded_o S D (sub_pt a, fe_sub a)) as [la|] eqn:Ea; [|split; intro H; discriminate].
      destruct (expanded_o S D (sub_pt b, fe_sub b)) as [lb|] eqn:Ebb; [|split; intro H; discriminate].
      pose proof (expanded_o_spec _ _ Ea) as Sa. pose proof (expanded_o_spec _ _ Ebb) as Sb.
      split.
      * intro H. constructor; [exact Eb|]. intros _ a' b' Ha Hb Hk.
        pose proof (all_o_true _ _ H a' (proj2 (Sa a') Ha)) as H1.
        pose proof (all_o_true _ _ H1 b' (proj2 (Sb b') Hb)) as H2. simpl in H2.
        rewrite Hk, String.eqb_refl in H2. apply (proj1 (IH _ a' b') H2).
      * intros H C. destruct (all_o_false _ _ H) as [a' [Ha H1]]. destruct (all_o_false _ _ H1) as [b' [Hb H2]].
        simpl in H2. destruct (String.eqb (fe_key a') (fe_key b')) eqn:Ek; [|discriminate].
        apply String.eqb_eq in Ek. apply (proj2 (IH _ a' b') H2).
        inversion C as [fl' a0 b0 _ Hrec]; subst.
        apply (Hrec Eh a' b' (proj1 (Sa a') Ha) (proj1 (Sb b') Hb) Ek).
    + split; [|intro H; discriminate]. intros _. constructor; [exact Eb|].
      intros [H1 H2]. rewrite H1, H2 in Eh. discriminate.
Qed.

Lemma L1_set_o_reflect : forall fuel s,
  (L1_set_o S D fuel s = Some true -> L1 S D (base2 S) s) /\
  (L1_set_o S D fuel s = Some false -> ~ L1 S D (base2 S) s).
Proof.
  intros fuel s. unfold L1_set_o. destruct (expanded_o S D s) as [l|] eqn:E; [|split; intro H; discriminate].
  pose proof (expanded_o_spec _ _ E) as Sl. split.
  - intros H a b Ha Hb Hk.
    pose proof (all_o_true _ _ H a (proj2 (Sl a) Ha)) as H1.
    pose proof (all_o_true _ _ H1 b (proj2 (Sl b) Hb)) as H2. simpl in H2.
    rewrite Hk, String.eqb_refl in H2. apply (proj1 (compat_o_reflect _ _ a b) H2).
  - intros H HL. destruct (all_o_false _ _ H) as [a [Ha H1]]. destruct (all_o_false _ _ H1) as [b [Hb H2]].
    simpl in H2. destruct (String.eqb (fe_key a) (fe_key b)) eqn:Ek; [|discriminate].
    apply String.eqb_eq in Ek. apply (proj2 (compat_o_reflect _ _ a b) H2).
    apply HL; [apply Sl; exact Ha | apply Sl; exact Hb | exact Ek].
Qed.

Lemma doc_sets_iff : forall s, doc_sets S D s <-> In s (all_sets S D ++ frag_bodies S D).
Proof.
  intro s. unfold doc_sets. rewrite in_app_iff. split; intros [H|H]; try (left; exact H); right.
  - destruct H as [g Hg]. apply fbody_some in Hg. destruct Hg as [fr [Ef Eb]]. subst s.
    assert (Hn : In g (map fr_name (d_frags D))) by (apply frag_defined; rewrite Ef; discriminate).
    apply in_map_iff in Hn. destruct Hn as [f0 [En Hf0]]. unfold frag_bodies. apply in_flat_map.
    exists f0. split; [exact Hf0|]. rewrite En, Ef. left. reflexivity.
  - unfold frag_bodies in H. apply in_flat_map in H. destruct H as [f0 [Hf0 H]].
    destruct (frag D (fr_name f0)) as [fr|] eqn:Ef; [|destruct H]. destruct H as [H|[]]. subst s.
    exists (fr_name f0). apply fbody_some. exists fr. auto.
Qed.

Theorem L1o_reflect : forall fuel,
  (L1o S D fuel = Some true -> L1_accepts S D) /\
  (L1o S D fuel = Some false -> ~ L1_accepts S D).
Proof.
  intro fuel. unfold L1o, L1_accepts. split.
  - intros H s Hs. apply doc_sets_iff in Hs.
    apply (proj1 (L1_set_o_reflect fuel s)). apply (all_o_true _ _ H s Hs).
  - intros H HL. destruct (all_o_false _ _ H) as [s [Hs Hf]].
    apply (proj2 (L1_set_o_reflect fuel s) Hf). apply HL. apply doc_sets_iff. exact Hs.
Qed.

End L1R.
