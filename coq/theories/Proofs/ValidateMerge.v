(* L0 merge safety (one level): if a selection set passes the brute-force overlap layer L1,
   then whatever CollectFields (Exec.collect, the executor's reference semantics) groups
   under one response key for an object type has one field name and equal arguments. *)
From Coq Require Import List Arith Lia Bool String NArith.
From GQL Require Import Exec.Syntax Exec.Exec Validate.Overlap Validate.OverlapSpec Proofs.ValidateOverlap.
Import ListNotations.
Open Scope string_scope.
Open Scope list_scope.

Definition occ_of (e : fentry) : occ :=
  {| oc_id := fe_id e; oc_name := fe_name e; oc_args := fe_args e; oc_sub := fe_sub e |}.

Lemma add_occ_in : forall k o g k' os x,
  In (k', os) (add_occ k o g) -> In x os ->
  (k' = k /\ x = o) \/ (exists os', In (k', os') g /\ In x os').
Proof.
  intros k o g. induction g as [|[k0 os0] r IH]; intros k' os x H Hx; simpl in H.
  - destruct H as [H|[]]. inversion H; subst. destruct Hx as [Hx|[]]. left. auto.
  - destruct (String.eqb k k0) eqn:E.
    + apply String.eqb_eq in E. subst k0. destruct H as [H|H].
      * inversion H; subst. apply in_app_or in Hx. destruct Hx as [Hx|[Hx|[]]].
        -- right. exists os0. split; [left; reflexivity | exact Hx].
        -- left. auto.
      * right. exists os. split; [right; exact H | exact Hx].
    + destruct H as [H|H].
      * inversion H; subst. right. exists os. split; [left; reflexivity | exact Hx].
      * destruct (IH k' os x H Hx) as [L|[os' [H1 H2]]]; [left; exact L|].
        right. exists os'. split; [right; exact H1 | exact H2].
Qed.

Section Merge.
Variable S : schema.
Variable D : document.
Hypothesis frag_names_unique : NoDup (map fr_name (d_frags D)).

(* with unique names, "first definition" (executor) and "last definition" (validator) agree *)
Lemma last_fragment_first : forall n fs acc f,
  NoDup (map fr_name fs) -> find_fragment n fs = Some f -> last_fragment n fs acc = Some f.
Proof.
  intros n fs. induction fs as [|x r IH]; intros acc f ND H; simpl in *; [discriminate|].
  inversion ND as [|? ? Hx ND']; subst.
  destruct (String.eqb n (fr_name x)) eqn:E.
  - inversion H; subst. apply String.eqb_eq in E.
    (* no later fragment has this name *)
    clear IH. revert Hx. generalize (Some f). rewrite <- E. clear.
    induction r as [|y r IH]; intros acc Hx; simpl; [reflexivity|].
    destruct (String.eqb n (fr_name y)) eqn:E2.
    + apply String.eqb_eq in E2. exfalso. apply Hx. left. symmetry. exact E2.
    + apply IH. intro H. apply Hx. right. exact H.
  - apply IH; assumption.
Qed.

Lemma frag_of_find : forall n f, find_fragment n (d_frags D) = Some f -> frag D n = Some f.
Proof. intros n f H. unfold frag. apply last_fragment_first; assumption. Qed.

Notation EF := (EF S D).
Notation fields := (OverlapSpec.fields S).

(* an entry's parent type is a type condition that matches the object collected for *)
Definition pt_ok (obj : name) (p : ptype) : Prop :=
  exists P, p = Some P /\ fragment_matches S (Some P) obj = true.

Lemma fragment_matches_known : forall c obj,
  fragment_matches S (Some c) obj = true -> resolve S c = Some c.
Proof.
  intros c obj H. unfold fragment_matches in H. unfold resolve, known.
  destruct (lookup_type S c); [reflexivity | discriminate].
Qed.

Lemma EF_tail : forall pt x rest e, EF (pt, rest) e -> EF (pt, x :: rest) e.
Proof.
  intros pt x rest e H. remember (pt, rest) as s eqn:Es. destruct H as [s e Hin | s g b e Hin Eb He]; subst s.
  - apply EF_d. unfold OverlapSpec.fields in *. simpl in *. unfold dfields in *. simpl.
    apply in_or_app. right. exact Hin.
  - eapply EF_s; [|exact Eb|exact He]. unfold frs in *. simpl in *. unfold dspreads_raw in *. simpl.
    apply in_or_app. right. exact Hin.
Qed.

Lemma EF_inline : forall pt id tc ds sub rest e,
  EF (inline_pt S pt tc, sub) e -> EF (pt, SInline id tc ds sub :: rest) e.
Proof.
  intros pt id tc ds sub rest e H. remember (inline_pt S pt tc, sub) as s eqn:Es.
  destruct H as [s e Hin | s g b e Hin Eb He]; subst s.
  - apply EF_d. unfold OverlapSpec.fields in *. cbn [fst snd] in *. unfold dfields at 1.
    cbn [flat_map]. apply in_or_app. left. rewrite dfields_inline. exact Hin.
  - eapply EF_s; [|exact Eb|exact He]. unfold frs in *. cbn [fst snd] in *. unfold dspreads_raw at 1.
    cbn [flat_map]. apply in_or_app. left. rewrite dspreads_inline. exact Hin.
Qed.

Lemma EF_spread : forall pt id g ds rest f e,
  frag D g = Some f -> EF (resolve S (fr_cond f), fr_sel f) e -> EF (pt, SSpread id g ds :: rest) e.
Proof.
  intros pt id g ds rest f e Hf H.
  apply (EF_s S D (pt, SSpread id g ds :: rest) g (resolve S (fr_cond f), fr_sel f) e).
  - unfold frs. simpl. left. reflexivity.
  - unfold fbody. rewrite Hf. reflexivity.
  - exact H.
Qed.

Lemma EF_field_here : forall pt id al nm args ds sub rest,
  EF (pt, SField id al nm args ds sub :: rest) (mk_entry S pt id al nm args sub).
Proof.
  intros. apply EF_d. unfold OverlapSpec.fields, dfields. simpl. left. reflexivity.
Qed.

Definition ginv (Q : fentry -> Prop) (obj : name) (g : groups) : Prop :=
  forall k os o, In (k, os) g -> In o os ->
    exists e, Q e /\ fe_key e = k /\ occ_of e = o /\ pt_ok obj (fe_pt e).

Lemma collect_inv : forall (Q : fentry -> Prop) obj fuel vars pt sels visited g g' v',
  (forall e, EF (pt, sels) e -> Q e) ->
  pt_ok obj pt ->
  ginv Q obj g ->
  collect fuel S D vars obj sels visited g = Some (g', v') ->
  ginv Q obj g'.
Proof.
  intros Q obj fuel. induction fuel as [|f IH]; intros vars pt sels visited g g' v' Hsub Hpt Hg H;
    cbn [collect] in H; [discriminate|].
  destruct sels as [|x rest]; [inversion H; subst; exact Hg|].
  assert (Hrest : forall e, EF (pt, rest) e -> Q e).
  { intros e He. apply Hsub. apply EF_tail. exact He. }
  destruct x as [id al nm args ds sub | id nm ds | id tc ds sub].
  - (* field *)
    destruct (included S ds vars).
    + eapply IH; [exact Hrest | exact Hpt | | exact H].
      intros k os o Hin Ho.
      destruct (add_occ_in _ _ _ _ _ _ Hin Ho) as [[Ek Eo]|[os' [H1 H2]]].
      * exists (mk_entry S pt id al nm args sub). split; [apply Hsub; apply EF_field_here|].
        split; [simpl; symmetry; exact Ek|]. split; [subst o; reflexivity | exact Hpt].
      * apply (Hg k os' o H1 H2).
    + apply (IH vars pt rest visited g g' v' Hrest Hpt Hg H).
  - (* spread *)
    destruct (included S ds vars && negb (nmem nm visited)); [|apply (IH vars pt rest visited g g' v' Hrest Hpt Hg H)].
    destruct (find_fragment nm (d_frags D)) as [fr|] eqn:Ef; [|apply (IH vars pt rest visited g g' v' Hrest Hpt Hg H)].
    destruct (fragment_matches S (Some (fr_cond fr)) obj) eqn:Em;
      [|apply (IH vars pt rest (nm :: visited) g g' v' Hrest Hpt Hg H)].
    destruct (collect f S D vars obj (fr_sel fr) (nm :: visited) g) as [[g1 v1]|] eqn:Ec; [|discriminate].
    apply (IH vars pt rest v1 g1 g' v' Hrest Hpt); [|exact H].
    apply (IH vars (resolve S (fr_cond fr)) (fr_sel fr) (nm :: visited) g g1 v1); [| |exact Hg|exact Ec].
    + intros e He. apply Hsub. eapply EF_spread; [apply frag_of_find; exact Ef | exact He].
    + exists (fr_cond fr). split; [apply (fragment_matches_known _ obj); exact Em | exact Em].
  - (* inline *)
    destruct (included S ds vars && fragment_matches S tc obj) eqn:Ei;
      [|apply (IH vars pt rest visited g g' v' Hrest Hpt Hg H)].
    apply andb_true_iff in Ei. destruct Ei as [_ Em].
    destruct (collect f S D vars obj sub visited g) as [[g1 v1]|] eqn:Ec; [|discriminate].
    apply (IH vars pt rest v1 g1 g' v' Hrest Hpt); [|exact H].
    apply (IH vars (inline_pt S pt tc) sub visited g g1 v1); [| |exact Hg|exact Ec].
    + intros e He. apply Hsub. apply EF_inline. exact He.
    + destruct tc as [c|]; simpl; [|exact Hpt].
      exists c. split; [apply (fragment_matches_known _ obj); exact Em | exact Em].
Qed.

(* two type conditions that both match one object type are not "mutually exclusive" *)
Lemma not_excl : forall obj a b, pt_ok obj (fe_pt a) -> pt_ok obj (fe_pt b) -> excl S a b = false.
Proof.
  intros obj a b [Pa [Ea Ma]] [Pb [Eb Mb]]. unfold excl. rewrite Ea, Eb. simpl.
  destruct (String.eqb Pa Pb) eqn:E; [reflexivity|]. simpl.
  unfold is_object. destruct (lookup_type S Pa) as [[| |fa ia| | |]|] eqn:La; try reflexivity.
  destruct (lookup_type S Pb) as [[| |fb ib| | |]|] eqn:Lb; try reflexivity. simpl.
  (* both are object types matching obj: both equal obj *)
  exfalso. unfold fragment_matches in Ma, Mb. rewrite La in Ma. rewrite Lb in Mb.
  unfold possible_type in Ma, Mb. rewrite La in Ma. rewrite Lb in Mb.
  rewrite orb_diag in Ma, Mb. apply String.eqb_eq in Ma, Mb. subst. rewrite String.eqb_refl in E. discriminate.
Qed.

Theorem merge_safe_level : forall (s : fset) obj fuel vars visited g v,
  L1 S D (base2 S) s ->
  pt_ok obj (fst s) ->
  collect fuel S D vars obj (snd s) visited [] = Some (g, v) ->
  forall k os o1 o2, In (k, os) g -> In o1 os -> In o2 os ->
    oc_name o1 = oc_name o2 /\ same_args (oc_args o1) (oc_args o2) = true.
Proof.
  intros [pt sels] obj fuel vars visited g v HL Hpt Hc k os o1 o2 Hin H1 H2. simpl in *.
  assert (Hg : ginv (EF (pt, sels)) obj g).
  { apply (collect_inv (EF (pt, sels)) obj fuel vars pt sels visited [] g v); auto.
    intros k' os' o [] . }
  destruct (Hg k os o1 Hin H1) as [a [Ha [Ka [Oa Pa]]]].
  destruct (Hg k os o2 Hin H2) as [b [Hb [Kb [Ob Pb]]]].
  assert (Hk : fe_key a = fe_key b) by congruence.
  pose proof (HL a b Ha Hb Hk) as C. inversion C as [fl a' b' Hbase _]; subst.
  unfold OverlapSpec.exf in Hbase. rewrite (not_excl obj a b Pa Pb) in Hbase. simpl in Hbase.
  unfold base2 in Hbase. apply andb_true_iff in Hbase. destruct Hbase as [Hab _].
  unfold base_ok in Hab. simpl in Hab. apply andb_true_iff in Hab. destruct Hab as [Hna _].
  apply andb_true_iff in Hna. destruct Hna as [Hn Harg]. apply String.eqb_eq in Hn.
  try subst o1; try subst o2. simpl. split; assumption.
Qed.

(* ---- the merged sub-selections, recursively ---- *)
Lemma collect_all_inv : forall (Q : fentry -> Prop) obj fuel vars (sets : list fset) visited g g',
  (forall s, In s sets -> forall e, EF s e -> Q e) ->
  (forall s, In s sets -> pt_ok obj (fst s)) ->
  ginv Q obj g ->
  collect_all fuel S D vars obj (map snd sets) visited g = Some g' ->
  ginv Q obj g'.
Proof.
  intros Q obj fuel vars sets. induction sets as [|[pt sels] r IH]; intros visited g g' HQ Hpt Hg H; simpl in H.
  - inversion H; subst. exact Hg.
  - destruct (collect fuel S D vars obj sels visited g) as [[g1 v1]|] eqn:Ec; [|discriminate].
    apply (IH v1 g1 g'); [| | |exact H].
    + intros s Hs. apply HQ. right. exact Hs.
    + intros s Hs. apply Hpt. right. exact Hs.
    + apply (collect_inv Q obj fuel vars pt sels visited g g1 v1); [| |exact Hg|exact Ec].
      * apply (HQ (pt, sels)). left. reflexivity.
      * apply (Hpt (pt, sels)). left. reflexivity.
Qed.

(* "L1 for a union of sets": all entries satisfying Q with one response key are compatible *)
Definition LU (Q : fentry -> Prop) : Prop :=
  forall a b, Q a -> Q b -> fe_key a = fe_key b -> compat S D (base2 S) false a b.

(* the entries that can be collected under response key k for the object type obj *)
Definition group_entries (Q : fentry -> Prop) (obj : name) (k : name) (e : fentry) : Prop :=
  Q e /\ fe_key e = k /\ pt_ok obj (fe_pt e).
(* the fields of their merged sub-selections *)
Definition sub_entries (Q : fentry -> Prop) (obj : name) (k : name) (e' : fentry) : Prop :=
  exists e, group_entries Q obj k e /\ has_sub e = true /\ EF (subset_of e) e'.

(* merge safety to depth n: what CollectFields groups under one key has one name and equal
   arguments, and so, recursively, for the merged sub-selections of each group collected for
   any object type obj' that the (static) types of the group's fields admit *)
Fixpoint MS (n : nat) (Q : fentry -> Prop) (obj : name) : Prop :=
  match n with
  | O => True
  | Datatypes.S n' =>
    forall fuel vars (sets : list fset) visited g,
      (forall s, In s sets -> forall e, EF s e -> Q e) ->
      (forall s, In s sets -> pt_ok obj (fst s)) ->
      collect_all fuel S D vars obj (map snd sets) visited [] = Some g ->
      forall k os, In (k, os) g ->
        (forall o1 o2, In o1 os -> In o2 os ->
           oc_name o1 = oc_name o2 /\ same_args (oc_args o1) (oc_args o2) = true) /\
        (forall obj', (forall e, group_entries Q obj k e -> has_sub e = true -> pt_ok obj' (sub_pt e)) ->
                      MS n' (sub_entries Q obj k) obj')
  end.

Lemma LU_sub : forall Q obj k, LU Q -> LU (sub_entries Q obj k).
Proof.
  intros Q obj k H a' b' [ea [[Qa [Ka Pa]] [Sa Ha]]] [eb [[Qb [Kb Pb]] [Sb Hb]]] Hk.
  assert (Hkk : fe_key ea = fe_key eb) by congruence.
  pose proof (H ea eb Qa Qb Hkk) as C. inversion C as [fl a b Hbase Hrec]; subst.
  unfold OverlapSpec.exf in Hrec. rewrite (not_excl obj ea eb Pa Pb) in Hrec. simpl in Hrec.
  apply Hrec; [split; assumption | exact Ha | exact Hb | exact Hk].
Qed.

Theorem merge_safe_rec : forall n Q obj, LU Q -> MS n Q obj.
Proof.
  induction n as [|n IH]; intros Q obj HL; simpl; [exact I|].
  intros fuel vars sets visited g HQ Hpt Hc k os Hin.
  assert (Hg : ginv Q obj g).
  { apply (collect_all_inv Q obj fuel vars sets visited [] g HQ Hpt); [|exact Hc]. intros k' os' o []. }
  split.
  - intros o1 o2 H1 H2.
    destruct (Hg k os o1 Hin H1) as [a [Qa [Ka [Oa Pa]]]].
    destruct (Hg k os o2 Hin H2) as [b [Qb [Kb [Ob Pb]]]].
    assert (Hk : fe_key a = fe_key b) by congruence.
    pose proof (HL a b Qa Qb Hk) as C. inversion C as [fl a' b' Hbase _]; subst.
    unfold OverlapSpec.exf in Hbase. rewrite (not_excl obj a b Pa Pb) in Hbase. simpl in Hbase.
    unfold base2 in Hbase. apply andb_true_iff in Hbase. destruct Hbase as [Hab _].
    unfold base_ok in Hab. simpl in Hab. apply andb_true_iff in Hab. destruct Hab as [Hna _].
    apply andb_true_iff in Hna. destruct Hna as [Hn Harg]. apply String.eqb_eq in Hn.
    try subst o1; try subst o2. simpl. split; assumption.
  - intros obj' _. apply IH. apply LU_sub. exact HL.
Qed.

(* for a selection set of the document that passes L1 *)
Corollary merge_safe_set : forall n (s : fset) obj, L1 S D (base2 S) s -> MS n (EF s) obj.
Proof. intros n s obj H. apply merge_safe_rec. exact H. Qed.

End Merge.
