(* From the validator's document (wdoc, with node ids) to the hypotheses of the overlap
   theorems on its erasure: no fragment cycle (NoFragmentCycles' declarative predicate) =>
   no_cycle, hence a rank; UniqueArgumentNames silent => args_ok. *)
From Coq Require Import List Arith Lia Bool String NArith Relations.
From GQL Require Import Exec.Syntax Validate.VSyntax Validate.Overlap Validate.OverlapSpec Validate.OverlapWf Validate.Rules
     Proofs.ValidateRules Proofs.ValidateOverlap Proofs.ValidateMemo Proofs.ValidateCost Proofs.ValidateL1
     Proofs.ValidateCycles Proofs.ValidateReflectClose Proofs.ValidateWf Proofs.ValidateRank.
Import ListNotations.
Open Scope string_scope.
Open Scope list_scope.

Section WSelInd.
Variable P : wsel -> Prop.
Hypothesis Hf : forall id al nm args ds ssid sub, Forall P sub -> P (WField id al nm args ds ssid sub).
Hypothesis Hs : forall id nid g ds, P (WSpread id nid g ds).
Hypothesis Hi : forall id tc ds ssid sub, Forall P sub -> P (WInline id tc ds ssid sub).
Fixpoint wsel_ind' (s : wsel) : P s :=
  match s with
  | WField id al nm args ds ssid sub =>
    Hf id al nm args ds ssid sub
       ((fix go (l : list wsel) : Forall P l :=
           match l with [] => Forall_nil P | x :: r => Forall_cons x (wsel_ind' x) (go r) end) sub)
  | WSpread id nid g ds => Hs id nid g ds
  | WInline id tc ds ssid sub =>
    Hi id tc ds ssid sub
       ((fix go (l : list wsel) : Forall P l :=
           match l with [] => Forall_nil P | x :: r => Forall_cons x (wsel_ind' x) (go r) end) sub)
  end.
End WSelInd.

(* ---- spreads: every spread inside the erased selection is one of FragmentSpreads(set) ---- *)
Definition direct (ss : list wsel) : list (N * (N * name)) :=
  flat_map (fun x => match x with WSpread id nid g _ => [(id, (nid, g))] | _ => [] end) ss.

Lemma ctx_go_map : forall l,
  (fix go (l : list wsel) : list (list (N * (N * name))) :=
     match l with [] => [] | x :: r => ctx_spreads_sel x :: go r end) l = map ctx_spreads_sel l.
Proof. induction l as [|x r IH]; simpl; [reflexivity | rewrite IH; reflexivity]. Qed.

Lemma ctx_spreads_sel_field : forall id al nm args ds ssid sub,
  ctx_spreads_sel (WField id al nm args ds ssid sub) = ctx_spreads sub.
Proof. intros. simpl. rewrite ctx_go_map. reflexivity. Qed.
Lemma ctx_spreads_sel_inline : forall id tc ds ssid sub,
  ctx_spreads_sel (WInline id tc ds ssid sub) = ctx_spreads sub.
Proof. intros. simpl. rewrite ctx_go_map. reflexivity. Qed.

Lemma all_spreads_go : forall l,
  (fix go (l : list selection) : list name :=
     match l with [] => [] | x :: r => all_spreads_sel x ++ go r end) l = all_spreads l.
Proof. unfold all_spreads. induction l as [|x r IH]; simpl; [reflexivity | rewrite IH; reflexivity]. Qed.

Lemma spreads_erase_list : forall ss h,
  Forall (fun x => forall h, In h (all_spreads_sel (erase_sel x)) ->
                   (exists id nid ds, x = WSpread id nid h ds) \/ In h (map (fun p => snd (snd p)) (ctx_spreads_sel x))) ss ->
  In h (all_spreads (map erase_sel ss)) -> In h (spread_names ss).
Proof.
  intros ss h IH Hh. unfold all_spreads in Hh. apply in_flat_map in Hh. destruct Hh as [y [Hy Hh]].
  apply in_map_iff in Hy. destruct Hy as [x [E Hx]]. subst y. rewrite Forall_forall in IH.
  unfold spread_names, ctx_spreads. rewrite map_app. apply in_app_iff.
  destruct (IH x Hx h Hh) as [(id & nid & ds & E)|H].
  - left. subst x. apply in_map_iff. exists (id, (nid, h)). split; [reflexivity|].
    apply in_flat_map. exists (WSpread id nid h ds). split; [exact Hx | left; reflexivity].
  - right. apply in_map_iff in H. destruct H as [p [Ep Hp]]. apply in_map_iff. exists p. split; [exact Ep|].
    apply in_concat. exists (ctx_spreads_sel x). split; [|exact Hp]. apply -> in_rev. apply in_map. exact Hx.
Qed.

Lemma spreads_erase_sel : forall x h, In h (all_spreads_sel (erase_sel x)) ->
  (exists id nid ds, x = WSpread id nid h ds) \/ In h (map (fun p => snd (snd p)) (ctx_spreads_sel x)).
Proof.
  induction x as [id al nm args ds ssid sub IH | id nid g ds | id tc ds ssid sub IH] using wsel_ind'; intros h Hh.
  - right. rewrite ctx_spreads_sel_field. simpl in Hh. rewrite all_spreads_go in Hh.
    apply (spreads_erase_list sub h IH Hh).
  - left. simpl in Hh. destruct Hh as [Hh|[]]. subst h. exists id, nid, ds. reflexivity.
  - right. rewrite ctx_spreads_sel_inline. simpl in Hh. rewrite all_spreads_go in Hh.
    apply (spreads_erase_list sub h IH Hh).
Qed.

Lemma spreads_erase : forall ss h, In h (all_spreads (map erase_sel ss)) -> In h (spread_names ss).
Proof.
  intros ss h. apply spreads_erase_list. apply Forall_forall. intros x _. apply spreads_erase_sel.
Qed.

(* ---- fragments ---- *)
Lemma last_fragment_name : forall g fs acc f,
  last_fragment g fs acc = Some f -> acc = Some f \/ (In f fs /\ fr_name f = g).
Proof.
  intros g fs. induction fs as [|x r IH]; intros acc f H; simpl in *; [left; exact H|].
  destruct (IH _ f H) as [E|[E1 E2]]; [|right; split; [right; exact E1 | exact E2]].
  destruct (String.eqb g (fr_name x)) eqn:Eg; [|left; exact E].
  inversion E; subst. right. split; [left; reflexivity | symmetry; apply String.eqb_eq; exact Eg].
Qed.

Lemma edgeD_edge : forall S W g h, edgeD S (erase W) g h -> edge W g h.
Proof.
  intros S W g h [b [Eb Hh]]. apply fbody_some in Eb. destruct Eb as [fr [Ef Eb]]. subst b. unfold bodyf in Hh. simpl in Hh.
  unfold frag in Ef. destruct (last_fragment_name _ _ _ _ Ef) as [E|[Hin En]]; [discriminate|].
  simpl in Hin. apply in_map_iff in Hin. destruct Hin as [f [E Hf]]. subst fr. simpl in *.
  exists f. split; [exact Hf|]. split; [exact En|]. apply spreads_erase. exact Hh.
Qed.

Theorem no_cycle_of_W : forall S W, ~ Violates_no_fragment_cycles W -> no_cycle S (erase W).
Proof.
  intros S W H g R. apply H. exists g.
  assert (G : forall a b, reachD S (erase W) a b -> reach W a b).
  { intros a b R'. unfold reach. induction R' as [a b E | a c b R1 IH1 R2 IH2];
      [apply t_step; apply (edgeD_edge S W); exact E | eapply t_trans; eauto]. }
  apply G. exact R.
Qed.

Theorem acyclic_of_W : forall S W, ~ Violates_no_fragment_cycles W -> acyclic S (erase W).
Proof. intros S W H. apply rank_exists. apply no_cycle_of_W. exact H. Qed.

(* ---- argument names ---- *)
Lemma NoDup_names_nodup : forall l, NoDup l -> names_nodup l = true.
Proof.
  induction l as [|x r IH]; intro H; [reflexivity|]. inversion H as [|? ? Hx Hr]; subst. simpl.
  rewrite (IH Hr), andb_true_r. apply negb_true_iff. apply nmem_not_in. exact Hx.
Qed.

Section Args.
Variable S : schema.
Definition ok_item (i : item) : Prop :=
  match i with IField _ _ _ _ args _ _ => NoDup (map wa_name args) | _ => True end.
Definition ok_node (y : selection) : Prop := names_nodup (map fst (node_args y)) = true.

Lemma walk_go_flat : forall pt ty fd l,
  (fix go (l : list wsel) : list item :=
     match l with [] => [] | x :: r => walk_sel S pt ty fd x ++ go r end) l = flat_map (walk_sel S pt ty fd) l.
Proof. intros. induction l as [|x r IH]; simpl; [reflexivity | rewrite IH; reflexivity]. Qed.

Lemma ok_lists : forall sub,
  Forall (fun x => forall pt ty fd, (forall i, In i (walk_sel S pt ty fd x) -> ok_item i) ->
                   ok_node (erase_sel x) /\ forall l y, In l (sel_lists (erase_sel x)) -> In y l -> ok_node y) sub ->
  forall pt ty fd, (forall i, In i (flat_map (walk_sel S pt ty fd) sub) -> ok_item i) ->
  forall l y, In l (lists_of (map erase_sel sub)) -> In y l -> ok_node y.
Proof.
  intros sub IH pt ty fd Hok l y Hl Hy. rewrite Forall_forall in IH.
  assert (Hx : forall x, In x sub -> forall i, In i (walk_sel S pt ty fd x) -> ok_item i).
  { intros x Hx i Hi. apply Hok. apply in_flat_map. exists x. split; assumption. }
  destruct Hl as [Hl|Hl].
  - subst l. apply in_map_iff in Hy. destruct Hy as [x [E Hin]]. subst y.
    apply (proj1 (IH x Hin pt ty fd (Hx x Hin))).
  - apply in_flat_map in Hl. destruct Hl as [z [Hz Hl]]. apply in_map_iff in Hz. destruct Hz as [x [E Hin]]. subst z.
    apply (proj2 (IH x Hin pt ty fd (Hx x Hin)) l y Hl Hy).
Qed.

Lemma ok_sel : forall x pt ty fd, (forall i, In i (walk_sel S pt ty fd x) -> ok_item i) ->
  ok_node (erase_sel x) /\ forall l y, In l (sel_lists (erase_sel x)) -> In y l -> ok_node y.
Proof.
  induction x as [id al nm args ds ssid sub IH | id nid g ds | id tc ds ssid sub IH] using wsel_ind'; intros pt ty fd Hok.
  - split.
    + unfold ok_node. simpl. rewrite map_map. simpl. apply NoDup_names_nodup.
      apply (Hok (IField pt (ti_fdef S pt nm) id nm args ssid (Rules.nonempty sub))). simpl. left. reflexivity.
    + simpl erase_sel. rewrite sel_lists_field. intros l y Hl Hy.
      refine (ok_lists sub IH _ _ _ _ l y Hl Hy).
      intros i Hi. apply Hok. simpl. right. apply in_app_iff. right. apply in_app_iff. right.
      rewrite walk_go_flat. exact Hi.
  - split; [reflexivity|]. intros l y [].
  - split; [reflexivity|]. simpl erase_sel. rewrite sel_lists_inline. intros l y Hl Hy.
    refine (ok_lists sub IH _ _ _ _ l y Hl Hy).
    intros i Hi. apply Hok. simpl. right. apply in_app_iff. right. rewrite walk_go_flat. exact Hi.
Qed.

Lemma ok_top : forall ss pt ty fd, (forall i, In i (walk_sels S pt ty fd ss) -> ok_item i) ->
  forall l y, In l (lists_of (map erase_sel ss)) -> In y l -> ok_node y.
Proof.
  intros ss pt ty fd Hok. apply (ok_lists ss) with (pt := pt) (ty := ty) (fd := fd); [|exact Hok].
  apply Forall_forall. intros x _ pt' ty' fd'. apply ok_sel.
Qed.

Theorem args_ok_of_W : forall W, rule_unique_argument_names S W = [] -> args_ok (erase W) = true.
Proof.
  intros W Hr.
  assert (Hok : forall i, In i (doc_items S W) -> ok_item i).
  { intros i Hi. destruct i as [pt fdd id nm args ssid hs| | | | |]; try exact I. simpl.
    destruct (names_nodup (map wa_name args)) eqn:E; [apply names_nodup_NoDup; exact E|]. exfalso.
    assert (V : rule_unique_argument_names S W <> []).
    { apply unique_argument_names_iff. exists (IField pt fdd id nm args ssid hs). split; [exact Hi|]. simpl.
      intro ND. rewrite (NoDup_names_nodup _ ND) in E. discriminate. }
    apply V. exact Hr. }
  unfold args_ok. apply forallb_forall. intros y Hy. apply in_concat in Hy. destruct Hy as [l [Hl Hy]].
  unfold doc_lists in Hl. simpl in Hl. rewrite !flat_map_concat_map, !map_map, <- !flat_map_concat_map in Hl.
  apply in_app_iff in Hl. destruct Hl as [Hl|Hl]; apply in_flat_map in Hl; destruct Hl as [o [Ho Hl]]; simpl in Hl.
  - refine (ok_top (wo_sel o) _ _ _ _ l y Hl Hy). intros i Hi. apply Hok. unfold doc_items. apply in_app_iff. left.
    apply in_flat_map. exists o. split; [exact Ho|]. unfold op_items. apply in_app_iff. right. exact Hi.
  - refine (ok_top (wf_sel o) _ _ _ _ l y Hl Hy). intros i Hi. apply Hok. unfold doc_items. apply in_app_iff. right.
    apply in_flat_map. exists o. split; [exact Ho|]. unfold frag_items. apply in_app_iff. right. exact Hi.
Qed.
End Args.

(* ---- with unique fragment names the erased document has exactly the validator's edges:
   the certified test ranked_b decides NoFragmentCycles' declarative predicate ---- *)
Lemma names_erase_list : forall ss h,
  Forall (fun x => forall h, In h (map (fun p => snd (snd p)) (ctx_spreads_sel x)) -> In h (all_spreads_sel (erase_sel x))) ss ->
  In h (spread_names ss) -> In h (all_spreads (map erase_sel ss)).
Proof.
  intros ss h IH Hh. rewrite Forall_forall in IH. unfold spread_names, ctx_spreads in Hh. rewrite map_app in Hh.
  unfold all_spreads. apply in_flat_map. apply in_app_or in Hh. destruct Hh as [Hh|Hh].
  - apply in_map_iff in Hh. destruct Hh as [p [Ep Hp]]. apply in_flat_map in Hp. destruct Hp as [x [Hx Hp]].
    destruct x as [id' al nm args ds' ssid sub| id nid g ds | id' tc ds' ssid sub]; [destruct Hp | | destruct Hp].
    destruct Hp as [Hp|[]]. subst p. simpl in Ep. subst h.
    exists (erase_sel (WSpread id nid g ds)). split; [apply in_map; exact Hx | left; reflexivity].
  - apply in_map_iff in Hh. destruct Hh as [p [Ep Hp]]. apply in_concat in Hp. destruct Hp as [l [Hl Hp]].
    apply in_rev in Hl. apply in_map_iff in Hl. destruct Hl as [x [El Hx]]. subst l.
    exists (erase_sel x). split; [apply in_map; exact Hx|]. apply (IH x Hx). apply in_map_iff. exists p. split; assumption.
Qed.

Lemma names_erase_sel : forall x h, In h (map (fun p => snd (snd p)) (ctx_spreads_sel x)) -> In h (all_spreads_sel (erase_sel x)).
Proof.
  induction x as [id al nm args ds ssid sub IH | id nid g ds | id tc ds ssid sub IH] using wsel_ind'; intros h Hh.
  - rewrite ctx_spreads_sel_field in Hh. simpl. rewrite all_spreads_go. apply (names_erase_list sub h IH Hh).
  - destruct Hh.
  - rewrite ctx_spreads_sel_inline in Hh. simpl. rewrite all_spreads_go. apply (names_erase_list sub h IH Hh).
Qed.

Lemma names_erase : forall ss h, In h (spread_names ss) -> In h (all_spreads (map erase_sel ss)).
Proof. intros ss h. apply names_erase_list. apply Forall_forall. intros x _. apply names_erase_sel. Qed.

Lemma last_fragment_skip : forall g fs acc, (forall y, In y fs -> fr_name y <> g) -> last_fragment g fs acc = acc.
Proof.
  intros g fs. induction fs as [|x r IH]; intros acc H; [reflexivity|]. simpl.
  destruct (String.eqb g (fr_name x)) eqn:E.
  - apply String.eqb_eq in E. exfalso. apply (H x (or_introl eq_refl)). symmetry. exact E.
  - apply IH. intros y Hy. apply H. right. exact Hy.
Qed.

Lemma last_fragment_unique : forall fs f acc, NoDup (map fr_name fs) -> In f fs -> last_fragment (fr_name f) fs acc = Some f.
Proof.
  induction fs as [|x r IH]; intros f acc ND Hin; [destruct Hin|]. simpl in ND. inversion ND as [|? ? Hx ND']; subst. simpl.
  destruct Hin as [Hin|Hin].
  - subst x. rewrite String.eqb_refl. apply last_fragment_skip. intros y Hy E. apply Hx. rewrite <- E. apply in_map. exact Hy.
  - apply IH; assumption.
Qed.

Lemma edge_edgeD : forall S W g h, NoDup (map wf_name (w_frags W)) -> edge W g h -> edgeD S (erase W) g h.
Proof.
  intros S W g h ND [f [Hf [En Hh]]]. subst g.
  exists (resolve S (wf_cond f), map erase_sel (wf_sel f)). split; [|simpl; apply names_erase; exact Hh].
  apply (fbody_frag S (erase W) (wf_name f) (erase_frag f)). unfold frag. simpl.
  change (wf_name f) with (fr_name (erase_frag f)). apply last_fragment_unique.
  - rewrite map_map. simpl. exact ND.
  - apply in_map. exact Hf.
Qed.

Theorem cycles_oracle : forall W, NoDup (map wf_name (w_frags W)) ->
  (ranked_b (erase W) = true <-> ~ Violates_no_fragment_cycles W).
Proof.
  intros W ND. set (S := {| s_types := []; s_query := ""; s_mutation := None |}). split.
  - intros H [g R]. apply (proj1 (ranked_b_acyclic S (erase W))) in H.
    apply (acyclic_no_cycle S (erase W) H g). unfold reach in R.
    assert (G : forall a b, clos_trans name (edge W) a b -> reachD S (erase W) a b).
    { intros a b R'. unfold reachD. induction R' as [a b E | a c b R1 IH1 R2 IH2];
        [apply t_step; apply (edge_edgeD S W a b ND E) | eapply t_trans; eauto]. }
    apply G. exact R.
  - intro H. apply (proj2 (ranked_b_acyclic S (erase W))). apply acyclic_of_W. exact H.
Qed.
