(* The A-J decomposition of the overlap rule accepts exactly what the brute-force
   pairwise check accepts (acyclic documents): L2 <-> L1, for the full selection syntax
   (inline fragments, arguments, parent types / exclusivity flag, type conflicts). *)
From Coq Require Import List Arith Lia Bool Wf_nat String.
From GQL Require Import Exec.Syntax Validate.Overlap Validate.OverlapSpec.
Import ListNotations.

(* ---- induction over the nested selection syntax ---- *)
Section SelInd.
Variable P : selection -> Prop.
Hypothesis Hf : forall id al nm args ds sub, Forall P sub -> P (SField id al nm args ds sub).
Hypothesis Hs : forall id g ds, P (SSpread id g ds).
Hypothesis Hi : forall id tc ds sub, Forall P sub -> P (SInline id tc ds sub).
Fixpoint selection_ind' (s : selection) : P s :=
  match s with
  | SField id al nm args ds sub =>
    Hf id al nm args ds sub
       ((fix go (l : list selection) : Forall P l :=
           match l with
           | [] => Forall_nil P
           | x :: r => Forall_cons x (selection_ind' x) (go r)
           end) sub)
  | SSpread id g ds => Hs id g ds
  | SInline id tc ds sub =>
    Hi id tc ds sub
       ((fix go (l : list selection) : Forall P l :=
           match l with
           | [] => Forall_nil P
           | x :: r => Forall_cons x (selection_ind' x) (go r)
           end) sub)
  end.
End SelInd.

(* ---- the nested fixes are flat_maps ---- *)
Lemma dfields_inline : forall S pt id tc ds sub,
  dfields_sel S pt (SInline id tc ds sub) = dfields S (inline_pt S pt tc) sub.
Proof.
  intros. unfold dfields. simpl. induction sub as [|x r IH]; simpl; [reflexivity|].
  rewrite IH. reflexivity.
Qed.

Lemma dspreads_inline : forall id tc ds sub,
  dspreads_sel (SInline id tc ds sub) = dspreads_raw sub.
Proof.
  intros. unfold dspreads_raw. simpl. induction sub as [|x r IH]; simpl; [reflexivity|].
  rewrite IH. reflexivity.
Qed.

Lemma all_spreads_inline : forall id tc ds sub,
  all_spreads_sel (SInline id tc ds sub) = all_spreads sub.
Proof.
  intros. unfold all_spreads. simpl. induction sub as [|x r IH]; simpl; [reflexivity|].
  rewrite IH. reflexivity.
Qed.

Lemma all_spreads_field : forall id al nm args ds sub,
  all_spreads_sel (SField id al nm args ds sub) = all_spreads sub.
Proof.
  intros. unfold all_spreads. simpl. induction sub as [|x r IH]; simpl; [reflexivity|].
  rewrite IH. reflexivity.
Qed.

(* a directly spread fragment occurs; a fragment occurring under a direct field occurs *)
Lemma dspreads_occ_sel : forall s g, In g (dspreads_sel s) -> In g (all_spreads_sel s).
Proof.
  induction s as [id al nm args ds sub IH | id h ds | id tc ds sub IH] using selection_ind'; intros g H.
  - simpl in H. destruct H.
  - exact H.
  - rewrite dspreads_inline in H. rewrite all_spreads_inline.
    unfold dspreads_raw in H. unfold all_spreads.
    apply in_flat_map in H. destruct H as [x [Hx Hg]].
    apply in_flat_map. exists x. split; [exact Hx|].
    rewrite Forall_forall in IH. apply IH; assumption.
Qed.

Lemma dspreads_occ : forall ss g, In g (dspreads_raw ss) -> In g (all_spreads ss).
Proof.
  intros ss g H. unfold dspreads_raw in H. unfold all_spreads.
  apply in_flat_map in H. destruct H as [x [Hx Hg]].
  apply in_flat_map. exists x. split; [exact Hx | apply dspreads_occ_sel; exact Hg].
Qed.

Lemma dfields_occ_sel : forall S s pt e h,
  In e (dfields_sel S pt s) -> In h (all_spreads (fe_sub e)) -> In h (all_spreads_sel s).
Proof.
  intros S s.
  induction s as [id al nm args ds sub IH | id g ds | id tc ds sub IH] using selection_ind'; intros pt e h He Hh.
  - simpl in He. destruct He as [E|[]]. subst e. simpl in Hh.
    rewrite all_spreads_field. exact Hh.
  - simpl in He. destruct He.
  - rewrite dfields_inline in He. rewrite all_spreads_inline.
    unfold dfields in He. apply in_flat_map in He. destruct He as [x [Hx He]].
    unfold all_spreads. apply in_flat_map. exists x. split; [exact Hx|].
    rewrite Forall_forall in IH. apply (IH x Hx (inline_pt S pt tc) e h He Hh).
Qed.

Lemma dfields_occ : forall S pt ss e h,
  In e (dfields S pt ss) -> In h (all_spreads (fe_sub e)) -> In h (all_spreads ss).
Proof.
  intros S pt ss e h He Hh. unfold dfields in He. apply in_flat_map in He.
  destruct He as [x [Hx He]]. unfold all_spreads. apply in_flat_map. exists x.
  split; [exact Hx | eapply dfields_occ_sel; eauto].
Qed.

Section Decomp.
Variable S : schema.
Variable D : document.
Variable base : bool -> fentry -> fentry -> bool.
Hypothesis base_sym : forall ex a b, base ex a b = base ex b a.
Hypothesis base_mono : forall a b, base false a b = true -> base true a b = true.

Notation fields := (fields S).
Notation fbody := (fbody S D).
Notation EF := (EF S D).
Notation compat := (compat S D base).
Notation L1 := (L1 S D base).
Notation fc := (fc S D base).
Notation subsets := (subsets S D base).
Notation FF := (FF S D base).
Notation FrFr := (FrFr S D base).
Notation within := (within S D base).
Notation exf := (exf S).

Lemma excl_sym : forall a b, excl S a b = excl S b a.
Proof.
  intros a b. unfold excl.
  assert (E: pt_eqb (fe_pt a) (fe_pt b) = pt_eqb (fe_pt b) (fe_pt a)).
  { unfold pt_eqb. destruct (fe_pt a), (fe_pt b); try reflexivity. apply String.eqb_sym. }
  rewrite E. destruct (pt_is_object S (fe_pt a)), (pt_is_object S (fe_pt b)), (pt_eqb (fe_pt b) (fe_pt a)); reflexivity.
Qed.

Lemma exf_sym : forall fl a b, exf fl a b = exf fl b a.
Proof. intros. unfold OverlapSpec.exf. rewrite excl_sym. reflexivity. Qed.

Lemma subs_sym : forall a b, subs a b -> subs b a.
Proof. intros a b [H1 H2]. split; assumption. Qed.

Lemma base_mono' : forall fl a b, base (exf false a b) a b = true -> base (exf fl a b) a b = true.
Proof.
  intros fl a b H. unfold OverlapSpec.exf in *. destruct fl; simpl in *; [|exact H].
  destruct (excl S a b); [exact H | apply base_mono; exact H].
Qed.

Lemma compat_sym : forall fl a b, compat fl a b -> compat fl b a.
Proof.
  induction 1 as [fl a b Hb H IH]. constructor.
  - rewrite exf_sym, base_sym. exact Hb.
  - intros Hs a' b' Ha Hb' Hk. rewrite exf_sym. apply IH; auto using subs_sym.
Qed.

Lemma compat_mono : forall fl a b, compat fl a b -> forall fl', (fl = true -> fl' = true) -> compat fl' a b.
Proof.
  induction 1 as [fl a b Hb H IH]. intros fl' Hle. constructor.
  - destruct fl.
    + rewrite (Hle eq_refl). exact Hb.
    + destruct fl'; [apply base_mono'; exact Hb | exact Hb].
  - intros Hs a' b' Ha Hb' Hk. apply (IH Hs a' b' Ha Hb' Hk).
    intro E. unfold OverlapSpec.exf in *. destruct fl; simpl in *.
    + rewrite (Hle eq_refl). reflexivity.
    + rewrite E. apply orb_true_r.
Qed.

Scheme fc_ind' := Induction for OverlapSpec.fc Sort Prop
with subsets_ind' := Induction for OverlapSpec.subsets Sort Prop
with FF_ind' := Induction for OverlapSpec.FF Sort Prop
with FrFr_ind' := Induction for OverlapSpec.FrFr Sort Prop.
Combined Scheme L2_mutind from fc_ind', subsets_ind', FF_ind', FrFr_ind'.

Variable rk : name -> nat.
Hypothesis Hrk : ranked S D rk.
Notation bounded := (bounded rk).

Lemma bounded_mono : forall n m ss, n <= m -> bounded n ss -> bounded m ss.
Proof. intros n m ss L B g O. specialize (B g O). lia. Qed.

Lemma bounded_sub : forall n s e, bounded n (snd s) -> In e (fields s) -> bounded n (fe_sub e).
Proof.
  intros n s e B I g O. apply B. unfold Occ in *. unfold OverlapSpec.fields in I.
  eapply dfields_occ; eauto.
Qed.

Lemma bounded_spread : forall n s g, bounded n (snd s) -> In g (frs s) -> rk g < n.
Proof. intros n s g B I. apply B. unfold Occ. apply dspreads_occ. exact I. Qed.

Lemma bounded_body : forall n g b, fbody g = Some b -> rk g < n -> bounded n (snd b).
Proof. intros n g b E L. eapply bounded_mono; [|apply (Hrk g b E)]. lia. Qed.

Lemma EF_bounded : forall n s e, EF s e -> bounded n (snd s) -> bounded n (fe_sub e).
Proof.
  induction 1 as [s e Hin | s g b e Hin Eb He IH]; intros B.
  - eapply bounded_sub; eauto.
  - apply IH. eapply bounded_body; eauto. eapply bounded_spread; eauto.
Qed.

(* ---- L2 => L1 below rank n, given L1 for all fragment bodies of rank < n ---- *)
Section L2_to_L1.
Variable n : nat.
Hypothesis frag_ok : forall h b, fbody h = Some b -> rk h < n -> L1 b.

Lemma cover :
  (forall fl a b, fc fl a b -> bounded n (fe_sub a) -> bounded n (fe_sub b) -> compat fl a b) /\
  (forall fl s1 s2, subsets fl s1 s2 -> bounded n (snd s1) -> bounded n (snd s2) ->
      forall a b, EF s1 a -> EF s2 b -> fe_key a = fe_key b -> compat fl a b) /\
  (forall fl s g, FF fl s g -> bounded n (snd s) -> rk g < n ->
      forall a bd b, In a (fields s) -> fbody g = Some bd -> EF bd b -> fe_key a = fe_key b -> compat fl a b) /\
  (forall fl g1 g2, FrFr fl g1 g2 -> rk g1 < n -> rk g2 < n ->
      forall b1 b2 a b, fbody g1 = Some b1 -> fbody g2 = Some b2 ->
                        EF b1 a -> EF b2 b -> fe_key a = fe_key b -> compat fl a b).
Proof.
  apply L2_mutind.
  - (* fc *) intros fl a b Hb Hs IH B1 B2. constructor; [exact Hb|].
    intros Hsub a' b' Ha Hb' Hk. eapply (IH Hsub); eauto.
  - (* subsets *) intros fl s1 s2 Hdd IHdd Hf2 IHf2 Hf1 IHf1 Hff IHff B1 B2 a b Ha Hb Hk.
    destruct Ha as [s1 a Hin1 | s1 g1 b1 a Hin1 E1 Ha1]; destruct Hb as [s2 b Hin2 | s2 g2 b2 b Hin2 E2 Hb2].
    + apply IHdd; auto; [apply (bounded_sub n s1 a B1 Hin1) | apply (bounded_sub n s2 b B2 Hin2)].
    + apply (IHf2 g2 Hin2 B1 (bounded_spread _ _ _ B2 Hin2) a b2 b); auto.
    + apply compat_sym. apply (IHf1 g1 Hin1 B2 (bounded_spread _ _ _ B1 Hin1) b b1 a); auto.
    + apply (IHff g1 g2 Hin1 Hin2 (bounded_spread _ _ _ B1 Hin1) (bounded_spread _ _ _ B2 Hin2) b1 b2); auto.
  - (* FF none *) intros fl s g E B L a bd b Ha Ebd Hb Hk. rewrite E in Ebd. discriminate.
  - (* FF same *) intros fl s g E B L a bd b Ha Ebd Hb Hk.
    rewrite E in Ebd. inversion Ebd; subst bd.
    apply (compat_mono false); [|discriminate].
    apply (frag_ok g s E L); auto. apply EF_d. exact Ha.
  - (* FF *) intros fl s g bd0 E Hd IHd Hn IHn B L a bd b Ha Ebd Hb Hk.
    rewrite E in Ebd. inversion Ebd; subst bd0. clear Ebd.
    revert g E Hd IHd Hn IHn L.
    induction Hb as [bd b Hin | bd h bh b Hin Eh Hb IHb]; intros g E Hd IHd Hn IHn L.
    + apply IHd; auto.
      * eapply bounded_sub; eauto.
      * eapply bounded_sub; [eapply bounded_body; eauto | exact Hin].
    + assert (Lh : rk h < n).
      { pose proof (Hrk g bd E h) as R. unfold Occ in R.
        specialize (R (dspreads_occ _ _ Hin)). lia. }
      apply (IHn h Hin B Lh a bh b); auto.
  - (* FrFr none *) intros fl g1 g2 [E|E] L1g L2g b1 b2 a b E1 E2; rewrite E in *; discriminate.
  - (* FrFr same *) intros fl g L1g _ b1 b2 a b E1 E2 Ha Hb Hk.
    rewrite E1 in E2. inversion E2; subst b2.
    apply (compat_mono false); [|discriminate].
    apply (frag_ok g b1 E1 L1g); auto.
  - (* FrFr *) intros fl g1 g2 c1 c2 Ec1 Ec2 Hd IHd H2 IH2 H1 IH1 L1g L2g b1 b2 a b E1 E2 Ha Hb Hk.
    rewrite Ec1 in E1. inversion E1; subst c1. rewrite Ec2 in E2. inversion E2; subst c2. clear E1 E2.
    inversion Ha as [s a0 Hin1 | s h1 bh1 a0 Hin1 Eh1 Ha1]; subst.
    + inversion Hb as [s2 b0 Hin2 | s2 h2 bh2 b0 Hin2 Eh2 Hb2]; subst.
      * apply IHd; auto.
        -- apply (bounded_sub n b1 a (bounded_body n g1 b1 Ec1 L1g) Hin1).
        -- apply (bounded_sub n b2 b (bounded_body n g2 b2 Ec2 L2g) Hin2).
      * assert (Lh : rk h2 < n).
        { pose proof (Hrk g2 b2 Ec2 h2) as R. unfold Occ in R.
          specialize (R (dspreads_occ _ _ Hin2)). lia. }
        apply (IH2 h2 Hin2 L1g Lh b1 bh2); auto.
    + assert (Lh : rk h1 < n).
      { pose proof (Hrk g1 b1 Ec1 h1) as R. unfold Occ in R.
        specialize (R (dspreads_occ _ _ Hin1)). lia. }
      apply (IH1 h1 Hin1 Lh L2g bh1 b2); auto.
Qed.

Lemma within_L1 : forall s, bounded n (snd s) -> within s -> L1 s.
Proof.
  intros s B (Hd & Hf & Hff) a b Ha Hb Hk.
  destruct cover as (Cfc & _ & Cff & Cfrfr).
  destruct Ha as [s a Hin1 | s g1 b1 a Hin1 E1 Ha1]; destruct Hb as [s b Hin2 | s g2 b2 b Hin2 E2 Hb2].
  - apply Cfc; [apply Hd; auto | eapply bounded_sub; eauto | eapply bounded_sub; eauto].
  - apply (Cff false s g2 (Hf g2 Hin2) B (bounded_spread _ _ _ B Hin2) a b2 b); auto.
  - apply compat_sym.
    apply (Cff false s g1 (Hf g1 Hin1) B (bounded_spread _ _ _ B Hin1) b b1 a); auto.
  - apply (Cfrfr false g1 g2 (Hff g1 g2 Hin1 Hin2) (bounded_spread _ _ _ B Hin1) (bounded_spread _ _ _ B Hin2) b1 b2); auto.
Qed.
End L2_to_L1.

(* every fragment body passes "within" => every fragment body satisfies L1 *)
Theorem fragments_L1 :
  (forall h b, fbody h = Some b -> within b) -> forall h b, fbody h = Some b -> L1 b.
Proof.
  intros W h. remember (rk h) as m eqn:E. revert h E.
  induction m as [m IH] using lt_wf_ind. intros h E b Eb.
  apply (within_L1 (rk h)).
  - intros g bg Eg L. assert (Lm : rk g < m) by lia. exact (IH (rk g) Lm g eq_refl bg Eg).
  - apply (Hrk h b Eb).
  - apply (W h b Eb).
Qed.

(* any selection set all of whose spread fragments pass: within => L1 *)
Theorem set_L1 :
  (forall h b, fbody h = Some b -> within b) -> forall s, within s -> L1 s.
Proof.
  intros W s Ws.
  (* a rank above everything occurring in s *)
  set (m := Datatypes.S (list_max (map rk (all_spreads (snd s))))).
  apply (within_L1 m).
  - intros h b Eh _. apply (fragments_L1 W h b Eh).
  - intros g O. unfold Occ in O. unfold m.
    assert (rk g <= list_max (map rk (all_spreads (snd s)))); [|lia].
    pose proof (list_max_le (map rk (all_spreads (snd s))) (list_max (map rk (all_spreads (snd s))))) as [Hle _].
    specialize (Hle (le_n _)). rewrite Forall_forall in Hle. apply Hle.
    apply in_map. exact O.
  - exact Ws.
Qed.

(* ---- converse: every check the decomposition performs is implied by L1 ---- *)
Lemma FF_build : forall m fl s g, rk g < m ->
  (forall a bd b, In a (fields s) -> fbody g = Some bd -> EF bd b -> fe_key a = fe_key b -> fc fl a b) ->
  FF fl s g.
Proof.
  induction m as [|m IH]; intros fl s g L H; [lia|].
  destruct (fbody g) as [bd|] eqn:E; [|apply ff_none; exact E].
  apply (ff_i S D base fl s g bd E).
  - intros x y Hx Hy Hk. apply (H x bd y); auto. apply EF_d. exact Hy.
  - intros h Hin. apply IH.
    + pose proof (Hrk g bd E h) as R. unfold Occ in R. specialize (R (dspreads_occ _ _ Hin)). lia.
    + intros a bh b Ha Eh Hb Hk. apply (H a bd b); auto. eapply EF_s; eauto.
Qed.

Lemma FrFr_build : forall m fl g1 g2, rk g1 + rk g2 < m ->
  (forall b1 b2 a b, fbody g1 = Some b1 -> fbody g2 = Some b2 -> EF b1 a -> EF b2 b ->
                     fe_key a = fe_key b -> fc fl a b) ->
  FrFr fl g1 g2.
Proof.
  induction m as [|m IH]; intros fl g1 g2 L H; [lia|].
  destruct (fbody g1) as [b1|] eqn:E1; [|apply frfr_none; left; exact E1].
  destruct (fbody g2) as [b2|] eqn:E2; [|apply frfr_none; right; exact E2].
  apply (frfr_i S D base fl g1 g2 b1 b2 E1 E2).
  - intros x y Hx Hy Hk. apply (H b1 b2); auto; apply EF_d; assumption.
  - intros h Hin. apply IH.
    + pose proof (Hrk g2 b2 E2 h) as R. unfold Occ in R. specialize (R (dspreads_occ _ _ Hin)). lia.
    + intros c1 c2 a b Ec1 Ec2 Ha Hb Hk. rewrite E1 in Ec1. inversion Ec1; subst c1.
      apply (H b1 b2); auto. eapply EF_s; eauto.
  - intros h Hin. apply IH.
    + pose proof (Hrk g1 b1 E1 h) as R. unfold Occ in R. specialize (R (dspreads_occ _ _ Hin)). lia.
    + intros c1 c2 a b Ec1 Ec2 Ha Hb Hk. rewrite E2 in Ec2. inversion Ec2; subst c2.
      apply (H b1 b2); auto. eapply EF_s; eauto.
Qed.

Lemma subsets_build : forall fl s1 s2,
  (forall a b, EF s1 a -> EF s2 b -> fe_key a = fe_key b -> fc fl a b) ->
  (forall a b, EF s2 a -> EF s1 b -> fe_key a = fe_key b -> fc fl a b) ->
  subsets fl s1 s2.
Proof.
  intros fl s1 s2 H Hs. constructor.
  - intros a b Ha Hb Hk. apply H; auto; apply EF_d; assumption.
  - intros g Hin. apply (FF_build (1 + rk g)); [lia|].
    intros a bd b Ha E Hb Hk. apply H; auto; [apply EF_d; exact Ha | eapply EF_s; eauto].
  - intros g Hin. apply (FF_build (1 + rk g)); [lia|].
    intros a bd b Ha E Hb Hk. apply Hs; auto; [apply EF_d; exact Ha | eapply EF_s; eauto].
  - intros g1 g2 Hin1 Hin2. apply (FrFr_build (1 + (rk g1 + rk g2))); [lia|].
    intros b1 b2 a b E1 E2 Ha Hb Hk. apply H; auto; eapply EF_s; eauto.
Qed.

Lemma compat_fc : forall fl a b, compat fl a b -> fc fl a b /\ fc fl b a.
Proof.
  induction 1 as [fl a b Hb H IH]. split; constructor.
  - exact Hb.
  - intros Hsub. apply subsets_build.
    + intros a' b' Ha Hb' Hk. apply (proj1 (IH Hsub a' b' Ha Hb' Hk)).
    + intros a' b' Ha Hb' Hk. apply (proj2 (IH Hsub b' a' Hb' Ha (eq_sym Hk))).
  - rewrite exf_sym, base_sym. exact Hb.
  - intros Hsub. rewrite exf_sym. pose proof (subs_sym _ _ Hsub) as Hsub'. apply subsets_build.
    + intros a' b' Ha Hb' Hk. apply (proj2 (IH Hsub' b' a' Hb' Ha (eq_sym Hk))).
    + intros a' b' Ha Hb' Hk. apply (proj1 (IH Hsub' a' b' Ha Hb' Hk)).
Qed.

Lemma L1_within : forall s, L1 s -> within s.
Proof.
  intros s H. split; [|split].
  - intros a b Ha Hb Hk.
    exact (proj1 (compat_fc false a b (H a b (EF_d S D s a Ha) (EF_d S D s b Hb) Hk))).
  - intros g Hin. apply (FF_build (1 + rk g)); [lia|].
    intros a bd b Ha E Hb Hk.
    exact (proj1 (compat_fc false a b (H a b (EF_d S D s a Ha) (EF_s S D s g bd b Hin E Hb) Hk))).
  - intros g1 g2 Hin1 Hin2. apply (FrFr_build (1 + (rk g1 + rk g2))); [lia|].
    intros b1 b2 a b E1 E2 Ha Hb Hk.
    exact (proj1 (compat_fc false a b (H a b (EF_s S D s g1 b1 a Hin1 E1 Ha) (EF_s S D s g2 b2 b Hin2 E2 Hb) Hk))).
Qed.

End Decomp.

(* ---- the document-level statement ---- *)
Section DocLevel.
Variable S : schema.
Variable D : document.
Variable base : bool -> fentry -> fentry -> bool.
Hypothesis base_sym : forall ex a b, base ex a b = base ex b a.
Hypothesis base_mono : forall a b, base false a b = true -> base true a b = true.

(* [sets]: the selection sets the rule visits; it must contain every fragment body *)
Variable sets : fset -> Prop.
Hypothesis sets_frag : forall g b, fbody S D g = Some b -> sets b.

Theorem decomposition_iff :
  acyclic S D ->
  ((forall s, sets s -> within S D base s) <-> (forall s, sets s -> L1 S D base s)).
Proof.
  intros [rk Hrk]. split.
  - intros W s Hs. apply (set_L1 S D base base_sym base_mono rk Hrk).
    + intros h b E. apply W. eapply sets_frag; eauto.
    + apply W. exact Hs.
  - intros H s Hs. apply (L1_within S D base base_sym rk Hrk). apply H. exact Hs.
Qed.
End DocLevel.

Lemma base2_sym : forall S ex a b, base2 S ex a b = base2 S ex b a.
Proof. intros. unfold base2. apply andb_comm. Qed.

Lemma base_ok_mono : forall S a b, base_ok S false a b = true -> base_ok S true a b = true.
Proof.
  intros S a b H. unfold base_ok in *. apply andb_true_iff in H. destruct H as [_ H].
  simpl. exact H.
Qed.

Lemma base2_mono : forall S a b, base2 S false a b = true -> base2 S true a b = true.
Proof.
  intros S a b H. unfold base2 in *. apply andb_true_iff in H. destruct H as [H1 H2].
  rewrite (base_ok_mono S a b H1), (base_ok_mono S b a H2). reflexivity.
Qed.

Theorem overlap_decomposition : forall S D,
  acyclic S D -> (L2_accepts S D <-> L1_accepts S D).
Proof.
  intros S D A. unfold L2_accepts, L1_accepts.
  apply (decomposition_iff S D (base2 S) (base2_sym S) (base2_mono S) (doc_sets S D)); [|exact A].
  intros g b E. right. exists g. exact E.
Qed.
