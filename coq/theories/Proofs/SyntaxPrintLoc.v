(* C08: the printer does not look at locations.  Two ASTs with the same kind/field/value tree
   once every Loc is zeroed (erase_loc) have the same layout, hence the same text. *)
From Coq Require Import String List NArith Bool Lia.
From GQL Require Import Base.Bytes Syntax.Lexer Syntax.Ast Syntax.Parser Syntax.Printer Proofs.SyntaxRoundTrip.
Import ListNotations.
Open Scope N_scope.

Ltac gsimp H := unfold g_dirs, g_dir, g_arg, g_named, g_name, glist, gopt, gnone, gl in H; cbn [gnl map] in H.

Section MapLoc.
  Context {A : Type}.
  Variable g : A -> gt.
  Variable B : Type.
  Variable lay : A -> B.
  Hypothesis H : forall a b, gnl (g a) = gnl (g b) -> lay a = lay b.
  Lemma map_loc : forall l l', map gnl (map g l) = map gnl (map g l') -> map lay l = map lay l'.
  Proof.
    induction l as [|a l IH]; intros [|b l'] E; try discriminate E; [reflexivity|]. cbn [map] in *. injection E as E1 E2.
    rewrite (H a b E1), (IH l' E2). reflexivity.
  Qed.
End MapLoc.

Lemma name_loc : forall a b, gnl (g_name a) = gnl (g_name b) -> nval a = nval b.
Proof. intros a b H. gsimp H. injection H as E. exact E. Qed.
Lemma nm_loc : forall a b, gnl (g_name a) = gnl (g_name b) -> Nm a = Nm b.
Proof. intros a b H. unfold Nm. rewrite (name_loc a b H). reflexivity. Qed.
Lemma nm_val : forall a b, nval a = nval b -> Nm a = Nm b.
Proof. intros a b H. unfold Nm. rewrite H. reflexivity. Qed.
Ltac nm E := first [exact (nm_val _ _ E) | exact (nm_loc _ _ E)].
Lemma named_loc : forall a b, gnl (g_named a) = gnl (g_named b) -> Nm (nd_name a) = Nm (nd_name b).
Proof. intros a b H. unfold g_named, gl in H. cbn [gnl map] in H. injection H as E. first [apply nm_loc; exact E | unfold Nm; rewrite E; reflexivity]. Qed.

Lemma ty_loc : forall a b, gnl (g_ty a) = gnl (g_ty b) -> lay_type a = lay_type b.
Proof.
  induction a as [n|a IH l|a IH l]; intros [m|b l'|b l'] H; cbn [g_ty] in H; unfold g_named, gl in H; cbn [gnl map] in H; try discriminate H.
  - injection H as E. cbn [lay_type]. first [apply nm_loc; exact E | unfold Nm; rewrite E; reflexivity].
  - injection H as E. cbn [lay_type]. rewrite (IH b E). reflexivity.
  - injection H as E. cbn [lay_type]. rewrite (IH b E). reflexivity.
Qed.

Lemma value_loc : forall a b, gnl (g_value a) = gnl (g_value b) -> lay_value a = lay_value b.
Proof.
  fix IH 1. intros a b H.
  destruct a as [n l|s l|s l|s l|c l|s l|vs l|fs l]; destruct b as [n' l'|s' l'|s' l'|s' l'|c' l'|s' l'|vs' l'|fs' l'];
    cbn [g_value] in H; unfold gl in H; cbn [gnl map] in H; try discriminate H.
  - injection H as E. cbn [lay_value]. rewrite (ltac:(nm E) : Nm n = Nm n'). reflexivity.
  - injection H as E. subst. reflexivity.
  - injection H as E. subst. reflexivity.
  - injection H as E. subst. reflexivity.
  - injection H as E. destruct c, c'; try discriminate E; reflexivity.
  - injection H as E. subst. reflexivity.
  - injection H as E. cbn [lay_value]. f_equal. f_equal. f_equal.
    revert vs' E. induction vs as [|x vs IHvs]; intros [|y ws] E; try discriminate E; [reflexivity|].
    cbn [map] in *. injection E as E1 E2. rewrite (IH x y E1), (IHvs ws E2). reflexivity.
  - injection H as E. cbn [lay_value]. f_equal. f_equal. f_equal.
    revert fs' E. induction fs as [|x fs IHfs]; intros [|y ws] E; try discriminate E; [reflexivity|].
    cbn [map] in *. injection E as E1 E2. rewrite (IHfs ws E2). f_equal.
    destruct x as [n v lx], y as [n' v' ly]. unfold gl in E1. cbn [gnl map] in E1. injection E1 as En Ev.
    rewrite (ltac:(nm En) : Nm n = Nm n'), (IH v v' Ev). reflexivity.
Qed.

Lemma arg_loc : forall a b, gnl (g_arg a) = gnl (g_arg b) -> lay_arg a = lay_arg b.
Proof.
  intros [n v l] [n' v' l'] H. unfold g_arg, gl in H. cbn [gnl map a_name a_value a_loc] in H. injection H as En Ev.
  unfold lay_arg. cbn [a_name a_value]. rewrite (ltac:(nm En) : Nm n = Nm n'), (value_loc v v' Ev). reflexivity.
Qed.
Lemma args_loc : forall l l', map gnl (map g_arg l) = map gnl (map g_arg l') -> lay_args l = lay_args l'.
Proof. intros l l' H. unfold lay_args. rewrite (map_loc g_arg _ lay_arg arg_loc l l' H). reflexivity. Qed.
Lemma dir_loc : forall a b, gnl (g_dir a) = gnl (g_dir b) -> lay_dir a = lay_dir b.
Proof.
  intros [n args l] [n' args' l'] H. unfold g_dir, glist, gl in H. cbn [gnl map d_name d_args d_loc] in H. injection H as En Ea.
  unfold lay_dir. cbn [d_name d_args]. rewrite (ltac:(nm En) : Nm n = Nm n'), (args_loc args args' Ea). reflexivity.
Qed.
Lemma dirs_loc : forall l l', gnl (g_dirs l) = gnl (g_dirs l') -> lay_dirs l = lay_dirs l'.
Proof.
  intros l l' H. unfold g_dirs, glist in H. cbn [gnl] in H. injection H as E. unfold lay_dirs.
  rewrite (map_loc g_dir _ lay_dir dir_loc l l' E). reflexivity.
Qed.

Lemma dirs_loc' : forall l l', map gnl (map g_dir l) = map gnl (map g_dir l') -> lay_dirs l = lay_dirs l'.
Proof. intros l l' E. unfold lay_dirs. rewrite (map_loc g_dir _ lay_dir dir_loc l l' E). reflexivity. Qed.
(* injection goes through nested constructors, so an equation may arrive already decomposed *)
Ltac lst E := first [exact E | (unfold glist in E; cbn [gnl] in E; injection E as E; exact E)].
Ltac dr E := first [apply dirs_loc'; exact E | apply dirs_loc; exact E].
Ltac nmd E := first [exact (named_loc _ _ E) | exact (nm_val _ _ E)].

Definition name_part_o (al : option name) : layout := match al with Some a => Nm a | None => [] end.
Lemma optname_loc : forall a b, gnl (gopt g_name a) = gnl (gopt g_name b) -> name_part_o a = name_part_o b.
Proof.
  intros [a|] [b|] H; unfold gopt, gnone, g_name, gl in H; cbn [gnl map] in H; try discriminate H; [|reflexivity].
  injection H as E. cbn [name_part_o]. nm E.
Qed.
Definition named_part_o (tc : option named) : layout := match tc with Some t => Nm (nd_name t) | None => [] end.
Lemma optnamed_loc : forall a b, gnl (gopt g_named a) = gnl (gopt g_named b) -> named_part_o a = named_part_o b.
Proof.
  intros [a|] [b|] H; [|unfold gopt, gnone, g_named, gl in H; cbn [gnl map] in H; discriminate H..|reflexivity].
  cbn [gopt] in H. cbn [named_part_o]. apply named_loc. exact H.
Qed.

Lemma sel_loc : forall a b, gnl (g_sel a) = gnl (g_sel b) -> lay_sel a = lay_sel b
with selset_loc : forall a b, gnl (g_selset a) = gnl (g_selset b) -> lay_selset a = lay_selset b.
Proof.
  - intros a b H.
    destruct a as [al nm args dirs sub l|nm dirs l|tc dirs sub l]; destruct b as [al' nm' args' dirs' sub' l'|nm' dirs' l'|tc' dirs' sub' l'];
      cbn [g_sel] in H; unfold gl in H; cbn [gnl map] in H; try discriminate H.
    + injection H as Eal Enm Eargs Edirs Esub.
      assert (X1 : name_part_o al = name_part_o al') by (apply optname_loc; exact Eal).
      assert (X2 : Nm nm = Nm nm') by nm Enm.
      assert (X3 : lay_args args = lay_args args') by (apply args_loc; lst Eargs).
      assert (X4 : lay_dirs dirs = lay_dirs dirs') by dr Edirs.
      assert (X5 : match sub with Some ss => lay_selset ss | None => [] end = match sub' with Some ss => lay_selset ss | None => [] end).
      { destruct sub as [ss|], sub' as [ss'|]; [apply selset_loc; exact Esub| | |reflexivity].
        - destruct ss. unfold gnone, gl in Esub. cbn [g_selset gnl map] in Esub. unfold gl in Esub. cbn [gnl] in Esub. discriminate Esub.
        - destruct ss'. unfold gnone, gl in Esub. cbn [g_selset gnl map] in Esub. unfold gl in Esub. cbn [gnl] in Esub. discriminate Esub. }
      cbn [lay_sel]. fold (name_part_o al) (name_part_o al'). rewrite X1, X2, X3, X4, X5. reflexivity.
    + injection H as Enm Edirs. cbn [lay_sel]. rewrite (ltac:(dr Edirs) : lay_dirs dirs = lay_dirs dirs'), (ltac:(nm Enm) : Nm nm = Nm nm'). reflexivity.
    + injection H as Etc Edirs Esub. cbn [lay_sel]. fold (named_part_o tc) (named_part_o tc').
      rewrite (optnamed_loc tc tc' Etc), (ltac:(dr Edirs) : lay_dirs dirs = lay_dirs dirs'), (selset_loc sub sub' Esub). reflexivity.
  - intros [sels l] [sels' l'] H. cbn [g_selset] in H. unfold gl in H. cbn [gnl] in H. injection H as E.
    cbn [lay_selset]. f_equal. revert sels' E. induction sels as [|x sels IH]; intros [|y ws] E; try discriminate E; [reflexivity|].
    cbn [map] in *. injection E as E1 E2. rewrite (sel_loc x y E1), (IH ws E2). reflexivity.
Qed.

Lemma vardef_loc : forall a b, gnl (g_vardef a) = gnl (g_vardef b) -> lay_vardef a = lay_vardef b.
Proof.
  intros [v vl t dv l] [v' vl' t' dv' l'] H. unfold g_vardef, gl in H. cbn [gnl map vd_var vd_varloc vd_type vd_default vd_loc] in H.
  injection H as Ev Et Ed. unfold lay_vardef. cbn [vd_var vd_type vd_default].
  rewrite (ltac:(nm Ev) : Nm v = Nm v'), (ty_loc t t' Et).
  assert (X : match dv with Some d => lay_value d | None => [] end = match dv' with Some d => lay_value d | None => [] end).
  { destruct dv as [d|], dv' as [d'|]; [apply value_loc; exact Ed| | |reflexivity]; unfold gopt, gnone in Ed.
    - destruct d; cbn [g_value] in Ed; unfold gl in Ed; cbn [gnl] in Ed; discriminate Ed.
    - destruct d'; cbn [g_value] in Ed; unfold gl in Ed; cbn [gnl] in Ed; discriminate Ed. }
  rewrite X. reflexivity.
Qed.

Lemma optype_name_inj : forall a b, optype_name a = optype_name b -> a = b.
Proof. intros [] [] H; try discriminate H; reflexivity. Qed.

Lemma op_loc : forall o b, gnl (g_def (DOp o)) = gnl (g_def b) -> lay_def (DOp o) = lay_def b.
Proof.
  intros o b H.
  destruct b as [o'|f'|? ? ?|? ? ? ?|o'|? ? ? ? ?|? ? ? ? ?|? ? ? ? ?|? ? ? ? ?|o' ?|? ? ? ? ?]; cbn [g_def] in H; unfold g_objdef, gl in H; cbn [gnl] in H; try discriminate H.
    destruct o as [ot nm vds dirs ss l], o' as [ot' nm' vds' dirs' ss' l']. cbn [op_type op_name op_vars op_dirs op_sel op_loc map] in H.
    injection H as Eot Enm Evds Edirs Ess. apply optype_name_inj in Eot. subst ot'.
    assert (Evds' : map gnl (map g_vardef vds) = map gnl (map g_vardef vds')) by lst Evds.
    cbn [lay_def]. unfold lay_op. cbn [op_type op_name op_vars op_dirs op_sel].
    fold (name_part_o nm) (name_part_o nm').
    rewrite (optname_loc nm nm' Enm), (map_loc g_vardef _ lay_vardef vardef_loc vds vds' Evds'), (ltac:(dr Edirs) : lay_dirs dirs = lay_dirs dirs'), (selset_loc ss ss' Ess). reflexivity.
Qed.

Lemma frag_loc : forall f b, gnl (g_def (DFrag f)) = gnl (g_def b) -> lay_def (DFrag f) = lay_def b.
Proof.
  intros f b H.
  destruct b as [o'|f'|? ? ?|? ? ? ?|o'|? ? ? ? ?|? ? ? ? ?|? ? ? ? ?|? ? ? ? ?|o' ?|? ? ? ? ?]; cbn [g_def] in H; unfold g_objdef, gl in H; cbn [gnl] in H; try discriminate H.
    destruct f as [n c dirs ss l], f' as [n' c' dirs' ss' l']. cbn [fr_name fr_cond fr_dirs fr_sel fr_loc map] in H.
    injection H as En Ec Edirs Ess. cbn [lay_def]. unfold lay_frag. cbn [fr_name fr_cond fr_dirs fr_sel].
    rewrite (ltac:(nm En) : Nm n = Nm n'), (ltac:(nmd Ec) : Nm (nd_name c) = Nm (nd_name c')), (ltac:(dr Edirs) : lay_dirs dirs = lay_dirs dirs'), (selset_loc ss ss' Ess). reflexivity.
Qed.

(* ---- type-system definitions ---- *)
Lemma descr_loc : forall a b, gnl (g_descr a) = gnl (g_descr b) -> lay_descr a = lay_descr b.
Proof.
  intros [[s l]|] [[s' l']|] H; unfold g_descr, gnone, gl in H; cbn [gnl map] in H; try discriminate H; [|reflexivity].
  injection H as E. subst. reflexivity.
Qed.
Lemma optvalue_loc : forall a b, gnl (gopt g_value a) = gnl (gopt g_value b) -> dflt_lay a = dflt_lay b.
Proof.
  intros [d|] [d'|] Ed; [apply value_loc; exact Ed| | |reflexivity]; unfold gopt, gnone in Ed.
  - destruct d; cbn [g_value] in Ed; unfold gl in Ed; cbn [gnl] in Ed; discriminate Ed.
  - destruct d'; cbn [g_value] in Ed; unfold gl in Ed; cbn [gnl] in Ed; discriminate Ed.
Qed.
Lemma ivdef_loc : forall a b, gnl (g_ivdef a) = gnl (g_ivdef b) -> lay_ivdef a = lay_ivdef b.
Proof.
  intros [ds n t dv dirs l] [ds' n' t' dv' dirs' l'] H. unfold g_ivdef, gl in H. cbn [gnl map iv_desc iv_name iv_type iv_default iv_dirs iv_loc] in H.
  injection H as Eds En Et Edv Edirs. unfold lay_ivdef, with_desc_nl, with_desc. cbn [iv_desc iv_name iv_type iv_default iv_dirs].
  rewrite (descr_loc ds ds' Eds), (ltac:(nm En) : Nm n = Nm n'), (ty_loc t t' Et), (optvalue_loc dv dv' Edv), (ltac:(dr Edirs) : lay_dirs dirs = lay_dirs dirs'). reflexivity.
Qed.
Lemma ivdefs_loc : forall l l', map gnl (map g_ivdef l) = map gnl (map g_ivdef l') -> map lay_ivdef l = map lay_ivdef l'.
Proof. apply (map_loc g_ivdef _ lay_ivdef ivdef_loc). Qed.
Lemma argdefs_loc : forall l l', map gnl (map g_ivdef l) = map gnl (map g_ivdef l') -> lay_argdefs l = lay_argdefs l'.
Proof. intros l l' E. unfold lay_argdefs. rewrite (ivdefs_loc l l' E). reflexivity. Qed.
Lemma fielddef_loc : forall a b, gnl (g_fielddef a) = gnl (g_fielddef b) -> lay_fielddef a = lay_fielddef b.
Proof.
  intros [ds n args t dirs l] [ds' n' args' t' dirs' l'] H. unfold g_fielddef, gl in H. cbn [gnl map fd_desc fd_name fd_args fd_type fd_dirs fd_loc] in H.
  injection H as Eds En Ea Et Edirs. unfold lay_fielddef, with_desc_nl, with_desc. cbn [fd_desc fd_name fd_args fd_type fd_dirs].
  rewrite (descr_loc ds ds' Eds), (ltac:(nm En) : Nm n = Nm n'), (argdefs_loc args args' ltac:(lst Ea)), (ty_loc t t' Et), (ltac:(dr Edirs) : lay_dirs dirs = lay_dirs dirs'). reflexivity.
Qed.
Lemma named_lay_loc : forall a b, gnl (g_named a) = gnl (g_named b) -> (fun n => Nm (nd_name n)) a = (fun n => Nm (nd_name n)) b.
Proof. intros a b H. cbv beta. apply named_loc. exact H. Qed.
Lemma objdef_loc : forall a b, gnl (g_objdef a) = gnl (g_objdef b) -> lay_objdef a = lay_objdef b.
Proof.
  intros [ds n ifs dirs fs l] [ds' n' ifs' dirs' fs' l'] H. unfold g_objdef, gl in H. cbn [gnl map ob_desc ob_name ob_ifaces ob_dirs ob_fields ob_loc] in H.
  injection H as Eds En Ei Edirs Ef. unfold lay_objdef, with_desc. cbn [ob_desc ob_name ob_ifaces ob_dirs ob_fields].
  rewrite (descr_loc ds ds' Eds), (ltac:(nm En) : Nm n = Nm n'), (ltac:(dr Edirs) : lay_dirs dirs = lay_dirs dirs'),
    (map_loc g_named _ (fun n => Nm (nd_name n)) named_lay_loc ifs ifs' ltac:(lst Ei)),
    (map_loc g_fielddef _ lay_fielddef fielddef_loc fs fs' ltac:(lst Ef)). reflexivity.
Qed.
Definition g_enumval (v : enumvaldef) : gt := gl 33 [] (ev_loc v) [g_descr (ev_desc v); g_name (ev_name v); g_dirs (ev_dirs v)].
Lemma enumval_loc : forall a b, gnl (g_enumval a) = gnl (g_enumval b) -> lay_enumval a = lay_enumval b.
Proof.
  intros [ds n dirs l] [ds' n' dirs' l'] H. unfold g_enumval, gl in H. cbn [gnl map ev_desc ev_name ev_dirs ev_loc] in H.
  injection H as Eds En Edirs. unfold lay_enumval, with_desc_nl, with_desc. cbn [ev_desc ev_name ev_dirs].
  rewrite (descr_loc ds ds' Eds), (ltac:(nm En) : Nm n = Nm n'), (ltac:(dr Edirs) : lay_dirs dirs = lay_dirs dirs'). reflexivity.
Qed.
Definition g_optd (o : optypedef) : gt := gl 27 (optype_name (ot_op o)) (ot_loc o) [g_named (ot_type o)].
Lemma optd_loc : forall a b, gnl (g_optd a) = gnl (g_optd b) -> lay_optypedef a = lay_optypedef b.
Proof.
  intros [op t l] [op' t' l'] H. unfold g_optd, gl in H. cbn [gnl map ot_op ot_type ot_loc] in H. injection H as Eo Et.
  apply optype_name_inj in Eo. subst. unfold lay_optypedef. cbn [ot_op ot_type]. rewrite (ltac:(nmd Et) : Nm (nd_name t) = Nm (nd_name t')). reflexivity.
Qed.
Lemma name_lay_loc : forall a b, gnl (g_name a) = gnl (g_name b) -> Nm a = Nm b.
Proof. exact nm_loc. Qed.

Lemma g35_inj : forall x y, G 35 [] 0 0 [x] = G 35 [] 0 0 [y] -> x = y.
Proof. intros x y H. inversion H. reflexivity. Qed.

Lemma def_loc : forall a b, gnl (g_def a) = gnl (g_def b) -> lay_def a = lay_def b.
Proof.
  intros a b H. destruct a as [o|f|dirs ots l|ds n dirs l|o|ds n dirs fs l|ds n dirs ts l|ds n dirs vs l|ds n dirs fs l|o l|ds n args locs l].
  - apply op_loc. exact H.
  - apply frag_loc. exact H.
  - destruct b as [o'|f'|dirs' ots' l'|? ? ? ?|o'|? ? ? ? ?|? ? ? ? ?|? ? ? ? ?|? ? ? ? ?|o' ?|? ? ? ? ?]; cbn [g_def] in H; unfold g_objdef, gl in H; cbn [gnl map] in H; try discriminate H.
    injection H as Edirs Eo. cbn [lay_def]. fold g_optd in Eo.
    rewrite (ltac:(dr Edirs) : lay_dirs dirs = lay_dirs dirs'), (map_loc g_optd _ lay_optypedef optd_loc ots ots' ltac:(lst Eo)). reflexivity.
  - destruct b as [o'|f'|? ? ?|ds' n' dirs' l'|o'|? ? ? ? ?|? ? ? ? ?|? ? ? ? ?|? ? ? ? ?|o' ?|? ? ? ? ?]; cbn [g_def] in H; unfold g_objdef, gl in H; cbn [gnl map] in H; try discriminate H.
    injection H as Eds En Edirs. cbn [lay_def]. try unfold with_desc.
    rewrite (descr_loc ds ds' Eds), (ltac:(nm En) : Nm n = Nm n'), (ltac:(dr Edirs) : lay_dirs dirs = lay_dirs dirs'). reflexivity.
  - destruct b as [o'|f'|? ? ?|? ? ? ?|o'|? ? ? ? ?|? ? ? ? ?|? ? ? ? ?|? ? ? ? ?|o' ?|? ? ? ? ?]; try (cbn [g_def] in H; unfold g_objdef, gl in H; cbn [gnl map] in H; discriminate H).
    cbn [g_def lay_def] in *. apply objdef_loc. exact H.
  - destruct b as [o'|f'|? ? ?|? ? ? ?|o'|ds' n' dirs' fs' l'|? ? ? ? ?|? ? ? ? ?|? ? ? ? ?|o' ?|? ? ? ? ?]; cbn [g_def] in H; unfold g_objdef, gl in H; cbn [gnl map] in H; try discriminate H.
    injection H as Eds En Edirs Ef. cbn [lay_def]. try unfold with_desc.
    rewrite (descr_loc ds ds' Eds), (ltac:(nm En) : Nm n = Nm n'), (ltac:(dr Edirs) : lay_dirs dirs = lay_dirs dirs'),
      (map_loc g_fielddef _ lay_fielddef fielddef_loc fs fs' ltac:(lst Ef)). reflexivity.
  - destruct b as [o'|f'|? ? ?|? ? ? ?|o'|? ? ? ? ?|ds' n' dirs' ts' l'|? ? ? ? ?|? ? ? ? ?|o' ?|? ? ? ? ?]; cbn [g_def] in H; unfold g_objdef, gl in H; cbn [gnl map] in H; try discriminate H.
    injection H as Eds En Edirs Et. cbn [lay_def]. try unfold with_desc.
    rewrite (descr_loc ds ds' Eds), (ltac:(nm En) : Nm n = Nm n'), (ltac:(dr Edirs) : lay_dirs dirs = lay_dirs dirs'),
      (map_loc g_named _ (fun n => Nm (nd_name n)) named_lay_loc ts ts' ltac:(lst Et)). reflexivity.
  - destruct b as [o'|f'|? ? ?|? ? ? ?|o'|? ? ? ? ?|? ? ? ? ?|ds' n' dirs' vs' l'|? ? ? ? ?|o' ?|? ? ? ? ?]; cbn [g_def] in H; unfold g_objdef, gl in H; cbn [gnl map] in H; try discriminate H.
    injection H as Eds En Edirs Ev. cbn [lay_def]. try unfold with_desc. fold g_enumval in Ev.
    rewrite (descr_loc ds ds' Eds), (ltac:(nm En) : Nm n = Nm n'), (ltac:(dr Edirs) : lay_dirs dirs = lay_dirs dirs'),
      (map_loc g_enumval _ lay_enumval enumval_loc vs vs' ltac:(lst Ev)). reflexivity.
  - destruct b as [o'|f'|? ? ?|? ? ? ?|o'|? ? ? ? ?|? ? ? ? ?|? ? ? ? ?|ds' n' dirs' fs' l'|o' ?|? ? ? ? ?]; cbn [g_def] in H; unfold g_objdef, gl in H; cbn [gnl map] in H; try discriminate H.
    injection H as Eds En Edirs Ef. cbn [lay_def]. try unfold with_desc.
    rewrite (descr_loc ds ds' Eds), (ltac:(nm En) : Nm n = Nm n'), (ltac:(dr Edirs) : lay_dirs dirs = lay_dirs dirs'), (ivdefs_loc fs fs' ltac:(lst Ef)). reflexivity.
  - destruct b as [o'|f'|? ? ?|? ? ? ?|o'|? ? ? ? ?|? ? ? ? ?|? ? ? ? ?|? ? ? ? ?|o' l'|? ? ? ? ?]; try (cbn [g_def] in H; unfold g_objdef, gl in H; cbn [gnl map] in H; discriminate H).
    change (G 35 [] 0 0 [gnl (g_objdef o)] = G 35 [] 0 0 [gnl (g_objdef o')]) in H. apply g35_inj in H. cbn [lay_def]. rewrite (objdef_loc o o' H). reflexivity.
  - destruct b as [o'|f'|? ? ?|? ? ? ?|o'|? ? ? ? ?|? ? ? ? ?|? ? ? ? ?|? ? ? ? ?|o' ?|ds' n' args' locs' l']; cbn [g_def] in H; unfold g_objdef, gl in H; cbn [gnl map] in H; try discriminate H.
    injection H as Eds En Ea El. cbn [lay_def]. try unfold with_desc.
    rewrite (descr_loc ds ds' Eds), (ltac:(nm En) : Nm n = Nm n'), (argdefs_loc args args' ltac:(lst Ea)),
      (map_loc g_name _ Nm name_lay_loc locs locs' ltac:(lst El)). reflexivity.
Qed.

(* the printer does not look at locations *)
Theorem print_ignores_locations : forall d d', erase_loc d = erase_loc d' -> print_doc d = print_doc d'.
Proof.
  intros [defs l] [defs' l'] H. unfold erase_loc, g_doc, gl in H. cbn [gnl doc_defs doc_loc] in H. injection H as E.
  unfold print_doc, lay_doc. cbn [doc_defs]. rewrite (map_loc g_def _ lay_def def_loc defs defs' E). reflexivity.
Qed.
