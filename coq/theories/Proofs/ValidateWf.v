(* The decidable well-formedness conditions of Validate/OverlapWf.v imply the Prop-level
   hypotheses of the overlap theorems: ids_ok => ids_distinct (selection sets are told apart
   by parent type and first node id), args_ok => args_unique. *)
From Coq Require Import List Arith Lia Bool String NArith.
From GQL Require Import Exec.Syntax Validate.Overlap Validate.OverlapSpec Validate.OverlapWf
     Proofs.ValidateRules Proofs.ValidateOverlap Proofs.ValidateMemo Proofs.ValidateMemoHard
     Proofs.ValidateReflect Proofs.ValidateReflectClose.
Import ListNotations.
Open Scope string_scope.
Open Scope list_scope.

(* ---- the selection lists of a document ---- *)
Lemma lists_go_flat : forall l,
  (fix go (l : list selection) : list (list selection) :=
     match l with [] => [] | x :: r => sel_lists x ++ go r end) l = flat_map sel_lists l.
Proof. induction l as [|x r IH]; simpl; [reflexivity | rewrite IH; reflexivity]. Qed.

Lemma sel_lists_field : forall id al nm args ds sub, sel_lists (SField id al nm args ds sub) = lists_of sub.
Proof. intros. simpl. rewrite lists_go_flat. reflexivity. Qed.
Lemma sel_lists_inline : forall id tc ds sub, sel_lists (SInline id tc ds sub) = lists_of sub.
Proof. intros. simpl. rewrite lists_go_flat. reflexivity. Qed.

(* the lists inside an element of a list of x are lists of x *)
Lemma sel_lists_closed : forall y l x, In l (sel_lists y) -> In x l -> incl (sel_lists x) (sel_lists y).
Proof.
  assert (G : forall sub, Forall (fun y => forall l x, In l (sel_lists y) -> In x l -> incl (sel_lists x) (sel_lists y)) sub ->
              forall l x, In l (lists_of sub) -> In x l -> incl (sel_lists x) (lists_of sub)).
  { intros sub IH l x Hl Hx z Hz. unfold lists_of. right. apply in_flat_map.
    destruct Hl as [Hl|Hl].
    - subst l. exists x. split; assumption.
    - apply in_flat_map in Hl. destruct Hl as [y [Hy Hl]]. rewrite Forall_forall in IH.
      exists y. split; [exact Hy|]. apply (IH y Hy l x Hl Hx z Hz). }
  induction y as [id al nm args ds sub IH | id g ds | id tc ds sub IH] using selection_ind'; intros l x Hl Hx.
  - rewrite sel_lists_field in *. apply (G sub IH l x Hl Hx).
  - destruct Hl.
  - rewrite sel_lists_inline in *. apply (G sub IH l x Hl Hx).
Qed.

Lemma lists_of_closed : forall ss l x, In l (lists_of ss) -> In x l -> incl (sel_lists x) (lists_of ss).
Proof.
  intros ss l x Hl Hx z Hz. unfold lists_of. right. apply in_flat_map. destruct Hl as [Hl|Hl].
  - subst l. exists x. split; assumption.
  - apply in_flat_map in Hl. destruct Hl as [y [Hy Hl]]. exists y. split; [exact Hy|].
    apply (sel_lists_closed y l x Hl Hx z Hz).
Qed.

Lemma doc_lists_closed : forall D l x, In l (doc_lists D) -> In x l -> incl (sel_lists x) (doc_lists D).
Proof.
  intros D l x Hl Hx z Hz. unfold doc_lists in *. apply in_app_iff in Hl. apply in_app_iff.
  destruct Hl as [Hl|Hl]; [left|right]; apply in_flat_map in Hl; destruct Hl as [o [Ho Hl]];
    apply in_flat_map; exists o; (split; [exact Ho|]); apply (lists_of_closed _ l x Hl Hx z Hz).
Qed.

(* the sub-selection of a collected field is a list of the selection it was collected from;
   so is the list the field node itself is an element of *)
Lemma dfields_sel_lists : forall S x pt e, In e (dfields_sel S pt x) ->
  (fe_sub e = [] \/ In (fe_sub e) (sel_lists x)) /\
  ((exists id al nm ds sub, x = SField id al nm (fe_args e) ds sub) \/
   exists l y, In l (sel_lists x) /\ In y l /\ fe_args e = node_args y).
Proof.
  intros S. induction x as [id al nm args ds sub IH | id g ds | id tc ds sub IH] using selection_ind'; intros pt e He.
  - simpl in He. destruct He as [He|[]]. subst e. split.
    + right. rewrite sel_lists_field. left. reflexivity.
    + left. exists id, al, nm, ds, sub. reflexivity.
  - destruct He.
  - rewrite dfields_inline in He. unfold dfields in He. apply in_flat_map in He. destruct He as [y [Hy He]].
    rewrite Forall_forall in IH. destruct (IH y Hy _ e He) as [H1 H2]. rewrite sel_lists_inline. split.
    + destruct H1 as [H1|H1]; [left; exact H1|]. right. right. apply in_flat_map. exists y. split; assumption.
    + right. destruct H2 as [(id' & al' & nm' & ds' & sub' & E)|(l & z & Hl & Hz & E)].
      * exists sub, y. split; [left; reflexivity|]. split; [exact Hy|]. subst y. reflexivity.
      * exists l, z. split; [right; apply in_flat_map; exists y; split; assumption|]. split; assumption.
Qed.

Lemma dfields_lists : forall S D pt ss e, In ss (doc_lists D) -> In e (dfields S pt ss) ->
  (fe_sub e = [] \/ In (fe_sub e) (doc_lists D)) /\
  exists l y, In l (doc_lists D) /\ In y l /\ fe_args e = node_args y.
Proof.
  intros S D pt ss e Hss He. unfold dfields in He. apply in_flat_map in He. destruct He as [x [Hx He]].
  destruct (dfields_sel_lists S x pt e He) as [H1 H2].
  pose proof (doc_lists_closed D ss x Hss Hx) as Hc. split.
  - destruct H1 as [H1|H1]; [left; exact H1 | right; apply Hc; exact H1].
  - destruct H2 as [(id' & al' & nm' & ds' & sub' & E)|(l & z & Hl & Hz & E)].
    + exists ss, x. split; [exact Hss|]. split; [exact Hx|]. subst x. reflexivity.
    + exists l, z. split; [apply Hc; exact Hl|]. split; assumption.
Qed.

Lemma sets_sel_lists : forall S x pt s, In s (sets_sel S pt x) -> In (snd s) (sel_lists x).
Proof.
  intros S.
  assert (G : forall sub pt', Forall (fun x => forall pt s, In s (sets_sel S pt x) -> In (snd s) (sel_lists x)) sub ->
              forall s, In s (sets_of S pt' sub) -> In (snd s) (lists_of sub)).
  { intros sub pt' IH s Hs. destruct Hs as [Hs|Hs]; [subst s; left; reflexivity|].
    apply in_flat_map in Hs. destruct Hs as [y [Hy Hs]]. rewrite Forall_forall in IH.
    right. apply in_flat_map. exists y. split; [exact Hy | apply (IH y Hy pt' s Hs)]. }
  induction x as [id al nm args ds sub IH | id g ds | id tc ds sub IH] using selection_ind'; intros pt s Hs.
  - rewrite sets_sel_field in Hs. rewrite sel_lists_field. destruct sub as [|y r]; [destruct Hs|]. apply (G _ _ IH s Hs).
  - destruct Hs.
  - rewrite sets_sel_inline in Hs. rewrite sel_lists_inline. apply (G _ _ IH s Hs).
Qed.

Lemma sets_of_lists : forall S pt ss s, In s (sets_of S pt ss) -> In (snd s) (lists_of ss).
Proof.
  intros S pt ss s Hs. destruct Hs as [Hs|Hs]; [subst s; left; reflexivity|].
  apply in_flat_map in Hs. destruct Hs as [y [Hy Hs]]. right. apply in_flat_map. exists y.
  split; [exact Hy | apply (sets_sel_lists S y pt s Hs)].
Qed.

Lemma all_sets_lists : forall S D s, In s (all_sets S D) -> In (snd s) (doc_lists D).
Proof.
  intros S D s Hs. unfold all_sets in Hs. unfold doc_lists. apply in_app_iff in Hs. apply in_app_iff.
  destruct Hs as [Hs|Hs]; [left|right]; apply in_flat_map in Hs; destruct Hs as [o [Ho Hs]];
    apply in_flat_map; exists o; (split; [exact Ho|]); apply (sets_of_lists S _ _ s Hs).
Qed.

Lemma DS_lists : forall S D s, DS S D s -> snd s = [] \/ In (snd s) (doc_lists D).
Proof.
  intros S D s H. induction H as [s Hs | g fr Ef | s e Hs IH He].
  - right. apply (all_sets_lists S D s Hs).
  - right. unfold body_of. simpl. unfold doc_lists. apply in_app_iff. right. apply in_flat_map.
    exists fr. split; [apply (frag_mem D g); exact Ef | left; reflexivity].
  - simpl. destruct IH as [IH|IH]; [rewrite IH in He; destruct He|].
    exact (proj1 (dfields_lists S D (fst s) (snd s) e IH He)).
Qed.

(* ---- ids_ok => ids_distinct ---- *)
Lemma n_nodup_NoDup : forall l, n_nodup l = true -> NoDup l.
Proof.
  induction l as [|x r IH]; simpl; intro H; [constructor|]. apply andb_true_iff in H. destruct H as [H1 H2].
  constructor; [|apply IH; exact H2]. intro Hin. apply negb_true_iff in H1.
  assert (E : existsb (N.eqb x) r = true) by (apply existsb_exists; exists x; split; [exact Hin | apply N.eqb_refl]).
  rewrite E in H1. discriminate.
Qed.

Lemma NoDup_app_disj : forall {A} (a b : list A) x, NoDup (a ++ b) -> In x a -> In x b -> False.
Proof.
  intros A a. induction a as [|y r IH]; intros b x ND Ha Hb; [destruct Ha|]. simpl in ND.
  inversion ND as [|? ? Hy ND']; subst. destruct Ha as [Ha|Ha].
  - subst y. apply Hy. apply in_app_iff. right. exact Hb.
  - apply (IH b x ND' Ha Hb).
Qed.

Lemma NoDup_app_l : forall {A} (a b : list A), NoDup (a ++ b) -> NoDup a.
Proof.
  intros A a. induction a as [|y r IH]; intros b ND; [constructor|]. simpl in ND.
  inversion ND as [|? ? Hy ND']; subst. constructor; [|apply (IH b ND')].
  intro H. apply Hy. apply in_app_iff. left. exact H.
Qed.
Lemma NoDup_app_r : forall {A} (a b : list A), NoDup (a ++ b) -> NoDup b.
Proof. intros A a. induction a as [|y r IH]; intros b ND; [exact ND|]. simpl in ND. inversion ND; subst. apply IH. assumption. Qed.

Lemma concat_nodup_same : forall {A B} (f : A -> B) (L : list (list A)),
  NoDup (map f (List.concat L)) ->
  forall l1 l2 x1 x2, In l1 L -> In l2 L -> In x1 l1 -> In x2 l2 -> f x1 = f x2 -> l1 = l2.
Proof.
  intros A B f L. induction L as [|l L' IH]; intros ND l1 l2 x1 x2 H1 H2 X1 X2 E; [destruct H1|].
  simpl in ND. rewrite map_app in ND.
  assert (Hc : forall l' x', In l' L' -> In x' l' -> In (f x') (map f (List.concat L'))).
  { intros l' x' Hl Hx. apply in_map. apply in_concat. exists l'. split; assumption. }
  destruct H1 as [H1|H1]; destruct H2 as [H2|H2].
  - congruence.
  - subst l1. exfalso. apply (NoDup_app_disj _ _ (f x1) ND); [apply in_map; exact X1 | rewrite E; apply (Hc l2 x2 H2 X2)].
  - subst l2. exfalso. apply (NoDup_app_disj _ _ (f x2) ND); [apply in_map; exact X2 | rewrite <- E; apply (Hc l1 x1 H1 X1)].
  - apply (IH (NoDup_app_r _ _ ND) l1 l2 x1 x2 H1 H2 X1 X2 E).
Qed.

Lemma first_id_sel : forall x r, first_id (x :: r) = sel_id x.
Proof. intros [| |] r; reflexivity. Qed.

Theorem ids_ok_distinct : forall S D, ids_ok D = true -> ids_distinct S D.
Proof.
  intros S D H. unfold ids_ok in H. apply andb_true_iff in H. destruct H as [H1 H2].
  apply n_nodup_NoDup in H1. rewrite forallb_forall in H2.
  assert (NZ : forall l x r, In l (doc_lists D) -> l = x :: r -> sel_id x <> 0%N).
  { intros l x r Hl E Hz. assert (Hin : In (sel_id x) (map sel_id (List.concat (doc_lists D)))).
    { apply in_map. apply in_concat. exists l. split; [exact Hl | subst l; left; reflexivity]. }
    specialize (H2 _ Hin). rewrite Hz in H2. discriminate. }
  intros [p l] [p' l'] Hs Hs' Ep Ei. simpl in *. subst p'. f_equal.
  destruct (DS_lists S D _ Hs) as [E|Hl]; destruct (DS_lists S D _ Hs') as [E'|Hl']; simpl in *.
  - congruence.
  - subst l. destruct l' as [|x r]; [reflexivity|]. exfalso. rewrite first_id_sel in Ei. simpl in Ei.
    apply (NZ _ x r Hl' eq_refl). symmetry. exact Ei.
  - subst l'. destruct l as [|x r]; [reflexivity|]. exfalso. rewrite first_id_sel in Ei. simpl in Ei.
    apply (NZ _ x r Hl eq_refl). exact Ei.
  - destruct l as [|x r]; destruct l' as [|x' r']; try reflexivity.
    + exfalso. rewrite first_id_sel in Ei. simpl in Ei. apply (NZ _ x' r' Hl' eq_refl). symmetry. exact Ei.
    + exfalso. rewrite first_id_sel in Ei. simpl in Ei. apply (NZ _ x r Hl eq_refl). exact Ei.
    + rewrite !first_id_sel in Ei.
      apply (concat_nodup_same sel_id (doc_lists D) H1 _ _ x x' Hl Hl' (or_introl eq_refl) (or_introl eq_refl) Ei).
Qed.

(* ---- args_ok => args_unique ---- *)
Lemma names_nodup_NoDup : forall l, names_nodup l = true -> NoDup l.
Proof.
  induction l as [|x r IH]; simpl; intro H; [constructor|]. apply andb_true_iff in H. destruct H as [H1 H2].
  constructor; [|apply IH; exact H2]. intro Hin. apply nmem_in in Hin. rewrite Hin in H1. discriminate.
Qed.

Theorem args_ok_unique : forall S D, args_ok D = true -> args_unique S D.
Proof.
  intros S D H s x Hs Hx. unfold args_ok in H. rewrite forallb_forall in H.
  destruct (DS_lists S D s Hs) as [E|Hl]; [rewrite E in Hx; destruct Hx|].
  destruct (proj2 (dfields_lists S D (fst s) (snd s) x Hl Hx)) as (l & y & Hl' & Hy & E).
  rewrite E. apply names_nodup_NoDup. apply H. apply in_concat. exists l. split; assumption.
Qed.
