(* Proofs about prepared-plan reuse (Cache/Prepared.v). *)
From Coq Require Import List NArith Bool Lia.
From GQL Require Import Cache.Prepared.
Import ListNotations.
Open Scope N_scope.

Section PreparedProofs.
  Context {S SP V Root Res : Type}.
  Variable init_slot : S -> slot -> SP.
  Variable body : S -> V -> Root -> @prog SP Res.

  Notation interp := (interp init_slot).
  Notation pure_eval := (pure_eval init_slot).
  Notation exec := (exec init_slot body).
  Notation exec_many := (exec_many init_slot body).
  Notation fresh_exec := (fresh_exec init_slot body).
  Notation consistent := (consistent init_slot).

  Lemma find_slot_In : forall sl (m : @memo SP) sp, find_slot sl m = Some sp -> In (sl, sp) m.
  Proof.
    intros sl m sp H. unfold find_slot in H.
    destruct (find (fun e => fst e =? sl) m) as [e|] eqn:F; [|discriminate].
    injection H as <-. apply find_some in F. destruct F as [Hin E]. apply N.eqb_eq in E.
    destruct e as [a b]. simpl in *. subst a. exact Hin.
  Qed.

  (* whatever consistent content the slots already have -- left by earlier
     executions or by concurrent ones -- the result is the slot-free result,
     and the slots stay consistent *)
  Lemma interp_consistent : forall s (p : @prog SP Res) m, consistent s m ->
    fst (interp s m p) = pure_eval s p /\ consistent s (snd (interp s m p)).
  Proof.
    intros s. induction p as [r|sl k IH]; intros m Hm; simpl.
    - split; [reflexivity|exact Hm].
    - destruct (find_slot sl m) as [sp|] eqn:F.
      + apply find_slot_In in F. rewrite (Hm _ _ F). apply IH. exact Hm.
      + apply IH. intros sl' sp' [E|Hin]; [injection E as <- <-; reflexivity|apply Hm; exact Hin].
  Qed.

  Lemma consistent_nil : forall s, consistent s [].
  Proof. intros s sl sp []. Qed.

  Lemma fresh_is_pure : forall s v root, fresh_exec s v root = pure_eval s (body s v root).
  Proof. intros. unfold Prepared.fresh_exec, Prepared.exec. apply interp_consistent. apply consistent_nil. Qed.

  Lemma exec_many_fresh : forall s runs m, consistent s m ->
    fst (exec_many s m runs) = map (fun vr => fresh_exec s (fst vr) (snd vr)) runs /\
    consistent s (snd (exec_many s m runs)).
  Proof.
    intros s. induction runs as [|[v root] t IH]; intros m Hm; simpl.
    - split; [reflexivity|exact Hm].
    - destruct (exec s m v root) as [r m1] eqn:E1.
      destruct (interp_consistent s (body s v root) m Hm) as [Hr Hm1].
      unfold Prepared.exec in E1. rewrite E1 in Hr, Hm1. simpl in Hr, Hm1.
      destruct (exec_many s m1 t) as [rs m2] eqn:E2.
      destruct (IH m1 Hm1) as [Hrs Hm2]. rewrite E2 in Hrs, Hm2. simpl in *.
      split; [|exact Hm2]. rewrite Hrs, Hr, fresh_is_pure. reflexivity.
  Qed.
End PreparedProofs.
