(* C01 / C04, "a field that fails contributes null together with an error whose path addresses
   that field": for every resolver invocation of a request whose (not deferred) outcome is a
   failure -- an error, a value together with an error, a panic of any kind -- the response
   carries an error with exactly that field's response path and the field's occurrences as
   locations; wherever the null it causes ends up.  (A deferred outcome fails when it is forced;
   it is forced unless the enclosing subtree was nulled in the meantime.) *)
From Coq Require Import List ZArith NArith String Bool.
From GQL Require Import Exec.Syntax Exec.Coerce Exec.Exec Exec.Request.
Import ListNotations.
Open Scope string_scope.
Open Scope list_scope.

Definition is_val (o : outcome) : bool := match o with OVal _ => true | _ => false end.

Section Err.
Variable E : env.

(* the resolver at the invocation's path answered, at once, with a failure *)
Definition fails_now (c : call) : Prop :=
  exists o o', en_or E (c_path c) = Some o /\ force o = (o', false) /\ is_val o' = false.

Definition reported (es : list gerr) (c : call) : Prop :=
  exists e, In e es /\ e_path e = c_path c /\ e_nodes e = c_nodes c.

Definition rec (pend : option gerr) (s s' : st) : Prop :=
  exists cs es, st_calls s' = st_calls s ++ cs /\ st_errs s' = st_errs s ++ es /\
    forall c, In c cs -> fails_now c ->
      reported es c \/ (exists e, pend = Some e /\ e_path e = c_path c /\ e_nodes e = c_nodes c).

Lemma rec_refl : forall pend s, rec pend s s.
Proof. intros pend s. exists [], []. rewrite !app_nil_r. repeat split; auto. intros c []. Qed.

Lemma rec_eq : forall pend s s', st_calls s' = st_calls s -> st_errs s' = st_errs s -> rec pend s s'.
Proof. intros pend s s' H1 H2. exists [], []. rewrite !app_nil_r. repeat split; auto. intros c []. Qed.

Lemma reported_app_l : forall es1 es2 c, reported es1 c -> reported (es1 ++ es2) c.
Proof. intros es1 es2 c [e [H1 H2]]. exists e. split; [apply in_or_app; left; exact H1|exact H2]. Qed.
Lemma reported_app_r : forall es1 es2 c, reported es2 c -> reported (es1 ++ es2) c.
Proof. intros es1 es2 c [e [H1 H2]]. exists e. split; [apply in_or_app; right; exact H1|exact H2]. Qed.

(* everything before is settled; what follows may leave one failure pending *)
Lemma rec_trans : forall pend s1 s2 s3, rec None s1 s2 -> rec pend s2 s3 -> rec pend s1 s3.
Proof.
  intros pend s1 s2 s3 [c1 [e1 [C1 [E1 F1]]]] [c2 [e2 [C2 [E2 F2]]]].
  exists (c1 ++ c2), (e1 ++ e2). split; [rewrite C2, C1, app_assoc; reflexivity|].
  split; [rewrite E2, E1, app_assoc; reflexivity|].
  intros c Hc Hf. apply in_app_or in Hc. destruct Hc as [Hc|Hc].
  - destruct (F1 c Hc Hf) as [Hr|[e [He _]]]; [left; apply reported_app_l; exact Hr|discriminate].
  - destruct (F2 c Hc Hf) as [Hr|Hp]; [left; apply reported_app_r; exact Hr|right; exact Hp].
Qed.

(* recording the pending failure settles it *)
Lemma rec_add_err : forall e s s', rec (Some e) s s' -> rec None s (add_err e s').
Proof.
  intros e s s' [cs [es [C1 [E1 F1]]]]. exists cs, (es ++ [e]).
  split; [exact C1|]. split; [cbn; rewrite E1, app_assoc; reflexivity|].
  intros c Hc Hf. left. destruct (F1 c Hc Hf) as [Hr|[e0 [He [Hp Hn]]]].
  - apply reported_app_l. exact Hr.
  - inversion He; subst e0. exists e. split; [apply in_or_app; right; left; reflexivity|split; assumption].
Qed.

(* a new failure may be raised once everything before is settled *)
Lemma rec_raise : forall e s s', rec None s s' -> rec (Some e) s s'.
Proof.
  intros e s s' [cs [es [C1 [E1 F1]]]]. exists cs, es. repeat split; auto.
  intros c Hc Hf. destruct (F1 c Hc Hf) as [Hr|[e0 [He _]]]; [left; exact Hr|discriminate].
Qed.

Definition eres {A : Type} (s : st) (r : xres A) : Prop :=
  match r with
  | XOk _ s' => rec None s s'
  | XRaise e s' => rec (Some e) s s'
  | XFuel => True
  end.

Lemma eres_pre : forall A s0 s (r : xres A), rec None s0 s -> eres s r -> eres s0 r.
Proof. intros A s0 s [y s'|e s'|] H Hr; cbn in *; auto; eapply rec_trans; eassumption. Qed.

Lemma eres_catch : forall s t r, eres s r -> eres s (catch_at t r).
Proof.
  intros s t [y s'|e s'|] H; cbn in *; auto.
  destruct (is_nonnull t); cbn; [exact H|]. apply rec_add_err. exact H.
Qed.

Lemma items_loop_err : forall cmp,
  (forall i x s, eres s (cmp i x s)) -> forall l i s, eres s (items_loop cmp l i s).
Proof.
  intros cmp Hc. induction l as [|x l IH]; intros i s; cbn [items_loop]; [cbn; apply rec_refl|].
  specialize (Hc i x s). destruct (cmp i x s) as [y s'|e s'|]; cbn in Hc |- *; auto.
  specialize (IH (i + 1)%N s').
  destruct (items_loop cmp l (i + 1)%N s') as [ys s''|e s''|]; cbn in IH |- *; auto; eapply rec_trans; eassumption.
Qed.

Lemma dethunk_list_err : forall f,
  (forall x s, eres s (f x s)) -> forall l s, eres s (dethunk_list f l s).
Proof.
  intros f Hf. induction l as [|x l IH]; intros s; cbn [dethunk_list]; [cbn; apply rec_refl|].
  specialize (Hf x s). destruct (f x s) as [y s'|e s'|]; cbn in Hf |- *; auto.
  specialize (IH s').
  destruct (dethunk_list f l s') as [ys s''|e s''|]; cbn in IH |- *; auto; eapply rec_trans; eassumption.
Qed.

Lemma dethunk_fields_err : forall f,
  (forall x s, eres s (f x s)) -> forall l s, eres s (dethunk_fields f l s).
Proof.
  intros f Hf. induction l as [|[k x] l IH]; intros s; cbn [dethunk_fields]; [cbn; apply rec_refl|].
  specialize (Hf x s). destruct (f x s) as [y s'|e s'|]; cbn in Hf |- *; auto.
  specialize (IH s').
  destruct (dethunk_fields f l s') as [ys s''|e s''|]; cbn in IH |- *; auto; eapply rec_trans; eassumption.
Qed.

Lemma exec_field_err : forall fuel' cmp dth obj src k occs p s,
  (forall t nodes occs0 fpath p0 v s0, eres s0 (cmp t nodes occs0 fpath p0 v s0)) ->
  (forall q s0, eres s0 (dth q s0)) ->
  eres s (exec_field fuel' cmp dth E obj src k occs p s).
Proof.
  intros fuel' cmp dth obj src k occs p s IHc IHd. unfold exec_field. cbv zeta.
  destruct (String.eqb _ "__typename"); [cbn; apply rec_refl|].
  destruct (find_field _ (object_fields (en_S E) obj)) as [fd|]; [|cbn; apply rec_refl].
  destruct (get_argument_values fuel' (en_S E) (f_args fd) _ (Some (en_vars E))) as [args|]; [|exact I].
  set (fp := p ++ [PKey k]).
  match goal with |- context [add_call ?c0 s] => set (c := c0) end.
  set (s1 := add_call c s).
  assert (Hfo : forall o thunked,
             match en_or E fp with Some o => force o | None => (OVal RNull, false) end = (o, thunked) ->
             fails_now c -> thunked = false /\ is_val o = false).
  { intros o thunked Ho [o1 [o2 [H1 [H2 H3]]]]. cbn [c c_path] in H1. rewrite H1, H2 in Ho.
    inversion Ho; subst. split; [reflexivity|exact H3]. }
  destruct (match en_or E fp with Some o => force o | None => (OVal RNull, false) end) as [o thunked].
  specialize (Hfo o thunked eq_refl).
  set (s2 := match en_or E fp with Some _ => s1 | None => add_missing fp s1 end).
  assert (Hc2 : st_calls s2 = st_calls s ++ [c]) by (unfold s2; destruct (en_or E fp); reflexivity).
  assert (He2 : st_errs s2 = st_errs s) by (unfold s2; destruct (en_or E fp); reflexivity).
  (* the invocation itself is settled as soon as it does not fail at once *)
  assert (Hs2ok : (fails_now c -> False) -> rec None s s2).
  { intros Hn. exists [c], []. rewrite app_nil_r. repeat split; auto.
    intros c' [<-|[]] Hf. destruct (Hn Hf). }
  assert (Hs2raise : rec (Some {| e_path := fp; e_nodes := map oc_id occs |}) s s2).
  { exists [c], []. rewrite app_nil_r. repeat split; auto.
    intros c' [<-|[]] Hf. right. eexists. split; [reflexivity|]. split; reflexivity. }
  match goal with |- eres _ (match catch_at ?t ?r1 with _ => _ end) => assert (Hr1 : eres s r1) end.
  { destruct (thunked && negb (is_nonnull (f_type fd))) eqn:Et.
    - cbn. apply Hs2ok. intros Hf. destruct (Hfo Hf) as [-> _]. discriminate.
    - match goal with |- eres _ (match ?c0 with _ => _ end) => assert (Hc0 : eres s c0) end.
      { destruct o; try exact Hs2raise.
        eapply eres_pre; [|apply IHc]. apply Hs2ok. intros Hf. destruct (Hfo Hf) as [_ Hv]. discriminate. }
      match goal with |- eres _ (match ?c0 with _ => _ end) => destruct c0 as [q0 s0|e0 s0|] end; cbn in Hc0 |- *; auto.
      destruct thunked; cbn; [|exact Hc0].
      destruct Hc0 as [cs [es [C1 [E1 F1]]]]. exists cs, es. repeat split; auto. }
  pose proof (eres_catch _ (f_type fd) _ Hr1) as Hcatch.
  match goal with |- eres _ (match ?cc with _ => _ end) => destruct cc as [y s'|e s'|] end; cbn in Hcatch |- *; auto.
  destruct (en_serial E && match p with [] => true | _ :: _ => false end).
  - specialize (IHd y s').
    destruct (dth y s') as [y' s''|e s''|]; cbn in IHd |- *; auto; eapply rec_trans; eassumption.
  - cbn. exact Hcatch.
Qed.

Definition PE (fuel : nat) : Prop :=
  (forall t nodes occs fpath p v s, eres s (complete fuel E t nodes occs fpath p v s)) /\
  (forall obj occs p src s, eres s (exec_object fuel E obj occs p src s)) /\
  (forall obj src g p s, eres s (exec_groups fuel E obj src g p s)) /\
  (forall q s, eres s (dethunk fuel E q s)).

Lemma err_inv : forall fuel, PE fuel.
Proof.
  induction fuel as [|fuel [IHc [IHo [IHg IHd]]]].
  - repeat split; intros; exact I.
  - repeat split.
    + intros t nodes occs fpath p v s. cbn [complete].
      destruct t as [n|t'|t'].
      * destruct (rv_nullish v); [cbn; apply rec_refl|].
        destruct (lookup_type (en_S E) n) as [[k|vals|fs ifs|fs|ms|fs]|]; try (cbn; apply rec_refl).
        -- apply IHo.
        -- destruct (en_tor E v) as [rt|]; [|cbn; apply rec_eq; reflexivity].
           destruct (possible_type (en_S E) n rt); [|cbn; apply rec_eq; reflexivity].
           eapply eres_pre; [|apply IHo]. apply rec_eq; reflexivity.
        -- destruct (en_tor E v) as [rt|]; [|cbn; apply rec_eq; reflexivity].
           destruct (possible_type (en_S E) n rt); [|cbn; apply rec_eq; reflexivity].
           eapply eres_pre; [|apply IHo]. apply rec_eq; reflexivity.
      * destruct (rv_nullish v); [cbn; apply rec_refl|].
        destruct v; try (cbn; apply rec_refl).
        pose proof (items_loop_err
                      (fun i x s0 => catch_at t' (complete fuel E t' nodes occs fpath (p ++ [PIdx i]) x s0))
                      (fun i x s1 => eres_catch s1 t' _ (IHc t' nodes occs fpath (p ++ [PIdx i]) x s1)) l 0%N s) as HL.
        destruct (items_loop _ l 0%N s) as [ys s'|e s'|]; cbn in HL |- *; auto.
      * specialize (IHc t' nodes occs fpath p v s).
        destruct (complete fuel E t' nodes occs fpath p v s) as [q s'|e s'|]; cbn in IHc |- *; auto.
        destruct q; cbn; try exact IHc. apply rec_raise. exact IHc.
    + intros obj occs p src s. cbn [exec_object].
      destruct (collect_all fuel (en_S E) (en_D E) (en_vars E) obj (map oc_sub occs) [] []) as [g|]; [|exact I].
      specialize (IHg obj src g p s).
      destruct (exec_groups fuel E obj src g p s) as [fs s'|e s'|]; cbn in IHg |- *; auto.
    + intros obj src g p s. cbn [exec_groups].
      destruct g as [|[k occs] rest]; [cbn; apply rec_refl|].
      pose proof (exec_field_err fuel (complete fuel E) (dethunk fuel E) obj src k occs p s
                    (fun t nodes occs0 fpath p0 v s0 => IHc t nodes occs0 fpath p0 v s0)
                    (fun q s0 => IHd q s0)) as Hf.
      destruct (exec_field fuel (complete fuel E) (dethunk fuel E) E obj src k occs p s) as [y s'|e s'|]; cbn in Hf |- *; auto.
      specialize (IHg obj src rest p s').
      destruct (exec_groups fuel E obj src rest p s') as [ys s''|e s''|]; cbn in IHg |- *; auto; eapply rec_trans; eassumption.
    + intros q s. cbn [dethunk].
      destruct q as [|v|l|l|t nodes occs tp o]; try (cbn; apply rec_refl).
      * pose proof (dethunk_list_err (dethunk fuel E) (fun x s0 => IHd x s0) l s) as HL.
        destruct (dethunk_list (dethunk fuel E) l s) as [ys s'|e s'|]; cbn in HL |- *; auto.
      * pose proof (dethunk_fields_err (dethunk fuel E) (fun x s0 => IHd x s0) l s) as HL.
        destruct (dethunk_fields (dethunk fuel E) l s) as [ys s'|e s'|]; cbn in HL |- *; auto.
      * match goal with |- eres _ (match catch_at _ ?r with _ => _ end) => assert (Hr : eres s r) end.
        { destruct o; try (cbn; apply rec_raise; apply rec_refl). apply IHc. }
        pose proof (eres_catch _ t _ Hr) as Hcatch.
        match goal with |- eres _ (match ?c with _ => _ end) => destruct c as [y s'|e s'|] end; cbn in Hcatch |- *; auto.
        eapply eres_pre; [exact Hcatch|]. apply IHd.
Qed.
End Err.

Theorem request_failures_reported : forall fuel S D opn inputs root or tor data s,
  request fuel S D opn inputs root or tor = RDone data s ->
  exists op vars,
    get_operation D opn = Some op /\
    get_variable_values fuel S (o_vars op) inputs = Some (inl vars) /\
    let E := {| en_S := S; en_D := D; en_vars := vars; en_or := or; en_tor := tor;
                en_serial := match o_kind op with OpMutation => true | _ => false end |} in
    forall c, In c (st_calls s) -> fails_now E c -> reported (st_errs s) c.
Proof.
  intros fuel S D opn inputs root or tor data s H. unfold request in H.
  destruct (get_operation D opn) as [op|] eqn:Eop; [|discriminate].
  destruct (root_type S op) as [rt|] eqn:Ert; [|discriminate].
  destruct (get_variable_values fuel S (o_vars op) inputs) as [[vars|e]|] eqn:Ev; try discriminate.
  destruct (collect fuel S D vars rt (o_sel op) [] []) as [[g v]|] eqn:Ec; [|discriminate].
  exists op, vars. split; [reflexivity|]. split; [first [reflexivity|exact Ev]|]. cbv zeta.
  set (E := {| en_S := S; en_D := D; en_vars := vars; en_or := or; en_tor := tor;
               en_serial := match o_kind op with OpMutation => true | _ => false end |}) in *.
  destruct (err_inv E fuel) as [_ [_ [IHg IHd]]].
  specialize (IHg rt root g [] st0).
  assert (Hfin : forall s', rec E None st0 s' -> forall c, In c (st_calls s') -> fails_now E c -> reported (st_errs s') c).
  { intros s' [cs [es [C1 [E1 F1]]]] c Hc Hf. rewrite C1 in Hc. rewrite E1. cbn in Hc |- *.
    destruct (F1 c Hc Hf) as [Hr|[e0 [He _]]]; [exact Hr|discriminate]. }
  destruct (exec_groups fuel E rt root g [] st0) as [fs s1|e s1|] eqn:Eg; try discriminate; cbn in IHg.
  - specialize (IHd (QObj fs) s1).
    destruct (dethunk fuel E (QObj fs) s1) as [q s2|e s2|] eqn:Ed; try discriminate; cbn in IHd.
    + inversion H; subst. apply Hfin. eapply rec_trans; eassumption.
    + inversion H; subst. apply Hfin. apply rec_add_err. eapply rec_trans; eassumption.
  - inversion H; subst. apply Hfin. apply rec_add_err. exact IHg.
Qed.
