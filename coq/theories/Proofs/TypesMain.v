(* Assembly of the C11 statements. *)
From Coq Require Import List NArith Bool Lia.
From GQL Require Import Base.Bytes Types.Schema Types.Consistent Proofs.TypesReduce Proofs.TypesNames
  Proofs.TypesClosed Proofs.TypesView Proofs.TypesImpl.
Import ListNotations.
Open Scope N_scope.

Lemma view_of_types S : v_types (view_of S) = view_types (s_defs S) (s_tm S).
Proof. reflexivity. Qed.

Lemma root_in_map fuel c sch r q : new_schema_fuel fuel c = OK sch ->
  r = Some q -> In (TNamed q) (initial_types c) -> In q (ids (s_tm sch)).
Proof.
  intros H Hr Hin. destruct (new_schema_fuel_closed _ _ _ H) as [_ Hroots].
  apply (tgt_named_in (s_defs sch)). exact (Hroots (TNamed q) Hin).
Qed.

Lemma consistent_partial fuel c sch : new_schema_fuel fuel c = OK sch ->
  let V := view_of sch in
  NoDup (map vt_name (v_types V))
  /\ (forall vt, In vt (v_types V) -> valid_name (vt_name vt) = true)
  /\ (forall vt, In vt (v_types V) -> type_ok (v_types V) vt = true)
  /\ (exists q, v_query V = Some q /\ is_vobject (v_types V) q = true)
  /\ (forall m, v_mutation V = Some m -> is_vobject (v_types V) m = true)
  /\ (forall m, v_subscription V = Some m -> is_vobject (v_types V) m = true).
Proof.
  intros H V. pose proof (new_schema_fuel_good _ _ _ H) as Hg.
  destruct (new_schema_fuel_closed _ _ _ H) as [Hc Hroots].
  destruct (new_schema_fuel_tm _ _ _ H) as (Hd & Hq & Hm & Hs & _ & _ & [q Hq'] & Hr1 & Hr2 & Hr3).
  split; [exact (good_unique_names sch Hg)|].
  split; [exact (good_valid_names sch Hg)|].
  split; [unfold V; rewrite view_of_types; exact (good_closed_type_ok _ _ Hg Hc)|].
  unfold V. rewrite view_of_types. simpl. rewrite Hd in *.
  split; [|split].
  - exists q. split; [congruence|]. apply root_is_vobject; [rewrite <- Hq'; exact Hr1|].
    apply (tgt_named_in (c_defs c)). apply (Hroots (TNamed q)).
    unfold initial_types. rewrite Hq'. simpl. left. reflexivity.
  - intros m Hm'. rewrite Hm in Hm'. apply root_is_vobject; [rewrite <- Hm'; exact Hr2|].
    apply (tgt_named_in (c_defs c)). apply (Hroots (TNamed m)).
    unfold initial_types. rewrite Hm'. apply in_or_app. right. simpl. left. reflexivity.
  - intros m Hm'. rewrite Hs in Hm'. apply root_is_vobject; [rewrite <- Hm'; exact Hr3|].
    apply (tgt_named_in (c_defs c)). apply (Hroots (TNamed m)).
    unfold initial_types. rewrite Hm'. apply in_or_app. right. apply in_or_app. right. simpl. left. reflexivity.
Qed.

Lemma implements_partial fuel c sch : new_schema_fuel fuel c = OK sch ->
  forall o i jf, In o (objects_of sch) -> In i (interfaces_of (s_defs sch) o) -> In jf (fields_of (s_defs sch) i) ->
    implements_field (abstract_possible sch) (fields_of (s_defs sch) o) jf.
Proof.
  intros H. destruct (new_schema_fuel_tm _ _ _ H) as (_ & _ & _ & _ & _ & Hc & _).
  exact (check_implementations_sound sch Hc).
Qed.

(* ---------- parked errors surface ---------- *)
Inductive reachable (defs : list (N * tdef)) (roots : list tref) : N -> Prop :=
| r_root t i : In t roots -> target_of defs (norm t) = TgtTo i -> reachable defs roots i
| r_step x t i : reachable defs roots x -> In t (out_refs defs x) -> target_of defs t = TgtTo i -> reachable defs roots i.

Lemma reachable_in_map defs roots tm : closed defs tm ->
  (forall t, In t roots -> tgt_in defs tm (norm t)) ->
  forall i, reachable defs roots i -> In i (ids tm).
Proof.
  intros Hc Hr i Hi. induction Hi as [t i Ht Hi|x t i Hx IH Ht Hi].
  - pose proof (Hr t Ht) as H. unfold tgt_in in H. rewrite Hi in H. exact H.
  - pose proof (Hc x IH t Ht) as H. unfold tgt_in in H. rewrite Hi in H. exact H.
Qed.

Lemma errors_surface fuel c sch : new_schema_fuel fuel c = OK sch ->
  (forall t, In t (initial_types c) -> target_of (c_defs c) (norm t) <> TgtBad)
  /\ forall i, reachable (c_defs c) (initial_types c) i ->
       (exists d, find_def (c_defs c) i = Some d /\ static_ok (c_defs c) d)
       /\ forall t, In t (out_refs (c_defs c) i) -> target_of (c_defs c) t <> TgtBad.
Proof.
  intros H. pose proof (new_schema_fuel_good _ _ _ H) as [_ Hg].
  destruct (new_schema_fuel_closed _ _ _ H) as [Hc Hroots].
  destruct (new_schema_fuel_tm _ _ _ H) as (Hd & _). rewrite Hd in *.
  split.
  - intros t Ht Hbad. pose proof (Hroots t Ht) as Hx. unfold tgt_in in Hx. rewrite Hbad in Hx. exact Hx.
  - intros i Hi. pose proof (reachable_in_map _ _ _ Hc Hroots i Hi) as Hin. split.
    + unfold ids in Hin. apply in_map_iff in Hin. destruct Hin as [[n j] [Hj Hin]]. simpl in Hj. subst j.
      destruct (Hg n i Hin) as (d & Hfd & _ & Hs). exists d. auto.
    + intros t Ht Hbad. pose proof (Hc i Hin t Ht) as Hx. unfold tgt_in in Hx. rewrite Hbad in Hx. exact Hx.
Qed.

(* ---------- the introspection types are in the map ---------- *)
Lemma meta_present fuel c sch : new_schema_fuel fuel (with_meta c) = OK sch ->
  forall n, In n meta_names -> In n (map vt_name (v_types (view_of sch))).
Proof.
  intros H. pose proof (new_schema_fuel_good _ _ _ H) as [_ Hg].
  destruct (new_schema_fuel_closed _ _ _ H) as [Hc Hroots].
  destruct (new_schema_fuel_tm _ _ _ H) as (Hd & _). rewrite Hd in *.
  set (defs := c_defs (with_meta c)) in *.
  assert (H10 : In 10 (ids (s_tm sch))).
  { apply (tgt_named_in defs). apply (Hroots (TNamed 10)). unfold initial_types.
    apply in_or_app. right. apply in_or_app. right. apply in_or_app. right. left. reflexivity. }
  assert (Hstep : forall x t i, In x (ids (s_tm sch)) -> In t (out_refs defs x) -> target_of defs t = TgtTo i -> In i (ids (s_tm sch))).
  { intros x t i Hx Ht Hi. pose proof (Hc x Hx t Ht) as Hy. unfold tgt_in in Hy. rewrite Hi in Hy. exact Hy. }
  assert (H11 : In 11 (ids (s_tm sch))).
  { apply (Hstep 10 (TNamed 11)); auto; vm_compute; tauto. }
  assert (H15 : In 15 (ids (s_tm sch))).
  { apply (Hstep 10 (TNonNull (TList (TNonNull (TNamed 15))))); auto; vm_compute; tauto. }
  assert (H12 : In 12 (ids (s_tm sch))).
  { apply (Hstep 11 (TList (TNonNull (TNamed 12)))); auto; vm_compute; tauto. }
  assert (H13 : In 13 (ids (s_tm sch))).
  { apply (Hstep 11 (TList (TNonNull (TNamed 13)))); auto; vm_compute; tauto. }
  assert (H14 : In 14 (ids (s_tm sch))).
  { apply (Hstep 11 (TList (TNonNull (TNamed 14)))); auto; vm_compute; tauto. }
  assert (H16 : In 16 (ids (s_tm sch))).
  { apply (Hstep 11 (TNonNull (TNamed 16))); auto; vm_compute; tauto. }
  assert (H17 : In 17 (ids (s_tm sch))).
  { apply (Hstep 15 (TNonNull (TList (TNonNull (TNamed 17))))); auto; vm_compute; tauto. }
  assert (Hname : forall i, In i (ids (s_tm sch)) -> In (name_of defs i) (map fst (s_tm sch))).
  { intros i Hi. unfold ids in Hi. apply in_map_iff in Hi. destruct Hi as [[n j] [Hj Hin]]. simpl in Hj. subst j.
    destruct (Hg n i Hin) as (d' & Hfd' & Hn & _). unfold name_of. rewrite Hfd'.
    rewrite Hn. change n with (fst (n, i)). apply in_map. exact Hin. }
  intros n Hn. unfold view_of; simpl. rewrite view_names.
  unfold meta_names in Hn. vm_compute in Hn.
  repeat (destruct Hn as [Hn|Hn]; [subst n|]); try contradiction.
  - pose proof (Hname 10 H10) as X. vm_compute in X. exact X.
  - pose proof (Hname 11 H11) as X. vm_compute in X. exact X.
  - pose proof (Hname 12 H12) as X. vm_compute in X. exact X.
  - pose proof (Hname 13 H13) as X. vm_compute in X. exact X.
  - pose proof (Hname 14 H14) as X. vm_compute in X. exact X.
  - pose proof (Hname 15 H15) as X. vm_compute in X. exact X.
  - pose proof (Hname 16 H16) as X. vm_compute in X. exact X.
  - pose proof (Hname 17 H17) as X. vm_compute in X. exact X.
Qed.
