(* The viable-prefix half for the type-system definitions and for whole documents: whatever the
   recogniser of documents had consumed when it failed begins a derivable document. *)
From Coq Require Import String List NArith Bool Lia PeanoNat.
From GQL Require Import Base.Bytes Syntax.Lexer Syntax.Ast Syntax.Parser Syntax.Grammar SynErr.LexErr SynErr.ParseErr.
From GQL Require Import Proofs.SyntaxSound Proofs.SyntaxComplete Proofs.SynErrWB Proofs.SynErrErase Proofs.SynErrComplete
  Proofs.SynErrLang Proofs.SynErrViableAll.
Import ListNotations.
Open Scope N_scope.

(* ---- descriptions, names ---- *)
Lemma SoundL_desc : SoundL descE (LangOf DDescr).
Proof. exact (SoundL_of _ _ _ _ Er_parse_description parse_description_sound). Qed.
Lemma CompL_desc : forall L, CompL descE L.
Proof.
  intros L ts r H. exfalso. unfold descE, ifE, caseE in H. destruct ts as [|t ts]; cbn [hd_error] in H; [discriminate H|].
  destruct (is_desc t); cbn in H; discriminate H.
Qed.
Lemma Inh_descr : Inh (LangOf DDescr).
Proof. exists []. eexists. constructor. Qed.
#[export] Hint Resolve SoundL_desc CompL_desc Inh_descr : lang.

Lemma SepL_mono : forall (A B : lang) sep p, (forall q, A q -> B q) -> SepL A sep p -> SepL B sep p.
Proof. intros A B sep p H S. induction S; [apply SepL_one|apply SepL_cons]; auto. Qed.
Lemma SepL_named : forall sep p, SepL (TokL (is_k NAME)) sep p -> exists l, DSep DNamed sep p l.
Proof.
  intros sep p S. apply SepL_DSep. eapply SepL_mono; [|exact S].
  intros q (t & -> & K). unfold is_k in K. apply tkind_beq_eq in K. eexists. constructor. exact K.
Qed.
Lemma SepL_name : forall sep p, SepL (TokL (is_k NAME)) sep p -> exists l, DSep DName sep p l.
Proof.
  intros sep p S. apply SepL_DSep. eapply SepL_mono; [|exact S].
  intros q (t & -> & K). unfold is_k in K. apply tkind_beq_eq in K. eexists. constructor. exact K.
Qed.
Lemma Inh_SepL : forall A sep, Inh A -> Inh (SepL A sep).
Proof. intros A sep [w Hw]. exists w. constructor. exact Hw. Qed.

Ltac inh ::=
  lazymatch goal with |- Inh ?L => tryif is_evar L then fail else idtac | _ => idtac end;
  repeat first
    [ assumption
    | apply Inh_TokL_k | apply Inh_kwd | apply Inh_desc | apply Inh_optype | apply Inh_EpsL | apply Inh_StarL
    | apply Inh_CatL | apply Inh_Plus | apply Inh_SepL
    | solve [eauto with lang]
    | (apply Inh_AltL_r; solve [inh]) | (apply Inh_AltL_l; solve [inh]) ].

(* ---- input values, field definitions ---- *)
Lemma mk_ivdef : forall pdsc n c pt pd, LangOf DDescr pdsc -> tk n = NAME -> tk c = COLON -> LangOf DType pt ->
  LangOf DDirecs pd -> LangOf DIVDef (pdsc ++ n :: c :: pt ++ pd).
Proof.
  intros pdsc n c pt pd [dsc Dd] Kn Kc [t Dt] [dirs Dr]. eexists.
  apply (DIV_intro pdsc dsc n c pt t [] None pd dirs); auto. constructor.
Qed.
Lemma mk_ivdef_default : forall pdsc n c pt e pv pd, LangOf DDescr pdsc -> tk n = NAME -> tk c = COLON -> LangOf DType pt ->
  tk e = EQUALS -> LangOf (DValue true) pv -> LangOf DDirecs pd -> LangOf DIVDef (pdsc ++ n :: c :: pt ++ e :: pv ++ pd).
Proof.
  intros pdsc n c pt e pv pd [dsc Dd] Kn Kc [t Dt] Ke [v Dv] [dirs Dr]. eexists.
  apply (DIV_intro pdsc dsc n c pt t (e :: pv) (Some v) pd dirs); auto. constructor. constructor; assumption.
Qed.
Lemma SoundL_ivdef : forall f, SoundL (parse_ivdefE f) (LangOf DIVDef).
Proof. intro f. exact (SoundL_of _ _ _ _ (Er_parse_ivdef f) (parse_ivdef_sound f)). Qed.
Lemma CompL_ivdef : forall f, CompL (parse_ivdefE f) (LangOf DIVDef).
Proof.
  intro f. unfold parse_ivdefE, parse_defaultE. eapply CompL_mono; cycle 1; [comp|].
  intros p H. apart; tkfact; cbn [app];
    first [ apply mk_ivdef_default | apply mk_ivdef ]; eauto; eexists; eassumption.
Qed.
Lemma Inh_ivdef : Inh (LangOf DIVDef).
Proof.
  exists ([] ++ xNAME :: cCOLON :: [cNAME] ++ []). apply mk_ivdef; try reflexivity.
  - eexists; constructor.
  - apply Inh_type_w.
  - eexists; constructor.
Qed.
#[export] Hint Resolve SoundL_ivdef CompL_ivdef Inh_ivdef : lang.

Lemma SoundL_argdefs : forall f, SoundL (parse_argdefsE f) (LangOf DArgDefs).
Proof. intro f. exact (SoundL_of _ _ _ _ (Er_parse_argdefs f) (parse_argdefs_sound f)). Qed.
Lemma CompL_argdefs : forall f, CompL (parse_argdefsE f) (LangOf DArgDefs).
Proof.
  intro f. unfold parse_argdefsE. eapply CompL_mono; cycle 1; [comp|].
  intros p H. apart; [eexists; apply DOptDelim_some; eassumption|exists []; apply DOptDelim_none].
Qed.
Lemma Inh_argdefs : Inh (LangOf DArgDefs).
Proof. exists []. eexists. apply DOptDelim_none. Qed.
#[export] Hint Resolve SoundL_argdefs CompL_argdefs Inh_argdefs : lang.

Lemma mk_fielddef : forall pdsc n pa c pt pd, LangOf DDescr pdsc -> tk n = NAME -> LangOf DArgDefs pa -> tk c = COLON ->
  LangOf DType pt -> LangOf DDirecs pd -> LangOf DFieldDef (pdsc ++ n :: pa ++ c :: pt ++ pd).
Proof.
  intros pdsc n pa c pt pd [dsc Dd] Kn [args Da] Kc [t Dt] [dirs Dr]. eexists. apply DFD_intro; eassumption.
Qed.
Lemma SoundL_fielddef : forall f, SoundL (parse_fielddefE f) (LangOf DFieldDef).
Proof. intro f. exact (SoundL_of _ _ _ _ (Er_parse_fielddef f) (parse_fielddef_sound f)). Qed.
Lemma CompL_fielddef : forall f, CompL (parse_fielddefE f) (LangOf DFieldDef).
Proof.
  intro f. unfold parse_fielddefE. eapply CompL_mono; cycle 1; [comp|].
  intros p H. apart; tkfact; cbn [app]. apply mk_fielddef; eauto; eexists; eassumption.
Qed.
Lemma Inh_fielddef : Inh (LangOf DFieldDef).
Proof.
  exists ([] ++ xNAME :: [] ++ cCOLON :: [cNAME] ++ []). apply mk_fielddef; try reflexivity.
  - eexists; constructor.
  - eexists; apply DOptDelim_none.
  - apply Inh_type_w.
  - eexists; constructor.
Qed.
#[export] Hint Resolve SoundL_fielddef CompL_fielddef Inh_fielddef : lang.

Lemma mk_enumvaldef : forall pdsc n pd, LangOf DDescr pdsc -> tk n = NAME -> LangOf DDirecs pd ->
  LangOf DEnumValDef (pdsc ++ n :: pd).
Proof. intros pdsc n pd [dsc Dd] Kn [dirs Dr]. eexists. apply DEV_intro; eassumption. Qed.
Lemma SoundL_enumvaldef : forall f, SoundL (parse_enumvaldefE f) (LangOf DEnumValDef).
Proof. intro f. exact (SoundL_of _ _ _ _ (Er_parse_enumvaldef f) (parse_enumvaldef_sound f)). Qed.
Lemma CompL_enumvaldef : forall f, CompL (parse_enumvaldefE f) (LangOf DEnumValDef).
Proof.
  intro f. unfold parse_enumvaldefE. eapply CompL_mono; cycle 1; [comp|].
  intros p H. apart; tkfact; cbn [app]. apply mk_enumvaldef; eauto; eexists; eassumption.
Qed.
Lemma Inh_enumvaldef : Inh (LangOf DEnumValDef).
Proof. exists ([] ++ xNAME :: []). apply mk_enumvaldef; try reflexivity; eexists; constructor. Qed.
#[export] Hint Resolve SoundL_enumvaldef CompL_enumvaldef Inh_enumvaldef : lang.

Lemma SoundL_optypedef : SoundL parse_optypedefE (LangOf DOpTypeDef).
Proof. exact (SoundL_of _ _ _ _ Er_parse_optypedef parse_optypedef_sound). Qed.
Lemma mk_optypedef : forall k c t, is_optype k = true -> tk c = COLON -> tk t = NAME -> LangOf DOpTypeDef [k; c; t].
Proof. intros k c t Hk Kc Kt. destruct (is_optype_of _ Hk) as [Kk [op Ho]]. eexists. apply DOT_intro; eassumption. Qed.
Lemma CompL_optypedef : CompL parse_optypedefE (LangOf DOpTypeDef).
Proof.
  unfold parse_optypedefE, parse_optypeE. eapply CompL_mono; cycle 1; [comp|].
  intros p H. apart; tkfact; cbn [app]. apply mk_optypedef; assumption.
Qed.
Lemma Inh_optypedef : Inh (LangOf DOpTypeDef).
Proof. exists [kwtok (kw "query"); cCOLON; cNAME]. apply mk_optypedef; reflexivity. Qed.
#[export] Hint Resolve SoundL_optypedef CompL_optypedef Inh_optypedef : lang.

(* ---- implements ---- *)
Lemma SoundL_implements : forall f, SoundL (parse_implementsE f) (LangOf DImplements).
Proof. intro f. exact (SoundL_of _ _ _ _ (Er_parse_implements f) (parse_implements_sound f)). Qed.
Lemma CompL_implements : forall f, CompL (parse_implementsE f) (LangOf DImplements).
Proof.
  intro f. unfold parse_implementsE. eapply CompL_mono; cycle 1.
  - apply CompL_if_any; [|apply (CompL_okE EpsL)].
    apply CompL_seqE; [apply SoundL_optE|apply CompL_optE| |apply Inh_SepL; apply Inh_TokL_k].
    apply CompL_sep_byE; [apply SoundL_tokE|apply CompL_tokE; apply Inh_TokL_k].
  - intros p [H|H].
    + destruct H as (a & b & -> & (i & -> & Hi) & (c & d & -> & Hc & Hs)). tkfact.
      destruct (SepL_named _ _ Hs) as [l Dl]. eexists. cbn [app].
      apply (DImpl_some i c d l); try assumption.
      destruct Hc as [(am & -> & Ka)|Hc]; [right; tkfact; eauto|left; exact Hc].
    + try (red in H). subst. eexists. apply DImpl_none.
Qed.
Lemma Inh_implements : Inh (LangOf DImplements).
Proof. exists []. eexists. apply DImpl_none. Qed.
#[export] Hint Resolve SoundL_implements CompL_implements Inh_implements : lang.

(* ---- definition bodies: what follows the optional description ---- *)
Definition ObjBodyL : lang := fun p => forall pdsc, LangOf DDescr pdsc -> LangOf DObjDef (pdsc ++ p).
Definition BodyL : lang := fun p => forall pdsc, LangOf DDescr pdsc -> LangOf DDefinition (pdsc ++ p).

Lemma ts_def : forall p, LangOf DTypeSystem p -> LangOf DDefinition p.
Proof. intros p [d D]. exists d. apply DD_ts. exact D. Qed.

Lemma CompL_objdef_body : forall f, CompL (objdef_bodyE f) ObjBodyL.
Proof.
  intro f. unfold objdef_bodyE. eapply CompL_mono; cycle 1; [comp|].
  intros p H; red; intros pdsc [dsc Dd]. apart; tkfact; cbn [app]. eexists. apply DOD_intro; eassumption.
Qed.
Lemma ObjBodyL_BodyL : forall p, ObjBodyL p -> BodyL p.
Proof. intros p H pdsc Hd. destruct (H pdsc Hd) as [o Do]. apply ts_def. eexists. apply DTS_object. exact Do. Qed.
Lemma Inh_ObjBodyL : Inh ObjBodyL.
Proof.
  exists (kwtok (kw "type") :: xNAME :: [] ++ [] ++ (ctok BRACE_L :: [] ++ [ctok BRACE_R])). intros pdsc [dsc Dd]. eexists.
  apply DOD_intro; try eassumption; try reflexivity; [apply DImpl_none|constructor|].
  constructor; [reflexivity|reflexivity|constructor|discriminate].
Qed.

Lemma CompL_scalar_body : forall f, CompL (scalar_bodyE f) BodyL.
Proof.
  intro f. unfold scalar_bodyE. eapply CompL_mono; cycle 1; [comp|].
  intros p H; red; intros pdsc [dsc Dd]. apart; tkfact; cbn [app]. apply ts_def. eexists. apply DTS_scalar; eassumption.
Qed.
Lemma CompL_interface_body : forall f, CompL (interface_bodyE f) BodyL.
Proof.
  intro f. unfold interface_bodyE. eapply CompL_mono; cycle 1; [comp|].
  intros p H; red; intros pdsc [dsc Dd]. apart; tkfact; cbn [app]. apply ts_def. eexists. apply DTS_interface; eassumption.
Qed.
Lemma CompL_union_body : forall f, CompL (union_bodyE f) BodyL.
Proof.
  intro f. unfold union_bodyE. eapply CompL_mono; cycle 1; [comp|].
  intros p H; red; intros pdsc [dsc Dd].
  repeat match goal with
         | H : CatL _ _ _ |- _ => let a := fresh "p" in let b := fresh "p" in destruct H as (a & b & -> & ? & ?)
         | H : TokL _ _ |- _ => let t := fresh "t" in destruct H as (t & -> & ?)
         | H : LangOf _ _ |- _ => let a := fresh "x" in destruct H as [a ?]
         | H : SepL (TokL _) _ _ |- _ => apply SepL_named in H; let l := fresh "l" in destruct H as [l H]
         end.
  tkfact; cbn [app]. apply ts_def. eexists. apply DTS_union; eassumption.
Qed.
Lemma CompL_enum_body : forall f, CompL (enum_bodyE f) BodyL.
Proof.
  intro f. unfold enum_bodyE. eapply CompL_mono; cycle 1; [comp|].
  intros p H; red; intros pdsc [dsc Dd]. apart; tkfact; cbn [app]. apply ts_def. eexists. apply DTS_enum; eassumption.
Qed.
Lemma CompL_input_body : forall f, CompL (input_bodyE f) BodyL.
Proof.
  intro f. unfold input_bodyE. eapply CompL_mono; cycle 1; [comp|].
  intros p H; red; intros pdsc [dsc Dd]. apart; tkfact; cbn [app]. apply ts_def. eexists. apply DTS_input; eassumption.
Qed.
Lemma CompL_directive_body : forall f, CompL (directive_bodyE f) BodyL.
Proof.
  intro f. unfold directive_bodyE. eapply CompL_mono; cycle 1; [comp|].
  intros p H; red; intros pdsc [dsc Dd].
  repeat match goal with
         | H : CatL _ _ _ |- _ => let a := fresh "p" in let b := fresh "p" in destruct H as (a & b & -> & ? & ?)
         | H : TokL _ _ |- _ => let t := fresh "t" in destruct H as (t & -> & ?)
         | H : LangOf _ _ |- _ => let a := fresh "x" in destruct H as [a ?]
         | H : SepL (TokL _) _ _ |- _ => apply SepL_name in H; let l := fresh "l" in destruct H as [l H]
         end.
  tkfact; cbn [app]. apply ts_def. eexists. apply DTS_directive; eassumption.
Qed.
Lemma Inh_BodyL : Inh BodyL.
Proof. destruct Inh_ObjBodyL as [w Hw]. exists w. apply ObjBodyL_BodyL. exact Hw. Qed.
Lemma BodyL_def : forall p, BodyL p -> LangOf DDefinition p.
Proof. intros p H. apply (H []). eexists. constructor. Qed.

Lemma CompL_schema : forall f, CompL (parse_schemaE f) (LangOf DDefinition).
Proof.
  intro f. unfold parse_schemaE. eapply CompL_mono; cycle 1; [comp|].
  intros p H. apart; tkfact; cbn [app]. apply ts_def. eexists. apply DTS_schema; eassumption.
Qed.
Lemma CompL_extend : forall f, CompL (parse_extendE f) (LangOf DDefinition).
Proof.
  intro f. unfold parse_extendE. eapply CompL_mono; cycle 1.
  - apply CompL_seqE; [apply SoundL_tokE|apply CompL_tokE; apply Inh_kwd| |].
    + apply CompL_seqE; [apply SoundL_desc|apply CompL_desc|apply CompL_objdef_body|apply Inh_ObjBodyL].
    + apply Inh_CatL; [apply Inh_descr|apply Inh_ObjBodyL].
  - intros p (a & b & -> & (k & -> & Hk) & (pd & pb & -> & Hd & Hb)). tkfact. cbn [app].
    destruct (Hb pd Hd) as [o Do]. apply ts_def. eexists. apply DTS_extend; eassumption.
Qed.
Lemma CompL_operation_def : forall f, CompL (parse_operationE f) (LangOf DDefinition).
Proof. intro f. eapply CompL_mono; [|apply CompL_operation]. intros p [o D]. eexists. apply DD_op. exact D. Qed.
Lemma CompL_fragment_def : forall f, CompL (parse_fragment_definitionE f) (LangOf DDefinition).
Proof. intro f. eapply CompL_mono; [|apply CompL_fragment_definition]. intros p [o D]. eexists. apply DD_frag. exact D. Qed.
Lemma Inh_definition : Inh (LangOf DDefinition).
Proof. destruct Inh_selset as [w [ss Hs]]. exists w. eexists. apply DD_op. apply DO_short. exact Hs. Qed.

(* ---- the dispatch on the keyword ---- *)
Lemma CompL_tsd_kw_desc : forall f, CompL (tsd_kwE f true) BodyL.
Proof.
  intro f. unfold tsd_kwE. apply CompL_caseE. intros [k|]; [|apply CompL_failE; apply Inh_BodyL].
  cbv zeta.
  repeat match goal with |- CompL (if ?b then _ else _) _ => destruct b end;
    try (apply CompL_failE; apply Inh_BodyL).
  - apply CompL_scalar_body.
  - eapply CompL_mono; [apply ObjBodyL_BodyL|apply CompL_objdef_body].
  - apply CompL_interface_body.
  - apply CompL_union_body.
  - apply CompL_enum_body.
  - apply CompL_input_body.
  - apply CompL_directive_body.
Qed.
Lemma CompL_tsd_kw_plain : forall f, CompL (tsd_kwE f false) (LangOf DDefinition).
Proof.
  intro f. unfold tsd_kwE. apply CompL_caseE. intros [k|]; [|apply CompL_failE; apply Inh_definition].
  cbv zeta.
  repeat match goal with |- CompL (if ?b then _ else _) _ => destruct b end;
    try (apply CompL_failE; apply Inh_definition).
  - apply CompL_fragment_def.
  - apply CompL_operation_def.
  - apply CompL_schema.
  - eapply CompL_mono; [apply BodyL_def|apply CompL_scalar_body].
  - eapply CompL_mono; [intros p H; apply BodyL_def; apply ObjBodyL_BodyL; exact H|apply CompL_objdef_body].
  - eapply CompL_mono; [apply BodyL_def|apply CompL_interface_body].
  - eapply CompL_mono; [apply BodyL_def|apply CompL_union_body].
  - eapply CompL_mono; [apply BodyL_def|apply CompL_enum_body].
  - eapply CompL_mono; [apply BodyL_def|apply CompL_input_body].
  - apply CompL_extend.
  - eapply CompL_mono; [apply BodyL_def|apply CompL_directive_body].
Qed.

Lemma CompL_tsd : forall f, CompL (parse_tsdE f) (LangOf DDefinition).
Proof.
  intro f. unfold parse_tsdE. eapply CompL_mono; cycle 1.
  - apply CompL_if_any; [apply CompL_tsd_kw_desc|apply CompL_tsd_kw_plain].
  - intros p [(a & b & -> & (t & -> & Ht) & Hb)|H]; [|exact H].
    apply (Hb [t]). eexists. apply DDescr_some. unfold is_desc, is_k in Ht. apply orb_true_iff in Ht.
    destruct Ht as [Ht|Ht]; apply tkind_beq_eq in Ht; auto.
Qed.

Lemma SoundL_definition : forall f, SoundL (parse_definitionE f) (LangOf DDefinition).
Proof. intro f. exact (SoundL_of _ _ _ _ (Er_parse_definition f) (parse_definition_sound f)). Qed.
Lemma CompL_definition : forall f, CompL (parse_definitionE f) (LangOf DDefinition).
Proof.
  intro f. unfold parse_definitionE. apply CompL_ifE; [apply CompL_operation_def|].
  apply CompL_ifE; [apply CompL_tsd|apply CompL_failE; apply Inh_definition].
Qed.

(* ---- documents ---- *)
Lemma CompL_endE : CompL endE EpsL.
Proof.
  intros ts r H. unfold endE in H. destruct ts as [|t ts]; [discriminate H|]. inversion H; subst.
  exists []. split; [reflexivity|]. exists []. reflexivity.
Qed.

Theorem CompL_document : forall f, CompL (parse_documentE f) (fun p => exists d, Derives p d).
Proof.
  intro f. unfold parse_documentE. eapply CompL_mono; cycle 1.
  - apply CompL_seqE; [apply SoundL_many1E; apply SoundL_definition| |apply CompL_endE|apply Inh_EpsL].
    apply CompL_many1E; [apply SoundL_definition|apply CompL_definition|apply Inh_definition].
  - intros p (a & b & -> & (m & e & -> & Hm & (te & -> & Ke)) & Hb). try (red in Hb). subst b. rewrite app_nil_r.
    destruct (Plus_DStar _ _ _ Hm) as (l & Dl & Ne). unfold is_k in Ke. apply tkind_beq_eq in Ke.
    eexists. apply Derives_intro; eassumption.
Qed.
