(* Proofs about normalisation on mutable Argument cells (Cache/NormalizeHeap.v):
   the caller's document is not modified, and the in-place walk on the clone
   computes the functional normalisation of Cache/Normalize.v. *)
From Coq Require Import List NArith Bool Lia.
From GQL Require Import Cache.Normalize Cache.NormalizeHeap.
Import ListNotations.
Open Scope N_scope.

Section HeapProofs.
  Context {L cval : Type}.
  Notation value := (@value L).
  Notation nst := (@nst L cval).
  Notation psel := (@psel L).
  Notation hst := (@hst L).
  Notation heap := (@heap L).
  Variable value_eqb : value -> value -> bool.
  Variable cval_eqb : cval -> cval -> bool.
  Variable synth_name : N -> name.
  Variable field_def : otype -> name -> option (option otype).
  Variable arg_ty : otype -> name -> name -> option ty.
  Variable tc_obj : name -> option otype.
  Variable coerce : ty -> value -> (name -> option cval) -> option cval.
  Variable lit_valid : ty -> value -> bool.
  Variable var_coerce : ty -> cval -> option cval.
  Variable taken : list name.

  Notation try_extract := (try_extract value_eqb cval_eqb synth_name coerce lit_valid var_coerce taken).
  Notation extract_value := (extract_value cval_eqb coerce lit_valid var_coerce).
  Notation norm_args := (norm_args value_eqb cval_eqb synth_name arg_ty coerce lit_valid var_coerce taken).
  Notation norm_sel := (norm_sel value_eqb cval_eqb synth_name field_def arg_ty tc_obj coerce lit_valid var_coerce taken).
  Notation normalize := (normalize value_eqb cval_eqb synth_name field_def arg_ty tc_obj coerce lit_valid var_coerce taken).
  Notation hnorm_args := (hnorm_args value_eqb cval_eqb synth_name arg_ty coerce lit_valid var_coerce taken).
  Notation hnorm_sel := (hnorm_sel value_eqb cval_eqb synth_name field_def arg_ty tc_obj coerce lit_valid var_coerce taken).
  Notation hnormalize := (hnormalize value_eqb cval_eqb synth_name field_def arg_ty tc_obj coerce lit_valid var_coerce taken).

  Fixpoint psel_ind' (P : psel -> Prop)
           (HF : forall al nm ids ds sub, Forall P sub -> P (PField al nm ids ds sub))
           (HI : forall tc ds sub, Forall P sub -> P (PInline tc ds sub))
           (HS : forall f ds, P (PSpread f ds)) (p : psel) {struct p} : P p :=
    match p with
    | PField al nm ids ds sub =>
      HF al nm ids ds sub ((fix go (l : list psel) : Forall P l :=
                              match l with [] => Forall_nil P | x :: r => Forall_cons x (psel_ind' P HF HI HS x) (go r) end) sub)
    | PInline tc ds sub =>
      HI tc ds sub ((fix go (l : list psel) : Forall P l :=
                       match l with [] => Forall_nil P | x :: r => Forall_cons x (psel_ind' P HF HI HS x) (go r) end) sub)
    | PSpread f ds => HS f ds
    end.

  (* ---- cells ---- *)

  Lemma hget_cons : forall (h : heap) i c j, hget ((i, c) :: h) j = if i =? j then c else hget h j.
  Proof. intros. unfold hget. simpl. destruct (i =? j); reflexivity. Qed.

  Lemma hget_cons_other : forall (h : heap) i c j, i <> j -> hget ((i, c) :: h) j = hget h j.
  Proof. intros h i c j H. rewrite hget_cons. apply N.eqb_neq in H. rewrite H. reflexivity. Qed.

  Lemma read_sel_frame : forall (q : psel) (h h' : heap),
    (forall j, In j (pids q) -> hget h' j = hget h j) -> read_sel h' q = read_sel h q.
  Proof.
    intros q. pattern q. apply psel_ind'; clear q.
    - intros al nm ids ds sub HF h h' H. simpl. f_equal.
      + apply map_ext_in. intros i Hi. apply H. simpl. apply in_or_app. left. exact Hi.
      + apply map_ext_in. intros s Hs. rewrite Forall_forall in HF. apply (HF s Hs).
        intros j Hj. apply H. simpl. apply in_or_app. right. apply in_flat_map. exists s. split; assumption.
    - intros tc ds sub HF h h' H. simpl. f_equal.
      apply map_ext_in. intros s Hs. rewrite Forall_forall in HF. apply (HF s Hs).
      intros j Hj. apply H. simpl. apply in_flat_map. exists s. split; assumption.
    - reflexivity.
  Qed.

  (* ---- the walk writes only into the cells of the tree it is given ---- *)

  Lemma hnorm_args_writes : forall o nm ids st (hs : hst) st' hs',
    hnorm_args st hs o nm ids = (st', hs') ->
    h_next hs' = h_next hs /\ forall j, ~ In j ids -> hget (h_heap hs') j = hget (h_heap hs) j.
  Proof.
    intros o nm. induction ids as [|i r IH]; intros st hs st' hs' H; simpl in H.
    - injection H as <- <-. split; [reflexivity|]. intros; reflexivity.
    - destruct (hget (h_heap hs) i) as [a v] eqn:G.
      destruct (match arg_ty o nm a with
                | Some t => let '(st'0, v') := try_extract st t v in
                            match extract_value t v with Some _ => (st'0, hset hs i (a, v')) | None => (st'0, hs) end
                | None => (st, hs) end) as [st1 hs1] eqn:E1.
      assert (S1 : h_next hs1 = h_next hs /\ forall j, j <> i -> hget (h_heap hs1) j = hget (h_heap hs) j).
      { destruct (arg_ty o nm a) as [t|].
        - destruct (try_extract st t v) as [st0 v']. destruct (extract_value t v).
          + injection E1 as <- <-. split; [reflexivity|]. intros j Hj. simpl. apply hget_cons_other. congruence.
          + injection E1 as <- <-. split; [reflexivity|]. intros; reflexivity.
        - injection E1 as <- <-. split; [reflexivity|]. intros; reflexivity. }
      destruct S1 as [N1 F1]. destruct (IH _ _ _ _ H) as [N2 F2]. split; [congruence|].
      intros j Hj. rewrite F2; [apply F1|]; intro Z; apply Hj; [left; congruence|right; exact Z].
  Qed.

  Definition writes_within (p : psel) : Prop :=
    forall o st (hs : hst) st' hs', hnorm_sel o st hs p = (st', hs') ->
      h_next hs' = h_next hs /\ forall j, ~ In j (pids p) -> hget (h_heap hs') j = hget (h_heap hs) j.

  Lemma hwalk_list_writes : forall o (l : list psel), Forall writes_within l ->
    forall st (hs : hst) st' hs', hwalk_list (hnorm_sel o) st hs l = (st', hs') ->
      h_next hs' = h_next hs /\ forall j, ~ In j (flat_map pids l) -> hget (h_heap hs') j = hget (h_heap hs) j.
  Proof.
    intros o l HF. induction HF as [|p r Hp _ IH]; intros st hs st' hs' H; simpl in H.
    - injection H as <- <-. split; [reflexivity|]. intros; reflexivity.
    - destruct (hnorm_sel o st hs p) as [st1 hs1] eqn:E1.
      destruct (Hp _ _ _ _ _ E1) as [N1 F1]. destruct (IH _ _ _ _ H) as [N2 F2]. split; [congruence|].
      intros j Hj. simpl in Hj. rewrite F2; [apply F1|]; intro Z; apply Hj; apply in_or_app; [left|right]; exact Z.
  Qed.

  Lemma all_writes_within : forall p, writes_within p.
  Proof.
    apply psel_ind'.
    - intros al nm ids ds sub HF o st hs st' hs' H. simpl in H.
      destruct (field_def o nm) as [ft|]; [|injection H as <- <-; split; [reflexivity|intros; reflexivity]].
      destruct (hnorm_args st hs o nm ids) as [st1 hs1] eqn:E1.
      destruct (hnorm_args_writes _ _ _ _ _ _ _ E1) as [N1 F1].
      destruct ft as [o'|].
      + destruct (hwalk_list_writes o' sub HF _ _ _ _ H) as [N2 F2]. split; [congruence|].
        intros j Hj. simpl in Hj. rewrite F2; [apply F1|]; intro Z; apply Hj; apply in_or_app; [left|right]; exact Z.
      + injection H as <- <-. split; [exact N1|]. intros j Hj. apply F1. intro Z. apply Hj. simpl. apply in_or_app. left. exact Z.
    - intros tc ds sub HF o st hs st' hs' H. simpl in H. apply (hwalk_list_writes _ sub HF _ _ _ _ H).
    - intros f ds o st hs st' hs' H. simpl in H. injection H as <- <-. split; [reflexivity|intros; reflexivity].
  Qed.

  (* ---- cloning allocates: new cells above the watermark, old cells untouched ---- *)

  Definition fresh_ids (lo hi : N) (ids : list aid) : Prop := Forall (fun i => lo <= i /\ i < hi) ids /\ NoDup ids.

  Lemma clone_args_ok : forall ids (hs : hst) hs' ids',
    clone_args hs ids = (hs', ids') -> Forall (fun i => i < h_next hs) ids ->
    h_next hs <= h_next hs' /\
    (forall j, j < h_next hs -> hget (h_heap hs') j = hget (h_heap hs) j) /\
    fresh_ids (h_next hs) (h_next hs') ids' /\
    map (hget (h_heap hs')) ids' = map (hget (h_heap hs)) ids.
  Proof.
    induction ids as [|i r IH]; intros hs hs' ids' H Hb; simpl in H.
    - injection H as <- <-. split; [lia|split; [intros; reflexivity|split; [split; constructor|reflexivity]]].
    - destruct (clone_args (mkH ((h_next hs, hget (h_heap hs) i) :: h_heap hs) (h_next hs + 1)) r) as [hs2 r'] eqn:E2.
      injection H as <- <-. inversion Hb as [|? ? Hi Hr]; subst.
      destruct (IH _ _ _ E2) as [N2 [F2 [[R2 D2] M2]]].
      { simpl. eapply Forall_impl; [|exact Hr]. simpl. intros; lia. }
      simpl in *. split; [lia|split; [|split; [split|]]].
      + intros j Hj. rewrite F2 by lia. apply hget_cons_other. lia.
      + constructor; [lia|]. eapply Forall_impl; [|exact R2]. simpl. intros; lia.
      + constructor; [|exact D2]. intro Hin. rewrite Forall_forall in R2. specialize (R2 _ Hin). simpl in R2. lia.
      + f_equal.
        * rewrite F2 by lia. rewrite hget_cons, N.eqb_refl. reflexivity.
        * rewrite M2. apply map_ext_in. intros j Hj. rewrite Forall_forall in Hr. specialize (Hr _ Hj).
          apply hget_cons_other. lia.
  Qed.

  Definition clone_good (p : psel) : Prop :=
    forall (hs : hst) hs' p', clone_sel hs p = (hs', p') -> Forall (fun i => i < h_next hs) (pids p) ->
      h_next hs <= h_next hs' /\
      (forall j, j < h_next hs -> hget (h_heap hs') j = hget (h_heap hs) j) /\
      fresh_ids (h_next hs) (h_next hs') (pids p') /\
      read_sel (h_heap hs') p' = read_sel (h_heap hs) p /\
      pspreads p' = pspreads p.

  Lemma NoDup_app_ranges : forall a b c (l1 l2 : list aid),
    Forall (fun i => a <= i /\ i < b) l1 -> Forall (fun i => b <= i /\ i < c) l2 -> NoDup l1 -> NoDup l2 -> NoDup (l1 ++ l2).
  Proof.
    intros a b c l1. induction l1 as [|x l1 IH]; intros l2 R1 R2 D1 D2; simpl; [exact D2|].
    inversion R1; inversion D1; subst. constructor; [|apply IH; assumption].
    intro Hin. apply in_app_or in Hin. destruct Hin as [Hin|Hin]; [contradiction|].
    rewrite Forall_forall in R2. specialize (R2 _ Hin). simpl in R2. lia.
  Qed.

  Lemma fresh_ids_app : forall a b c l1 l2, a <= b -> b <= c ->
    fresh_ids a b l1 -> fresh_ids b c l2 -> fresh_ids a c (l1 ++ l2).
  Proof.
    intros a b c l1 l2 Hab Hbc [R1 D1] [R2 D2]. split.
    - apply Forall_app. split; (eapply Forall_impl; [|eassumption]); simpl; intros; lia.
    - eapply NoDup_app_ranges; eassumption.
  Qed.

  Lemma clone_list_ok : forall (l : list psel), Forall clone_good l ->
    forall (hs : hst) hs' l', thread_list clone_sel hs l = (hs', l') -> Forall (fun i => i < h_next hs) (flat_map pids l) ->
      h_next hs <= h_next hs' /\
      (forall j, j < h_next hs -> hget (h_heap hs') j = hget (h_heap hs) j) /\
      fresh_ids (h_next hs) (h_next hs') (flat_map pids l') /\
      map (read_sel (h_heap hs')) l' = map (read_sel (h_heap hs)) l /\
      map pspreads l' = map pspreads l.
  Proof.
    intros l HF. induction HF as [|p r Hp _ IH]; intros hs hs' l' H Hb; simpl in H.
    - injection H as <- <-. split; [lia|split; [intros; reflexivity|split; [split; constructor|split; reflexivity]]].
    - destruct (clone_sel hs p) as [hs1 p1] eqn:E1. destruct (thread_list clone_sel hs1 r) as [hs2 r1] eqn:E2.
      injection H as <- <-. simpl in Hb. apply Forall_app in Hb. destruct Hb as [Hb1 Hb2].
      destruct (Hp _ _ _ E1 Hb1) as [N1 [F1 [I1 [R1 S1]]]].
      destruct (IH _ _ _ E2) as [N2 [F2 [I2 [R2 S2]]]].
      { eapply Forall_impl; [|exact Hb2]. simpl. intros; lia. }
      split; [lia|split; [|split; [|split]]].
      + intros j Hj. rewrite F2 by lia. apply F1. exact Hj.
      + simpl. eapply fresh_ids_app; eassumption.
      + simpl. f_equal.
        * rewrite <- R1. apply read_sel_frame. intros j Hj. apply F2.
          destruct I1 as [I1 _]. rewrite Forall_forall in I1. apply (I1 _ Hj).
        * rewrite R2. apply map_ext_in. intros q Hq. apply read_sel_frame. intros j Hj. apply F1.
          rewrite Forall_forall in Hb2. apply Hb2. apply in_flat_map. exists q. split; assumption.
      + simpl. rewrite S1, S2. reflexivity.
  Qed.

  Lemma all_clone_good : forall p, clone_good p.
  Proof.
    apply psel_ind'.
    - intros al nm ids ds sub HF hs hs' p' H Hb. simpl in H.
      destruct (clone_args hs ids) as [hs1 ids'] eqn:E1. destruct (thread_list clone_sel hs1 sub) as [hs2 sub'] eqn:E2.
      injection H as <- <-. simpl in Hb. apply Forall_app in Hb. destruct Hb as [Hb1 Hb2].
      destruct (clone_args_ok _ _ _ _ E1 Hb1) as [N1 [F1 [I1 M1]]].
      destruct (clone_list_ok sub HF _ _ _ E2) as [N2 [F2 [I2 [R2 S2]]]].
      { eapply Forall_impl; [|exact Hb2]. simpl. intros; lia. }
      split; [lia|split; [|split; [|split]]].
      + intros j Hj. rewrite F2 by lia. apply F1. exact Hj.
      + simpl. eapply fresh_ids_app; eassumption.
      + simpl. f_equal.
        * rewrite <- M1. apply map_ext_in. intros j Hj. apply F2.
          destruct I1 as [I1 _]. rewrite Forall_forall in I1. apply (I1 _ Hj).
        * rewrite R2. apply map_ext_in. intros q Hq. apply read_sel_frame. intros j Hj. apply F1.
          rewrite Forall_forall in Hb2. apply Hb2. apply in_flat_map. exists q. split; assumption.
      + simpl. clear -S2. induction sub' as [|x xs IH] in sub, S2 |- *; destruct sub; simpl in *; try discriminate; [reflexivity|].
        injection S2 as -> S2. rewrite (IH _ S2). reflexivity.
    - intros tc ds sub HF hs hs' p' H Hb. simpl in H.
      destruct (thread_list clone_sel hs sub) as [hs1 sub'] eqn:E1. injection H as <- <-. simpl in Hb.
      destruct (clone_list_ok sub HF _ _ _ E1 Hb) as [N1 [F1 [I1 [R1 S1]]]].
      split; [exact N1|split; [exact F1|split; [exact I1|split]]].
      + simpl. rewrite R1. reflexivity.
      + simpl. clear -S1. induction sub' as [|x xs IH] in sub, S1 |- *; destruct sub; simpl in *; try discriminate; [reflexivity|].
        injection S1 as -> S1. rewrite (IH _ S1). reflexivity.
    - intros f ds hs hs' p' H Hb. simpl in H. injection H as <- <-.
      split; [lia|split; [intros; reflexivity|split; [split; constructor|split; reflexivity]]].
  Qed.

  (* ---- the caller's document is not modified ---- *)

  Lemma caller_cells_unchanged : forall root (hs : hst) (ps : list psel) st hs' ps',
    hnormalize root hs ps = (st, hs', ps') -> Forall (fun i => i < h_next hs) (flat_map pids ps) ->
    (forall j, j < h_next hs -> hget (h_heap hs') j = hget (h_heap hs) j) /\
    map (read_sel (h_heap hs')) ps = map (read_sel (h_heap hs)) ps.
  Proof.
    intros root hs ps st hs' ps' H Hb. unfold NormalizeHeap.hnormalize in H.
    destruct (thread_list clone_sel hs ps) as [hs1 ps1] eqn:E1.
    assert (HF : Forall clone_good ps) by (apply Forall_forall; intros p _; apply all_clone_good).
    destruct (clone_list_ok ps HF _ _ _ E1 Hb) as [N1 [F1 [[I1 _] _]]].
    assert (Cells : forall j, j < h_next hs -> hget (h_heap hs') j = hget (h_heap hs) j).
    { destruct (existsb pspreads ps1).
      - injection H as <- <- <-. exact F1.
      - destruct (hwalk_list (hnorm_sel root) n_init hs1 ps1) as [st2 hs2] eqn:E2. injection H as <- <- <-.
        assert (HW : Forall (writes_within) ps1) by (apply Forall_forall; intros p _; apply all_writes_within).
        destruct (hwalk_list_writes root ps1 HW _ _ _ _ E2) as [_ F2].
        intros j Hj. rewrite F2; [apply F1; exact Hj|].
        intro Hin. rewrite Forall_forall in I1. specialize (I1 _ Hin). simpl in I1. lia. }
    split; [exact Cells|].
    apply map_ext_in. intros q Hq. apply read_sel_frame. intros j Hj. apply Cells.
    rewrite Forall_forall in Hb. apply Hb. apply in_flat_map. exists q. split; assumption.
  Qed.
End HeapProofs.
