From Coq Require Import List NArith ZArith Lia Bool.
From GQL Require Import Base.Bytes Lang.Location.
Import ListNotations.
Open Scope N_scope.

Lemma scan_stop : forall ms position line column,
  (forall m l, In (m,l) ms -> position <= m) -> scan ms position line column = (line, column).
Proof.
  intros [|[m l] r] position line column H; simpl; auto.
  destruct (m <? position) eqn:E; auto.
  apply N.ltb_lt in E. specialize (H m l (or_introl eq_refl)). lia.
Qed.

Lemma matches_lb : forall n s i m l, (length s <= n)%nat -> In (m,l) (matches s i) -> i <= m.
Proof.
  induction n as [|n IH]; intros s i m l Hn H.
  - destruct s; simpl in *; [contradiction|lia].
  - destruct s as [|c r]; simpl in H; [contradiction|]. simpl in Hn.
    destruct (c =? 13).
    + destruct r as [|d r'].
      * destruct H as [H|[]]; inversion H; lia.
      * simpl in Hn. destruct (d =? 10).
        -- destruct H as [H|H]; [inversion H; lia|]. apply IH in H; lia.
        -- destruct H as [H|H]; [inversion H; lia|]. apply IH in H; simpl; lia.
    + destruct (c =? 10).
      * destruct H as [H|H]; [inversion H; lia|]. apply IH in H; lia.
      * apply IH in H; lia.
Qed.

Lemma model_is_spec_gen : forall n s i position line lstart,
  (length s <= n)%nat -> lstart <= i ->
  scan (matches s i) position line (Z.of_N position + 1 - Z.of_N lstart)%Z
  = spec_go s i position line lstart.
Proof.
  induction n as [|n IH]; intros s i position line lstart Hn Hl.
  - destruct s; simpl in *; [reflexivity|lia].
  - destruct s as [|c r]; [reflexivity|]. simpl in Hn.
    cbn [spec_go].
    destruct (position <=? i) eqn:Ep.
    + apply N.leb_le in Ep. apply scan_stop. intros m l H.
      apply (matches_lb (S n)) in H; simpl; lia.
    + apply N.leb_gt in Ep. cbn [matches].
      destruct (c =? 13) eqn:E13.
      * destruct r as [|d r'].
        -- cbn [scan]. replace (i <? position) with true by (symmetry; apply N.ltb_lt; lia). reflexivity.
        -- simpl in Hn. destruct (d =? 10) eqn:E10.
           ++ cbn [scan]. replace (i <? position) with true by (symmetry; apply N.ltb_lt; lia).
              apply IH; lia.
           ++ cbn [scan]. replace (i <? position) with true by (symmetry; apply N.ltb_lt; lia).
              apply IH; simpl; lia.
      * destruct (c =? 10) eqn:E10.
        -- cbn [scan]. replace (i <? position) with true by (symmetry; apply N.ltb_lt; lia).
           apply IH; lia.
        -- apply IH; lia.
Qed.

Lemma location_model_is_spec : forall s position, get_location s position = spec_location s position.
Proof.
  intros. unfold get_location, spec_location.
  replace (Z.of_N position + 1)%Z with (Z.of_N position + 1 - Z.of_N 0)%Z by lia.
  apply (model_is_spec_gen (length s)); lia.
Qed.

(* ---- characterising lemmas of the specification (so that the spec is not
        only "another program"): no terminator before the position means line
        1 and column position+1; passing one terminator adds one line and
        restarts the column. ---- *)

Definition is_term (c : N) : bool := (c =? 10) || (c =? 13).

Lemma spec_go_no_term : forall s i position line lstart,
  (forall k c, nth_error s k = Some c -> i + N.of_nat k < position -> is_term c = false) ->
  spec_go s i position line lstart = (line, (Z.of_N position + 1 - Z.of_N lstart)%Z).
Proof.
  induction s as [|c r IH]; intros i position line lstart H; [reflexivity|].
  cbn [spec_go]. destruct (position <=? i) eqn:Ep; [reflexivity|].
  apply N.leb_gt in Ep.
  assert (Hc : is_term c = false) by (apply (H 0%nat c); [reflexivity|simpl; lia]).
  unfold is_term in Hc. apply orb_false_iff in Hc. destruct Hc as [H10 H13].
  rewrite H13, H10. apply IH. intros k c' Hk Hlt. apply (H (S k) c'); [exact Hk|lia].
Qed.

Lemma spec_first_line : forall s position,
  (forall k c, nth_error s k = Some c -> N.of_nat k < position -> is_term c = false) ->
  spec_location s position = (1, (Z.of_N position + 1)%Z).
Proof.
  intros s position H. unfold spec_location.
  rewrite spec_go_no_term.
  - f_equal. lia.
  - intros k c Hk Hlt. apply (H k c Hk). lia.
Qed.

(* Skipping a prefix without terminators. *)
Lemma spec_go_skip : forall p s i position line lstart,
  (forall c, In c p -> is_term c = false) ->
  i + nlen p <= position ->
  spec_go (p ++ s) i position line lstart = spec_go s (i + nlen p) position line lstart
  \/ position = i + nlen p.
Proof.
  induction p as [|c p IH]; intros s i position line lstart Hp Hle.
  - left. unfold nlen. simpl. rewrite N.add_0_r. reflexivity.
  - unfold nlen in *. simpl length in *. rewrite Nat2N.inj_succ in *.
    destruct (N.eq_dec position (i + N.succ (N.of_nat (length p)))) as [->|Hne]; [right; reflexivity|].
    left. cbn [app spec_go].
    replace (position <=? i) with false by (symmetry; apply N.leb_gt; lia).
    assert (Hc : is_term c = false) by (apply Hp; left; reflexivity).
    unfold is_term in Hc. apply orb_false_iff in Hc. destruct Hc as [H10 H13].
    rewrite H13, H10.
    destruct (IH s (i+1) position line lstart) as [E|E].
    + intros c' Hc'. apply Hp. right. exact Hc'.
    + lia.
    + rewrite E. f_equal. lia.
    + lia.
Qed.

(* After a line that ends in LF: the position k bytes into the next line is
   reported one line further, at column k+1. *)
Lemma spec_after_lf : forall p r k,
  (forall c, In c p -> is_term c = false) ->
  (forall j c, nth_error r j = Some c -> N.of_nat j < k -> is_term c = false) ->
  spec_location (p ++ 10 :: r) (nlen p + 1 + k) = (2, (Z.of_N k + 1)%Z).
Proof.
  intros p r k Hp Hr. unfold spec_location.
  destruct (spec_go_skip p (10 :: r) 0 (nlen p + 1 + k) 1 0 Hp) as [E|E]; [lia| |lia].
  rewrite E. cbn [spec_go].
  replace (nlen p + 1 + k <=? 0 + nlen p) with false by (symmetry; apply N.leb_gt; lia).
  change (10 =? 13) with false. change (10 =? 10) with true. cbv iota.
  rewrite spec_go_no_term.
  - f_equal. lia.
  - intros j c Hj Hlt. apply (Hr j c Hj). lia.
Qed.

(* CRLF counts as one terminator. *)
Lemma spec_after_crlf : forall p r k,
  (forall c, In c p -> is_term c = false) ->
  (forall j c, nth_error r j = Some c -> N.of_nat j < k -> is_term c = false) ->
  spec_location (p ++ 13 :: 10 :: r) (nlen p + 2 + k) = (2, (Z.of_N k + 1)%Z).
Proof.
  intros p r k Hp Hr. unfold spec_location.
  destruct (spec_go_skip p (13 :: 10 :: r) 0 (nlen p + 2 + k) 1 0 Hp) as [E|E]; [lia| |lia].
  rewrite E. cbn [spec_go].
  replace (nlen p + 2 + k <=? 0 + nlen p) with false by (symmetry; apply N.leb_gt; lia).
  change (13 =? 13) with true. change (10 =? 10) with true. cbv iota.
  rewrite spec_go_no_term.
  - f_equal. lia.
  - intros j c Hj Hlt. apply (Hr j c Hj). lia.
Qed.

Lemma spec_go_cons : forall c r i position line lstart,
  spec_go (c :: r) i position line lstart =
    if position <=? i then (line, (Z.of_N position + 1 - Z.of_N lstart)%Z)
    else if c =? 13 then
      match r with
      | d :: r' => if d =? 10 then spec_go r' (i + 2) position (line + 1) (i + 2)
                   else spec_go r (i + 1) position (line + 1) (i + 1)
      | [] => (line + 1, (Z.of_N position + 1 - Z.of_N (i + 1))%Z)
      end
    else if c =? 10 then spec_go r (i + 1) position (line + 1) (i + 1)
    else spec_go r (i + 1) position line lstart.
Proof. reflexivity. Qed.

(* A bare CR (not followed by LF) is a terminator of its own. *)
Lemma spec_after_cr : forall p d r k,
  (forall c, In c p -> is_term c = false) ->
  is_term d = false ->
  (forall j c, nth_error (d :: r) j = Some c -> N.of_nat j < k -> is_term c = false) ->
  spec_location (p ++ 13 :: d :: r) (nlen p + 1 + k) = (2, (Z.of_N k + 1)%Z).
Proof.
  intros p d r k Hp Hd Hr. unfold spec_location.
  destruct (spec_go_skip p (13 :: d :: r) 0 (nlen p + 1 + k) 1 0 Hp) as [E|E]; [lia| |lia].
  rewrite E. rewrite spec_go_cons.
  replace (nlen p + 1 + k <=? 0 + nlen p) with false by (symmetry; apply N.leb_gt; lia).
  change (13 =? 13) with true. cbv iota.
  unfold is_term in Hd. apply orb_false_iff in Hd. destruct Hd as [Hd10 _]. rewrite Hd10.
  rewrite spec_go_no_term.
  - f_equal. lia.
  - intros j c Hj Hlt. apply (Hr j c Hj). lia.
Qed.
