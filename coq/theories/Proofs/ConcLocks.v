(* Proofs about the lockset model and idempotent lazy initialisation (Conc/Locks.v). *)
From Coq Require Import List Arith Bool Lia.
From GQL Require Import Conc.Locks.
Import ListNotations.

(* ---------- lists ---------- *)
Lemma nth_error_set_nth_eq : forall A (l : list A) i x t, nth_error l i = Some t -> nth_error (set_nth i x l) i = Some x.
Proof. induction l as [|y l IH]; intros [|i] x t H; cbn in *; try discriminate; [reflexivity|eapply IH; eauto]. Qed.

Lemma nth_error_set_nth_neq : forall A (l : list A) i j x, i <> j -> nth_error (set_nth i x l) j = nth_error l j.
Proof.
  induction l as [|y l IH]; intros [|i] [|j] x H; cbn; try reflexivity; try congruence.
  apply IH. congruence.
Qed.

Lemma mem_nat_true : forall x l, mem_nat x l = true <-> In x l.
Proof.
  intros x l. unfold mem_nat. rewrite existsb_exists. split.
  - intros (y & I & E). apply Nat.eqb_eq in E. subst. exact I.
  - intros I. exists x. split; [exact I|apply Nat.eqb_refl].
Qed.

Lemma remove_nat_incl : forall x y l, In y (remove_nat x l) -> In y l.
Proof.
  induction l as [|z l IH]; cbn; intros H; [exact H|].
  destruct (Nat.eqb x z); [right; exact H|]. destruct H as [H|H]; [left; exact H|right; apply IH; exact H].
Qed.

Section Lockset.
Variable guard : nat -> option nat.
Notation scan := (scan guard).
Notation scans := (scans guard).

Lemma scan_app : forall a h b, scan h (a ++ b) = match scan h a with Some h' => scan h' b | None => None end.
Proof.
  induction a as [|x a IH]; intros h b; cbn; [reflexivity|].
  destruct x; cbn.
  - destruct (mem_nat m h); [reflexivity|apply IH].
  - destruct (mem_nat m h); [apply IH|reflexivity].
  - destruct (match guard l with Some m => mem_nat m h | None => true end); [apply IH|reflexivity].
  - destruct (match guard l with Some m => mem_nat m h | None => false end); [apply IH|reflexivity].
Qed.

(* a program made of operations that are each fine on their own is fine *)
Lemma scan_ops : forall ops, forallb (op_ok guard) ops = true -> scan [] (concat ops) = Some [].
Proof.
  induction ops as [|o ops IH]; cbn; intros H; [reflexivity|].
  apply andb_true_iff in H. destruct H as (H1 & H2). rewrite scan_app. unfold op_ok in H1.
  destruct (Locks.scan guard [] o) as [[|x h]|]; try discriminate H1. apply IH. exact H2.
Qed.

(* the invariant of every reachable configuration *)
Definition inv (c : cfg) : Prop :=
  (forall i t, nth_error c i = Some t -> scans (fst t) (snd t) = true) /\
  (forall i j ti tj m, i <> j -> nth_error c i = Some ti -> nth_error c j = Some tj ->
     In m (fst ti) -> ~ In m (fst tj)).

Lemma inv_init : forall progs, well_guarded guard progs = true -> inv (init_cfg progs).
Proof.
  intros progs W. unfold inv, init_cfg. split.
  - intros i t H. rewrite nth_error_map in H. destruct (nth_error progs i) as [p|] eqn:E; [|discriminate].
    cbn in H. inversion H; subst. cbn. unfold well_guarded in W. rewrite forallb_forall in W.
    apply W. eapply nth_error_In; eauto.
  - intros i j ti tj m _ Hi _ Hm. rewrite nth_error_map in Hi. destruct (nth_error progs i); [|discriminate].
    cbn in Hi. inversion Hi; subst. cbn in Hm. contradiction.
Qed.

Lemma held_by_someone_false : forall m c, held_by_someone m c = false ->
  forall j t, nth_error c j = Some t -> ~ In m (fst t).
Proof.
  intros m c H j t Hj I. unfold held_by_someone in H.
  assert (X : existsb (fun t0 => mem_nat m (fst t0)) c = true).
  { apply existsb_exists. exists t. split; [eapply nth_error_In; eauto|apply mem_nat_true; exact I]. }
  congruence.
Qed.

Lemma inv_step : forall c i c', inv c -> step c i = Some c' -> inv c'.
Proof.
  intros c i c' (I1 & I2) H. unfold step in H.
  destruct (nth_error c i) as [[h p]|] eqn:Ei; [|discriminate].
  destruct (thread_step c (h, p)) as [[h' p']|] eqn:Et; [|discriminate]. inversion H; subst c'; clear H.
  pose proof (I1 i (h, p) Ei) as S0. cbn [fst snd] in S0.
  (* facts about the moving thread *)
  assert (F : scans h' p' = true /\ (forall m, In m h' -> In m h \/ (forall j t, nth_error c j = Some t -> ~ In m (fst t)))).
  { unfold thread_step in Et. destruct p as [|a r]; [discriminate|]. unfold Locks.scans in *. cbn [Locks.scan] in S0.
    destruct a as [m|m|l|l].
    - destruct (held_by_someone m c) eqn:Hh; [discriminate|]. inversion Et; subst.
      destruct (mem_nat m h); [discriminate|]. split; [exact S0|].
      intros x [X|X]; [subst x; right; apply held_by_someone_false; exact Hh|left; exact X].
    - destruct (mem_nat m h) eqn:Hm; [|discriminate]. inversion Et; subst. split; [exact S0|].
      intros x X. left. eapply remove_nat_incl; exact X.
    - inversion Et; subst. destruct (access_ok guard h' (Rd l)); [|discriminate]. split; [exact S0|]. intros x X; left; exact X.
    - inversion Et; subst. destruct (access_ok guard h' (Wr l)); [|discriminate]. split; [exact S0|]. intros x X; left; exact X. }
  destruct F as (F1 & F2). split.
  - intros j t Hj. destruct (Nat.eq_dec i j) as [E|N].
    + subst j. rewrite (nth_error_set_nth_eq _ c i (h', p') (h, p) Ei) in Hj. inversion Hj; subst. exact F1.
    + rewrite nth_error_set_nth_neq in Hj by exact N. eapply I1; eauto.
  - intros a b ta tb m Nab Ha Hb Hm.
    destruct (Nat.eq_dec i a) as [Ea|Na]; destruct (Nat.eq_dec i b) as [Eb|Nb]; try (subst; congruence).
    + subst a. rewrite (nth_error_set_nth_eq _ c i (h', p') (h, p) Ei) in Ha. inversion Ha; subst ta. cbn [fst] in Hm.
      rewrite nth_error_set_nth_neq in Hb by exact Nb.
      destruct (F2 m Hm) as [X|X]; [exact (I2 i b (h, p) tb m Nb Ei Hb X)|exact (X b tb Hb)].
    + subst b. rewrite (nth_error_set_nth_eq _ c i (h', p') (h, p) Ei) in Hb. inversion Hb; subst tb. cbn [fst].
      rewrite nth_error_set_nth_neq in Ha by exact Na. intros Hm'.
      destruct (F2 m Hm') as [X|X]; [exact (I2 a i ta (h, p) m (not_eq_sym Na) Ha Ei Hm X)|exact (X a ta Ha Hm)].
    + rewrite nth_error_set_nth_neq in Ha by exact Na. rewrite nth_error_set_nth_neq in Hb by exact Nb.
      exact (I2 a b ta tb m Nab Ha Hb Hm).
Qed.

Lemma inv_reach : forall progs c, well_guarded guard progs = true -> reach (init_cfg progs) c -> inv c.
Proof.
  intros progs c W R. induction R as [|c i c' R IH Hs]; [apply inv_init; exact W|eapply inv_step; eauto].
Qed.

(* an access about to happen is covered by the guard of its location *)
Lemma next_access_guarded : forall t l w, scans (fst t) (snd t) = true -> next_access t = Some (l, w) ->
  match guard l with Some m => In m (fst t) | None => w = false end.
Proof.
  intros [h p] l w S N. cbn [fst snd] in *. unfold next_access in N. cbn [snd] in N. unfold Locks.scans in S.
  destruct p as [|a r]; [discriminate|]. destruct a as [m|m|l0|l0]; try discriminate; inversion N; subst; cbn [Locks.scan access_ok] in S.
  - destruct (guard l) as [m|]; [|reflexivity]. destruct (mem_nat m h) eqn:E; [apply mem_nat_true; exact E|discriminate].
  - destruct (guard l) as [m|]; [|discriminate]. destruct (mem_nat m h) eqn:E; [apply mem_nat_true; exact E|discriminate].
Qed.

Theorem lockset_race_free : forall progs, well_guarded guard progs = true ->
  forall c, reach (init_cfg progs) c -> ~ race c.
Proof.
  intros progs W c R (i & j & ti & tj & l & wi & wj & Nij & Hi & Hj & Ai & Aj & Wr).
  destruct (inv_reach progs c W R) as (I1 & I2).
  pose proof (next_access_guarded ti l wi (I1 i ti Hi) Ai) as Gi.
  pose proof (next_access_guarded tj l wj (I1 j tj Hj) Aj) as Gj.
  destruct (guard l) as [m|].
  - exact (I2 i j ti tj m Nij Hi Hj Gi Gj).
  - destruct Wr; congruence.
Qed.

Lemma run_sched_reach : forall sched c0 c, reach c0 c -> reach c0 (run_sched c sched).
Proof.
  induction sched as [|i r IH]; intros c0 c R; cbn; [exact R|].
  destruct (step c i) as [c'|] eqn:E; [apply IH; eapply reach_step; eauto|apply IH; exact R].
Qed.

Theorem lockset_race_free_sched : forall progs sched, well_guarded guard progs = true ->
  ~ race (run_sched (init_cfg progs) sched).
Proof.
  intros progs sched W. eapply lockset_race_free; [exact W|]. apply run_sched_reach. apply reach_refl.
Qed.

(* programs that are sequences of summary operations *)
Theorem lockset_race_free_ops : forall (table : list (list action)) (reqs : list (list (list action))),
  forallb (op_ok guard) table = true ->
  (forall r o, In r reqs -> In o r -> In o table) ->
  forall sched, ~ race (run_sched (init_cfg (map (@concat action) reqs)) sched).
Proof.
  intros table reqs T Hin sched. apply lockset_race_free_sched.
  unfold well_guarded. apply forallb_forall. intros p Hp. apply in_map_iff in Hp. destruct Hp as (r & E & Ir). subst p.
  unfold Locks.scans. rewrite scan_ops; [reflexivity|].
  apply forallb_forall. intros o Io. rewrite forallb_forall in T. apply T. eapply Hin; eauto.
Qed.
End Lockset.

(* ---------- idempotent lazy initialisation ---------- *)
Section Lazy.
Variable V : Type.
Variable init_value : nat -> V.
Notation do_lop := (do_lop V init_value).
Notation lrun := (lrun V init_value).
Notation run_alone := (run_alone V init_value).

Definition good (m : lmem V) : Prop := forall s, m s = None \/ m s = Some (init_value s).
Definition pure_out (o : lop) : list V := match o with Get s => [init_value s] | Reset _ => [] end.

Lemma good_empty : good (empty_lmem V).
Proof. intros s. left. reflexivity. Qed.

Lemma do_lop_good : forall m o, good m -> good (fst (do_lop m o)) /\ snd (do_lop m o) = pure_out o.
Proof.
  intros m o G. destruct o as [s|s]; cbn.
  - destruct (G s) as [E|E]; rewrite E; cbn.
    + split; [|reflexivity]. intros x. unfold lmem_set. destruct (Nat.eqb x s) eqn:X; [apply Nat.eqb_eq in X; subst; right; reflexivity|apply G].
    + split; [exact G|reflexivity].
  - split; [|reflexivity]. intros x. unfold lmem_set. destruct (Nat.eqb x s); [left; reflexivity|apply G].
Qed.

Lemma run_alone_good : forall p m, good m -> run_alone m p = flat_map pure_out p.
Proof.
  induction p as [|o p IH]; intros m G; cbn; [reflexivity|].
  destruct (do_lop_good m o G) as (G' & E). destruct (do_lop m o) as [m' out]. cbn in *. rewrite E, (IH m' G'). reflexivity.
Qed.

Definition linv (reqs : list (list lop)) (c : list (lthread V)) : Prop :=
  Forall2 (fun t p => fst t ++ flat_map pure_out (snd t) = flat_map pure_out p) c reqs.

Lemma Forall2_set_nth : forall A B (R : A -> B -> Prop) l1 l2 i x y,
  Forall2 R l1 l2 -> nth_error l2 i = Some y -> R x y -> Forall2 R (set_nth i x l1) l2.
Proof.
  intros A B R l1 l2 i x y F. revert i. induction F as [|a b l1 l2 Rab F IH]; intros [|i] H Rx; cbn in *; try discriminate.
  - inversion H; subst. constructor; assumption.
  - constructor; [assumption|apply IH; assumption].
Qed.

Lemma Forall2_nth : forall A B (R : A -> B -> Prop) l1 l2 i x, Forall2 R l1 l2 -> nth_error l1 i = Some x ->
  exists y, nth_error l2 i = Some y /\ R x y.
Proof.
  intros A B R l1 l2 i x F. revert i. induction F as [|a b l1 l2 Rab F IH]; intros [|i] H; cbn in *; try discriminate.
  - inversion H; subst. exists b. tauto.
  - apply IH. exact H.
Qed.

Lemma lrun_inv : forall reqs sched m c, good m -> linv reqs c ->
  good (fst (lrun m c sched)) /\ linv reqs (snd (lrun m c sched)).
Proof.
  intros reqs. induction sched as [|i r IH]; intros m c G L; cbn; [tauto|].
  unfold lstep. destruct (nth_error c i) as [[res [|o rest]]|] eqn:E; try (apply IH; assumption).
  destruct (do_lop_good m o G) as (G' & Eo). destruct (do_lop m o) as [m' out]. cbn in G', Eo.
  apply IH; [exact G'|]. destruct (Forall2_nth _ _ _ _ _ _ _ L E) as (p & Ep & Rp). cbn [fst snd] in Rp.
  eapply Forall2_set_nth; [exact L|exact Ep|]. cbn [fst snd]. rewrite <- Rp, Eo. cbn [flat_map]. rewrite <- app_assoc. reflexivity.
Qed.

Lemma linv_init : forall reqs, linv reqs (linit V reqs).
Proof. induction reqs as [|p r IH]; cbn; constructor; [reflexivity|exact IH]. Qed.

(* every slot is always None or Some (init_value slot), and so every request's results equal its results when run alone *)
Theorem results_sequential : forall reqs sched,
  let mc := lrun (empty_lmem V) (linit V reqs) sched in
  good (fst mc) /\
  (finished V (snd mc) -> map fst (snd mc) = map (run_alone (empty_lmem V)) reqs).
Proof.
  intros reqs sched. cbv zeta.
  destruct (lrun_inv reqs sched (empty_lmem V) (linit V reqs) good_empty (linv_init reqs)) as (G & L).
  split; [exact G|]. intros Fin. set (c := snd (lrun (empty_lmem V) (linit V reqs) sched)) in *.
  clearbody c. clear G. induction L as [|t p c reqs' Rtp L IH]; cbn; [reflexivity|].
  assert (Ft : snd t = []) by (apply Fin; left; reflexivity).
  rewrite Ft in Rtp. cbn in Rtp. rewrite app_nil_r in Rtp. rewrite Rtp, (run_alone_good p _ good_empty). f_equal.
  apply IH. intros t' I. apply Fin. right. exact I.
Qed.
End Lazy.

(* ---------- the library's summary ---------- *)
Lemma lib_ops_ok : forallb (op_ok lib_guard) lib_ops = true.
Proof. vm_compute. reflexivity. Qed.

Lemma lib_op_of_id_ok : forall k, op_ok lib_guard (op_of_id k) = true.
Proof.
  intros k. unfold op_of_id. destruct (nth_in_or_default k lib_ops []) as [I|E].
  - pose proof lib_ops_ok as T. rewrite forallb_forall in T. apply T. exact I.
  - rewrite E. reflexivity.
Qed.

Theorem library_race_free : forall (reqs : list (list nat)) sched,
  ~ race (run_sched (init_cfg (map prog_of_ids reqs)) sched).
Proof.
  intros reqs sched. apply (lockset_race_free_sched lib_guard). unfold well_guarded. apply forallb_forall.
  intros p Hp. apply in_map_iff in Hp. destruct Hp as (ks & E & _). subst p. unfold scans, prog_of_ids.
  rewrite flat_map_concat_map. rewrite scan_ops; [reflexivity|]. apply forallb_forall. intros o Io.
  apply in_map_iff in Io. destruct Io as (k & Ek & _). subst o. apply lib_op_of_id_ok.
Qed.

(* the pre-repair / mutant versions of four operations: the scan rejects them and two goroutines
   running one of them reach a race *)
Definition old_ops : list (list action) :=
  [op_enum_serialize_lazy; op_is_possible_type_lazy; op_abstract_alternative_nomutex; op_cache_reset_nolock].

Theorem old_ops_rejected : forallb (fun o => negb (op_ok lib_guard o)) old_ops = true.
Proof. vm_compute. reflexivity. Qed.

Theorem old_ops_race : forall o, In o old_ops -> exists sched, race (run_sched (init_cfg [o; o]) sched).
Proof.
  intros o I. cbn in I. destruct I as [E|[E|[E|[E|[]]]]]; subst o.
  - exists [0]. exists 0, 1. eexists _, _, L_enum_values, true, false. cbn. repeat split; auto; discriminate.
  - exists [0]. exists 0, 1. eexists _, _, L_possible, true, false. cbn. repeat split; auto; discriminate.
  - exists [0; 0; 0; 0; 0]. exists 0, 1. eexists _, _, L_alternatives, true, false. cbn. repeat split; auto; discriminate.
  - exists []. exists 0, 1. eexists _, _, L_cache_entries, true, true. cbn. repeat split; auto; discriminate.
Qed.

(* ---------- lock order => no deadlock ---------- *)
Section Order.
Variable rank : nat -> nat.
Notation oscan := (oscan rank).
Notation ordered := (ordered rank).

Lemma oscan_app : forall a h b, oscan h (a ++ b) = match oscan h a with Some h' => oscan h' b | None => None end.
Proof.
  induction a as [|x a IH]; intros h b; [reflexivity|]. destruct x; cbn [Locks.oscan app].
  - destruct (forallb (fun x => rank x <? rank m) h); [apply IH|reflexivity].
  - destruct (mem_nat m h); [apply IH|reflexivity].
  - apply IH.
  - apply IH.
Qed.

Lemma oscan_ops : forall ops, forallb (ordered []) ops = true -> oscan [] (concat ops) = Some [].
Proof.
  induction ops as [|o ops IH]; cbn; intros H; [reflexivity|].
  apply andb_true_iff in H. destruct H as (H1 & H2). rewrite oscan_app. unfold Locks.ordered in H1.
  destruct (Locks.oscan rank [] o) as [[|x h]|]; try discriminate H1. apply IH. exact H2.
Qed.

Definition oinv (c : cfg) : Prop := forall t, In t c -> ordered (fst t) (snd t) = true.

Lemma in_set_nth : forall A (l : list A) i x y, In y (set_nth i x l) -> y = x \/ In y l.
Proof.
  induction l as [|a l IH]; intros [|i] x y H; cbn in H; try contradiction.
  - destruct H as [H|H]; [left; symmetry; exact H|right; right; exact H].
  - destruct H as [H|H]; [right; left; exact H|]. destruct (IH i x y H) as [E|I]; [left; exact E|right; right; exact I].
Qed.

Lemma oinv_step : forall c i c', oinv c -> step c i = Some c' -> oinv c'.
Proof.
  intros c i c' I H. unfold step in H. destruct (nth_error c i) as [[h p]|] eqn:Ei; [|discriminate].
  destruct (thread_step c (h, p)) as [[h' p']|] eqn:Et; [|discriminate]. inversion H; subst c'; clear H.
  pose proof (I (h, p) (nth_error_In _ _ Ei)) as O. cbn [fst snd] in O.
  intros t It. destruct (in_set_nth _ _ _ _ _ It) as [E|It']; [|apply I; exact It']. subst t. cbn [fst snd].
  unfold thread_step in Et. unfold Locks.ordered in *. destruct p as [|a r]; [discriminate|]. cbn [Locks.oscan] in O.
  destruct a as [m|m|l|l].
  - destruct (held_by_someone m c); [discriminate|]. inversion Et; subst.
    destruct (forallb (fun x => rank x <? rank m) h); [exact O|discriminate].
  - destruct (mem_nat m h); [|discriminate]. inversion Et; subst. exact O.
  - inversion Et; subst. exact O.
  - inversion Et; subst. exact O.
Qed.

Lemma oinv_init : forall progs, well_ordered rank progs = true -> oinv (init_cfg progs).
Proof.
  intros progs W t It. unfold init_cfg in It. apply in_map_iff in It. destruct It as (p & E & Ip). subst t. cbn.
  unfold well_ordered in W. rewrite forallb_forall in W. apply W. exact Ip.
Qed.

Lemma oinv_reach : forall progs c, well_ordered rank progs = true -> reach (init_cfg progs) c -> oinv c.
Proof.
  intros progs c W R. induction R as [|c i c' R IH Hs]; [apply oinv_init; exact W|eapply oinv_step; eauto].
Qed.

(* what a stuck thread looks like *)
Lemma stuck_thread : forall c t, ordered (fst t) (snd t) = true -> snd t <> [] -> thread_step c t = None ->
  exists m r, snd t = Acq m :: r /\ held_by_someone m c = true /\ forall x, In x (fst t) -> rank x < rank m.
Proof.
  intros c [h p] O N S. cbn [fst snd] in *. unfold Locks.ordered in O. destruct p as [|a r]; [congruence|].
  cbn [Locks.oscan] in O. unfold thread_step in S. destruct a as [m|m|l|l]; try discriminate S.
  - exists m, r. split; [reflexivity|]. destruct (held_by_someone m c); [|discriminate S]. split; [reflexivity|].
    destruct (forallb (fun x => rank x <? rank m) h) eqn:F; [|discriminate O].
    intros x Ix. rewrite forallb_forall in F. apply Nat.ltb_lt. apply F. exact Ix.
  - destruct (mem_nat m h); [discriminate S|discriminate O].
Qed.

Lemma finished_holds_nothing : forall t, ordered (fst t) (snd t) = true -> snd t = [] -> fst t = [].
Proof. intros [h p] O E. cbn [fst snd] in *. subst p. unfold Locks.ordered in O. cbn in O. destruct h; [reflexivity|discriminate]. Qed.

(* the largest rank some thread is waiting for *)
Definition await (t : thread) : option nat := match snd t with Acq m :: _ => Some (rank m) | _ => None end.
Fixpoint maxwait (c : cfg) : option nat :=
  match c with
  | [] => None
  | t :: r => match await t, maxwait r with
              | Some a, Some b => Some (Nat.max a b)
              | Some a, None => Some a
              | None, o => o
              end
  end.

Lemma maxwait_upper : forall c t j, In t c -> await t = Some j -> exists k, maxwait c = Some k /\ j <= k.
Proof.
  induction c as [|a c IH]; intros t j I A; [contradiction|]. cbn. destruct I as [I|I].
  - subst a. rewrite A. destruct (maxwait c) as [b|]; eexists; split; try reflexivity; lia.
  - destruct (IH t j I A) as (k & E & L). rewrite E. destruct (await a) as [x|]; eexists; split; try reflexivity; lia.
Qed.

Lemma maxwait_attained : forall c k, maxwait c = Some k -> exists t, In t c /\ await t = Some k.
Proof.
  induction c as [|a c IH]; intros k H; [discriminate|]. cbn in H.
  destruct (await a) as [x|] eqn:A; destruct (maxwait c) as [b|] eqn:M.
  - inversion H; subst. destruct (Nat.max_spec x b) as [(L & E)|(L & E)]; rewrite E.
    + destruct (IH b eq_refl) as (t & I & At). exists t. split; [right; exact I|exact At].
    + exists a. split; [left; reflexivity|exact A].
  - inversion H; subst. exists a. split; [left; reflexivity|exact A].
  - destruct (IH k H) as (t & I & At). exists t. split; [right; exact I|exact At].
  - discriminate.
Qed.

Theorem ordered_no_deadlock : forall c, oinv c -> unfinished c -> can_move c.
Proof.
  intros c I (i0 & t0 & E0 & N0).
  destruct (existsb (fun t => match thread_step c t with Some _ => true | None => false end) c) eqn:X.
  - apply existsb_exists in X. destruct X as (t & It & St). destruct (thread_step c t) as [t'|] eqn:Et; [|discriminate].
    destruct (In_nth_error _ _ It) as (i & Ei). exists i. unfold step. rewrite Ei, Et. eexists. reflexivity.
  - exfalso.
    assert (S : forall t, In t c -> thread_step c t = None).
    { intros t It. destruct (thread_step c t) eqn:Et; [|reflexivity].
      assert (Y : existsb (fun t => match thread_step c t with Some _ => true | None => false end) c = true)
        by (apply existsb_exists; exists t; split; [exact It|rewrite Et; reflexivity]). congruence. }
    pose proof (nth_error_In _ _ E0) as I0.
    destruct (stuck_thread c t0 (I t0 I0) N0 (S t0 I0)) as (m0 & r0 & P0 & _ & _).
    assert (A0 : await t0 = Some (rank m0)) by (unfold await; rewrite P0; reflexivity).
    destruct (maxwait_upper c t0 _ I0 A0) as (k & Mk & _).
    destruct (maxwait_attained c k Mk) as (t & It & At).
    assert (Nt : snd t <> []) by (unfold await in At; destruct (snd t); [discriminate|discriminate]).
    destruct (stuck_thread c t (I t It) Nt (S t It)) as (m & r & P & Hm & _).
    unfold await in At. rewrite P in At. inversion At as [Ek].
    (* somebody holds m; that thread is unfinished, hence waiting for a mutex of larger rank *)
    unfold held_by_someone in Hm. apply existsb_exists in Hm. destruct Hm as (tj & Ij & Mj). apply mem_nat_true in Mj.
    assert (Nj : snd tj <> []).
    { intros Ej. rewrite (finished_holds_nothing tj (I tj Ij) Ej) in Mj. contradiction. }
    destruct (stuck_thread c tj (I tj Ij) Nj (S tj Ij)) as (mj & rj & Pj & _ & Lj).
    assert (Aj : await tj = Some (rank mj)) by (unfold await; rewrite Pj; reflexivity).
    destruct (maxwait_upper c tj _ Ij Aj) as (k' & Mk' & Lk). rewrite Mk in Mk'. inversion Mk'; subst k'.
    specialize (Lj m Mj). lia.
Qed.

Theorem lock_order_deadlock_free : forall progs, well_ordered rank progs = true ->
  forall c, reach (init_cfg progs) c -> unfinished c -> can_move c.
Proof. intros progs W c R U. apply ordered_no_deadlock; [eapply oinv_reach; eauto|exact U]. Qed.
End Order.

Lemma lib_ops_ordered : forallb (ordered lib_rank []) lib_ops = true.
Proof. vm_compute. reflexivity. Qed.

Theorem library_deadlock_free : forall (reqs : list (list nat)) c,
  reach (init_cfg (map prog_of_ids reqs)) c -> unfinished c -> can_move c.
Proof.
  intros reqs c. apply (lock_order_deadlock_free lib_rank). unfold well_ordered. apply forallb_forall.
  intros p Hp. apply in_map_iff in Hp. destruct Hp as (ks & E & _). subst p. unfold ordered, prog_of_ids.
  rewrite flat_map_concat_map. rewrite oscan_ops; [reflexivity|]. apply forallb_forall. intros o Io.
  apply in_map_iff in Io. destruct Io as (k & Ek & _). subst o. unfold op_of_id.
  destruct (nth_in_or_default k lib_ops []) as [I|E].
  - pose proof lib_ops_ordered as T. rewrite forallb_forall in T. apply T. exact I.
  - rewrite E. reflexivity.
Qed.

(* a lock-order inversion does deadlock: two goroutines taking two mutexes in opposite orders *)
Theorem inverted_order_deadlocks :
  exists c, reach (init_cfg [[Acq 0; Acq 1; Rel 1; Rel 0]; [Acq 1; Acq 0; Rel 0; Rel 1]]) c /\ unfinished c /\ ~ can_move c.
Proof.
  exists (run_sched (init_cfg [[Acq 0; Acq 1; Rel 1; Rel 0]; [Acq 1; Acq 0; Rel 0; Rel 1]]) [0; 1]).
  split; [|split].
  - assert (G : forall sched c0 c, reach c0 c -> reach c0 (run_sched c sched)).
    { induction sched as [|i r IH]; intros c0 c R; cbn; [exact R|].
      destruct (step c i) as [c'|] eqn:E; [apply IH; eapply reach_step; eauto|apply IH; exact R]. }
    apply G. apply reach_refl.
  - exists 0. eexists. cbn. split; [reflexivity|discriminate].
  - intros (i & c' & H). destruct i as [|[|[|i]]]; vm_compute in H; discriminate H.
Qed.
