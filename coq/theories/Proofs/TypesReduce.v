(* Invariants of the type map reducer (Types/Schema.v visit / reduce). *)
From Coq Require Import List NArith Bool Lia.
From GQL Require Import Base.Bytes Types.Schema.
Import ListNotations.
Open Scope N_scope.

Lemma fold_res_inv {A} (f : tmap -> A -> res tmap) (P : tmap -> Prop) (l : list A) :
  (forall tm x tm', In x l -> P tm -> f tm x = OK tm' -> P tm') ->
  forall tm tm', P tm -> fold_res f l tm = OK tm' -> P tm'.
Proof.
  induction l as [|x r IH]; intros Hf tm tm' HP H; simpl in H.
  - inversion H; subst; exact HP.
  - destruct (f tm x) as [tm1| |] eqn:E; try discriminate.
    apply (IH (fun tm0 y tm0' Hy => Hf tm0 y tm0' (or_intror Hy)) tm1 tm').
    + exact (Hf tm x tm1 (or_introl eq_refl) HP E).
    + exact H.
Qed.

(* what the reducer has established about a definition when it enters it in the map *)
Definition static_ok (defs : list (N * tdef)) (d : tdef) : Prop :=
  ctor_err d = false /\
  match d with
  | DScalar _ _ _ _ | DEnum _ _ => True
  | DObject _ ifs fs _ => define_interfaces defs ifs <> None /\ define_field_map defs fs <> None
  | DInterface _ fs _ => define_field_map defs fs <> None
  | DUnion _ ms rt => define_union_types defs ms rt <> None
  | DInput _ fs => define_input_field_map defs fs <> None
  end.

Section Invariant.
  Variable defs : list (N * tdef).
  Variable P : tmap -> Prop.
  Hypothesis P_insert : forall tm id d,
    P tm -> find_def defs id = Some d -> static_ok defs d -> tm_find (def_name d) tm = None ->
    P ((def_name d, id) :: tm).

  Lemma go_inv (f : nat)
    (IH : forall tm id tm', P tm -> visit defs f tm id = OK tm' -> P tm') :
    forall tm (t : tref) tm', P tm ->
      match target_of defs t with TgtSkip => OK tm | TgtBad => Err | TgtTo i => visit defs f tm i end = OK tm' ->
      P tm'.
  Proof.
    intros tm t tm' HP H. destruct (target_of defs t) as [| |i]; try discriminate.
    - inversion H; subst; exact HP.
    - exact (IH tm i tm' HP H).
  Qed.

  Lemma visit_inv : forall fuel tm id tm', P tm -> visit defs fuel tm id = OK tm' -> P tm'.
  Proof.
    induction fuel as [|f IH]; intros tm id tm' HP H; simpl in H; try discriminate.
    destruct (find_def defs id) as [d|] eqn:Ed; try discriminate.
    destruct (ctor_err d) eqn:Ec; try discriminate.
    destruct (tm_find (def_name d) tm) as [id'|] eqn:Et.
    - destruct (id' =? id); try discriminate. inversion H; subst; exact HP.
    - pose proof (go_inv f IH) as Hgo.
      assert (Hfold : forall (l : list tref) tm0 tm0', P tm0 ->
                fold_res (fun tm t => match target_of defs t with
                                      | TgtSkip => OK tm | TgtBad => Err | TgtTo i => visit defs f tm i end) l tm0 = OK tm0' -> P tm0').
      { intros l tm0 tm0' HP0 H0.
        apply (fold_res_inv _ P l (fun tm1 x tm1' _ HP1 H1 => Hgo tm1 x tm1' HP1 H1) tm0 tm0' HP0 H0). }
      assert (HP1 : static_ok defs d -> P ((def_name d, id) :: tm)).
      { intro Hs. apply P_insert; auto. }
      destruct d as [n ser pv pl|n ifs fs ito|n fs rt|n ms rt|n vs|n fs]; simpl in H.
      + inversion H; subst. apply HP1. split; auto.
      + destruct (define_interfaces defs ifs) as [ids|] eqn:Ei; try discriminate.
        destruct (fold_res _ (map TNamed ids) _) as [tm2| |] eqn:E2; try discriminate.
        destruct (define_field_map defs fs) as [vfs|] eqn:Ef; try discriminate.
        assert (HP2 : P ((def_name (DObject n ifs fs ito), id) :: tm)).
        { apply HP1. split; auto. simpl. rewrite Ei, Ef. split; discriminate. }
        apply (Hfold _ _ _ (Hfold _ _ _ HP2 E2) H).
      + destruct (define_field_map defs fs) as [vfs|] eqn:Ef; try discriminate.
        assert (HP2 : P ((def_name (DInterface n fs rt), id) :: tm)).
        { apply HP1. split; auto. simpl. rewrite Ef. discriminate. }
        apply (Hfold _ _ _ HP2 H).
      + destruct (define_union_types defs ms rt) as [ids|] eqn:Em; try discriminate.
        assert (HP2 : P ((def_name (DUnion n ms rt), id) :: tm)).
        { apply HP1. split; auto. simpl. rewrite Em. discriminate. }
        apply (Hfold _ _ _ HP2 H).
      + inversion H; subst. apply HP1. split; auto.
      + destruct (define_input_field_map defs fs) as [l|] eqn:Ef; try discriminate.
        assert (HP2 : P ((def_name (DInput n fs), id) :: tm)).
        { apply HP1. split; auto. simpl. rewrite Ef. discriminate. }
        apply (Hfold _ _ _ HP2 H).
  Qed.

  Lemma reduce_inv : forall fuel tm t tm', P tm -> reduce defs fuel tm t = OK tm' -> P tm'.
  Proof.
    intros fuel tm t tm' HP H. unfold reduce in H.
    destruct (target_of defs t) as [| |i]; try discriminate.
    - inversion H; subst; exact HP.
    - exact (visit_inv fuel tm i tm' HP H).
  Qed.

  Lemma add_type_inv : forall fuel tm t tm', P tm -> add_type defs fuel tm t = OK tm' -> P tm'.
  Proof.
    intros fuel tm t tm' HP H. unfold add_type in H.
    destruct (norm t) as [|i|u|u] eqn:En.
    - inversion H; subst; exact HP.
    - destruct (type_err defs (TNamed i)); try discriminate. exact (reduce_inv _ _ _ _ HP H).
    - destruct (type_err defs (TList u)); try discriminate. exact (reduce_inv _ _ _ _ HP H).
    - destruct (type_err defs (TNonNull u)); try discriminate. exact (reduce_inv _ _ _ _ HP H).
  Qed.

  Lemma add_types_inv : forall fuel ts tm tm', P tm -> fold_res (add_type defs fuel) ts tm = OK tm' -> P tm'.
  Proof.
    intros fuel ts tm tm' HP H.
    exact (fold_res_inv _ P ts (fun tm0 x tm0' _ HP0 H0 => add_type_inv fuel tm0 x tm0' HP0 H0) tm tm' HP H).
  Qed.
End Invariant.
