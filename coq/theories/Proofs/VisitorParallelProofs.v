(* C14 -- VisitInParallel: every sub-visitor observes the events it would observe alone. *)
From Coq Require Import List NArith Bool Arith Lia.
From GQL Require Import Visitor.VisitorTree Visitor.VisitorWalk Visitor.VisitorLoop
     Proofs.VisitorWalkProofs Proofs.VisitorLoopProofs.
Import ListNotations.

(* ---- induction over trees ---- *)
Section GInd.
Variable P : gnode -> Prop.
Definition SlotP (s : slot) : Prop :=
  match s with One _ None => True | One _ (Some c) => P c | Many _ l => Forall P l end.
Hypothesis H : forall id kind slots, Forall SlotP slots -> P (GNode id kind slots).
Fixpoint gnode_ind' (n : gnode) : P n :=
  match n with
  | GNode id kind slots =>
    H id kind slots
      ((fix F (ss : list slot) : Forall SlotP ss :=
          match ss with
          | [] => Forall_nil _
          | s :: r =>
            Forall_cons s
              (match s return SlotP s with
               | One _ None => I
               | One _ (Some c) => gnode_ind' c
               | Many _ l =>
                 (fix L (l : list gnode) : Forall P l :=
                    match l with
                    | [] => Forall_nil _
                    | c :: l' => Forall_cons c (gnode_ind' c) (L l')
                    end) l
               end) (F r)
          end) slots)
  end.
End GInd.

Lemma find_slot_in k ss s : find_slot k ss = Some s -> In s ss.
Proof.
  induction ss as [|s0 r IH]; cbn; [discriminate|].
  destruct (N.eqb k (slot_name s0)); [intros E; inversion E; auto | auto].
Qed.

Lemma fst_seq_nostop p q : snd p = false -> fst (seq p q) = fst p ++ fst q.
Proof. destruct p as [e []], q; cbn; [discriminate | reflexivity]. Qed.
Lemma snd_seq_nostop p q : snd p = false -> snd (seq p q) = snd q.
Proof. destruct p as [e []], q; cbn; [discriminate | reflexivity]. Qed.
Lemma in_fst_seq e p q : In e (fst (seq p q)) -> In e (fst p) \/ In e (fst q).
Proof. destruct p as [ep []], q as [eq bq]; cbn; [auto | intros H; apply in_app_or in H; exact H]. Qed.

Section Par.
Variable keys_of : N -> list N.
Variable sel : N -> phase -> option N.
Variable pol : N -> phase -> action.

(* the traversal the VisitInParallel wrapper receives, and the one sub-visitor alone *)
Notation F := (walk keys_of par_sel par_pol).
Notation Fkeys := (wkeys keys_of par_sel par_pol).
Notation Flist := (wlist keys_of par_sel par_pol).
Notation Fslot := (wslot keys_of par_sel par_pol).
Notation W := (walk keys_of sel pol).
Notation Wkeys := (wkeys keys_of sel pol).
Notation Wlist := (wlist keys_of sel pol).
Notation Wslot := (wslot keys_of sel pol).
Notation prun := (par_run sel pol).

Definition mark_of (t : tr) : option skipmark := if snd t then Some SkBreak else None.

Lemma F_unfold c key n :
  F c key n = seq ([mk_event PEnter c key n FN_ENTER], false)
                  (seq (Fkeys (w_inner c key (Some (g_id n))) (g_slots n) (keys_of (g_kind n)))
                       ([mk_event PLeave c key n FN_LEAVE], false)).
Proof. rewrite walk_unfold. reflexivity. Qed.

(* ---- events of a subtree carry identities of the subtree ---- *)
Lemma list_ids cl : forall l, Forall (fun n => forall c key e, In e (fst (F c key n)) -> In (e_id e) (ids n)) l ->
  forall i e, In e (fst (Flist cl i l)) -> In (e_id e) (flat_map ids l).
Proof.
  induction l as [|ch l IH]; intros HF i e Hin; cbn in Hin; [contradiction|].
  inversion HF as [|? ? Hch Hl]; subst. cbn [flat_map]. apply in_or_app.
  apply in_fst_seq in Hin. destruct Hin as [Hin|Hin]; [left; eapply Hch; exact Hin | right; eapply IH; eauto].
Qed.

Lemma F_ids : forall n c key e, In e (fst (F c key n)) -> In (e_id e) (ids n).
Proof.
  induction n as [id kind slots IH] using gnode_ind'. intros c key e Hin.
  rewrite F_unfold in Hin. cbn [g_id g_slots g_kind] in Hin.
  apply in_fst_seq in Hin. destruct Hin as [[<-|[]]|Hin]; [left; reflexivity|].
  apply in_fst_seq in Hin. destruct Hin as [Hin|[<-|[]]]; [|left; reflexivity].
  right. revert Hin. generalize (w_inner c key (Some id)) as cin. generalize (keys_of kind) as ks.
  induction ks as [|k ks IHk]; intros cin Hin; cbn in Hin; [contradiction|].
  apply in_fst_seq in Hin. destruct Hin as [Hin|Hin]; [|eapply IHk; exact Hin].
  destruct (find_slot k slots) as [s|] eqn:Ef; [|contradiction].
  apply find_slot_in in Ef. apply in_flat_map. exists s. split; [exact Ef|].
  rewrite Forall_forall in IH. specialize (IH s Ef).
  destruct s as [nm [ch|]|nm l]; cbn [VisitorWalk.wslot slot_ids SlotP] in *.
  - eapply IH; exact Hin.
  - contradiction.
  - eapply list_ids; eauto.
Qed.

Lemma Fkeys_ids n cin ks e :
  In e (fst (Fkeys cin (g_slots n) ks)) -> In (e_id e) (desc_ids n).
Proof.
  revert cin. induction ks as [|k ks IHk]; intros cin Hin; cbn in Hin; [contradiction|].
  apply in_fst_seq in Hin. destruct Hin as [Hin|Hin]; [|eapply IHk; exact Hin].
  destruct (find_slot k (g_slots n)) as [s|] eqn:Ef; [|contradiction].
  apply find_slot_in in Ef. apply in_flat_map. exists s. split; [exact Ef|].
  destruct s as [nm [ch|]|nm l]; cbn [VisitorWalk.wslot slot_ids] in *.
  - eapply F_ids; exact Hin.
  - contradiction.
  - eapply list_ids; [|exact Hin]. apply Forall_forall. intros x _. apply F_ids.
Qed.

(* ---- the wrapper while a mark is set ---- *)
Lemma prun_break evs : prun (Some SkBreak) evs = (Some SkBreak, []).
Proof.
  induction evs as [|e r IH]; [reflexivity|]. cbn [par_run]. unfold par_step.
  destruct (e_phase e); rewrite IH; reflexivity.
Qed.

Lemma prun_skipping x evs :
  (forall e, In e evs -> e_id e <> x) -> prun (Some (SkNode x)) evs = (Some (SkNode x), []).
Proof.
  induction evs as [|e r IH]; intros Hn; [reflexivity|]. cbn [par_run]. unfold par_step.
  assert (Hx : N.eqb x (e_id e) = false).
  { apply N.eqb_neq. intros E. apply (Hn e (or_introl eq_refl)). symmetry; exact E. }
  destruct (e_phase e); rewrite ?Hx, IH; auto; intros e' Hi; apply Hn; right; exact Hi.
Qed.

Lemma prun_app sk a b :
  prun sk (a ++ b) = let '(sk1, o1) := prun sk a in let '(sk2, o2) := prun sk1 b in (sk2, o1 ++ o2).
Proof.
  revert sk. induction a as [|e a IH]; intros sk; cbn [app par_run].
  - destruct (prun sk b); reflexivity.
  - destruct (par_step sel pol sk e) as [sk1 o1]. rewrite IH.
    destruct (prun sk1 a) as [sk2 o2]. destruct (prun sk2 b) as [sk3 o3].
    rewrite app_assoc. reflexivity.
Qed.

(* "p is the full traversal of a part of the tree, p' what the sub-visitor sees of it alone" *)
Definition agrees (p p' : tr) : Prop :=
  snd p = false /\ prun None (fst p) = (mark_of p', fst p').

Lemma agrees_seq p q p' q' : agrees p p' -> agrees q q' -> agrees (seq p q) (seq p' q').
Proof.
  intros [Hp Hpr] [Hq Hqr]. split.
  - rewrite snd_seq_nostop; assumption.
  - rewrite fst_seq_nostop by assumption. rewrite prun_app, Hpr.
    destruct p' as [e' [|]]; unfold mark_of; cbn [snd fst seq].
    + rewrite prun_break, app_nil_r. reflexivity.
    + rewrite Hqr. destruct q' as [e2 b2]. reflexivity.
Qed.

Lemma agrees_nil : agrees nil_tr nil_tr.
Proof. split; reflexivity. Qed.

Lemma agrees_list cl : forall l,
  Forall (fun n => tree_ok n = true -> forall c key, agrees (F c key n) (W c key n)) l ->
  forallb tree_ok l = true ->
  forall i, agrees (Flist cl i l) (Wlist cl i l).
Proof.
  induction l as [|ch l IH]; intros HF Hok i; [apply agrees_nil|].
  inversion HF as [|? ? Hch Hl]; subst. cbn [forallb] in Hok. apply andb_prop in Hok. destruct Hok as [Ok1 Ok2].
  cbn [VisitorWalk.wlist]. apply agrees_seq; [apply Hch; exact Ok1 | apply IH; assumption].
Qed.

Lemma agrees_leave c key n :
  agrees ([mk_event PLeave c key n FN_LEAVE], false) (leave_tr sel pol c key n).
Proof.
  split; [reflexivity|]. unfold leave_tr, act, emit. cbn [fst par_run]. unfold par_step.
  cbn [e_phase mk_event e_kind e_id].
  destruct (sel (g_kind n) PLeave); [destruct (pol (g_id n) PLeave)|]; reflexivity.
Qed.

Theorem par_agrees : forall n, tree_ok n = true -> forall c key, agrees (F c key n) (W c key n).
Proof.
  induction n as [id kind slots IH] using gnode_ind'. intros Hok c key.
  cbn [tree_ok] in Hok. apply andb_prop in Hok. destruct Hok as [Hfresh Hkids].
  (* the children *)
  assert (HK : forall cin ks, agrees (Fkeys cin slots ks) (Wkeys cin slots ks)).
  { intros cin ks. induction ks as [|k ks IHk]; [apply agrees_nil|].
    cbn [VisitorWalk.wkeys]. apply agrees_seq; [|exact IHk].
    destruct (find_slot k slots) as [s|] eqn:Ef; [|apply agrees_nil].
    apply find_slot_in in Ef. rewrite Forall_forall in IH. specialize (IH s Ef).
    rewrite forallb_forall in Hkids. specialize (Hkids s Ef).
    destruct s as [nm [ch|]|nm l]; cbn [VisitorWalk.wslot SlotP slot_all] in *.
    - apply IH; exact Hkids.
    - apply agrees_nil.
    - apply agrees_list; assumption. }
  assert (Hids : forall cin ks e, In e (fst (Fkeys cin slots ks)) -> e_id e <> id).
  { intros cin ks e Hin E. apply (Fkeys_ids (GNode id kind slots)) in Hin. apply negb_true_iff in Hfresh.
    assert (X : existsb (N.eqb id) (flat_map (slot_ids ids) slots) = true).
    { apply existsb_exists. exists (e_id e). split; [exact Hin | apply N.eqb_eq; symmetry; exact E]. }
    rewrite X in Hfresh. discriminate. }
  rewrite F_unfold, walk_unfold. unfold act, emit. cbn [g_id g_slots g_kind].
  set (cin := w_inner c key (Some id)).
  assert (HFK : snd (Fkeys cin slots (keys_of kind)) = false) by apply HK.
  destruct (sel kind PEnter) as [fn|] eqn:Es; [destruct (pol id PEnter) eqn:Ep|].
  - (* continue *)
    apply agrees_seq; [split; [reflexivity|]; cbn; rewrite Es, Ep; reflexivity|].
    apply agrees_seq; [apply HK | apply agrees_leave].
  - (* skip: the subtree and the leave are withheld, then the mark is cleared *)
    split; [rewrite !snd_seq_nostop by (try reflexivity; exact HFK); reflexivity|].
    rewrite !fst_seq_nostop by (try reflexivity; exact HFK).
    cbn [fst app par_run par_step mk_event e_phase e_kind e_id g_kind g_id]. rewrite Es, Ep.
    rewrite prun_app, (prun_skipping id) by (apply Hids).
    cbn [par_run par_step e_phase e_id mk_event g_id]. rewrite N.eqb_refl. reflexivity.
  - (* break: nothing follows *)
    split; [rewrite !snd_seq_nostop by (try reflexivity; exact HFK); reflexivity|].
    rewrite !fst_seq_nostop by (try reflexivity; exact HFK).
    cbn [fst app par_run par_step mk_event e_phase e_kind e_id g_kind g_id]. rewrite Es, Ep.
    rewrite prun_break. reflexivity.
  - (* no enter function for this kind *)
    apply agrees_seq; [split; [reflexivity|]; cbn; rewrite Es; reflexivity|].
    apply agrees_seq; [apply HK | apply agrees_leave].
Qed.

Theorem par_projection t :
  tree_ok t = true ->
  par_observed sel pol (walk_events keys_of par_sel par_pol t) = walk_events keys_of sel pol t.
Proof.
  intros Hok. unfold par_observed, walk_events, walk_root.
  destruct (par_agrees t Hok w_root None) as [_ ->]. reflexivity.
Qed.

End Par.

(* ---- skip / break on the walk ---- *)
Section Shape.
Variable keys_of : N -> list N.
Variable sel : N -> phase -> option N.
Variable pol : N -> phase -> action.
Notation W := (walk keys_of sel pol).

Lemma skip_drops_subtree c key n :
  act sel pol n PEnter = Skip -> W c key n = (emit sel PEnter c key n, false).
Proof. intros H. rewrite walk_unfold, H. reflexivity. Qed.

Lemma break_on_enter_stops c key n rest :
  act sel pol n PEnter = Break -> seq (W c key n) rest = (emit sel PEnter c key n, true).
Proof. intros H. rewrite walk_unfold, H. reflexivity. Qed.

Lemma break_on_leave_stops c key n rest :
  act sel pol n PLeave = Break -> seq (leave_tr sel pol c key n) rest = (emit sel PLeave c key n, true).
Proof. intros H. unfold leave_tr. rewrite H. reflexivity. Qed.

(* the traversal is cut short only by a break *)
Lemma never_break_list cl : forall l,
  Forall (fun n => forall c key, snd (W c key n) = false) l ->
  forall i, snd (wlist keys_of sel pol cl i l) = false.
Proof.
  induction l as [|ch l IH]; intros HF i; [reflexivity|].
  inversion HF; subst. cbn [wlist]. rewrite snd_seq_nostop; auto.
Qed.

Theorem never_break_never_stops :
  (forall id ph, pol id ph <> Break) -> forall n c key, snd (W c key n) = false.
Proof.
  intros Hnb. induction n as [id kind slots IH] using gnode_ind'. intros c key.
  assert (Ha : forall ph, act sel pol (GNode id kind slots) ph <> Break).
  { intros ph. unfold act. destruct (sel _ ph); [apply Hnb | discriminate]. }
  rewrite walk_unfold.
  destruct (act sel pol (GNode id kind slots) PEnter) eqn:E; [|reflexivity|exfalso; exact (Ha _ E)].
  rewrite !snd_seq_nostop; [| |reflexivity].
  - unfold leave_tr. specialize (Ha PLeave). cbn [snd].
    destruct (act sel pol (GNode id kind slots) PLeave); [reflexivity | reflexivity | exfalso; apply Ha; reflexivity].
  - cbn [g_slots g_kind g_id]. generalize (w_inner c key (Some id)) as cin.
    induction (keys_of kind) as [|k ks IHk]; intros cin; [reflexivity|].
    cbn [wkeys]. rewrite snd_seq_nostop; [apply IHk|].
    destruct (find_slot k slots) as [s|] eqn:Ef; [|reflexivity].
    apply find_slot_in in Ef. rewrite Forall_forall in IH. specialize (IH s Ef).
    destruct s as [nm [ch|]|nm l]; cbn [wslot SlotP] in *; [apply IH | reflexivity | apply never_break_list; exact IH].
Qed.

(* without skip and break every node reached is entered, its children are traversed in key
   order, and it is left: events are properly nested *)
Theorem all_continue_nested :
  (forall id ph, pol id ph = Continue) -> forall n c key,
  W c key n = (emit sel PEnter c key n
               ++ fst (wkeys keys_of sel pol (w_inner c key (Some (g_id n))) (g_slots n) (keys_of (g_kind n)))
               ++ emit sel PLeave c key n, false).
Proof.
  intros Hc n c key.
  assert (Hnb : forall id ph, pol id ph <> Break) by (intros id ph; rewrite Hc; discriminate).
  pose proof (never_break_never_stops Hnb n c key) as Hs.
  rewrite walk_unfold in *.
  assert (Ha : forall ph, act sel pol n ph = Continue).
  { intros ph. unfold act. destruct (sel _ ph); [apply Hc | reflexivity]. }
  rewrite Ha in *. unfold leave_tr in *. rewrite Ha in *.
  destruct (wkeys keys_of sel pol (w_inner c key (Some (g_id n))) (g_slots n) (keys_of (g_kind n))) as [e [|]];
    cbn in *; [discriminate | reflexivity].
Qed.
End Shape.

(* ---- enter and leave events are matched and properly nested ---- *)
Section Nested.
Variable keys_of : N -> list N.
Variable sel : N -> phase -> option N.
Variable pol : N -> phase -> action.
Notation W := (walk keys_of sel pol).

Notation nested := (nested pol).

Hypothesis sel_total : forall kind ph, sel kind ph <> None.
Hypothesis no_break : forall id ph, pol id ph <> Break.

Lemma nested_list cl : forall l,
  Forall (fun n => forall c key, nested (fst (W c key n))) l ->
  forall i, nested (fst (wlist keys_of sel pol cl i l)).
Proof.
  induction l as [|ch l IH]; intros HF i; [constructor|].
  inversion HF; subst. cbn [wlist].
  rewrite fst_seq_nostop by (apply never_break_never_stops; exact no_break).
  apply N_app; auto.
Qed.

Theorem walk_nested : forall n c key, nested (fst (W c key n)).
Proof.
  induction n as [id kind slots IH] using gnode_ind'. intros c key.
  pose proof (never_break_never_stops keys_of sel pol no_break (GNode id kind slots) c key) as Hns.
  rewrite walk_unfold in *. unfold act, emit, leave_tr, act, emit in *. cbn [g_kind g_id g_slots] in *.
  destruct (sel kind PEnter) as [fe|] eqn:Ee; [|exfalso; exact (sel_total _ _ Ee)].
  destruct (sel kind PLeave) as [fl|] eqn:El; [|exfalso; exact (sel_total _ _ El)].
  assert (HK : forall cin ks, nested (fst (wkeys keys_of sel pol cin slots ks))
                              /\ snd (wkeys keys_of sel pol cin slots ks) = false).
  { intros cin ks. induction ks as [|k ks [IHk IHs]]; [split; [constructor | reflexivity]|].
    cbn [wkeys].
    assert (Hslot : nested (fst (wslot keys_of sel pol cin k (find_slot k slots)))
                    /\ snd (wslot keys_of sel pol cin k (find_slot k slots)) = false).
    { destruct (find_slot k slots) as [s|] eqn:Ef; [|split; [constructor|reflexivity]].
      apply find_slot_in in Ef. rewrite Forall_forall in IH. specialize (IH s Ef).
      destruct s as [nm [ch|]|nm l]; cbn [wslot SlotP] in *.
      - split; [apply IH | apply never_break_never_stops; exact no_break].
      - split; [constructor | reflexivity].
      - split; [apply nested_list; exact IH |].
        apply never_break_list. apply Forall_forall. intros x _ c0 k0.
        apply never_break_never_stops; exact no_break. }
    destruct Hslot as [Hs1 Hs2].
    split; [rewrite fst_seq_nostop by exact Hs2; apply N_app; assumption
           | rewrite snd_seq_nostop by exact Hs2; exact IHs]. }
  destruct (pol id PEnter) eqn:Ep.
  - destruct (HK (w_inner c key (Some id)) (keys_of kind)) as [Hk1 Hk2].
    set (K := wkeys keys_of sel pol (w_inner c key (Some id)) slots (keys_of kind)) in *.
    destruct K as [ek bk]. cbn [fst snd] in *. subst bk. cbn [seq fst].
    destruct (pol id PLeave) eqn:Epl; try (exfalso; exact (no_break _ _ Epl));
      cbn [fst]; apply (N_node pol (mk_event PEnter c key (GNode id kind slots) fe) ek
                               (mk_event PLeave c key (GNode id kind slots) fl)); auto.
  - cbn [fst]. apply N_skip; [reflexivity | exact Ep].
  - exfalso; exact (no_break _ _ Ep).
Qed.
End Nested.
