(* C08: the round-trip theorems in terms of sources. *)
From Coq Require Import String List NArith Bool Lia.
From GQL Require Import Base.Bytes Syntax.Lexer Syntax.Ast Syntax.Parser Syntax.Grammar Syntax.Printer
  Proofs.SyntaxSound Proofs.SyntaxComplete Proofs.SyntaxPrinter Proofs.SyntaxUtf8 Proofs.SyntaxRender Proofs.SyntaxLayoutWf
  Proofs.SyntaxLexemes Proofs.SyntaxRoundTrip Proofs.SyntaxCompleteSDL Proofs.SyntaxBlock Proofs.SyntaxRoundTripSDL.
Import ListNotations.
Open Scope N_scope.

(* the restriction inherited from C08_string_roundtrip: every string or block-string token of the
   source has a value that is valid UTF-8 (str_okb: no byte that utf8.DecodeRune would replace) *)
Definition str_ok_tok (t : token) : bool :=
  match tk t with STRING | BLOCK_STRING => str_ok (tval t) | _ => true end.
Definition strings_ok_toks (ts : list token) : bool := forallb str_ok_tok ts.
Definition src_strings_utf8 (src : bytes) : bool :=
  match lex src with Ok (ts, _) => strings_ok_toks ts | _ => false end.

Lemma toks_wf_of : forall ts, forallb lexeme_ok ts = true -> strings_ok_toks ts = true -> toks_wf ts.
Proof.
  induction ts as [|t ts IH]; intros H1 H2; [reflexivity|]. unfold toks_wf. cbn [forallb] in *.
  apply andb_true_iff in H1. destruct H1 as [L1 H1]. unfold strings_ok_toks in H2. cbn [forallb] in H2.
  apply andb_true_iff in H2. destruct H2 as [A1 H2].
  rewrite (IH H1 H2). rewrite andb_true_r.
  unfold tok_wf, lexeme_ok, str_ok_tok in *. destruct (tk t); try reflexivity; assumption.
Qed.

Theorem roundtrip_exec : forall src d mb, parse src = Ok (d, mb) -> exec_only d = true -> src_strings_utf8 src = true ->
  exists d', parse (print_doc d) = Ok (d', false) /\ erase_loc d' = erase_loc d /\ print_doc d' = print_doc d.
Proof.
  intros src d mb H E A. unfold parse in H. unfold src_strings_utf8 in A.
  destruct (lex src) as [[ts m]| |] eqn:L; try discriminate.
  destruct (parse_tokens ts) as [d0| |] eqn:P; try discriminate. inversion H; subst d0 m.
  apply (roundtrip_exec_tokens ts d P E). apply toks_wf_of; [|exact A].
  unfold lex, lex_src in L. cbn [snd] in L. apply (lex_all_lexemes _ _ _ _ _ L).
Qed.

(* values: print, lex, derive, parse *)
Theorem value_roundtrip : forall c p v, DValue c p v -> toks_wf p ->
  exists ts v', lex (print_value v) = Ok (ts ++ [eof_tok (nlen (print_value v))], false) /\
    DValue c ts v' /\ gnl (g_value v') = gnl (g_value v) /\ print_value v' = print_value v /\
    forall fuel pe, (length ts < fuel)%nat ->
      parse_value fuel c (pe, ts ++ [eof_tok (nlen (print_value v))]) = Ok (v', (endof pe ts, [eof_tok (nlen (print_value v))])).
Proof.
  intros c p v D W. destruct (value_rt _ c p v (le_n _) D W) as [Pv Rv].
  destruct (Rv (ptoks 0 (lay_value v)) (sig_ptoks _ _)) as (v' & D' & E' & L').
  exists (ptoks 0 (lay_value v)), v'. split; [|split; [exact D'|split; [exact E'|split]]].
  - unfold print_value. apply lex_flat_layout. specialize (Pv [] (conj eq_refl eq_refl)). rewrite app_nil_r in Pv. exact Pv.
  - unfold print_value. rewrite L'. reflexivity.
  - intros fuel pe Hf. apply parse_value_complete; assumption.
Qed.

(* a value parsed from a source *)
Theorem value_roundtrip_src : forall src ts mb fuel c v st', lex src = Ok (ts, mb) -> strings_ok_toks ts = true ->
  parse_value fuel c (0, ts) = Ok (v, st') ->
  exists ts' v', lex (print_value v) = Ok (ts' ++ [eof_tok (nlen (print_value v))], false) /\
    gnl (g_value v') = gnl (g_value v) /\
    forall fuel' pe, (length ts' < fuel')%nat ->
      parse_value fuel' c (pe, ts' ++ [eof_tok (nlen (print_value v))]) = Ok (v', (endof pe ts', [eof_tok (nlen (print_value v))])).
Proof.
  intros src ts mb fuel c v st' L A P.
  destruct (parse_value_sound fuel c _ _ _ P) as (p & C & D).
  assert (W : toks_wf ts).
  { apply toks_wf_of; [|exact A]. unfold lex, lex_src in L. cbn [snd] in L. apply (lex_all_lexemes _ _ _ _ _ L). }
  destruct C as [C _]. cbn [snd] in C. rewrite C in W. apply toks_wf_app in W. destruct W as [W _].
  destruct (value_roundtrip c p v D W) as (ts' & v' & H1 & _ & H3 & _ & H5).
  exists ts', v'. split; [exact H1|split; [exact H3|exact H5]].
Qed.

(* every document, executable or type-system: print, lex, parse gives the document back up to
   locations and empty descriptions, and it prints to the same text *)
Theorem roundtrip_src : forall src d mb, parse src = Ok (d, mb) -> src_strings_utf8 src = true ->
  exists d', parse (print_doc d) = Ok (d', false) /\ erase_loc_descr d' = erase_loc_descr d /\ print_doc d' = print_doc d.
Proof.
  intros src d mb H A. unfold parse in H. unfold src_strings_utf8 in A.
  destruct (lex src) as [[ts m]| |] eqn:L; try discriminate.
  destruct (parse_tokens ts) as [d0| |] eqn:P; try discriminate. inversion H; subst d0 m.
  apply (roundtrip_tokens ts d P). apply toks_wf_of; [|exact A].
  unfold lex, lex_src in L. cbn [snd] in L. apply (lex_all_lexemes _ _ _ _ _ L).
Qed.
