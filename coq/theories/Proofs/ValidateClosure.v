(* The closure iteration of the model of RecursivelyReferencedFragments never falls short:
   |fragments| + 1 rounds of "add the spreads of everything seen" reach a fixed point.
   Every round that is not yet stable was preceded by a round in which a *defined* fragment
   name appeared for the first time, and there are at most |fragments| of those. *)
From Coq Require Import List Arith Lia Bool String NArith.
From GQL Require Import Exec.Syntax Validate.VSyntax Validate.Overlap Validate.Rules
     Proofs.ValidateRules Proofs.ValidateMemo Proofs.ValidateCycles Proofs.ValidateUnused.
Import ListNotations.
Open Scope string_scope.
Open Scope list_scope.

Lemma iter_succ_r : forall {A} n (f : A -> A) x, iter (Datatypes.S n) f x = f (iter n f x).
Proof. intros A n f. induction n as [|n IH]; intro x; [reflexivity|]. simpl in *. rewrite <- IH. reflexivity. Qed.

Section Closure.
Variable sp : name -> list name.
Variable names : list name.
Hypothesis sp_def : forall g h, In h (sp g) -> In g names.

Definition cstep (seen : list name) : list name := dedup (seen ++ flat_map sp seen) [].
Definition stable_b (seen : list name) : bool := forallb (fun x => nmem x seen) (flat_map sp seen).
Definition unseen (seen : list name) : nat := List.length (filter (fun n => negb (nmem n seen)) names).

Lemma cstep_in : forall seen x, In x (cstep seen) <-> In x seen \/ exists h, In h seen /\ In x (sp h).
Proof.
  intros seen x. unfold cstep. split.
  - intro H. apply dedup_incl in H. apply in_app_or in H. destruct H as [H|H]; [left; exact H|].
    right. apply in_flat_map in H. exact H.
  - intro H. destruct (dedup_complete2 (seen ++ flat_map sp seen) [] x) as [[]|K]; [|exact K].
    apply in_or_app. destruct H as [H|H]; [left; exact H | right; apply in_flat_map; exact H].
Qed.

Lemma stable_b_true : forall seen, stable_b seen = true <-> forall h x, In h seen -> In x (sp h) -> In x seen.
Proof.
  intro seen. unfold stable_b. rewrite forallb_forall. split.
  - intros H h x Hh Hx. apply nmem_in. apply H. apply in_flat_map. exists h. split; assumption.
  - intros H x Hx. apply in_flat_map in Hx. destruct Hx as [h [Hh Hx]]. apply nmem_in. apply (H h x Hh Hx).
Qed.

Lemma stable_step : forall seen, stable_b seen = true -> stable_b (cstep seen) = true.
Proof.
  intros seen H. rewrite stable_b_true in *. intros h x Hh Hx. apply cstep_in. left.
  apply cstep_in in Hh. destruct Hh as [Hh|[h' [Hh' Hh]]]; [apply (H h x Hh Hx)|].
  apply (H h x (H h' h Hh' Hh) Hx).
Qed.

Lemma filter_len_le2 : forall (p q : name -> bool) l,
  (forall x, p x = true -> q x = true) -> List.length (filter p l) <= List.length (filter q l).
Proof.
  intros p q l H. induction l as [|x r IH]; simpl; [lia|].
  destruct (p x) eqn:Ep; [rewrite (H x Ep); simpl; lia|]. destruct (q x); simpl; lia.
Qed.

Lemma filter_len_lt2 : forall (p q : name -> bool) l n,
  (forall x, p x = true -> q x = true) -> In n l -> q n = true -> p n = false ->
  List.length (filter p l) < List.length (filter q l).
Proof.
  intros p q l n H. induction l as [|x r IH]; intros Hin Hq Hp; [destruct Hin|]. simpl.
  destruct Hin as [Hin|Hin].
  - subst x. rewrite Hp, Hq. simpl. pose proof (filter_len_le2 p q r H). lia.
  - specialize (IH Hin Hq Hp). destruct (p x) eqn:Ep; [rewrite (H x Ep); simpl; lia|]. destruct (q x); simpl; lia.
Qed.

(* a round that leaves the set unstable has brought in a defined name *)
Lemma progress : forall seen, stable_b (cstep seen) = false -> unseen (cstep seen) < unseen seen.
Proof.
  intros seen H. unfold stable_b in H.
  assert (E : existsb (fun x => negb (nmem x (cstep seen))) (flat_map sp (cstep seen)) = true).
  { clear -H. induction (flat_map sp (cstep seen)) as [|y r IH]; simpl in *; [discriminate|].
    destruct (nmem y (cstep seen)); simpl in *; [apply IH; exact H | reflexivity]. }
  apply existsb_exists in E. destruct E as [x [Hx Nx]]. apply in_flat_map in Hx. destruct Hx as [h [Hh Hx]].
  apply negb_true_iff in Nx.
  destruct (nmem h seen) eqn:Eh.
  { exfalso. apply nmem_in in Eh. assert (K : In x (cstep seen)) by (apply cstep_in; right; exists h; split; assumption).
    apply nmem_in in K. rewrite K in Nx. discriminate. }
  unfold unseen. apply (filter_len_lt2 _ _ names h).
  - intros y Hy. apply negb_true_iff in Hy. apply negb_true_iff.
    destruct (nmem y seen) eqn:Ey; [|reflexivity]. apply nmem_in in Ey.
    assert (K : In y (cstep seen)) by (apply cstep_in; left; exact Ey). apply nmem_in in K. rewrite K in Hy. discriminate.
  - apply (sp_def h x Hx).
  - rewrite Eh. reflexivity.
  - apply nmem_in in Hh. rewrite Hh. reflexivity.
Qed.

Lemma rounds : forall X0 j,
  stable_b (iter (Datatypes.S j) cstep X0) = true \/ unseen (iter (Datatypes.S j) cstep X0) + j + 1 <= unseen X0.
Proof.
  intros X0 j. induction j as [|j IH].
  - rewrite iter_succ_r. simpl iter. destruct (stable_b (cstep X0)) eqn:E; [left; reflexivity|].
    right. pose proof (progress X0 E). lia.
  - rewrite iter_succ_r. destruct IH as [IH|IH]; [left; apply stable_step; exact IH|].
    destruct (stable_b (cstep (iter (Datatypes.S j) cstep X0))) eqn:E; [left; reflexivity|].
    right. pose proof (progress _ E). lia.
Qed.

Theorem closure_reaches_fixpoint : forall X0, stable_b (iter (Datatypes.S (List.length names)) cstep X0) = true.
Proof.
  intro X0. destruct (rounds X0 (List.length names)) as [H|H]; [exact H|]. exfalso.
  assert (unseen X0 <= List.length names).
  { unfold unseen. generalize (fun n : name => negb (nmem n X0)). intro p. clear.
    induction names as [|y r IH]; simpl; [lia|]. destruct (p y); simpl; lia. }
  lia.
Qed.
End Closure.

Theorem closures_stable_always : forall W, closures_stable W = true.
Proof.
  intro W. unfold closures_stable. apply forallb_forall. intros o _. unfold closure_stable, closure_of.
  rewrite <- (map_length wf_name (w_frags W)).
  apply (closure_reaches_fixpoint (wfrag_spreads W) (map wf_name (w_frags W))).
  intros g h Hh. unfold wfrag_spreads in Hh. destruct (fragw W g) as [f|] eqn:E; [|destruct Hh].
  apply fragw_some in E. destruct E as [Hf En]. subst g. apply in_map. exact Hf.
Qed.

Theorem no_unused_fragments_iff_all : forall W,
  rule_no_unused_fragments W <> [] <-> Violates_no_unused_fragments W.
Proof. intro W. apply no_unused_fragments_iff. apply closures_stable_always. Qed.
