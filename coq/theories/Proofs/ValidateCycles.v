(* NoFragmentCycles, soundness: the DFS with visitedFrags / spreadPath / spreadPathIndexByName
   reports an error only if some fragment reaches itself through spreads. *)
From Coq Require Import List Arith Lia Bool String NArith Relations.
From GQL Require Import Exec.Syntax Validate.VSyntax Validate.Overlap Validate.Rules Proofs.ValidateRules.
Import ListNotations.
Open Scope string_scope.
Open Scope list_scope.

Section Cycles.
Variable W : wdoc.

(* g spreads h: some definition named g contains a spread of h (at any depth) *)
Definition edge (g h : name) : Prop :=
  exists f, In f (w_frags W) /\ wf_name f = g /\ In h (spread_names (wf_sel f)).
Definition reach : name -> name -> Prop := clos_trans name edge.
Definition Violates_no_fragment_cycles : Prop := exists g, reach g g.

Lemma fragw_some : forall g f, fragw W g = Some f -> In f (w_frags W) /\ wf_name f = g.
Proof.
  intros g f. unfold fragw.
  assert (G : forall l acc,
    (forall x, acc = Some x -> In x (w_frags W) /\ wf_name x = g) ->
    (forall x, In x l -> In x (w_frags W)) ->
    forall f, fold_left (fun acc f => if String.eqb g (wf_name f) then Some f else acc) l acc = Some f ->
              In f (w_frags W) /\ wf_name f = g).
  { induction l as [|x r IH]; intros acc Hacc Hl f0 H; simpl in H; [apply Hacc; exact H|].
    apply (IH (if String.eqb g (wf_name x) then Some x else acc)); [| |exact H].
    - intros y Hy. destruct (String.eqb g (wf_name x)) eqn:E; [|apply Hacc; exact Hy].
      inversion Hy; subst. split; [apply Hl; left; reflexivity | symmetry; apply String.eqb_eq; exact E].
    - intros y Hy. apply Hl. right. exact Hy. }
  apply G; [intros x Hx; discriminate | auto].
Qed.

Definition idx_inv (idx : list (name * nat)) (cur : name) : Prop :=
  forall n i, In (n, i) idx -> n = cur \/ reach n cur.

Definition no_new (st st' : cyc) : Prop := Violates_no_fragment_cycles \/ cy_errs st' = cy_errs st.

Lemma no_new_refl : forall st, no_new st st.
Proof. intro st. right. reflexivity. Qed.

Lemma no_new_trans : forall a b c, no_new a b -> no_new b c -> no_new a c.
Proof.
  intros a b c [H|H] [H'|H']; try (left; assumption). right. congruence.
Qed.

Lemma fold_no_new : forall {A} (step : cyc -> A -> cyc) (l : list A),
  (forall st x, In x l -> no_new st (step st x)) -> forall st, no_new st (fold_left step l st).
Proof.
  intros A step l. induction l as [|x r IH]; intros H st; simpl; [apply no_new_refl|].
  eapply no_new_trans; [apply H; left; reflexivity|]. apply IH. intros st' y Hy. apply H. right. exact Hy.
Qed.

Lemma detect_sound : forall fuel f path idx st,
  In f (w_frags W) -> idx_inv idx (wf_name f) -> no_new st (detect W fuel f path idx st).
Proof.
  induction fuel as [|fu IH]; intros f path idx st Hf Hinv; cbn [detect]; [apply no_new_refl|].
  destruct (ctx_spreads (wf_sel f)) as [|sp0 sps] eqn:Esp; [right; reflexivity|].
  eapply no_new_trans; [right; reflexivity|].
  match goal with |- no_new _ (fold_left ?step ?l ?s0) =>
    apply (no_new_trans _ s0); [right; reflexivity | apply (fold_no_new step l)] end.
  intros st' sp Hsp.
  assert (He : edge (wf_name f) (snd (snd sp))).
  { exists f. split; [exact Hf|]. split; [reflexivity|]. unfold spread_names. rewrite Esp.
    apply (in_map (fun p : N * (N * name) => snd (snd p))). exact Hsp. }
  destruct (alookup (snd (snd sp)) ((wf_name f, List.length path) :: idx)) as [ci|] eqn:El.
  - (* a spread back onto the current path: a real cycle *)
    left. exists (snd (snd sp)).
    apply alookup_in in El. destruct El as [El|El].
    + injection El as E1 E2. rewrite E1 in He. apply t_step. exact He.
    + destruct (Hinv _ _ El) as [E|R].
      * rewrite E. rewrite E in He. apply t_step. exact He.
      * apply (t_trans _ _ _ (wf_name f)); [exact R | apply t_step; exact He].
  - destruct (nmem (snd (snd sp)) (cy_visited st')); [apply no_new_refl|].
    destruct (fragw W (snd (snd sp))) as [sf|] eqn:Ef; [|apply no_new_refl].
    destruct (fragw_some _ _ Ef) as [Hsf Hname].
    apply IH; [exact Hsf|]. rewrite Hname.
    intros n i [Hin|Hin].
    + inversion Hin; subst. right. apply t_step. exact He.
    + destruct (Hinv n i Hin) as [E|R].
      * subst n. right. apply t_step. exact He.
      * right. apply (t_trans _ _ _ (wf_name f)); [exact R | apply t_step; exact He].
Qed.

Theorem no_fragment_cycles_sound :
  rule_no_fragment_cycles W <> [] -> Violates_no_fragment_cycles.
Proof.
  unfold rule_no_fragment_cycles. intro H.
  assert (G : no_new {| cy_visited := []; cy_errs := [] |}
                (fold_left (fun st f => if nmem (wf_name f) (cy_visited st) then st
                                        else detect W (Datatypes.S (List.length (w_frags W))) f [] [] st)
                           (w_frags W) {| cy_visited := []; cy_errs := [] |})).
  { apply fold_no_new. intros st f Hf. destruct (nmem (wf_name f) (cy_visited st)); [apply no_new_refl|].
    apply detect_sound; [exact Hf | intros n i []]. }
  destruct G as [G|G]; [exact G|]. exfalso. apply H. rewrite G. reflexivity.
Qed.

End Cycles.
