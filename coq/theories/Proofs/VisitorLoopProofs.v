(* C14 -- the iterative loop of Visit produces exactly the recursive walk.
   Route (design-notes/probes/visitor_machine_is_walk.v, extended to the real state):
   every reachable loop state is the concretisation `conc` of an abstract stack of frames
   (a zipper into the tree); the meaning of an abstract stack is its continuation `kont`
   (the trace still to be produced); one loop iteration is one `seq` law.  Key, parent, path
   and ancestors are functions of the frames (`inner`), consistent along the stack (`wf`).
   The same step lemma carries a decreasing measure, which gives termination. *)
From Coq Require Import List NArith Bool Arith Lia.
From GQL Require Import Visitor.VisitorTree Visitor.VisitorWalk Visitor.VisitorLoop
     Proofs.VisitorWalkProofs.
Import ListNotations.

Lemma pop_snoc {A} (l : list A) x : pop (l ++ [x]) = (Some x, l).
Proof. unfold pop. rewrite rev_app_distr. cbn. rewrite rev_involutive. reflexivity. Qed.

(* the five position variables of the loop while some container is the current one *)
Record cctx := mkC {
  c_path : list pkey; c_parent : option gnode; c_pslice : list gnode;
  c_ancs : list (option gnode); c_ancsl : list (list gnode) }.
Definition c_root : cctx := mkC [] None [] [] [].

(* a container being traversed: the node / list, the position of the container that holds
   it, the key under which it sits there, and how many of its keys are consumed *)
Inductive aframe :=
| ANode (n : gnode) (own : cctx) (key : option pkey) (done : nat)
| AList (l : list gnode) (own : cctx) (key : option pkey) (done : nat).

Inductive astate := AInit | ASkipped | ARun (fs : list aframe).

Definition proj (c : cctx) : wctx :=
  mkWctx (c_path c) (option_map g_id (c_parent c)) (map (option_map g_id) (c_ancs c)).

Section Sim.
Variable keys_of : N -> list N.
Variable sel : N -> phase -> option N.
Variable pol : N -> phase -> action.
Variable root : gnode.

Notation walk := (walk keys_of sel pol).
Notation wkeys := (wkeys keys_of sel pol).
Notation wlist := (wlist keys_of sel pol).
Notation wslot := (wslot keys_of sel pol).
Notation step := (step keys_of sel pol).
Notation run := (run keys_of sel pol).
Notation nsteps := (nsteps keys_of).
Notation ksteps := (ksteps keys_of).
Notation lsteps := (lsteps keys_of).
Notation sstep := (sstep keys_of).

Definition fr_parent f := match f with ANode n _ _ _ => Some n | AList _ _ _ _ => None end.
Definition fr_slice f := match f with ANode _ _ _ _ => [] | AList l _ _ _ => l end.
Definition fr_keys f := match f with ANode n _ _ _ => KFields (keys_of (g_kind n)) | AList l _ _ _ => KNodes l end.
Definition fr_inSlice f := match f with ANode _ _ _ _ => false | AList _ _ _ _ => true end.
Definition fr_done f := match f with ANode _ _ _ d => d | AList _ _ _ d => d end.
Definition fr_own f := match f with ANode _ o _ _ => o | AList _ o _ _ => o end.
Definition fr_key f := match f with ANode _ _ k _ => k | AList _ _ k _ => k end.
Definition bump f := match f with ANode n o k d => ANode n o k (S d) | AList l o k d => AList l o k (S d) end.

Definition inner (f : aframe) : cctx :=
  mkC (c_path (fr_own f) ++ optl (fr_key f)) (fr_parent f) (fr_slice f)
      (c_ancs (fr_own f) ++ [c_parent (fr_own f)]) (c_ancsl (fr_own f) ++ [c_pslice (fr_own f)]).

Definition saved (f : aframe) : sframe := mkFrame (fr_done f) (fr_keys f) [] (fr_inSlice f).
Definition root_saved : sframe := mkFrame 0 (KNodes [root]) [] false.

Definition conc (a : astate) : vstate :=
  match a with
  | AInit => init_state root
  | ASkipped => mkState [] None [] false false (KNodes [root]) 1 [] [] [] [] false
  | ARun [] => init_state root
  | ARun (f :: below) =>
    mkState (map saved below ++ [root_saved]) (fr_parent f) (fr_slice f) (fr_inSlice f) false
            (fr_keys f) (fr_done f) [] (c_path (inner f)) (c_ancs (inner f)) (c_ancsl (inner f)) false
  end.

Definition is_root_frame (f : aframe) : Prop := exists n d, f = ANode n c_root None d.

Fixpoint wf_frames (fs : list aframe) : Prop :=
  match fs with
  | [] => False
  | f :: below =>
    match below with
    | [] => is_root_frame f
    | g :: _ => fr_own f = inner g /\ fr_key f <> None
                /\ fr_done g < keys_len (fr_keys g) /\ wf_frames below
    end
  end.

Definition wf (a : astate) : Prop :=
  match a with
  | AInit | ASkipped => True
  | ARun [] => False
  | ARun (f :: below) => wf_frames (f :: below) /\ fr_done f <= keys_len (fr_keys f)
  end.

(* what a frame still produces from its remaining keys, and after them *)
Definition kont_top (f : aframe) : tr :=
  match f with
  | ANode n _ _ d => wkeys (proj (inner f)) (g_slots n) (skipn d (keys_of (g_kind n)))
  | AList l _ _ d => wlist (proj (inner f)) d (skipn d l)
  end.
Definition after (f : aframe) : tr :=
  match f with
  | ANode n own key _ => leave_tr sel pol (proj own) key n
  | AList _ _ _ _ => nil_tr
  end.
Fixpoint kont_below (fs : list aframe) : tr :=
  match fs with
  | [] => nil_tr
  | g :: r => seq (kont_top (bump g)) (seq (after g) (kont_below r))
  end.
Definition kont (a : astate) : tr :=
  match a with
  | AInit => walk w_root None root
  | ASkipped => nil_tr
  | ARun [] => nil_tr
  | ARun (f :: below) => seq (kont_top f) (seq (after f) (kont_below below))
  end.

(* iterations still needed (upper bound) *)
Definition mtop (f : aframe) : nat :=
  match f with
  | ANode n _ _ d => S (ksteps (g_slots n) (skipn d (keys_of (g_kind n))))
  | AList l _ _ d => S (lsteps (skipn d l))
  end.
Fixpoint mbelow (fs : list aframe) : nat :=
  match fs with [] => 0 | g :: r => mtop (bump g) + mbelow r end.
Definition msr (a : astate) : nat :=
  match a with
  | AInit => nsteps root
  | ASkipped => 1
  | ARun [] => 0
  | ARun (f :: below) => mtop f + mbelow below
  end.

Definition sim_ok (k : tr) (m : nat) (o : outcome) : Prop :=
  match o with
  | Next st' evs => exists a', st' = conc a' /\ wf a' /\ k = seq (evs, false) (kont a') /\ msr a' < m
  | Stop st' evs => fst k = evs /\ v_edits st' = [] /\ v_rebuilt st' = false
  end.

(* ---- small facts ---- *)
Lemma inner_bump f : inner (bump f) = inner f.
Proof. destruct f; reflexivity. Qed.

Lemma proj_inner f :
  proj (inner f) = w_inner (proj (fr_own f)) (fr_key f) (option_map g_id (fr_parent f)).
Proof. unfold proj, inner, w_inner. cbn. rewrite map_app. reflexivity. Qed.

Lemma wf_frames_bump f below : wf_frames (f :: below) -> wf_frames (bump f :: below).
Proof.
  cbn [wf_frames]. destruct below as [|g r].
  - intros (n & d & ->). exists n, (S d). reflexivity.
  - destruct f; cbn; tauto.
Qed.

Lemma wf_key_none f below : wf_frames (f :: below) -> fr_key f = None -> c_path (fr_own f) = [].
Proof.
  cbn [wf_frames]. destruct below as [|g r].
  - intros (n & d & ->) _. reflexivity.
  - intros (_ & H & _) E. contradiction.
Qed.

Lemma pop_path own (key : option pkey) :
  (key = None -> c_path own = []) -> pop (c_path own ++ optl key) = (key, c_path own).
Proof.
  destruct key as [k|]; cbn [optl]; intros H.
  - apply pop_snoc.
  - rewrite app_nil_r, (H eq_refl). reflexivity.
Qed.

Lemma nsteps_ge2 n : 2 <= nsteps n.
Proof. rewrite nsteps_unfold. lia. Qed.

Lemma ev_enter fn ch k f :
  ev_of PEnter fn ch (Some k) (fr_parent f) (c_path (inner f) ++ [k]) (c_ancs (inner f))
  = mk_event PEnter (proj (inner f)) (Some k) ch fn.
Proof. reflexivity. Qed.

Lemma skipn_nth {A} (l : list A) d x : nth_error l d = Some x -> skipn d l = x :: skipn (S d) l.
Proof.
  revert d; induction l as [|y l IH]; intros [|d] H; cbn in *; try discriminate.
  - inversion H; reflexivity.
  - apply IH; exact H.
Qed.

Lemma nth_lt {A} (l : list A) d : d < length l -> exists x, nth_error l d = Some x.
Proof.
  intros H. destruct (nth_error l d) eqn:E; [eauto|]. apply nth_error_None in E. lia.
Qed.

(* ---- entering a child node from the top frame ---- *)
Lemma enter_child f below k ch :
  wf_frames (f :: below) -> fr_done f < keys_len (fr_keys f) ->
  sim_ok (seq (walk (proj (inner f)) (Some k) ch) (kont_below (f :: below)))
         (nsteps ch + mbelow (f :: below))
         (enter_node keys_of sel pol (conc (ARun (f :: below))) (fr_done f) (Some k) (Some ch) []
                     (c_path (inner f) ++ [k])).
Proof.
  intros Hwf Hd.
  assert (Hpush : push_state keys_of (conc (ARun (f :: below))) (fr_done f) (Some ch) [] (c_path (inner f) ++ [k])
                  = conc (ARun (ANode ch (inner f) (Some k) 0 :: f :: below))) by reflexivity.
  assert (Hwf' : wf (ARun (ANode ch (inner f) (Some k) 0 :: f :: below))).
  { split; [|cbn; lia]. cbn [wf_frames]. repeat split; try assumption. discriminate. }
  assert (Hm : msr (ARun (ANode ch (inner f) (Some k) 0 :: f :: below)) < nsteps ch + mbelow (f :: below)).
  { cbn [msr mtop skipn]. rewrite (nsteps_unfold keys_of ch). lia. }
  assert (Hk : forall e, seq (seq (e, false) (seq (wkeys (w_inner (proj (inner f)) (Some k) (Some (g_id ch))) (g_slots ch) (keys_of (g_kind ch)))
                               (leave_tr sel pol (proj (inner f)) (Some k) ch))) (kont_below (f :: below))
                   = seq (e, false) (kont (ARun (ANode ch (inner f) (Some k) 0 :: f :: below)))).
  { intros e. cbn [kont kont_top after skipn]. rewrite (proj_inner (ANode ch (inner f) (Some k) 0)). cbn [fr_own fr_key fr_parent option_map].
    rewrite !seq_assoc. reflexivity. }
  unfold enter_node. rewrite walk_unfold. unfold act, emit.
  destruct (sel (g_kind ch) PEnter) as [fn|] eqn:Es.
  - change (v_parent (conc (ARun (f :: below)))) with (fr_parent f).
    change (v_ancestors (conc (ARun (f :: below)))) with (c_ancs (inner f)).
    rewrite ev_enter.
    destruct (pol (g_id ch) PEnter) eqn:Ep; cbn [sim_ok].
    + rewrite Hpush. eexists; split; [reflexivity|]. split; [exact Hwf'|]. split; [apply Hk | exact Hm].
    + exists (ARun (bump f :: below)). split.
      * rewrite pop_snoc. destruct f; reflexivity.
      * split; [split; [apply wf_frames_bump; exact Hwf | destruct f; cbn in *; lia]|].
        split; [destruct f; reflexivity|].
        cbn [msr mbelow]. pose proof (nsteps_ge2 ch). lia.
    + split; [reflexivity|]. split; reflexivity.
  - cbn [sim_ok]. rewrite Hpush. eexists; split; [reflexivity|]. split; [exact Hwf'|]. split; [apply Hk | exact Hm].
Qed.

Lemma after_bump f : after (bump f) = after f.
Proof. destruct f; reflexivity. Qed.

Lemma kont_bump f below : kont (ARun (bump f :: below)) = kont_below (f :: below).
Proof. cbn [kont kont_below]. rewrite after_bump. reflexivity. Qed.

Lemma wf_bump f below :
  wf_frames (f :: below) -> fr_done f < keys_len (fr_keys f) -> wf (ARun (bump f :: below)).
Proof.
  intros H Hd. split; [apply wf_frames_bump; exact H|]. destruct f; cbn in *; lia.
Qed.

Lemma conc_bump f below :
  set_next (conc (ARun (f :: below))) (S (fr_done f)) = conc (ARun (bump f :: below)).
Proof. destruct f; reflexivity. Qed.

Lemma kont_top_done f : fr_done f = keys_len (fr_keys f) -> kont_top f = nil_tr.
Proof. destruct f; cbn; intros ->; rewrite skipn_all; reflexivity. Qed.

Lemma mtop_done f : fr_done f = keys_len (fr_keys f) -> mtop f = 1.
Proof. destruct f; cbn; intros ->; rewrite skipn_all; reflexivity. Qed.

(* ---- a leaving iteration ---- *)
Lemma step_leave_sim f below :
  wf (ARun (f :: below)) -> fr_done f = keys_len (fr_keys f) ->
  sim_ok (kont (ARun (f :: below))) (msr (ARun (f :: below)))
         (step_leave sel pol (conc (ARun (f :: below)))).
Proof.
  intros [Hwf _] Hd.
  cbn [kont msr]. rewrite (kont_top_done f Hd), seq_nil_l, (mtop_done f Hd).
  unfold step_leave.
  cbn [conc v_stack v_path v_ancestors v_ancestorsSlice v_edits v_parent v_parentSlice
       v_inSlice v_prevInSlice v_rebuilt inner c_path c_ancs c_ancsl].
  rewrite (pop_path (fr_own f) (fr_key f) (wf_key_none f below Hwf)), !pop_snoc.
  cbn [is_nil negb join orl orb].
  destruct below as [|g r].
  - (* the root frame *)
    destruct Hwf as (n & d & ->). cbn [map app fr_parent fr_own fr_key after kont_below].
    rewrite seq_nil_r. unfold leave_tr, act, emit.
    destruct (sel (g_kind n) PLeave) as [fn|]; cbn [sim_ok].
    + destruct (pol (g_id n) PLeave); cbn; repeat split; reflexivity.
    + cbn; repeat split; reflexivity.
  - cbn [wf_frames] in Hwf. destruct Hwf as (Hown & Hkey & Hdg & Hwfg).
    cbn [map app]. rewrite Hown.
    assert (Hst : mkState (map saved r ++ [root_saved]) (c_parent (inner g)) (c_pslice (inner g))
                          (s_inSlice (saved g)) false (s_keys (saved g)) (S (s_index (saved g)))
                          (s_edits (saved g)) (c_path (inner g)) (c_ancs (inner g)) (c_ancsl (inner g)) false
                  = conc (ARun (bump g :: r))) by (destruct g; reflexivity).
    rewrite Hst. clear Hst.
    assert (Hnn : is_nil (v_stack (conc (ARun (bump g :: r)))) = false).
    { cbn. destruct (map saved r); reflexivity. }
    assert (Hw : wf (ARun (bump g :: r))) by (apply wf_bump; assumption).
    assert (Hm : msr (ARun (bump g :: r)) < 1 + mbelow (g :: r)) by (cbn [msr mbelow]; lia).
    destruct f as [n own key d|l own key d]; cbn [fr_parent after fr_key fr_own] in *.
    + subst own. unfold leave_tr, act, emit.
      destruct (sel (g_kind n) PLeave) as [fn|]; cbn [sim_ok].
      * destruct (pol (g_id n) PLeave); rewrite ?Hnn; cbn [sim_ok].
        -- eexists; split; [reflexivity|]. split; [exact Hw|]. split; [rewrite kont_bump; reflexivity|exact Hm].
        -- eexists; split; [reflexivity|]. split; [exact Hw|]. split; [rewrite kont_bump; reflexivity|exact Hm].
        -- repeat split; reflexivity.
      * rewrite Hnn. eexists; split; [reflexivity|]. split; [exact Hw|]. split; [rewrite kont_bump; reflexivity|exact Hm].
    + rewrite Hnn. cbn [sim_ok]. eexists; split; [reflexivity|]. split; [exact Hw|].
      split; [rewrite kont_bump, seq_nil_l, seq_empty; reflexivity|exact Hm].
Qed.

(* ---- an entering iteration ---- *)
Lemma step_enter_sim f below :
  wf (ARun (f :: below)) -> fr_done f < keys_len (fr_keys f) ->
  sim_ok (kont (ARun (f :: below))) (msr (ARun (f :: below)))
         (step_enter keys_of sel pol root (conc (ARun (f :: below))) (fr_done f)).
Proof.
  intros [Hwf _] Hd.
  destruct f as [n own key d|l own key d].
  - (* inside a node: the next key names a field *)
    cbn [fr_done fr_keys keys_len] in Hd.
    destruct (nth_lt _ _ Hd) as [k Hk].
    assert (HK : kont (ARun (ANode n own key d :: below))
                 = seq (wslot (proj (inner (ANode n own key d))) k (find_slot k (g_slots n)))
                       (kont_below (ANode n own key d :: below))).
    { cbn [kont kont_top kont_below bump after]. rewrite (skipn_nth _ _ _ Hk). cbn [VisitorWalk.wkeys].
      rewrite seq_assoc. reflexivity. }
    assert (HM : msr (ARun (ANode n own key d :: below))
                 = sstep (find_slot k (g_slots n)) + mbelow (ANode n own key d :: below)).
    { cbn [msr mtop mbelow bump]. rewrite (skipn_nth _ _ _ Hk). cbn [VisitorLoop.ksteps]. lia. }
    rewrite HK, HM. clear HK HM.
    unfold step_enter.
    cbn [conc v_inSlice v_parent v_keys v_parentSlice v_path fr_inSlice fr_parent fr_keys fr_done key_at].
    rewrite Hk. cbn [option_map field_value].
    destruct (find_slot k (g_slots n)) as [[nm [ch|]|nm [|c0 l]]|] eqn:Ef;
      cbn [is_some is_nil negb andb orb wslot sstep optl].
    + (* a child node *)
      apply (enter_child (ANode n own key d) below (KName k) ch Hwf Hd).
    + rewrite seq_nil_l. cbn [sim_ok].
      exists (ARun (bump (ANode n own key d) :: below)). split; [reflexivity|]. split; [apply wf_bump; assumption|].
      split; [rewrite kont_bump, seq_empty; reflexivity| cbn [msr mbelow]; lia].
    + rewrite seq_nil_l. cbn [sim_ok].
      exists (ARun (bump (ANode n own key d) :: below)). split; [reflexivity|]. split; [apply wf_bump; assumption|].
      split; [rewrite kont_bump, seq_empty; reflexivity| cbn [msr mbelow]; lia].
    + (* a non-empty list of children *)
      unfold enter_node. cbn [sim_ok].
      exists (ARun (AList (c0 :: l) (inner (ANode n own key d)) (Some (KName k)) 0 :: ANode n own key d :: below)).
      split; [reflexivity|]. split.
      { split; [|cbn; lia]. cbn [wf_frames]. repeat split; try assumption. discriminate. }
      split.
      { cbn [kont kont_top after skipn]. rewrite (proj_inner (AList _ _ _ _)).
        cbn [fr_own fr_key fr_parent option_map]. rewrite seq_nil_l, seq_empty. reflexivity. }
      { cbn [msr mtop skipn]. lia. }
    + rewrite seq_nil_l. cbn [sim_ok].
      exists (ARun (bump (ANode n own key d) :: below)). split; [reflexivity|]. split; [apply wf_bump; assumption|].
      split; [rewrite kont_bump, seq_empty; reflexivity| cbn [msr mbelow]; lia].
  - (* inside a list: the next key is an index *)
    cbn [fr_done fr_keys keys_len] in Hd.
    destruct (nth_lt _ _ Hd) as [ch Hk].
    assert (HK : kont (ARun (AList l own key d :: below))
                 = seq (walk (proj (inner (AList l own key d))) (Some (KIdx (N.of_nat d))) ch)
                       (kont_below (AList l own key d :: below))).
    { cbn [kont kont_top kont_below bump after]. rewrite (skipn_nth _ _ _ Hk). cbn [VisitorWalk.wlist].
      rewrite seq_assoc. reflexivity. }
    assert (HM : msr (ARun (AList l own key d :: below))
                 = nsteps ch + mbelow (AList l own key d :: below)).
    { cbn [msr mtop mbelow bump]. rewrite (skipn_nth _ _ _ Hk). cbn [VisitorLoop.lsteps]. lia. }
    rewrite HK, HM. clear HK HM.
    unfold step_enter.
    cbn [conc v_inSlice v_parent v_keys v_parentSlice v_path fr_inSlice fr_parent fr_keys fr_done fr_slice].
    destruct l as [|c0 l']; [cbn in Hd; lia|].
    cbn [slice_value]. rewrite Nat2N.id, Hk.
    cbn [is_some is_nil negb andb orb optl].
    apply (enter_child (AList (c0 :: l') own key d) below (KIdx (N.of_nat d)) ch Hwf Hd).
Qed.

(* ---- every iteration ---- *)
Lemma step_sim a : wf a -> sim_ok (kont a) (msr a) (step root (conc a)).
Proof.
  destruct a as [| |[|f below]]; intros Hwf.
  - (* the first iteration: the root *)
    unfold VisitorLoop.step, step_enter, enter_node. cbn [conc init_state v_keys v_next keys_len length Nat.eqb
      v_inSlice v_parent v_parentSlice v_path v_ancestors is_some is_nil negb andb orb].
    cbn [kont msr]. rewrite walk_unfold. unfold act, emit.
    assert (Hk : forall e,
      seq (e, false) (seq (wkeys (w_inner w_root None (Some (g_id root))) (g_slots root) (keys_of (g_kind root)))
                          (leave_tr sel pol w_root None root))
      = seq (e, false) (kont (ARun [ANode root c_root None 0]))).
    { intros e. cbn [kont kont_top after skipn kont_below]. rewrite (proj_inner (ANode _ _ _ _)), seq_nil_r.
      reflexivity. }
    assert (Hw : wf (ARun [ANode root c_root None 0])).
    { split; [exists root, 0; reflexivity | cbn; lia]. }
    assert (Hm : msr (ARun [ANode root c_root None 0]) < nsteps root).
    { cbn [msr mtop mbelow skipn]. rewrite (nsteps_unfold keys_of root). lia. }
    destruct (sel (g_kind root) PEnter) as [fn|]; cbn [sim_ok].
    + destruct (pol (g_id root) PEnter); cbn [sim_ok].
      * exists (ARun [ANode root c_root None 0]). split; [reflexivity|]. split; [exact Hw|].
        split; [apply Hk | exact Hm].
      * exists ASkipped. split; [reflexivity|]. split; [exact I|]. split; [reflexivity|].
        cbn [msr]. pose proof (nsteps_ge2 root). lia.
      * repeat split; reflexivity.
    + exists (ARun [ANode root c_root None 0]). split; [reflexivity|]. split; [exact Hw|].
      split; [apply Hk | exact Hm].
  - (* the root was skipped *)
    cbn. repeat split; reflexivity.
  - destruct Hwf.
  - unfold VisitorLoop.step.
    change (v_next (conc (ARun (f :: below)))) with (fr_done f).
    change (v_keys (conc (ARun (f :: below)))) with (fr_keys f).
    destruct Hwf as [Hwf Hd].
    destruct (Nat.eqb_spec (keys_len (fr_keys f)) (fr_done f)) as [E|E].
    + apply step_leave_sim; [split; assumption | symmetry; exact E].
    + apply step_enter_sim; [split; assumption | lia].
Qed.

(* ---- the loop ---- *)
Theorem run_is_kont : forall fuel a acc evs rp rb,
  wf a -> run fuel root (conc a) acc = Done evs rp rb ->
  evs = rev acc ++ fst (kont a) /\ rp = false /\ rb = false.
Proof.
  induction fuel as [|fuel IH]; intros a acc evs rp rb Hwf H; [discriminate|].
  cbn [VisitorLoop.run] in H. pose proof (step_sim a Hwf) as S.
  destruct (step root (conc a)) as [st' es|st' es]; cbn [sim_ok] in S.
  - destruct S as (a' & -> & Hwf' & Hk & _).
    destruct (IH _ _ _ _ _ Hwf' H) as (-> & -> & ->).
    rewrite Hk, fst_seq_cont, rev_app_distr, rev_involutive, app_assoc. auto.
  - destruct S as (Hk & He & Hr). inversion H; subst.
    rewrite He, Hr, rev_app_distr, rev_involutive. auto.
Qed.

Theorem run_terminates : forall fuel a acc,
  wf a -> msr a <= fuel ->
  run fuel root (conc a) acc = Done (rev acc ++ fst (kont a)) false false.
Proof.
  induction fuel as [|fuel IH]; intros a acc Hwf Hm.
  - exfalso. pose proof (step_sim a Hwf) as S.
    destruct (step root (conc a)); cbn [sim_ok] in S.
    + destruct S as (a' & _ & _ & _ & Hlt). lia.
    + destruct a as [| |[|f below]]; cbn [msr] in Hm.
      * pose proof (nsteps_ge2 root). lia.
      * lia.
      * destruct Hwf.
      * destruct f; cbn in Hm; lia.
  - cbn [VisitorLoop.run]. pose proof (step_sim a Hwf) as S.
    destruct (step root (conc a)) as [st' es|st' es]; cbn [sim_ok] in S.
    + destruct S as (a' & -> & Hwf' & Hk & Hlt).
      rewrite (IH a' (rev es ++ acc) Hwf' ltac:(lia)).
      rewrite Hk, fst_seq_cont, rev_app_distr, rev_involutive, app_assoc. reflexivity.
    + destruct S as (Hk & He & Hr). rewrite He, Hr, Hk, rev_app_distr, rev_involutive. reflexivity.
Qed.

Theorem visit_loop_is_walk : forall fuel evs rp rb,
  visit_loop keys_of sel pol fuel root = Done evs rp rb ->
  evs = walk_events keys_of sel pol root /\ rp = false /\ rb = false.
Proof.
  intros fuel evs rp rb H. apply (run_is_kont fuel AInit [] evs rp rb I) in H. exact H.
Qed.

Theorem visit_loop_terminates : forall fuel,
  loop_fuel keys_of root <= fuel ->
  visit_loop keys_of sel pol fuel root = Done (walk_events keys_of sel pol root) false false.
Proof.
  intros fuel H. exact (run_terminates fuel AInit [] I H).
Qed.

End Sim.
