(* Facts about the error-position recogniser (SynErr/ParseErr.v) that follow from
   its combinators:

   WB f     what f returns -- the rest after success, the rest at the point of
            failure -- is a suffix of its input, and f's verdict depends only on the
            tokens it consumed and the ONE token it was looking at when it stopped
            (one-token lookahead): replacing everything after that token leaves the
            verdict and the consumed part unchanged.
   f [= g   g decides like f wherever f does not run out of fuel (used for: more
            fuel never changes a verdict). *)
From Coq Require Import String List NArith Bool Lia.
From GQL Require Import Base.Bytes Syntax.Lexer Syntax.Parser SynErr.LexErr SynErr.ParseErr.
Import ListNotations.

Definition hd_eq (a b : list token) : Prop := hd_error a = hd_error b.

Lemma hd_eq_refl : forall a, hd_eq a a.
Proof. reflexivity. Qed.
Lemma hd_eq_app : forall u r r2, hd_eq r r2 -> hd_eq (u ++ r) (u ++ r2).
Proof. intros [|t u] r r2 H; [exact H|reflexivity]. Qed.
Lemma hd_eq_app_ne : forall u r r2, u <> [] -> hd_eq (u ++ r) (u ++ r2).
Proof. intros [|t u] r r2 H; [contradiction|reflexivity]. Qed.
Lemma hd_eq_nil : forall r, hd_eq [] r -> r = [].
Proof. intros [|t r] H; [reflexivity|discriminate H]. Qed.
Lemma hd_eq_cons : forall t r r2, hd_eq (t :: r) r2 -> exists r2', r2 = t :: r2'.
Proof. intros t r [|t2 r2] H; [discriminate H|]. inversion H; subst. eauto. Qed.

Lemma app_eq_self : forall (u r : list token), u ++ r = r -> u = [].
Proof. intros u r H. apply (app_inv_tail r u []). exact H. Qed.

Record WB (f : R) : Prop := mkWB {
  wb_ok : forall ts r, f ts = OkE r -> exists u, ts = u ++ r;
  wb_err : forall ts r, f ts = ErrE r -> exists u, ts = u ++ r;
  wb_lok : forall u r r2, f (u ++ r) = OkE r -> hd_eq r r2 -> f (u ++ r2) = OkE r2;
  wb_lerr : forall u r r2, f (u ++ r) = ErrE r -> hd_eq r r2 -> f (u ++ r2) = ErrE r2 }.

Lemma WB_okE : WB okE.
Proof.
  split; unfold okE.
  - intros ts r H; inversion H; subst. exists []; reflexivity.
  - intros ts r H; discriminate H.
  - intros u r r2 H _. inversion H as [H1]. apply app_eq_self in H1. subst u. reflexivity.
  - intros u r r2 H; discriminate H.
Qed.

Lemma WB_failE : WB failE.
Proof.
  split; unfold failE.
  - intros ts r H; discriminate H.
  - intros ts r H; inversion H; subst. exists []; reflexivity.
  - intros u r r2 H; discriminate H.
  - intros u r r2 H _. inversion H as [H1]. apply app_eq_self in H1. subst u. reflexivity.
Qed.

Lemma WB_fuelE : WB fuelE.
Proof. split; unfold fuelE; intros; discriminate. Qed.

Lemma WB_tokE : forall p, WB (tokE p).
Proof.
  intro p. split; unfold tokE.
  - intros [|t ts] r H; [discriminate H|]. destruct (p t); [|discriminate H].
    inversion H; subst. exists [t]; reflexivity.
  - intros [|t ts] r H.
    + inversion H; subst. exists []; reflexivity.
    + destruct (p t); [discriminate H|]. inversion H; subst. exists []; reflexivity.
  - intros u r r2 H _. destruct (u ++ r) as [|t ts] eqn:E; [discriminate H|].
    destruct (p t) eqn:P; [|discriminate H]. inversion H; subst ts.
    assert (U : u = [t]). { apply (app_inv_tail r). exact E. }
    subst u. cbn [app]. rewrite P. reflexivity.
  - intros u r r2 H Hd. destruct (u ++ r) as [|t ts] eqn:E.
    + inversion H; subst r. destruct u; [|discriminate E]. apply hd_eq_nil in Hd. subst r2. reflexivity.
    + destruct (p t) eqn:P; [discriminate H|]. inversion H as [H1]. rewrite <- E in H1.
      apply app_eq_self in H1. subst u. cbn [app] in *. subst r.
      apply hd_eq_cons in Hd. destruct Hd as [r2' ->]. rewrite P. reflexivity.
Qed.

Lemma WB_endE : WB endE.
Proof.
  split; unfold endE.
  - intros [|t ts] r H; [|discriminate H]. inversion H; subst. exists []; reflexivity.
  - intros [|t ts] r H; [discriminate H|]. inversion H; subst. exists []; reflexivity.
  - intros u r r2 H Hd. destruct (u ++ r) as [|t ts] eqn:E; [|discriminate H].
    inversion H; subst r. destruct u; [|discriminate E]. apply hd_eq_nil in Hd. subst r2. reflexivity.
  - intros u r r2 H Hd. destruct (u ++ r) as [|t ts] eqn:E; [discriminate H|].
    inversion H as [H1]. rewrite <- E in H1. apply app_eq_self in H1. subst u. cbn [app] in *. subst r.
    apply hd_eq_cons in Hd. destruct Hd as [r2' ->]. reflexivity.
Qed.

Lemma WB_seqE : forall f g, WB f -> WB g -> WB (f ;;; g).
Proof.
  intros f g Wf Wg. split; unfold seqE.
  - intros ts r H. destruct (f ts) as [m|a|] eqn:Ef; try discriminate H.
    destruct (wb_ok _ Wf _ _ Ef) as [u1 ->]. destruct (wb_ok _ Wg _ _ H) as [u2 ->].
    exists (u1 ++ u2). apply app_assoc.
  - intros ts r H. destruct (f ts) as [m|a|] eqn:Ef; try discriminate H.
    + destruct (wb_ok _ Wf _ _ Ef) as [u1 ->]. destruct (wb_err _ Wg _ _ H) as [u2 ->].
      exists (u1 ++ u2). apply app_assoc.
    + inversion H; subst. exact (wb_err _ Wf _ _ Ef).
  - intros u r r2 H Hd. destruct (f (u ++ r)) as [m|a|] eqn:Ef; try discriminate H.
    destruct (wb_ok _ Wg _ _ H) as [u2 ->]. destruct (wb_ok _ Wf _ _ Ef) as [u1 E].
    rewrite app_assoc in E. apply app_inv_tail in E. subst u.
    rewrite <- app_assoc in Ef. rewrite <- app_assoc.
    rewrite (wb_lok _ Wf u1 (u2 ++ r) (u2 ++ r2) Ef (hd_eq_app _ _ _ Hd)).
    exact (wb_lok _ Wg u2 r r2 H Hd).
  - intros u r r2 H Hd. destruct (f (u ++ r)) as [m|a|] eqn:Ef; try discriminate H.
    + destruct (wb_err _ Wg _ _ H) as [u2 ->]. destruct (wb_ok _ Wf _ _ Ef) as [u1 E].
      rewrite app_assoc in E. apply app_inv_tail in E. subst u.
      rewrite <- app_assoc in Ef. rewrite <- app_assoc.
      rewrite (wb_lok _ Wf u1 (u2 ++ r) (u2 ++ r2) Ef (hd_eq_app _ _ _ Hd)).
      exact (wb_lerr _ Wg u2 r r2 H Hd).
    + inversion H; subst a. rewrite (wb_lerr _ Wf u r r2 Ef Hd). reflexivity.
Qed.

Lemma WB_caseE : forall sel, (forall o, WB (sel o)) -> WB (caseE sel).
Proof.
  intros sel W. split; unfold caseE.
  - intros ts r H. exact (wb_ok _ (W _) _ _ H).
  - intros ts r H. exact (wb_err _ (W _) _ _ H).
  - intros u r r2 H Hd. rewrite <- (hd_eq_app u r r2 Hd). exact (wb_lok _ (W _) u r r2 H Hd).
  - intros u r r2 H Hd. rewrite <- (hd_eq_app u r r2 Hd). exact (wb_lerr _ (W _) u r r2 H Hd).
Qed.

Lemma WB_ifE : forall p f g, WB f -> WB g -> WB (ifE p f g).
Proof. intros p f g Wf Wg. apply WB_caseE. intros [t|]; [destruct (p t)|]; assumption. Qed.

Lemma WB_optE : forall k, WB (optE k).
Proof. intro k. apply WB_ifE; [apply WB_tokE | apply WB_okE]. Qed.

Lemma WB_manyE : forall item close, WB item -> forall fuel, WB (manyE fuel item close).
Proof.
  intros item close Wi. induction fuel as [|f IH]; cbn [manyE]; [apply WB_fuelE|].
  apply WB_ifE; [apply WB_tokE | apply WB_seqE; assumption].
Qed.

Lemma WB_many1E : forall item close, WB item -> forall fuel, WB (many1E fuel item close).
Proof.
  intros item close Wi [|f]; cbn [many1E]; [apply WB_fuelE|].
  apply WB_ifE; [apply WB_failE | apply WB_seqE; [assumption | apply WB_manyE; assumption]].
Qed.

Lemma WB_reverseE : forall fuel open item close ne, WB item -> WB (reverseE fuel open item close ne).
Proof.
  intros fuel open item close ne Wi. unfold reverseE. apply WB_seqE; [apply WB_tokE|].
  destruct ne; [apply WB_many1E | apply WB_manyE]; assumption.
Qed.

Lemma WB_whileE : forall k item, WB item -> forall fuel, WB (whileE fuel k item).
Proof.
  intros k item Wi. induction fuel as [|f IH]; cbn [whileE]; [apply WB_fuelE|].
  apply WB_ifE; [apply WB_seqE; assumption | apply WB_okE].
Qed.

Lemma WB_sep_byE : forall sep item, WB item -> forall fuel, WB (sep_byE fuel sep item).
Proof.
  intros sep item Wi. induction fuel as [|f IH]; cbn [sep_byE]; [apply WB_fuelE|].
  apply WB_seqE; [assumption|]. apply WB_ifE; [apply WB_seqE; [apply WB_tokE | assumption] | apply WB_okE].
Qed.

(* decompose a recogniser built from the combinators *)
Ltac wb :=
  repeat first
    [ assumption
    | apply WB_seqE | apply WB_ifE | apply WB_tokE | apply WB_okE | apply WB_failE | apply WB_fuelE
    | apply WB_endE | apply WB_optE | apply WB_reverseE | apply WB_manyE | apply WB_many1E
    | apply WB_whileE | apply WB_sep_byE ].

Lemma WB_parse_valueE : forall fuel c, WB (parse_valueE fuel c).
Proof.
  induction fuel as [|f IH]; intro c; cbn [parse_valueE]; [apply WB_fuelE|].
  apply WB_caseE. intros [t|]; [|apply WB_failE].
  pose proof (IH c) as IHc.
  destruct (tk t); try apply WB_failE; try apply WB_tokE.
  - destruct c; [apply WB_failE|]. unfold parse_variableE, parse_nameE, expectE. wb.
  - unfold parse_objfieldE, parse_nameE, expectE. wb.
  - wb.
  - repeat match goal with |- WB (if ?b then _ else _) => destruct b end; wb.
Qed.

Lemma WB_parse_typeE : forall fuel, WB (parse_typeE fuel).
Proof.
  induction fuel as [|f IH]; cbn [parse_typeE]; [apply WB_fuelE|].
  apply WB_caseE. intros [t|]; [|apply WB_failE].
  apply WB_seqE; [|apply WB_optE].
  destruct (tk t); try apply WB_failE; unfold parse_nameE, expectE; wb.
Qed.

Lemma WB_parse_argumentsE : forall fuel, WB (parse_argumentsE fuel).
Proof.
  intro fuel. unfold parse_argumentsE, parse_argumentE, parse_nameE, expectE. wb. all: apply WB_parse_valueE.
Qed.

Lemma WB_parse_directivesE : forall fuel, WB (parse_directivesE fuel).
Proof.
  intro fuel. unfold parse_directivesE, parse_directiveE, parse_nameE, expectE. wb. all: first [apply WB_parse_argumentsE | apply WB_parse_valueE].
Qed.

Ltac wb2 :=
  repeat first
    [ assumption
    | apply WB_parse_valueE | apply WB_parse_typeE | apply WB_parse_argumentsE | apply WB_parse_directivesE
    | apply WB_seqE | apply WB_ifE | apply WB_tokE | apply WB_okE | apply WB_failE | apply WB_fuelE
    | apply WB_endE | apply WB_optE | apply WB_reverseE | apply WB_manyE | apply WB_many1E
    | apply WB_whileE | apply WB_sep_byE ].

Lemma WB_parse_selectionE : forall psel fuel, WB psel -> WB (parse_selectionE psel fuel).
Proof.
  intros psel fuel W.
  unfold parse_selectionE, parse_fragmentE, parse_fieldE, parse_fragment_nameE, parse_nameE, expectE. wb2.
Qed.

Lemma WB_parse_selsetE : forall fuel, WB (parse_selsetE fuel).
Proof.
  induction fuel as [|f IH]; cbn [parse_selsetE]; [apply WB_fuelE|].
  apply WB_reverseE. apply WB_parse_selectionE. exact IH.
Qed.

Ltac wb3 :=
  repeat first
    [ assumption
    | apply WB_parse_valueE | apply WB_parse_typeE | apply WB_parse_argumentsE | apply WB_parse_directivesE
    | apply WB_parse_selsetE
    | apply WB_seqE | apply WB_ifE | apply WB_tokE | apply WB_okE | apply WB_failE | apply WB_fuelE
    | apply WB_endE | apply WB_optE | apply WB_reverseE | apply WB_manyE | apply WB_many1E
    | apply WB_whileE | apply WB_sep_byE ].

Ltac unfold_defs :=
  unfold parse_operationE, parse_fragment_definitionE, parse_vardefsE, parse_vardefE, parse_defaultE,
    parse_optypeE, parse_fragment_nameE, parse_schemaE, parse_optypedefE, scalar_bodyE, parse_ivdefE,
    parse_argdefsE, parse_fielddefE, parse_implementsE, objdef_bodyE, interface_bodyE, union_bodyE,
    parse_enumvaldefE, enum_bodyE, input_bodyE, parse_extendE, directive_bodyE, descE,
    parse_nameE, expectE, expect_kwE, anyE.

Lemma WB_parse_operationE : forall fuel, WB (parse_operationE fuel).
Proof. intro fuel. unfold_defs. wb3. Qed.

Lemma WB_tsd_kwE : forall fuel d, WB (tsd_kwE fuel d).
Proof.
  intros fuel d. unfold tsd_kwE. apply WB_caseE. intros [k|]; [|apply WB_failE].
  repeat match goal with |- WB (if ?b then _ else _) => destruct b end; try apply WB_failE;
    cbv zeta; repeat match goal with |- WB (if ?b then _ else _) => destruct b end; try apply WB_failE;
    unfold_defs; wb3.
Qed.

Lemma WB_parse_definitionE : forall fuel, WB (parse_definitionE fuel).
Proof.
  intro fuel. unfold parse_definitionE, parse_tsdE. unfold_defs.
  wb3; try apply WB_tsd_kwE; apply WB_parse_operationE.
Qed.

Theorem WB_parse_documentE : forall fuel, WB (parse_documentE fuel).
Proof.
  intro fuel. unfold parse_documentE. apply WB_seqE; [|apply WB_endE].
  apply WB_many1E. apply WB_parse_definitionE.
Qed.

(* ---- more fuel never changes a verdict ---- *)
Definition refines (f g : R) : Prop := forall ts, f ts <> FuelE -> g ts = f ts.
Infix "[=" := refines (at level 70).

Lemma ref_refl : forall f, f [= f.
Proof. intros f ts _. reflexivity. Qed.

Lemma ref_fuelE : forall g, fuelE [= g.
Proof. intros g ts H. exfalso. apply H. reflexivity. Qed.

Lemma ref_seqE : forall f f' g g', f [= f' -> g [= g' -> (f ;;; g) [= (f' ;;; g').
Proof.
  intros f f' g g' Hf Hg ts H. unfold seqE in *.
  destruct (f ts) as [m|a|] eqn:Ef.
  - rewrite (Hf ts), Ef by (rewrite Ef; discriminate). apply Hg. exact H.
  - rewrite (Hf ts), Ef by (rewrite Ef; discriminate). reflexivity.
  - exfalso. apply H. reflexivity.
Qed.

Lemma ref_caseE : forall sel sel', (forall o, sel o [= sel' o) -> caseE sel [= caseE sel'.
Proof. intros sel sel' H ts Hn. unfold caseE in *. apply H. exact Hn. Qed.

Lemma ref_ifE : forall p f f' g g', f [= f' -> g [= g' -> ifE p f g [= ifE p f' g'.
Proof. intros p f f' g g' Hf Hg. apply ref_caseE. intros [t|]; [destruct (p t)|]; assumption. Qed.

Lemma ref_manyE : forall item item' close, item [= item' ->
  forall n m, (n <= m)%nat -> manyE n item close [= manyE m item' close.
Proof.
  intros item item' close Hi. induction n as [|n IH]; intros m Hm; [apply ref_fuelE|].
  destruct m as [|m]; [lia|]. cbn [manyE].
  apply ref_ifE; [apply ref_refl | apply ref_seqE; [exact Hi | apply IH; lia]].
Qed.

Lemma ref_many1E : forall item item' close, item [= item' ->
  forall n m, (n <= m)%nat -> many1E n item close [= many1E m item' close.
Proof.
  intros item item' close Hi [|n] m Hm; [apply ref_fuelE|].
  destruct m as [|m]; [lia|]. cbn [many1E].
  apply ref_ifE; [apply ref_refl | apply ref_seqE; [exact Hi | apply ref_manyE; [exact Hi | lia]]].
Qed.

Lemma ref_reverseE : forall open item item' close ne, item [= item' ->
  forall n m, (n <= m)%nat -> reverseE n open item close ne [= reverseE m open item' close ne.
Proof.
  intros open item item' close ne Hi n m Hm. unfold reverseE. apply ref_seqE; [apply ref_refl|].
  destruct ne; [apply ref_many1E | apply ref_manyE]; assumption.
Qed.

Lemma ref_whileE : forall k item item', item [= item' ->
  forall n m, (n <= m)%nat -> whileE n k item [= whileE m k item'.
Proof.
  intros k item item' Hi. induction n as [|n IH]; intros m Hm; [apply ref_fuelE|].
  destruct m as [|m]; [lia|]. cbn [whileE].
  apply ref_ifE; [apply ref_seqE; [exact Hi | apply IH; lia] | apply ref_refl].
Qed.

Lemma ref_sep_byE : forall sep item item', item [= item' ->
  forall n m, (n <= m)%nat -> sep_byE n sep item [= sep_byE m sep item'.
Proof.
  intros sep item item' Hi. induction n as [|n IH]; intros m Hm; [apply ref_fuelE|].
  destruct m as [|m]; [lia|]. cbn [sep_byE].
  apply ref_seqE; [exact Hi|]. apply ref_ifE; [apply ref_seqE; [apply ref_refl | apply IH; lia] | apply ref_refl].
Qed.

Ltac rf :=
  repeat first
    [ assumption | apply ref_refl
    | apply ref_seqE | apply ref_ifE
    | (apply ref_reverseE; [|lia]) | (apply ref_manyE; [|lia]) | (apply ref_many1E; [|lia])
    | (apply ref_whileE; [|lia]) | (apply ref_sep_byE; [|lia]) ].

Lemma ref_parse_valueE : forall n m c, (n <= m)%nat -> parse_valueE n c [= parse_valueE m c.
Proof.
  induction n as [|n IH]; intros m c Hm; [apply ref_fuelE|].
  destruct m as [|m]; [lia|]. cbn [parse_valueE].
  assert (IHc : parse_valueE n c [= parse_valueE m c) by (apply IH; lia).
  apply ref_caseE. intros [t|]; [|apply ref_refl].
  destruct (tk t); try apply ref_refl; unfold parse_objfieldE; rf.
Qed.

Lemma ref_parse_typeE : forall n m, (n <= m)%nat -> parse_typeE n [= parse_typeE m.
Proof.
  induction n as [|n IH]; intros m Hm; [apply ref_fuelE|].
  destruct m as [|m]; [lia|]. cbn [parse_typeE].
  assert (IH' : parse_typeE n [= parse_typeE m) by (apply IH; lia).
  apply ref_caseE. intros [t|]; [|apply ref_refl].
  destruct (tk t); rf.
Qed.

Lemma ref_parse_argumentsE : forall n m, (n <= m)%nat -> parse_argumentsE n [= parse_argumentsE m.
Proof.
  intros n m Hm. unfold parse_argumentsE, parse_argumentE. rf. apply ref_parse_valueE; lia.
Qed.

Lemma ref_parse_directivesE : forall n m, (n <= m)%nat -> parse_directivesE n [= parse_directivesE m.
Proof.
  intros n m Hm. unfold parse_directivesE, parse_directiveE. rf. all: first [apply ref_parse_argumentsE; lia | apply ref_parse_valueE; lia].
Qed.

Ltac rf2 :=
  repeat first
    [ assumption | apply ref_refl
    | (apply ref_parse_valueE; lia) | (apply ref_parse_typeE; lia)
    | (apply ref_parse_argumentsE; lia) | (apply ref_parse_directivesE; lia)
    | apply ref_seqE | apply ref_ifE
    | (apply ref_reverseE; [|lia]) | (apply ref_manyE; [|lia]) | (apply ref_many1E; [|lia])
    | (apply ref_whileE; [|lia]) | (apply ref_sep_byE; [|lia]) ].

Lemma ref_parse_selectionE : forall psel psel' n m, psel [= psel' -> (n <= m)%nat ->
  parse_selectionE psel n [= parse_selectionE psel' m.
Proof.
  intros psel psel' n m Hp Hm. unfold parse_selectionE, parse_fragmentE, parse_fieldE. rf2.
Qed.

Lemma ref_parse_selsetE : forall n m, (n <= m)%nat -> parse_selsetE n [= parse_selsetE m.
Proof.
  induction n as [|n IH]; intros m Hm; [apply ref_fuelE|].
  destruct m as [|m]; [lia|]. cbn [parse_selsetE].
  apply ref_reverseE; [|lia]. apply ref_parse_selectionE; [apply IH; lia | lia].
Qed.

Ltac rf3 :=
  repeat first
    [ assumption | apply ref_refl
    | (apply ref_parse_valueE; lia) | (apply ref_parse_typeE; lia)
    | (apply ref_parse_argumentsE; lia) | (apply ref_parse_directivesE; lia)
    | (apply ref_parse_selsetE; lia)
    | apply ref_seqE | apply ref_ifE
    | (apply ref_reverseE; [|lia]) | (apply ref_manyE; [|lia]) | (apply ref_many1E; [|lia])
    | (apply ref_whileE; [|lia]) | (apply ref_sep_byE; [|lia]) ].

Ltac unfold_defs2 :=
  unfold parse_operationE, parse_fragment_definitionE, parse_vardefsE, parse_vardefE, parse_defaultE,
    parse_schemaE, scalar_bodyE, parse_ivdefE,
    parse_argdefsE, parse_fielddefE, parse_implementsE, objdef_bodyE, interface_bodyE, union_bodyE,
    parse_enumvaldefE, enum_bodyE, input_bodyE, parse_extendE, directive_bodyE.

Lemma ref_parse_operationE : forall n m, (n <= m)%nat -> parse_operationE n [= parse_operationE m.
Proof. intros n m Hm. unfold_defs2. rf3. Qed.

Lemma ref_tsd_kwE : forall n m d, (n <= m)%nat -> tsd_kwE n d [= tsd_kwE m d.
Proof.
  intros n m d Hm. unfold tsd_kwE. apply ref_caseE. intros [k|]; [|apply ref_refl].
  cbv zeta.
  repeat match goal with |- (if ?b then _ else _) [= (if ?b then _ else _) => destruct b end;
    try apply ref_refl; unfold_defs2; rf3.
Qed.

Lemma ref_parse_definitionE : forall n m, (n <= m)%nat -> parse_definitionE n [= parse_definitionE m.
Proof.
  intros n m Hm. unfold parse_definitionE, parse_tsdE.
  rf3; try (apply ref_tsd_kwE; lia); apply ref_parse_operationE; lia.
Qed.

Theorem ref_parse_documentE : forall n m, (n <= m)%nat -> parse_documentE n [= parse_documentE m.
Proof.
  intros n m Hm. unfold parse_documentE. apply ref_seqE; [|apply ref_refl].
  apply ref_many1E; [|lia]. apply ref_parse_definitionE; lia.
Qed.
