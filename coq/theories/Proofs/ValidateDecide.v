(* The executable overlap algorithm (memoised or not) decides the declarative layers L2 / L1
   on acyclic documents, given fuel_of D. *)
From Coq Require Import List Arith Lia Bool String NArith.
From GQL Require Import Exec.Syntax Validate.Overlap Validate.OverlapSpec Validate.OverlapWf
     Proofs.ValidateOverlap Proofs.ValidateMemo Proofs.ValidateMemoHard
     Proofs.ValidateReflect Proofs.ValidateReflectClose Proofs.ValidateFuel.
Import ListNotations.

Theorem unmemo_decides_L2 : forall S D fuel,
  acyclic S D -> ids_distinct S D -> args_unique S D -> meta_ok S = true -> fuel_of D <= fuel ->
  (run_overlap S D false fuel = [] <-> L2_accepts S D).
Proof.
  intros S D fuel A Hid Hargs Hm Hf. split.
  - intro Hr. destruct A as [rk Hrk].
    apply (exec_decides_L2 S D Hid Hargs Hm rk Hrk fuel Hr).
    apply fuel_sufficient; [exists rk; exact Hrk | exact Hf].
  - intro H. apply L2_accepts_exec. exact H.
Qed.

Theorem exec_decides_L1 : forall S D memo fuel,
  acyclic S D -> ids_distinct S D -> args_unique S D -> meta_ok S = true -> fuel_of D <= fuel ->
  (run_overlap S D memo fuel = [] <-> L1_accepts S D).
Proof.
  intros S D memo fuel A Hid Hargs Hm Hf. split.
  - intro Hr. apply (overlap_decomposition S D A).
    apply (unmemo_decides_L2 S D fuel A Hid Hargs Hm Hf).
    destruct memo; [|exact Hr].
    apply (memo_transparent S D fuel fuel Hid Hargs); [|exact Hr].
    apply fuel_sufficient; assumption.
  - intro H. apply L1_accepts_exec; assumption.
Qed.
