(* isTypeSubTypeOf decides the subtype relation; the interface check
   establishes the declarative "implements" for every declared interface. *)
From Coq Require Import List NArith Bool Lia.
From GQL Require Import Base.Bytes Types.Schema Types.Consistent Proofs.TypesReduce Proofs.TypesNames.
Import ListNotations.
Open Scope N_scope.

Lemma tref_eqb_eq : forall a b, tref_eqb a b = true <-> a = b.
Proof.
  induction a as [|i|a IH|a IH]; destruct b as [|j|b|b]; simpl; split; intro H;
    try reflexivity; try discriminate.
  - apply N.eqb_eq in H. subst. reflexivity.
  - inversion H; subst. apply N.eqb_refl.
  - apply IH in H. subst. reflexivity.
  - inversion H; subst. apply IH. reflexivity.
  - apply IH in H. subst. reflexivity.
  - inversion H; subst. apply IH. reflexivity.
Qed.

Lemma tref_eqb_refl : forall a, tref_eqb a a = true.
Proof. intro a. apply tref_eqb_eq. reflexivity. Qed.

Lemma is_equal_type_eq : forall a b, is_equal_type a b = true <-> a = b.
Proof.
  induction a as [|i|a IH|a IH]; destruct b as [|j|b|b]; simpl; split; intro H;
    try reflexivity; try discriminate.
  - apply N.eqb_eq in H. subst. reflexivity.
  - inversion H; subst. apply N.eqb_refl.
  - apply IH in H. subst. reflexivity.
  - inversion H; subst. apply IH. reflexivity.
  - apply IH in H. subst. reflexivity.
  - inversion H; subst. apply IH. reflexivity.
Qed.

Lemma sub_sound poss : forall a b, is_type_sub_type_of poss a b = true -> subtype poss a b.
Proof.
  induction a as [|i|a IH|a IH]; intros b H.
  - destruct (tref_eqb TNil b) eqn:E; [apply tref_eqb_eq in E; subst; apply st_refl|].
    destruct b; simpl in *; discriminate.
  - destruct (tref_eqb (TNamed i) b) eqn:E; [apply tref_eqb_eq in E; subst; apply st_refl|].
    destruct b as [|j|b|b]; simpl in *; try discriminate. rewrite E in H. apply st_possible. exact H.
  - destruct (tref_eqb (TList a) b) eqn:E; [apply tref_eqb_eq in E; subst; apply st_refl|].
    destruct b as [|j|b|b]; simpl in *; try discriminate. rewrite E in H. apply st_list. apply IH. exact H.
  - destruct (tref_eqb (TNonNull a) b) eqn:E; [apply tref_eqb_eq in E; subst; apply st_refl|].
    destruct b as [|j|b|b]; simpl in H, E.
    + apply st_nonnull_l; auto.
    + apply st_nonnull_l; auto.
    + apply st_nonnull_l; auto.
    + rewrite E in H. apply st_nonnull. apply IH. exact H.
Qed.

Lemma sub_complete poss : forall a b, subtype poss a b -> is_type_sub_type_of poss a b = true.
Proof.
  intros a b H. induction H as [t|a b H IH|a b Hb H IH|a b H IH|o a H].
  - destruct t; simpl; rewrite ?N.eqb_refl, ?tref_eqb_refl; reflexivity.
  - simpl. destruct (tref_eqb a b); auto.
  - destruct b; simpl in *; try discriminate; auto.
  - simpl. destruct (tref_eqb a b); auto.
  - simpl. destruct (o =? a); auto.
Qed.

Lemma sub_reflect poss a b : is_type_sub_type_of poss a b = true <-> subtype poss a b.
Proof. split; [apply sub_sound|apply sub_complete]. Qed.

Lemma assoc_name_in {A} : forall (l : list (name * A)) n x, assoc_name n l = Some x -> In (n, x) l.
Proof.
  induction l as [|[m y] r IH]; simpl; intros n x H; try discriminate.
  destruct (bytes_eqb m n) eqn:E.
  - apply bytes_eqb_eq in E. inversion H; subst. left; reflexivity.
  - right. exact (IH n x H).
Qed.

Lemma field_implements_sound poss ofs jf :
  field_implements poss ofs jf = true -> implements_field poss ofs jf.
Proof.
  unfold field_implements, implements_field. destruct (find_field (vf_name jf) ofs) as [f|]; try discriminate.
  intro H. apply andb_true_iff in H. destruct H as [H H3]. apply andb_true_iff in H. destruct H as [H1 H2].
  exists f. split; [reflexivity|]. split; [apply sub_sound; exact H1|]. split.
  - intros an at' Hin. pose proof (proj1 (forallb_forall _ _) H2 (an, at') Hin) as Hx. simpl in Hx.
    destruct (assoc_name an (vf_args f)) as [t|]; try discriminate.
    apply is_equal_type_eq in Hx. subst. reflexivity.
  - intros an at' Hin Hnone. pose proof (proj1 (forallb_forall _ _) H3 (an, at') Hin) as Hx. simpl in Hx.
    rewrite Hnone in Hx. apply negb_true_iff in Hx. exact Hx.
Qed.

Lemma field_implements_complete poss ofs jf :
  implements_field poss ofs jf -> field_implements poss ofs jf = true.
Proof.
  unfold field_implements, implements_field. intros (f & Hf & Hs & Ha & Hb). rewrite Hf.
  apply andb_true_iff. split; [apply andb_true_iff; split|].
  - apply sub_complete; exact Hs.
  - apply forallb_forall. intros [an at'] Hin. simpl. rewrite (Ha an at' Hin). apply is_equal_type_eq. reflexivity.
  - apply forallb_forall. intros [an at'] Hin. simpl.
    destruct (assoc_name an (vf_args jf)) eqn:E; auto. rewrite (Hb an at' Hin E). reflexivity.
Qed.

(* every object of the schema implements each interface it declares, with
   respect to the schema's own IsPossibleType table *)
Lemma check_implementations_sound S : check_implementations S = true ->
  forall o i jf, In o (objects_of S) -> In i (interfaces_of (s_defs S) o) -> In jf (fields_of (s_defs S) i) ->
    implements_field (abstract_possible S) (fields_of (s_defs S) o) jf.
Proof.
  intros H o i jf Ho Hi Hjf. unfold check_implementations in H.
  pose proof (proj1 (forallb_forall _ _) H o Ho) as H1.
  pose proof (proj1 (forallb_forall _ _) H1 i Hi) as H2.
  unfold assert_object_implements_interface in H2.
  pose proof (proj1 (forallb_forall _ _) H2 jf Hjf) as H3.
  apply field_implements_sound. exact H3.
Qed.
