(* Proofs for C06: the plan cache model (Cache/LRU.v) against its
   specification (Cache/CacheSpec.v). *)
From Coq Require Import List NArith ZArith Bool Lia Decimal DecimalN DecimalNat.
From GQL Require Import Base.Bytes Cache.LRU Cache.CacheSpec.
Import ListNotations.
Open Scope N_scope.

(* ------------------------------------------------------------------ *)
(* The length-prefixed key is injective                               *)
(* ------------------------------------------------------------------ *)

Definition is_digit (b : byte) : Prop := 48 <= b <= 57.

Lemma uint_bytes_digits : forall u, Forall is_digit (uint_bytes u).
Proof.
  induction u as [|u IH|u IH|u IH|u IH|u IH|u IH|u IH|u IH|u IH|u IH]; simpl;
    constructor; try exact IH; unfold is_digit; lia.
Qed.

Lemma uint_bytes_inj : forall u v, uint_bytes u = uint_bytes v -> u = v.
Proof.
  induction u as [|u IH|u IH|u IH|u IH|u IH|u IH|u IH|u IH|u IH|u IH];
    destruct v as [|v|v|v|v|v|v|v|v|v|v]; simpl; intro H;
      try reflexivity; try discriminate H;
      injection H as H; f_equal; apply IH; exact H.
Qed.

Lemma itoa_inj : forall a b, itoa a = itoa b -> a = b.
Proof.
  intros a b H. unfold itoa in H. apply uint_bytes_inj in H.
  rewrite <- (DecimalN.Unsigned.of_to a), <- (DecimalN.Unsigned.of_to b), H. reflexivity.
Qed.

Lemma digits_sep_inj : forall d1 d2 r1 r2,
  Forall is_digit d1 -> Forall is_digit d2 ->
  d1 ++ colon :: r1 = d2 ++ colon :: r2 -> d1 = d2 /\ r1 = r2.
Proof.
  induction d1 as [|x d1 IH]; intros d2 r1 r2 H1 H2 E; destruct d2 as [|y d2]; simpl in E.
  - injection E as E. split; [reflexivity|exact E].
  - injection E as E1 E2. inversion H2 as [|? ? Hy _]; subst. unfold is_digit, colon in Hy. lia.
  - injection E as E1 E2. inversion H1 as [|? ? Hx _]; subst. unfold is_digit, colon in Hx. lia.
  - injection E as E1 E2. inversion H1; inversion H2; subst.
    destruct (IH d2 r1 r2) as [Ha Hb]; try assumption. subst. split; reflexivity.
Qed.

Lemma app_same_length_inj : forall (A : Type) (a b c d : list A),
  length a = length b -> a ++ c = b ++ d -> a = b /\ c = d.
Proof.
  induction a as [|x a IH]; intros b c d HL E; destruct b as [|y b]; simpl in *; try discriminate HL.
  - split; [reflexivity|exact E].
  - injection E as E1 E2. injection HL as HL. destruct (IH b c d HL E2). subst. split; reflexivity.
Qed.

Lemma lenprefix_inj : forall op1 t1 op2 t2,
  lenprefix op1 t1 = lenprefix op2 t2 -> op1 = op2 /\ t1 = t2.
Proof.
  intros op1 t1 op2 t2 H. unfold lenprefix in H.
  apply digits_sep_inj in H; try apply uint_bytes_digits.
  destruct H as [Hl Hr]. apply itoa_inj in Hl. unfold nlen in Hl. apply Nnat.Nat2N.inj in Hl.
  apply app_same_length_inj; assumption.
Qed.

(* ------------------------------------------------------------------ *)
(* Lists of entries                                                    *)
(* ------------------------------------------------------------------ *)

Section Entries.
  Context {R : Type}.
  Implicit Types (es : list (entry R)) (e : entry R) (k : bytes).

  Lemma has_key_true : forall k e, has_key k e = true <-> e_key e = k.
  Proof. intros. unfold has_key. apply bytes_eqb_eq. Qed.

  Lemma remove_key_In : forall k es e, In e (remove_key k es) -> In e es.
  Proof. intros k es e H. unfold remove_key in H. apply filter_In in H. tauto. Qed.

  Lemma remove_key_not : forall k es e, In e (remove_key k es) -> e_key e <> k.
  Proof.
    intros k es e H. unfold remove_key in H. apply filter_In in H. destruct H as [_ H].
    intro E. apply has_key_true in E. rewrite E in H. discriminate H.
  Qed.

  Lemma remove_key_length_le : forall k es, (length (remove_key k es) <= length es)%nat.
  Proof.
    intros k es. unfold remove_key. induction es as [|e es IH]; simpl; [lia|].
    destruct (negb (has_key k e)); simpl; lia.
  Qed.

  Lemma remove_key_length_lt : forall k es, In k (map e_key es) ->
    (length (remove_key k es) < length es)%nat.
  Proof.
    intros k es. unfold remove_key. induction es as [|e es IH]; simpl; intro H; [contradiction|].
    pose proof (remove_key_length_le k es) as Hle. unfold remove_key in Hle.
    destruct (has_key k e) eqn:E; simpl.
    - lia.
    - destruct H as [H|H].
      + apply has_key_true in H. congruence.
      + apply IH in H. lia.
  Qed.

  Lemma find_key_some : forall k es e, find_key k es = Some e -> In e es /\ e_key e = k.
  Proof.
    intros k es e H. unfold find_key in H. apply find_some in H. destruct H as [H1 H2].
    split; [exact H1|]. apply has_key_true. exact H2.
  Qed.

  Lemma find_key_none : forall k es, find_key k es = None -> ~ In k (map e_key es).
  Proof.
    intros k es H Hin. apply in_map_iff in Hin. destruct Hin as [e [E Hin]].
    unfold find_key in H. pose proof (find_none _ _ H e Hin) as Hn.
    apply has_key_true in E. congruence.
  Qed.

  Lemma remove_key_NoDup : forall k es, NoDup (map e_key es) -> NoDup (map e_key (remove_key k es)).
  Proof.
    intros k es. induction es as [|e es IH]; simpl; intro H; [constructor|].
    inversion H as [|? ? Hn Hd]; subst.
    destruct (has_key k e); simpl; [apply IH; exact Hd|].
    constructor; [|apply IH; exact Hd].
    intro Hin. apply Hn. apply in_map_iff in Hin. destruct Hin as [x [Ex Hx]].
    apply in_map_iff. exists x. split; [exact Ex|]. eapply remove_key_In. exact Hx.
  Qed.

  Lemma remove_key_notin : forall k es, ~ In k (map e_key (remove_key k es)).
  Proof.
    intros k es Hin. apply in_map_iff in Hin. destruct Hin as [x [Ex Hx]].
    apply remove_key_not in Hx. congruence.
  Qed.

  Section Evict.
    Variable victim : list (entry R) -> bytes.
    Hypothesis victim_present : forall es, es <> [] -> In (victim es) (map e_key es).

    Lemma evict_In : forall fuel max es e, In e (evict victim fuel max es) -> In e es.
    Proof.
      induction fuel as [|f IH]; intros max es e H; simpl in H; [exact H|].
      destruct (max <? nlen es); [|exact H].
      apply IH in H. eapply remove_key_In. exact H.
    Qed.

    Lemma evict_NoDup : forall fuel max es, NoDup (map e_key es) -> NoDup (map e_key (evict victim fuel max es)).
    Proof.
      induction fuel as [|f IH]; intros max es H; simpl; [exact H|].
      destruct (max <? nlen es); [|exact H]. apply IH. apply remove_key_NoDup. exact H.
    Qed.

    Lemma evict_bound : forall fuel max es, (length es <= fuel)%nat -> nlen (evict victim fuel max es) <= max.
    Proof.
      induction fuel as [|f IH]; intros max es H; simpl.
      - destruct es; simpl in H; [|lia]. unfold nlen. simpl. lia.
      - destruct (max <? nlen es) eqn:E.
        + apply IH. assert (Hne : es <> []).
          { intro Z. subst es. unfold nlen in E. simpl in E. apply N.ltb_lt in E. lia. }
          pose proof (remove_key_length_lt _ _ (victim_present es Hne)). lia.
        + apply N.ltb_ge in E. exact E.
    Qed.
  End Evict.
End Entries.

(* ------------------------------------------------------------------ *)
(* The state machine                                                   *)
(* ------------------------------------------------------------------ *)

Section Machine.
  Context {R A : Type}.
  Variable hash : bytes -> bytes.
  Variable fresh : cfg -> req -> R.
  Variable ok : R -> bool.
  Variable synth : req -> A.
  Variable no_synth : A.
  Variable victim : list (entry R) -> bytes.
  Hypothesis victim_present : forall es, es <> [] -> In (victim es) (map e_key es).

  Notation get := (get hash fresh ok synth no_synth victim).
  Notation step := (step hash fresh ok synth no_synth victim).
  Notation run_from := (run_from hash fresh ok synth no_synth victim).
  Notation run := (run hash fresh ok synth no_synth victim).
  Notation key := (key hash).
  Notation own_synth := (own_synth hash synth no_synth).
  Notation store := (store victim).

  (* ---- histories ---- *)

  Lemma run_from_acc : forall c h s acc,
    fold_left (fun acc o => let '(s1, xs) := step c (fst acc) o in (s1, snd acc ++ xs)) h (s, acc)
    = (fst (run_from c s h), acc ++ snd (run_from c s h)).
  Proof.
    intros c h. unfold LRU.run_from. induction h as [|o h IH]; intros s acc; simpl.
    - rewrite app_nil_r. reflexivity.
    - destruct (step c s o) as [s1 xs] eqn:E. simpl.
      rewrite (IH s1 (acc ++ xs)). rewrite (IH s1 xs). simpl.
      rewrite app_assoc. reflexivity.
  Qed.

  Lemma run_from_nil : forall c s, run_from c s [] = (s, []).
  Proof. reflexivity. Qed.

  Lemma run_from_cons : forall c s o h,
    run_from c s (o :: h) =
    (fst (run_from c (fst (step c s o)) h), snd (step c s o) ++ snd (run_from c (fst (step c s o)) h)).
  Proof.
    intros c s o h. unfold LRU.run_from at 1. simpl.
    destruct (step c s o) as [s1 xs] eqn:E. simpl. apply run_from_acc.
  Qed.

  Lemma step_get : forall c s r, step c s (OGet r) = (fst (get c s r), [snd (get c s r)]).
  Proof. intros. unfold LRU.step. destruct (get c s r). reflexivity. Qed.

  (* the generic invariant principle over all histories *)
  Lemma run_invariant : forall (c : cfg) (I : state R -> Prop) (P : req -> out R A -> Prop),
    (forall s r, I s -> I (fst (get c s r)) /\ P r (snd (get c s r))) ->
    (forall s, I s -> I (reset s)) ->
    forall h s, I s -> I (fst (run_from c s h)) /\ Forall2 P (gets h) (snd (run_from c s h)).
  Proof.
    intros c I P Hget Hreset. induction h as [|o h IH]; intros s Hs.
    - rewrite run_from_nil. simpl. split; [exact Hs|constructor].
    - rewrite run_from_cons. destruct o as [r|]; simpl gets.
      + rewrite step_get. simpl fst. simpl snd.
        destruct (Hget s r Hs) as [H1 H2]. destruct (IH _ H1) as [H3 H4].
        split; [exact H3|]. simpl. constructor; assumption.
      + simpl. apply IH. apply Hreset. exact Hs.
  Qed.

  (* ---- lookup / store facts ---- *)

  Lemma lookup_entries_In : forall (s : state R) sch k e, In e (entries (fst (lookup s sch k))) -> In e (entries s).
  Proof.
    intros s sch k e. unfold lookup. destruct (find_key k (entries s)) as [e0|] eqn:F; simpl; [|tauto].
    destruct (e_schema e0 =? sch); simpl.
    - intros [H|H]; [subst; apply (find_key_some _ _ _ F)|eapply remove_key_In; exact H].
    - apply remove_key_In.
  Qed.

  Lemma lookup_length : forall (s : state R) sch k, (length (entries (fst (lookup s sch k))) <= length (entries s))%nat.
  Proof.
    intros s sch k. unfold lookup. destruct (find_key k (entries s)) as [e0|] eqn:F; simpl; [|lia].
    destruct (find_key_some _ _ _ F) as [Hin Hk].
    assert (In k (map e_key (entries s))) by (subst k; apply in_map; exact Hin).
    pose proof (remove_key_length_lt _ _ H).
    destruct (e_schema e0 =? sch); simpl; lia.
  Qed.

  Lemma lookup_NoDup : forall (s : state R) sch k, NoDup (map e_key (entries s)) ->
    NoDup (map e_key (entries (fst (lookup s sch k)))).
  Proof.
    intros s sch k H. unfold lookup. destruct (find_key k (entries s)) as [e0|] eqn:F; simpl; [|exact H].
    destruct (find_key_some _ _ _ F) as [Hin Hk].
    destruct (e_schema e0 =? sch); simpl.
    - constructor; [rewrite Hk; apply remove_key_notin|apply remove_key_NoDup; exact H].
    - apply remove_key_NoDup; exact H.
  Qed.

  Lemma lookup_hit : forall (s : state R) sch k s1 v, lookup s sch k = (s1, Some v) ->
    exists e, In e (entries s) /\ e_key e = k /\ e_schema e = sch /\ e_res e = v.
  Proof.
    intros s sch k s1 v. unfold lookup. destruct (find_key k (entries s)) as [e0|] eqn:F; [|discriminate].
    destruct (e_schema e0 =? sch) eqn:Es; [|discriminate].
    intro H. injection H as _ Hv. exists e0. destruct (find_key_some _ _ _ F). apply N.eqb_eq in Es. tauto.
  Qed.

  Lemma lookup_miss_absent : forall (s : state R) sch k s1, lookup s sch k = (s1, None) ->
    ~ In k (map e_key (entries s1)).
  Proof.
    intros s sch k s1. unfold lookup. destruct (find_key k (entries s)) as [e0|] eqn:F.
    - destruct (e_schema e0 =? sch); [discriminate|]. intro H. injection H as H. subst s1. simpl.
      apply remove_key_notin.
    - intro H. injection H as H. subst s1. simpl. apply find_key_none. exact F.
  Qed.

  Lemma lookup_counts : forall (s : state R) sch k,
    let s1 := fst (lookup s sch k) in
    match snd (lookup s sch k) with
    | Some _ => hits s1 = hits s + 1 /\ misses s1 = misses s
    | None => hits s1 = hits s /\ misses s1 = misses s + 1
    end.
  Proof.
    intros s sch k. unfold lookup. destruct (find_key k (entries s)) as [e0|]; simpl; [|tauto].
    destruct (e_schema e0 =? sch); simpl; tauto.
  Qed.

  Lemma store_entries_In : forall c (s : state R) sch k v e, In e (entries (store c s sch k v)) ->
    e = mkE k sch v \/ In e (entries s).
  Proof.
    intros c s sch k v e. unfold LRU.store. destruct (find_key k (entries s)); cbn [entries].
    - intros [H|H]; [left; symmetry; exact H|right; eapply remove_key_In; exact H].
    - intro H. apply evict_In in H. destruct H as [H|H]; [left; symmetry; exact H|right; exact H].
  Qed.

  Lemma store_counts : forall c (s : state R) sch k v, hits (store c s sch k v) = hits s /\ misses (store c s sch k v) = misses s.
  Proof. intros. unfold LRU.store. destruct (find_key k (entries s)); simpl; tauto. Qed.

  Lemma store_bound : forall c (s : state R) sch k v, nlen (entries s) <= eff_max c ->
    nlen (entries (store c s sch k v)) <= eff_max c.
  Proof.
    intros c s sch k v Hb. unfold LRU.store. destruct (find_key k (entries s)) as [e0|] eqn:F; cbn [entries].
    - destruct (find_key_some _ _ _ F) as [Hin Hk].
      assert (In k (map e_key (entries s))) by (subst k; apply in_map; exact Hin).
      pose proof (remove_key_length_lt _ _ H). unfold nlen in *. simpl. lia.
    - apply (evict_bound victim victim_present). simpl. lia.
  Qed.

  Lemma store_NoDup : forall c (s : state R) sch k v, NoDup (map e_key (entries s)) ->
    NoDup (map e_key (entries (store c s sch k v))).
  Proof.
    intros c s sch k v H. unfold LRU.store. destruct (find_key k (entries s)) as [e0|] eqn:F; cbn [entries].
    - constructor; [apply remove_key_notin|apply remove_key_NoDup; exact H].
    - apply evict_NoDup. simpl. constructor; [apply find_key_none; exact F|exact H].
  Qed.

  (* ---- C06_bound ---- *)

  Lemma get_bound : forall c s r, bounded c s -> bounded c (fst (get c s r)).
  Proof.
    intros c s r Hb. unfold bounded in *. unfold LRU.get. destruct (key c r) as [k|]; [|exact Hb].
    pose proof (lookup_length s (rq_schema r) k) as HL.
    destruct (lookup s (rq_schema r) k) as [s1 [v|]]; simpl in *.
    - unfold nlen in *. lia.
    - apply store_bound. unfold nlen in *. lia.
  Qed.

  Lemma bound_all_histories : forall c h, bounded c (fst (run c h)).
  Proof.
    intros c h. unfold LRU.run.
    apply (run_invariant c (bounded c) (fun _ _ => True)).
    - intros s r Hs. split; [apply get_bound; exact Hs|exact I].
    - intros s _. unfold bounded, reset, nlen. simpl. lia.
    - unfold bounded, init, nlen. simpl. lia.
  Qed.

  Lemma bound_from_any_bounded_state : forall c h s, bounded c s -> bounded c (fst (run_from c s h)).
  Proof.
    intros c h s Hs.
    apply (run_invariant c (bounded c) (fun _ _ => True)); try exact Hs.
    - intros s0 r H0. split; [apply get_bound; exact H0|exact I].
    - intros s0 _. unfold bounded, reset, nlen. simpl. lia.
  Qed.

  Lemma nodup_all_histories : forall c h, NoDup (map e_key (entries (fst (run c h)))).
  Proof.
    intros c h. unfold LRU.run.
    apply (run_invariant c (fun s => NoDup (map e_key (entries s))) (fun _ _ => True)).
    - intros s r Hs. split; [|exact I]. unfold LRU.get. destruct (key c r) as [k|]; [|exact Hs].
      pose proof (lookup_NoDup s (rq_schema r) k Hs) as HL.
      destruct (lookup s (rq_schema r) k) as [s1 [v|]]; simpl in *; [exact HL|].
      apply store_NoDup. exact HL.
    - intros s _. simpl. constructor.
    - simpl. constructor.
  Qed.

  (* ---- C06_refines_uncached ---- *)

  Lemma get_faithful : forall c s r, key_faithful hash fresh c -> faithful_state hash fresh c s ->
    faithful_state hash fresh c (fst (get c s r)) /\ o_res (snd (get c s r)) = fresh c r.
  Proof.
    intros c s r KF Hs. unfold faithful_state in *. unfold LRU.get.
    destruct (key c r) as [k|] eqn:K; [|split; [exact Hs|reflexivity]].
    destruct (lookup s (rq_schema r) k) as [s1 [v|]] eqn:L; simpl.
    - split.
      + apply Forall_forall. intros e He. rewrite Forall_forall in Hs. apply Hs.
        replace s1 with (fst (lookup s (rq_schema r) k)) in He by (rewrite L; reflexivity).
        eapply lookup_entries_In. exact He.
      + apply lookup_hit in L. destruct L as [e [Hin [Hk [Hsch Hv]]]].
        rewrite Forall_forall in Hs. destruct (Hs e Hin) as [r0 [K0 [S0 V0]]].
        rewrite <- Hv, V0. apply (KF r0 r k); congruence.
    - split; [|reflexivity].
      apply Forall_forall. intros e He. apply store_entries_In in He. destruct He as [He|He].
      + subst e. exists r. simpl. auto.
      + rewrite Forall_forall in Hs. apply Hs.
        replace s1 with (fst (lookup s (rq_schema r) k)) in He by (rewrite L; reflexivity).
        eapply lookup_entries_In. exact He.
  Qed.

  Lemma refines_uncached_from : forall c h s, key_faithful hash fresh c -> faithful_state hash fresh c s ->
    map (@o_res R A) (snd (run_from c s h)) = spec_outs fresh c h.
  Proof.
    intros c h s KF Hs.
    destruct (run_invariant c (faithful_state hash fresh c) (fun r o => o_res o = fresh c r)
                (fun s0 r H0 => get_faithful c s0 r KF H0)
                (fun s0 _ => Forall_nil _) h s Hs) as [_ HF].
    unfold spec_outs. induction HF as [|r o rs os E _ IH]; simpl; [reflexivity|].
    rewrite E, IH. reflexivity.
  Qed.

  Lemma refines_uncached : forall c h, key_faithful hash fresh c ->
    map (@o_res R A) (snd (run c h)) = spec_outs fresh c h.
  Proof. intros c h KF. apply refines_uncached_from; [exact KF|constructor]. Qed.

  Lemma faithful_all_histories : forall c h, key_faithful hash fresh c ->
    faithful_state hash fresh c (fst (run c h)).
  Proof.
    intros c h KF. unfold LRU.run.
    apply (run_invariant c (faithful_state hash fresh c) (fun r o => o_res o = fresh c r)
             (fun s0 r H0 => get_faithful c s0 r KF H0) (fun s0 _ => Forall_nil _)).
    constructor.
  Qed.

  (* ---- own literals ---- *)

  Lemma get_own_synth : forall c s r,
    (ok (o_res (snd (get c s r))) = true -> o_synth (snd (get c s r)) = own_synth c r) /\
    (o_synth (snd (get c s r)) = own_synth c r \/ o_synth (snd (get c s r)) = no_synth).
  Proof.
    intros c s r. unfold LRU.get. destruct (key c r) as [k|] eqn:K.
    - destruct (lookup s (rq_schema r) k) as [s1 [v|]]; simpl.
      + split; [reflexivity|left; reflexivity].
      + destruct (ok (fresh c r)); split; intros; try reflexivity; try discriminate; auto.
    - simpl. unfold LRU.own_synth. rewrite K. split; [reflexivity|left; reflexivity].
  Qed.

  Lemma own_literals_all_histories : forall c h,
    Forall2 (fun r o => (ok (o_res o) = true -> o_synth o = own_synth c r) /\
                        (o_synth o = own_synth c r \/ o_synth o = no_synth))
            (gets h) (snd (run c h)).
  Proof.
    intros c h. unfold LRU.run.
    apply (run_invariant c (fun _ => True)
             (fun r o => (ok (o_res o) = true -> o_synth o = own_synth c r) /\
                         (o_synth o = own_synth c r \/ o_synth o = no_synth))); auto.
    intros s r _. split; [exact I|apply get_own_synth].
  Qed.

  (* ---- hit / miss counters ---- *)

  Definition is_hit (o : out R A) : bool := match o_hit o with Some true => true | _ => false end.
  Definition is_miss (o : out R A) : bool := match o_hit o with Some false => true | _ => false end.
  Definition count (f : out R A -> bool) (l : list (out R A)) : N := nlen (filter f l).

  Lemma count_app : forall f l1 l2, count f (l1 ++ l2) = count f l1 + count f l2.
  Proof. intros. unfold count, nlen. rewrite filter_app, app_length. lia. Qed.

  Lemma get_counts : forall c s r,
    hits (fst (get c s r)) = hits s + count is_hit [snd (get c s r)] /\
    misses (fst (get c s r)) = misses s + count is_miss [snd (get c s r)] /\
    (o_hit (snd (get c s r)) = None <-> key c r = None).
  Proof.
    intros c s r. unfold LRU.get. destruct (key c r) as [k|] eqn:K.
    - pose proof (lookup_counts s (rq_schema r) k) as HC.
      destruct (lookup s (rq_schema r) k) as [s1 [v|]]; simpl in *.
      + unfold count, is_hit, is_miss, nlen. simpl. repeat split; try lia; intro; discriminate.
      + destruct (store_counts c s1 (rq_schema r) k (fresh c r)) as [H1 H2].
        unfold count, is_hit, is_miss, nlen. simpl. repeat split; try lia; intro; discriminate.
    - simpl. unfold count, is_hit, is_miss, nlen. simpl. repeat split; lia.
  Qed.

  Lemma counters_from : forall c h s,
    hits (fst (run_from c s h)) = hits s + count is_hit (snd (run_from c s h)) /\
    misses (fst (run_from c s h)) = misses s + count is_miss (snd (run_from c s h)).
  Proof.
    intros c. induction h as [|o h IH]; intro s.
    - rewrite run_from_nil. unfold count, nlen. simpl. lia.
    - rewrite run_from_cons. simpl fst. simpl snd. rewrite !count_app.
      destruct (IH (fst (step c s o))) as [H1 H2]. rewrite H1, H2.
      destruct o as [r|].
      + rewrite step_get. simpl fst. simpl snd.
        destruct (get_counts c s r) as [G1 [G2 _]]. rewrite G1, G2. lia.
      + simpl. unfold count, nlen. simpl. lia.
  Qed.

  Lemma counters_all_histories : forall c h,
    hits (fst (run c h)) = count is_hit (snd (run c h)) /\
    misses (fst (run c h)) = count is_miss (snd (run c h)) /\
    Forall2 (fun r o => o_hit o = None <-> key c r = None) (gets h) (snd (run c h)).
  Proof.
    intros c h. unfold LRU.run. destruct (counters_from c h init) as [H1 H2]. simpl in H1, H2.
    split; [exact H1|split; [exact H2|]].
    apply (run_invariant c (fun _ => True) (fun r o => o_hit o = None <-> key c r = None)); auto.
    intros s r _. split; [exact I|apply get_counts].
  Qed.

  (* ---- Reset ---- *)

  Lemma reset_then_get : forall c s r,
    entries (reset s) = [] /\ hits (reset s) = hits s /\ misses (reset s) = misses s /\
    o_res (snd (get c (reset s) r)) = fresh c r /\
    (key c r <> None -> o_hit (snd (get c (reset s) r)) = Some false).
  Proof.
    intros c s r. repeat split.
    - unfold LRU.get. destruct (key c r) as [k|]; [|reflexivity]. reflexivity.
    - intro Hk. unfold LRU.get. destruct (key c r) as [k|]; [|congruence]. reflexivity.
  Qed.

  (* ---- the eviction policy cannot be observed in the results ---- *)
End Machine.

Section Policies.
  Context {R A : Type}.
  Variable hash : bytes -> bytes.
  Variable fresh : cfg -> req -> R.
  Variable ok : R -> bool.
  Variable synth : req -> A.
  Variable no_synth : A.

  Lemma results_policy_independent : forall (v1 v2 : list (entry R) -> bytes) c h,
    (forall es, es <> [] -> In (v1 es) (map e_key es)) ->
    (forall es, es <> [] -> In (v2 es) (map e_key es)) ->
    key_faithful hash fresh c ->
    map (@o_res R A) (snd (run hash fresh ok synth no_synth v1 c h)) =
    map (@o_res R A) (snd (run hash fresh ok synth no_synth v2 c h)).
  Proof.
    intros v1 v2 c h _ _ KF. rewrite !refines_uncached by exact KF. reflexivity.
  Qed.

  (* the code's policy is an instance *)
  Lemma last_key_present : forall (es : list (entry R)), es <> [] -> In (last_key es) (map e_key es).
  Proof.
    induction es as [|e es IH]; intro H; [congruence|].
    destruct es as [|e2 es]; [simpl; left; reflexivity|].
    right. apply IH. discriminate.
  Qed.
End Policies.

(* ------------------------------------------------------------------ *)
(* Keys: injective construction, hence faithful                        *)
(* ------------------------------------------------------------------ *)

Section Keys.
  Variable hash : bytes -> bytes.
  Hypothesis hash_inj : forall a b, hash a = hash b -> a = b.
  Hypothesis hash_not_raw : forall a, firstn 4 (hash a) <> raw_tag.

  Lemma key_some_cached : forall c r k, key hash c r = Some k -> cached_path c r = true.
  Proof. intros c r k. unfold key. destruct (cached_path c r); simpl; [reflexivity|discriminate]. Qed.

  Lemma key_determines : forall c r1 r2 k,
    key hash c r1 = Some k -> key hash c r2 = Some k ->
    rq_op r1 = rq_op r2 /\ canon c r1 = canon c r2.
  Proof.
    intros c r1 r2 k K1 K2.
    pose proof (key_some_cached _ _ _ K1) as P1. pose proof (key_some_cached _ _ _ K2) as P2.
    unfold key in K1, K2. unfold canon. rewrite P1, P2 in *. simpl in *.
    destruct (c_norm c); simpl in *.
    - destruct (rq_class r1) as [| |t1|]; try discriminate K1;
      destruct (rq_class r2) as [| |t2|]; try discriminate K2;
      injection K1 as K1; injection K2 as K2; subst k; apply lenprefix_inj in K2; destruct K2 as [Eo Et].
      + apply hash_inj in Et. rewrite Eo in Et. apply app_inv_head in Et. injection Et as Et.
        split; congruence.
      + exfalso. apply (hash_not_raw (rq_op r1 ++ 0 :: t1)). rewrite <- Et. reflexivity.
      + exfalso. apply (hash_not_raw (rq_op r2 ++ 0 :: t2)). rewrite Et. reflexivity.
      + injection Et as Et. split; congruence.
    - injection K1 as K1; injection K2 as K2; subst k; apply lenprefix_inj in K2; destruct K2 as [Eo Et].
      split; congruence.
  Qed.

  (* whatever planning computes from (schema, operation name, canonical text),
     equal keys under one schema give equal results *)
  Lemma factored_fresh_faithful : forall (R : Type) (planner : N -> bytes -> ctext -> R) c,
    key_faithful hash (fun c r => planner (rq_schema r) (rq_op r) (canon c r)) c.
  Proof.
    intros R planner c r1 r2 k K1 K2 S. destruct (key_determines c r1 r2 k K1 K2) as [Eo Ec].
    rewrite S, Eo, Ec. reflexivity.
  Qed.
End Keys.
