(* The type map built by the reducer is closed under reference: every type
   entered during a successful traversal has all its references in the map. *)
From Coq Require Import List NArith Bool Lia.
From GQL Require Import Base.Bytes Types.Schema Proofs.TypesReduce Proofs.TypesNames.
Import ListNotations.
Open Scope N_scope.

Definition ids (tm : tmap) : list N := map snd tm.

(* the references a definition makes, as the reducer walks them *)
Definition out_refs (defs : list (N * tdef)) (id : N) : list tref :=
  match find_def defs id with
  | Some (DObject _ _ _ _) => map TNamed (interfaces_of defs id) ++ field_refs (fields_of defs id)
  | Some (DInterface _ _ _) => field_refs (fields_of defs id)
  | Some (DUnion _ _ _) => map TNamed (members_of defs id)
  | Some (DInput _ fs) => map snd (match define_input_field_map defs fs with Some l => l | None => [] end)
  | _ => []
  end.

Definition tgt_in (defs : list (N * tdef)) (tm : tmap) (t : tref) : Prop :=
  match target_of defs t with
  | TgtSkip => True
  | TgtBad => False
  | TgtTo i => In i (ids tm)
  end.

Definition done (defs : list (N * tdef)) (tm : tmap) (id : N) : Prop :=
  forall t, In t (out_refs defs id) -> tgt_in defs tm t.

Definition post (defs : list (N * tdef)) (tm tm' : tmap) : Prop :=
  incl (ids tm) (ids tm') /\ forall x, In x (ids tm') -> In x (ids tm) \/ done defs tm' x.

Lemma tgt_in_mono defs tm tm' t : incl (ids tm) (ids tm') -> tgt_in defs tm t -> tgt_in defs tm' t.
Proof. unfold tgt_in. destruct (target_of defs t); auto. Qed.

Lemma done_mono defs tm tm' x : incl (ids tm) (ids tm') -> done defs tm x -> done defs tm' x.
Proof. intros Hi Hd t Ht. exact (tgt_in_mono _ _ _ _ Hi (Hd t Ht)). Qed.

Lemma post_refl defs tm : post defs tm tm.
Proof. split; [apply incl_refl|auto]. Qed.

Lemma post_trans defs tm tm1 tm2 : post defs tm tm1 -> post defs tm1 tm2 -> post defs tm tm2.
Proof.
  intros [I1 P1] [I2 P2]. split.
  - exact (incl_tran I1 I2).
  - intros x Hx. destruct (P2 x Hx) as [H1|Hd]; auto.
    destruct (P1 x H1) as [H0|Hd]; auto. right. exact (done_mono _ _ _ _ I2 Hd).
Qed.

Definition go (defs : list (N * tdef)) (f : nat) : tmap -> tref -> res tmap :=
  fun tm t => match target_of defs t with
              | TgtSkip => OK tm | TgtBad => Err | TgtTo i => visit defs f tm i
              end.

Lemma fold_res_app {A} (f : tmap -> A -> res tmap) l1 l2 tm :
  fold_res f (l1 ++ l2) tm = match fold_res f l1 tm with OK tm1 => fold_res f l2 tm1 | e => e end.
Proof.
  revert tm. induction l1 as [|x r IH]; intros tm; simpl; auto.
  destruct (f tm x); auto.
Qed.

Section Closed.
  Variable defs : list (N * tdef).

  Lemma fold_post (f : nat)
    (IH : forall tm id tm', visit defs f tm id = OK tm' -> post defs tm tm' /\ In id (ids tm')) :
    forall l tm tm', fold_res (go defs f) l tm = OK tm' ->
      post defs tm tm' /\ forall t, In t l -> tgt_in defs tm' t.
  Proof.
    induction l as [|t r IHl]; intros tm tm' H; simpl in H.
    - inversion H; subst. split; [apply post_refl|intros t []].
    - destruct (go defs f tm t) as [tm1| |] eqn:E; try discriminate.
      destruct (IHl tm1 tm' H) as [Hp2 Hr].
      assert (H1 : post defs tm tm1 /\ tgt_in defs tm1 t).
      { unfold go in E. unfold tgt_in. destruct (target_of defs t) as [| |i]; try discriminate.
        - inversion E; subst. split; [apply post_refl|exact I].
        - destruct (IH tm i tm1 E) as [Hp Hi]. split; auto. }
      destruct H1 as [Hp1 Ht]. split.
      + exact (post_trans _ _ _ _ Hp1 Hp2).
      + intros u [Hu|Hu]; [subst u|exact (Hr u Hu)].
        exact (tgt_in_mono _ _ _ _ (proj1 Hp2) Ht).
  Qed.

  Lemma insert_post tm tm' id n (refs : list tref) :
    post defs ((n, id) :: tm) tm' -> (forall t, In t refs -> tgt_in defs tm' t) ->
    out_refs defs id = refs ->
    post defs tm tm' /\ In id (ids tm').
  Proof.
    intros [Hi Hp] Hr Ho. split; [split|].
    - intros x Hx. apply Hi. right. exact Hx.
    - intros x Hx. destruct (Hp x Hx) as [[Heq|H0]|Hd]; auto.
      simpl in Heq. subst x. right. intros t Ht. rewrite Ho in Ht. exact (Hr t Ht).
    - apply Hi. left. reflexivity.
  Qed.

  Lemma visit_post : forall fuel tm id tm', visit defs fuel tm id = OK tm' ->
    post defs tm tm' /\ In id (ids tm').
  Proof.
    induction fuel as [|f IH]; intros tm id tm' H; simpl in H; try discriminate.
    destruct (find_def defs id) as [d|] eqn:Ed; try discriminate.
    destruct (ctor_err d) eqn:Ec; try discriminate.
    destruct (tm_find (def_name d) tm) as [id'|] eqn:Et.
    - destruct (id' =? id) eqn:Ei; try discriminate. inversion H; subst.
      apply N.eqb_eq in Ei. subst id'. split; [apply post_refl|].
      apply tm_find_some in Et. unfold ids. change id with (snd (def_name d, id)). apply in_map. exact Et.
    - pose proof (fold_post f IH) as Hfold. fold (go defs f) in H.
      destruct d as [n ser pv pl|n ifs fs ito|n fs rt|n ms rt|n vs|n fs]; simpl in H.
      + inversion H; subst. apply (insert_post tm _ id n []); auto.
        * apply post_refl.
        * intros t [].
        * unfold out_refs. rewrite Ed. reflexivity.
      + destruct (define_interfaces defs ifs) as [is|] eqn:Ei; try discriminate.
        destruct (fold_res (go defs f) (map TNamed is) ((n, id) :: tm)) as [tm2| |] eqn:E2; try discriminate.
        destruct (define_field_map defs fs) as [vfs|] eqn:Ef; try discriminate.
        assert (Hall : fold_res (go defs f) (map TNamed is ++ field_refs vfs) ((n, id) :: tm) = OK tm').
        { rewrite fold_res_app, E2. exact H. }
        destruct (Hfold _ _ _ Hall) as [Hp Hr].
        apply (insert_post tm tm' id n _ Hp Hr).
        unfold out_refs, interfaces_of, fields_of. rewrite Ed, Ei, Ef. reflexivity.
      + destruct (define_field_map defs fs) as [vfs|] eqn:Ef; try discriminate.
        destruct (Hfold _ _ _ H) as [Hp Hr].
        apply (insert_post tm tm' id n _ Hp Hr).
        unfold out_refs, fields_of. rewrite Ed, Ef. reflexivity.
      + destruct (define_union_types defs ms rt) as [is|] eqn:Em; try discriminate.
        destruct (Hfold _ _ _ H) as [Hp Hr].
        apply (insert_post tm tm' id n _ Hp Hr).
        unfold out_refs, members_of. rewrite Ed, Em. reflexivity.
      + inversion H; subst. apply (insert_post tm _ id n []); auto.
        * apply post_refl.
        * intros t [].
        * unfold out_refs. rewrite Ed. reflexivity.
      + destruct (define_input_field_map defs fs) as [l|] eqn:Ef; try discriminate.
        destruct (Hfold _ _ _ H) as [Hp Hr].
        apply (insert_post tm tm' id n _ Hp Hr).
        unfold out_refs. rewrite Ed, Ef. reflexivity.
  Qed.

  Lemma reduce_post : forall fuel tm t tm', reduce defs fuel tm t = OK tm' ->
    post defs tm tm' /\ tgt_in defs tm' t.
  Proof.
    intros fuel tm t tm' H. unfold reduce in H. unfold tgt_in.
    destruct (target_of defs t) as [| |i]; try discriminate.
    - inversion H; subst. split; [apply post_refl|exact I].
    - exact (visit_post fuel tm i tm' H).
  Qed.

  Lemma add_type_post : forall fuel tm t tm', add_type defs fuel tm t = OK tm' ->
    post defs tm tm' /\ tgt_in defs tm' (norm t).
  Proof.
    intros fuel tm t tm' H. unfold add_type in H.
    destruct (norm t) as [|i|u|u] eqn:En.
    - inversion H; subst. split; [apply post_refl|exact I].
    - destruct (type_err defs (TNamed i)); try discriminate. exact (reduce_post _ _ _ _ H).
    - destruct (type_err defs (TList u)); try discriminate. exact (reduce_post _ _ _ _ H).
    - destruct (type_err defs (TNonNull u)); try discriminate. exact (reduce_post _ _ _ _ H).
  Qed.

  Lemma add_types_post : forall fuel ts tm tm', fold_res (add_type defs fuel) ts tm = OK tm' ->
    post defs tm tm' /\ forall t, In t ts -> tgt_in defs tm' (norm t).
  Proof.
    induction ts as [|t r IH]; intros tm tm' H; simpl in H.
    - inversion H; subst. split; [apply post_refl|intros t []].
    - destruct (add_type defs fuel tm t) as [tm1| |] eqn:E; try discriminate.
      destruct (add_type_post _ _ _ _ E) as [Hp1 Ht]. destruct (IH _ _ H) as [Hp2 Hr]. split.
      + exact (post_trans _ _ _ _ Hp1 Hp2).
      + intros u [Hu|Hu]; [subst u|exact (Hr u Hu)]. exact (tgt_in_mono _ _ _ _ (proj1 Hp2) Ht).
  Qed.
End Closed.

(* closed: every entry of the map has all its references in the map *)
Definition closed (defs : list (N * tdef)) (tm : tmap) : Prop := forall x, In x (ids tm) -> done defs tm x.

Lemma post_closed defs tm tm' : closed defs tm -> post defs tm tm' -> closed defs tm'.
Proof.
  intros Hc [Hi Hp] x Hx. destruct (Hp x Hx) as [H0|Hd]; auto.
  exact (done_mono _ _ _ _ Hi (Hc x H0)).
Qed.

Lemma closed_nil defs : closed defs [].
Proof. intros x []. Qed.

Lemma new_schema_fuel_closed : forall fuel c sch, new_schema_fuel fuel c = OK sch ->
  closed (s_defs sch) (s_tm sch) /\ forall t, In t (initial_types c) -> tgt_in (s_defs sch) (s_tm sch) (norm t).
Proof.
  intros fuel c sch H. destruct (new_schema_fuel_tm _ _ _ H) as (Hd & _ & _ & _ & Hf & _).
  rewrite Hd. destruct (add_types_post _ _ _ _ _ Hf) as [Hp Hr]. split; auto.
  exact (post_closed _ _ _ (closed_nil _) Hp).
Qed.

Lemma append_type_fuel_closed : forall fuel S t S', closed (s_defs S) (s_tm S) ->
  append_type_fuel fuel S t = OK S' -> closed (s_defs S') (s_tm S') /\ incl (ids (s_tm S)) (ids (s_tm S')).
Proof.
  intros fuel S t S' Hc H. destruct (append_type_fuel_tm _ _ _ _ H) as (Hd & _ & _ & _ & Ha & _).
  rewrite Hd. destruct (add_type_post _ _ _ _ _ Ha) as [Hp _]. split.
  - exact (post_closed _ _ _ Hc Hp).
  - exact (proj1 Hp).
Qed.
