(* Fuel irrelevance of the overlap model: a run that completes within its fuel (no out-of-fuel
   flag) returns exactly the same conflicts and memo tables with any larger fuel -- memoised or
   not, cyclic documents included. *)
From Coq Require Import List Arith Lia Bool String NArith.
From GQL Require Import Exec.Syntax Validate.Overlap Validate.OverlapSpec
     Proofs.ValidateOverlap Proofs.ValidateMemo Proofs.ValidateReflect.
Import ListNotations.
Open Scope string_scope.
Open Scope list_scope.

Lemma seq_ext_clean : forall {A} (step step' : A -> mst -> list N * mst) l,
  (forall x st, m_oof st = true -> m_oof (snd (step x st)) = true) ->
  (forall x st, In x l -> m_oof st = false -> m_oof (snd (step x st)) = false -> step' x st = step x st) ->
  forall st, m_oof st = false -> m_oof (snd (seq step l st)) = false -> seq step' l st = seq step l st.
Proof.
  intros A step step' l Hm. induction l as [|x r IH]; intros H st Ho Hf; [reflexivity|].
  rewrite seq_cons in Hf. simpl in Hf.
  assert (O1 : m_oof (snd (step x st)) = false).
  { destruct (m_oof (snd (step x st))) eqn:E; [|reflexivity]. rewrite (seq_oof_mono step r Hm _ E) in Hf. discriminate. }
  rewrite !seq_cons. rewrite (H x st (or_introl eq_refl) Ho O1).
  rewrite (IH (fun y st' Hy => H y st' (or_intror Hy)) _ O1 Hf). reflexivity.
Qed.

Section Mono.
Variable S : schema.
Variable D : document.
Variable memo : bool.

Lemma fuel_mono : forall f k,
  (forall fl a b st, m_oof st = false -> m_oof (snd (Overlap.fc S D memo f fl a b st)) = false ->
     Overlap.fc S D memo (f + k) fl a b st = Overlap.fc S D memo f fl a b st) /\
  (forall fl l1 l2 st, m_oof st = false -> m_oof (snd (between S D memo f fl l1 l2 st)) = false ->
     between S D memo (f + k) fl l1 l2 st = between S D memo f fl l1 l2 st) /\
  (forall fl s1 s2 st, m_oof st = false -> m_oof (snd (Overlap.subsets S D memo f fl s1 s2 st)) = false ->
     Overlap.subsets S D memo (f + k) fl s1 s2 st = Overlap.subsets S D memo f fl s1 s2 st) /\
  (forall fl s g st, m_oof st = false -> m_oof (snd (ffrag S D memo f fl s g st)) = false ->
     ffrag S D memo (f + k) fl s g st = ffrag S D memo f fl s g st) /\
  (forall fl g1 g2 st, m_oof st = false -> m_oof (snd (frfr S D memo f fl g1 g2 st)) = false ->
     frfr S D memo (f + k) fl g1 g2 st = frfr S D memo f fl g1 g2 st).
Proof.
  induction f as [|f IH]; intro k.
  { split; [|split; [|split; [|split]]]; intros; simpl in *; discriminate. }
  destruct (IH k) as (Ifc & Ibt & Isub & Iff & Ifr). clear IH.
  destruct (oof_mono S D memo f) as (Mfc & Mbt & Msub & Mff & Mfr).
  change (Datatypes.S f + k) with (Datatypes.S (f + k)).
  split; [|split; [|split; [|split]]].
  - (* fc *) intros fl a b st Ho Hf. simpl in *.
    destruct (negb (base_ok S (fl || excl S a b) a b)); [reflexivity|].
    destruct (has_sub a && has_sub b); [|reflexivity].
    rewrite (Isub (fl || excl S a b) (sub_pt a, fe_sub a) (sub_pt b, fe_sub b) (inc_fc st) Ho); [reflexivity|].
    destruct (Overlap.subsets S D memo f (fl || excl S a b) (sub_pt a, fe_sub a) (sub_pt b, fe_sub b) (inc_fc st)) as [cs st']. exact Hf.
  - (* between *) intros fl l1 l2 st Ho Hf. simpl in *.
    apply seq_ext_clean; [| |exact Ho|exact Hf].
    + intros x st' H'. apply seq_oof_mono; [|exact H']. intros y st'' H''. apply seq_oof_mono; [|exact H'']. intros z st3 H3. apply Mfc. exact H3.
    + intros kx st1 _ Ho1 Hf1. apply seq_ext_clean; [| |exact Ho1|exact Hf1].
      * intros y st'' H''. apply seq_oof_mono; [|exact H'']. intros z st3 H3. apply Mfc. exact H3.
      * intros x st2 _ Ho2 Hf2. apply seq_ext_clean; [| |exact Ho2|exact Hf2].
        -- intros z st3 H3. apply Mfc. exact H3.
        -- intros y st3 _ Ho3 Hf3. apply Ifc; assumption.
  - (* subsets *) intros fl s1 s2 st Ho Hf. simpl in Hf. simpl.
    destruct (between S D memo f fl (dfields S (fst s1) (snd s1)) (dfields S (fst s2) (snd s2)) st) as [c1 st1] eqn:E1.
    destruct (seq (fun g => ffrag S D memo f fl s1 g) (dspreads (snd s2)) st1) as [c2 st2] eqn:E2.
    destruct (seq (fun g => ffrag S D memo f fl s2 g) (dspreads (snd s1)) st2) as [c3 st3] eqn:E3.
    destruct (seq (fun a => seq (fun b => frfr S D memo f fl a b) (dspreads (snd s2))) (dspreads (snd s1)) st3) as [c4 st4] eqn:E4.
    simpl in Hf.
    assert (O3 : m_oof st3 = false).
    { refine (seq_oof_back _ _ _ _ _ _ E4 Hf). intros x st' H'. apply seq_oof_mono; [|exact H']. intros y st'' H''. apply Mfr. exact H''. }
    assert (O2 : m_oof st2 = false).
    { refine (seq_oof_back _ _ _ _ _ _ E3 O3). intros x st' H'. apply Mff. exact H'. }
    assert (O1 : m_oof st1 = false).
    { refine (seq_oof_back _ _ _ _ _ _ E2 O2). intros x st' H'. apply Mff. exact H'. }
    rewrite (Ibt fl _ _ st Ho) by (rewrite E1; exact O1). rewrite E1.
    assert (R2 : seq (fun g => ffrag S D memo (f + k) fl s1 g) (dspreads (snd s2)) st1 = (c2, st2)).
    { rewrite <- E2. apply seq_ext_clean; [intros x st' H'; apply Mff; exact H' | | exact O1 | rewrite E2; exact O2].
      intros x st' _ H1 H2. apply Iff; assumption. }
    rewrite R2.
    assert (R3 : seq (fun g => ffrag S D memo (f + k) fl s2 g) (dspreads (snd s1)) st2 = (c3, st3)).
    { rewrite <- E3. apply seq_ext_clean; [intros x st' H'; apply Mff; exact H' | | exact O2 | rewrite E3; exact O3].
      intros x st' _ H1 H2. apply Iff; assumption. }
    rewrite R3.
    assert (R4 : seq (fun a => seq (fun b => frfr S D memo (f + k) fl a b) (dspreads (snd s2))) (dspreads (snd s1)) st3 = (c4, st4)).
    { rewrite <- E4. apply seq_ext_clean; [| | exact O3 | rewrite E4; exact Hf].
      - intros x st' H'. apply seq_oof_mono; [|exact H']. intros y st'' H''. apply Mfr. exact H''.
      - intros x st' _ H1 H2. apply seq_ext_clean; [intros y st'' H''; apply Mfr; exact H'' | | exact H1 | exact H2].
        intros y st'' _ H1' H2'. apply Ifr; assumption. }
    rewrite R4. reflexivity.
  - (* ffrag *) intros fl s g st Ho Hf. simpl in Hf. simpl.
    destruct (memo && ff_has st (fst s) (first_id (snd s)) g fl); [reflexivity|].
    set (st0 := if memo then ff_add st (fst s) (first_id (snd s)) g fl else st) in *.
    assert (E0 : m_oof st0 = false) by (unfold st0; destruct memo; exact Ho).
    destruct (frag D g) as [fr|]; [|reflexivity].
    destruct (same_set s (resolve S (fr_cond fr), fr_sel fr)); [reflexivity|].
    match type of Hf with context [between S D memo f fl ?x ?y ?z] =>
      destruct (between S D memo f fl x y z) as [c1 st1] eqn:E1 end.
    match type of Hf with context [seq ?stp ?l st1] => destruct (seq stp l st1) as [c2 st2] eqn:E2 end.
    simpl in Hf.
    assert (O1 : m_oof st1 = false).
    { refine (seq_oof_back _ _ _ _ _ _ E2 Hf). intros x st' H'. apply Mff. exact H'. }
    rewrite (Ibt fl _ _ st0 E0) by (rewrite E1; exact O1). rewrite E1.
    match goal with |- context [seq ?stp ?l st1] =>
      assert (R2 : seq stp l st1 = (c2, st2));
      [ rewrite <- E2; apply seq_ext_clean; [intros x st' H'; apply Mff; exact H' | | exact O1 | rewrite E2; exact Hf];
        intros x st' _ H1 H2; apply Iff; assumption
      | rewrite R2 ] end.
    reflexivity.
  - (* frfr *) intros fl g1 g2 st Ho Hf. simpl in Hf. simpl.
    destruct (frag D g1) as [f1|]; [|reflexivity].
    destruct (frag D g2) as [f2|]; [|reflexivity].
    destruct (String.eqb g1 g2); [reflexivity|].
    destruct (memo && pair_has st g1 g2 fl); [reflexivity|].
    set (st0 := if memo then pair_add st g1 g2 fl else st) in *.
    assert (E0 : m_oof st0 = false) by (unfold st0; destruct memo; exact Ho).
    match type of Hf with context [between S D memo f fl ?x ?y ?z] =>
      destruct (between S D memo f fl x y z) as [c1 st1] eqn:E1 end.
    match type of Hf with context [seq ?stp ?l st1] => destruct (seq stp l st1) as [c2 st2] eqn:E2 end.
    match type of Hf with context [seq ?stp ?l st2] => destruct (seq stp l st2) as [c3 st3] eqn:E3 end.
    simpl in Hf.
    assert (O2 : m_oof st2 = false).
    { refine (seq_oof_back _ _ _ _ _ _ E3 Hf). intros x st' H'. apply Mfr. exact H'. }
    assert (O1 : m_oof st1 = false).
    { refine (seq_oof_back _ _ _ _ _ _ E2 O2). intros x st' H'. apply Mfr. exact H'. }
    rewrite (Ibt fl _ _ st0 E0) by (rewrite E1; exact O1). rewrite E1.
    match goal with |- context [seq ?stp ?l st1] =>
      assert (R2 : seq stp l st1 = (c2, st2));
      [ rewrite <- E2; apply seq_ext_clean; [intros x st' H'; apply Mfr; exact H' | | exact O1 | rewrite E2; exact O2];
        intros x st' _ H1 H2; apply Ifr; assumption
      | rewrite R2 ] end.
    match goal with |- context [seq ?stp ?l st2] =>
      assert (R3 : seq stp l st2 = (c3, st3));
      [ rewrite <- E3; apply seq_ext_clean; [intros x st' H'; apply Mfr; exact H' | | exact O2 | rewrite E3; exact Hf];
        intros x st' _ H1 H2; apply Ifr; assumption
      | rewrite R3 ] end.
    reflexivity.
Qed.

Lemma pairs_within_mono : forall f k l st, m_oof st = false ->
  m_oof (snd (pairs_within S D memo f l st)) = false ->
  pairs_within S D memo (f + k) l st = pairs_within S D memo f l st.
Proof.
  intros f k l. induction l as [|a r IH]; intros st Ho Hf; [reflexivity|]. simpl in Hf. simpl.
  destruct (seq (fun b => Overlap.fc S D memo f false a b) r st) as [c1 st1] eqn:E1.
  destruct (pairs_within S D memo f r st1) as [c2 st2] eqn:E2. simpl in Hf.
  assert (O1 : m_oof st1 = false).
  { apply (oof_false_back st1 st2); [|exact Hf]. intro H'.
    pose proof (pairs_within_oof_mono S D memo f r st1 H') as R. rewrite E2 in R. exact R. }
  assert (R1 : seq (fun b => Overlap.fc S D memo (f + k) false a b) r st = (c1, st1)).
  { rewrite <- E1. apply seq_ext_clean; [intros x st' H'; apply (proj1 (oof_mono S D memo f)); exact H' | | exact Ho | rewrite E1; exact O1].
    intros x st' _ H1 H2. apply (proj1 (fuel_mono f k)); assumption. }
  rewrite R1. rewrite (IH st1 O1) by (rewrite E2; exact Hf). rewrite E2. reflexivity.
Qed.

Lemma frags_within_mono : forall f k s gs st, m_oof st = false ->
  m_oof (snd (frags_within S D memo f s gs st)) = false ->
  frags_within S D memo (f + k) s gs st = frags_within S D memo f s gs st.
Proof.
  intros f k s gs. induction gs as [|g r IH]; intros st Ho Hf; [reflexivity|]. simpl in Hf. simpl.
  destruct (oof_mono S D memo f) as (_ & _ & _ & Mff & Mfr).
  destruct (fuel_mono f k) as (_ & _ & _ & Iff & Ifr).
  destruct (ffrag S D memo f false s g st) as [c1 st1] eqn:E1.
  destruct (seq (fun h => frfr S D memo f false g h) r st1) as [c2 st2] eqn:E2.
  destruct (frags_within S D memo f s r st2) as [c3 st3] eqn:E3. simpl in Hf.
  assert (O2 : m_oof st2 = false).
  { apply (oof_false_back st2 st3); [|exact Hf]. intro H'.
    pose proof (frags_within_oof_mono S D memo f s r st2 H') as R. rewrite E3 in R. exact R. }
  assert (O1 : m_oof st1 = false).
  { refine (seq_oof_back _ _ _ _ _ _ E2 O2). intros x st' H'. apply Mfr. exact H'. }
  rewrite (Iff false s g st Ho) by (rewrite E1; exact O1). rewrite E1.
  assert (R2 : seq (fun h => frfr S D memo (f + k) false g h) r st1 = (c2, st2)).
  { rewrite <- E2. apply seq_ext_clean; [intros x st' H'; apply Mfr; exact H' | | exact O1 | rewrite E2; exact O2].
    intros x st' _ H1 H2. apply Ifr; assumption. }
  rewrite R2. rewrite (IH st2 O2) by (rewrite E3; exact Hf). rewrite E3. reflexivity.
Qed.

Lemma within_set_mono : forall f k s st, m_oof st = false ->
  m_oof (snd (within_set S D memo f s st)) = false ->
  within_set S D memo (f + k) s st = within_set S D memo f s st.
Proof.
  intros f k s st Ho Hf. unfold within_set in *.
  destruct (seq (fun kk => pairs_within S D memo f (with_key kk (dfields S (fst s) (snd s))))
                (keys_of (dfields S (fst s) (snd s))) st) as [c1 st1] eqn:E1.
  destruct (frags_within S D memo f s (dspreads (snd s)) st1) as [c2 st2] eqn:E2. simpl in Hf.
  assert (O1 : m_oof st1 = false).
  { apply (oof_false_back st1 st2); [|exact Hf]. intro H'.
    pose proof (frags_within_oof_mono S D memo f s (dspreads (snd s)) st1 H') as R. rewrite E2 in R. exact R. }
  assert (R1 : seq (fun kk => pairs_within S D memo (f + k) (with_key kk (dfields S (fst s) (snd s))))
                   (keys_of (dfields S (fst s) (snd s))) st = (c1, st1)).
  { rewrite <- E1. apply seq_ext_clean; [intros x st' H'; apply pairs_within_oof_mono; exact H' | | exact Ho | rewrite E1; exact O1].
    intros x st' _ H1 H2. apply pairs_within_mono; assumption. }
  rewrite R1. rewrite (frags_within_mono f k s _ st1 O1) by (rewrite E2; exact Hf). rewrite E2. reflexivity.
Qed.

Theorem run_fuel_mono : forall f f', f <= f' -> run_complete S D memo f = true ->
  run_overlap S D memo f' = run_overlap S D memo f /\ run_complete S D memo f' = true.
Proof.
  intros f f' L Hc. replace f' with (f + (f' - f)) by lia. generalize (f' - f). intro k.
  unfold run_complete in Hc. apply negb_true_iff in Hc.
  assert (E : seq (within_set S D memo (f + k)) (all_sets S D) mst0 = seq (within_set S D memo f) (all_sets S D) mst0).
  { apply seq_ext_clean; [intros x st' H'; apply within_set_oof_mono; exact H' | | reflexivity | exact Hc].
    intros x st' _ H1 H2. apply within_set_mono; assumption. }
  unfold run_overlap, run_complete. rewrite E. split; [reflexivity|]. rewrite Hc. reflexivity.
Qed.
End Mono.
