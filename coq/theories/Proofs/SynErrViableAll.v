(* The viable-prefix half of C18's syntax-error clause for the whole grammar: whatever the
   recogniser of a production had consumed when it failed can be continued to something the
   production derives; for documents: to a derivable, hence parsed, document. *)
From Coq Require Import String List NArith Bool Lia PeanoNat.
From GQL Require Import Base.Bytes Syntax.Lexer Syntax.Ast Syntax.Parser Syntax.Grammar SynErr.LexErr SynErr.ParseErr.
From GQL Require Import Proofs.SyntaxSound Proofs.SyntaxComplete Proofs.SynErrWB Proofs.SynErrErase Proofs.SynErrComplete
  Proofs.SynErrLang.
Import ListNotations.
Open Scope N_scope.

Create HintDb lang.

(* ---- inhabitants ---- *)
Definition kwtok (w : bytes) : token := mktok NAME 0 0 w.
Lemma Inh_kwd : forall w, Inh (TokL (is_kwd w)).
Proof. intro w. exists [kwtok w], (kwtok w). split; [reflexivity|]. unfold is_kwd. cbn. apply bytes_eqb_refl. Qed.
Lemma Inh_desc : Inh (TokL is_desc).
Proof. exists [ctok STRING], (ctok STRING). split; reflexivity. Qed.
Lemma Inh_optype : Inh (TokL is_optype).
Proof. exists [kwtok (kw "query")], (kwtok (kw "query")). split; reflexivity. Qed.
Lemma Inh_any : Inh (TokL (fun _ => true)).
Proof. exists [ctok NAME], (ctok NAME). split; reflexivity. Qed.

Ltac inh :=
  lazymatch goal with |- Inh ?L => tryif is_evar L then fail else idtac | _ => idtac end;
  repeat first
    [ assumption
    | apply Inh_TokL_k | apply Inh_kwd | apply Inh_desc | apply Inh_optype | apply Inh_EpsL | apply Inh_StarL
    | apply Inh_CatL | apply Inh_Plus
    | solve [eauto with lang]
    | (apply Inh_AltL_r; solve [inh]) | (apply Inh_AltL_l; solve [inh]) ].

(* take a structural language apart *)
Ltac tkfact :=
  repeat match goal with
         | H : is_k _ _ = true |- _ => unfold is_k in H; apply tkind_beq_eq in H
         | H : is_kwd _ _ = true |- _ =>
           unfold is_kwd in H; apply andb_true_iff in H;
           let H1 := fresh H in destruct H as [H1 H]; apply tkind_beq_eq in H1; apply bytes_eqb_eq in H
         end.
Ltac apart :=
  repeat match goal with
         | H : DelimL (LangOf _) _ _ _ _ |- _ => apply DelimL_DDelim in H; let l := fresh "l" in destruct H as [l H]
         | H : StarL (LangOf _) _ |- _ => apply StarL_DStar in H; let l := fresh "l" in destruct H as [l H]
         | H : SepL (LangOf _) _ _ |- _ => apply SepL_DSep in H; let l := fresh "l" in destruct H as [l H]
         | H : CatL _ _ _ |- _ => let a := fresh "p" in let b := fresh "p" in destruct H as (a & b & -> & ? & ?)
         | H : TokL _ _ |- _ => let t := fresh "t" in destruct H as (t & -> & ?)
         | H : LangOf _ _ |- _ => let a := fresh "x" in destruct H as [a ?]
         | H : AltL _ _ _ |- _ => destruct H as [H|H]
         | H : EpsL _ |- _ => red in H; subst
         end.

(* decompose the recogniser of a production *)
Ltac comp :=
  repeat first
    [ assumption
    | solve [eauto with lang]
    | apply SoundL_tokE | apply CompL_tokE
    | apply SoundL_okE | apply CompL_okE | apply SoundL_fuelE | apply CompL_fuelE
    | apply SoundL_reverseE | apply CompL_reverseE
    | apply SoundL_whileE | apply CompL_whileE
    | apply SoundL_sep_byE | apply CompL_sep_byE
    | apply SoundL_many1E | apply CompL_many1E
    | apply SoundL_manyE | apply CompL_manyE
    | apply SoundL_if_any | apply CompL_if_any
    | apply SoundL_if_ok | apply CompL_if_ok_alt
    | apply SoundL_fail_if | apply CompL_fail_if
    | apply SoundL_ifE_alt | apply CompL_ifE_alt
    | apply SoundL_seqE | apply CompL_seqE
    | inh ].

(* ---- values, types ---- *)
Lemma SoundL_value : forall f c, SoundL (parse_valueE f c) (LangOf (DValue c)).
Proof. intros f c. exact (SoundL_of _ _ _ _ (Er_parse_value f c) (parse_value_sound f c)). Qed.
Lemma CompL_value : forall f c, CompL (parse_valueE f c) (LangOf (DValue c)).
Proof. intros f c. exact (CompL_of _ _ _ (parse_valueE_completable f c)). Qed.
Lemma Inh_value : forall c, Inh (LangOf (DValue c)).
Proof. intro c. exists [cINT]. exact (some_value c). Qed.
Lemma SoundL_type : forall f, SoundL (parse_typeE f) (LangOf DType).
Proof. intro f. exact (SoundL_of _ _ _ _ (Er_parse_type f) (parse_type_sound f)). Qed.
Lemma CompL_type : forall f, CompL (parse_typeE f) (LangOf DType).
Proof. intro f. exact (CompL_of _ _ _ (parse_typeE_completable f)). Qed.
Lemma Inh_type_w : LangOf DType [cNAME].
Proof. eexists. apply DT_named. reflexivity. Qed.
Lemma Inh_type : Inh (LangOf DType).
Proof. exists [cNAME]. exact Inh_type_w. Qed.
#[export] Hint Resolve SoundL_value CompL_value Inh_value SoundL_type CompL_type Inh_type : lang.

(* ---- arguments, directives ---- *)
Lemma CompL_argument : forall f, CompL (parse_argumentE f) (LangOf DArgument).
Proof.
  intro f. unfold parse_argumentE. eapply CompL_mono; cycle 1; [comp|].
  intros p H. apart. tkfact. eexists. cbn [app]. apply DArg_intro; eassumption.
Qed.
Lemma SoundL_argument : forall f, SoundL (parse_argumentE f) (LangOf DArgument).
Proof. intro f. exact (SoundL_of _ _ _ _ (Er_parse_argument f) (parse_argument_sound f)). Qed.
Lemma Inh_argument : Inh (LangOf DArgument).
Proof. exists [cNAME; cCOLON; cINT]. eexists. apply DArg_intro; [reflexivity|reflexivity|apply DV_int; reflexivity]. Qed.
#[export] Hint Resolve CompL_argument SoundL_argument Inh_argument : lang.

Lemma SoundL_arguments : forall f, SoundL (parse_argumentsE f) (LangOf DArguments).
Proof. intro f. exact (SoundL_of _ _ _ _ (Er_parse_arguments f) (parse_arguments_sound f)). Qed.
Lemma CompL_arguments : forall f, CompL (parse_argumentsE f) (LangOf DArguments).
Proof.
  intro f. unfold parse_argumentsE. eapply CompL_mono; cycle 1; [comp|].
  intros p H. apart; [eexists; apply DOptDelim_some; eassumption|exists []; apply DOptDelim_none].
Qed.
Lemma Inh_arguments : Inh (LangOf DArguments).
Proof. exists []. eexists. apply DOptDelim_none. Qed.
#[export] Hint Resolve SoundL_arguments CompL_arguments Inh_arguments : lang.

Lemma SoundL_directive : forall f, SoundL (parse_directiveE f) (LangOf DDirec).
Proof. intro f. exact (SoundL_of _ _ _ _ (Er_parse_directive f) (parse_directive_sound f)). Qed.
Lemma CompL_directive : forall f, CompL (parse_directiveE f) (LangOf DDirec).
Proof.
  intro f. unfold parse_directiveE. eapply CompL_mono; cycle 1; [comp|].
  intros p H. apart. tkfact. eexists. cbn [app]. apply DDir_intro; eassumption.
Qed.
#[export] Hint Resolve SoundL_directive CompL_directive : lang.

Lemma SoundL_directives : forall f, SoundL (parse_directivesE f) (LangOf DDirecs).
Proof. intro f. exact (SoundL_of _ _ _ _ (Er_parse_directives f) (parse_directives_sound f)). Qed.
Lemma CompL_directives : forall f, CompL (parse_directivesE f) (LangOf DDirecs).
Proof.
  intro f. unfold parse_directivesE. eapply CompL_mono; cycle 1; [comp|].
  intros p H. apart. eexists. eassumption.
Qed.
Lemma Inh_directives : Inh (LangOf DDirecs).
Proof. exists []. eexists. constructor. Qed.
#[export] Hint Resolve SoundL_directives CompL_directives Inh_directives : lang.

(* ---- selection sets ---- *)
Definition xNAME : token := kwtok (kw "x").
Lemma SoundL_fragment_name : SoundL parse_fragment_nameE (LangOf DFragName).
Proof. exact (SoundL_of _ _ _ _ Er_parse_fragment_name parse_fragment_name_sound). Qed.
Lemma Inh_fragment_name : Inh (LangOf DFragName).
Proof. exists [xNAME]. eexists. apply DFragName_intro; [reflexivity|]. intro E. discriminate E. Qed.
Lemma CompL_fragment_name : CompL parse_fragment_nameE (LangOf DFragName).
Proof.
  intros ts r H. exists []. split.
  - unfold parse_fragment_nameE, ifE, caseE, parse_nameE, expectE, tokE, failE in H.
    destruct ts as [|t ts]; cbn [hd_error] in H; [inversion H; reflexivity|].
    destruct (is_kwd (kw "on") t); [inversion H; reflexivity|].
    destruct (is_k NAME t); [discriminate H|inversion H; reflexivity].
  - destruct Inh_fragment_name as [w Hw]. exists w. exact Hw.
Qed.
#[export] Hint Resolve SoundL_fragment_name Inh_fragment_name CompL_fragment_name : lang.

Lemma mk_field : forall n pa pd ps, tk n = NAME -> LangOf DArguments pa -> LangOf DDirecs pd ->
  (LangOf DSelSet ps \/ ps = []) -> LangOf (DSelectionOf DSelSet) (n :: pa ++ pd ++ ps).
Proof.
  intros n pa pd ps Kn [args Da] [dirs Dd] Hs.
  assert (exists sub, DOpt DSelSet ps sub) as [sub Ds].
  { destruct Hs as [[ss Hs]| ->]; [exists (Some ss); constructor; exact Hs|exists None; constructor]. }
  eexists. apply (DS_field DSelSet [n] None (tok_name n) pa args pd dirs ps sub); try assumption. constructor; exact Kn.
Qed.
Lemma mk_field_alias : forall a c n pa pd ps, tk a = NAME -> tk c = COLON -> tk n = NAME ->
  LangOf DArguments pa -> LangOf DDirecs pd -> (LangOf DSelSet ps \/ ps = []) ->
  LangOf (DSelectionOf DSelSet) (a :: c :: n :: pa ++ pd ++ ps).
Proof.
  intros a c n pa pd ps Ka Kc Kn [args Da] [dirs Dd] Hs.
  assert (exists sub, DOpt DSelSet ps sub) as [sub Ds].
  { destruct Hs as [[ss Hs]| ->]; [exists (Some ss); constructor; exact Hs|exists None; constructor]. }
  eexists. apply (DS_field DSelSet [a; c; n] (Some (tok_name a)) (tok_name n) pa args pd dirs ps sub); try assumption.
  constructor; assumption.
Qed.
Lemma mk_spread : forall s pn pd, tk s = SPREAD -> LangOf DFragName pn -> LangOf DDirecs pd ->
  LangOf (DSelectionOf DSelSet) (s :: pn ++ pd).
Proof. intros s pn pd Ks [n Dn] [dirs Dd]. eexists. apply DS_spread; eassumption. Qed.
Lemma mk_inline : forall s pt pd ps, tk s = SPREAD ->
  (pt = [] \/ exists o t, pt = [o; t] /\ tk o = NAME /\ tval o = kw "on" /\ tk t = NAME) ->
  LangOf DDirecs pd -> LangOf DSelSet ps -> LangOf (DSelectionOf DSelSet) (s :: pt ++ pd ++ ps).
Proof.
  intros s pt pd ps Ks Ht [dirs Dd] [ss Ds].
  assert (exists tc, DOpt DTypeCond pt tc) as [tc Dt].
  { destruct Ht as [->|(o & t & -> & Ko & Vo & Kt)]; [exists None; constructor|].
    eexists. apply DOpt_some. apply DTypeCond_intro; assumption. }
  eexists. apply DS_inline; eassumption.
Qed.

Lemma mk_inline_on : forall s o t pd ps, tk s = SPREAD -> tk o = NAME -> tval o = kw "on" -> tk t = NAME ->
  LangOf DDirecs pd -> LangOf DSelSet ps -> LangOf (DSelectionOf DSelSet) (s :: o :: t :: pd ++ ps).
Proof.
  intros s o t pd ps Ks Ko Vo Kt Hd Hs.
  exact (mk_inline s [o; t] pd ps Ks (or_intror (ex_intro _ o (ex_intro _ t (conj eq_refl (conj Ko (conj Vo Kt)))))) Hd Hs).
Qed.
Lemma mk_inline_plain : forall s pd ps, tk s = SPREAD -> LangOf DDirecs pd -> LangOf DSelSet ps ->
  LangOf (DSelectionOf DSelSet) (s :: pd ++ ps).
Proof. intros s pd ps Ks Hd Hs. exact (mk_inline s [] pd ps Ks (or_introl eq_refl) Hd Hs). Qed.

Section Sel.
  Variable psel : R.
  Hypothesis Sp : SoundL psel (LangOf DSelSet).
  Hypothesis Cp : CompL psel (LangOf DSelSet).
  Hypothesis Ip : Inh (LangOf DSelSet).

  Lemma CompL_field : forall f, CompL (parse_fieldE psel f) (LangOf (DSelectionOf DSelSet)).
  Proof.
    intro f. unfold parse_fieldE. eapply CompL_mono; cycle 1; [comp|].
    intros p H. apart; tkfact; cbn [app];
      first [ apply mk_field_alias | apply mk_field ]; eauto; try (eexists; eassumption); try (left; eexists; eassumption).
  Qed.
  Lemma CompL_fragment : forall f, CompL (parse_fragmentE psel f) (LangOf (DSelectionOf DSelSet)).
  Proof.
    intro f. unfold parse_fragmentE. eapply CompL_mono; cycle 1; [comp|].
    intros p H. apart; tkfact; cbn [app].
    - apply mk_spread; eauto; eexists; eassumption.
    - apply mk_inline_on; eauto; eexists; eassumption.
    - apply mk_inline_plain; eauto; eexists; eassumption.
  Qed.
  Lemma CompL_selection : forall f, CompL (parse_selectionE psel f) (LangOf (DSelectionOf DSelSet)).
  Proof.
    intro f. unfold parse_selectionE. apply CompL_ifE; [apply CompL_fragment|apply CompL_field].
  Qed.
End Sel.

Lemma SoundL_selset : forall f, SoundL (parse_selsetE f) (LangOf DSelSet).
Proof. intro f. exact (SoundL_of _ _ _ _ (Er_parse_selset f) (parse_selset_sound f)). Qed.
Lemma Inh_selection : Inh (LangOf (DSelectionOf DSelSet)).
Proof. exists [xNAME]. exact (mk_field xNAME [] [] [] eq_refl ltac:(eexists; apply DOptDelim_none) ltac:(eexists; constructor) (or_intror eq_refl)). Qed.
Lemma Inh_selset : Inh (LangOf DSelSet).
Proof.
  destruct Inh_selection as [w [s Hs]]. exists (ctok BRACE_L :: (w ++ []) ++ [ctok BRACE_R]). eexists.
  apply DSS_intro. constructor; [reflexivity|reflexivity|constructor; [exact Hs|constructor]|discriminate].
Qed.
#[export] Hint Resolve SoundL_selset Inh_selection Inh_selset : lang.

Lemma SoundL_selection : forall f, SoundL (parse_selectionE (parse_selsetE f) f) (LangOf (DSelectionOf DSelSet)).
Proof.
  intro f. exact (SoundL_of _ _ _ _ (Er_parse_selection _ _ (Er_parse_selset f) f) (parse_selection_sound _ f (parse_selset_sound f))).
Qed.

Lemma CompL_selset : forall f, CompL (parse_selsetE f) (LangOf DSelSet).
Proof.
  induction f as [|f IH]; cbn [parse_selsetE]; [apply CompL_fuelE|].
  eapply CompL_mono; cycle 1.
  - apply CompL_reverseE; [apply SoundL_selection|apply CompL_selection; first [exact IH|apply SoundL_selset|apply Inh_selset]|apply Inh_selection].
  - intros p H. apart. eexists. apply DSS_intro. eassumption.
Qed.
#[export] Hint Resolve CompL_selset : lang.

(* ---- operations, fragment definitions ---- *)
Lemma SoundL_vardefs : forall f, SoundL (parse_vardefsE f) (LangOf DVarDefs).
Proof. intro f. exact (SoundL_of _ _ _ _ (Er_parse_vardefs f) (parse_vardefs_sound f)). Qed.
Lemma SoundL_vardef : forall f, SoundL (parse_vardefE f) (LangOf DVarDef).
Proof. intro f. exact (SoundL_of _ _ _ _ (Er_parse_vardef f) (parse_vardef_sound f)). Qed.
Lemma mk_vardef : forall d n c pt pv, tk d = DOLLAR -> tk n = NAME -> tk c = COLON -> LangOf DType pt ->
  (pv = [] \/ exists e pv', pv = e :: pv' /\ tk e = EQUALS /\ LangOf (DValue true) pv') ->
  LangOf DVarDef (d :: n :: c :: pt ++ pv).
Proof.
  intros d n c pt pv Kd Kn Kc [t Dt] Hv.
  assert (exists dv, DOpt DDefault pv dv) as [dv Dd].
  { destruct Hv as [->|(e & pv' & -> & Ke & [v Dv])]; [exists None; constructor|].
    eexists. apply DOpt_some. apply DDefault_intro; eassumption. }
  eexists. apply DVD_intro; eassumption.
Qed.
Lemma CompL_vardef : forall f, CompL (parse_vardefE f) (LangOf DVarDef).
Proof.
  intro f. unfold parse_vardefE, parse_defaultE. eapply CompL_mono; cycle 1; [comp|].
  intros p H. apart; tkfact; cbn [app]; apply mk_vardef; eauto; try (eexists; eassumption).
  right. eexists; eexists. split; [reflexivity|]. split; [eassumption|eexists; eassumption].
Qed.
Lemma Inh_vardef : Inh (LangOf DVarDef).
Proof.
  exists (ctok DOLLAR :: xNAME :: cCOLON :: [cNAME] ++ []).
  apply mk_vardef; try reflexivity; [apply Inh_type_w|left; reflexivity].
Qed.
#[export] Hint Resolve SoundL_vardefs SoundL_vardef CompL_vardef Inh_vardef : lang.

Lemma CompL_vardefs : forall f, CompL (parse_vardefsE f) (LangOf DVarDefs).
Proof.
  intro f. unfold parse_vardefsE. eapply CompL_mono; cycle 1; [comp|].
  intros p H. apart; [eexists; apply DOptDelim_some; eassumption|exists []; apply DOptDelim_none].
Qed.
Lemma Inh_vardefs : Inh (LangOf DVarDefs).
Proof. exists []. eexists. apply DOptDelim_none. Qed.
#[export] Hint Resolve CompL_vardefs Inh_vardefs : lang.

Lemma is_optype_of : forall t, is_optype t = true -> tk t = NAME /\ exists op, optype_of (tval t) = Some op.
Proof.
  intros t H. unfold is_optype in H. apply andb_true_iff in H. destruct H as [K V]. unfold is_k in K. apply tkind_beq_eq in K.
  split; [exact K|]. unfold optype_of.
  destruct (bytes_eqb (tval t) (kw "query")); [eauto|].
  destruct (bytes_eqb (tval t) (kw "mutation")); [eauto|].
  destruct (bytes_eqb (tval t) (kw "subscription")); [eauto|discriminate V].
Qed.

Lemma mk_operation : forall k pn pv pd ps, is_optype k = true -> (pn = [] \/ exists n, pn = [n] /\ tk n = NAME) ->
  LangOf DVarDefs pv -> LangOf DDirecs pd -> LangOf DSelSet ps -> LangOf DOperation (k :: pn ++ pv ++ pd ++ ps).
Proof.
  intros k pn pv pd ps Hk Hn [vds Dv] [dirs Dd] [ss Ds]. destruct (is_optype_of _ Hk) as [Kk [op Ho]].
  assert (exists nm, DOpt DName pn nm) as [nm Dn].
  { destruct Hn as [->|(n & -> & Kn)]; [exists None; constructor|eexists; apply DOpt_some; constructor; exact Kn]. }
  eexists. apply DO_full; eassumption.
Qed.
Lemma CompL_operation : forall f, CompL (parse_operationE f) (LangOf DOperation).
Proof.
  intro f. unfold parse_operationE, parse_optypeE. eapply CompL_mono; cycle 1; [comp|].
  intros p H. apart; tkfact; cbn [app].
  - eexists. apply DO_short. eassumption.
  - match goal with |- LangOf DOperation (?k :: ?n :: ?rest) => change (k :: n :: rest) with (k :: [n] ++ rest) end.
    apply mk_operation; eauto; try (eexists; eassumption); try (right; eauto).
  - match goal with |- LangOf DOperation (?k :: ?rest) => change (k :: rest) with (k :: [] ++ rest) end.
    apply mk_operation; eauto; try (eexists; eassumption).
Qed.

Lemma CompL_fragment_definition : forall f, CompL (parse_fragment_definitionE f) (LangOf DFragment).
Proof.
  intro f. unfold parse_fragment_definitionE. eapply CompL_mono; cycle 1; [comp|].
  intros p H. apart. tkfact. cbn [app].
  match goal with H : DFragName ?pn _ |- _ => inversion H; subst end. cbn [app].
  match goal with Hd : DDirecs ?pd ?dirs, Hs : DSelSet ?ps ?ss |- LangOf DFragment (?f :: ?n :: ?o :: ?t :: ?pd ++ ?ps) =>
    exists (mkfragdef (tok_name n) (tok_named t) dirs ss (span (f :: [n] ++ o :: t :: pd ++ ps)));
    apply (DF_intro f [n] (tok_name n) o t pd dirs ps ss) end; try assumption.
Qed.

(* the executable definitions: whatever the recogniser of an operation / a fragment definition had
   consumed when it failed begins a derivable one *)
Theorem executable_viable_prefix : forall f,
  (forall u t rest, parse_operationE f (u ++ t :: rest) = ErrE (t :: rest) -> exists cont o, DOperation (u ++ cont) o) /\
  (forall u t rest, parse_fragment_definitionE f (u ++ t :: rest) = ErrE (t :: rest) -> exists cont d, DFragment (u ++ cont) d) /\
  (forall u t rest, parse_selsetE f (u ++ t :: rest) = ErrE (t :: rest) -> exists cont ss, DSelSet (u ++ cont) ss).
Proof.
  intro f. repeat split; intros u t rest H.
  - destruct (CompL_operation f _ _ H) as (u' & E & cont & [o D]). apply app_inv_tail in E. subst u'. eauto.
  - destruct (CompL_fragment_definition f _ _ H) as (u' & E & cont & [o D]). apply app_inv_tail in E. subst u'. eauto.
  - destruct (CompL_selset f _ _ H) as (u' & E & cont & [o D]). apply app_inv_tail in E. subst u'. eauto.
Qed.
