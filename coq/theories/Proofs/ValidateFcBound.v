(* C19: a closed-form bound on the number of findConflict calls of the memoised overlap
   algorithm: with M the size (in field nodes) of the largest selection-set tree,
     calls <= M*M * (number of visited selection sets + memo entries),
   by an amortised analysis: every non-memoised body of collectConflictsBetween
   {FieldsAndFragment, Fragments} adds a memo entry that pays for its own field
   comparisons (at most M*M), and the comparisons below two fields are bounded by the
   product of the sizes of their sub-selections. *)
From Coq Require Import List Arith Lia Bool String NArith.
From GQL Require Import Exec.Syntax Validate.Overlap Validate.Cost
     Proofs.ValidateRules Proofs.ValidateOverlap Proofs.ValidateMemo Proofs.ValidateCost Proofs.ValidateMemoHard.
Import ListNotations.
Open Scope string_scope.
Open Scope list_scope.

Definition w (a : fentry) : nat := Datatypes.S (sels_sz (fe_sub a)).
Definition Wt (l : list fentry) : nat := fold_right (fun a n => w a + n) O l.

Lemma Wt_app : forall l1 l2, Wt (l1 ++ l2) = Wt l1 + Wt l2.
Proof. induction l1 as [|a r IH]; intro l2; simpl; [reflexivity|]. rewrite IH. lia. Qed.

Lemma sel_sz_inline : forall id tc ds sub, sel_sz (SInline id tc ds sub) = sels_sz sub.
Proof. intros. simpl. unfold sels_sz. induction sub as [|x r IH]; simpl; [reflexivity | now rewrite IH]. Qed.
Lemma sel_sz_field : forall id al nm args ds sub, sel_sz (SField id al nm args ds sub) = Datatypes.S (sels_sz sub).
Proof. intros. reflexivity. Qed.

Lemma Wt_dfields_sel : forall S s pt, Wt (dfields_sel S pt s) = sel_sz s.
Proof.
  intros S s. induction s as [id al nm args ds sub IH | id g ds | id tc ds sub IH] using selection_ind'; intro pt.
  - rewrite sel_sz_field. simpl. unfold w. simpl. lia.
  - reflexivity.
  - rewrite dfields_inline, sel_sz_inline. unfold dfields, sels_sz.
    induction sub as [|x r IHr]; simpl; [reflexivity|]. inversion IH as [|? ? Hx Hr]; subst.
    rewrite Wt_app, (Hx (inline_pt S pt tc)), (IHr Hr). reflexivity.
Qed.

Lemma Wt_dfields : forall S pt ss, Wt (dfields S pt ss) = sels_sz ss.
Proof.
  intros S pt ss. unfold dfields, sels_sz. induction ss as [|x r IH]; simpl; [reflexivity|].
  rewrite Wt_app, Wt_dfields_sel, IH. reflexivity.
Qed.

Lemma Wt_in : forall l a, In a l -> w a <= Wt l.
Proof.
  induction l as [|x r IH]; intros a H; [destruct H|]. change (Wt (x :: r)) with (w x + Wt r).
  destruct H as [H|H]; [subst x; lia | specialize (IH a H); lia].
Qed.

Lemma Wt_filter : forall (p : fentry -> bool) l, Wt (filter p l) <= Wt l.
Proof. intros p l. induction l as [|x r IH]; simpl; [lia|]. destruct (p x); simpl; lia. Qed.

(* partition of a field list by response key *)
Lemma Wt_partition_step : forall a r ks, NoDup ks ->
  fold_right (fun k n => Wt (with_key k (a :: r)) + n) O ks =
  fold_right (fun k n => Wt (with_key k r) + n) O ks + (if nmem (fe_key a) ks then w a else 0).
Proof.
  intros a r ks. induction ks as [|k ks' IH]; intro ND; [reflexivity|].
  inversion ND as [|? ? Hnk ND']; subst.
  change (fold_right (fun k n => Wt (with_key k (a :: r)) + n) 0 (k :: ks'))
    with (Wt (with_key k (a :: r)) + fold_right (fun k n => Wt (with_key k (a :: r)) + n) 0 ks').
  change (fold_right (fun k n => Wt (with_key k r) + n) 0 (k :: ks'))
    with (Wt (with_key k r) + fold_right (fun k n => Wt (with_key k r) + n) 0 ks').
  rewrite (IH ND'). unfold with_key at 1. cbn [filter nmem].
  destruct (String.eqb (fe_key a) k) eqn:E.
  - apply String.eqb_eq in E. subst k.
    assert (Z : nmem (fe_key a) ks' = false) by (apply nmem_not_in; exact Hnk).
    rewrite Z. cbn [orb]. change (Wt (a :: filter (fun e => String.eqb (fe_key e) (fe_key a)) r))
      with (w a + Wt (with_key (fe_key a) r)). lia.
  - cbn [orb]. fold (with_key k r). lia.
Qed.

Lemma Wt_partition : forall l ks, NoDup ks -> (forall a, In a l -> In (fe_key a) ks) ->
  fold_right (fun k n => Wt (with_key k l) + n) O ks = Wt l.
Proof.
  induction l as [|a r IH]; intros ks ND Hk.
  - clear. induction ks as [|k ks' IHk]; [reflexivity|].
    change (fold_right (fun k n => Wt (with_key k []) + n) 0 (k :: ks'))
      with (Wt (with_key k []) + fold_right (fun k n => Wt (with_key k []) + n) 0 ks').
    rewrite IHk. reflexivity.
  - rewrite (Wt_partition_step a r ks ND).
    rewrite (IH ks ND (fun x Hx => Hk x (or_intror Hx))).
    assert (Z : nmem (fe_key a) ks = true) by (apply nmem_in; apply Hk; left; reflexivity).
    rewrite Z. change (Wt (a :: r)) with (w a + Wt r). lia.
Qed.

Lemma dedup_nodup : forall l seen, NoDup (dedup l seen) /\ forall x, In x (dedup l seen) -> ~ In x seen.
Proof.
  induction l as [|y r IH]; intro seen; simpl; [split; [constructor | intros x []]|].
  destruct (nmem y seen) eqn:E; [apply IH|].
  apply nmem_not_in in E. destruct (IH (y :: seen)) as [ND Hn]. split.
  - constructor; [|exact ND]. intro K. apply (Hn y K). left. reflexivity.
  - intros x [Hx|Hx]; [subst; exact E|]. intro K. apply (Hn x Hx). right. exact K.
Qed.

Lemma keys_partition : forall l, fold_right (fun k n => Wt (with_key k l) + n) O (keys_of l) = Wt l.
Proof.
  intro l. apply Wt_partition; [apply (proj1 (dedup_nodup _ _))|].
  intros a Ha. apply keys_of_mem. exact Ha.
Qed.

Section Bound.
Variable S : schema.
Variable D : document.
Notation F := (fun s : fset => dfields S (fst s) (snd s)).
Notation DS := (DS S D).
Notation M := (max_set_size S D).
Notation K := (max_set_size S D * max_set_size S D).

Definition Phi (st : mst) : nat := List.length (m_ffs st) + List.length (m_pairs st).

(* cost after + K * entries before <= cost before + local + K * entries after *)
Definition am (st st' : mst) (c : nat) : Prop :=
  m_fc st' + K * Phi st <= m_fc st + c + K * Phi st' /\ Phi st <= Phi st'.

Lemma am_refl : forall st, am st st 0.
Proof. intro st. split; lia. Qed.
Lemma am_trans : forall a b c x y, am a b x -> am b c y -> am a c (x + y).
Proof. intros a b c x y [H1 H2] [H3 H4]. split; lia. Qed.
Lemma am_weaken : forall a b x y, x <= y -> am a b x -> am a b y.
Proof. intros a b x y L [H1 H2]. split; lia. Qed.

Lemma seq_am : forall {A} (step : A -> mst -> list N * mst) (c : A -> nat) (l : list A),
  (forall x st, In x l -> am st (snd (step x st)) (c x)) ->
  forall st, am st (snd (seq step l st)) (fold_right (fun x n => c x + n) O l).
Proof.
  intros A step c l. unfold seq.
  assert (G : forall l, (forall x st, In x l -> am st (snd (step x st)) (c x)) ->
    forall acc, am (snd acc)
      (snd (fold_left (fun acc x => let '(cs, st') := step x (snd acc) in (fst acc ++ cs, st')) l acc))
      (fold_right (fun x n => c x + n) O l)).
  { clear l. induction l as [|x r IH]; intros H acc; simpl; [apply am_refl|].
    pose proof (H x (snd acc) (or_introl eq_refl)) as Hx.
    destruct (step x (snd acc)) as [cs st'] eqn:E. simpl in Hx.
    eapply am_trans; [exact Hx|]. apply (IH (fun y st Hy => H y st (or_intror Hy)) (fst acc ++ cs, st')). }
  intros H st. apply (G l H ([], st)).
Qed.

Lemma seq_am0 : forall {A} (step : A -> mst -> list N * mst) (l : list A),
  (forall x st, In x l -> am st (snd (step x st)) 0) ->
  forall st, am st (snd (seq step l st)) 0.
Proof.
  intros A step l H st. pose proof (seq_am step (fun _ => 0) l H st) as R.
  assert (Z : fold_right (fun (_ : A) n => 0 + n) 0 l = 0) by (clear; induction l; simpl; auto).
  cbv beta in R. rewrite Z in R. exact R.
Qed.

Lemma DS_size : forall s, DS s -> Wt (F s) <= M.
Proof.
  intros s H. cbv beta. rewrite Wt_dfields. induction H as [s Hs | g fr Hf | s e Hs IH He].
  - unfold max_set_size.
    assert (G : forall (l : list fset) x, In x l -> sels_sz (snd x) <= list_max (map (fun s => sels_sz (snd s)) l)).
    { induction l as [|y r IHl]; intros x Hx; [destruct Hx|]. simpl. destruct Hx as [Hx|Hx]; [subst; lia | specialize (IHl x Hx); lia]. }
    apply G. apply in_or_app. left. exact Hs.
  - unfold max_set_size.
    assert (G : forall (l : list fset) x, In x l -> sels_sz (snd x) <= list_max (map (fun s => sels_sz (snd s)) l)).
    { induction l as [|y r IHl]; intros x Hx; [destruct Hx|]. simpl. destruct Hx as [Hx|Hx]; [subst; lia | specialize (IHl x Hx); lia]. }
    apply (G _ (body_of S fr)). apply in_or_app. right.
    assert (Hn : In g (map fr_name (d_frags D))) by (apply frag_defined; rewrite Hf; discriminate).
    apply in_map_iff in Hn. destruct Hn as [f0 [En Hf0]]. unfold frag_bodies. apply in_flat_map.
    exists f0. split; [exact Hf0|]. rewrite En, Hf. left. reflexivity.
  - simpl. pose proof (Wt_in _ _ He) as L. rewrite Wt_dfields in L. unfold w in L. simpl in IH. lia.
Qed.

Lemma Phi_ff_add : forall st p k g fl, Phi (ff_add st p k g fl) = Datatypes.S (Phi st).
Proof. intros. unfold Phi, ff_add. simpl. lia. Qed.
Lemma Phi_pair_add : forall st a b fl, Phi (pair_add st a b fl) = Datatypes.S (Datatypes.S (Phi st)).
Proof. intros. unfold Phi, pair_add. simpl. lia. Qed.

Lemma am_inc_then : forall st st' c, am (inc_fc st) st' c -> am st st' (1 + c).
Proof.
  intros st st' c [H1 H2]. change (Phi (inc_fc st)) with (Phi st) in H1, H2.
  change (m_fc (inc_fc st)) with (Datatypes.S (m_fc st)) in H1. split; lia.
Qed.
Lemma am_inc : forall st, am st (inc_fc st) 1.
Proof. intro st. apply (am_inc_then st (inc_fc st) 0). apply am_refl. Qed.

Lemma sum_const_mul : forall (l : list fentry) x,
  fold_right (fun b n => x * w b + n) O l = x * Wt l.
Proof.
  induction l as [|b r IH]; intro x; [simpl; lia|].
  change (fold_right (fun b n => x * w b + n) 0 (b :: r)) with (x * w b + fold_right (fun b n => x * w b + n) 0 r).
  change (Wt (b :: r)) with (w b + Wt r). rewrite IH. nia.
Qed.

Lemma sum_mul_r : forall (l : list fentry) x,
  fold_right (fun a n => w a * x + n) O l = Wt l * x.
Proof.
  induction l as [|a r IH]; intro x; [simpl; lia|].
  change (fold_right (fun a n => w a * x + n) 0 (a :: r)) with (w a * x + fold_right (fun a n => w a * x + n) 0 r).
  change (Wt (a :: r)) with (w a + Wt r). rewrite IH. nia.
Qed.

Lemma sum_keys_le : forall ks l1 l2,
  fold_right (fun k n => Wt (with_key k l1) * Wt (with_key k l2) + n) O ks <=
  fold_right (fun k n => Wt (with_key k l1) + n) O ks * Wt l2.
Proof.
  induction ks as [|k ks' IH]; intros l1 l2; [simpl; lia|].
  change (fold_right (fun k n => Wt (with_key k l1) * Wt (with_key k l2) + n) 0 (k :: ks'))
    with (Wt (with_key k l1) * Wt (with_key k l2) + fold_right (fun k n => Wt (with_key k l1) * Wt (with_key k l2) + n) 0 ks').
  change (fold_right (fun k n => Wt (with_key k l1) + n) 0 (k :: ks'))
    with (Wt (with_key k l1) + fold_right (fun k n => Wt (with_key k l1) + n) 0 ks').
  specialize (IH l1 l2). pose proof (Wt_filter (fun e => String.eqb (fe_key e) k) l2) as L.
  fold (with_key k l2) in L. nia.
Qed.

Lemma amortised : forall f,
  (forall fl a b sa sb st, DS sa -> DS sb -> In a (F sa) -> In b (F sb) ->
     am st (snd (Overlap.fc S D true f fl a b st)) (w a * w b)) /\
  (forall fl s1 s2 l1 l2 st, DS s1 -> DS s2 -> incl l1 (F s1) -> incl l2 (F s2) ->
     am st (snd (between S D true f fl l1 l2 st)) (Wt l1 * Wt l2)) /\
  (forall fl s1 s2 st, DS s1 -> DS s2 ->
     am st (snd (Overlap.subsets S D true f fl s1 s2 st)) (Wt (F s1) * Wt (F s2))) /\
  (forall fl s g st, DS s -> am st (snd (ffrag S D true f fl s g st)) 0) /\
  (forall fl g1 g2 st, am st (snd (frfr S D true f fl g1 g2 st)) 0).
Proof.
  induction f as [|f IH].
  { split; [|split; [|split; [|split]]]; intros; simpl; split; unfold Phi; simpl; lia. }
  destruct IH as (Ifc & Ibt & Isub & Iff & Ifr).
  split; [|split; [|split; [|split]]].
  - (* fc *) intros fl a b sa sb st Hsa Hsb Ha Hb. simpl.
    assert (W1 : 1 <= w a * w b) by (unfold w; simpl; lia).
    destruct (negb (base_ok S (fl || excl S a b) a b)); [cbn [snd]; apply (am_weaken _ _ 1 _ W1); apply am_inc|].
    destruct (has_sub a && has_sub b).
    + pose proof (Isub (fl || excl S a b) (sub_pt a, fe_sub a) (sub_pt b, fe_sub b) (inc_fc st)
                       (DS_sub S D sa a Hsa Ha) (DS_sub S D sb b Hsb Hb)) as A.
      destruct (Overlap.subsets S D true f (fl || excl S a b) (sub_pt a, fe_sub a) (sub_pt b, fe_sub b) (inc_fc st)) as [cs st'].
      cbn [snd fst] in *. rewrite !Wt_dfields in A.
      assert (W2 : 1 + sels_sz (fe_sub a) * sels_sz (fe_sub b) <= w a * w b) by (unfold w; nia).
      apply (am_weaken _ _ _ _ W2). apply am_inc_then. exact A.
    + cbn [snd]. apply (am_weaken _ _ 1 _ W1). apply am_inc.
  - (* between *) intros fl s1 s2 l1 l2 st H1 H2 I1 I2. simpl.
    eapply am_weaken; [|apply (seq_am
        (fun k => seq (fun a => seq (fun b => Overlap.fc S D true f fl a b) (with_key k l2)) (with_key k l1))
        (fun k => Wt (with_key k l1) * Wt (with_key k l2)) (keys_of l1))].
    + rewrite <- (keys_partition l1). apply sum_keys_le.
    + intros k st1 _.
      eapply am_weaken; [|apply (seq_am (fun a => seq (fun b => Overlap.fc S D true f fl a b) (with_key k l2))
                                        (fun a => w a * Wt (with_key k l2)) (with_key k l1))].
      * rewrite sum_mul_r. lia.
      * intros a st2 Ha.
        eapply am_weaken; [|apply (seq_am (fun b => Overlap.fc S D true f fl a b) (fun b => w a * w b) (with_key k l2))].
        -- rewrite sum_const_mul. lia.
        -- intros b st3 Hb. apply (Ifc fl a b s1 s2 st3 H1 H2).
           ++ apply I1. apply (proj1 (with_key_in _ _ _ Ha)).
           ++ apply I2. apply (proj1 (with_key_in _ _ _ Hb)).
  - (* subsets *) intros fl s1 s2 st H1 H2. simpl.
    pose proof (Ibt fl s1 s2 (F s1) (F s2) st H1 H2 (incl_refl _) (incl_refl _)) as A1.
    destruct (between S D true f fl (dfields S (fst s1) (snd s1)) (dfields S (fst s2) (snd s2)) st) as [c1 st1].
    pose proof (seq_am0 (fun g => ffrag S D true f fl s1 g) (dspreads (snd s2))
                 (fun g st0 _ => Iff fl s1 g st0 H1) st1) as A2.
    destruct (seq (fun g => ffrag S D true f fl s1 g) (dspreads (snd s2)) st1) as [c2 st2].
    pose proof (seq_am0 (fun g => ffrag S D true f fl s2 g) (dspreads (snd s1))
                 (fun g st0 _ => Iff fl s2 g st0 H2) st2) as A3.
    destruct (seq (fun g => ffrag S D true f fl s2 g) (dspreads (snd s1)) st2) as [c3 st3].
    pose proof (seq_am0 (fun a => seq (fun b => frfr S D true f fl a b) (dspreads (snd s2))) (dspreads (snd s1))
                 (fun a st0 _ => seq_am0 (fun b => frfr S D true f fl a b) (dspreads (snd s2))
                                   (fun b st5 _ => Ifr fl a b st5) st0) st3) as A4.
    destruct (seq (fun a => seq (fun b => frfr S D true f fl a b) (dspreads (snd s2))) (dspreads (snd s1)) st3) as [c4 st4].
    cbn [snd fst] in *.
    destruct A1 as [a1 b1]. destruct A2 as [a2 b2]. destruct A3 as [a3 b3]. destruct A4 as [a4 b4]. split; lia.
  - (* ffrag *) intros fl s g st Hs. simpl.
    destruct (ff_has st (fst s) (first_id (snd s)) g fl); [apply am_refl|].
    set (st0 := ff_add st (fst s) (first_id (snd s)) g fl).
    assert (P0 : Phi st0 = Datatypes.S (Phi st)) by apply Phi_ff_add.
    assert (C0 : m_fc st0 = m_fc st) by reflexivity.
    destruct (frag D g) as [fr|] eqn:Ef; [|split; simpl; lia].
    destruct (same_set s (resolve S (fr_cond fr), fr_sel fr)); [split; simpl; lia|].
    pose proof (Ibt fl s (body_of S fr) (F s) (F (body_of S fr)) st0 Hs (DS_frag S D g fr Ef) (incl_refl _) (incl_refl _)) as A1.
    pose proof (DS_size s Hs) as B1. pose proof (DS_size (body_of S fr) (DS_frag S D g fr Ef)) as B2.
    unfold body_of in A1, B2. simpl in A1, B2.
    destruct (between S D true f fl (dfields S (fst s) (snd s)) (dfields S (resolve S (fr_cond fr)) (fr_sel fr)) st0) as [c1 st1].
    pose proof (seq_am0 (fun h => ffrag S D true f fl s h) (dspreads (fr_sel fr))
                 (fun h st5 _ => Iff fl s h st5 Hs) st1) as A2.
    destruct (seq (fun h => ffrag S D true f fl s h) (dspreads (fr_sel fr)) st1) as [c2 st2].
    cbn [snd fst] in *. destruct A1 as [a1 b1]. destruct A2 as [a2 b2].
    assert (WW : Wt (dfields S (fst s) (snd s)) * Wt (dfields S (resolve S (fr_cond fr)) (fr_sel fr)) <= K) by nia.
    split; [nia | lia].
  - (* frfr *) intros fl g1 g2 st. simpl.
    destruct (frag D g1) as [f1|] eqn:Ef1; [|apply am_refl].
    destruct (frag D g2) as [f2|] eqn:Ef2; [|apply am_refl].
    destruct (String.eqb g1 g2); [apply am_refl|].
    destruct (pair_has st g1 g2 fl); [apply am_refl|].
    set (st0 := pair_add st g1 g2 fl).
    assert (P0 : Phi st0 = Datatypes.S (Datatypes.S (Phi st))) by apply Phi_pair_add.
    assert (C0 : m_fc st0 = m_fc st) by reflexivity.
    pose proof (Ibt fl (body_of S f1) (body_of S f2) (F (body_of S f1)) (F (body_of S f2)) st0
                    (DS_frag S D g1 f1 Ef1) (DS_frag S D g2 f2 Ef2) (incl_refl _) (incl_refl _)) as A1.
    pose proof (DS_size (body_of S f1) (DS_frag S D g1 f1 Ef1)) as B1.
    pose proof (DS_size (body_of S f2) (DS_frag S D g2 f2 Ef2)) as B2.
    unfold body_of in A1, B1, B2. simpl in A1, B1, B2.
    destruct (between S D true f fl (dfields S (resolve S (fr_cond f1)) (fr_sel f1))
                      (dfields S (resolve S (fr_cond f2)) (fr_sel f2)) st0) as [c1 st1].
    pose proof (seq_am0 (fun h => frfr S D true f fl g1 h) (dspreads (fr_sel f2))
                 (fun h st5 _ => Ifr fl g1 h st5) st1) as A2.
    destruct (seq (fun h => frfr S D true f fl g1 h) (dspreads (fr_sel f2)) st1) as [c2 st2].
    pose proof (seq_am0 (fun h => frfr S D true f fl h g2) (dspreads (fr_sel f1))
                 (fun h st5 _ => Ifr fl h g2 st5) st2) as A3.
    destruct (seq (fun h => frfr S D true f fl h g2) (dspreads (fr_sel f1)) st2) as [c3 st3].
    cbn [snd fst] in *. destruct A1 as [a1 b1]. destruct A2 as [a2 b2]. destruct A3 as [a3 b3].
    assert (WW : Wt (dfields S (resolve S (fr_cond f1)) (fr_sel f1)) * Wt (dfields S (resolve S (fr_cond f2)) (fr_sel f2)) <= K) by nia.
    split; [nia | lia].
Qed.

Lemma pairs_within_am : forall fuel s l st, DS s -> incl l (F s) ->
  am st (snd (pairs_within S D true fuel l st)) (Wt l * Wt l).
Proof.
  intros fuel s l. induction l as [|a r IH]; intros st Hs Hi; cbn [pairs_within]; [apply am_refl|].
  destruct (amortised fuel) as (Ifc & _).
  pose proof (seq_am (fun b => Overlap.fc S D true fuel false a b) (fun b => w a * w b) r
               (fun b st0 Hb => Ifc false a b s s st0 Hs Hs (Hi a (or_introl eq_refl)) (Hi b (or_intror Hb))) st) as A1.
  destruct (seq (fun b => Overlap.fc S D true fuel false a b) r st) as [c1 st1].
  specialize (IH st1 Hs (fun x Hx => Hi x (or_intror Hx))).
  destruct (pairs_within S D true fuel r st1) as [c2 st2]. cbn [snd fst] in *.
  cbv beta in A1. rewrite sum_const_mul in A1. destruct A1 as [a1 b1]. destruct IH as [a2 b2].
  change (Wt (a :: r)) with (w a + Wt r).
  assert (Q : w a * Wt r + Wt r * Wt r <= (w a + Wt r) * (w a + Wt r)) by nia.
  split; lia.
Qed.

Lemma frags_within_am : forall fuel s gs st, DS s ->
  am st (snd (frags_within S D true fuel s gs st)) 0.
Proof.
  intros fuel s gs. induction gs as [|g r IH]; intros st Hs; simpl; [apply am_refl|].
  destruct (amortised fuel) as (_ & _ & _ & Iff & Ifr).
  pose proof (Iff false s g st Hs) as A1.
  destruct (ffrag S D true fuel false s g st) as [c1 st1].
  pose proof (seq_am0 (fun h => frfr S D true fuel false g h) r (fun h st0 _ => Ifr false g h st0) st1) as A2.
  destruct (seq (fun h => frfr S D true fuel false g h) r st1) as [c2 st2].
  specialize (IH st2 Hs). destruct (frags_within S D true fuel s r st2) as [c3 st3]. cbn [snd fst] in *.
  destruct A1 as [a1 b1]. destruct A2 as [a2 b2]. destruct IH as [a3 b3]. split; lia.
Qed.

Lemma within_set_am : forall fuel s st, DS s -> am st (snd (within_set S D true fuel s st)) K.
Proof.
  intros fuel s st Hs. unfold within_set.
  pose proof (seq_am (fun k => pairs_within S D true fuel (with_key k (dfields S (fst s) (snd s))))
               (fun k => Wt (with_key k (F s)) * Wt (with_key k (F s))) (keys_of (dfields S (fst s) (snd s)))
               (fun k st0 _ => pairs_within_am fuel s (with_key k (F s)) st0 Hs
                                 (fun x Hx => proj1 (with_key_in _ _ _ Hx))) st) as A1.
  destruct (seq (fun k => pairs_within S D true fuel (with_key k (dfields S (fst s) (snd s))))
                (keys_of (dfields S (fst s) (snd s))) st) as [c1 st1].
  pose proof (frags_within_am fuel s (dspreads (snd s)) st1 Hs) as A2.
  destruct (frags_within S D true fuel s (dspreads (snd s)) st1) as [c2 st2]. simpl in *.
  pose proof (DS_size s Hs) as B. simpl in B.
  assert (L : fold_right (fun k n => Wt (with_key k (dfields S (fst s) (snd s))) * Wt (with_key k (dfields S (fst s) (snd s))) + n) 0
                         (keys_of (dfields S (fst s) (snd s)))
              <= Wt (dfields S (fst s) (snd s)) * Wt (dfields S (fst s) (snd s))).
  { rewrite <- (keys_partition (dfields S (fst s) (snd s))) at 1. apply sum_keys_le. }
  destruct A1 as [a1 b1]. destruct A2 as [a2 b2]. cbv beta in a1.
  assert (Q : Wt (dfields S (fst s) (snd s)) * Wt (dfields S (fst s) (snd s)) <= K) by nia.
  split; lia.
Qed.

Theorem fc_calls_bound : forall fuel,
  fc_calls S D fuel <=
  K * (List.length (all_sets S D) + List.length (m_ffs (final_state S D true fuel))
       + List.length (m_pairs (final_state S D true fuel))).
Proof.
  intro fuel. unfold fc_calls, final_state.
  pose proof (seq_am (within_set S D true fuel) (fun _ => K) (all_sets S D)
               (fun s st Hs => within_set_am fuel s st (DS_top S D s Hs)) mst0) as [A _].
  assert (Z : forall (l : list fset), fold_right (fun _ n => K + n) 0 l = K * List.length l).
  { induction l as [|x r IHl]; simpl; [lia|]. rewrite IHl. lia. }
  cbv beta in A. rewrite Z in A. change (Phi mst0) with 0 in A. change (m_fc mst0) with 0 in A.
  rewrite Nat.mul_0_r in A. unfold Phi in A.
  set (V := snd (seq (within_set S D true fuel) (all_sets S D) mst0)) in *.
  rewrite <- Nat.add_assoc. rewrite Nat.mul_add_distr_l. rewrite Nat.add_0_r in A. exact A.
Qed.

End Bound.

(* closed form in the document's sizes: M field nodes in the largest selection-set tree,
   G fragment definitions, and any list U containing the (set, fragment) keys that occur *)
Theorem fc_calls_closed_form : forall S D fuel (U : list (ptype * N * name)),
  (forall p k g f, In (p, k, g, f) (m_ffs (final_state S D true fuel)) -> In (p, k, g) U) ->
  let M := max_set_size S D in
  let G := List.length (d_frags D) in
  fc_calls S D fuel <= M * M * (List.length (all_sets S D) + 2 * List.length U + 2 * (G * G)).
Proof.
  intros S D fuel U HU M G.
  pose proof (fc_calls_bound S D fuel) as B.
  pose proof (memo_bound_pairs S D fuel) as P. pose proof (memo_bound_ffs S D fuel U HU) as Q.
  fold M in B. fold G in P. simpl in P. nia.
Qed.
