(* The error-position recogniser (SynErr/ParseErr.v) and the parser model
   (Syntax/Parser.v) decide alike: on every parser state, for every fuel, one
   succeeds / fails / runs out of fuel exactly when the other does, and after
   success both have the same tokens left.  Proved function by function by running
   the two definitions in lockstep. *)
From Coq Require Import String List NArith Bool Lia.
From GQL Require Import Base.Bytes Syntax.Lexer Syntax.Ast Syntax.Parser SynErr.LexErr SynErr.ParseErr.
Import ListNotations.

Definition strip {A} (r : res (A * pst)) : res (list token) :=
  match r with Ok (_, st) => Ok (snd st) | Err => Err | OutOfFuel => OutOfFuel end.
Definition eraseE (e : resE) : res (list token) :=
  match e with OkE r => Ok r | ErrE _ => Err | FuelE => OutOfFuel end.

Definition Er {A} (f : pst -> res (A * pst)) (g : R) : Prop :=
  forall p ts, strip (f (p, ts)) = eraseE (g ts).

Lemma Er_cases : forall A (f : pst -> res (A * pst)) g, Er f g -> forall p ts,
  (exists a p1 ts1, f (p, ts) = Ok (a, (p1, ts1)) /\ g ts = OkE ts1) \/
  (f (p, ts) = Err /\ exists r, g ts = ErrE r) \/
  (f (p, ts) = OutOfFuel /\ g ts = FuelE).
Proof.
  intros A f g H p ts. specialize (H p ts).
  destruct (f (p, ts)) as [[a [p1 ts1]]| |]; destruct (g ts) as [r|r|]; cbn in H; try discriminate H.
  - left. inversion H; subst. eauto 6.
  - right; left. eauto.
  - right; right. auto.
Qed.

Create HintDb er.

(* symbolic evaluation of both sides *)
Ltac ev :=
  unfold seqE, caseE, ifE, optE, okE, failE, fuelE, skip, peek, cur_is_kw, cur_start, peek_description,
         is_k, is_kwd, is_desc, mkl in *;
  cbn [strip eraseE hd_error snd fst tokE endE anyE advance andb orb negb is_nil] in *.

(* both sides scrutinise the result of corresponding functions *)
Ltac callee f p ts :=
  let H := fresh "H" in
  eassert (H : Er f _) by (eauto with er);
  let a := fresh "a" in let p1 := fresh "p" in let ts1 := fresh "ts" in
  let E1 := fresh "Ea" in let E2 := fresh "Eb" in let r := fresh "r" in
  destruct (Er_cases _ _ _ H p ts) as [(a & p1 & ts1 & E1 & E2) | [(E1 & r & E2) | (E1 & E2)]];
  clear H; ev; rewrite E1; rewrite E2; clear E1 E2.

(* decide what the parser model scrutinises next *)
Ltac focus e :=
  lazymatch e with
  | match ?x with Ok _ => _ | Err => _ | OutOfFuel => _ end => focus x
  | if ?c then _ else _ => focus c
  | match ?ts with [] => _ | _ :: _ => _ end => first [ is_var ts; destruct ts as [|? ts] | focus ts ]
  | andb ?a _ => focus a
  | orb ?a _ => focus a
  | negb ?a => focus a
  | ?f (?p, ?ts) => callee f p ts
  | _ => destruct e eqn:?
  end.

Ltac step := lazymatch goal with |- strip ?e = _ => focus e end.
Ltac rw :=
  repeat match goal with
         | H : ?c = true |- context [?c] => rewrite H
         | H : ?c = false |- context [?c] => rewrite H
         end.
Ltac go := ev; repeat (step; ev; rw; ev); try reflexivity.

Lemma Er_expect : forall k, Er (expect k) (expectE k).
Proof. intros k p ts. unfold expect, expectE, tokE. go. Qed.
Lemma Er_expect_kw : forall w, Er (expect_kw w) (expect_kwE w).
Proof. intros w p ts. unfold expect_kw, expect_kwE, tokE. go. Qed.
#[export] Hint Resolve Er_expect Er_expect_kw : er.
Lemma Er_parse_name : Er parse_name parse_nameE.
Proof. intros p ts. unfold parse_name, parse_nameE. go. Qed.
#[export] Hint Resolve Er_parse_name : er.
Lemma Er_parse_named : Er parse_named parse_nameE.
Proof. intros p ts. unfold parse_named. go. Qed.
#[export] Hint Resolve Er_parse_named : er.

Lemma Er_parse_variable : Er parse_variable parse_variableE.
Proof. intros p ts. unfold parse_variable, parse_variableE. go. Qed.
#[export] Hint Resolve Er_parse_variable : er.

Section Lists.
  Context {A : Type}.
  Variable item : pst -> res (A * pst).
  Variable itemE : R.
  Hypothesis Hi : Er item itemE.

  Lemma Er_many : forall close fuel, Er (many fuel item close) (manyE fuel itemE close).
  Proof.
    intros close. induction fuel as [|f IH]; intros p ts; cbn [many manyE]; [reflexivity|]. go.
  Qed.

  Lemma Er_reverse : forall open close ne fuel, Er (reverse fuel open item close ne) (reverseE fuel open itemE close ne).
  Proof.
    intros open close ne fuel p ts. unfold reverse, reverseE.
    pose proof (Er_many close) as Hm.
    destruct ne.
    - ev. step; try reflexivity. destruct fuel as [|f]; cbn [many many1E]; [reflexivity|]. go.
    - go.
  Qed.

  Lemma Er_while_peek : forall k fuel, Er (while_peek fuel k item) (whileE fuel k itemE).
  Proof.
    intros k. induction fuel as [|f IH]; intros p ts; cbn [while_peek whileE]; [reflexivity|]. go.
  Qed.

  Lemma Er_sep_by : forall sep fuel, Er (sep_by fuel sep item) (sep_byE fuel sep itemE).
  Proof.
    intros sep. induction fuel as [|f IH]; intros p ts; cbn [sep_by sep_byE]; [reflexivity|]. go.
  Qed.
End Lists.
#[export] Hint Resolve Er_many Er_reverse Er_while_peek Er_sep_by : er.

(* ---- values, types ---- *)
Lemma Er_parse_objfield : forall pv pvE, Er pv pvE -> Er (parse_objfield_with pv) (parse_objfieldE pvE).
Proof. intros pv pvE H p ts. unfold parse_objfield_with, parse_objfieldE. go. Qed.
#[export] Hint Resolve Er_parse_objfield : er.

Lemma Er_parse_value : forall fuel c, Er (parse_value fuel c) (parse_valueE fuel c).
Proof.
  induction fuel as [|f IH]; intros c p ts; cbn [parse_value parse_valueE]; [reflexivity|].
  ev. destruct ts as [|t ts]; cbn [hd_error]; [reflexivity|].
  pose proof (IH c) as IHc.
  destruct (tk t) eqn:K; try reflexivity; go.
Qed.
#[export] Hint Resolve Er_parse_value : er.

Lemma Er_parse_type : forall fuel, Er (parse_type fuel) (parse_typeE fuel).
Proof.
  induction fuel as [|f IH]; intros p ts; cbn [parse_type parse_typeE]; [reflexivity|].
  ev. destruct ts as [|t ts]; cbn [hd_error]; [reflexivity|].
  destruct (tk t) eqn:K; try reflexivity; go.
Qed.
#[export] Hint Resolve Er_parse_type : er.

(* ---- arguments, directives ---- *)
Lemma Er_parse_argument : forall fuel, Er (parse_argument fuel) (parse_argumentE fuel).
Proof. intros fuel p ts. unfold parse_argument, parse_argumentE. go. Qed.
#[export] Hint Resolve Er_parse_argument : er.
Lemma Er_parse_arguments : forall fuel, Er (parse_arguments fuel) (parse_argumentsE fuel).
Proof. intros fuel p ts. unfold parse_arguments, parse_argumentsE. go. Qed.
#[export] Hint Resolve Er_parse_arguments : er.
Lemma Er_parse_directive : forall fuel, Er (parse_directive fuel) (parse_directiveE fuel).
Proof. intros fuel p ts. unfold parse_directive, parse_directiveE. go. Qed.
#[export] Hint Resolve Er_parse_directive : er.
Lemma Er_parse_directives : forall fuel, Er (parse_directives fuel) (parse_directivesE fuel).
Proof. intros fuel. unfold parse_directives, parse_directivesE. auto with er. Qed.
#[export] Hint Resolve Er_parse_directives : er.

(* ---- selection sets ---- *)
Lemma Er_parse_fragment_name : Er parse_fragment_name parse_fragment_nameE.
Proof. intros p ts. unfold parse_fragment_name, parse_fragment_nameE. go. Qed.
#[export] Hint Resolve Er_parse_fragment_name : er.

Section Sel.
  Variable psel : pst -> res (selset * pst).
  Variable pselE : R.
  Hypothesis Hp : Er psel pselE.
  Lemma Er_parse_field : forall fuel, Er (parse_field_with psel fuel) (parse_fieldE pselE fuel).
  Proof. intros fuel p ts. unfold parse_field_with, parse_fieldE. go. Qed.
  Lemma Er_parse_fragment : forall fuel, Er (parse_fragment_with psel fuel) (parse_fragmentE pselE fuel).
  Proof. intros fuel p ts. unfold parse_fragment_with, parse_fragmentE. go. Qed.
  Lemma Er_parse_selection : forall fuel, Er (parse_selection_with psel fuel) (parse_selectionE pselE fuel).
  Proof.
    intros fuel p ts. unfold parse_selection_with, parse_selectionE.
    pose proof Er_parse_field. pose proof Er_parse_fragment. go.
  Qed.
End Sel.
#[export] Hint Resolve Er_parse_selection : er.

Lemma Er_parse_selset : forall fuel, Er (parse_selset fuel) (parse_selsetE fuel).
Proof.
  induction fuel as [|f IH]; intros p ts; cbn [parse_selset parse_selsetE]; [reflexivity|]. go.
Qed.
#[export] Hint Resolve Er_parse_selset : er.

(* ---- operations, fragments ---- *)
Lemma Er_parse_optype : Er parse_optype parse_optypeE.
Proof.
  intros p ts. unfold parse_optype, parse_optypeE, expect, tokE, is_optype. go.
Qed.
#[export] Hint Resolve Er_parse_optype : er.

Lemma Er_parse_vardef : forall fuel, Er (parse_vardef fuel) (parse_vardefE fuel).
Proof. intros fuel p ts. unfold parse_vardef, parse_vardefE, parse_defaultE. go. Qed.
#[export] Hint Resolve Er_parse_vardef : er.
Lemma Er_parse_vardefs : forall fuel, Er (parse_vardefs fuel) (parse_vardefsE fuel).
Proof. intros fuel p ts. unfold parse_vardefs, parse_vardefsE. go. Qed.
#[export] Hint Resolve Er_parse_vardefs : er.
Lemma Er_parse_operation : forall fuel, Er (parse_operation fuel) (parse_operationE fuel).
Proof. intros fuel p ts. unfold parse_operation, parse_operationE. go. Qed.
#[export] Hint Resolve Er_parse_operation : er.
Lemma Er_parse_fragment_definition : forall fuel, Er (parse_fragment_definition fuel) (parse_fragment_definitionE fuel).
Proof. intros fuel p ts. unfold parse_fragment_definition, parse_fragment_definitionE. go. Qed.
#[export] Hint Resolve Er_parse_fragment_definition : er.

(* ---- type-system definitions ---- *)
Lemma Er_parse_description : Er parse_description descE.
Proof. intros p ts. unfold parse_description, descE. go. Qed.
#[export] Hint Resolve Er_parse_description : er.
Lemma Er_parse_optypedef : Er parse_optypedef parse_optypedefE.
Proof. intros p ts. unfold parse_optypedef, parse_optypedefE. go. Qed.
#[export] Hint Resolve Er_parse_optypedef : er.
Lemma Er_parse_schema : forall fuel, Er (parse_schema_definition fuel) (parse_schemaE fuel).
Proof. intros fuel p ts. unfold parse_schema_definition, parse_schemaE. go. Qed.
Lemma Er_parse_scalar : forall fuel, Er (parse_scalar_definition fuel) (descE ;;; scalar_bodyE fuel).
Proof. intros fuel p ts. unfold parse_scalar_definition, scalar_bodyE. go. Qed.
Lemma Er_parse_ivdef : forall fuel, Er (parse_ivdef fuel) (parse_ivdefE fuel).
Proof. intros fuel p ts. unfold parse_ivdef, parse_ivdefE, parse_defaultE. go. Qed.
#[export] Hint Resolve Er_parse_ivdef : er.
Lemma Er_parse_argdefs : forall fuel, Er (parse_argdefs fuel) (parse_argdefsE fuel).
Proof. intros fuel p ts. unfold parse_argdefs, parse_argdefsE. go. Qed.
#[export] Hint Resolve Er_parse_argdefs : er.
Lemma Er_parse_fielddef : forall fuel, Er (parse_fielddef fuel) (parse_fielddefE fuel).
Proof. intros fuel p ts. unfold parse_fielddef, parse_fielddefE. go. Qed.
#[export] Hint Resolve Er_parse_fielddef : er.
Lemma Er_parse_implements : forall fuel, Er (parse_implements fuel) (parse_implementsE fuel).
Proof. intros fuel p ts. unfold parse_implements, parse_implementsE. go. Qed.
#[export] Hint Resolve Er_parse_implements : er.
Lemma Er_parse_objdef : forall fuel, Er (parse_objdef fuel) (descE ;;; objdef_bodyE fuel).
Proof. intros fuel p ts. unfold parse_objdef, objdef_bodyE. go. Qed.
#[export] Hint Resolve Er_parse_objdef : er.
Lemma Er_parse_interface : forall fuel, Er (parse_interface_definition fuel) (descE ;;; interface_bodyE fuel).
Proof. intros fuel p ts. unfold parse_interface_definition, interface_bodyE. go. Qed.
Lemma Er_parse_union : forall fuel, Er (parse_union_definition fuel) (descE ;;; union_bodyE fuel).
Proof. intros fuel p ts. unfold parse_union_definition, union_bodyE. go. Qed.
Lemma Er_parse_enumvaldef : forall fuel, Er (parse_enumvaldef fuel) (parse_enumvaldefE fuel).
Proof. intros fuel p ts. unfold parse_enumvaldef, parse_enumvaldefE. go. Qed.
#[export] Hint Resolve Er_parse_enumvaldef : er.
Lemma Er_parse_enum : forall fuel, Er (parse_enum_definition fuel) (descE ;;; enum_bodyE fuel).
Proof. intros fuel p ts. unfold parse_enum_definition, enum_bodyE. go. Qed.
Lemma Er_parse_input : forall fuel, Er (parse_input_definition fuel) (descE ;;; input_bodyE fuel).
Proof. intros fuel p ts. unfold parse_input_definition, input_bodyE. go. Qed.
Lemma Er_parse_extend : forall fuel, Er (parse_extend_definition fuel) (parse_extendE fuel).
Proof. intros fuel p ts. unfold parse_extend_definition, parse_extendE. go. Qed.
Lemma Er_parse_directive_definition : forall fuel, Er (parse_directive_definition fuel) (descE ;;; directive_bodyE fuel).
Proof. intros fuel p ts. unfold parse_directive_definition, directive_bodyE. go. Qed.

(* ---- the dispatch on the definition keyword ---- *)
Lemma desc_not_name : forall t, is_desc t = true -> tkind_beq (tk t) NAME = false /\ tkind_beq (tk t) BRACE_L = false.
Proof. intros t H. unfold is_desc, is_k in H. destruct (tk t); cbn in H; try discriminate H; split; reflexivity. Qed.

(* a definition that takes a description, entered at the description or at the keyword *)
Lemma Er_body_desc : forall A (f : pst -> res (A * pst)) body, Er f (descE ;;; body) ->
  forall p t ts, is_desc t = true -> strip (f (p, t :: ts)) = eraseE (body ts).
Proof.
  intros A f body H p t ts D. rewrite (H p (t :: ts)). unfold seqE, descE, ifE, caseE. cbn [hd_error].
  rewrite D. reflexivity.
Qed.
Lemma Er_body_nodesc : forall A (f : pst -> res (A * pst)) body, Er f (descE ;;; body) ->
  forall p t ts, is_desc t = false -> strip (f (p, t :: ts)) = eraseE (body (t :: ts)).
Proof.
  intros A f body H p t ts D. rewrite (H p (t :: ts)). unfold seqE, descE, ifE, caseE. cbn [hd_error].
  rewrite D. reflexivity.
Qed.

Lemma strip_map : forall A B (r : res (A * pst)) (g : A -> B),
  strip (' (o, st1) <- r ;; Ok (g o, st1)) = strip r.
Proof. intros A B [[a st]| |] g; reflexivity. Qed.

Lemma Er_parse_tsd : forall fuel, Er (parse_type_system_definition fuel) (parse_tsdE fuel).
Proof.
  intros fuel p ts. unfold parse_type_system_definition, parse_tsdE, keyword_token.
  destruct ts as [|t ts]; [reflexivity|].
  unfold ifE, caseE at 1. cbn [hd_error snd]. unfold peek_description, peek. cbn [snd].
  change (tkind_beq (tk t) STRING || tkind_beq (tk t) BLOCK_STRING) with (is_desc t).
  destruct (is_desc t) eqn:D.
  - (* a description: the keyword is the next token *)
    destruct (desc_not_name _ D) as [DN DB].
    unfold seqE at 1. cbn [anyE tokE].
    destruct ts as [|k ts]; [reflexivity|].
    unfold tsd_kwE, caseE. cbn [hd_error]. unfold is_k at 1.
    destruct (tkind_beq (tk k) NAME) eqn:K; cbn [negb]; [|reflexivity].
    cbv zeta.
    repeat match goal with
           | |- strip (if ?b then _ else _) = eraseE ((if ?b then _ else _) _) => destruct b eqn:?
           end; try reflexivity.
    + unfold parse_fragment_definition, expect_kw. cbn [snd]. rewrite DN. reflexivity.
    + unfold parse_operation, peek, parse_optype, expect. cbn [snd]. rewrite DB, DN. reflexivity.
    + unfold parse_schema_definition, expect_kw. cbn [snd]. rewrite DN. reflexivity.
    + exact (Er_body_desc _ _ _ (Er_parse_scalar fuel) p t (k :: ts) D).
    + rewrite strip_map. exact (Er_body_desc _ _ _ (Er_parse_objdef fuel) p t (k :: ts) D).
    + exact (Er_body_desc _ _ _ (Er_parse_interface fuel) p t (k :: ts) D).
    + exact (Er_body_desc _ _ _ (Er_parse_union fuel) p t (k :: ts) D).
    + exact (Er_body_desc _ _ _ (Er_parse_enum fuel) p t (k :: ts) D).
    + exact (Er_body_desc _ _ _ (Er_parse_input fuel) p t (k :: ts) D).
    + unfold parse_extend_definition, expect_kw. cbn [snd]. rewrite DN. reflexivity.
    + exact (Er_body_desc _ _ _ (Er_parse_directive_definition fuel) p t (k :: ts) D).
  - unfold tsd_kwE, caseE. cbn [hd_error]. unfold is_k at 1.
    destruct (tkind_beq (tk t) NAME) eqn:K; cbn [negb]; [|reflexivity].
    cbv zeta.
    repeat match goal with
           | |- strip (if ?b then _ else _) = eraseE ((if ?b then _ else _) _) => destruct b eqn:?
           end; try reflexivity.
    + apply Er_parse_fragment_definition.
    + apply Er_parse_operation.
    + apply Er_parse_schema.
    + exact (Er_body_nodesc _ _ _ (Er_parse_scalar fuel) p t ts D).
    + rewrite strip_map. exact (Er_body_nodesc _ _ _ (Er_parse_objdef fuel) p t ts D).
    + exact (Er_body_nodesc _ _ _ (Er_parse_interface fuel) p t ts D).
    + exact (Er_body_nodesc _ _ _ (Er_parse_union fuel) p t ts D).
    + exact (Er_body_nodesc _ _ _ (Er_parse_enum fuel) p t ts D).
    + exact (Er_body_nodesc _ _ _ (Er_parse_input fuel) p t ts D).
    + apply Er_parse_extend.
    + exact (Er_body_nodesc _ _ _ (Er_parse_directive_definition fuel) p t ts D).
Qed.
#[export] Hint Resolve Er_parse_tsd : er.

Lemma Er_parse_definition : forall fuel, Er (parse_definition fuel) (parse_definitionE fuel).
Proof. intros fuel p ts. unfold parse_definition, parse_definitionE. go. Qed.
#[export] Hint Resolve Er_parse_definition : er.

(* parse_document starts from PrevEnd 0 and returns the document alone *)
Definition strip_doc (r : res Ast.document) : res (list token) :=
  match r with Ok _ => Ok [] | Err => Err | OutOfFuel => OutOfFuel end.

Theorem Er_parse_document : forall fuel ts, strip_doc (parse_document fuel ts) = eraseE (parse_documentE fuel ts).
Proof.
  intros fuel ts. unfold parse_document, parse_documentE.
  pose proof (Er_parse_definition fuel) as Hd.
  unfold seqE. destruct fuel as [|f]; [reflexivity|]. cbn [many many1E].
  unfold ifE, caseE, peek. cbn [snd]. destruct ts as [|t ts]; cbn [hd_error].
  - destruct (Er_cases _ _ _ Hd 0%N []) as [(a & p1 & ts1 & E1 & E2) | [(E1 & r & E2) | (E1 & E2)]];
      unfold seqE; rewrite E1, E2; try reflexivity.
    destruct (Er_cases _ _ _ (Er_many _ _ Hd EOF f) p1 ts1) as [(a2 & p2 & ts2 & F1 & F2) | [(F1 & r & F2) | (F1 & F2)]];
      rewrite F1, F2; try reflexivity.
    cbn [is_nil snd]. destruct ts2; reflexivity.
  - unfold is_k. destruct (tkind_beq (tk t) EOF) eqn:K.
    + cbn [advance snd is_nil]. reflexivity.
    + destruct (Er_cases _ _ _ Hd 0%N (t :: ts)) as [(a & p1 & ts1 & E1 & E2) | [(E1 & r & E2) | (E1 & E2)]];
        unfold seqE; rewrite E1, E2; try reflexivity.
      destruct (Er_cases _ _ _ (Er_many _ _ Hd EOF f) p1 ts1) as [(a2 & p2 & ts2 & F1 & F2) | [(F1 & r & F2) | (F1 & F2)]];
        rewrite F1, F2; try reflexivity.
      cbn [is_nil snd]. destruct ts2; reflexivity.
Qed.

Corollary Er_parse_tokens : forall ts, strip_doc (parse_tokens ts) = eraseE (parse_tokensE ts).
Proof. intro ts. apply Er_parse_document. Qed.
