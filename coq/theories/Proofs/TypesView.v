(* From the reducer's invariants (entries passed their checks, map closed under
   reference) to the clauses of Consistent on the public view. *)
From Coq Require Import List NArith Bool Lia.
From GQL Require Import Base.Bytes Types.Schema Types.Consistent Proofs.TypesReduce Proofs.TypesNames Proofs.TypesClosed.
Import ListNotations.
Open Scope N_scope.

(* references stored in fields are normalised: if the reducer could follow one, it is well formed *)
Lemma norm_target : forall defs t0 i, target_of defs (norm t0) = TgtTo i ->
  wf_ref (norm t0) = true /\ get_named (norm t0) = Some i.
Proof.
  induction t0 as [|j|t IH|t IH]; intros i H; simpl in *.
  - discriminate.
  - destruct (find_def defs j) as [d|]; try discriminate. destruct (ctor_err d); try discriminate.
    inversion H; subst. auto.
  - destruct (norm t) eqn:En; try discriminate; apply IH; exact H.
  - destruct (norm t) as [|j|u|u] eqn:En; simpl in *; try discriminate.
    + destruct (IH i H) as [Hw Hg]. auto.
    + destruct (IH i H) as [Hw Hg]. simpl in Hw. rewrite Hw. auto.
Qed.

Definition normal (t : tref) : Prop := exists t0, t = norm t0.

Lemma define_args_spec defs : forall args l, define_args defs args = Some l ->
  forall a, In a l -> normal (snd a) /\ snd a <> TNil /\ is_input_type defs (snd a) = true.
Proof.
  induction args as [|[an a] r IH]; intros l H x Hx; cbn [define_args define_fields define_ifields] in H.
  - inversion H; subst. destruct Hx.
  - destruct (negb (valid_name an)); try discriminate.
    destruct a as [|t0]; try discriminate.
    destruct (norm t0) as [|j|u|u] eqn:En; try discriminate; cbv beta iota in H;
      match type of H with context [is_input_type defs ?t] => destruct (is_input_type defs t) eqn:Ei end;
      simpl in H; try discriminate;
      destruct (define_args defs r) as [l'|] eqn:Er; try discriminate;
      inversion H; subst; destruct Hx as [Hx|Hx];
      try (subst x; simpl; repeat split; [exists t0; symmetry; exact En|discriminate|exact Ei]);
      exact (IH l' eq_refl x Hx).
Qed.

Lemma define_fields_spec defs : forall fs l, define_fields defs fs = Some l ->
  forall f, In f l ->
    normal (vf_type f) /\ vf_type f <> TNil /\ is_output_type defs (vf_type f) = true
    /\ forall a, In a (vf_args f) -> normal (snd a) /\ snd a <> TNil /\ is_input_type defs (snd a) = true.
Proof.
  induction fs as [|[fn fc] r IH]; intros l H x Hx; cbn [define_args define_fields define_ifields] in H.
  - inversion H; subst. destruct Hx.
  - destruct fc as [|t0 args]; [exact (IH l H x Hx)|].
    destruct (norm t0) as [|j|u|u] eqn:En; try discriminate; cbv beta iota in H;
      match type of H with context [type_err defs ?t] => destruct (type_err defs t) end; try discriminate;
      match type of H with context [is_output_type defs ?t] => destruct (is_output_type defs t) eqn:Eo end;
      simpl in H; try discriminate;
      destruct (negb (valid_name fn)); try discriminate;
      destruct (define_args defs args) as [al|] eqn:Ea; try discriminate;
      destruct (define_fields defs r) as [l'|] eqn:Er; try discriminate;
      inversion H; subst; destruct Hx as [Hx|Hx];
      try (subst x; simpl; repeat split;
           [exists t0; symmetry; exact En|discriminate|exact Eo|
            apply (define_args_spec defs args al Ea)|apply (define_args_spec defs args al Ea)|apply (define_args_spec defs args al Ea)]; assumption);
      exact (IH l' eq_refl x Hx).
Qed.

Lemma define_ifields_spec defs : forall fs l, define_ifields defs fs = Some l ->
  forall a, In a l -> normal (snd a) /\ snd a <> TNil /\ is_input_type defs (snd a) = true.
Proof.
  induction fs as [|[fn fc] r IH]; intros l H x Hx; cbn [define_args define_fields define_ifields] in H.
  - inversion H; subst. destruct Hx.
  - destruct fc as [|t0]; [exact (IH l H x Hx)|].
    destruct (negb (valid_name fn)); [exact (IH l H x Hx)|].
    destruct (norm t0) as [|j|u|u] eqn:En; try discriminate; cbv beta iota in H;
      match type of H with context [is_input_type defs ?t] => destruct (is_input_type defs t) eqn:Ei end;
      simpl in H; try discriminate;
      destruct (define_ifields defs r) as [l'|] eqn:Er; try discriminate;
      inversion H; subst; destruct Hx as [Hx|Hx];
      try (subst x; simpl; repeat split; [exists t0; symmetry; exact En|discriminate|exact Ei]);
      exact (IH l' eq_refl x Hx).
Qed.

Lemma define_field_map_spec defs fs l : define_field_map defs fs = Some l ->
  forall f, In f l ->
    normal (vf_type f) /\ vf_type f <> TNil /\ is_output_type defs (vf_type f) = true
    /\ forall a, In a (vf_args f) -> normal (snd a) /\ snd a <> TNil /\ is_input_type defs (snd a) = true.
Proof. unfold define_field_map. destruct fs; [discriminate|]. apply define_fields_spec. Qed.

Lemma define_input_field_map_spec defs fs l : define_input_field_map defs fs = Some l ->
  forall a, In a l -> normal (snd a) /\ snd a <> TNil /\ is_input_type defs (snd a) = true.
Proof. unfold define_input_field_map. destruct fs; [discriminate|]. apply define_ifields_spec. Qed.

(* ---------- looking types up in the view ---------- *)
Definition view_types (defs : list (N * tdef)) (tm : tmap) : list vtype :=
  map (fun e => VT (fst e) (snd e) (vdef_of defs (snd e))) tm.

Lemma vfind_view defs : forall tm i, In i (ids tm) ->
  exists n, vfind (view_types defs tm) i = Some (VT n i (vdef_of defs i)).
Proof.
  induction tm as [|[m j] r IH]; intros i Hi; simpl in *; [destruct Hi|].
  destruct (j =? i) eqn:E.
  - apply N.eqb_eq in E. subst j. exists m. reflexivity.
  - destruct Hi as [Hi|Hi]; [subst j; rewrite N.eqb_refl in E; discriminate|]. exact (IH i Hi).
Qed.

Lemma tgt_named_in defs tm j : tgt_in defs tm (TNamed j) -> In j (ids tm).
Proof.
  unfold tgt_in. simpl. destruct (find_def defs j) as [d|]; [|intros []].
  destruct (ctor_err d); [intros []|auto].
Qed.

Lemma vdef_input defs i d : find_def defs i = Some d -> is_input_kind (kind_of d) = true -> vkind_input (vdef_of defs i) = true.
Proof. intros Hd Hk. unfold vdef_of. rewrite Hd. destruct d; simpl in *; auto; discriminate. Qed.
Lemma vdef_output defs i d : find_def defs i = Some d -> is_output_kind (kind_of d) = true -> vkind_output (vdef_of defs i) = true.
Proof. intros Hd Hk. unfold vdef_of. rewrite Hd. destruct d; simpl in *; auto; discriminate. Qed.

Lemma target_skip defs : forall t, target_of defs t = TgtSkip -> t = TNil.
Proof.
  induction t as [|j|t IH|t IH]; intros H; simpl in H; auto.
  - destruct (find_def defs j) as [d|]; [destruct (ctor_err d)|]; discriminate.
  - destruct t; try discriminate; apply IH in H; discriminate.
  - destruct t; try discriminate; apply IH in H; discriminate.
Qed.

(* a reference the reducer followed into the map, normal and non-nil, is ok in the view *)
Lemma ref_ok_view defs tm (allowed : vdef -> bool) (typ : list (N * tdef) -> tref -> bool) t :
  (forall i d, get_named t = Some i -> find_def defs i = Some d -> typ defs t = true -> allowed (vdef_of defs i) = true) ->
  (typ defs t = true -> exists i d, get_named t = Some i /\ find_def defs i = Some d) ->
  normal t -> t <> TNil -> tgt_in defs tm t -> typ defs t = true ->
  ref_ok (view_types defs tm) allowed t = true.
Proof.
  intros Hall Hex [t0 Hn] Hnil Ht Hi. subst t. unfold tgt_in in Ht.
  destruct (target_of defs (norm t0)) as [| |i] eqn:Etg; try contradiction.
  - apply target_skip in Etg. contradiction.
  - destruct (norm_target defs t0 i Etg) as [Hw Hg]. unfold ref_ok. rewrite Hw, Hg. simpl.
    destruct (vfind_view defs tm i Ht) as [n Hv]. rewrite Hv. simpl.
    destruct (Hex Hi) as (i' & d & Hg' & Hd). rewrite Hg in Hg'. inversion Hg'; subst i'.
    exact (Hall i d Hg Hd Hi).
Qed.

Lemma ref_ok_input defs tm t : normal t -> t <> TNil -> tgt_in defs tm t -> is_input_type defs t = true ->
  ref_ok (view_types defs tm) vkind_input t = true.
Proof.
  apply ref_ok_view.
  - intros i d Hg Hd Hi. unfold is_input_type in Hi. rewrite Hg, Hd in Hi. exact (vdef_input defs i d Hd Hi).
  - intros Hi. unfold is_input_type in Hi. destruct (get_named t) as [i|]; try discriminate.
    destruct (find_def defs i) as [d|] eqn:Ed; try discriminate. exists i, d. auto.
Qed.

Lemma ref_ok_output defs tm t : normal t -> t <> TNil -> tgt_in defs tm t -> is_output_type defs t = true ->
  ref_ok (view_types defs tm) vkind_output t = true.
Proof.
  apply ref_ok_view.
  - intros i d Hg Hd Hi. unfold is_output_type in Hi. rewrite Hg, Hd in Hi. exact (vdef_output defs i d Hd Hi).
  - intros Hi. unfold is_output_type in Hi. destruct (get_named t) as [i|]; try discriminate.
    destruct (find_def defs i) as [d|] eqn:Ed; try discriminate. exists i, d. auto.
Qed.

Lemma in_field_refs f fs t : In f fs -> (t = vf_type f \/ In t (map snd (vf_args f))) -> In t (field_refs fs).
Proof.
  intros Hf Ht. unfold field_refs. apply in_flat_map. exists f. split; auto.
  apply in_or_app. destruct Ht as [Ht|Ht]; [right; left; auto|left; exact Ht].
Qed.

Lemma fields_ok_view defs tm (fs : list vfield) :
  (forall f, In f fs ->
    normal (vf_type f) /\ vf_type f <> TNil /\ is_output_type defs (vf_type f) = true
    /\ forall a, In a (vf_args f) -> normal (snd a) /\ snd a <> TNil /\ is_input_type defs (snd a) = true) ->
  (forall t, In t (field_refs fs) -> tgt_in defs tm t) ->
  forallb (field_ok (view_types defs tm)) fs = true.
Proof.
  intros Hs Ht. apply forallb_forall. intros f Hf. destruct (Hs f Hf) as (Hn & Hnil & Ho & Ha).
  unfold field_ok. apply andb_true_iff. split.
  - apply ref_ok_output; auto. apply Ht. apply (in_field_refs f); auto.
  - apply forallb_forall. intros a Hain. destruct (Ha a Hain) as (Hn' & Hnil' & Hi).
    apply ref_ok_input; auto. apply Ht. apply (in_field_refs f); auto. right. apply in_map. exact Hain.
Qed.

Lemma has_kind_vdef defs i : has_kind defs KInterface i = true -> vkind_interface (vdef_of defs i) = true.
Proof. unfold has_kind, vdef_of. destruct (find_def defs i) as [d|]; try discriminate. destruct d; simpl; auto; discriminate. Qed.
Lemma has_kind_vobj defs i : has_kind defs KObject i = true -> vkind_object (vdef_of defs i) = true.
Proof. unfold has_kind, vdef_of. destruct (find_def defs i) as [d|]; try discriminate. destruct d; simpl; auto; discriminate. Qed.

Lemma ids_ok_view defs tm allowed (l : list N) :
  (forall j, In j l -> allowed (vdef_of defs j) = true) ->
  (forall t, In t (map TNamed l) -> tgt_in defs tm t) ->
  forallb (id_ok (view_types defs tm) allowed) l = true.
Proof.
  intros Hk Ht. apply forallb_forall. intros j Hj. unfold id_ok.
  assert (Hin : In j (ids tm)). { apply (tgt_named_in defs). apply Ht. apply in_map. exact Hj. }
  destruct (vfind_view defs tm j Hin) as [n Hv]. rewrite Hv. simpl. exact (Hk j Hj).
Qed.

Lemma define_interfaces_kinds defs r l : define_interfaces defs r = Some l -> forall j, In j l -> has_kind defs KInterface j = true.
Proof.
  unfold define_interfaces. destruct r as [|l0|]; intros H; try discriminate.
  - inversion H; subst. intros j [].
  - destruct (define_ids l0) as [ids0|]; try discriminate.
    destruct (forallb (has_kind defs KInterface) ids0) eqn:E; try discriminate. inversion H; subst.
    intros j Hj. exact (proj1 (forallb_forall _ _) E j Hj).
Qed.

Lemma define_union_kinds defs r rt l : define_union_types defs r rt = Some l -> forall j, In j l -> has_kind defs KObject j = true.
Proof.
  unfold define_union_types. destruct r as [|l0|]; intros H; try discriminate.
  destruct l0 as [|x l0]; try discriminate.
  destruct (define_ids (x :: l0)) as [ids0|]; try discriminate.
  match type of H with (if ?b then _ else _) = _ => destruct b eqn:E end; try discriminate. inversion H; subst.
  apply andb_true_iff in E. destruct E as [E _].
  intros j Hj. exact (proj1 (forallb_forall _ _) E j Hj).
Qed.

(* closure under reference and the position rules, for every entry of the type map *)
Lemma good_closed_type_ok defs tm : tm_good defs tm -> closed defs tm ->
  forall vt, In vt (view_types defs tm) -> type_ok (view_types defs tm) vt = true.
Proof.
  intros [_ Hall] Hc vt Hin. unfold view_types in Hin. apply in_map_iff in Hin.
  destruct Hin as [[n i] [Heq Hin]]. subst vt. simpl.
  destruct (Hall n i Hin) as (d & Hd & _ & Hs).
  assert (Hi : In i (ids tm)). { unfold ids. change i with (snd (n, i)). apply in_map. exact Hin. }
  pose proof (Hc i Hi) as Hdone. unfold done, out_refs in Hdone. rewrite Hd in Hdone.
  unfold type_ok. simpl. unfold vdef_of. rewrite Hd.
  destruct d as [n0 ser pv pl|n0 ifs fs ito|n0 fs rt|n0 ms rt|n0 vs|n0 fs]; auto;
    destruct Hs as [_ Hs]; simpl in Hs.
  - destruct Hs as [Hs1 Hs2]. unfold interfaces_of, fields_of in *. rewrite Hd in *.
    destruct (define_interfaces defs ifs) as [is|] eqn:Ei; [|congruence].
    destruct (define_field_map defs fs) as [vfs|] eqn:Ef; [|congruence].
    apply andb_true_iff. split.
    + apply ids_ok_view.
      * intros j Hj. apply has_kind_vdef. exact (define_interfaces_kinds defs ifs is Ei j Hj).
      * intros t Ht. apply Hdone. apply in_or_app. left. exact Ht.
    + apply fields_ok_view.
      * exact (define_field_map_spec defs fs vfs Ef).
      * intros t Ht. apply Hdone. apply in_or_app. right. exact Ht.
  - unfold fields_of in *. rewrite Hd in *.
    destruct (define_field_map defs fs) as [vfs|] eqn:Ef; [|congruence].
    apply fields_ok_view; auto. exact (define_field_map_spec defs fs vfs Ef).
  - unfold members_of in *. rewrite Hd in *.
    destruct (define_union_types defs ms rt) as [is|] eqn:Em; [|congruence].
    apply ids_ok_view; auto.
    intros j Hj. apply has_kind_vobj. exact (define_union_kinds defs ms rt is Em j Hj).
  - destruct (define_input_field_map defs fs) as [l|] eqn:Ef; [|congruence].
    apply forallb_forall. intros a Ha. destruct (define_input_field_map_spec defs fs l Ef a Ha) as (Hn & Hnil & Hit).
    apply ref_ok_input; auto. apply Hdone. apply in_map. exact Ha.
Qed.

(* roots *)
Lemma root_is_vobject defs tm q : root_err defs (Some q) = false -> In q (ids tm) ->
  is_vobject (view_types defs tm) q = true.
Proof.
  intros Hr Hin. unfold is_vobject, id_ok. destruct (vfind_view defs tm q Hin) as [n Hv]. rewrite Hv. simpl.
  unfold root_err in Hr. unfold vdef_of. destruct (find_def defs q) as [d|]; try discriminate.
  destruct d; try discriminate. reflexivity.
Qed.
