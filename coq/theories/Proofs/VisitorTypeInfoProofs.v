(* C14 -- type tracking: the TypeInfo stacks, driven by VisitWithTypeInfo along the traversal,
   report at every callback the top-down `types_at` of the chain of enclosing nodes. *)
From Coq Require Import List NArith Bool Arith Lia.
From GQL Require Import Visitor.VisitorTree Visitor.VisitorWalk Visitor.VisitorLoop
     Visitor.VisitorKeysSpec Visitor.TypeInfo Visitor.TypeInfoPre
     Proofs.VisitorWalkProofs Proofs.VisitorLoopProofs Proofs.VisitorParallelProofs.
Import ListNotations.
Open Scope N_scope.

Section TIP.
Variable sch : tschema.
Variable attr : N -> nattr.
Variable sel : N -> phase -> option N.
Variable pol : N -> phase -> action.
Variable keys_of : N -> list N.
Variable kind_of : N -> N.

Notation opol := (twi_pol sel pol kind_of).
Notation OW := (walk keys_of par_sel opol).
Notation OWkeys := (wkeys keys_of par_sel opol).
Notation OWlist := (wlist keys_of par_sel opol).
Notation tstep := (ti_step sch attr sel pol).
Notation obs := (phase * N * tenv)%type.

Fixpoint ti_exec (st : tistate) (evs : list event) : tistate * list obs :=
  match evs with
  | [] => (st, [])
  | e :: r => let '(st1, o1) := tstep st e in let '(st2, o2) := ti_exec st1 r in (st2, o1 ++ o2)
  end.

Lemma ti_run_exec st evs : ti_run sch attr sel pol st evs = snd (ti_exec st evs).
Proof.
  revert st. induction evs as [|e r IH]; intros st; [reflexivity|]. cbn [ti_run ti_exec].
  destruct (tstep st e) as [st1 o1]. rewrite IH. destruct (ti_exec st1 r). reflexivity.
Qed.

Lemma ti_exec_app st a b :
  ti_exec st (a ++ b) = let '(s1, o1) := ti_exec st a in let '(s2, o2) := ti_exec s1 b in (s2, o1 ++ o2).
Proof.
  revert st. induction a as [|e a IH]; intros st; cbn [app ti_exec].
  - destruct (ti_exec st b). reflexivity.
  - destruct (tstep st e) as [s1 o1]. rewrite IH. destruct (ti_exec s1 a) as [s2 o2].
    destruct (ti_exec s2 b) as [s3 o3]. rewrite app_assoc. reflexivity.
Qed.

Definition spec_one (e : event) : list obs :=
  match sel (e_kind e) (e_phase e) with
  | Some _ => [(e_phase e, e_id e, types_at sch attr (chain_of kind_of e))]
  | None => []
  end.
Definition spec_obs (evs : list event) : list obs := flat_map spec_one evs.

(* running the part p of the traversal from state st reports the spec and, unless the
   traversal was stopped, ends in st' *)
Definition goodfrom (st st' : tistate) (p : tr) : Prop :=
  snd (ti_exec st (fst p)) = spec_obs (fst p) /\ (snd p = false -> fst (ti_exec st (fst p)) = st').

Lemma good_nil st : goodfrom st st nil_tr.
Proof. split; reflexivity. Qed.

Lemma good_seq st st1 st2 p q : goodfrom st st1 p -> goodfrom st1 st2 q -> goodfrom st st2 (seq p q).
Proof.
  unfold goodfrom. destruct p as [ep [|]], q as [eq1 bq]; cbn [seq fst snd]; intros [Hp Hp'] [Hq Hq'].
  - split; [exact Hp | discriminate].
  - unfold spec_obs in *. rewrite ti_exec_app, flat_map_app.
    destruct (ti_exec st ep) as [s1 o1] eqn:E1. cbn [fst snd] in *.
    rewrite (Hp' eq_refl) in *. destruct (ti_exec st1 eq1) as [s2 o2]. cbn [fst snd] in *.
    split; [rewrite Hp, Hq; reflexivity | exact Hq'].
Qed.

(* ---- one node ---- *)
Definition chainK (c : wctx) : list (N * N) :=
  map (fun id => (id, kind_of id)) (flat_map (fun o => optl o) (w_ancs c ++ [w_parent c])).

Lemma chain_event ph c key n fn :
  chain_of kind_of (mk_event ph c key n fn) = chainK c ++ [(g_id n, g_kind n)].
Proof. reflexivity. Qed.

Lemma chainK_inner_node c key id :
  chainK (w_inner c key (Some id)) = chainK c ++ [(id, kind_of id)].
Proof.
  unfold chainK, w_inner. cbn [w_ancs w_parent]. rewrite !flat_map_app, !map_app. cbn.
  rewrite <- !app_assoc. reflexivity.
Qed.
Lemma chainK_inner_list c key : chainK (w_inner c key None) = chainK c.
Proof.
  unfold chainK, w_inner. cbn [w_ancs w_parent]. rewrite !flat_map_app, !map_app. cbn.
  rewrite !app_nil_r. reflexivity.
Qed.

Lemma types_at_snoc chain id kind :
  types_at sch attr (chain ++ [(id, kind)]) = enter_env sch attr (types_at sch attr chain) id kind.
Proof. unfold types_at. rewrite fold_left_app. reflexivity. Qed.

Ltac kind_cases kind :=
  destruct (N.eqb_spec kind K_SELSET) as [->|];
  [|destruct (N.eqb_spec kind K_FIELD) as [->|];
    [|destruct (N.eqb_spec kind K_DIRECTIVE) as [->|];
      [|destruct (N.eqb_spec kind K_OPDEF) as [->|];
        [|destruct (N.eqb_spec kind K_INLINE) as [->|];
          [|destruct (N.eqb_spec kind K_FRAGDEF) as [->|];
            [|destruct (N.eqb_spec kind K_VARDEF) as [->|];
              [|destruct (N.eqb_spec kind K_ARGUMENT) as [->|];
                [|destruct (N.eqb_spec kind K_LISTVALUE) as [->|];
                  [|destruct (N.eqb_spec kind K_OBJFIELD) as [->|]]]]]]]]]].

Lemma eqb_false a b : a <> b -> N.eqb a b = false.
Proof. intros H. apply N.eqb_neq. exact H. Qed.

Lemma tops_enter st id kind :
  tops (ti_enter sch attr st id kind) = enter_env sch attr (tops st) id kind.
Proof.
  kind_cases kind; try reflexivity.
  unfold ti_enter, enter_env. rewrite !eqb_false by assumption. cbn [orb]. destruct st; reflexivity.
Qed.

Lemma leave_enter st id kind :
  (kind = K_DIRECTIVE -> ti_dir st = None) -> (kind = K_ARGUMENT -> ti_arg st = None) ->
  ti_leave (ti_enter sch attr st id kind) kind = st.
Proof.
  intros Hd Ha.
  kind_cases kind; try (destruct st; reflexivity).
  - specialize (Hd eq_refl). destruct st; cbn in *. subst. reflexivity.
  - specialize (Ha eq_refl). destruct st; cbn in *. subst. reflexivity.
  - unfold ti_enter, ti_leave. rewrite !eqb_false by assumption. cbn [orb]. reflexivity.
Qed.

Lemma enter_dir st id kind : kind <> K_DIRECTIVE -> ti_dir (ti_enter sch attr st id kind) = ti_dir st.
Proof.
  intros H. kind_cases kind; try reflexivity; try contradiction.
  unfold ti_enter. rewrite !eqb_false by assumption. reflexivity.
Qed.
Lemma enter_arg st id kind : kind <> K_ARGUMENT -> ti_arg (ti_enter sch attr st id kind) = ti_arg st.
Proof.
  intros H. kind_cases kind; try reflexivity; try contradiction.
  unfold ti_enter. rewrite !eqb_false by assumption. reflexivity.
Qed.

Definition inv (st : tistate) (c : wctx) (d a : bool) : Prop :=
  tops st = types_at sch attr (chainK c) /\ (d = false -> ti_dir st = None) /\ (a = false -> ti_arg st = None).

Lemma kinds_of_child id kind slots s i k :
  In s slots ->
  In (i, k) (match s with One _ None => [] | One _ (Some c) => kinds_of c | Many _ l => flat_map kinds_of l end) ->
  In (i, k) (kinds_of (GNode id kind slots)).
Proof. intros Hs Hi. cbn [kinds_of]. right. apply in_flat_map. exists s. split; assumption. Qed.

Theorem ti_node_good : forall n d a,
  ti_ok d a n = true ->
  (forall i k, In (i, k) (kinds_of n) -> kind_of i = k) ->
  forall st c key, inv st c d a -> goodfrom st st (OW c key n).
Proof.
  induction n as [id kind slots IH] using gnode_ind'. intros d a Hok Hkinds st c key (Htops & Hdir & Harg).
  cbn [ti_ok] in Hok. apply andb_prop in Hok. destruct Hok as [Hok Hkids].
  apply andb_prop in Hok. destruct Hok as [Hnd Hna].
  assert (Hkind : kind_of id = kind) by (apply Hkinds; left; reflexivity).
  set (st1 := ti_enter sch attr st id kind).
  set (d' := d || N.eqb kind K_DIRECTIVE) in *. set (a' := a || N.eqb kind K_ARGUMENT) in *.
  assert (Hd0 : kind = K_DIRECTIVE -> ti_dir st = None).
  { intros ->. apply Hdir. rewrite N.eqb_refl in Hnd. cbn in Hnd. destruct d; [discriminate|reflexivity]. }
  assert (Ha0 : kind = K_ARGUMENT -> ti_arg st = None).
  { intros ->. apply Harg. rewrite N.eqb_refl in Hna. cbn in Hna. destruct a; [discriminate|reflexivity]. }
  assert (Hback : ti_leave st1 kind = st) by (apply leave_enter; assumption).
  assert (Htops1 : tops st1 = types_at sch attr (chainK c ++ [(id, kind)])).
  { unfold st1. rewrite tops_enter, Htops, types_at_snoc. reflexivity. }
  set (cin := w_inner c key (Some id)).
  assert (Hinv1 : inv st1 cin d' a').
  { split; [|split].
    - unfold cin. rewrite chainK_inner_node, Hkind. exact Htops1.
    - unfold d'. intros E. apply orb_false_elim in E. destruct E as [-> E].
      unfold st1. rewrite enter_dir; [apply Hdir; reflexivity | apply N.eqb_neq; exact E].
    - unfold a'. intros E. apply orb_false_elim in E. destruct E as [-> E].
      unfold st1. rewrite enter_arg; [apply Harg; reflexivity | apply N.eqb_neq; exact E]. }
  (* the children *)
  assert (HK : forall ks, goodfrom st1 st1 (OWkeys cin slots ks)).
  { induction ks as [|k ks IHk]; [apply good_nil|].
    cbn [wkeys]. eapply good_seq; [|exact IHk].
    destruct (find_slot k slots) as [s|] eqn:Ef; [|apply good_nil].
    apply find_slot_in in Ef. rewrite Forall_forall in IH. specialize (IH s Ef).
    rewrite forallb_forall in Hkids. specialize (Hkids s Ef).
    pose proof (kinds_of_child id kind slots s) as Hsub.
    destruct s as [nm [ch|]|nm l]; cbn [wslot SlotP slot_all] in *.
    - apply (IH d' a' Hkids); [intros i k0 Hi; apply Hkinds; apply (Hsub i k0 Ef Hi) | exact Hinv1].
    - apply good_nil.
    - assert (Hinvl : inv st1 (w_inner cin (Some (KName k)) None) d' a').
      { destruct Hinv1 as (H1 & H2 & H3). split; [rewrite chainK_inner_list; exact H1 | split; assumption]. }
      assert (Hsubl : forall i k0, In (i, k0) (flat_map kinds_of l) -> kind_of i = k0).
      { intros i k0 Hi. apply Hkinds. apply (Hsub i k0 Ef Hi). }
      clear Hsub Ef. generalize 0%nat as ix.
      induction l as [|ch l IHl]; intros ix; [apply good_nil|].
      apply Forall_cons_iff in IH. destruct IH as [Hch Hl]. cbn [forallb] in Hkids. apply andb_prop in Hkids. destruct Hkids as [Ok1 Ok2].
      cbn [wlist]. eapply good_seq.
      + apply (Hch d' a' Ok1); [intros i k0 Hi; apply Hsubl; cbn [flat_map]; apply in_or_app; left; exact Hi | exact Hinvl].
      + apply IHl; [exact Hl | exact Ok2 | intros i k0 Hi; apply Hsubl; cbn [flat_map]; apply in_or_app; right; exact Hi]. }
  (* the leave event *)
  assert (HL : goodfrom st1 st (leave_tr par_sel opol c key (GNode id kind slots))).
  { unfold leave_tr, act, emit, par_sel. cbn [g_kind g_id]. unfold twi_pol at 1. rewrite Hkind.
    unfold goodfrom. cbn [fst snd ti_exec]. unfold ti_step at 1 2. cbn [e_phase mk_event e_kind e_id g_kind g_id].
    unfold spec_obs. cbn [flat_map]. unfold spec_one. cbn [e_phase mk_event e_kind e_id g_kind g_id].
    rewrite chain_event. cbn [g_id g_kind]. rewrite <- Htops1, Hback.
    destruct (sel kind PLeave) as [fl|]; cbn; split; auto. }
  rewrite walk_unfold. unfold act, emit, par_sel. cbn [g_kind g_id g_slots]. unfold twi_pol at 1. rewrite Hkind.
  assert (HE : forall (stop : bool) st',
             (st' = match sel kind PEnter with
                    | Some _ => match pol id PEnter with Skip => st | _ => st1 end
                    | None => st1 end) ->
             goodfrom st st' ([mk_event PEnter c key (GNode id kind slots) FN_ENTER], stop)).
  { intros stop st' ->. unfold goodfrom. cbn [fst snd ti_exec]. unfold ti_step. cbn [e_phase mk_event e_kind e_id g_kind g_id].
    unfold spec_obs. cbn [flat_map]. unfold spec_one. cbn [e_phase mk_event e_kind e_id g_kind g_id].
    rewrite chain_event. cbn [g_id g_kind]. fold st1. rewrite <- Htops1, Hback.
    destruct (sel kind PEnter) as [fe|]; [destruct (pol id PEnter)|]; cbn; split; auto. }
  destruct (sel kind PEnter) as [fe|] eqn:Es; [destruct (pol id PEnter) eqn:Ep|].
  - eapply good_seq; [apply HE; reflexivity|]. eapply good_seq; [apply HK | exact HL].
  - apply HE; reflexivity.
  - destruct (HE true st1 eq_refl) as [H1 _]. split; [exact H1 | discriminate].
  - eapply good_seq; [apply HE; reflexivity|]. eapply good_seq; [apply HK | exact HL].
Qed.

Lemma chainK_root : chainK w_root = [].
Proof. reflexivity. Qed.

Theorem typeinfo_reports_types_at t :
  ti_ok false false t = true ->
  (forall i k, In (i, k) (kinds_of t) -> kind_of i = k) ->
  ti_run sch attr sel pol ti_init (walk_events keys_of par_sel opol t)
  = spec_obs (walk_events keys_of par_sel opol t).
Proof.
  intros Hok Hk. rewrite ti_run_exec. unfold walk_events, walk_root.
  apply (ti_node_good t false false Hok Hk ti_init w_root None).
  split; [reflexivity | split; reflexivity].
Qed.

End TIP.

(* ---- the precondition "node kind determined by node identity", decided by kinds_fun ---- *)
Lemma memb_in l x : memb N.eqb x l = true -> In x l.
Proof.
  unfold memb. intros H. apply existsb_exists in H. destruct H as (y & Hy & E).
  apply N.eqb_eq in E. subst. exact Hy.
Qed.

Lemma kinds_fun_tbl : forall tbl,
  nodupb N.eqb (map fst tbl) = true ->
  forall i k, In (i, k) tbl -> kind_of_tbl tbl i = k.
Proof.
  induction tbl as [|[i0 k0] r IH]; intros Hn i k Hin; [destruct Hin|].
  cbn [map fst nodupb] in Hn. apply andb_prop in Hn. destruct Hn as [Hm Hr].
  unfold kind_of_tbl. cbn [assoc]. destruct Hin as [E|Hin].
  - inversion E; subst. rewrite N.eqb_refl. reflexivity.
  - destruct (N.eqb_spec i i0) as [->|Hne].
    + exfalso. apply negb_true_iff in Hm.
      assert (X : memb N.eqb i0 (map fst r) = true).
      { unfold memb. apply existsb_exists. exists i0. split; [|apply N.eqb_refl].
        apply in_map_iff. exists (i0, k). split; [reflexivity | exact Hin]. }
      rewrite X in Hm. discriminate.
    + exact (IH Hr i k Hin).
Qed.

Theorem typeinfo_checked sch attr sel pol keys_of t :
  ti_ok false false t = true -> kinds_fun t = true ->
  ti_run sch attr sel pol ti_init (walk_events keys_of par_sel (twi_pol sel pol (kind_of_tree t)) t)
  = spec_obs sch attr sel (kind_of_tree t) (walk_events keys_of par_sel (twi_pol sel pol (kind_of_tree t)) t).
Proof.
  intros Hok Hk. apply typeinfo_reports_types_at; [exact Hok|].
  intros i k Hin. apply kinds_fun_tbl; assumption.
Qed.

(* ---- the stacked wrapper: TypeInfo readings inside the callbacks of one parallel sub-visitor ---- *)
Section StackedProof.
Variable sch : tschema.
Variable attr : N -> nattr.
Variable sel : N -> phase -> option N.
Variable pol : N -> phase -> action.
Variable keys_of : N -> list N.
Variable kind_of : N -> N.

Notation obs := (phase * N * tenv)%type.
Definition g_obs (e : event) : obs := (e_phase e, e_id e, types_at sch attr (chain_of kind_of e)).

Fixpoint pick (sk : option skipmark) (evs : list event) (os : list obs) : list obs :=
  match evs, os with
  | e :: r, o :: os' =>
    let '(sk', seen) := par_step sel pol sk e in (if is_nil seen then [] else [o]) ++ pick sk' r os'
  | _, _ => []
  end.

Lemma stack_is_pick : forall evs st sk,
  stack_run sch attr sel pol st sk evs = pick sk evs (ti_run sch attr par_sel par_pol st evs).
Proof.
  induction evs as [|e r IH]; intros st sk; [reflexivity|].
  cbn [stack_run ti_run]. unfold ti_step. destruct (par_step sel pol sk e) as [sk' seen] eqn:Ep.
  destruct (e_phase e) eqn:Eph; cbn [par_sel par_pol app pick]; rewrite Ep, IH; reflexivity.
Qed.

Lemma par_step_seen sk e :
  snd (par_step sel pol sk e) = []
  \/ exists fn, snd (par_step sel pol sk e)
                = [mkEvent (e_phase e) fn (e_id e) (e_kind e) (e_key e) (e_parent e) (e_path e) (e_ancs e)].
Proof.
  unfold par_step.
  repeat match goal with
         | |- context [match ?x with _ => _ end] => destruct x
         end; cbn [snd]; eauto.
Qed.

Lemma pick_map : forall evs sk,
  pick sk evs (map g_obs evs) = map g_obs (snd (par_run sel pol sk evs)).
Proof.
  induction evs as [|e r IH]; intros sk; [reflexivity|].
  cbn [map pick par_run]. pose proof (par_step_seen sk e) as Hs.
  destruct (par_step sel pol sk e) as [sk' seen]. cbn [snd] in Hs. rewrite IH.
  destruct (par_run sel pol sk' r) as [sk2 o2]. cbn [snd]. rewrite map_app.
  destruct Hs as [->|[fn ->]]; reflexivity.
Qed.

Theorem stacked_reports_types_at t :
  tree_ok t = true -> ti_ok false false t = true ->
  (forall i k, In (i, k) (kinds_of t) -> kind_of i = k) ->
  stack_run sch attr sel pol ti_init None (walk_events keys_of par_sel par_pol t)
  = map g_obs (walk_events keys_of sel pol t).
Proof.
  intros Htree Hok Hk. rewrite stack_is_pick.
  pose proof (typeinfo_reports_types_at sch attr par_sel par_pol keys_of kind_of t Hok Hk) as Hti.
  change (twi_pol par_sel par_pol kind_of) with par_pol in Hti.
  rewrite Hti.
  assert (Hs : spec_obs sch attr par_sel kind_of (walk_events keys_of par_sel par_pol t)
               = map g_obs (walk_events keys_of par_sel par_pol t)).
  { unfold spec_obs. generalize (walk_events keys_of par_sel par_pol t) as l.
    induction l as [|e r IH]; [reflexivity|].
    cbn [flat_map map]. rewrite IH. reflexivity. }
  rewrite Hs, pick_map.
  pose proof (par_projection keys_of sel pol t Htree) as Hp. unfold par_observed in Hp. rewrite Hp. reflexivity.
Qed.
End StackedProof.
