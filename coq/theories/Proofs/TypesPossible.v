(* The schema's PossibleTypes / IsPossibleType tables are the possible types
   declared on the view (interface declarations and union members). *)
From Coq Require Import List NArith Bool Lia.
From GQL Require Import Base.Bytes Types.Schema Types.Consistent Proofs.TypesReduce Proofs.TypesNames
  Proofs.TypesClosed Proofs.TypesView.
Import ListNotations.
Open Scope N_scope.

Lemma memN_in i l : memN i l = true <-> In i l.
Proof.
  unfold memN. rewrite existsb_exists. split.
  - intros (x & Hx & E). apply N.eqb_eq in E. subst. exact Hx.
  - intros H. exists i. split; auto. apply N.eqb_refl.
Qed.

Lemma mem_name_in n l : mem_name n l = true <-> In n l.
Proof.
  unfold mem_name. rewrite existsb_exists. split.
  - intros (x & Hx & E). apply bytes_eqb_eq in E. subst. exact Hx.
  - intros H. exists n. split; auto. apply bytes_eqb_refl.
Qed.

Lemma nodup_fst_inj {A B} (l : list (A * B)) n x y : NoDup (map fst l) -> In (n, x) l -> In (n, y) l -> x = y.
Proof.
  induction l as [|[m z] r IH]; simpl; intros Hnd Hx Hy; [contradiction|].
  inversion Hnd as [|a b Hni Hnd']; subst.
  destruct Hx as [Hx|Hx]; destruct Hy as [Hy|Hy].
  - inversion Hx; inversion Hy; subst. reflexivity.
  - inversion Hx; subst. exfalso. apply Hni. apply (in_map fst) in Hy. exact Hy.
  - inversion Hy; subst. exfalso. apply Hni. apply (in_map fst) in Hx. exact Hx.
  - exact (IH Hnd' Hx Hy).
Qed.

Lemma good_name_of defs tm n i : tm_good defs tm -> In (n, i) tm -> name_of defs i = n.
Proof. intros [_ H] Hin. destruct (H n i Hin) as (d & Hd & Hn & _). unfold name_of. rewrite Hd. exact Hn. Qed.

Lemma in_ids_entry tm i : In i (ids tm) -> exists n, In (n, i) tm.
Proof. unfold ids. intros H. apply in_map_iff in H. destruct H as [[n j] [E H]]. simpl in E. subst. exists n. exact H. Qed.

Lemma entry_in_ids (tm : tmap) n i : In (n, i) tm -> In i (ids tm).
Proof. intros H. unfold ids. change i with (snd (n, i)). apply in_map. exact H. Qed.

Lemma good_entry defs tm i : tm_good defs tm -> In i (ids tm) -> In (name_of defs i, i) tm.
Proof. intros Hg Hi. destruct (in_ids_entry tm i Hi) as [n Hn]. rewrite (good_name_of defs tm n i Hg Hn). exact Hn. Qed.

Lemma good_name_inj defs tm i j : tm_good defs tm -> In i (ids tm) -> In j (ids tm) ->
  name_of defs i = name_of defs j -> i = j.
Proof.
  intros Hg Hi Hj E. pose proof (good_entry defs tm i Hg Hi) as Ei. pose proof (good_entry defs tm j Hg Hj) as Ej.
  rewrite E in Ei. exact (nodup_fst_inj tm _ i j (proj1 Hg) Ei Ej).
Qed.

Lemma good_tail defs e tm : tm_good defs (e :: tm) -> tm_good defs tm.
Proof.
  intros [Hnd H]. split.
  - inversion Hnd; auto.
  - intros n i Hin. apply H. right. exact Hin.
Qed.

Lemma good_nodup_ids defs : forall tm, tm_good defs tm -> NoDup (ids tm).
Proof.
  induction tm as [|[n i] r IH]; intros Hg; simpl; constructor.
  - intros Hin. destruct (in_ids_entry r i Hin) as [m Hm].
    assert (E1 : name_of defs i = n) by (apply (good_name_of defs ((n, i) :: r)); auto; left; reflexivity).
    assert (E2 : name_of defs i = m) by (apply (good_name_of defs ((n, i) :: r)); auto; right; exact Hm).
    destruct Hg as [Hnd _]. inversion Hnd as [|a b Hni _]. apply Hni.
    rewrite <- E1, E2. change m with (fst (m, i)). apply in_map. exact Hm.
  - apply IH. exact (good_tail defs _ _ Hg).
Qed.

Lemma vfind_none defs : forall tm i, ~ In i (ids tm) -> vfind (view_types defs tm) i = None.
Proof.
  induction tm as [|[m j] r IH]; intros i Hn; simpl; auto.
  destruct (j =? i) eqn:E.
  - apply N.eqb_eq in E. subst. exfalso. apply Hn. left. reflexivity.
  - apply IH. intros H. apply Hn. right. exact H.
Qed.

Lemma vfind_some_in : forall ts i vt, vfind ts i = Some vt -> In vt ts /\ vt_id vt = i.
Proof.
  induction ts as [|t r IH]; simpl; intros i vt H; try discriminate.
  destruct (vt_id t =? i) eqn:E.
  - inversion H; subst. apply N.eqb_eq in E. auto.
  - destruct (IH i vt H). auto.
Qed.

Lemma define_ids_spec : forall l ids0, define_ids l = Some ids0 -> NoDup ids0 /\ forall i, In i ids0 <-> In (Some i) l.
Proof.
  induction l as [|[j|] r IH]; simpl; intros ids0 H; try discriminate.
  - inversion H; subst. split; [constructor|]. intros i; split; intros [].
  - destruct (define_ids r) as [l'|]; try discriminate. destruct (memN j l') eqn:E; try discriminate.
    inversion H; subst. destruct (IH l' eq_refl) as [Hnd Hiff]. split.
    + constructor; auto. intros Hin. apply memN_in in Hin. congruence.
    + intros i. simpl. rewrite Hiff. split; intros [Hx|Hx]; auto; left; congruence.
Qed.

Lemma members_nodup defs a : NoDup (members_of defs a).
Proof.
  unfold members_of. destruct (find_def defs a) as [d|]; [|constructor]. destruct d; try constructor.
  unfold define_union_types. destruct types as [|l|]; try constructor. destruct l as [|x l]; try constructor.
  destruct (define_ids (x :: l)) as [ids0|] eqn:E; try constructor.
  match goal with |- NoDup (match (if ?b then _ else _) with _ => _ end) => destruct b end; try constructor.
  exact (proj1 (define_ids_spec _ _ E)).
Qed.

Section Poss.
  Variable S : schema.
  Let defs := s_defs S.
  Let tm := s_tm S.
  Let ts := view_types defs tm.
  Hypothesis Hg : tm_good defs tm.
  Hypothesis Hc : closed defs tm.

  Lemma in_objects o : In o (objects_of S) <-> In o (ids tm) /\ has_kind defs KObject o = true.
  Proof. unfold objects_of. rewrite filter_In. reflexivity. Qed.

  Lemma members_in_map a o : In a (ids tm) -> In o (members_of defs a) -> In o (ids tm) /\ has_kind defs KObject o = true.
  Proof.
    intros Ha Ho. unfold members_of in Ho. destruct (find_def defs a) as [d|] eqn:Ed; [|destruct Ho].
    destruct d as [| | |n ms rt| |]; try destruct Ho.
    destruct (define_union_types defs ms rt) as [l|] eqn:Em; [|destruct Ho]. split.
    - apply (tgt_named_in defs). apply (Hc a Ha). unfold out_refs, members_of. rewrite Ed, Em. apply in_map. exact Ho.
    - exact (define_union_kinds defs ms rt l Em o Ho).
  Qed.

  (* PossibleTypes(a), for an abstract type of the map, is what the declarations say *)
  Lemma possible_types_spec a o : In a (ids tm) -> is_abstract defs a = true ->
    (In o (possible_types S a) <-> possible ts a o = true).
  Proof.
    intros Ha Hab. unfold possible. destruct (vfind_view defs tm a Ha) as [n Hv]. fold ts in Hv. rewrite Hv. simpl.
    unfold possible_types. fold defs. unfold is_abstract, has_kind in Hab. unfold vdef_of at 1.
    destruct (find_def defs a) as [d|] eqn:Ed; [|discriminate].
    destruct d as [| |na fs rt|na ms rt| |]; try discriminate; clear Hab.
    - (* interface *)
      unfold implementations. rewrite filter_In, in_objects. fold defs. split.
      + intros [[Ho Hk] Hm]. destruct (vfind_view defs tm o Ho) as [m Hvo]. fold ts in Hvo. rewrite Hvo. simpl.
        unfold vdef_of. unfold has_kind in Hk. destruct (find_def defs o) as [d|] eqn:Eo; try discriminate.
        destruct d; try discriminate. exact Hm.
      + intros H. destruct (vfind ts o) as [vo|] eqn:Evo; try discriminate.
        destruct (in_dec N.eq_dec o (ids tm)) as [Ho|Hn]; [|unfold ts in Evo; rewrite (vfind_none defs tm o Hn) in Evo; discriminate].
        destruct (vfind_view defs tm o Ho) as [m Hvo]. fold ts in Hvo. rewrite Hvo in Evo. inversion Evo; subst vo. simpl in H.
        unfold vdef_of in H. unfold has_kind. destruct (find_def defs o) as [d|] eqn:Eo; try discriminate.
        destruct d; try discriminate. auto.
    - (* union *)
      split.
      + intros Hm. destruct (members_in_map a o Ha Hm) as [Ho Hk].
        destruct (vfind_view defs tm o Ho) as [m Hvo]. fold ts in Hvo. rewrite Hvo. simpl.
        unfold vdef_of. unfold has_kind in Hk. destruct (find_def defs o) as [d|] eqn:Eo; try discriminate.
        destruct d; try discriminate. apply memN_in. exact Hm.
      + intros H. destruct (vfind ts o) as [vo|]; try discriminate.
        destruct (vt_def vo); try discriminate. apply memN_in. exact H.
  Qed.

  Lemma possible_types_in_map a o : In a (ids tm) -> In o (possible_types S a) -> In o (ids tm) /\ has_kind defs KObject o = true.
  Proof.
    intros Ha Ho. unfold possible_types in Ho. fold defs in Ho. destruct (find_def defs a) as [d|] eqn:Ed; [|destruct Ho].
    destruct d; try destruct Ho.
    - unfold implementations in Ho. apply filter_In in Ho. destruct Ho as [Ho _]. apply in_objects. exact Ho.
    - apply (members_in_map a o Ha Ho).
  Qed.

  Lemma assoc_name_map_first {A} (g : name * N -> A) (p : name * N -> bool) n i :
    NoDup (map fst tm) -> In (n, i) tm -> p (n, i) = true ->
    assoc_name n (map (fun e => (fst e, g e)) (filter p tm)) = Some (g (n, i)).
  Proof.
    generalize tm. induction tm0 as [|[m j] r IH]; simpl; intros Hnd Hin Hp; [contradiction|].
    inversion Hnd as [|x y Hni Hnd']; subst.
    destruct Hin as [Hin|Hin].
    - inversion Hin; subst. rewrite Hp. simpl. rewrite bytes_eqb_refl. reflexivity.
    - destruct (p (m, j)); simpl.
      + destruct (bytes_eqb m n) eqn:E.
        * apply bytes_eqb_eq in E. subst. exfalso. apply Hni. apply (in_map fst) in Hin. exact Hin.
        * exact (IH Hnd' Hin Hp).
      + exact (IH Hnd' Hin Hp).
  Qed.

  (* IsPossibleType(a, o) for types of the map is membership in PossibleTypes(a) *)
  Lemma is_possible_type_spec a o : In a (ids tm) -> is_abstract defs a = true -> In o (ids tm) ->
    (is_possible_type S a o = true <-> In o (possible_types S a)).
  Proof.
    intros Ha Hab Ho. unfold is_possible_type, possible_type_map. fold defs tm.
    pose proof (good_entry defs tm a Hg Ha) as Hea.
    rewrite (assoc_name_map_first (fun e => map (name_of defs) (possible_types S (snd e)))
               (fun e => is_abstract defs (snd e)) (name_of defs a) a (proj1 Hg) Hea Hab). simpl.
    rewrite mem_name_in, in_map_iff. split.
    - intros (o' & E & Ho'). destruct (possible_types_in_map a o' Ha Ho') as [Hin _].
      rewrite (good_name_inj defs tm o o' Hg Ho Hin (eq_sym E)). exact Ho'.
    - intros H. exists o. auto.
  Qed.

  Lemma abstract_possible_spec a o : In a (ids tm) -> In o (ids tm) ->
    (abstract_possible S a o = true <-> possible ts a o = true).
  Proof.
    intros Ha Ho. unfold abstract_possible. fold defs. split.
    - intros H. apply andb_true_iff in H. destruct H as [H H3]. apply andb_true_iff in H. destruct H as [H1 H2].
      apply possible_types_spec; auto. apply is_possible_type_spec; auto.
    - intros H. assert (Hab : is_abstract defs a = true).
      { unfold possible in H. destruct (vfind_view defs tm a Ha) as [n Hv]. fold ts in Hv. rewrite Hv in H. simpl in H.
        unfold vdef_of in H. unfold is_abstract, has_kind. destruct (find_def defs a) as [d|]; [|destruct (vfind ts o); discriminate].
        destruct d; simpl; auto; destruct (vfind ts o) as [vo|]; try discriminate; simpl in H; try discriminate;
          destruct (vt_def vo); discriminate. }
      apply possible_types_spec in H; auto. destruct (possible_types_in_map a o Ha H) as [_ Hk].
      rewrite Hab, Hk. simpl. apply is_possible_type_spec; auto.
  Qed.

  Lemma assocN_map_key {A} (g : N -> A) : forall (l : list N) a, In a l -> assocN a (map (fun x => (x, g x)) l) = Some (g a).
  Proof.
    induction l as [|x r IH]; simpl; intros a Hin; [contradiction|].
    destruct (x =? a) eqn:E.
    - apply N.eqb_eq in E. subst. reflexivity.
    - destruct Hin as [Hin|Hin]; [subst; rewrite N.eqb_refl in E; discriminate|]. exact (IH a Hin).
  Qed.

  Lemma possible_types_nodup a : NoDup (possible_types S a).
  Proof.
    unfold possible_types. fold defs. destruct (find_def defs a) as [d|] eqn:Ed; [|constructor].
    destruct d; try constructor.
    - unfold implementations, objects_of. apply NoDup_filter. apply NoDup_filter. exact (good_nodup_ids defs tm Hg).
    - apply members_nodup.
  Qed.

  (* clause cs_possible of Consistent *)
  Lemma view_possible_rows a : In a (ids tm) -> is_abstract defs a = true ->
    exists row row2, assocN a (v_poss (view_of S)) = Some row /\ assocN a (v_isposs (view_of S)) = Some row2
      /\ NoDup row
      /\ (forall o, In o row <-> possible ts a o = true)
      /\ (forall o, In o row2 <-> possible ts a o = true).
  Proof.
    intros Ha Hab. exists (possible_types S a), (filter (is_possible_type S a) (objects_of S)).
    assert (Hin : In a (filter (is_abstract defs) (map snd tm))) by (apply filter_In; auto).
    unfold view_of; simpl. fold defs tm.
    split; [exact (assocN_map_key (possible_types S) _ a Hin)|].
    split; [exact (assocN_map_key (fun a => filter (is_possible_type S a) (objects_of S)) _ a Hin)|].
    split; [apply possible_types_nodup|]. split.
    - intros o. apply possible_types_spec; auto.
    - intros o. rewrite filter_In, in_objects. split.
      + intros [[Ho _] Hp]. apply possible_types_spec; auto. apply is_possible_type_spec; auto.
      + intros H. apply possible_types_spec in H; auto. destruct (possible_types_in_map a o Ha H) as [Ho Hk].
        split; auto. apply is_possible_type_spec; auto.
  Qed.
End Poss.
