(* C10: number lexemes.  What fmt prints for a Go int (dec_Z) or a float64 (fmt_g) is one INT or
   FLOAT token of the lexer, and reading the lexeme back as an exact decimal gives the number. *)
From Coq Require Import List NArith ZArith Bool Lia DecimalN DecimalFacts.
From GQL Require Import Base.Bytes Syntax.Lexer Types.Literal Proofs.SyntaxRender.
Import ListNotations.
Open Scope N_scope.

(* ---------- decimal digits of a natural number ---------- *)
Lemma uint_bytes_inv : forall u, uint_of_bytes (bytes_of_uint u) = u.
Proof. induction u; simpl; try rewrite IHu; reflexivity. Qed.

Lemma N_of_dec_N : forall n, N_of_dec (dec_N n) = n.
Proof. intro n. unfold N_of_dec, dec_N. rewrite uint_bytes_inv. apply Unsigned.of_to. Qed.

Lemma digits_of_uint : forall u, forallb is_digit (bytes_of_uint u) = true.
Proof. induction u; simpl; try rewrite IHu; reflexivity. Qed.

Lemma dec_N_digits : forall n, forallb is_digit (dec_N n) = true.
Proof. intro n. apply digits_of_uint. Qed.

(* "0", or a digit other than 0 followed by digits *)
Definition int_shape (b : bytes) : Prop :=
  b = [48] \/ exists c r, b = c :: r /\ is_digit c = true /\ c <> 48 /\ forallb is_digit r = true.

Lemma nzhead_shape : forall u, Decimal.nzhead u = Decimal.Nil \/
  exists c r, bytes_of_uint (Decimal.nzhead u) = c :: r /\ is_digit c = true /\ c <> 48 /\ forallb is_digit r = true.
Proof.
  induction u; simpl; auto; right; eexists; eexists; (split; [reflexivity|]);
    (split; [reflexivity|]); (split; [discriminate|]); apply digits_of_uint.
Qed.

Lemma unorm_shape : forall u, int_shape (bytes_of_uint (Decimal.unorm u)).
Proof.
  intro u. unfold Decimal.unorm. destruct (nzhead_shape u) as [H|(c & r & H & Hc & Hn & Hr)].
  - rewrite H. left. reflexivity.
  - right. exists c, r. destruct (Decimal.nzhead u); simpl in *; try discriminate;
      (split; [exact H|]); (split; [exact Hc|]); (split; [exact Hn|exact Hr]).
Qed.

Lemma dec_N_shape : forall n, int_shape (dec_N n).
Proof.
  intro n. unfold dec_N.
  assert (E : N.to_uint n = Decimal.unorm (N.to_uint n)).
  { rewrite <- (Unsigned.to_of (N.to_uint n)). rewrite Unsigned.of_to. reflexivity. }
  rewrite E. apply unorm_shape.
Qed.

Lemma int_shape_head : forall b, int_shape b -> exists c r, b = c :: r /\ is_digit c = true /\ forallb is_digit r = true.
Proof.
  intros b [->|(c & r & -> & Hc & _ & Hr)].
  - exists 48, []. repeat split.
  - exists c, r. repeat split; assumption.
Qed.

Lemma is_digit_range : forall c, is_digit c = true -> 48 <= c <= 57.
Proof. intros c H. unfold is_digit in H. apply andb_true_iff in H. destruct H as [H1 H2]. apply N.leb_le in H1, H2. lia. Qed.

Lemma is_digit_not : forall c, is_digit c = true -> (c =? 45) = false /\ (c =? 43) = false /\ (c =? 46) = false /\ (c =? 101) = false /\ (c =? 69) = false.
Proof. intros c H. apply is_digit_range in H. repeat split; apply N.eqb_neq; lia. Qed.

Lemma N_of_dec_D0 : forall b, N_of_dec (48 :: b) = N_of_dec b.
Proof.
  intro b. unfold N_of_dec. cbn [uint_of_bytes].
  rewrite <- (Unsigned.of_uint_norm (Decimal.D0 _)), unorm_D0, Unsigned.of_uint_norm. reflexivity.
Qed.

Lemma Z_of_dec_unsigned : forall b, int_shape b -> Z_of_dec b = Z.of_N (N_of_dec b).
Proof.
  intros b H. destruct (int_shape_head b H) as (c & r & -> & Hc & _).
  destruct (is_digit_not c Hc) as (H45 & H43 & _). unfold Z_of_dec.
  apply N.eqb_neq in H45, H43.
  destruct c as [|p]; [reflexivity|].
  repeat (destruct p as [p|p|]; try reflexivity; try (exfalso; apply H45; reflexivity); try (exfalso; apply H43; reflexivity)).
Qed.

Lemma Z_of_dec_Z : forall z, Z_of_dec (dec_Z z) = z.
Proof.
  intros [|p|p]; unfold dec_Z.
  - reflexivity.
  - rewrite (Z_of_dec_unsigned _ (dec_N_shape _)), N_of_dec_N. reflexivity.
  - cbn [Z_of_dec]. rewrite N_of_dec_N. reflexivity.
Qed.

(* ---------- shapes of number lexemes and the lexer's readNumber ---------- *)
Definition frac_shape (fp : bytes) : Prop :=
  fp = [] \/ exists ds, fp = 46 :: ds /\ ds <> [] /\ forallb is_digit ds = true.
Definition exp_shape (ep : bytes) : Prop :=
  ep = [] \/ exists e sg ds, ep = e :: sg ++ ds /\ (e = 101 \/ e = 69) /\ (sg = [] \/ sg = [43] \/ sg = [45])
                             /\ ds <> [] /\ forallb is_digit ds = true.

Definition nonnil {A} (l : list A) : bool := match l with [] => false | _ => true end.

(* the first byte of what follows a run of digits does not continue it *)
Definition stops (rest : bytes) : Prop := match rest with [] => True | b :: _ => is_digit b = false end.

Lemma span_digits : forall (a rest : list N), forallb is_digit a = true -> stops rest -> span is_digit (a ++ rest) = (a, rest).
Proof.
  intros a rest Ha Hr. apply span_app_stop; [exact Ha|].
  destruct rest as [|b r]; [reflexivity|]. simpl in Hr. rewrite Hr. reflexivity.
Qed.

Lemma frac_exp_stops : forall fp ep, frac_shape fp -> exp_shape ep -> stops (fp ++ ep).
Proof.
  intros fp ep [->|(ds & -> & _)] He.
  - destruct He as [->|(e & sg & ds & -> & [->| ->] & _)]; simpl; auto.
  - simpl. reflexivity.
Qed.

Lemma exp_stops : forall ep, exp_shape ep -> stops ep.
Proof. intros ep [->|(e & sg & ds & -> & [->| ->] & _)]; simpl; auto. Qed.

Lemma read_exp_shape : forall ep, exp_shape ep -> read_exp_part ep = Some (ep, nonnil ep, []).
Proof.
  intros ep [->|(e & sg & ds & -> & He & Hs & Hne & Hd)]; [reflexivity|].
  unfold read_exp_part.
  assert (E : (e =? 69) || (e =? 101) = true) by (destruct He as [->| ->]; reflexivity).
  rewrite E.
  destruct ds as [|d ds']; [contradiction Hne; reflexivity|].
  assert (Hd0 : is_digit d = true) by (cbn [forallb] in Hd; apply andb_true_iff in Hd; tauto).
  destruct (is_digit_not d Hd0) as (H45 & H43 & _).
  pose proof (span_digits (d :: ds') [] Hd I) as Hsp. rewrite List.app_nil_r in Hsp.
  destruct Hs as [->|[->| ->]]; cbn [app].
  - rewrite H43, H45. cbn [orb]. rewrite Hsp. reflexivity.
  - change ((43 =? 43) || (43 =? 45)) with true. cbv iota. rewrite Hsp. reflexivity.
  - change ((45 =? 43) || (45 =? 45)) with true. cbv iota. rewrite Hsp. reflexivity.
Qed.

Lemma read_frac_shape : forall fp ep, frac_shape fp -> exp_shape ep ->
  read_frac_part (fp ++ ep) = Some (fp, nonnil fp, ep).
Proof.
  intros fp ep [->|(ds & -> & Hne & Hd)] He.
  - cbn [app]. destruct He as [->|(e & sg & ds & -> & Hee & _)]; [reflexivity|].
    unfold read_frac_part. assert (E : (e =? 46) = false) by (destruct Hee as [->| ->]; reflexivity). rewrite E. reflexivity.
  - cbn [app]. unfold read_frac_part. change (46 =? 46) with true. cbv iota.
    unfold bytes, byte in *; rewrite (span_digits ds ep Hd (exp_stops ep He)).
    destruct ds; [contradiction Hne; reflexivity|reflexivity].
Qed.

Lemma read_int_shape : forall ip rest, int_shape ip -> stops rest -> read_int_part (ip ++ rest) = Some (ip, rest).
Proof.
  intros ip rest [->|(c & r & -> & Hc & Hn & Hr)] Hs.
  - cbn [app]. unfold read_int_part. change (48 =? 48) with true. cbv iota.
    destruct rest as [|d rest']; [reflexivity|]. simpl in Hs. rewrite Hs. reflexivity.
  - cbn [app]. unfold read_int_part. apply N.eqb_neq in Hn. rewrite Hn.
    change (c :: r ++ rest) with ((c :: r) ++ rest).
    unfold bytes, byte in *; rewrite (span_digits (c :: r) rest); [reflexivity| |exact Hs].
    cbn [forallb]. rewrite Hc, Hr. reflexivity.
Qed.

Theorem read_number_parts : forall neg ip fp ep, int_shape ip -> frac_shape fp -> exp_shape ep ->
  read_number (sign_bytes neg ++ ip ++ fp ++ ep) = Some (sign_bytes neg ++ ip ++ fp ++ ep, nonnil fp || nonnil ep, []).
Proof.
  intros neg ip fp ep Hi Hf He. unfold read_number.
  pose proof (read_int_shape ip (fp ++ ep) Hi (frac_exp_stops fp ep Hf He)) as R1.
  pose proof (read_frac_shape fp ep Hf He) as R2. pose proof (read_exp_shape ep He) as R3.
  destruct neg; cbn [sign_bytes app].
  - change (45 =? 45) with true. cbv iota beta. unfold bytes, byte in *. rewrite R1, R2, R3. reflexivity.
  - destruct (int_shape_head ip Hi) as (c & r & E & Hc & _). subst ip.
    destruct (is_digit_not c Hc) as (H45 & _). cbn [app] in *. rewrite H45. cbv iota beta.
    unfold bytes, byte in *. rewrite R1, R2, R3. reflexivity.
Qed.

Lemma existsb_app_false : forall (f : N -> bool) a b, existsb f a = false -> existsb f (a ++ b) = existsb f b.
Proof. intros f a b H. rewrite existsb_app, H. reflexivity. Qed.

Lemma floaty_digits : forall a, forallb is_digit a = true -> floaty a = false.
Proof.
  induction a as [|c a IH]; intro H; [reflexivity|]. cbn [forallb] in H. apply andb_true_iff in H. destruct H as [Hc Ha].
  unfold floaty. cbn [existsb]. destruct (is_digit_not c Hc) as (_ & _ & H46 & H101 & H69). rewrite H46, H101, H69.
  cbn [orb]. exact (IH Ha).
Qed.

Lemma int_shape_digits : forall ip, int_shape ip -> forallb is_digit ip = true.
Proof.
  intros ip H. destruct (int_shape_head ip H) as (c & r & -> & Hc & Hr). cbn [forallb]. rewrite Hc, Hr. reflexivity.
Qed.

Lemma floaty_parts : forall neg ip fp ep, int_shape ip -> frac_shape fp -> exp_shape ep ->
  floaty (sign_bytes neg ++ ip ++ fp ++ ep) = nonnil fp || nonnil ep.
Proof.
  intros neg ip fp ep Hi Hf He. unfold floaty.
  rewrite existsb_app_false by (destruct neg; reflexivity).
  rewrite existsb_app_false by (apply (floaty_digits ip (int_shape_digits ip Hi))).
  destruct Hf as [->|(ds & -> & _)]; [|reflexivity].
  destruct He as [->|(e & sg & ds & -> & [->| ->] & _)]; reflexivity.
Qed.

Corollary num_ok_parts : forall neg ip fp ep, int_shape ip -> frac_shape fp -> exp_shape ep ->
  num_lexeme_ok (sign_bytes neg ++ ip ++ fp ++ ep) (floaty (sign_bytes neg ++ ip ++ fp ++ ep)) = true.
Proof.
  intros neg ip fp ep Hi Hf He. unfold num_lexeme_ok.
  rewrite (read_number_parts neg ip fp ep Hi Hf He), (floaty_parts neg ip fp ep Hi Hf He).
  rewrite (proj2 (bytes_eqb_eq _ _) eq_refl). rewrite eqb_reflx. reflexivity.
Qed.

(* ---------- Go integers ---------- *)
Lemma dec_Z_parts : forall z, dec_Z z = sign_bytes (z <? 0)%Z ++ dec_N (Z.abs_N z) ++ [] ++ [].
Proof. intros [|p|p]; unfold dec_Z; cbn [sign_bytes Z.ltb Z.compare Z.abs_N app Z.to_N]; rewrite ?List.app_nil_r; reflexivity. Qed.

Lemma dec_Z_not_floaty : forall z, floaty (dec_Z z) = false.
Proof.
  intro z. rewrite dec_Z_parts.
  rewrite (floaty_parts _ _ [] [] (dec_N_shape _) (or_introl eq_refl) (or_introl eq_refl)). reflexivity.
Qed.

Lemma dec_Z_int_token : forall z, num_lexeme_ok (dec_Z z) false = true.
Proof.
  intro z. rewrite <- (dec_Z_not_floaty z). rewrite dec_Z_parts.
  apply num_ok_parts; [apply dec_N_shape|left; reflexivity|left; reflexivity].
Qed.

Lemma frac_dot0 : frac_shape [46; 48].
Proof. right. exists [48]. repeat split. discriminate. Qed.

Lemma dec_Z_dot0_parts : forall z, dec_Z z ++ [46; 48] = sign_bytes (z <? 0)%Z ++ dec_N (Z.abs_N z) ++ [46; 48] ++ [].
Proof. intro z. rewrite dec_Z_parts. rewrite !List.app_nil_r. rewrite <- List.app_assoc. reflexivity. Qed.

Lemma dec_Z_dot0_float_token : forall z, num_lexeme_ok (dec_Z z ++ [46; 48]) true = true.
Proof.
  intro z. rewrite dec_Z_dot0_parts.
  pose proof (num_ok_parts (z <? 0)%Z (dec_N (Z.abs_N z)) [46; 48] [] (dec_N_shape _) frac_dot0 (or_introl eq_refl)) as H.
  rewrite (floaty_parts _ _ _ _ (dec_N_shape _) frac_dot0 (or_introl eq_refl)) in H. exact H.
Qed.

(* ---------- reading a lexeme back as an exact decimal ---------- *)
Definition exp_val (ep : bytes) : Z := match ep with _ :: r => Z_of_dec r | [] => 0%Z end.

Lemma no_sign_digit : forall (lx : list N) c r, lx = c :: r -> is_digit c = true ->
  match lx with 45 :: r' => (true, r') | _ => (false, lx) end = (false, lx).
Proof.
  intros lx c r -> H. apply is_digit_range in H. destruct c as [|p]; [reflexivity|].
  repeat (destruct p as [p|p|]; try reflexivity); exfalso; lia.
Qed.

Theorem float_of_parts : forall neg ip fp ep, int_shape ip -> frac_shape fp -> exp_shape ep ->
  float_of_lexeme (sign_bytes neg ++ ip ++ fp ++ ep)
  = canon_dec neg (digit_vals (ip ++ tl fp)) (Z.of_nat (length ip) + exp_val ep)%Z.
Proof.
  intros neg ip fp ep Hi Hf He. unfold float_of_lexeme.
  pose proof (span_digits ip (fp ++ ep) (int_shape_digits ip Hi) (frac_exp_stops fp ep Hf He)) as R1.
  assert (R2 : (let '(f, r2) := match fp ++ ep with 46 :: r' => span is_digit r' | _ => ([], fp ++ ep) end in
                canon_dec neg (digit_vals (ip ++ f)) (Z.of_nat (length ip) + match r2 with _ :: r' => Z_of_dec r' | [] => 0%Z end)%Z)
               = canon_dec neg (digit_vals (ip ++ tl fp)) (Z.of_nat (length ip) + exp_val ep)%Z).
  { destruct Hf as [->|(ds & -> & Hne & Hd)].
    - cbn [app tl]. destruct He as [->|(e & sg & ds & -> & [->| ->] & Hrest)]; reflexivity.
    - cbn [app tl]. unfold bytes, byte in *. rewrite (span_digits ds ep Hd (exp_stops ep He)). destruct ep; reflexivity. }
  destruct neg; cbn [sign_bytes app].
  - unfold bytes, byte in *. rewrite R1. exact R2.
  - destruct (int_shape_head ip Hi) as (c & r & E & Hc & _).
    unfold bytes, byte in *. rewrite (no_sign_digit (ip ++ fp ++ ep) c (r ++ fp ++ ep) ltac:(rewrite E; reflexivity) Hc).
    rewrite R1. exact R2.
Qed.

Lemma digit_vals_bytes : forall ds, digit_vals (digit_bytes ds) = ds.
Proof.
  induction ds as [|d ds IH]; [reflexivity|]. unfold digit_vals, digit_bytes in *. cbn [map]. rewrite IH. f_equal. lia.
Qed.

Lemma digit_vals_app : forall a b, digit_vals (a ++ b) = digit_vals a ++ digit_vals b.
Proof. intros. unfold digit_vals. apply map_app. Qed.

Lemma digit_vals_zeros : forall n, digit_vals (zeros n) = repeat 0 n.
Proof. induction n as [|n IH]; [reflexivity|]. cbn [zeros repeat]. unfold digit_vals in *. cbn [map]. rewrite IH. reflexivity. Qed.

Lemma digit_bytes_digits : forall ds, forallb (fun x => x <=? 9) ds = true -> forallb is_digit (digit_bytes ds) = true.
Proof.
  induction ds as [|d ds IH]; intro H; [reflexivity|]. cbn [forallb] in H. apply andb_true_iff in H. destruct H as [Hd Hs].
  unfold digit_bytes in *. cbn [map forallb]. rewrite (IH Hs). apply N.leb_le in Hd.
  unfold is_digit. replace (48 <=? 48 + d) with true by (symmetry; apply N.leb_le; lia).
  replace (48 + d <=? 57) with true by (symmetry; apply N.leb_le; lia). reflexivity.
Qed.

Lemma zeros_digits : forall n, forallb is_digit (zeros n) = true.
Proof. induction n; [reflexivity|]. cbn [zeros forallb]. rewrite IHn. reflexivity. Qed.

(* canonical digits stay as they are *)
Lemma drop_zeros_head : forall d r, d <> 0 -> drop_zeros (d :: r) = d :: r.
Proof. intros d r H. destruct d; [contradiction H; reflexivity|reflexivity]. Qed.

Lemma drop_zeros_repeat : forall n r, drop_zeros (repeat 0 n ++ r) = drop_zeros r.
Proof. induction n as [|n IH]; intro r; [reflexivity|]. cbn [repeat app drop_zeros]. apply IH. Qed.

Lemma rev_repeat : forall (x : N) n, rev (repeat x n) = repeat x n.
Proof.
  induction n as [|n IH]; [reflexivity|]. cbn [repeat rev]. rewrite IH.
  clear IH. induction n as [|n IH]; [reflexivity|]. cbn [repeat app]. rewrite IH. reflexivity.
Qed.

Definition canonical (ds : list N) : Prop := exists d r, ds = d :: r /\ d <> 0 /\ last ds 1 <> 0.

Lemma rev_last_head : forall (ds : list N), ds <> [] -> exists r, rev ds = last ds 1 :: r.
Proof.
  induction ds as [|d ds IH]; intro H; [contradiction H; reflexivity|].
  destruct ds as [|d' ds'].
  - exists []. reflexivity.
  - destruct (IH ltac:(discriminate)) as (r & Hr). change (rev (d :: d' :: ds')) with (rev (d' :: ds') ++ [d]).
    rewrite Hr. exists (r ++ [d]). reflexivity.
Qed.

Lemma strip_trailing_canonical : forall ds n, canonical ds -> rev (drop_zeros (rev (ds ++ repeat 0 n))) = ds.
Proof.
  intros ds n (d & r & E & Hd & Hl). rewrite List.rev_app_distr, rev_repeat, drop_zeros_repeat.
  destruct (rev_last_head ds ltac:(rewrite E; discriminate)) as (r' & Hr). rewrite Hr.
  rewrite (drop_zeros_head _ _ Hl). rewrite <- Hr. apply rev_involutive.
Qed.

Lemma canon_dec_canonical : forall neg ds n p, canonical ds -> canon_dec neg (ds ++ repeat 0 n) p = (neg, ds, p).
Proof.
  intros neg ds n p H. unfold canon_dec. pose proof H as (d & r & E & Hd & Hl).
  assert (E1 : drop_zeros (ds ++ repeat 0 n) = ds ++ repeat 0 n) by (rewrite E; cbn [app]; apply drop_zeros_head; exact Hd).
  rewrite E1. rewrite (strip_trailing_canonical ds n H). rewrite Nat.sub_diag. rewrite E.
  cbv iota beta. f_equal. lia.
Qed.

Lemma canon_dec_leading : forall neg ds k p, canonical ds ->
  canon_dec neg (repeat 0 k ++ ds) p = (neg, ds, (p - Z.of_nat k)%Z).
Proof.
  intros neg ds k p H. unfold canon_dec. pose proof H as (d & r & E & Hd & Hl).
  rewrite drop_zeros_repeat. rewrite E at 1 2. rewrite (drop_zeros_head _ _ Hd). rewrite <- E.
  pose proof (strip_trailing_canonical ds 0 H) as S0. cbn [repeat] in S0. rewrite List.app_nil_r in S0. rewrite S0.
  rewrite List.app_length, repeat_length. rewrite E. cbv iota beta. rewrite (drop_zeros_head _ _ Hd). f_equal. cbn [length]. lia.
Qed.

(* an integer's digits followed by ".0" read as the integer *)
Lemma canon_dec_snoc0 : forall neg ds p, (ds = [0] \/ exists d r, ds = d :: r /\ d <> 0) ->
  canon_dec neg (ds ++ [0]) p = canon_dec neg ds p.
Proof.
  intros neg ds p [->|(d & r & -> & Hd)]; [reflexivity|].
  unfold canon_dec. cbn [app]. rewrite !(drop_zeros_head _ _ Hd).
  change (d :: r ++ [0]) with ((d :: r) ++ [0]). rewrite List.rev_app_distr. cbn [rev app drop_zeros].
  rewrite !Nat.sub_diag. reflexivity.
Qed.

Lemma digit_vals_shape : forall b, int_shape b -> digit_vals b = [0] \/ exists d r, digit_vals b = d :: r /\ d <> 0.
Proof.
  intros b [->|(c & r & -> & Hc & Hn & _)]; [left; reflexivity|].
  right. exists (c - 48), (digit_vals r). split; [reflexivity|]. apply is_digit_range in Hc. lia.
Qed.

Theorem float_of_int_dot0 : forall z, float_of_lexeme (dec_Z z ++ [46; 48]) = float_of_Z z.
Proof.
  intro z. rewrite dec_Z_dot0_parts.
  rewrite (float_of_parts _ _ _ _ (dec_N_shape _) frac_dot0 (or_introl eq_refl)).
  cbn [tl exp_val]. rewrite digit_vals_app. change (digit_vals [48]) with [0].
  rewrite (canon_dec_snoc0 _ _ _ (digit_vals_shape _ (dec_N_shape _))).
  unfold float_of_Z. unfold digit_vals at 3. rewrite map_length. rewrite Z.add_0_r. reflexivity.
Qed.

(* ---------- float64 by its shortest digits ---------- *)
Definition fdigits_ok (ds : list N) : Prop := canonical ds /\ forallb (fun x => x <=? 9) ds = true.

Lemma Z_of_dec_signed : forall (neg : bool) b, forallb is_digit b = true -> b <> [] ->
  Z_of_dec ((if neg then 45 else 43) :: b) = (if neg then - Z.of_N (N_of_dec b) else Z.of_N (N_of_dec b))%Z.
Proof. intros [|] b _ _; reflexivity. Qed.

Lemma pad2_val : forall ds, N_of_dec (pad2 ds) = N_of_dec ds.
Proof. intros [|c [|c' r]]; cbn [pad2]; rewrite ?N_of_dec_D0; reflexivity. Qed.

Lemma pad2_digits : forall ds, forallb is_digit ds = true -> ds <> [] -> forallb is_digit (pad2 ds) = true /\ pad2 ds <> [].
Proof.
  intros ds H Hne. destruct ds as [|c [|c' r]]; cbn [pad2].
  - contradiction Hne; reflexivity.
  - split; [cbn [forallb] in *; rewrite H; reflexivity|discriminate].
  - split; [exact H|discriminate].
Qed.

Lemma fmt_exp_val : forall e, Z_of_dec (fmt_exp e) = e.
Proof.
  intro e. unfold fmt_exp.
  destruct (e <? 0)%Z eqn:En; cbn [Z_of_dec]; rewrite pad2_val, N_of_dec_N.
  - apply Z.ltb_lt in En. rewrite N2Z.inj_abs_N. lia.
  - apply Z.ltb_ge in En. rewrite N2Z.inj_abs_N. lia.
Qed.

Lemma fmt_exp_shape : forall e, exp_shape (101 :: fmt_exp e).
Proof.
  intro e. right. unfold fmt_exp.
  exists 101, [if (e <? 0)%Z then 45 else 43], (pad2 (dec_N (Z.abs_N e))).
  split; [reflexivity|]. split; [left; reflexivity|]. split; [destruct (e <? 0)%Z; auto|].
  destruct (int_shape_head _ (dec_N_shape (Z.abs_N e))) as (c & r & E & _).
  destruct (pad2_digits _ (dec_N_digits (Z.abs_N e)) ltac:(rewrite E; discriminate)) as [H1 H2]. split; assumption.
Qed.

Lemma forallb_firstn : forall (P : N -> bool) n l, forallb P l = true -> forallb P (firstn n l) = true.
Proof.
  intros P. induction n as [|n IH]; intros [|x l] H; try reflexivity. cbn [firstn forallb] in *.
  apply andb_true_iff in H. destruct H as [Hx Hl]. rewrite Hx, (IH l Hl). reflexivity.
Qed.
Lemma forallb_skipn : forall (P : N -> bool) n l, forallb P l = true -> forallb P (skipn n l) = true.
Proof.
  intros P. induction n as [|n IH]; intros [|x l] H; try reflexivity; try exact H. cbn [skipn forallb] in *.
  apply andb_true_iff in H. destruct H as [Hx Hl]. exact (IH l Hl).
Qed.

Section Float.
  Variables (neg : bool) (ds : list N) (dp : Z).
  Hypothesis Hds : fdigits_ok ds.

  Lemma fds_cons : exists d r, ds = d :: r /\ d <> 0 /\ d <= 9 /\ forallb (fun x => x <=? 9) r = true.
  Proof.
    destruct Hds as [(d & r & E & Hd & _) Hall]. exists d, r. rewrite E in Hall. cbn [forallb] in Hall.
    apply andb_true_iff in Hall. destruct Hall as [H9 Hr]. apply N.leb_le in H9. repeat split; assumption.
  Qed.

  Lemma head_digit_shape : forall d, d <> 0 -> d <= 9 -> is_digit (48 + d) = true /\ 48 + d <> 48.
  Proof.
    intros d H0 H9. split; [|lia]. unfold is_digit.
    replace (48 <=? 48 + d) with true by (symmetry; apply N.leb_le; lia).
    replace (48 + d <=? 57) with true by (symmetry; apply N.leb_le; lia). reflexivity.
  Qed.

  (* %e *)
  Lemma fmt_e_int_shape : int_shape (fmt_e_int ds).
  Proof.
    destruct fds_cons as (d & r & -> & H0 & H9 & _). right. exists (48 + d), [].
    destruct (head_digit_shape d H0 H9) as [Hd Hn]. repeat split; assumption.
  Qed.

  Lemma fmt_e_frac_shape : frac_shape (fmt_e_frac ds).
  Proof.
    destruct fds_cons as (d & r & -> & _ & _ & Hr). destruct r as [|d' r']; [left; reflexivity|].
    right. exists (digit_bytes (d' :: r')). split; [reflexivity|]. split; [discriminate|apply digit_bytes_digits; exact Hr].
  Qed.

  Lemma fmt_e_digits : digit_vals (fmt_e_int ds ++ tl (fmt_e_frac ds)) = ds.
  Proof.
    destruct fds_cons as (d & r & -> & _ & _ & _). destruct r as [|d' r'].
    - cbn [fmt_e_int fmt_e_frac tl app]. change [48 + d] with (digit_bytes [d]). apply digit_vals_bytes.
    - cbn [fmt_e_int fmt_e_frac tl app]. change (48 + d :: digit_bytes (d' :: r')) with (digit_bytes (d :: d' :: r')).
      apply digit_vals_bytes.
  Qed.

  Lemma canon_self : forall p, canon_dec neg ds p = (neg, ds, p).
  Proof. intro p. pose proof (canon_dec_canonical neg ds 0 p (proj1 Hds)) as H. cbn [repeat] in H. rewrite List.app_nil_r in H. exact H. Qed.

  Lemma fmt_e_read : float_of_lexeme (fmt_e neg ds dp) = (neg, ds, dp).
  Proof.
    unfold fmt_e. rewrite (float_of_parts neg _ _ _ fmt_e_int_shape fmt_e_frac_shape (fmt_exp_shape (dp - 1))).
    rewrite fmt_e_digits. cbn [exp_val]. rewrite fmt_exp_val.
    replace (length (fmt_e_int ds)) with 1%nat by (destruct fds_cons as (d & r & -> & _); reflexivity).
    rewrite canon_self. f_equal. lia.
  Qed.

  Lemma fmt_e_token : num_lexeme_ok (fmt_e neg ds dp) (floaty (fmt_e neg ds dp)) = true.
  Proof. unfold fmt_e. apply num_ok_parts; [apply fmt_e_int_shape|apply fmt_e_frac_shape|apply fmt_exp_shape]. Qed.

  (* %f *)
  Lemma firstn_digits : forall n, forallb (fun x => x <=? 9) (firstn n ds) = true.
  Proof. intro n. apply forallb_firstn. exact (proj2 Hds). Qed.
  Lemma skipn_digits : forall n, forallb (fun x => x <=? 9) (skipn n ds) = true.
  Proof. intro n. apply forallb_skipn. exact (proj2 Hds). Qed.

  Lemma fmt_f_int_shape : int_shape (fmt_f_int ds dp).
  Proof.
    unfold fmt_f_int. destruct (0 <? dp)%Z eqn:E; [|left; reflexivity].
    apply Z.ltb_lt in E. destruct fds_cons as (d & r & Eds & H0 & H9 & Hr).
    right. destruct (Z.to_nat dp) as [|k] eqn:Ek; [lia|].
    exists (48 + d), (digit_bytes (firstn k r) ++ zeros (Z.to_nat (dp - Z.of_nat (length ds)))).
    destruct (head_digit_shape d H0 H9) as [Hd Hn].
    split; [rewrite Eds; reflexivity|]. split; [exact Hd|]. split; [exact Hn|].
    rewrite forallb_app, zeros_digits, andb_true_r. apply digit_bytes_digits.
    pose proof (firstn_digits (S k)) as F. rewrite Eds in F. cbn [firstn forallb] in F. apply andb_true_iff in F. tauto.
  Qed.

  Lemma fmt_f_frac_shape : frac_shape (fmt_f_frac ds dp).
  Proof.
    unfold fmt_f_frac. destruct (dp <? Z.of_nat (length ds))%Z eqn:E; [|left; reflexivity].
    apply Z.ltb_lt in E. right. exists (zeros (Z.to_nat (- dp)) ++ digit_bytes (skipn (Z.to_nat dp) ds)).
    split; [reflexivity|]. split.
    - intro H. apply app_eq_nil in H. destruct H as [_ H]. unfold digit_bytes in H. apply map_eq_nil in H.
      apply (f_equal (@length N)) in H. rewrite skipn_length in H.
      destruct fds_cons as (d & r & Eds & _). rewrite Eds in *. cbn [length] in *. lia.
    - rewrite forallb_app, zeros_digits. apply digit_bytes_digits. apply skipn_digits.
  Qed.

  Lemma fmt_f_read : (-3 <= dp)%Z -> float_of_lexeme (fmt_f neg ds dp) = (neg, ds, dp).
  Proof.
    intro Hlo. unfold fmt_f. rewrite (float_of_parts neg _ _ [] fmt_f_int_shape fmt_f_frac_shape (or_introl eq_refl)).
    cbn [exp_val]. rewrite Z.add_0_r. unfold fmt_f_int, fmt_f_frac.
    set (n := Z.of_nat (length ds)).
    destruct (0 <? dp)%Z eqn:E0.
    - apply Z.ltb_lt in E0. destruct (dp <? n)%Z eqn:E1.
      + apply Z.ltb_lt in E1. cbn [tl].
        replace (Z.to_nat (dp - n)) with 0%nat by lia. replace (Z.to_nat (- dp)) with 0%nat by lia.
        cbn [zeros app]. rewrite List.app_nil_r. rewrite digit_vals_app, !digit_vals_bytes, firstn_skipn.
        rewrite canon_self. f_equal. unfold digit_bytes. rewrite map_length, firstn_length. unfold n in E1. lia.
      + apply Z.ltb_ge in E1. cbn [tl]. rewrite List.app_nil_r.
        rewrite firstn_all2 by (unfold n in E1; lia).
        rewrite digit_vals_app, digit_vals_bytes, digit_vals_zeros.
        rewrite (canon_dec_canonical neg ds _ _ (proj1 Hds)). f_equal.
        rewrite List.app_length. unfold digit_bytes. rewrite map_length.
        assert (Hz : forall k, length (zeros k) = k) by (induction k; [reflexivity|cbn [zeros length]; f_equal; assumption]).
        rewrite Hz. unfold n in *. lia.
    - apply Z.ltb_ge in E0. assert (E1 : (dp <? n)%Z = true).
      { apply Z.ltb_lt. unfold n. destruct fds_cons as (d & r & -> & _). cbn [length]. lia. }
      rewrite E1. cbn [tl]. replace (Z.to_nat dp) with 0%nat by lia. cbn [skipn].
      change ([48] ++ zeros (Z.to_nat (- dp)) ++ digit_bytes ds) with (zeros (S (Z.to_nat (- dp))) ++ digit_bytes ds).
      rewrite digit_vals_app, digit_vals_zeros, digit_vals_bytes.
      rewrite (canon_dec_leading neg ds _ _ (proj1 Hds)). f_equal. cbn [length]. lia.
  Qed.

  Lemma fmt_f_token : num_lexeme_ok (fmt_f neg ds dp) (floaty (fmt_f neg ds dp)) = true.
  Proof. unfold fmt_f. apply num_ok_parts; [apply fmt_f_int_shape|apply fmt_f_frac_shape|left; reflexivity]. Qed.

  (* %v *)
  Theorem fmt_g_read : float_of_lexeme (fmt_g neg ds dp) = (neg, ds, dp).
  Proof.
    unfold fmt_g. destruct fds_cons as (d & r & E & _). rewrite E. rewrite <- E.
    destruct ((dp - 1 <? -4) || (6 <=? dp - 1))%Z eqn:C; [apply fmt_e_read|].
    apply orb_false_iff in C. destruct C as [C _]. apply Z.ltb_ge in C. apply fmt_f_read. lia.
  Qed.

  Theorem fmt_g_token : num_lexeme_ok (fmt_g neg ds dp) (floaty (fmt_g neg ds dp)) = true.
  Proof.
    unfold fmt_g. destruct fds_cons as (d & r & E & _). rewrite E. rewrite <- E.
    destruct ((dp - 1 <? -4) || (6 <=? dp - 1))%Z; [apply fmt_e_token|apply fmt_f_token].
  Qed.
End Float.
