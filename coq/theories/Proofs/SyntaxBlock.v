(* C08: descriptions printed as block strings are read back by the lexer.
   blk_okb s (s not empty, printableAsBlockString s, s valid UTF-8) implies that the text
   the printer writes for s at any indentation depth is lexed as one BLOCK_STRING token
   with value s:  the raw text between the triple quotes is read back as it was written
   (read_block_raw_rt) and blockStringValue gives the description back (block_value_rt). *)
From Coq Require Import List NArith Bool Lia Arith.
From GQL Require Import Base.Bytes Syntax.Lexer Syntax.Parser Syntax.Printer Proofs.SyntaxPrinter Proofs.SyntaxLexer Proofs.SyntaxUtf8.
Import ListNotations.
Open Scope N_scope.

Definition blk_okb (s : bytes) : bool := negb (is_nil s) && printable_as_block s && str_okb s.

(* ---- bytes of multi-byte sequences ---- *)
Lemma encode_rune_high : forall r, 128 <= r -> Forall (fun b => 128 <= b) (encode_rune r).
Proof.
  intros r H. unfold encode_rune, utf8_encode.
  repeat match goal with |- context [if ?X then _ else _] => destruct X end;
    repeat (apply Forall_cons; [cbv beta; first [lia | (etransitivity; [|apply N.le_add_r]); lia]|]); apply Forall_nil.
Qed.

Lemma multibyte_pre : forall (s : list N) r n, rune_at s = Some (r, n) -> 1 < n ->
  exists pre rst, s = pre ++ rst /\ nlen pre = n /\ 128 <= r /\
    (forall tail, rune_at (pre ++ tail) = Some (r, n)) /\ Forall (fun b => 128 <= b) pre /\ pre <> [].
Proof.
  intros s r n H Hn. destruct (rune_at_multibyte s r n H Hn) as (pre & rst & E & L & Enc & Hr & Hd & (c & pre' & Ep & _)).
  exists pre, rst. repeat split; try assumption.
  - rewrite <- Enc. apply encode_rune_high. exact Hr.
  - rewrite Ep. discriminate.
Qed.

Lemma rune_at_cons : forall c s, exists r n, rune_at (c :: s) = Some (r, n).
Proof.
  intros c s. destruct (rune_at (c :: s)) as [[r n]|] eqn:R; [exists r, n; reflexivity|].
  exfalso. unfold rune_at, rune_error in R. cbv zeta in R. destruct s as [|b1 [|b2 [|b3 r']]];
    repeat (match type of R with context [if ?X then _ else _] => destruct X end); discriminate R.
Qed.

Lemma rune_width_cases : forall s r n, rune_at s = Some (r, n) -> n = 1 \/ 1 < n.
Proof. intros s r n H. pose proof (rune_at_width _ _ _ H) as W. lia. Qed.

(* every byte below 128 is a character of its own, so a test on all characters is a test on these bytes *)
Lemma all_runes_bytes : forall p fuel s, all_runes p fuel s = true -> forall c, In c s -> c < 128 -> p c = true.
Proof.
  intros p. induction fuel as [|f IH]; intros s H c Hc Hlt; [discriminate H|].
  destruct s as [|c0 s']; [contradiction|]. cbn [all_runes] in H.
  destruct (rune_at_cons c0 s') as (r & n & R). rewrite R in H. apply andb_true_iff in H. destruct H as [Hp Hrest].
  destruct (rune_width_cases _ _ _ R) as [-> | Hn].
  - change (dropN 1 (c0 :: s')) with s' in Hrest. destruct Hc as [Hc | Hc].
    + subst c0. pose proof (rune_at_ascii c s' Hlt) as A. unfold bytes, byte in *. rewrite R in A. inversion A; subst. exact Hp.
    + apply (IH s' Hrest c Hc Hlt).
  - destruct (multibyte_pre _ _ _ R Hn) as (pre & rst & E & L & _ & _ & Hhigh & _).
    rewrite E in Hc, Hrest. rewrite (dropN_app_len _ _ _ L) in Hrest. apply in_app_or in Hc. destruct Hc as [Hc | Hc].
    + rewrite Forall_forall in Hhigh. specialize (Hhigh c Hc). lia.
    + apply (IH rst Hrest c Hc Hlt).
Qed.

(* ---- the conditions under which the raw text of a block string is read back ---- *)
Definition byte_ok (c : N) : bool := (32 <=? c) || (c =? 9) || (c =? 10).
Definition raw_ok (raw : bytes) : Prop :=
  utf8_valid raw /\ no_tq raw = true /\ last_ok raw = true /\ forallb byte_ok raw = true.

Lemma last_ok_cons : forall a b r, last_ok (a :: b :: r) = last_ok (b :: r).
Proof. reflexivity. Qed.
Lemma last_ok_tail : forall a r, last_ok (a :: r) = true -> last_ok r = true.
Proof. intros a [|b r] H; [reflexivity|exact H]. Qed.
Lemma last_ok_app_r : forall a b, last_ok (a ++ b) = true -> last_ok b = true.
Proof. induction a as [|x a IH]; intros b H; [exact H|]. apply IH. apply (last_ok_tail x). exact H. Qed.
Lemma no_tq_app_r : forall a b, no_tq (a ++ b) = true -> no_tq b = true.
Proof.
  induction a as [|x a IH]; intros b H; [exact H|]. cbn [app no_tq] in H. apply andb_true_iff in H. destruct H as [_ H]. apply IH. exact H.
Qed.

(* three double quotes do not start inside raw, nor across its end *)
Lemma tq_not_prefix : forall s tail, s <> [] -> no_tq s = true -> last_ok s = true -> starts_with tq (s ++ tq ++ tail) = false.
Proof.
  intros s tail Hne Hq Hl. destruct s as [|a [|b [|c s']]]; [contradiction| | |].
  - cbn [last_ok] in Hl. apply andb_true_iff in Hl. destruct Hl as [Hl _]. apply negb_true_iff in Hl.
    cbn [app tq starts_with]. rewrite N.eqb_sym, Hl. reflexivity.
  - cbn [last_ok] in Hl. apply andb_true_iff in Hl. destruct Hl as [Hl _]. apply negb_true_iff in Hl.
    cbn [app tq starts_with]. rewrite (N.eqb_sym 34 b), Hl. rewrite andb_false_r. reflexivity.
  - cbn [no_tq] in Hq. apply andb_true_iff in Hq. destruct Hq as [Hq _]. apply negb_true_iff in Hq.
    cbn [app tq starts_with] in *. exact Hq.
Qed.

Lemma byte_ok_ctl : forall c, byte_ok c = true -> (c <? 32) && negb (c =? 9) && negb (c =? 10) && negb (c =? 13) = false.
Proof.
  intros c H. unfold byte_ok in H. destruct (c <? 32) eqn:E; [|reflexivity]. apply N.ltb_lt in E.
  assert (32 <=? c = false) by (apply N.leb_gt; exact E). rewrite H0 in H. cbn [orb] in H.
  destruct (c =? 9); [reflexivity|]. destruct (c =? 10); [reflexivity|discriminate H].
Qed.

Lemma read_block_raw_rt : forall raw, raw_ok raw ->
  forall f rest pos, (length raw < f)%nat ->
  read_block_raw f (raw ++ tq ++ rest) pos = Ok (raw, rest, pos + nlen raw + 3).
Proof.
  intros raw (V & Hq & Hl & Hb). induction V as [|c s Hc V IH|s r n R Hn V IH]; intros f rest pos Hf.
  - destruct f; [simpl in Hf; lia|]. cbn [app tq read_block_raw]. rewrite (rune_at_ascii 34 _ ltac:(lia)).
    change (dropN 1 (34 :: 34 :: 34 :: rest)) with (34 :: 34 :: rest). cbn [starts_with]. rewrite N.eqb_refl. cbn [andb].
    change (dropN 3 (34 :: 34 :: 34 :: rest)) with rest. unfold nlen. cbn [length]. f_equal. f_equal. lia.
  - destruct f; [simpl in Hf; lia|]. cbn [app read_block_raw]. rewrite (rune_at_ascii c _ Hc).
    change (dropN 1 (c :: s ++ tq ++ rest)) with (s ++ tq ++ rest).
    cbn [forallb] in Hb. apply andb_true_iff in Hb. destruct Hb as [Hbc Hbs].
    assert (Hqs : no_tq s = true) by (apply (no_tq_app_r [c] s Hq)).
    assert (Hls : last_ok s = true) by (apply (last_ok_tail c s Hl)).
    (* not the closing delimiter *)
    assert (E1 : (c =? 34) && starts_with [34; 34] (s ++ tq ++ rest) = false).
    { destruct (c =? 34) eqn:E; [|reflexivity]. apply N.eqb_eq in E. subst c. cbn [andb].
      pose proof (tq_not_prefix (34 :: s) rest ltac:(discriminate) Hq Hl) as X. cbn [app tq starts_with] in X.
      rewrite N.eqb_refl in X. cbn [andb] in X. exact X. }
    rewrite E1. rewrite (byte_ok_ctl c Hbc).
    assert (E2 : (c =? 92) && starts_with [34; 34; 34] (s ++ tq ++ rest) = false).
    { destruct (c =? 92) eqn:E; [|reflexivity]. apply N.eqb_eq in E. subst c. cbn [andb].
      destruct s as [|x s']; [discriminate Hl|]. apply (tq_not_prefix (x :: s') rest ltac:(discriminate) Hqs Hls). }
    rewrite E2. change (takeN 1 (c :: s ++ tq ++ rest)) with [c]. unfold bytes, byte in *.
    rewrite (IH Hqs Hls Hbs f rest (pos + 1) ltac:(simpl in Hf; lia)). cbn [app]. f_equal. f_equal. unfold nlen. cbn [length]. lia.
  - destruct (multibyte_pre s r n R Hn) as (pre & rst & E & L & Hr & Hd & Hhigh & Hne).
    assert (Ed : dropN n s = rst) by (rewrite E; apply dropN_app_len; exact L). rewrite Ed in *.
    subst s. destruct f; [simpl in Hf; lia|]. rewrite <- app_assoc. cbn [read_block_raw]. rewrite (Hd (rst ++ tq ++ rest)).
    assert (X1 : (r =? 34) = false) by (apply N.eqb_neq; lia). rewrite X1. cbn [andb].
    assert (X2 : (r <? 32) = false) by (apply N.ltb_ge; lia). rewrite X2. cbn [andb].
    assert (X3 : (r =? 92) = false) by (apply N.eqb_neq; lia). rewrite X3. cbn [andb].
    rewrite (dropN_app_len _ _ _ L), (takeN_app_len _ _ _ L).
    rewrite forallb_app in Hb. apply andb_true_iff in Hb. destruct Hb as [_ Hbs].
    assert (Lp : (1 <= length pre)%nat) by (destruct pre; [contradiction|simpl; lia]). unfold bytes, byte in *.
    rewrite (IH (no_tq_app_r _ _ Hq) (last_ok_app_r _ _ Hl) Hbs f rest (pos + n)
               ltac:(rewrite app_length in Hf; lia)).
    f_equal. f_equal. rewrite nlen_app'. lia.
Qed.

(* ---- raw_ok is kept by indent() and established by the printer's wrapping ---- *)
Lemma indent_app : forall a b, indent_bytes (a ++ b) = indent_bytes a ++ indent_bytes b.
Proof.
  induction a as [|c a IH]; intro b; [reflexivity|]. cbn [app indent_bytes]. destruct (c =? 10); rewrite IH; reflexivity.
Qed.
Lemma indent_high : forall pre, Forall (fun b => 128 <= b) pre -> indent_bytes pre = pre.
Proof.
  intros pre H. induction H as [|c pre Hc _ IH]; [reflexivity|]. cbn [indent_bytes].
  assert (c =? 10 = false) by (apply N.eqb_neq; lia). rewrite H, IH. reflexivity.
Qed.

Lemma valid_app : forall a b, utf8_valid a -> utf8_valid b -> utf8_valid (a ++ b).
Proof.
  intros a b Va Vb. induction Va as [|c s Hc V IH|s r n R Hn V IH]; [exact Vb|cbn [app]; apply V_ascii; assumption|].
  destruct (multibyte_pre s r n R Hn) as (pre & rst & E & L & _ & Hd & _ & _).
  assert (Ed : dropN n s = rst) by (rewrite E; apply dropN_app_len; exact L). rewrite Ed in *. subst s.
  rewrite <- app_assoc. apply (V_multi _ r n (Hd (rst ++ b)) Hn). rewrite (dropN_app_len _ _ _ L). exact IH.
Qed.

Lemma valid_indent : forall s, utf8_valid s -> utf8_valid (indent_bytes s).
Proof.
  intros s V. induction V as [|c s Hc V IH|s r n R Hn V IH]; [constructor| |].
  - cbn [indent_bytes]. destruct (c =? 10); [|apply V_ascii; assumption].
    apply V_ascii; [lia|]. apply V_ascii; [lia|]. apply V_ascii; [lia|exact IH].
  - destruct (multibyte_pre s r n R Hn) as (pre & rst & E & L & _ & Hd & Hhigh & _).
    assert (Ed : dropN n s = rst) by (rewrite E; apply dropN_app_len; exact L). rewrite Ed in *. subst s.
    rewrite indent_app, (indent_high pre Hhigh). apply (V_multi _ r n (Hd _) Hn). rewrite (dropN_app_len _ _ _ L). exact IH.
Qed.

Lemma sw_indent : forall p s, (forall x, In x p -> x <> 10) -> starts_with p (indent_bytes s) = starts_with p s.
Proof.
  induction p as [|a p IH]; intros s Hp; [reflexivity|]. destruct s as [|c r]; [reflexivity|].
  assert (Ha : a <> 10) by (apply Hp; left; reflexivity).
  cbn [indent_bytes]. destruct (c =? 10) eqn:E.
  - apply N.eqb_eq in E. subst c. cbn [starts_with]. apply N.eqb_neq in Ha. rewrite Ha. reflexivity.
  - cbn [starts_with]. rewrite (IH r (fun x Hx => Hp x (or_intror Hx))). reflexivity.
Qed.

Lemma tq_no_nl : forall x, In x tq -> x <> 10.
Proof. intros x [<-|[<-|[<-|[]]]]; discriminate. Qed.

Lemma no_tq_indent : forall s, no_tq (indent_bytes s) = no_tq s.
Proof.
  induction s as [|c r IH]; [reflexivity|].
  change (no_tq (c :: r)) with (negb (starts_with tq (c :: r)) && no_tq r).
  rewrite <- (sw_indent tq (c :: r) tq_no_nl), <- IH. cbn [indent_bytes]. destruct (c =? 10); reflexivity.
Qed.

Lemma indent_nil : forall s, indent_bytes s = [] -> s = [].
Proof. intros [|c s] H; [reflexivity|]. cbn [indent_bytes] in H. destruct (c =? 10); discriminate H. Qed.

Lemma last_ok_step : forall a r, r <> [] -> last_ok (a :: r) = last_ok r.
Proof. intros a [|b r] H; [contradiction|reflexivity]. Qed.

Lemma last_ok_indent : forall s, last_ok s = true -> last_ok (indent_bytes s) = true.
Proof.
  induction s as [|c r IH]; intro H; [reflexivity|]. destruct r as [|b r'].
  - cbn [indent_bytes]. destruct (c =? 10); [reflexivity|exact H].
  - assert (N1 : indent_bytes (b :: r') <> []) by (intro X; apply indent_nil in X; discriminate X).
    specialize (IH H). cbn [indent_bytes] in *. destruct (c =? 10).
    + rewrite !last_ok_step by (try discriminate; exact N1). exact IH.
    + rewrite last_ok_step by exact N1. exact IH.
Qed.

Lemma bytes_ok_indent : forall s, forallb byte_ok s = true -> forallb byte_ok (indent_bytes s) = true.
Proof.
  induction s as [|c r IH]; intro H; [reflexivity|]. cbn [forallb] in H. apply andb_true_iff in H. destruct H as [Hc Hr].
  cbn [indent_bytes]. destruct (c =? 10); cbn [forallb]; rewrite (IH Hr); [reflexivity|rewrite Hc; reflexivity].
Qed.

Lemma raw_ok_indent : forall raw, raw_ok raw -> raw_ok (indent_bytes raw).
Proof.
  intros raw (V & Hq & Hl & Hb). split; [apply valid_indent; exact V|]. split; [rewrite no_tq_indent; exact Hq|].
  split; [apply last_ok_indent; exact Hl|apply bytes_ok_indent; exact Hb].
Qed.

Lemma raw_ok_iter : forall d raw, raw_ok raw -> raw_ok (N.iter d indent_bytes raw).
Proof. intros d raw H. apply N.iter_invariant; [intros x Hx; apply raw_ok_indent; exact Hx|exact H]. Qed.

Lemma sw_snoc : forall x, starts_with tq (x ++ [10]) = true -> starts_with tq x = true.
Proof.
  intros x H. destruct x as [|a [|b [|c x']]]; cbn [app tq starts_with] in *.
  - discriminate H.
  - rewrite andb_false_r in H. discriminate H.
  - rewrite !andb_false_r in H. discriminate H.
  - exact H.
Qed.
Lemma no_tq_snoc : forall s, no_tq s = true -> no_tq (s ++ [10]) = true.
Proof.
  induction s as [|c r IH]; intro H; [reflexivity|]. cbn [no_tq] in H. apply andb_true_iff in H. destruct H as [H1 H2].
  change (no_tq ((c :: r) ++ [10])) with (negb (starts_with tq ((c :: r) ++ [10])) && no_tq (r ++ [10])).
  rewrite (IH H2), andb_true_r. apply negb_true_iff. apply negb_true_iff in H1.
  destruct (starts_with tq ((c :: r) ++ [10])) eqn:E; [|reflexivity]. apply sw_snoc in E. congruence.
Qed.
Lemma last_ok_snoc : forall x, last_ok (x ++ [10]) = true.
Proof.
  induction x as [|a x IH]; [reflexivity|]. cbn [app]. rewrite last_ok_step; [exact IH|]. destruct x; discriminate.
Qed.

Lemma raw_ok_wrap : forall s, raw_ok s -> raw_ok (10 :: s ++ [10]).
Proof.
  intros s (V & Hq & Hl & Hb). split; [|split; [|split]].
  - apply V_ascii; [lia|]. apply valid_app; [exact V|apply V_ascii; [lia|constructor]].
  - change (no_tq (10 :: s ++ [10])) with (no_tq (s ++ [10])). apply no_tq_snoc. exact Hq.
  - rewrite last_ok_step; [apply last_ok_snoc|]. destruct s; discriminate.
  - unfold bytes, byte in *. cbn [forallb]. rewrite forallb_app, Hb. reflexivity.
Qed.

(* what printableAsBlockString establishes *)
Lemma block_rune_byte : forall c, block_rune_ok c = true -> byte_ok c = true.
Proof.
  intros c H. unfold block_rune_ok in H. apply negb_true_iff in H. apply orb_false_iff in H. destruct H as [H _].
  unfold byte_ok. destruct (c <? 32) eqn:E.
  - cbn [andb] in H. destruct (c =? 9); [rewrite orb_true_r; reflexivity|]. destruct (c =? 10); [apply orb_true_r|discriminate H].
  - apply N.ltb_ge in E. apply N.leb_le in E. rewrite E. reflexivity.
Qed.

Lemma printable_bytes_ok : forall s, all_runes block_rune_ok (S (length s)) s = true -> forallb byte_ok s = true.
Proof.
  intros s H. apply forallb_forall. intros c Hc. destruct (N.lt_ge_cases c 128) as [L|L].
  - apply block_rune_byte. apply (all_runes_bytes _ _ _ H c Hc L).
  - unfold byte_ok. assert (32 <=? c = true) by (apply N.leb_le; lia). rewrite H0. reflexivity.
Qed.

Lemma printable_raw_ok : forall s, printable_as_block s = true -> utf8_valid s -> raw_ok s.
Proof.
  intros s H V. unfold printable_as_block in H. apply andb_true_iff in H. destruct H as [H _].
  apply andb_true_iff in H. destruct H as [H H3]. apply andb_true_iff in H. destruct H as [H1 H2].
  split; [exact V|]. split; [exact H1|]. split; [exact H2|]. apply printable_bytes_ok. exact H3.
Qed.

Lemma block_raw_ok : forall s, printable_as_block s = true -> utf8_valid s -> forall d, raw_ok (N.iter d indent_bytes (block_raw s)).
Proof.
  intros s H V d. apply raw_ok_iter. unfold block_raw. pose proof (printable_raw_ok s H V) as R.
  destruct (existsb (N.eqb 10) s); [apply raw_ok_wrap; exact R|exact R].
Qed.

(* ---- blockStringValue gives the description back ---- *)
Lemma split_lines_cons : forall c r, c <> 13 -> split_lines (c :: r) =
  if (c =? 10) || (c =? 13) then [] :: split_lines r
  else match split_lines r with l :: ls => (c :: l) :: ls | [] => [[c]] end.
Proof.
  intros c r H. destruct c as [|p]; [reflexivity|].
  destruct p as [p|p|]; [|reflexivity|reflexivity].
  destruct p as [p|p|]; [reflexivity| |reflexivity].
  destruct p as [p|p|]; [|reflexivity|reflexivity].
  destruct p as [p|p|]; [reflexivity|reflexivity|]. contradiction H; reflexivity.
Qed.

Lemma byte_ok_not_cr : forall c, byte_ok c = true -> c <> 13.
Proof. intros c H E. subst c. discriminate H. Qed.

Lemma split_lines_nl : forall s, forallb byte_ok s = true -> split_lines s = split_nl s.
Proof.
  induction s as [|c r IH]; intro H; [reflexivity|]. cbn [forallb] in H. apply andb_true_iff in H. destruct H as [Hc Hr].
  pose proof (byte_ok_not_cr c Hc) as N13. rewrite (split_lines_cons c r N13), (IH Hr).
  apply N.eqb_neq in N13. rewrite N13, orb_false_r. reflexivity.
Qed.

Lemma split_nl_nonnil : forall s, split_nl s <> [].
Proof. intros [|c r]; [discriminate|]. cbn [split_nl]. destruct (c =? 10); [discriminate|]. destruct (split_nl r); discriminate. Qed.

Lemma join_split : forall s, join_lines (split_nl s) = s.
Proof.
  induction s as [|c r IH]; [reflexivity|]. cbn [split_nl]. pose proof (split_nl_nonnil r) as Nn. destruct (c =? 10) eqn:E.
  - apply N.eqb_eq in E. subst c. destruct (split_nl r) as [|l ls]; [contradiction|]. cbn [join_lines app] in *. rewrite IH. reflexivity.
  - destruct (split_nl r) as [|l ls]; [contradiction|]. destruct ls as [|l2 ls]; cbn [join_lines app] in *; rewrite <- IH; reflexivity.
Qed.

Lemma split_nl_single : forall s, existsb (N.eqb 10) s = false -> split_nl s = [s].
Proof.
  induction s as [|c r IH]; intro H; [reflexivity|]. cbn [existsb] in H. apply orb_false_iff in H. destruct H as [Hc Hr].
  cbn [split_nl]. rewrite N.eqb_sym in Hc. rewrite Hc, (IH Hr). reflexivity.
Qed.

Lemma split_nl_snoc : forall s, split_nl (s ++ [10]) = split_nl s ++ [[]].
Proof.
  induction s as [|c r IH]; [reflexivity|]. cbn [app split_nl]. rewrite IH. destruct (c =? 10); [reflexivity|].
  pose proof (split_nl_nonnil r) as Nn. destruct (split_nl r) as [|l ls]; [contradiction|reflexivity].
Qed.

Definition pad2 (l : bytes) : bytes := 32 :: 32 :: l.
Lemma split_nl_indent : forall x, split_nl (indent_bytes x) =
  match split_nl x with f :: r => f :: map pad2 r | [] => [] end.
Proof.
  induction x as [|c r IH]; [reflexivity|]. pose proof (split_nl_nonnil r) as Nn. cbn [indent_bytes split_nl]. destruct (c =? 10) eqn:E.
  - cbn [split_nl]. rewrite N.eqb_refl. change (32 =? 10) with false. cbv iota. rewrite IH.
    destruct (split_nl r) as [|f rest]; [contradiction|]. reflexivity.
  - cbn [split_nl]. rewrite E, IH. destruct (split_nl r) as [|f rest]; [contradiction|]. reflexivity.
Qed.

Definition padn (d : N) : bytes := N.iter d pad2 [].
Lemma padn_succ : forall d, padn (N.succ d) = pad2 (padn d).
Proof. intro d. unfold padn. apply N.iter_succ. Qed.
Lemma padn_blank : forall d, forallb is_blank_char (padn d) = true.
Proof. intro d. unfold padn. apply N.iter_invariant; [intros x Hx; cbn [pad2 forallb]; rewrite Hx; reflexivity|reflexivity]. Qed.

Lemma map_app_nil : forall A (r : list (list A)), map (app []) r = r.
Proof. intros A r. induction r as [|a r IH]; [reflexivity|]. cbn [map]. rewrite IH. reflexivity. Qed.

Lemma split_nl_iter : forall d x, split_nl (N.iter d indent_bytes x) =
  match split_nl x with f :: r => f :: map (app (padn d)) r | [] => [] end.
Proof.
  intros d x. induction d as [|d IH] using N.peano_ind.
  - change (N.iter 0 indent_bytes x) with x. change (padn 0) with (@nil N). destruct (split_nl x) as [|f r]; [reflexivity|]. rewrite map_app_nil. reflexivity.
  - rewrite N.iter_succ, split_nl_indent, IH. destruct (split_nl x) as [|f r]; [reflexivity|].
    rewrite map_map, padn_succ. reflexivity.
Qed.

(* lines and blanks *)
Lemma span_blank_app : forall P l, forallb is_blank_char P = true ->
  span is_blank_char (P ++ l) = (P ++ fst (span is_blank_char l), snd (span is_blank_char l)).
Proof.
  induction P as [|c P IH]; intros l H; [cbn [app]; destruct (span is_blank_char l); reflexivity|].
  cbn [forallb] in H. apply andb_true_iff in H. destruct H as [Hc HP]. cbn [app span]. rewrite Hc, (IH l HP). reflexivity.
Qed.
Lemma leading_ws_app : forall P l, forallb is_blank_char P = true -> leading_ws (P ++ l) = nlen P + leading_ws l.
Proof. intros P l H. unfold leading_ws. rewrite (span_blank_app P l H). cbn [fst]. apply nlen_app'. Qed.

Lemma nlen_cons1 : forall (c : N) l, nlen (c :: l) = N.succ (nlen l).
Proof. intros. unfold nlen. cbn [length]. apply Nnat.Nat2N.inj_succ. Qed.

Lemma line_blank_eq : forall l, line_is_blank l = blank_line l.
Proof.
  induction l as [|c l IH]; [reflexivity|]. unfold line_is_blank, leading_ws, blank_line in *. cbn [span forallb].
  destruct (is_blank_char c).
  - destruct (span is_blank_char l) as [a b]. cbn [fst andb] in *. rewrite !nlen_cons1. rewrite <- IH.
    destruct (nlen a =? nlen l) eqn:E.
    + apply N.eqb_eq in E. apply N.eqb_eq. f_equal. exact E.
    + apply N.eqb_neq in E. apply N.eqb_neq. intro X. apply E. apply N.succ_inj. exact X.
  - cbn [fst andb]. rewrite nlen_cons1. apply N.eqb_neq. unfold nlen at 1. cbn [length]. change (N.of_nat 0) with 0. apply N.neq_sym. apply N.neq_succ_0.
Qed.

Lemma leading_ws_flush : forall l, blank_line l = false -> starts_blank l = false -> leading_ws l = 0 /\ 0 < nlen l.
Proof.
  intros [|c l] Hb Hs; [discriminate Hb|]. cbn [starts_blank] in Hs. unfold leading_ws. cbn [span]. rewrite Hs. cbn [fst].
  split; [reflexivity|]. rewrite nlen_cons1. lia.
Qed.

Lemma common_indent_padded : forall P L, forallb is_blank_char P = true ->
  common_indent (map (app P) L) (Some (nlen P)) = Some (nlen P).
Proof.
  intros P L HP. induction L as [|l L IH]; [reflexivity|]. cbn [map common_indent].
  cbv zeta. match goal with |- context [if ?X then _ else _] => destruct X end; [|exact IH].
  rewrite (leading_ws_app P l HP). rewrite (N.min_l (nlen P) (nlen P + leading_ws l) (N.le_add_r _ _)). exact IH.
Qed.

Lemma unindent_padded : forall P l, unindent (nlen P) (P ++ l) = l.
Proof.
  intros P l. unfold unindent. rewrite nlen_app'. assert (nlen P + nlen l <? nlen P = false) by (apply N.ltb_ge; lia). rewrite H.
  apply dropN_app_len. reflexivity.
Qed.
Lemma map_unindent_padded : forall P L, map (unindent (nlen P)) (map (app P) L) = L.
Proof. intros P L. induction L as [|l L IH]; [reflexivity|]. cbn [map]. rewrite unindent_padded, IH. reflexivity. Qed.

Lemma drop_blank_keep : forall l L, blank_line l = false -> drop_blank (l :: L) = l :: L.
Proof. intros l L H. cbn [drop_blank]. rewrite line_blank_eq, H. reflexivity. Qed.

Lemma rev_last : forall (L : list bytes), L <> [] -> rev L = last L [] :: rev (removelast L).
Proof.
  intros L H. destruct (exists_last H) as (L' & x & ->). rewrite last_last, removelast_last, rev_app_distr. reflexivity.
Qed.

(* rewrite up to the synonyms bytes = list byte = list N *)
Ltac brw H := let Q := fresh "Q" in pose proof H as Q; unfold bytes, byte in *; rewrite Q; clear Q.

Theorem block_value_rt : forall s d, printable_as_block s = true ->
  block_string_value (N.iter d indent_bytes (block_raw s)) = s.
Proof.
  intros s d H. pose proof H as H0. unfold printable_as_block in H. apply andb_true_iff in H. destruct H as [H Hlines].
  apply andb_true_iff in H. destruct H as [_ Hr]. pose proof (printable_bytes_ok s Hr) as Hb.
  cbv zeta in Hlines. apply andb_true_iff in Hlines. destruct Hlines as [Hlines _].
  apply andb_true_iff in Hlines. destruct Hlines as [Hlines Hsb]. apply andb_true_iff in Hlines. destruct Hlines as [Hhd Hlast].
  apply negb_true_iff in Hhd. apply negb_true_iff in Hlast. apply negb_true_iff in Hsb.
  pose proof (split_nl_nonnil s) as Nn.
  unfold block_raw. destruct (existsb (N.eqb 10) s) eqn:NL.
  - (* several lines: the text is LF s LF, indented d times *)
    assert (Hbw : forallb byte_ok (N.iter d indent_bytes (10 :: s ++ [10])) = true).
    { apply N.iter_invariant; [intros x Hx; apply bytes_ok_indent; exact Hx|].
      unfold bytes, byte in *. cbn [forallb]. rewrite forallb_app, Hb. reflexivity. }
    unfold block_string_value. rewrite (split_lines_nl _ Hbw), split_nl_iter.
    change (split_nl (10 :: s ++ [10])) with ([] :: split_nl (s ++ [10])). rewrite split_nl_snoc.
    destruct (split_nl s) as [|l0 ls] eqn:ES; [contradiction|]. cbn [hd] in Hhd, Hsb.
    destruct (leading_ws_flush l0 Hhd Hsb) as [W0 W1].
    set (P := padn d). assert (HP : forallb is_blank_char P = true) by apply padn_blank.
    change (map (app P) ((l0 :: ls) ++ [[]])) with ((P ++ l0) :: map (app P) (ls ++ [[]])).
    cbn [common_indent]. brw (leading_ws_app P l0 HP). brw W0. rewrite N.add_0_r, nlen_app'.
    assert (X : nlen P <? nlen P + nlen l0 = true) by (apply N.ltb_lt; lia). rewrite X.
    rewrite (common_indent_padded P (ls ++ [[]]) HP).
    assert (L1 : (if 0 <? nlen P then [] :: map (unindent (nlen P)) ((P ++ l0) :: map (app P) (ls ++ [[]]))
                  else [] :: (P ++ l0) :: map (app P) (ls ++ [[]])) = [] :: (l0 :: ls) ++ [[]]).
    { destruct (0 <? nlen P) eqn:Z.
      - change ((P ++ l0) :: map (app P) (ls ++ [[]])) with (map (app P) ((l0 :: ls) ++ [[]])). rewrite map_unindent_padded. reflexivity.
      - apply N.ltb_ge in Z. assert (P = []) by (destruct P; [reflexivity|unfold nlen in Z; cbn [length] in Z; lia]).
        rewrite H. rewrite map_app_nil. reflexivity. }
    brw L1. clear L1.
    change (drop_blank ([] :: (l0 :: ls) ++ [[]])) with (drop_blank ((l0 :: ls) ++ [[]])).
    change ((l0 :: ls) ++ [[]]) with (l0 :: (ls ++ [[]])). rewrite (drop_blank_keep l0 _ Hhd).
    change (l0 :: ls ++ [[]]) with ((l0 :: ls) ++ [[]]). rewrite rev_app_distr.
    change (rev [[]] ++ rev (l0 :: ls)) with ([] :: rev (l0 :: ls)).
    change (drop_blank ([] :: rev (l0 :: ls))) with (drop_blank (rev (l0 :: ls))).
    assert (R : drop_blank (rev (l0 :: ls)) = rev (l0 :: ls)).
    { brw (rev_last (l0 :: ls) ltac:(discriminate)). apply drop_blank_keep. exact Hlast. }
    brw R. rewrite rev_involutive. brw (eq_sym ES). apply join_split.
  - (* one line: the text is s itself, which indent does not change *)
    assert (Hid : N.iter d indent_bytes s = s).
    { apply N.iter_invariant; [|reflexivity]. intros x ->. clear - NL. induction s as [|c r IH]; [reflexivity|].
      cbn [existsb] in NL. apply orb_false_iff in NL. destruct NL as [Hc Hr]. cbn [indent_bytes]. rewrite N.eqb_sym in Hc. rewrite Hc, (IH Hr). reflexivity. }
    rewrite Hid. unfold block_string_value. rewrite (split_lines_nl _ Hb), (split_nl_single s NL).
    rewrite (split_nl_single s NL) in Hhd. cbn [hd] in Hhd. cbn [common_indent].
    brw (drop_blank_keep s [] Hhd). cbn [rev app]. brw (drop_blank_keep s [] Hhd). reflexivity.
Qed.

Lemma blk_okb_parts : forall s, blk_okb s = true -> s <> [] /\ printable_as_block s = true /\ utf8_valid s.
Proof.
  intros s H. unfold blk_okb in H. apply andb_true_iff in H. destruct H as [H H3]. apply andb_true_iff in H. destruct H as [H1 H2].
  split; [destruct s; [discriminate H1|discriminate]|]. split; [exact H2|apply (utf8_okb_valid _ _ H3)].
Qed.

(* the printed block string is read back as one BLOCK_STRING token whose value is the description *)
Theorem read_token_block : forall s d rest fuel pos, blk_okb s = true ->
  let r := render_piece (PBlk d s) in
  (length (r ++ rest) < fuel)%nat ->
  read_token fuel (r ++ rest) pos = Ok (mktok BLOCK_STRING pos (pos + nlen r) s, rest, pos + nlen r).
Proof.
  intros s d rest fuel pos H r Hf. destruct (blk_okb_parts s H) as (_ & Hp & V).
  set (raw := N.iter d indent_bytes (block_raw s)) in *.
  assert (Er : r = 34 :: 34 :: 34 :: raw ++ tq) by reflexivity.
  pose proof (block_raw_ok s Hp V d) as RO. fold raw in RO.
  assert (Hf' : (length raw < fuel)%nat).
  { rewrite Er in Hf. cbn [app length] in Hf. rewrite !app_length in Hf. lia. }
  pose proof (read_block_raw_rt raw RO fuel rest (pos + 3) Hf') as RB.
  rewrite Er. unfold read_token. cbn [app]. rewrite (rune_at_ascii 34 _ ltac:(lia)).
  change ((34 <? 32) && negb (34 =? 9) && negb (34 =? 10) && negb (34 =? 13)) with false. cbv iota.
  change (punct1 34) with (@None tkind). cbv iota. change (34 =? 46) with false. cbv iota.
  change (is_name_start 34) with false. cbv iota. change ((34 =? 45) || is_digit 34) with false. cbv iota.
  change (34 =? 34) with true. cbv iota.
  change (dropN 1 (34 :: 34 :: 34 :: (raw ++ tq) ++ rest)) with (34 :: 34 :: (raw ++ tq) ++ rest).
  change (starts_with [34; 34] (34 :: 34 :: (raw ++ tq) ++ rest)) with true. cbv iota.
  change (dropN 3 (34 :: 34 :: 34 :: (raw ++ tq) ++ rest)) with ((raw ++ tq) ++ rest).
  rewrite <- app_assoc. unfold bytes, byte in *. rewrite RB.
  assert (BV : block_string_value raw = s) by (apply (block_value_rt s d Hp)). unfold bytes, byte in *. rewrite BV.
  assert (En : pos + 3 + nlen raw + 3 = pos + nlen (34 :: 34 :: 34 :: raw ++ tq)).
  { unfold nlen. cbn [length]. rewrite app_length. cbn [tq length]. lia. }
  rewrite En. reflexivity.
Qed.

(* lindent is indent() on the text: for a layout whose token pieces contain no newline (names,
   numbers, punctuators, quoted strings), flattening the indented layout is indenting the text;
   a block-string piece one level deeper is the indented text of the piece. *)
Definition piece_line (p : piece) : Prop :=
  match p with PTok k v => indent_bytes (render_piece (PTok k v)) = render_piece (PTok k v) | _ => True end.

Lemma flat_lindent : forall L, Forall piece_line L -> flat (lindent L) = indent_bytes (flat L).
Proof.
  intros L H. induction H as [|p L Hp _ IH]; [reflexivity|].
  change (flat (lindent (p :: L))) with (render_piece (match p with PSep s => PSep (indent_bytes s) | PBlk d s => PBlk (N.succ d) s | t => t end) ++ flat (lindent L)).
  change (flat (p :: L)) with (render_piece p ++ flat L). rewrite indent_app, IH. f_equal.
  destruct p as [k v|s|d s].
  - symmetry. exact Hp.
  - reflexivity.
  - cbn [render_piece]. rewrite !indent_app, N.iter_succ. reflexivity.
Qed.
