(* Soundness of the executable overlap algorithm with an explicit witness: every node the
   run reports (memoised or not, any fuel, any document) is a field a of some visited
   selection set s for which there is a field b, both reachable in the unfolded set (EF),
   with the same response key and a concrete conflict Cfl: their names / arguments / return
   types disagree, or -- recursively -- two fields of their unfolded sub-selections with one
   response key do. *)
From Coq Require Import List Arith Lia Bool String NArith.
From GQL Require Import Exec.Syntax Validate.Overlap Validate.OverlapSpec
     Proofs.ValidateOverlap Proofs.ValidateMemo Proofs.ValidateL1 Proofs.ValidateReflect.
Import ListNotations.
Open Scope string_scope.
Open Scope list_scope.

Lemma seq_in : forall {A} (step : A -> mst -> list N * mst) l st x,
  In x (fst (seq step l st)) -> exists y st', In y l /\ In x (fst (step y st')).
Proof.
  intros A step l. induction l as [|y r IH]; intros st x H; [destruct H|].
  rewrite seq_cons in H. simpl in H. apply in_app_or in H. destruct H as [H|H].
  - exists y, st. split; [left; reflexivity | exact H].
  - destruct (IH _ x H) as [z [st' [Hz Hx]]]. exists z, st'. split; [right; exact Hz | exact Hx].
Qed.

Section Witness.
Variable S : schema.
Variable D : document.
Variable memo : bool.

Notation EF := (EF S D).
Notation fbody := (fbody S D).
Notation exf := (exf S).

Inductive Cfl : bool -> fentry -> fentry -> Prop :=
| C_base : forall fl a b, base2 S (exf fl a b) a b = false -> Cfl fl a b
| C_sub : forall fl a b a' b', subs a b ->
    EF (subset_of a) a' -> EF (subset_of b) b' -> fe_key a' = fe_key b' ->
    Cfl (exf fl a b) a' b' -> Cfl fl a b.

Lemma Cfl_not_compat : forall fl a b, Cfl fl a b -> ~ compat S D (base2 S) fl a b.
Proof.
  intros fl a b H. induction H as [fl a b Hb | fl a b a' b' Hs Ha Hb Hk Hc IH]; intro C;
    inversion C as [fl0 a0 b0 Cb Cs]; subst.
  - rewrite Cb in Hb. discriminate.
  - apply IH. apply (Cs Hs a' b' Ha Hb Hk).
Qed.

Lemma Cfl_sym : forall fl a b, Cfl fl a b -> Cfl fl b a.
Proof.
  intros fl a b H. induction H as [fl a b Hb | fl a b a' b' Hs Ha Hb Hk Hc IH].
  - apply C_base. rewrite exf_sym, base2_sym. exact Hb.
  - apply (C_sub fl b a b' a'); [apply subs_sym; exact Hs | exact Hb | exact Ha | symmetry; exact Hk|].
    rewrite exf_sym. exact IH.
Qed.

Lemma base_ok_base2_false : forall ex a b, base_ok S ex a b = false -> base2 S ex a b = false.
Proof. intros ex a b H. unfold base2. rewrite H. reflexivity. Qed.

Lemma nonempty_in : forall {A} (l : list A), l <> [] -> exists x, In x l.
Proof. intros A [|x r] H; [contradiction | exists x; left; reflexivity]. Qed.

Lemma exec_witness : forall f,
  (forall fl a b st x, In x (fst (Overlap.fc S D memo f fl a b st)) -> x = fe_id a /\ Cfl fl a b) /\
  (forall fl l1 l2 st x, In x (fst (between S D memo f fl l1 l2 st)) ->
     exists a b, In a l1 /\ In b l2 /\ fe_key a = fe_key b /\ x = fe_id a /\ Cfl fl a b) /\
  (forall fl s1 s2 st x, In x (fst (Overlap.subsets S D memo f fl s1 s2 st)) ->
     exists a b, EF s1 a /\ EF s2 b /\ fe_key a = fe_key b /\ Cfl fl a b) /\
  (forall fl s g st x, In x (fst (ffrag S D memo f fl s g st)) ->
     exists a bd b, In a (fields S s) /\ fbody g = Some bd /\ EF bd b /\ fe_key a = fe_key b /\ x = fe_id a /\ Cfl fl a b) /\
  (forall fl g1 g2 st x, In x (fst (frfr S D memo f fl g1 g2 st)) ->
     exists b1 b2 a b, fbody g1 = Some b1 /\ fbody g2 = Some b2 /\ EF b1 a /\ EF b2 b /\
                       fe_key a = fe_key b /\ x = fe_id a /\ Cfl fl a b).
Proof.
  induction f as [|f IH]; [split; [|split; [|split; [|split]]]; intros; simpl in *; contradiction|].
  destruct IH as (Ifc & Ibt & Isub & Iff & Ifr).
  split; [|split; [|split; [|split]]].
  - (* fc *) intros fl a b st x H. simpl in H.
    destruct (base_ok S (fl || excl S a b) a b) eqn:Eb; simpl in H.
    2:{ destruct H as [H|[]]. split; [symmetry; exact H|]. apply C_base. apply base_ok_base2_false. exact Eb. }
    destruct (has_sub a && has_sub b) eqn:Es; [|destruct H].
    destruct (Overlap.subsets S D memo f (fl || excl S a b) (sub_pt a, fe_sub a) (sub_pt b, fe_sub b) (inc_fc st)) as [cs st'] eqn:E.
    simpl in H. destruct cs as [|c cs]; [destruct H|]. destruct H as [H|[]]. split; [symmetry; exact H|].
    destruct (Isub (fl || excl S a b) (sub_pt a, fe_sub a) (sub_pt b, fe_sub b) (inc_fc st) c) as [a' [b' [Ha [Hb [Hk Hc]]]]].
    { rewrite E. left. reflexivity. }
    apply andb_true_iff in Es. apply (C_sub fl a b a' b' Es Ha Hb Hk Hc).
  - (* between *) intros fl l1 l2 st x H. simpl in H.
    apply seq_in in H. destruct H as [k [st1 [_ H]]]. apply seq_in in H. destruct H as [a [st2 [Ha H]]].
    apply seq_in in H. destruct H as [b [st3 [Hb H]]]. apply with_key_in in Ha. apply with_key_in in Hb.
    destruct (Ifc fl a b st3 x H) as [Ex C]. exists a, b. repeat split; try tauto. destruct Ha, Hb. congruence.
  - (* subsets *) intros fl s1 s2 st x H. simpl in H.
    destruct (between S D memo f fl (dfields S (fst s1) (snd s1)) (dfields S (fst s2) (snd s2)) st) as [c1 st1] eqn:E1.
    destruct (seq (fun g => ffrag S D memo f fl s1 g) (dspreads (snd s2)) st1) as [c2 st2] eqn:E2.
    destruct (seq (fun g => ffrag S D memo f fl s2 g) (dspreads (snd s1)) st2) as [c3 st3] eqn:E3.
    destruct (seq (fun a => seq (fun b => frfr S D memo f fl a b) (dspreads (snd s2))) (dspreads (snd s1)) st3) as [c4 st4] eqn:E4.
    simpl in H. apply in_app_or in H. destruct H as [H|H].
    { destruct (Ibt fl _ _ st x ltac:(rewrite E1; exact H)) as [a [b [Ha [Hb [Hk [_ C]]]]]].
      exists a, b. repeat split; try assumption; apply EF_d; assumption. }
    apply in_app_or in H. destruct H as [H|H].
    { assert (H' : In x (fst (seq (fun g => ffrag S D memo f fl s1 g) (dspreads (snd s2)) st1))) by (rewrite E2; exact H).
      apply seq_in in H'. destruct H' as [g [st' [Hg H']]].
      destruct (Iff fl s1 g st' x H') as [a [bd [b [Ha [Eb [Hb [Hk [_ C]]]]]]]].
      exists a, b. repeat split; try assumption; [apply EF_d; exact Ha|].
      apply (EF_s S D s2 g bd b (dspreads_raw_in _ _ Hg) Eb Hb). }
    apply in_app_or in H. destruct H as [H|H].
    { assert (H' : In x (fst (seq (fun g => ffrag S D memo f fl s2 g) (dspreads (snd s1)) st2))) by (rewrite E3; exact H).
      apply seq_in in H'. destruct H' as [g [st' [Hg H']]].
      destruct (Iff fl s2 g st' x H') as [a [bd [b [Ha [Eb [Hb [Hk [_ C]]]]]]]].
      exists b, a. repeat split; [apply (EF_s S D s1 g bd b (dspreads_raw_in _ _ Hg) Eb Hb) | apply EF_d; exact Ha
                                | symmetry; exact Hk | apply Cfl_sym; exact C]. }
    { assert (H' : In x (fst (seq (fun a => seq (fun b => frfr S D memo f fl a b) (dspreads (snd s2))) (dspreads (snd s1)) st3))) by (rewrite E4; exact H).
      apply seq_in in H'. destruct H' as [g1 [st' [Hg1 H']]]. apply seq_in in H'. destruct H' as [g2 [st'' [Hg2 H']]].
      destruct (Ifr fl g1 g2 st'' x H') as [b1 [b2 [a [b [E1' [E2' [Ha [Hb [Hk [_ C]]]]]]]]]].
      exists a, b. repeat split; try assumption.
      - apply (EF_s S D s1 g1 b1 a (dspreads_raw_in _ _ Hg1) E1' Ha).
      - apply (EF_s S D s2 g2 b2 b (dspreads_raw_in _ _ Hg2) E2' Hb). }
  - (* ffrag *) intros fl s g st x H. simpl in H.
    destruct (memo && ff_has st (fst s) (first_id (snd s)) g fl); [destruct H|].
    destruct (frag D g) as [fr|] eqn:Ef; [|destruct H].
    destruct (same_set s (resolve S (fr_cond fr), fr_sel fr)); [destruct H|].
    pose proof (fbody_frag S D g fr Ef) as Eb.
    match type of H with context [between S D memo f fl ?x ?y ?z] =>
      destruct (between S D memo f fl x y z) as [c1 st1] eqn:E1 end.
    match type of H with context [seq ?stp ?l st1] => destruct (seq stp l st1) as [c2 st2] eqn:E2 end.
    simpl in H. apply in_app_or in H. destruct H as [H|H].
    + destruct (Ibt fl _ _ _ x ltac:(rewrite E1; exact H)) as [a [b [Ha [Hb [Hk [Ex C]]]]]].
      exists a, (resolve S (fr_cond fr), fr_sel fr), b. repeat split; try assumption. apply EF_d. exact Hb.
    + assert (H' : In x (fst (seq (fun h => ffrag S D memo f fl s h) (dspreads (fr_sel fr)) st1))) by (simpl in E2; rewrite E2; exact H).
      apply seq_in in H'. destruct H' as [h [st' [Hh H']]].
      destruct (Iff fl s h st' x H') as [a [bh [b [Ha [Ebh [Hb [Hk [Ex C]]]]]]]].
      exists a, (resolve S (fr_cond fr), fr_sel fr), b. repeat split; try assumption.
      apply (EF_s S D (resolve S (fr_cond fr), fr_sel fr) h bh b (dspreads_raw_in _ _ Hh) Ebh Hb).
  - (* frfr *) intros fl g1 g2 st x H. simpl in H.
    destruct (frag D g1) as [f1|] eqn:Ef1; [|destruct H].
    destruct (frag D g2) as [f2|] eqn:Ef2; [|destruct H].
    destruct (String.eqb g1 g2); [destruct H|].
    destruct (memo && pair_has st g1 g2 fl); [destruct H|].
    pose proof (fbody_frag S D g1 f1 Ef1) as Eb1. pose proof (fbody_frag S D g2 f2 Ef2) as Eb2.
    match type of H with context [between S D memo f fl ?x ?y ?z] =>
      destruct (between S D memo f fl x y z) as [c1 st1] eqn:E1 end.
    match type of H with context [seq ?stp ?l st1] => destruct (seq stp l st1) as [c2 st2] eqn:E2 end.
    match type of H with context [seq ?stp ?l st2] => destruct (seq stp l st2) as [c3 st3] eqn:E3 end.
    simpl in H. exists (resolve S (fr_cond f1), fr_sel f1), (resolve S (fr_cond f2), fr_sel f2).
    apply in_app_or in H. destruct H as [H|H].
    + destruct (Ibt fl _ _ _ x ltac:(rewrite E1; exact H)) as [a [b [Ha [Hb [Hk [Ex C]]]]]].
      exists a, b. repeat split; try assumption; apply EF_d; assumption.
    + apply in_app_or in H. destruct H as [H|H].
      * assert (H' : In x (fst (seq (fun h => frfr S D memo f fl g1 h) (dspreads (fr_sel f2)) st1))) by (simpl in E2; rewrite E2; exact H).
        apply seq_in in H'. destruct H' as [h [st' [Hh H']]].
        destruct (Ifr fl g1 h st' x H') as [c1' [c2' [a [b [E1' [E2' [Ha [Hb [Hk [Ex C]]]]]]]]]].
        rewrite Eb1 in E1'. inversion E1'; subst c1'.
        exists a, b. repeat split; try assumption.
        apply (EF_s S D (resolve S (fr_cond f2), fr_sel f2) h c2' b (dspreads_raw_in _ _ Hh) E2' Hb).
      * assert (H' : In x (fst (seq (fun h => frfr S D memo f fl h g2) (dspreads (fr_sel f1)) st2))) by (simpl in E3; rewrite E3; exact H).
        apply seq_in in H'. destruct H' as [h [st' [Hh H']]].
        destruct (Ifr fl h g2 st' x H') as [c1' [c2' [a [b [E1' [E2' [Ha [Hb [Hk [Ex C]]]]]]]]]].
        rewrite Eb2 in E2'. inversion E2'; subst c2'.
        exists a, b. repeat split; try assumption.
        apply (EF_s S D (resolve S (fr_cond f1), fr_sel f1) h c1' a (dspreads_raw_in _ _ Hh) E1' Ha).
Qed.

Definition Offends (s : fset) (x : N) : Prop :=
  exists a b, EF s a /\ EF s b /\ fe_key a = fe_key b /\ fe_id a = x /\ Cfl false a b.

Lemma pairs_within_witness : forall fuel s k l st x, incl l (with_key k (fields S s)) ->
  In x (fst (pairs_within S D memo fuel l st)) -> Offends s x.
Proof.
  intros fuel s k l. induction l as [|a r IH]; intros st x Hi H; [destruct H|]. simpl in H.
  destruct (seq (fun b => Overlap.fc S D memo fuel false a b) r st) as [c1 st1] eqn:E1.
  destruct (pairs_within S D memo fuel r st1) as [c2 st2] eqn:E2. simpl in H.
  apply in_app_or in H. destruct H as [H|H].
  - assert (H' : In x (fst (seq (fun b => Overlap.fc S D memo fuel false a b) r st))) by (rewrite E1; exact H).
    apply seq_in in H'. destruct H' as [b [st' [Hb H']]].
    destruct (proj1 (exec_witness fuel) false a b st' x H') as [Ex C].
    pose proof (with_key_in _ _ _ (Hi a (or_introl eq_refl))) as [Ha Ka].
    pose proof (with_key_in _ _ _ (Hi b (or_intror Hb))) as [Hb' Kb].
    exists a, b. repeat split; [apply EF_d; exact Ha | apply EF_d; exact Hb' | congruence | symmetry; exact Ex | exact C].
  - apply (IH st1 x (fun y Hy => Hi y (or_intror Hy))). rewrite E2. exact H.
Qed.

Lemma frags_within_witness : forall fuel s gs st x, incl gs (frs s) ->
  In x (fst (frags_within S D memo fuel s gs st)) -> Offends s x.
Proof.
  intros fuel s gs. induction gs as [|g r IH]; intros st x Hi H; [destruct H|]. simpl in H.
  destruct (ffrag S D memo fuel false s g st) as [c1 st1] eqn:E1.
  destruct (seq (fun h => frfr S D memo fuel false g h) r st1) as [c2 st2] eqn:E2.
  destruct (frags_within S D memo fuel s r st2) as [c3 st3] eqn:E3. simpl in H.
  destruct (exec_witness fuel) as (_ & _ & _ & Iff & Ifr).
  apply in_app_or in H. destruct H as [H|H].
  - destruct (Iff false s g st x ltac:(rewrite E1; exact H)) as [a [bd [b [Ha [Eb [Hb [Hk [Ex C]]]]]]]].
    exists a, b. repeat split; try assumption; [apply EF_d; exact Ha | | symmetry; exact Ex].
    apply (EF_s S D s g bd b (Hi g (or_introl eq_refl)) Eb Hb).
  - apply in_app_or in H. destruct H as [H|H].
    + assert (H' : In x (fst (seq (fun h => frfr S D memo fuel false g h) r st1))) by (rewrite E2; exact H).
      apply seq_in in H'. destruct H' as [h [st' [Hh H']]].
      destruct (Ifr false g h st' x H') as [b1 [b2 [a [b [E1' [E2' [Ha [Hb [Hk [Ex C]]]]]]]]]].
      exists a, b. repeat split; try assumption; [| | symmetry; exact Ex].
      * apply (EF_s S D s g b1 a (Hi g (or_introl eq_refl)) E1' Ha).
      * apply (EF_s S D s h b2 b (Hi h (or_intror Hh)) E2' Hb).
    + apply (IH st2 x (fun y Hy => Hi y (or_intror Hy))). rewrite E3. exact H.
Qed.

Lemma within_set_witness : forall fuel s st x, In x (fst (within_set S D memo fuel s st)) -> Offends s x.
Proof.
  intros fuel s st x H. unfold within_set in H.
  destruct (seq (fun k => pairs_within S D memo fuel (with_key k (dfields S (fst s) (snd s))))
                (keys_of (dfields S (fst s) (snd s))) st) as [c1 st1] eqn:E1.
  destruct (frags_within S D memo fuel s (dspreads (snd s)) st1) as [c2 st2] eqn:E2. simpl in H.
  apply in_app_or in H. destruct H as [H|H].
  - assert (H' : In x (fst (seq (fun k => pairs_within S D memo fuel (with_key k (dfields S (fst s) (snd s))))
                                 (keys_of (dfields S (fst s) (snd s))) st))) by (rewrite E1; exact H).
    apply seq_in in H'. destruct H' as [k [st' [_ H']]].
    apply (pairs_within_witness fuel s k _ st' x (incl_refl _) H').
  - apply (frags_within_witness fuel s (dspreads (snd s)) st1 x (fun g Hg => dspreads_raw_in _ _ Hg)).
    rewrite E2. exact H.
Qed.

Theorem overlap_located : forall fuel x, In x (run_overlap S D memo fuel) ->
  exists s, In s (all_sets S D) /\ Offends s x.
Proof.
  intros fuel x H. unfold run_overlap in H. apply seq_in in H. destruct H as [s [st' [Hs H]]].
  exists s. split; [exact Hs | apply (within_set_witness fuel s st' x H)].
Qed.
End Witness.

(* the witness refutes L1 *)
Theorem overlap_sound_witness : forall S D memo fuel x, In x (run_overlap S D memo fuel) ->
  exists s a b, doc_sets S D s /\ EF S D s a /\ EF S D s b /\ fe_key a = fe_key b /\ fe_id a = x /\
                Cfl S D false a b /\ ~ compat S D (base2 S) false a b.
Proof.
  intros S D memo fuel x H. destruct (overlap_located S D memo fuel x H) as [s [Hs [a [b [Ha [Hb [Hk [Ex C]]]]]]]].
  exists s, a, b. repeat split; try assumption; [left; exact Hs | apply Cfl_not_compat; exact C].
Qed.
