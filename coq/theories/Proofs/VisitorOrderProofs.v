(* C14 -- document order and "exactly once": the events of the walk are the Euler tour of
   the tree (pre-order enters, post-order leaves) restricted to what the visitor is shown. *)
From Coq Require Import List NArith Bool Arith Lia Permutation.
From GQL Require Import Visitor.VisitorTree Visitor.VisitorWalk Visitor.VisitorLoop Visitor.VisitorOrder
     Proofs.VisitorWalkProofs Proofs.VisitorParallelProofs.
Import ListNotations.

Section TourFacts.
Variable keys_of : N -> list N.
Variable sk : gnode -> bool.

Lemma tour_unfold n :
  tour keys_of sk n =
  (PEnter, n) :: (if sk n then [] else tkeys keys_of sk (g_slots n) (keys_of (g_kind n)) ++ [(PLeave, n)]).
Proof.
  destruct n as [id kind slots]. cbn [g_slots g_kind]. cbn -[tkeys app].
  f_equal. destruct (sk (GNode id kind slots)); [reflexivity|].
  match goal with |- ?x ++ ?l = ?y ++ ?l => assert (x = y) as ->; [|reflexivity] end.
  induction (keys_of kind) as [|k ks IH]; [reflexivity|].
  cbn [tkeys]. rewrite <- IH.
  match goal with |- ?x ++ ?l = ?y ++ ?l => assert (x = y) as ->; [|reflexivity] end.
  clear IH.
  induction slots as [|[nm o|nm l] ss IHs]; cbn [find_slot slot_name].
  - reflexivity.
  - destruct (N.eqb k nm); [destruct o; reflexivity | exact IHs].
  - destruct (N.eqb k nm); [| exact IHs]. cbn [tslot].
    induction l as [|ch l IHl]; [reflexivity|]. cbn [tlist]. rewrite <- IHl. reflexivity.
Qed.
End TourFacts.

Section Order.
Variable keys_of : N -> list N.
Variable sel : N -> phase -> option N.
Variable pol : N -> phase -> action.
Notation W := (walk keys_of sel pol).
Notation sk := (skips sel pol).
Notation marks := (fun p : tr => map ev_mark (fst p)).

Hypothesis no_break : forall id ph, pol id ph <> Break.

Lemma nb c key n : snd (W c key n) = false.
Proof. apply never_break_never_stops. exact no_break. Qed.

Lemma marks_list cl : forall l,
  Forall (fun n => forall c key, marks (W c key n) = shown sel (tour keys_of sk n)) l ->
  forall i, marks (wlist keys_of sel pol cl i l) = shown sel (tlist keys_of sk l)
            /\ snd (wlist keys_of sel pol cl i l) = false.
Proof.
  induction l as [|ch l IH]; intros HF i; [split; reflexivity|].
  inversion HF as [|? ? Hch Hl]; subst. destruct (IH Hl (S i)) as [I1 I2].
  cbn [wlist tlist]. split.
  - rewrite fst_seq_nostop by apply nb. unfold shown in *. rewrite map_app, flat_map_app, Hch, I1. reflexivity.
  - rewrite snd_seq_nostop by apply nb. exact I2.
Qed.

(* the events of the walk, as (phase, node, kind) marks, are the Euler tour as shown to the visitor *)
Theorem walk_is_tour : forall n c key, marks (W c key n) = shown sel (tour keys_of sk n).
Proof.
  induction n as [id kind slots IH] using gnode_ind'. intros c key.
  set (n := GNode id kind slots).
  assert (HK : forall cin ks,
             marks (wkeys keys_of sel pol cin slots ks) = shown sel (tkeys keys_of sk slots ks)
             /\ snd (wkeys keys_of sel pol cin slots ks) = false).
  { intros cin ks. induction ks as [|k ks [I1 I2]]; [split; reflexivity|].
    cbn [wkeys tkeys].
    assert (Hs : marks (wslot keys_of sel pol cin k (find_slot k slots)) = shown sel (tslot keys_of sk (find_slot k slots))
                 /\ snd (wslot keys_of sel pol cin k (find_slot k slots)) = false).
    { destruct (find_slot k slots) as [s|] eqn:Ef; [|split; reflexivity].
      apply find_slot_in in Ef. rewrite Forall_forall in IH. specialize (IH s Ef).
      destruct s as [nm [ch|]|nm l]; cbn [wslot tslot SlotP] in *.
      - split; [apply IH | apply nb].
      - split; reflexivity.
      - apply marks_list; exact IH. }
    destruct Hs as [S1 S2]. split.
    - rewrite fst_seq_nostop by exact S2. unfold shown in *. rewrite map_app, flat_map_app, S1, I1. reflexivity.
    - rewrite snd_seq_nostop by exact S2. exact I2. }
  rewrite walk_unfold, tour_unfold. change (g_slots n) with slots.
  assert (Hsk : skips sel pol n = match act sel pol n PEnter with Skip => true | _ => false end) by reflexivity.
  rewrite Hsk. clear Hsk.
  assert (Hemit : forall ph, map ev_mark (emit sel ph c key n) = shown sel [(ph, n)]).
  { intros ph. unfold emit, shown. cbn [flat_map fst snd]. destruct (sel (g_kind n) ph); reflexivity. }
  change ((PEnter, n) :: ?r) with ([(PEnter, n)] ++ r).
  destruct (act sel pol n PEnter) eqn:Ea.
  - destruct (HK (w_inner c key (Some (g_id n))) (keys_of (g_kind n))) as [K1 K2].
    cbv beta in *.
    rewrite fst_seq_nostop by reflexivity. rewrite fst_seq_nostop by exact K2.
    unfold shown in *. rewrite !map_app, !flat_map_app, K1. cbn [fst].
    rewrite (Hemit PEnter). unfold leave_tr. cbn [fst]. rewrite (Hemit PLeave). reflexivity.
  - cbv beta. cbn [fst]. rewrite (Hemit PEnter). unfold shown. rewrite flat_map_app. cbn. rewrite ?app_nil_r. reflexivity.
  - exfalso. unfold act in Ea. destruct (sel (g_kind n) PEnter); [exact (no_break _ _ Ea) | discriminate].
Qed.
End Order.

(* ---- sub-sequences ---- *)
Inductive Sub {A} : list A -> list A -> Prop :=
| Sub_nil : Sub [] []
| Sub_cons x l1 l2 : Sub l1 l2 -> Sub (x :: l1) (x :: l2)
| Sub_skip x l1 l2 : Sub l1 l2 -> Sub l1 (x :: l2).

Lemma Sub_nil_l {A} (l : list A) : Sub [] l.
Proof. induction l; constructor; assumption. Qed.
Lemma Sub_refl {A} (l : list A) : Sub l l.
Proof. induction l; constructor; assumption. Qed.
Lemma Sub_app {A} (a a' b b' : list A) : Sub a a' -> Sub b b' -> Sub (a ++ b) (a' ++ b').
Proof. induction 1; intros Hb; cbn; try constructor; auto. Qed.
Lemma Sub_map {A B} (f : A -> B) a b : Sub a b -> Sub (map f a) (map f b).
Proof. induction 1; cbn; constructor; assumption. Qed.
Lemma Sub_filter_l {A} (f : A -> bool) a b : Sub a b -> Sub (filter f a) b.
Proof. induction 1; cbn; [constructor | destruct (f x); constructor; assumption | constructor; assumption]. Qed.
Lemma Sub_In {A} (a b : list A) x : Sub a b -> In x a -> In x b.
Proof. induction 1; cbn; intuition. Qed.
Lemma Sub_NoDup {A} (a b : list A) : Sub a b -> NoDup b -> NoDup a.
Proof.
  induction 1; intros Hn; [constructor | |].
  - inversion Hn; subst. constructor; [intros Hi; apply (Sub_In _ _ _ H) in Hi; contradiction | auto].
  - inversion Hn; subst. auto.
Qed.

Section Prune.
Variable keys_of : N -> list N.
Variable sk : gnode -> bool.
Notation T := (tour keys_of sk).
Notation T0 := (tour keys_of (fun _ => false)).
Notation fe := (filter is_enter).

Lemma prune_list : forall l,
  Forall (fun n => Sub (fe (T n)) (fe (T0 n))) l ->
  Sub (fe (tlist keys_of sk l)) (fe (tlist keys_of (fun _ => false) l)).
Proof.
  induction l as [|ch l IH]; intros HF; [constructor|].
  inversion HF; subst. cbn [tlist]. rewrite !filter_app. apply Sub_app; auto.
Qed.

(* skipping only removes: the visited nodes are a sub-sequence of the pre-order *)
Theorem enters_sub_preorder : forall n, Sub (enters keys_of sk n) (preorder keys_of n).
Proof.
  intros n. unfold enters, preorder, enters. apply Sub_map.
  induction n as [id kind slots IH] using gnode_ind'.
  rewrite !tour_unfold. cbn [filter is_enter fst]. apply Sub_cons.
  destruct (sk (GNode id kind slots)); [apply Sub_nil_l|].
  rewrite !filter_app. cbn [g_slots g_kind filter is_enter fst]. apply Sub_app; [|constructor].
  induction (keys_of kind) as [|k ks IHk]; [constructor|].
  cbn [tkeys]. rewrite !filter_app. apply Sub_app; [|exact IHk].
  destruct (find_slot k slots) as [s|] eqn:Ef; [|constructor].
  apply find_slot_in in Ef. rewrite Forall_forall in IH. specialize (IH s Ef).
  destruct s as [nm [ch|]|nm l]; cbn [tslot SlotP] in *; [exact IH | constructor | apply prune_list; exact IH].
Qed.

Lemma perm_list : forall l,
  Forall (fun n => Permutation (leaves keys_of sk n) (filter (fun m => negb (sk m)) (enters keys_of sk n))) l ->
  Permutation (map snd (filter is_leave (tlist keys_of sk l)))
              (filter (fun m => negb (sk m)) (map snd (fe (tlist keys_of sk l)))).
Proof.
  induction l as [|ch l IH]; intros HF; [constructor|].
  inversion HF as [|? ? Hch Hl]; subst. cbn [tlist]. rewrite !filter_app, !map_app, filter_app.
  apply Permutation_app; [exact Hch | apply IH; exact Hl].
Qed.

(* the nodes that are left are exactly the visited nodes that are not skipped *)
Theorem leaves_perm : forall n,
  Permutation (leaves keys_of sk n) (filter (fun m => negb (sk m)) (enters keys_of sk n)).
Proof.
  induction n as [id kind slots IH] using gnode_ind'. unfold leaves, enters.
  rewrite !tour_unfold. cbn [filter is_enter is_leave negb fst map snd].
  destruct (sk (GNode id kind slots)) eqn:Es; cbn [negb]; [constructor|].
  rewrite !filter_app, !map_app. cbn [filter is_enter is_leave negb fst map snd app].
  rewrite app_nil_r. cbn [g_slots g_kind].
  eapply Permutation_trans; [apply Permutation_sym, Permutation_cons_append|]. apply perm_skip.
  induction (keys_of kind) as [|k ks IHk]; [constructor|].
  cbn [tkeys]. rewrite !filter_app, !map_app, filter_app. apply Permutation_app; [|exact IHk].
  destruct (find_slot k slots) as [s|] eqn:Ef; [|constructor].
  apply find_slot_in in Ef. rewrite Forall_forall in IH. specialize (IH s Ef).
  destruct s as [nm [ch|]|nm l]; cbn [tslot SlotP] in *; [exact IH | constructor | apply perm_list; exact IH].
Qed.
End Prune.

(* ---- pre-order / post-order of the events, and counting ---- *)
Section Counting.
Variable keys_of : N -> list N.
Variable sel : N -> phase -> option N.
Variable pol : N -> phase -> action.
Notation sk := (skips sel pol).

Lemma enter_ids_marks evs :
  enter_ids evs = map (fun m => snd (fst m)) (filter (fun m => phase_eqb (fst (fst m)) PEnter) (map ev_mark evs)).
Proof.
  unfold enter_ids. induction evs as [|e r IH]; [reflexivity|]. cbn [map filter ev_mark fst snd].
  destruct (phase_eqb (e_phase e) PEnter); cbn [map]; rewrite IH; reflexivity.
Qed.
Lemma leave_ids_marks evs :
  leave_ids evs = map (fun m => snd (fst m)) (filter (fun m => phase_eqb (fst (fst m)) PLeave) (map ev_mark evs)).
Proof.
  unfold leave_ids. induction evs as [|e r IH]; [reflexivity|]. cbn [map filter ev_mark fst snd].
  destruct (phase_eqb (e_phase e) PLeave); cbn [map]; rewrite IH; reflexivity.
Qed.

Lemma shown_enter T :
  map (fun m => snd (fst m)) (filter (fun m : phase * N * N => phase_eqb (fst (fst m)) PEnter) (shown sel T))
  = map g_id (filter (has_fn sel PEnter) (map snd (filter is_enter T))).
Proof.
  induction T as [|[[|] m] r IH]; [reflexivity| |]; unfold shown in *; cbn [flat_map fst snd filter is_enter map];
    unfold has_fn; destruct (sel (g_kind m) _); cbn; rewrite IH; reflexivity.
Qed.
Lemma shown_leave T :
  map (fun m => snd (fst m)) (filter (fun m : phase * N * N => phase_eqb (fst (fst m)) PLeave) (shown sel T))
  = map g_id (filter (has_fn sel PLeave) (map snd (filter is_leave T))).
Proof.
  induction T as [|[[|] m] r IH]; [reflexivity| |]; unfold shown in *; cbn [flat_map fst snd filter is_leave is_enter negb map];
    unfold has_fn; destruct (sel (g_kind m) _); cbn; rewrite IH; reflexivity.
Qed.

Section NoBreak.
Hypothesis no_break : forall id ph, pol id ph <> Break.

(* document order: enter events in pre-order, leave events in post-order, of the nodes that
   are not below a skipped node (and for whose kind a function is selected) *)
Theorem enter_order t :
  enter_ids (walk_events keys_of sel pol t) = map g_id (filter (has_fn sel PEnter) (enters keys_of sk t)).
Proof.
  rewrite enter_ids_marks. unfold walk_events, walk_root.
  rewrite (walk_is_tour keys_of sel pol no_break t w_root None). apply shown_enter.
Qed.
Theorem leave_order t :
  leave_ids (walk_events keys_of sel pol t) = map g_id (filter (has_fn sel PLeave) (leaves keys_of sk t)).
Proof.
  rewrite leave_ids_marks. unfold walk_events, walk_root.
  rewrite (walk_is_tour keys_of sel pol no_break t w_root None). apply shown_leave.
Qed.
End NoBreak.

Lemma nodup_count (l : list N) :
  NoDup l -> forall x, count_occ N.eq_dec l x <= 1 /\ (count_occ N.eq_dec l x = 1 <-> In x l).
Proof.
  intros Hn x. pose proof (proj1 (NoDup_count_occ N.eq_dec l) Hn x) as Hle.
  pose proof (count_occ_In N.eq_dec l x) as Hin. split; [exact Hle|]. split; intros H.
  - apply Hin. lia.
  - apply Hin in H. lia.
Qed.


Lemma nodup_enters t :
  NoDup (map g_id (preorder keys_of t)) ->
  NoDup (map g_id (filter (has_fn sel PEnter) (enters keys_of sk t))).
Proof.
  intros Hn. eapply Sub_NoDup; [|exact Hn]. apply Sub_map. apply Sub_filter_l. apply enters_sub_preorder.
Qed.
Lemma nodup_leaves t :
  NoDup (map g_id (preorder keys_of t)) ->
  NoDup (map g_id (filter (has_fn sel PLeave) (leaves keys_of sk t))).
Proof.
  intros Hn.
  assert (H1 : NoDup (map g_id (filter (fun m => negb (sk m)) (enters keys_of sk t)))).
  { eapply Sub_NoDup; [|exact Hn]. apply Sub_map. apply Sub_filter_l. apply enters_sub_preorder. }
  assert (H2 : NoDup (map g_id (leaves keys_of sk t))).
  { eapply Permutation_NoDup; [|exact H1]. apply Permutation_map. apply Permutation_sym. apply leaves_perm. }
  eapply Sub_NoDup; [|exact H2]. apply Sub_map. apply Sub_filter_l. apply Sub_refl.
Qed.
End Counting.

(* ---- break: the events are a prefix of those of the same policy without breaks ---- *)
Section Prefix.
Variable keys_of : N -> list N.
Variable sel : N -> phase -> option N.
Variable pol : N -> phase -> action.
Notation W := (walk keys_of sel pol).
Notation W' := (walk keys_of sel (unbreak pol)).

Lemma unbreak_no_break : forall id ph, unbreak pol id ph <> Break.
Proof. intros id ph. unfold unbreak. destruct (pol id ph); discriminate. Qed.

Lemma act_unbreak n ph :
  act sel (unbreak pol) n ph = match act sel pol n ph with Break => Continue | a => a end.
Proof. unfold act, unbreak. destruct (sel (g_kind n) ph); [destruct (pol (g_id n) ph)|]; reflexivity. Qed.

Definition pre_ok (p p' : tr) : Prop :=
  snd p' = false /\ (exists rest, fst p' = fst p ++ rest) /\ (snd p = false -> p' = p).

Lemma pre_refl p : snd p = false -> pre_ok p p.
Proof. intros H. split; [exact H|]. split; [exists []; rewrite app_nil_r; reflexivity | reflexivity]. Qed.

Lemma pre_seq p p' q q' : pre_ok p p' -> pre_ok q q' -> pre_ok (seq p q) (seq p' q').
Proof.
  intros (Hp1 & (rp & Hp2) & Hp3) (Hq1 & (rq & Hq2) & Hq3).
  destruct p as [ep bp], p' as [ep' bp'], q as [eq1 bq], q' as [eq' bq']. cbn [fst snd] in *. subst bp' bq'.
  destruct bp; cbn [seq fst snd].
  - split; [reflexivity|]. split; [|discriminate]. exists (rp ++ eq'). rewrite Hp2, app_assoc. reflexivity.
  - specialize (Hp3 eq_refl). inversion Hp3; subst ep'. split; [reflexivity|]. split.
    + exists rq. rewrite Hq2, app_assoc. reflexivity.
    + intros Hb. specialize (Hq3 Hb). inversion Hq3; subst. reflexivity.
Qed.

Lemma pre_list cl : forall l,
  Forall (fun n => forall c key, pre_ok (W c key n) (W' c key n)) l ->
  forall i, pre_ok (wlist keys_of sel pol cl i l) (wlist keys_of sel (unbreak pol) cl i l).
Proof.
  induction l as [|ch l IH]; intros HF i; [apply pre_refl; reflexivity|].
  inversion HF; subst. cbn [wlist]. apply pre_seq; auto.
Qed.

Theorem walk_prefix : forall n c key, pre_ok (W c key n) (W' c key n).
Proof.
  induction n as [id kind slots IH] using gnode_ind'. intros c key.
  pose proof (never_break_never_stops keys_of sel (unbreak pol) unbreak_no_break (GNode id kind slots) c key) as Hns.
  assert (HK : forall cin ks, pre_ok (wkeys keys_of sel pol cin slots ks) (wkeys keys_of sel (unbreak pol) cin slots ks)).
  { intros cin ks. induction ks as [|k ks IHk]; [apply pre_refl; reflexivity|].
    cbn [wkeys]. apply pre_seq; [|exact IHk].
    destruct (find_slot k slots) as [s|] eqn:Ef; [|apply pre_refl; reflexivity].
    apply find_slot_in in Ef. rewrite Forall_forall in IH. specialize (IH s Ef).
    destruct s as [nm [ch|]|nm l]; cbn [wslot SlotP] in *;
      [apply IH | apply pre_refl; reflexivity | apply pre_list; exact IH]. }
  assert (HL : pre_ok (leave_tr sel pol c key (GNode id kind slots)) (leave_tr sel (unbreak pol) c key (GNode id kind slots))).
  { unfold leave_tr. rewrite act_unbreak.
    destruct (act sel pol (GNode id kind slots) PLeave); try (apply pre_refl; reflexivity).
    split; [reflexivity|]. split; [exists []; rewrite app_nil_r; reflexivity | discriminate]. }
  rewrite walk_unfold in Hns. rewrite !walk_unfold. rewrite act_unbreak in *.
  destruct (act sel pol (GNode id kind slots) PEnter).
  - apply pre_seq; [apply pre_refl; reflexivity|]. apply pre_seq; [apply HK | exact HL].
  - apply pre_refl; reflexivity.
  - split; [exact Hns|]. split; [|discriminate]. cbn [fst].
    match goal with |- exists rest, fst (seq (?e, false) ?q) = _ => exists (fst q); destruct q; reflexivity end.
Qed.

Theorem events_prefix t :
  exists rest, walk_events keys_of sel (unbreak pol) t = walk_events keys_of sel pol t ++ rest.
Proof. unfold walk_events, walk_root. exact (proj1 (proj2 (walk_prefix t w_root None))). Qed.

(* ---- exactly once / at most once ---- *)
Lemma count_prefix (f : list event -> list N) a rest x :
  (forall u v, f (u ++ v) = f u ++ f v) ->
  count_occ N.eq_dec (f a) x <= count_occ N.eq_dec (f (a ++ rest)) x.
Proof. intros Hf. rewrite Hf, count_occ_app. lia. Qed.

Lemma enter_ids_app u v : enter_ids (u ++ v) = enter_ids u ++ enter_ids v.
Proof. unfold enter_ids. rewrite filter_app, map_app. reflexivity. Qed.
Lemma leave_ids_app u v : leave_ids (u ++ v) = leave_ids u ++ leave_ids v.
Proof. unfold leave_ids. rewrite filter_app, map_app. reflexivity. Qed.

Theorem at_most_once t :
  NoDup (map g_id (preorder keys_of t)) ->
  forall x, count_occ N.eq_dec (enter_ids (walk_events keys_of sel pol t)) x <= 1
            /\ count_occ N.eq_dec (leave_ids (walk_events keys_of sel pol t)) x <= 1.
Proof.
  intros Hn x. destruct (events_prefix t) as [rest Hr].
  pose proof (enter_order keys_of sel (unbreak pol) unbreak_no_break t) as He.
  pose proof (leave_order keys_of sel (unbreak pol) unbreak_no_break t) as Hl.
  pose proof (nodup_enters keys_of sel (unbreak pol) t Hn) as Ne. rewrite <- He in Ne.
  pose proof (nodup_leaves keys_of sel (unbreak pol) t Hn) as Nl. rewrite <- Hl in Nl.
  rewrite Hr in Ne, Nl. split.
  - eapply Nat.le_trans; [apply (count_prefix enter_ids _ rest x enter_ids_app) | apply (nodup_count _ Ne x)].
  - eapply Nat.le_trans; [apply (count_prefix leave_ids _ rest x leave_ids_app) | apply (nodup_count _ Nl x)].
Qed.

Theorem exactly_once t :
  (forall id ph, pol id ph <> Break) ->
  NoDup (map g_id (preorder keys_of t)) ->
  forall x,
    (count_occ N.eq_dec (enter_ids (walk_events keys_of sel pol t)) x = 1
     <-> In x (map g_id (filter (has_fn sel PEnter) (enters keys_of (skips sel pol) t))))
    /\ (count_occ N.eq_dec (leave_ids (walk_events keys_of sel pol t)) x = 1
        <-> In x (map g_id (filter (has_fn sel PLeave) (leaves keys_of (skips sel pol) t))))
    /\ (~ In x (map g_id (enters keys_of (skips sel pol) t)) ->
        count_occ N.eq_dec (enter_ids (walk_events keys_of sel pol t)) x = 0
        /\ count_occ N.eq_dec (leave_ids (walk_events keys_of sel pol t)) x = 0).
Proof.
  intros Hnb Hn x.
  rewrite (enter_order keys_of sel pol Hnb t), (leave_order keys_of sel pol Hnb t).
  pose proof (nodup_count _ (nodup_enters keys_of sel pol t Hn) x) as [_ He].
  pose proof (nodup_count _ (nodup_leaves keys_of sel pol t Hn) x) as [_ Hl].
  split; [exact He|]. split; [exact Hl|]. intros Hni. split; apply count_occ_not_In; intros Hi; apply Hni.
  - apply in_map_iff in Hi. destruct Hi as (m & <- & Hm). apply filter_In in Hm. apply in_map. apply Hm.
  - apply in_map_iff in Hi. destruct Hi as (m & <- & Hm). apply filter_In in Hm. destruct Hm as [Hm _].
    apply (Permutation_in _ (leaves_perm keys_of (skips sel pol) t)) in Hm. apply filter_In in Hm. apply in_map. apply Hm.
Qed.

(* a node is left iff it is visited and not skipped *)
Theorem left_iff_visited_not_skipped t m :
  In m (leaves keys_of (skips sel pol) t)
  <-> In m (enters keys_of (skips sel pol) t) /\ skips sel pol m = false.
Proof.
  split.
  - intros H. apply (Permutation_in _ (leaves_perm keys_of (skips sel pol) t)) in H.
    apply filter_In in H. destruct H as [H1 H2]. split; [exact H1 | apply negb_true_iff; exact H2].
  - intros [H1 H2]. apply (Permutation_in _ (Permutation_sym (leaves_perm keys_of (skips sel pol) t))).
    apply filter_In. split; [exact H1 | apply negb_true_iff; exact H2].
Qed.
End Prefix.
