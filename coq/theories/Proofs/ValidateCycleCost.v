(* C19: the fragment-cycle search descends into every fragment at most once. *)
From Coq Require Import List Arith Lia Bool String NArith.
From GQL Require Import Exec.Syntax Validate.VSyntax Validate.Overlap Validate.Rules
     Proofs.ValidateRules Proofs.ValidateCycles.
Import ListNotations.
Open Scope string_scope.
Open Scope list_scope.

Section CycleCost.
Variable W : wdoc.
Notation names := (map wf_name (w_frags W)).

(* visited names are distinct definitions' names *)
Definition vinv (st : cyc) : Prop := NoDup (cy_visited st) /\ incl (cy_visited st) names.

Lemma fold_vinv : forall {A} (step : cyc -> A -> cyc) (l : list A),
  (forall st x, In x l -> vinv st -> vinv (step st x)) -> forall st, vinv st -> vinv (fold_left step l st).
Proof.
  intros A step l. induction l as [|x r IH]; intros H st Hs; simpl; [exact Hs|].
  apply IH; [intros st' y Hy; apply H; right; exact Hy | apply H; [left; reflexivity | exact Hs]].
Qed.

Lemma detect_vinv : forall fuel f path idx st,
  In f (w_frags W) -> ~ In (wf_name f) (cy_visited st) -> vinv st -> vinv (detect W fuel f path idx st).
Proof.
  induction fuel as [|fu IH]; intros f path idx st Hf Hn Hv; [exact Hv|]. cbn [detect].
  assert (H1 : vinv {| cy_visited := wf_name f :: cy_visited st; cy_errs := cy_errs st |}).
  { destruct Hv as [ND Hi]. split; simpl.
    - constructor; assumption.
    - intros x [Hx|Hx]; [subst; apply in_map; exact Hf | apply Hi; exact Hx]. }
  destruct (ctx_spreads (wf_sel f)) as [|sp0 sps]; [exact H1|].
  apply fold_vinv; [|exact H1]. intros st' sp _ Hv'.
  destruct (alookup (snd (snd sp)) ((wf_name f, Datatypes.length path) :: idx)); [exact Hv'|].
  destruct (nmem (snd (snd sp)) (cy_visited st')) eqn:Ev; [exact Hv'|].
  destruct (fragw W (snd (snd sp))) as [sf|] eqn:Efw; [|exact Hv'].
  destruct (fragw_some W _ _ Efw) as [Hsf Hname]. apply IH; [exact Hsf | | exact Hv'].
  rewrite Hname. apply nmem_not_in. exact Ev.
Qed.

Theorem cycle_search_bound : cycle_search_calls W <= List.length (w_frags W).
Proof.
  unfold cycle_search_calls.
  match goal with |- Datatypes.length (cy_visited ?fin) <= _ => assert (V : vinv fin) end.
  { apply fold_vinv.
    - intros st f Hf Hv. destruct (nmem (wf_name f) (cy_visited st)) eqn:Ev; [exact Hv|].
      apply detect_vinv; [exact Hf | apply nmem_not_in; exact Ev | exact Hv].
    - split; [constructor | intros x []]. }
  destruct V as [ND Hi].
  apply (Nat.le_trans _ (List.length names)); [apply NoDup_incl_length; assumption | rewrite map_length; lia].
Qed.

End CycleCost.
