(* Proofs about the reduced model of literal normalisation (Cache/Normalize.v). *)
From Coq Require Import List NArith Bool Lia FinFun.
From GQL Require Import Cache.Normalize.
Import ListNotations.
Open Scope N_scope.

Section NormProofs.
  Context {L cval : Type}.
  Notation value := (@value L).
  Notation sel := (@sel L).
  Notation nst := (@nst L cval).
  Variable value_eqb : value -> value -> bool.
  Variable cval_eqb : cval -> cval -> bool.
  Variable synth_name : N -> name.
  Variable field_def : otype -> name -> option (option otype).
  Variable arg_ty : otype -> name -> name -> option ty.
  Variable dir_arg_ty : name -> name -> option ty.
  Variable tc_obj : name -> option otype.
  Variable coerce : ty -> value -> (name -> option cval) -> option cval.
  Variable lit_valid : ty -> value -> bool.
  Variable var_coerce : ty -> cval -> option cval.
  Variable taken : list name.
  Variable env : name -> option cval.

  Hypothesis value_eqb_eq : forall a b, value_eqb a b = true -> a = b.
  Hypothesis value_eqb_refl : forall a, value_eqb a a = true.
  Hypothesis cval_eqb_eq : forall a b, cval_eqb a b = true -> a = b.
  Hypothesis synth_name_inj : forall a b, synth_name a = synth_name b -> a = b.
  (* valueFromAST reads the variables that occur in the value, and a variable is its value *)
  Hypothesis coerce_local : forall t v e1 e2, (forall x, In x (value_vars v) -> e1 x = e2 x) -> coerce t v e1 = coerce t v e2.
  Hypothesis coerce_var : forall t x e, coerce t (VVar x) e = e x.

  Notation extract_value := (extract_value cval_eqb coerce lit_valid var_coerce).
  Notation find_shared := (find_shared value_eqb).
  Notation try_extract := (try_extract value_eqb cval_eqb synth_name coerce lit_valid var_coerce taken).
  Notation norm_args := (norm_args value_eqb cval_eqb synth_name arg_ty coerce lit_valid var_coerce taken).
  Notation norm_sel := (norm_sel value_eqb cval_eqb synth_name field_def arg_ty tc_obj coerce lit_valid var_coerce taken).
  Notation normalize := (normalize value_eqb cval_eqb synth_name field_def arg_ty tc_obj coerce lit_valid var_coerce taken).
  Notation sub_value := (sub_value value_eqb cval_eqb coerce lit_valid var_coerce).
  Notation sub_args := (sub_args value_eqb cval_eqb arg_ty coerce lit_valid var_coerce).
  Notation sub_sel := (sub_sel value_eqb cval_eqb field_def arg_ty tc_obj coerce lit_valid var_coerce).
  Notation denote := (denote field_def arg_ty dir_arg_ty tc_obj coerce).
  Notation denote_arg := (denote_arg coerce).
  Notation denote_dir := (denote_dir dir_arg_ty coerce).

  (* induction on selections with the sub-selections covered *)
  Fixpoint sel_ind' (P : sel -> Prop)
           (HF : forall al nm args ds sub, Forall P sub -> P (Field al nm args ds sub))
           (HI : forall tc ds sub, Forall P sub -> P (Inline tc ds sub))
           (HS : forall f ds, P (Spread f ds)) (s : sel) {struct s} : P s :=
    match s with
    | Field al nm args ds sub =>
      HF al nm args ds sub ((fix go (l : list sel) : Forall P l :=
                               match l with [] => Forall_nil P | x :: r => Forall_cons x (sel_ind' P HF HI HS x) (go r) end) sub)
    | Inline tc ds sub =>
      HI tc ds sub ((fix go (l : list sel) : Forall P l :=
                       match l with [] => Forall_nil P | x :: r => Forall_cons x (sel_ind' P HF HI HS x) (go r) end) sub)
    | Spread f ds => HS f ds
    end.

  (* ---- states ---- *)

  Definition ext (a b : nst) : Prop := incl (n_synth a) (n_synth b).

  (* what is shared stays shared, under the same name *)
  Definition sext (a b : nst) : Prop :=
    forall t v x, find_shared t v (n_shared a) = Some x -> find_shared t v (n_shared b) = Some x.

  Definition wf (st : nst) : Prop :=
    (forall x t c, In (x, (t, c)) (n_synth st) ->
                   var_coerce t c = Some c /\ ~ In x taken /\ exists k, k < n_counter st /\ x = synth_name k) /\
    (forall t v x, In (t, v, x) (n_shared st) -> exists c, extract_value t v = Some c /\ In (x, (t, c)) (n_synth st)) /\
    (forall x t1 c1 t2 c2, In (x, (t1, c1)) (n_synth st) -> In (x, (t2, c2)) (n_synth st) -> t1 = t2 /\ c1 = c2) /\
    (forall t1 v1 t2 v2 x, In (t1, v1, x) (n_shared st) -> In (t2, v2, x) (n_shared st) -> t1 = t2 /\ v1 = v2).

  Definition agrees (env' : name -> option cval) (st : nst) : Prop :=
    (forall x t c, In (x, (t, c)) (n_synth st) -> env' x = Some c) /\
    (forall y, In y taken -> env' y = env y).

  Lemma ext_refl : forall a, ext a a.
  Proof. intro a. apply incl_refl. Qed.
  Lemma ext_trans : forall a b c, ext a b -> ext b c -> ext a c.
  Proof. intros a b c. apply incl_tran. Qed.
  Lemma sext_refl : forall a, sext a a.
  Proof. intros a t v x H. exact H. Qed.
  Lemma sext_trans : forall a b c, sext a b -> sext b c -> sext a c.
  Proof. intros a b c H1 H2 t v x H. apply H2. apply H1. exact H. Qed.

  Lemma agrees_ext : forall env' a b, ext a b -> agrees env' b -> agrees env' a.
  Proof. intros env' a b E [H1 H2]. split; [|exact H2]. intros x t c Hin. apply (H1 x t c). apply E. exact Hin. Qed.

  Lemma restrict_agree : forall (e1 e2 : name -> option cval) xs,
    (forall x, In x xs -> e1 x = e2 x) -> restrict e1 xs = restrict e2 xs.
  Proof. intros e1 e2 xs H. unfold restrict. apply map_ext_in. intros x Hx. rewrite (H x Hx). reflexivity. Qed.

  Lemma mem_true : forall x l, mem x l = true <-> In x l.
  Proof.
    intros x l. unfold mem. rewrite existsb_exists. split.
    - intros [y [Hy E]]. apply N.eqb_eq in E. subst. exact Hy.
    - intro H. exists x. split; [exact H|apply N.eqb_refl].
  Qed.

  (* ---- nextName ---- *)

  Lemma next_name_spec : forall f k x k', next_name synth_name taken f k = Some (x, k') ->
    ~ In x taken /\ exists j, k <= j /\ j < k' /\ x = synth_name j.
  Proof.
    induction f as [|f IH]; intros k x k' H; simpl in H; [discriminate|].
    destruct (mem (synth_name k) taken) eqn:M.
    - destruct (IH _ _ _ H) as [H1 [j [Ha [Hb Hc]]]]. split; [exact H1|]. exists j. repeat split; try assumption. lia.
    - injection H as Hx Hk. subst. split.
      + intro Hin. apply mem_true in Hin. congruence.
      + exists k. repeat split; lia.
  Qed.

  Lemma next_name_none : forall f k, next_name synth_name taken f k = None ->
    incl (map (fun i => synth_name (k + N.of_nat i)) (seq 0 f)) taken.
  Proof.
    induction f as [|f IH]; intros k H; simpl in *; [intros x []|].
    destruct (mem (synth_name k) taken) eqn:M; [|discriminate].
    intros x [Hx|Hx].
    - subst x. rewrite N.add_0_r. apply mem_true. exact M.
    - rewrite <- seq_shift in Hx. rewrite map_map in Hx. apply (IH (k + 1) H).
      apply in_map_iff in Hx. destruct Hx as [i [E Hi]]. apply in_map_iff. exists i. split; [|exact Hi].
      rewrite <- E. f_equal. lia.
  Qed.

  (* the loop finds a name: more candidates than taken names *)
  Lemma next_name_total : forall k, next_name synth_name taken (name_fuel taken) k <> None.
  Proof.
    intros k H. apply next_name_none in H.
    assert (ND : NoDup (map (fun i => synth_name (k + N.of_nat i)) (seq 0 (name_fuel taken)))).
    { apply Injective_map_NoDup; [|apply seq_NoDup].
      intros a b E. apply synth_name_inj in E. lia. }
    pose proof (NoDup_incl_length ND H) as Hl. rewrite map_length, seq_length in Hl.
    unfold name_fuel in Hl. lia.
  Qed.

  (* ---- the shared table ---- *)

  Lemma find_shared_spec : forall t v sh x, find_shared t v sh = Some x -> In (t, v, x) sh.
  Proof.
    intros t v sh x H. unfold Normalize.find_shared in H.
    destruct (find (fun e => (fst (fst e) =? t) && value_eqb (snd (fst e)) v) sh) as [e|] eqn:F; [|discriminate].
    injection H as H. apply find_some in F. destruct F as [Hin Hb].
    apply andb_true_iff in Hb. destruct Hb as [Hb1 Hb2]. apply N.eqb_eq in Hb1. apply value_eqb_eq in Hb2.
    destruct e as [[t' l'] x']. simpl in *. subst. exact Hin.
  Qed.

  Lemma find_shared_cons_same : forall t v x sh, find_shared t v ((t, v, x) :: sh) = Some x.
  Proof. intros. unfold Normalize.find_shared. simpl. rewrite N.eqb_refl, value_eqb_refl. reflexivity. Qed.

  Lemma find_shared_cons_other : forall t v x sh t2 v2 y,
    find_shared t v sh = None -> find_shared t2 v2 sh = Some y -> find_shared t2 v2 ((t, v, x) :: sh) = Some y.
  Proof.
    intros t v x sh t2 v2 y Hn Hs. unfold Normalize.find_shared. simpl.
    destruct ((t =? t2) && value_eqb v v2) eqn:E; [|exact Hs].
    apply andb_true_iff in E. destruct E as [E1 E2]. apply N.eqb_eq in E1. apply value_eqb_eq in E2. subst.
    rewrite Hn in Hs. discriminate Hs.
  Qed.

  (* ---- one argument ---- *)

  Lemma unchanged_arg : forall env' st ot (v : value),
    agrees env' st -> incl (value_vars v) taken -> denote_arg env' ot v = denote_arg env ot v.
  Proof.
    intros env' st ot v [_ HA] Hv. unfold Normalize.denote_arg. destruct ot as [t|].
    - f_equal. apply coerce_local. intros x Hx. apply HA. apply Hv. exact Hx.
    - f_equal. apply restrict_agree. intros x Hx. apply HA. apply Hv. exact Hx.
  Qed.

  Lemma extract_value_closed : forall t v c, extract_value t v = Some c ->
    value_vars v = [] /\ lit_valid t v = true /\ coerce t v no_vars = Some c /\ var_coerce t c = Some c.
  Proof.
    intros t v c H. unfold Normalize.extract_value in H.
    destruct (value_vars v); [|discriminate].
    destruct (lit_valid t v); simpl in H; [|discriminate].
    destruct (coerce t v no_vars) as [c0|]; [|discriminate].
    destruct (var_coerce t c0) as [c'|] eqn:VC; [|discriminate].
    destruct (cval_eqb c' c0) eqn:CE; [|discriminate].
    injection H as <-. apply cval_eqb_eq in CE. subst c'. repeat split; assumption.
  Qed.

  Lemma try_extract_ok : forall st t (v : value) st' v',
    try_extract st t v = (st', v') -> wf st -> incl (value_vars v) taken ->
    wf st' /\ ext st st' /\ sext st st' /\
    (forall stF, sext st' stF -> v' = sub_value stF t v) /\
    (forall env', agrees env' st' -> denote_arg env' (Some t) v' = denote_arg env (Some t) v).
  Proof.
    intros st t v st' v' H W Hv. unfold Normalize.try_extract in H.
    destruct (extract_value t v) as [c|] eqn:EV.
    - destruct (extract_value_closed _ _ _ EV) as [Hnv [_ [HC VC]]].
      assert (Den : forall env' x, env' x = Some c -> denote_arg env' (Some t) (VVar x) = denote_arg env (Some t) v).
      { intros env' x Hx. unfold Normalize.denote_arg. rewrite coerce_var, Hx. f_equal.
        rewrite <- HC. apply coerce_local. rewrite Hnv. intros y []. }
      destruct (find_shared t v (n_shared st)) as [x|] eqn:FS.
      + injection H as <- <-. split; [exact W|split; [apply ext_refl|split; [apply sext_refl|split]]].
        * intros stF HF. unfold Normalize.sub_value. rewrite EV. rewrite (HF _ _ _ FS). reflexivity.
        * intros env' [HA _]. apply Den. apply find_shared_spec in FS.
          destruct W as [_ [W2 _]]. destruct (W2 _ _ _ FS) as [c0 [E0 Hin]].
          rewrite EV in E0. injection E0 as <-. apply (HA _ _ _ Hin).
      + destruct (next_name synth_name taken (name_fuel taken) (n_counter st)) as [[x k']|] eqn:NN;
          [|exfalso; exact (next_name_total _ NN)].
        injection H as <- <-. destruct (next_name_spec _ _ _ _ NN) as [Hfresh [j [Hj1 [Hj2 Hj3]]]].
        destruct W as [W1 [W2 [W3 W4]]].
        assert (Hnew : forall t0 c0, In (x, (t0, c0)) (n_synth st) -> False).
        { intros t0 c0 Hin. destruct (W1 _ _ _ Hin) as [_ [_ [k0 [Hk0 Ex]]]].
          rewrite Hj3 in Ex. apply synth_name_inj in Ex. lia. }
        assert (Hnew2 : forall t0 v0, In (t0, v0, x) (n_shared st) -> False).
        { intros t0 v0 Hin. destruct (W2 _ _ _ Hin) as [c0 [_ Hs]]. eapply Hnew. exact Hs. }
        split; [|split; [|split; [|split]]].
        * split; [|split; [|split]]; simpl.
          -- intros y t0 c0 Hin. apply in_app_or in Hin. destruct Hin as [Hin|[Hin|[]]].
             ++ destruct (W1 _ _ _ Hin) as [A [B [k0 [C D]]]]. split; [exact A|split; [exact B|]]. exists k0. split; [lia|exact D].
             ++ injection Hin as <- <- <-. split; [exact VC|split; [exact Hfresh|]]. exists j. split; [exact Hj2|exact Hj3].
          -- intros t0 l0 y [Hin|Hin].
             ++ injection Hin as <- <- <-. exists c. split; [exact EV|]. apply in_or_app. right. left. reflexivity.
             ++ destruct (W2 _ _ _ Hin) as [c0 [A B]]. exists c0. split; [exact A|]. apply in_or_app. left. exact B.
          -- intros y t1 c1 t2 c2 H1 H2. apply in_app_or in H1. apply in_app_or in H2.
             destruct H1 as [H1|[H1|[]]]; destruct H2 as [H2|[H2|[]]].
             ++ apply (W3 y); assumption.
             ++ injection H2 as <- <- <-. exfalso. eapply Hnew. exact H1.
             ++ injection H1 as <- <- <-. exfalso. eapply Hnew. exact H2.
             ++ injection H1 as <- <- <-. injection H2 as <- <-. split; reflexivity.
          -- intros t1 v1 t2 v2 y [H1|H1] [H2|H2].
             ++ injection H1 as <- <- <-. injection H2 as <- <-. split; reflexivity.
             ++ injection H1 as <- <- <-. exfalso. eapply Hnew2. exact H2.
             ++ injection H2 as <- <- <-. exfalso. eapply Hnew2. exact H1.
             ++ apply (W4 _ _ _ _ y); assumption.
        * unfold ext. simpl. apply incl_appl. apply incl_refl.
        * intros t2 v2 y Hy. simpl. apply find_shared_cons_other; assumption.
        * intros stF HF. unfold Normalize.sub_value. rewrite EV.
          rewrite (HF t v x); [reflexivity|]. simpl. apply find_shared_cons_same.
        * intros env' [HA _]. apply Den. apply (HA x t c). simpl. apply in_or_app. right. left. reflexivity.
    - injection H as <- <-. split; [exact W|split; [apply ext_refl|split; [apply sext_refl|split]]].
      + intros stF _. unfold Normalize.sub_value. rewrite EV. reflexivity.
      + intros env' HA. eapply unchanged_arg; eassumption.
  Qed.

  (* ---- argument lists ---- *)

  Definition dargs (e : name -> option cval) (o : otype) (nm : name) (args : list (name * value)) :=
    map (fun a => (fst a, denote_arg e (arg_ty o nm (fst a)) (snd a))) args.

  Lemma norm_args_ok : forall o nm (args : list (name * value)) st st' args',
    norm_args st o nm args = (st', args') -> wf st -> incl (args_vars args) taken ->
    wf st' /\ ext st st' /\ sext st st' /\
    (forall stF, sext st' stF -> args' = sub_args stF o nm args) /\
    (forall env', agrees env' st' -> dargs env' o nm args' = dargs env o nm args).
  Proof.
    intros o nm. induction args as [|[a v] r IH]; intros st st' args' H W Hv; simpl in H.
    - injection H as <- <-. split; [exact W|split; [apply ext_refl|split; [apply sext_refl|split; reflexivity]]].
    - destruct (match arg_ty o nm a with Some t => try_extract st t v | None => (st, v) end) as [st1 v1] eqn:E1.
      destruct (norm_args st1 o nm r) as [st2 r'] eqn:E2. injection H as <- <-.
      unfold args_vars in Hv. simpl in Hv. apply incl_app_inv in Hv. destruct Hv as [Hv1 Hv2].
      assert (Step : wf st1 /\ ext st st1 /\ sext st st1 /\
                     (forall stF, sext st1 stF -> v1 = match arg_ty o nm a with Some t => sub_value stF t v | None => v end) /\
                     forall env', agrees env' st1 -> denote_arg env' (arg_ty o nm a) v1 = denote_arg env (arg_ty o nm a) v).
      { destruct (arg_ty o nm a) as [t|].
        - eapply try_extract_ok; eassumption.
        - injection E1 as <- <-. split; [exact W|split; [apply ext_refl|split; [apply sext_refl|split]]].
          + reflexivity.
          + intros env' HA. eapply unchanged_arg; eassumption. }
      destruct Step as [W1 [X1 [S1 [B1 D1]]]]. destruct (IH _ _ _ E2 W1 Hv2) as [W2 [X2 [S2 [B2 D2]]]].
      split; [exact W2|split; [eapply ext_trans; eassumption|split; [eapply sext_trans; eassumption|split]]].
      + intros stF HF. unfold Normalize.sub_args. simpl. f_equal.
        * f_equal. apply B1. eapply sext_trans; eassumption.
        * apply B2. exact HF.
      + intros env' HA. unfold dargs. simpl. f_equal.
        * f_equal. apply D1. eapply agrees_ext; eassumption.
        * apply D2. exact HA.
  Qed.

  (* ---- directives and untyped regions are left alone ---- *)

  Lemma unchanged_dirs : forall env' st (ds : list (@dir L)), agrees env' st -> incl (dirs_vars ds) taken ->
    map (denote_dir env') ds = map (denote_dir env) ds.
  Proof.
    intros env' st ds HA Hd. apply map_ext_in. intros d Hin. unfold Normalize.denote_dir. f_equal.
    apply map_ext_in. intros a Ha. f_equal. eapply unchanged_arg; [exact HA|].
    intros x Hx. apply Hd. unfold dirs_vars. apply in_flat_map. exists d. split; [exact Hin|].
    unfold args_vars. apply in_flat_map. exists a. split; assumption.
  Qed.

  Lemma unchanged_opaque : forall env' st (s : sel), agrees env' st -> incl (sel_vars s) taken -> opaque env' s = opaque env s.
  Proof.
    intros env' st s [_ HA] Hs. unfold Normalize.opaque. f_equal. apply restrict_agree.
    intros x Hx. apply HA. apply Hs. exact Hx.
  Qed.

  (* ---- selections ---- *)

  Definition good (s : sel) : Prop :=
    forall o st st' s', norm_sel o st s = (st', s') -> wf st -> incl (sel_vars s) taken ->
      wf st' /\ ext st st' /\ sext st st' /\
      (forall stF, sext st' stF -> s' = sub_sel stF o s) /\
      (forall env', agrees env' st' -> denote env' o s' = denote env o s).

  Lemma norm_list_ok : forall o (l : list sel), Forall good l ->
    forall st st' l', norm_list (norm_sel o) st l = (st', l') -> wf st -> incl (flat_map sel_vars l) taken ->
      wf st' /\ ext st st' /\ sext st st' /\
      (forall stF, sext st' stF -> l' = map (sub_sel stF o) l) /\
      (forall env', agrees env' st' -> map (denote env' o) l' = map (denote env o) l).
  Proof.
    intros o l HF. induction HF as [|s r Hs _ IH]; intros st st' l' H W Hv; simpl in H.
    - injection H as <- <-. split; [exact W|split; [apply ext_refl|split; [apply sext_refl|split; reflexivity]]].
    - destruct (norm_sel o st s) as [st1 s1] eqn:E1.
      destruct (norm_list (norm_sel o) st1 r) as [st2 r1] eqn:E2. injection H as <- <-.
      simpl in Hv. apply incl_app_inv in Hv. destruct Hv as [Hv1 Hv2].
      destruct (Hs _ _ _ _ E1 W Hv1) as [W1 [X1 [S1 [B1 D1]]]].
      destruct (IH _ _ _ E2 W1 Hv2) as [W2 [X2 [S2 [B2 D2]]]].
      split; [exact W2|split; [eapply ext_trans; eassumption|split; [eapply sext_trans; eassumption|split]]].
      + intros stF HF'. simpl. f_equal; [apply B1; eapply sext_trans; eassumption|apply B2; exact HF'].
      + intros env' HA. simpl. f_equal; [apply D1; eapply agrees_ext; eassumption|apply D2; exact HA].
  Qed.

  Lemma all_good : forall s, good s.
  Proof.
    apply sel_ind'.
    - (* Field *)
      intros al nm args ds sub HF o st st' s' H W Hv. simpl in H.
      simpl in Hv. apply incl_app_inv in Hv. destruct Hv as [Ha Hv]. apply incl_app_inv in Hv. destruct Hv as [Hd Hsub].
      destruct (field_def o nm) as [ft|] eqn:FD.
      + destruct (norm_args st o nm args) as [st1 args'] eqn:E1.
        destruct (norm_args_ok _ _ _ _ _ _ E1 W Ha) as [W1 [X1 [S1 [B1 D1]]]].
        destruct ft as [o'|].
        * destruct (norm_list (norm_sel o') st1 sub) as [st2 sub'] eqn:E2. injection H as <- <-.
          destruct (norm_list_ok o' sub HF _ _ _ E2 W1 Hsub) as [W2 [X2 [S2 [B2 D2]]]].
          split; [exact W2|split; [eapply ext_trans; eassumption|split; [eapply sext_trans; eassumption|split]]].
          -- intros stF HF'. simpl. rewrite FD. f_equal; [apply B1; eapply sext_trans; eassumption|apply B2; exact HF'].
          -- intros env' HA. simpl. rewrite FD.
             rewrite (unchanged_dirs env' st2 ds HA Hd).
             fold (dargs env' o nm args'). fold (dargs env o nm args).
             rewrite (D1 env' (agrees_ext _ _ _ X2 HA)). rewrite (D2 env' HA). reflexivity.
        * injection H as <- <-. split; [exact W1|split; [exact X1|split; [exact S1|split]]].
          -- intros stF HF'. simpl. rewrite FD. f_equal. apply B1. exact HF'.
          -- intros env' HA. simpl. rewrite FD.
             rewrite (unchanged_dirs env' st1 ds HA Hd).
             fold (dargs env' o nm args'). fold (dargs env o nm args). rewrite (D1 env' HA).
             f_equal. apply map_ext_in. intros s Hs. eapply unchanged_opaque; [exact HA|].
             intros x Hx. apply Hsub. apply in_flat_map. exists s. split; assumption.
      + injection H as <- <-. split; [exact W|split; [apply ext_refl|split; [apply sext_refl|split]]].
        * intros stF _. simpl. rewrite FD. reflexivity.
        * intros env' HA. simpl. rewrite FD. eapply unchanged_opaque; [exact HA|].
          simpl. apply incl_app; [exact Ha|apply incl_app; assumption].
    - (* Inline *)
      intros tc ds sub HF o st st' s' H W Hv. simpl in H.
      simpl in Hv. apply incl_app_inv in Hv. destruct Hv as [Hd Hsub].
      destruct (norm_list (norm_sel (cond_type tc_obj o tc)) st sub) as [st1 sub'] eqn:E1. injection H as <- <-.
      destruct (norm_list_ok _ sub HF _ _ _ E1 W Hsub) as [W1 [X1 [S1 [B1 D1]]]].
      split; [exact W1|split; [exact X1|split; [exact S1|split]]].
      + intros stF HF'. simpl. f_equal. apply B1. exact HF'.
      + intros env' HA. simpl. rewrite (unchanged_dirs env' st1 ds HA Hd). rewrite (D1 env' HA). reflexivity.
    - (* Spread *)
      intros f ds o st st' s' H W Hv. simpl in H. injection H as <- <-.
      split; [exact W|split; [apply ext_refl|split; [apply sext_refl|split]]].
      + intros stF _. reflexivity.
      + intros env' HA. simpl. simpl in Hv. rewrite (unchanged_dirs env' st ds HA Hv). reflexivity.
  Qed.

  (* ---- the executor's variable values for the normalised operation ---- *)

  Lemma wf_init : wf n_init.
  Proof. split; [|split; [|split]]; simpl; intros; contradiction. Qed.

  Lemma extend_agrees : forall st, wf st -> agrees (extend var_coerce env (n_synth st)) st.
  Proof.
    intros st [W1 [_ [W3 _]]]. split.
    - intros x t c Hin. unfold extend.
      destruct (find (fun e => fst e =? x) (n_synth st)) as [e|] eqn:F.
      + apply find_some in F. destruct F as [Hin' Hx]. apply N.eqb_eq in Hx.
        destruct e as [x' [t' c']]. simpl in *. subst x'.
        destruct (W3 _ _ _ _ _ Hin Hin') as [-> ->]. apply (W1 _ _ _ Hin).
      + pose proof (find_none _ _ F _ Hin) as Hn. simpl in Hn. rewrite N.eqb_refl in Hn. discriminate Hn.
    - intros y Hy. unfold extend.
      destruct (find (fun e => fst e =? y) (n_synth st)) as [e|] eqn:F; [|reflexivity].
      apply find_some in F. destruct F as [Hin' Hx]. apply N.eqb_eq in Hx.
      destruct e as [x' [t' c']]. simpl in *. subst x'.
      destruct (W1 _ _ _ Hin') as [_ [Hn _]]. contradiction.
  Qed.

  Lemma agrees_init : forall env', (forall y, In y taken -> env' y = env y) -> agrees env' n_init.
  Proof. intros env' H. split; [|exact H]. simpl. intros; contradiction. Qed.

  Lemma denote_agree : forall (s : sel) o env', (forall y, In y taken -> env' y = env y) ->
    incl (sel_vars s) taken -> denote env' o s = denote env o s.
  Proof.
    intros s. pattern s. apply sel_ind'; clear s.
    - intros al nm args ds sub HF o env' HE Hv. pose proof (agrees_init env' HE) as HA.
      simpl in Hv. apply incl_app_inv in Hv. destruct Hv as [Ha Hv]. apply incl_app_inv in Hv. destruct Hv as [Hd Hsub].
      simpl. destruct (field_def o nm) as [ft|] eqn:FD.
      + rewrite (unchanged_dirs env' n_init ds HA Hd). f_equal.
        * apply map_ext_in. intros a Hin. f_equal. eapply unchanged_arg; [exact HA|].
          intros x Hx. apply Ha. unfold args_vars. apply in_flat_map. exists a. split; assumption.
        * destruct ft as [o'|].
          -- apply map_ext_in. intros s Hs. rewrite Forall_forall in HF. apply (HF s Hs); [exact HE|].
             intros x Hx. apply Hsub. apply in_flat_map. exists s. split; assumption.
          -- apply map_ext_in. intros s Hs. eapply unchanged_opaque; [exact HA|].
             intros x Hx. apply Hsub. apply in_flat_map. exists s. split; assumption.
      + eapply unchanged_opaque; [exact HA|]. simpl. apply incl_app; [exact Ha|apply incl_app; assumption].
    - intros tc ds sub HF o env' HE Hv. pose proof (agrees_init env' HE) as HA.
      simpl in Hv. apply incl_app_inv in Hv. destruct Hv as [Hd Hsub].
      simpl. rewrite (unchanged_dirs env' n_init ds HA Hd). f_equal.
      apply map_ext_in. intros s Hs. rewrite Forall_forall in HF. apply (HF s Hs); [exact HE|].
      intros x Hx. apply Hsub. apply in_flat_map. exists s. split; assumption.
    - intros f ds o env' HE Hv. pose proof (agrees_init env' HE) as HA. simpl in Hv.
      simpl. rewrite (unchanged_dirs env' n_init ds HA Hv). reflexivity.
  Qed.

  (* sub_sel with nothing shared is the identity *)
  Lemma sub_value_init : forall t (v : value), sub_value n_init t v = v.
  Proof. intros. unfold Normalize.sub_value. destruct (extract_value t v); reflexivity. Qed.

  Lemma sub_sel_init : forall (s : sel) o, sub_sel n_init o s = s.
  Proof.
    intros s. pattern s. apply sel_ind'; clear s.
    - intros al nm args ds sub HF o. simpl. destruct (field_def o nm) as [[o'|]|]; [| |reflexivity].
      + f_equal.
        * unfold Normalize.sub_args. rewrite <- (map_id args) at 2. apply map_ext. intros [a v]. simpl.
          destruct (arg_ty o nm a); [rewrite sub_value_init|]; reflexivity.
        * rewrite <- (map_id sub) at 2. apply map_ext_in. intros x Hx. rewrite Forall_forall in HF. apply HF. exact Hx.
      + f_equal. unfold Normalize.sub_args. rewrite <- (map_id args) at 2. apply map_ext. intros [a v]. simpl.
        destruct (arg_ty o nm a); [rewrite sub_value_init|]; reflexivity.
    - intros tc ds sub HF o. simpl. f_equal.
      rewrite <- (map_id sub) at 2. apply map_ext_in. intros x Hx. rewrite Forall_forall in HF. apply HF. exact Hx.
    - reflexivity.
  Qed.

  Lemma normalize_ok : forall root (sels : list sel) st sels',
    normalize root sels = (st, sels') -> incl (flat_map sel_vars sels) taken ->
    wf st /\ sels' = map (sub_sel st root) sels /\
    forall e, agrees e st -> map (denote e root) sels' = map (denote env root) sels.
  Proof.
    intros root sels st sels' H Hv. unfold Normalize.normalize in H.
    destruct (existsb spreads sels).
    - injection H as <- <-. split; [apply wf_init|split].
      + rewrite <- (map_id sels) at 1. apply map_ext. intro s. symmetry. apply sub_sel_init.
      + intros e [_ HE]. apply map_ext_in. intros s Hs. apply denote_agree; [exact HE|].
        intros x Hx. apply Hv. apply in_flat_map. exists s. split; assumption.
    - assert (HF : Forall good sels) by (apply Forall_forall; intros s _; apply all_good).
      destruct (norm_list_ok root sels HF _ _ _ H wf_init Hv) as [W [_ [_ [B D]]]].
      split; [exact W|split; [apply B; apply sext_refl|exact D]].
  Qed.

  Lemma normalize_transparent : forall root (sels : list sel) st sels',
    normalize root sels = (st, sels') -> incl (flat_map sel_vars sels) taken ->
    let env' := extend var_coerce env (n_synth st) in
    map (denote env' root) sels' = map (denote env root) sels /\
    (forall y, In y taken -> env' y = env y) /\
    (forall x t c, In (x, (t, c)) (n_synth st) -> ~ In x taken /\ var_coerce t c = Some c /\ env' x = Some c).
  Proof.
    intros root sels st sels' H Hv env'.
    destruct (normalize_ok root sels st sels' H Hv) as [W [_ D]].
    pose proof (extend_agrees st W) as HA. fold env' in HA.
    split; [apply D; exact HA|]. destruct HA as [HA1 HA2]. split; [exact HA2|].
    intros x t c Hin. destruct W as [W1 _]. destruct (W1 _ _ _ Hin) as [A [B _]].
    split; [exact B|split; [exact A|apply (HA1 _ _ _ Hin)]].
  Qed.

  (* ---- validation verdicts ---- *)

  (* sameArguments (overlapping fields): two values at positions of one type are
     rewritten to equal values exactly when they were equal *)
  Lemma sub_value_inj : forall st t (v1 v2 : value), wf st ->
    incl (value_vars v1) taken -> incl (value_vars v2) taken ->
    sub_value st t v1 = sub_value st t v2 -> v1 = v2.
  Proof.
    intros st t v1 v2 [W1 [W2 [_ W4]]] H1 H2 E. unfold Normalize.sub_value in E.
    assert (Fresh : forall v x, find_shared t v (n_shared st) = Some x -> ~ In x taken).
    { intros v x F. apply find_shared_spec in F. destruct (W2 _ _ _ F) as [c [_ Hin]]. apply (W1 _ _ _ Hin). }
    destruct (extract_value t v1) as [c1|]; destruct (extract_value t v2) as [c2|].
    - destruct (find_shared t v1 (n_shared st)) as [x1|] eqn:F1; destruct (find_shared t v2 (n_shared st)) as [x2|] eqn:F2.
      + injection E as <-. apply find_shared_spec in F1. apply find_shared_spec in F2.
        destruct (W4 _ _ _ _ _ F1 F2) as [_ Hv]. exact Hv.
      + exfalso. apply (Fresh _ _ F1). apply H2. rewrite <- E. left. reflexivity.
      + exfalso. apply (Fresh _ _ F2). apply H1. rewrite E. left. reflexivity.
      + exact E.
    - destruct (find_shared t v1 (n_shared st)) as [x1|] eqn:F1; [|exact E].
      exfalso. apply (Fresh _ _ F1). apply H2. rewrite <- E. left. reflexivity.
    - destruct (find_shared t v2 (n_shared st)) as [x2|] eqn:F2; [|exact E].
      exfalso. apply (Fresh _ _ F2). apply H1. rewrite E. left. reflexivity.
    - exact E.
  Qed.

  (* every rewritten position carries a synthetic variable declared with the
     type of that position, bound to the coerced value of the literal that
     stood there, which was a valid literal for the position *)
  Lemma sub_value_changed : forall st t (v : value), wf st -> sub_value st t v <> v ->
    exists x c, sub_value st t v = VVar x /\ In (x, (t, c)) (n_synth st) /\
                extract_value t v = Some c /\ lit_valid t v = true /\ var_coerce t c = Some c /\ ~ In x taken.
  Proof.
    intros st t v [W1 [W2 _]] Hne. unfold Normalize.sub_value in *.
    destruct (extract_value t v) as [c|] eqn:EV; [|congruence].
    destruct (find_shared t v (n_shared st)) as [x|] eqn:F; [|congruence].
    apply find_shared_spec in F. destruct (W2 _ _ _ F) as [c0 [E0 Hin]]. rewrite EV in E0. injection E0 as <-.
    destruct (extract_value_closed _ _ _ EV) as [_ [LV [_ VC]]].
    exists x, c. repeat split; try assumption. apply (W1 _ _ _ Hin).
  Qed.

  (* the synthetic definitions: pairwise distinct names, none used by the document *)
  Lemma synth_defs_unique : forall st, wf st ->
    (forall x t1 c1 t2 c2, In (x, (t1, c1)) (n_synth st) -> In (x, (t2, c2)) (n_synth st) -> t1 = t2 /\ c1 = c2) /\
    (forall x t c, In (x, (t, c)) (n_synth st) -> ~ In x taken).
  Proof. intros st [W1 [_ [W3 _]]]. split; [exact W3|]. intros x t c Hin. apply (W1 _ _ _ Hin). Qed.
End NormProofs.
