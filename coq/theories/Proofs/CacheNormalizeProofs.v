(* Proofs about the reduced model of literal normalisation (Cache/Normalize.v). *)
From Coq Require Import List NArith Bool Lia.
From GQL Require Import Cache.Normalize.
Import ListNotations.
Open Scope N_scope.

Section NormProofs.
  Context {L cval mixed deco : Type}.
  Variable L_eqb : L -> L -> bool.
  Variable cval_eqb : cval -> cval -> bool.
  Variable mixed_vars : mixed -> list name.
  Variable deco_vars : deco -> list name.
  Variable synth_name : N -> name.
  Variable field_def : otype -> name -> option (option otype).
  Variable arg_ty : otype -> name -> name -> option ty.
  Variable tc_obj : name -> option otype.
  Variable lit_coerce : ty -> L -> option cval.
  Variable var_coerce : ty -> cval -> option cval.
  Variable taken : list name.
  Variable fuel : nat.
  Variable env : name -> option cval.

  Hypothesis L_eqb_eq : forall a b, L_eqb a b = true -> a = b.
  Hypothesis cval_eqb_eq : forall a b, cval_eqb a b = true -> a = b.
  Hypothesis synth_name_inj : forall a b, synth_name a = synth_name b -> a = b.

  Notation value := (@value L mixed).
  Notation sel := (@sel L mixed deco).
  Notation nst := (@nst L cval).
  Notation try_extract := (try_extract L_eqb cval_eqb synth_name lit_coerce var_coerce taken fuel).
  Notation norm_args := (norm_args L_eqb cval_eqb synth_name arg_ty lit_coerce var_coerce taken fuel).
  Notation norm_sel := (norm_sel L_eqb cval_eqb synth_name field_def arg_ty tc_obj lit_coerce var_coerce taken fuel).
  Notation normalize := (normalize L_eqb cval_eqb synth_name field_def arg_ty tc_obj lit_coerce var_coerce taken fuel).
  Notation denote := (denote mixed_vars deco_vars field_def arg_ty tc_obj lit_coerce).
  Notation denote_arg := (denote_arg mixed_vars lit_coerce).
  Notation opaque := (opaque mixed_vars deco_vars).
  Notation sel_vars := (sel_vars mixed_vars deco_vars).
  Notation value_vars := (value_vars mixed_vars).

  (* induction on selections with the sub-selections covered *)
  Fixpoint sel_ind' (P : sel -> Prop)
           (HF : forall d nm args sub, Forall P sub -> P (Field d nm args sub))
           (HI : forall d tc sub, Forall P sub -> P (Inline d tc sub))
           (HS : forall d f, P (Spread d f)) (s : sel) {struct s} : P s :=
    match s with
    | Field d nm args sub =>
      HF d nm args sub ((fix go (l : list sel) : Forall P l :=
                           match l with [] => Forall_nil P | x :: r => Forall_cons x (sel_ind' P HF HI HS x) (go r) end) sub)
    | Inline d tc sub =>
      HI d tc sub ((fix go (l : list sel) : Forall P l :=
                      match l with [] => Forall_nil P | x :: r => Forall_cons x (sel_ind' P HF HI HS x) (go r) end) sub)
    | Spread d f => HS d f
    end.

  (* ---- states ---- *)

  Definition ext (a b : nst) : Prop := incl (n_synth a) (n_synth b).

  Definition wf (st : nst) : Prop :=
    (forall x t c, In (x, (t, c)) (n_synth st) ->
                   var_coerce t c = Some c /\ ~ In x taken /\ exists k, k < n_counter st /\ x = synth_name k) /\
    (forall t l x, In (t, l, x) (n_shared st) -> exists c, lit_coerce t l = Some c /\ In (x, (t, c)) (n_synth st)) /\
    (forall x t1 c1 t2 c2, In (x, (t1, c1)) (n_synth st) -> In (x, (t2, c2)) (n_synth st) -> t1 = t2 /\ c1 = c2).

  (* env' gives every synthetic variable its extracted value and leaves the
     variables of the document alone *)
  Definition agrees (env' : name -> option cval) (st : nst) : Prop :=
    (forall x t c, In (x, (t, c)) (n_synth st) -> env' x = Some c) /\
    (forall y, In y taken -> env' y = env y).

  Lemma ext_refl : forall a, ext a a.
  Proof. intro a. apply incl_refl. Qed.

  Lemma ext_trans : forall a b c, ext a b -> ext b c -> ext a c.
  Proof. intros a b c. apply incl_tran. Qed.

  Lemma agrees_ext : forall env' a b, ext a b -> agrees env' b -> agrees env' a.
  Proof. intros env' a b E [H1 H2]. split; [|exact H2]. intros x t c Hin. apply (H1 x t c). apply E. exact Hin. Qed.

  Lemma restrict_agree : forall (e1 e2 : name -> option cval) xs,
    (forall x, In x xs -> e1 x = e2 x) -> restrict e1 xs = restrict e2 xs.
  Proof.
    intros e1 e2 xs H. unfold restrict. apply map_ext_in. intros x Hx. rewrite (H x Hx). reflexivity.
  Qed.

  Lemma mem_true : forall x l, mem x l = true <-> In x l.
  Proof.
    intros x l. unfold mem. rewrite existsb_exists. split.
    - intros [y [Hy E]]. apply N.eqb_eq in E. subst. exact Hy.
    - intro H. exists x. split; [exact H|apply N.eqb_refl].
  Qed.

  Lemma next_name_spec : forall f k x k', next_name synth_name taken f k = Some (x, k') ->
    ~ In x taken /\ exists j, k <= j /\ j < k' /\ x = synth_name j.
  Proof.
    induction f as [|f IH]; intros k x k' H; simpl in H; [discriminate|].
    destruct (mem (synth_name k) taken) eqn:M.
    - destruct (IH _ _ _ H) as [H1 [j [Ha [Hb Hc]]]]. split; [exact H1|]. exists j. repeat split; try assumption. lia.
    - injection H as Hx Hk. subst. split.
      + intro Hin. apply mem_true in Hin. congruence.
      + exists k. repeat split; lia.
  Qed.

  Lemma find_shared_spec : forall t l sh x, find_shared L_eqb t l sh = Some x -> In (t, l, x) sh.
  Proof.
    intros t l sh x H. unfold find_shared in H.
    destruct (find (fun e => (fst (fst e) =? t) && L_eqb (snd (fst e)) l) sh) as [e|] eqn:F; [|discriminate].
    injection H as H. apply find_some in F. destruct F as [Hin Hb].
    apply andb_true_iff in Hb. destruct Hb as [Hb1 Hb2]. apply N.eqb_eq in Hb1. apply L_eqb_eq in Hb2.
    destruct e as [[t' l'] x']. simpl in *. subst. exact Hin.
  Qed.

  (* ---- one argument ---- *)

  Lemma unchanged_arg : forall env' st ot (v : value),
    agrees env' st -> incl (value_vars v) taken -> denote_arg env' ot v = denote_arg env ot v.
  Proof.
    intros env' st ot v [_ HA] Hv. unfold Normalize.denote_arg.
    assert (R : restrict env' (value_vars v) = restrict env (value_vars v)).
    { apply restrict_agree. intros x Hx. apply HA. apply Hv. exact Hx. }
    destruct ot as [t|]; destruct v as [x|l|m]; try (rewrite R; reflexivity); try reflexivity.
    rewrite HA; [reflexivity|]. apply Hv. simpl. left. reflexivity.
  Qed.

  Lemma try_extract_ok : forall st t (v : value) st' v',
    try_extract st t v = (st', v') -> wf st -> incl (value_vars v) taken ->
    wf st' /\ ext st st' /\
    forall env', agrees env' st' -> denote_arg env' (Some t) v' = denote_arg env (Some t) v.
  Proof.
    intros st t v st' v' H W Hv.
    assert (Same : st' = st -> v' = v -> wf st' /\ ext st st' /\
                   forall env', agrees env' st' -> denote_arg env' (Some t) v' = denote_arg env (Some t) v).
    { intros -> ->. split; [exact W|split; [apply ext_refl|]]. intros env' HA. eapply unchanged_arg; eassumption. }
    unfold Normalize.try_extract in H.
    destruct v as [x|l|m]; try (injection H as <- <-; apply Same; reflexivity).
    destruct (lit_coerce t l) as [c|] eqn:LC; [|injection H as <- <-; apply Same; reflexivity].
    destruct (var_coerce t c) as [c'|] eqn:VC; [|injection H as <- <-; apply Same; reflexivity].
    destruct (cval_eqb c' c) eqn:CE; [|injection H as <- <-; apply Same; reflexivity].
    apply cval_eqb_eq in CE. subst c'.
    destruct (find_shared L_eqb t l (n_shared st)) as [x|] eqn:FS.
    - injection H as <- <-. split; [exact W|split; [apply ext_refl|]].
      intros env' [HA _]. apply find_shared_spec in FS.
      destruct W as [_ [W2 _]]. destruct (W2 _ _ _ FS) as [c0 [E0 Hin]].
      simpl. rewrite (HA _ _ _ Hin). rewrite LC in E0. injection E0 as <-. rewrite LC. reflexivity.
    - destruct (next_name synth_name taken fuel (n_counter st)) as [[x k']|] eqn:NN;
        [|injection H as <- <-; apply Same; reflexivity].
      injection H as <- <-. destruct (next_name_spec _ _ _ _ NN) as [Hfresh [j [Hj1 [Hj2 Hj3]]]].
      destruct W as [W1 [W2 W3]].
      assert (Hnew : forall t0 c0, In (x, (t0, c0)) (n_synth st) -> False).
      { intros t0 c0 Hin. destruct (W1 _ _ _ Hin) as [_ [_ [k0 [Hk0 Ex]]]].
        rewrite Hj3 in Ex. apply synth_name_inj in Ex. lia. }
      split; [|split].
      + split; [|split]; simpl.
        * intros y t0 c0 Hin. apply in_app_or in Hin. destruct Hin as [Hin|[Hin|[]]].
          -- destruct (W1 _ _ _ Hin) as [A [B [k0 [C D]]]]. split; [exact A|split; [exact B|]]. exists k0. split; [lia|exact D].
          -- injection Hin as <- <- <-. split; [exact VC|split; [exact Hfresh|]]. exists j. split; [exact Hj2|exact Hj3].
        * intros t0 l0 y [Hin|Hin].
          -- injection Hin as <- <- <-. exists c. split; [exact LC|]. apply in_or_app. right. left. reflexivity.
          -- destruct (W2 _ _ _ Hin) as [c0 [A B]]. exists c0. split; [exact A|]. apply in_or_app. left. exact B.
        * intros y t1 c1 t2 c2 H1 H2. apply in_app_or in H1. apply in_app_or in H2.
          destruct H1 as [H1|[H1|[]]]; destruct H2 as [H2|[H2|[]]].
          -- apply (W3 y); assumption.
          -- injection H2 as <- <- <-. exfalso. eapply Hnew. exact H1.
          -- injection H1 as <- <- <-. exfalso. eapply Hnew. exact H2.
          -- injection H1 as <- <- <-. injection H2 as <- <-. split; reflexivity.
      + unfold ext. simpl. apply incl_appl. apply incl_refl.
      + intros env' [HA _]. simpl. rewrite LC.
        rewrite (HA x t c); [reflexivity|]. simpl. apply in_or_app. right. left. reflexivity.
  Qed.

  (* ---- argument lists ---- *)

  Definition dargs (e : name -> option cval) (o : otype) (nm : name) (args : list (name * value)) :=
    map (fun a => (fst a, denote_arg e (arg_ty o nm (fst a)) (snd a))) args.

  Lemma norm_args_ok : forall o nm (args : list (name * value)) st st' args',
    norm_args st o nm args = (st', args') -> wf st ->
    incl (flat_map (fun a => value_vars (snd a)) args) taken ->
    wf st' /\ ext st st' /\
    forall env', agrees env' st' -> dargs env' o nm args' = dargs env o nm args.
  Proof.
    intros o nm. induction args as [|[a v] r IH]; intros st st' args' H W Hv; simpl in H.
    - injection H as <- <-. split; [exact W|split; [apply ext_refl|reflexivity]].
    - destruct (match arg_ty o nm a with Some t => try_extract st t v | None => (st, v) end) as [st1 v1] eqn:E1.
      destruct (norm_args st1 o nm r) as [st2 r'] eqn:E2. injection H as <- <-.
      simpl in Hv. apply incl_app_inv in Hv. destruct Hv as [Hv1 Hv2].
      assert (Step : wf st1 /\ ext st st1 /\
                     forall env', agrees env' st1 -> denote_arg env' (arg_ty o nm a) v1 = denote_arg env (arg_ty o nm a) v).
      { destruct (arg_ty o nm a) as [t|].
        - eapply try_extract_ok; eassumption.
        - injection E1 as <- <-. split; [exact W|split; [apply ext_refl|]].
          intros env' HA. eapply unchanged_arg; eassumption. }
      destruct Step as [W1 [X1 D1]]. destruct (IH _ _ _ E2 W1 Hv2) as [W2 [X2 D2]].
      split; [exact W2|split; [eapply ext_trans; eassumption|]].
      intros env' HA. unfold dargs. simpl. f_equal.
      + f_equal. apply D1. eapply agrees_ext; eassumption.
      + apply D2. exact HA.
  Qed.

  (* ---- selections ---- *)

  Lemma unchanged_opaque : forall env' st (s : sel), agrees env' st -> incl (sel_vars s) taken -> opaque env' s = opaque env s.
  Proof.
    intros env' st s [_ HA] Hs. unfold Normalize.opaque. f_equal. apply restrict_agree.
    intros x Hx. apply HA. apply Hs. exact Hx.
  Qed.

  Definition good (s : sel) : Prop :=
    forall o st st' s', norm_sel o st s = (st', s') -> wf st -> incl (sel_vars s) taken ->
      wf st' /\ ext st st' /\ forall env', agrees env' st' -> denote env' o s' = denote env o s.

  Lemma norm_list_ok : forall o (l : list sel), Forall good l ->
    forall st st' l', norm_list (norm_sel o) st l = (st', l') -> wf st -> incl (flat_map sel_vars l) taken ->
      wf st' /\ ext st st' /\ forall env', agrees env' st' -> map (denote env' o) l' = map (denote env o) l.
  Proof.
    intros o l HF. induction HF as [|s r Hs _ IH]; intros st st' l' H W Hv; simpl in H.
    - injection H as <- <-. split; [exact W|split; [apply ext_refl|reflexivity]].
    - destruct (norm_sel o st s) as [st1 s1] eqn:E1.
      destruct (norm_list (norm_sel o) st1 r) as [st2 r1] eqn:E2. injection H as <- <-.
      simpl in Hv. apply incl_app_inv in Hv. destruct Hv as [Hv1 Hv2].
      destruct (Hs _ _ _ _ E1 W Hv1) as [W1 [X1 D1]]. destruct (IH _ _ _ E2 W1 Hv2) as [W2 [X2 D2]].
      split; [exact W2|split; [eapply ext_trans; eassumption|]].
      intros env' HA. simpl. f_equal; [apply D1; eapply agrees_ext; eassumption|apply D2; exact HA].
  Qed.

  Lemma deco_restrict : forall env' st (d : deco), agrees env' st -> incl (deco_vars d) taken ->
    restrict env' (deco_vars d) = restrict env (deco_vars d).
  Proof. intros env' st d [_ HA] Hd. apply restrict_agree. intros x Hx. apply HA. apply Hd. exact Hx. Qed.

  Lemma all_good : forall s, good s.
  Proof.
    apply sel_ind'.
    - (* Field *)
      intros d nm args sub HF o st st' s' H W Hv. simpl in H.
      simpl in Hv. apply incl_app_inv in Hv. destruct Hv as [Hd Hv]. apply incl_app_inv in Hv. destruct Hv as [Ha Hsub].
      destruct (field_def o nm) as [ft|] eqn:FD.
      + destruct (norm_args st o nm args) as [st1 args'] eqn:E1.
        destruct (norm_args_ok _ _ _ _ _ _ E1 W Ha) as [W1 [X1 D1]].
        destruct ft as [o'|].
        * destruct (norm_list (norm_sel o') st1 sub) as [st2 sub'] eqn:E2. injection H as <- <-.
          destruct (norm_list_ok o' sub HF _ _ _ E2 W1 Hsub) as [W2 [X2 D2]].
          split; [exact W2|split; [eapply ext_trans; eassumption|]].
          intros env' HA. simpl. rewrite FD.
          rewrite (deco_restrict env' st2 d HA Hd).
          fold (dargs env' o nm args'). fold (dargs env o nm args).
          rewrite (D1 env' (agrees_ext _ _ _ X2 HA)). rewrite (D2 env' HA). reflexivity.
        * injection H as <- <-. split; [exact W1|split; [exact X1|]].
          intros env' HA. simpl. rewrite FD.
          rewrite (deco_restrict env' st1 d HA Hd).
          fold (dargs env' o nm args'). fold (dargs env o nm args). rewrite (D1 env' HA).
          f_equal. apply map_ext_in. intros s Hs. eapply unchanged_opaque; [exact HA|].
          intros x Hx. apply Hsub. apply in_flat_map. exists s. split; assumption.
      + injection H as <- <-. split; [exact W|split; [apply ext_refl|]].
        intros env' HA. simpl. rewrite FD. eapply unchanged_opaque; [exact HA|].
        simpl. apply incl_app; [exact Hd|apply incl_app; assumption].
    - (* Inline *)
      intros d tc sub HF o st st' s' H W Hv. simpl in H.
      simpl in Hv. apply incl_app_inv in Hv. destruct Hv as [Hd Hsub].
      set (o' := match tc with Some n => match tc_obj n with Some x => x | None => o end | None => o end) in *.
      destruct (norm_list (norm_sel o') st sub) as [st1 sub'] eqn:E1. injection H as <- <-.
      destruct (norm_list_ok o' sub HF _ _ _ E1 W Hsub) as [W1 [X1 D1]].
      split; [exact W1|split; [exact X1|]].
      intros env' HA. simpl. fold o'. rewrite (deco_restrict env' st1 d HA Hd). rewrite (D1 env' HA). reflexivity.
    - (* Spread *)
      intros d f o st st' s' H W Hv. simpl in H. injection H as <- <-.
      split; [exact W|split; [apply ext_refl|]].
      intros env' HA. simpl. simpl in Hv. rewrite (deco_restrict env' st d HA Hv). reflexivity.
  Qed.

  (* ---- the executor's variable values for the normalised operation ---- *)

  Lemma wf_init : wf n_init.
  Proof. split; [|split]; simpl; intros; contradiction. Qed.

  Lemma extend_agrees : forall st, wf st -> agrees (extend var_coerce env (n_synth st)) st.
  Proof.
    intros st [W1 [_ W3]]. split.
    - intros x t c Hin. unfold extend.
      destruct (find (fun e => fst e =? x) (n_synth st)) as [e|] eqn:F.
      + apply find_some in F. destruct F as [Hin' Hx]. apply N.eqb_eq in Hx.
        destruct e as [x' [t' c']]. simpl in *. subst x'.
        destruct (W3 _ _ _ _ _ Hin Hin') as [-> ->]. apply (W1 _ _ _ Hin).
      + pose proof (find_none _ _ F _ Hin) as Hn. simpl in Hn. rewrite N.eqb_refl in Hn. discriminate Hn.
    - intros y Hy. unfold extend.
      destruct (find (fun e => fst e =? y) (n_synth st)) as [e|] eqn:F; [|reflexivity].
      apply find_some in F. destruct F as [Hin' Hx]. apply N.eqb_eq in Hx.
      destruct e as [x' [t' c']]. simpl in *. subst x'.
      destruct (W1 _ _ _ Hin') as [_ [Hn _]]. contradiction.
  Qed.

  Lemma agrees_init : forall env', (forall y, In y taken -> env' y = env y) -> agrees env' n_init.
  Proof. intros env' H. split; [|exact H]. simpl. intros; contradiction. Qed.

  Lemma denote_agree : forall (s : sel) o env', (forall y, In y taken -> env' y = env y) ->
    incl (sel_vars s) taken -> denote env' o s = denote env o s.
  Proof.
    intros s. pattern s. apply sel_ind'; clear s.
    - intros d nm args sub HF o env' HE Hv. pose proof (agrees_init env' HE) as HA.
      simpl in Hv. apply incl_app_inv in Hv. destruct Hv as [Hd Hv]. apply incl_app_inv in Hv. destruct Hv as [Ha Hsub].
      simpl. destruct (field_def o nm) as [ft|] eqn:FD.
      + rewrite (deco_restrict env' n_init d HA Hd). f_equal.
        * apply map_ext_in. intros a Hin. f_equal. eapply unchanged_arg; [exact HA|].
          intros x Hx. apply Ha. apply in_flat_map. exists a. split; assumption.
        * destruct ft as [o'|].
          -- apply map_ext_in. intros s Hs. rewrite Forall_forall in HF. apply (HF s Hs); [exact HE|].
             intros x Hx. apply Hsub. apply in_flat_map. exists s. split; assumption.
          -- apply map_ext_in. intros s Hs. eapply unchanged_opaque; [exact HA|].
             intros x Hx. apply Hsub. apply in_flat_map. exists s. split; assumption.
      + eapply unchanged_opaque; [exact HA|]. simpl. apply incl_app; [exact Hd|apply incl_app; assumption].
    - intros d tc sub HF o env' HE Hv. pose proof (agrees_init env' HE) as HA.
      simpl in Hv. apply incl_app_inv in Hv. destruct Hv as [Hd Hsub].
      simpl. rewrite (deco_restrict env' n_init d HA Hd). f_equal.
      apply map_ext_in. intros s Hs. rewrite Forall_forall in HF. apply (HF s Hs); [exact HE|].
      intros x Hx. apply Hsub. apply in_flat_map. exists s. split; assumption.
    - intros d f o env' HE Hv. pose proof (agrees_init env' HE) as HA. simpl in Hv.
      simpl. rewrite (deco_restrict env' n_init d HA Hv). reflexivity.
  Qed.

  Lemma normalize_transparent : forall root (sels : list sel) st sels',
    normalize root sels = (st, sels') -> incl (flat_map sel_vars sels) taken ->
    let env' := extend var_coerce env (n_synth st) in
    map (denote env' root) sels' = map (denote env root) sels /\
    (forall y, In y taken -> env' y = env y) /\
    (forall x t c, In (x, (t, c)) (n_synth st) -> ~ In x taken /\ var_coerce t c = Some c /\ env' x = Some c).
  Proof.
    intros root sels st sels' H Hv env'. unfold Normalize.normalize in H.
    assert (G : wf st /\ forall e, agrees e st -> map (denote e root) sels' = map (denote env root) sels).
    { destruct (existsb spreads sels).
      - injection H as <- <-. split; [apply wf_init|]. intros e [_ HE].
        apply map_ext_in. intros s Hs. apply denote_agree; [exact HE|].
        intros x Hx. apply Hv. apply in_flat_map. exists s. split; assumption.
      - assert (HF : Forall good sels) by (apply Forall_forall; intros s _; apply all_good).
        destruct (norm_list_ok root sels HF _ _ _ H wf_init Hv) as [W [_ D]]. split; [exact W|exact D]. }
    destruct G as [W D]. pose proof (extend_agrees st W) as HA. fold env' in HA.
    split; [apply D; exact HA|]. destruct HA as [HA1 HA2]. split; [exact HA2|].
    intros x t c Hin. destruct W as [W1 _]. destruct (W1 _ _ _ Hin) as [A [B _]].
    split; [exact B|split; [exact A|apply (HA1 _ _ _ Hin)]].
  Qed.
End NormProofs.
