(* C11_append_commutes: the type map is exactly what the roots reach, so
   appending types afterwards gives the schema that supplying them up front gives. *)
From Coq Require Import List NArith Bool Lia.
From GQL Require Import Base.Bytes Types.Schema Types.Consistent Proofs.TypesReduce Proofs.TypesNames
  Proofs.TypesClosed Proofs.TypesView Proofs.TypesImpl Proofs.TypesMain Proofs.TypesPossible Proofs.TypesConsistent.
Import ListNotations.
Open Scope N_scope.

Definition step (defs : list (N * tdef)) (x y : N) : Prop :=
  exists t, In t (out_refs defs x) /\ target_of defs t = TgtTo y.

Inductive reach (defs : list (N * tdef)) : N -> N -> Prop :=
| reach_refl x : reach defs x x
| reach_more x y z : step defs x y -> reach defs y z -> reach defs x z.

Section New.
  Variable defs : list (N * tdef).

  (* one level of the reducer: either the type was there, or it is entered and its references are folded *)
  Lemma visit_unfold f tm id tm' : visit defs (Datatypes.S f) tm id = OK tm' ->
    (tm' = tm /\ In id (ids tm)) \/
    (exists n, fold_res (go defs f) (out_refs defs id) ((n, id) :: tm) = OK tm').
  Proof.
    intros H. simpl in H.
    destruct (find_def defs id) as [d|] eqn:Ed; try discriminate.
    destruct (ctor_err d) eqn:Ec; try discriminate.
    destruct (tm_find (def_name d) tm) as [id'|] eqn:Et.
    - destruct (id' =? id) eqn:Ei; try discriminate. inversion H; subst.
      apply N.eqb_eq in Ei. subst id'. left. split; auto.
      apply tm_find_some in Et. exact (entry_in_ids _ _ id Et).
    - right. fold (go defs f) in H.
      destruct d as [n ser pv pl|n ifs fs ito|n fs rt|n ms rt|n vs|n fs]; simpl in H; exists n.
      + inversion H; subst. unfold out_refs. rewrite Ed. reflexivity.
      + destruct (define_interfaces defs ifs) as [is|] eqn:Ei; try discriminate.
        destruct (fold_res (go defs f) (map TNamed is) ((n, id) :: tm)) as [tm2| |] eqn:E2; try discriminate.
        destruct (define_field_map defs fs) as [vfs|] eqn:Ef; try discriminate.
        unfold out_refs, interfaces_of, fields_of. rewrite Ed, Ei, Ef. rewrite fold_res_app, E2. exact H.
      + destruct (define_field_map defs fs) as [vfs|] eqn:Ef; try discriminate.
        unfold out_refs, fields_of. rewrite Ed, Ef. exact H.
      + destruct (define_union_types defs ms rt) as [is|] eqn:Em; try discriminate.
        unfold out_refs, members_of. rewrite Ed, Em. exact H.
      + inversion H; subst. unfold out_refs. rewrite Ed. reflexivity.
      + destruct (define_input_field_map defs fs) as [l|] eqn:Ef; try discriminate.
        unfold out_refs. rewrite Ed, Ef. exact H.
  Qed.

  Lemma fold_new (f : nat)
    (IH : forall tm id tm', visit defs f tm id = OK tm' -> forall y, In y (ids tm') -> In y (ids tm) \/ reach defs id y) :
    forall l tm tm', fold_res (go defs f) l tm = OK tm' ->
      forall y, In y (ids tm') -> In y (ids tm) \/ exists t i, In t l /\ target_of defs t = TgtTo i /\ reach defs i y.
  Proof.
    induction l as [|t r IHl]; intros tm tm' H y Hy; simpl in H.
    - inversion H; subst. left. exact Hy.
    - destruct (go defs f tm t) as [tm1| |] eqn:E; try discriminate.
      destruct (IHl tm1 tm' H y Hy) as [H1|(u & i & Hu & Hi & Hr)].
      + unfold go in E. destruct (target_of defs t) as [| |i] eqn:Et; try discriminate.
        * inversion E; subst. left. exact H1.
        * destruct (IH tm i tm1 E y H1) as [H0|Hr]; [left; exact H0|].
          right. exists t, i. split; [left; reflexivity|]. auto.
      + right. exists u, i. split; [right; exact Hu|]. auto.
  Qed.

  Lemma visit_new : forall fuel tm id tm', visit defs fuel tm id = OK tm' ->
    forall y, In y (ids tm') -> In y (ids tm) \/ reach defs id y.
  Proof.
    induction fuel as [|f IH]; intros tm id tm' H y Hy; [simpl in H; discriminate|].
    destruct (visit_unfold f tm id tm' H) as [[E _]|[n Hf]].
    - subst. left. exact Hy.
    - destruct (fold_new f IH _ _ _ Hf y Hy) as [H0|(t & i & Ht & Hi & Hr)].
      + destruct H0 as [H0|H0]; [simpl in H0; subst y; right; apply reach_refl|left; exact H0].
      + right. apply (reach_more defs id i y); auto. exists t. auto.
  Qed.

  Lemma reach_reachable roots t i : In t roots -> target_of defs (norm t) = TgtTo i ->
    forall y, reach defs i y -> reachable defs roots y.
  Proof.
    intros Ht Hi y Hr. assert (H0 : reachable defs roots i) by (apply (r_root defs roots t i); auto).
    clear Ht Hi. induction Hr as [x|x y z [u [Hu Hx]] Hr IH]; auto.
    apply IH. apply (r_step defs roots x u y); auto.
  Qed.

  Lemma add_type_new fuel tm t tm' : add_type defs fuel tm t = OK tm' ->
    forall y, In y (ids tm') -> In y (ids tm) \/ reachable defs [t] y.
  Proof.
    intros H y Hy. unfold add_type in H.
    assert (Hred : norm t = TNil /\ tm' = tm \/ reduce defs fuel tm (norm t) = OK tm').
    { destruct (norm t) as [|i|u|u] eqn:En.
      - left. inversion H; auto.
      - right. destruct (type_err defs (TNamed i)); try discriminate. exact H.
      - right. destruct (type_err defs (TList u)); try discriminate. exact H.
      - right. destruct (type_err defs (TNonNull u)); try discriminate. exact H. }
    destruct Hred as [[_ E]|Hred]; [subst; left; exact Hy|].
    unfold reduce in Hred. destruct (target_of defs (norm t)) as [| |i] eqn:Et; try discriminate.
    - inversion Hred; subst. left. exact Hy.
    - destruct (visit_new fuel tm i tm' Hred y Hy) as [H0|Hr]; [left; exact H0|].
      right. apply (reach_reachable [t] t i); auto. left. reflexivity.
  Qed.

  Lemma reachable_mono roots roots' y : incl roots roots' -> reachable defs roots y -> reachable defs roots' y.
  Proof.
    intros Hi H. induction H as [t i Ht Hti|x t i Hx IH Ht Hti].
    - apply (r_root defs roots' t i); auto.
    - apply (r_step defs roots' x t i); auto.
  Qed.

  Lemma reachable_app l1 l2 y : reachable defs (l1 ++ l2) y <-> reachable defs l1 y \/ reachable defs l2 y.
  Proof.
    split.
    - intros H. induction H as [t i Ht Hti|x t i Hx IH Ht Hti].
      + apply in_app_or in Ht. destruct Ht as [Ht|Ht]; [left|right]; apply (r_root defs _ t i); auto.
      + destruct IH as [IH|IH]; [left|right]; apply (r_step defs _ x t i); auto.
    - intros [H|H]; [apply (reachable_mono l1 (l1 ++ l2) y); auto; apply incl_appl|apply (reachable_mono l2 (l1 ++ l2) y); auto; apply incl_appr]; apply incl_refl.
  Qed.

  Lemma add_types_new fuel : forall ts tm tm', fold_res (add_type defs fuel) ts tm = OK tm' ->
    forall y, In y (ids tm') -> In y (ids tm) \/ reachable defs ts y.
  Proof.
    induction ts as [|t r IH]; intros tm tm' H y Hy; simpl in H.
    - inversion H; subst. left. exact Hy.
    - destruct (add_type defs fuel tm t) as [tm1| |] eqn:E; try discriminate.
      destruct (IH tm1 tm' H y Hy) as [H1|Hr].
      + destruct (add_type_new fuel tm t tm1 E y H1) as [H0|Hr]; [left; exact H0|].
        right. apply (reachable_mono [t]); auto. intros x [Hx|[]]. subst. left. reflexivity.
      + right. apply (reachable_mono r); auto. apply incl_tl. apply incl_refl.
  Qed.
End New.

(* the type map of a schema from NewSchema is exactly what the initial types reach *)
Lemma new_schema_map fuel c sch : new_schema_fuel fuel c = OK sch ->
  forall y, In y (ids (s_tm sch)) <-> reachable (c_defs c) (initial_types c) y.
Proof.
  intros H y. destruct (new_schema_fuel_tm _ _ _ H) as (Hd & _ & _ & _ & Hf & _).
  destruct (new_schema_fuel_closed _ _ _ H) as [Hc Hroots]. rewrite Hd in *. split.
  - intros Hy. destruct (add_types_new _ _ _ _ _ Hf y Hy) as [[]|Hr]. exact Hr.
  - exact (reachable_in_map _ _ _ Hc Hroots y).
Qed.

Lemma append_types_post fuel : forall ts S S', closed (s_defs S) (s_tm S) -> append_types_fuel fuel S ts = OK S' ->
  closed (s_defs S) (s_tm S')
  /\ incl (ids (s_tm S)) (ids (s_tm S'))
  /\ (forall t, In t ts -> tgt_in (s_defs S) (s_tm S') (norm t))
  /\ (forall y, In y (ids (s_tm S')) -> In y (ids (s_tm S)) \/ reachable (s_defs S) ts y).
Proof.
  induction ts as [|t r IH]; intros S S' Hc H; simpl in H.
  - inversion H; subst. repeat split; auto; [apply incl_refl|intros t []].
  - destruct (append_type_fuel fuel S t) as [S1| |] eqn:E; try discriminate.
    destruct (append_type_fuel_tm _ _ _ _ E) as (E1 & _ & _ & _ & Ha & _).
    destruct (add_type_post _ _ _ _ _ Ha) as [Hp Ht].
    assert (Hc1 : closed (s_defs S1) (s_tm S1)) by (rewrite E1; exact (post_closed _ _ _ Hc Hp)).
    destruct (IH S1 S' Hc1 H) as (Hc' & Hi & Hr & Hn). rewrite E1 in *.
    split; [exact Hc'|]. split; [exact (incl_tran (proj1 Hp) Hi)|]. split.
    + intros u [Hu|Hu]; [subst u; exact (tgt_in_mono _ _ _ _ Hi Ht)|exact (Hr u Hu)].
    + intros y Hy. destruct (Hn y Hy) as [H1|H1].
      * destruct (add_type_new _ _ _ _ _ Ha y H1) as [H0|H0]; [left; exact H0|].
        right. apply (reachable_mono _ [t]); auto. intros x [Hx|[]]. subst. left. reflexivity.
      * right. apply (reachable_mono _ r); auto. apply incl_tl. apply incl_refl.
Qed.

Definition with_types (c : config) (ts : list tref) : config :=
  Cfg (c_defs c) (c_query c) (c_mutation c) (c_subscription c) (c_types c ++ ts) (c_dirs c).

Lemma initial_with_types c ts : initial_types (with_types c ts) = initial_types c ++ ts.
Proof. unfold initial_types, with_types. simpl. rewrite <- !app_assoc. reflexivity. Qed.

(* same schema: same definitions, roots and type map (as a set of entries) *)
Definition same_schema (A B : schema) : Prop :=
  s_defs A = s_defs B /\ s_query A = s_query B /\ s_mutation A = s_mutation B /\ s_subscription A = s_subscription B
  /\ forall e, In e (s_tm A) <-> In e (s_tm B).

Theorem append_commutes f0 f1 f2 c ts sch0 sch1 sch2 :
  new_schema_fuel f0 c = OK sch0 -> append_types_fuel f1 sch0 ts = OK sch1 ->
  new_schema_fuel f2 (with_types c ts) = OK sch2 ->
  same_schema sch1 sch2.
Proof.
  intros H0 H1 H2.
  destruct (new_schema_fuel_tm _ _ _ H0) as (D0 & Q0 & M0 & S0 & _).
  destruct (new_schema_fuel_tm _ _ _ H2) as (D2 & Q2 & M2 & S2 & _).
  destruct (append_types_roots _ _ _ _ H1) as (D1 & Q1 & M1 & S1 & _).
  pose proof (new_schema_invariants _ _ _ H0) as I0.
  pose proof (append_types_invariants _ _ _ _ I0 H1) as (G1 & _ & _).
  pose proof (new_schema_invariants _ _ _ H2) as (G2 & _ & _).
  destruct I0 as (_ & C0 & _).
  destruct (append_types_post _ _ _ _ C0 H1) as (C1 & Hi & Hr & Hn).
  simpl in D2, Q2, M2, S2.
  assert (Hids : forall y, In y (ids (s_tm sch1)) <-> In y (ids (s_tm sch2))).
  { intro y. rewrite (new_schema_map _ _ _ H2 y). simpl. rewrite initial_with_types, reachable_app.
    rewrite <- (new_schema_map _ _ _ H0 y). rewrite D0 in *. split.
    - intros Hy. destruct (Hn y Hy); auto.
    - intros [Hy|Hy]; [exact (Hi y Hy)|]. exact (reachable_in_map _ _ _ C1 Hr y Hy). }
  split; [congruence|]. split; [congruence|]. split; [congruence|]. split; [congruence|].
  assert (Hd12 : s_defs sch1 = s_defs sch2) by congruence.
  intros [n i]. split; intros He.
  - pose proof (good_name_of _ _ n i G1 He) as En.
    pose proof (good_entry _ _ i G2 (proj1 (Hids i) (entry_in_ids _ n i He))) as X. rewrite <- Hd12, En in X. exact X.
  - pose proof (good_name_of _ _ n i G2 He) as En.
    pose proof (good_entry _ _ i G1 (proj2 (Hids i) (entry_in_ids _ n i He))) as X. rewrite Hd12, En in X. exact X.
Qed.

(* ---------- what "same schema" means on the public view ---------- *)
Lemma vfind_good defs tm i : tm_good defs tm ->
  vfind (view_types defs tm) i = if in_dec N.eq_dec i (ids tm) then Some (VT (name_of defs i) i (vdef_of defs i)) else None.
Proof.
  intros Hg. destruct (in_dec N.eq_dec i (ids tm)) as [Hi|Hn]; [|apply vfind_none; exact Hn].
  destruct (vfind_view defs tm i Hi) as [n Hv]. rewrite Hv.
  destruct (vfind_some_in _ _ _ Hv) as [Hin _]. unfold view_types in Hin. apply in_map_iff in Hin.
  destruct Hin as [[m j] [E Hin]]. inversion E; subst. rewrite (good_name_of defs tm _ _ Hg Hin). reflexivity.
Qed.

Lemma same_schema_view A B : same_schema A B -> tm_good (s_defs A) (s_tm A) -> tm_good (s_defs B) (s_tm B) ->
  (forall vt, In vt (v_types (view_of A)) <-> In vt (v_types (view_of B)))
  /\ v_query (view_of A) = v_query (view_of B) /\ v_mutation (view_of A) = v_mutation (view_of B)
  /\ v_subscription (view_of A) = v_subscription (view_of B)
  /\ (forall i, vfind (v_types (view_of A)) i = vfind (v_types (view_of B)) i)
  /\ (forall a o, possible (v_types (view_of A)) a o = possible (v_types (view_of B)) a o).
Proof.
  intros (D & Q & M & Sb & E) GA GB.
  assert (Hids : forall y, In y (ids (s_tm A)) <-> In y (ids (s_tm B))).
  { intro y. split; intro H; destruct (in_ids_entry _ y H) as [n Hn]; apply (entry_in_ids _ n y); apply E; exact Hn. }
  assert (Hv : forall i, vfind (v_types (view_of A)) i = vfind (v_types (view_of B)) i).
  { intro i. rewrite !view_of_types, (vfind_good _ _ i GA), (vfind_good _ _ i GB), D.
    destruct (in_dec N.eq_dec i (ids (s_tm A))) as [H|H]; destruct (in_dec N.eq_dec i (ids (s_tm B))) as [H'|H']; auto;
      exfalso; [apply H'; apply Hids; exact H|apply H; apply Hids; exact H']. }
  split; [|split; [exact Q|split; [exact M|split; [exact Sb|split; [exact Hv|]]]]].
  - intro vt. rewrite !view_of_types. unfold view_types. rewrite !in_map_iff, D.
    split; intros (e & He & Hin); exists e; (split; [exact He|apply E; exact Hin]).
  - intros a o. unfold possible. rewrite (Hv a), (Hv o). reflexivity.
Qed.

(* the public views of two equal schemas agree: same types, roots, possible types *)
Definition same_view (V1 V2 : view) : Prop :=
  (forall vt, In vt (v_types V1) <-> In vt (v_types V2))
  /\ v_query V1 = v_query V2 /\ v_mutation V1 = v_mutation V2 /\ v_subscription V1 = v_subscription V2
  /\ (forall vt, In vt (v_types V1) -> (vkind_interface (vt_def vt) = true \/ exists ms, vt_def vt = VUnion ms) ->
        exists r1 r2 q1 q2,
          assocN (vt_id vt) (v_poss V1) = Some r1 /\ assocN (vt_id vt) (v_poss V2) = Some r2
          /\ assocN (vt_id vt) (v_isposs V1) = Some q1 /\ assocN (vt_id vt) (v_isposs V2) = Some q2
          /\ (forall o, In o r1 <-> In o r2) /\ (forall o, In o q1 <-> In o q2)).

Lemma same_schema_same_view A B : same_schema A B -> invariants A -> invariants B -> same_view (view_of A) (view_of B).
Proof.
  intros Hs (GA & CA & IA) (GB & CB & IB).
  destruct (same_schema_view A B Hs GA GB) as (Ht & Q & M & Sb & _ & Hp).
  destruct (core_of_invariants A GA CA IA) as [_ _ _ _ PA].
  destruct (core_of_invariants B GB CB IB) as [_ _ _ _ PB].
  split; [exact Ht|]. split; [exact Q|]. split; [exact M|]. split; [exact Sb|].
  intros vt Hin Hk.
  destruct (PA vt Hin Hk) as (r1 & q1 & E1 & F1 & _ & R1 & S1).
  destruct (PB vt (proj1 (Ht vt) Hin) Hk) as (r2 & q2 & E2 & F2 & _ & R2 & S2).
  exists r1, r2, q1, q2. repeat split; auto; intros Ho.
  - apply R2. rewrite <- Hp. apply R1. exact Ho.
  - apply R1. rewrite Hp. apply R2. exact Ho.
  - apply S2. rewrite <- Hp. apply S1. exact Ho.
  - apply S1. rewrite Hp. apply S2. exact Ho.
Qed.

Theorem append_commutes_view f0 f1 f2 c ts sch0 sch1 sch2 :
  new_schema_fuel f0 c = OK sch0 -> append_types_fuel f1 sch0 ts = OK sch1 ->
  new_schema_fuel f2 (with_types c ts) = OK sch2 ->
  same_view (view_of sch1) (view_of sch2).
Proof.
  intros H0 H1 H2. apply same_schema_same_view.
  - exact (append_commutes _ _ _ _ _ _ _ _ H0 H1 H2).
  - exact (append_types_invariants _ _ _ _ (new_schema_invariants _ _ _ H0) H1).
  - exact (new_schema_invariants _ _ _ H2).
Qed.

(* AppendType keeps the schema Consistent *)
Theorem append_consistent f0 f1 c ts sch sch' :
  new_schema_fuel f0 (with_meta c) = OK sch -> append_types_fuel f1 sch ts = OK sch' -> Consistent (view_of sch').
Proof.
  intros H0 H1.
  pose proof (new_schema_invariants _ _ _ H0) as I0.
  destruct (append_types_invariants _ _ _ _ I0 H1) as (G1 & C1 & Im1).
  destruct (append_types_roots _ _ _ _ H1) as (D1 & Q1 & M1 & S1 & Hi).
  destruct (core_of_invariants sch' G1 C1 Im1) as [K1 K2 K3 K4 K5].
  destruct (new_schema_fuel_tm _ _ _ H0) as (D0 & Q0 & M0 & S0 & _ & _ & [q Hq] & R1 & R2 & R3).
  destruct (new_schema_fuel_closed _ _ _ H0) as [_ Hroots].
  assert (Hroot : forall x, In (TNamed x) (initial_types (with_meta c)) -> root_err (c_defs (with_meta c)) (Some x) = false ->
            is_vobject (v_types (view_of sch')) x = true).
  { intros x Hin Hr. rewrite view_of_types, D1, D0. apply root_is_vobject; auto. apply Hi.
    apply (tgt_named_in (s_defs sch)). exact (Hroots (TNamed x) Hin). }
  constructor; auto.
  - exists q. split; [simpl; congruence|]. apply (Hroot q); [|rewrite <- Hq; exact R1].
    unfold initial_types. rewrite Hq. simpl. left. reflexivity.
  - intros m Hm. simpl in Hm. rewrite M1, M0 in Hm. apply (Hroot m); [|rewrite <- Hm; exact R2].
    unfold initial_types. rewrite Hm. apply in_or_app. right. simpl. left. reflexivity.
  - intros m Hm. simpl in Hm. rewrite S1, S0 in Hm. apply (Hroot m); [|rewrite <- Hm; exact R3].
    unfold initial_types. rewrite Hm. apply in_or_app. right. apply in_or_app. right. simpl. left. reflexivity.
  - intros n Hn. pose proof (meta_present _ _ _ H0 n Hn) as Hin. unfold view_of in *; simpl in *.
    rewrite view_names in *. apply in_map_iff in Hin. destruct Hin as [[m i] [E Hin]]. simpl in E. subst m.
    destruct I0 as (G0 & _ & _).
    pose proof (good_name_of _ _ n i G0 Hin) as En.
    pose proof (good_entry _ _ i G1 (Hi i (entry_in_ids _ n i Hin))) as X. rewrite D1, En in X.
    change n with (fst (n, i)). apply in_map. exact X.
Qed.
