(* C19: the memo tables of the overlap rule bound the work.  Every non-memoised body of
   collectConflictsBetweenFragments / collectConflictsBetweenFieldsAndFragment adds entries
   to its memo set that were not there before (potential argument: the entry list of the
   model never repeats an entry), so the number of bodies is bounded by the number of
   possible entries. *)
From Coq Require Import List Arith Lia Bool String NArith.
From GQL Require Import Exec.Syntax Exec.Exec Validate.Overlap Validate.Cost.
Import ListNotations.
Open Scope string_scope.
Open Scope list_scope.

Definition pentry := (name * name * bool)%type.

Lemma pair_find_none : forall a b l, pair_find a b l = None <-> forall f, ~ In (a, b, f) l.
Proof.
  intros a b l. induction l as [|[[x y] f] r IH]; simpl.
  - split; [intros _ f [] | reflexivity].
  - destruct (String.eqb a x && String.eqb b y) eqn:E.
    + apply andb_true_iff in E. destruct E as [E1 E2]. apply String.eqb_eq in E1, E2. subst.
      split; [discriminate | intro H; exfalso; apply (H f); left; reflexivity].
    + rewrite IH. split.
      * intros H f' [H'|H']; [|apply (H f'); exact H'].
        inversion H'; subst. rewrite !String.eqb_refl in E. discriminate.
      * intros H f' H'. apply (H f'). right. exact H'.
Qed.

Lemma pair_find_in : forall a b l f, pair_find a b l = Some f -> In (a, b, f) l.
Proof.
  intros a b l. induction l as [|[[x y] f'] r IH]; simpl; intros f H; [discriminate|].
  destruct (String.eqb a x && String.eqb b y) eqn:E.
  - apply andb_true_iff in E. destruct E as [E1 E2]. apply String.eqb_eq in E1, E2. subst.
    inversion H; subst. left. reflexivity.
  - right. apply IH. exact H.
Qed.

Definition pairs_inv (l : list pentry) : Prop :=
  NoDup l /\
  (forall a b, pair_find a b l = pair_find b a l) /\
  (forall a b, pair_find a b l = Some true -> ~ In (a, b, false) l).

Lemma pairs_inv_nil : pairs_inv [].
Proof. split; [constructor | split; [reflexivity | intros a b H; discriminate]]. Qed.

Lemma pair_has_false : forall st a b fl,
  pair_has st a b fl = false ->
  pair_find a b (m_pairs st) = None \/ (pair_find a b (m_pairs st) = Some true /\ fl = false).
Proof.
  intros st a b fl. unfold pair_has. destruct (pair_find a b (m_pairs st)) as [s|]; [|auto].
  destruct fl; [discriminate|]. destruct s; simpl; [auto | discriminate].
Qed.

Lemma eqb_pair_cases : forall a b x y,
  (String.eqb a x && String.eqb b y) = true <-> (a = x /\ b = y).
Proof.
  intros. rewrite andb_true_iff, !String.eqb_eq. reflexivity.
Qed.

Lemma pairs_inv_add : forall l a b fl,
  pairs_inv l -> a <> b ->
  (pair_find a b l = None \/ (pair_find a b l = Some true /\ fl = false)) ->
  pairs_inv ((a, b, fl) :: (b, a, fl) :: l).
Proof.
  intros l a b fl (ND & K & J) Hab Hc.
  assert (Hnot : ~ In (a, b, fl) l).
  { destruct Hc as [Hn | [Ht Hf]].
    - apply pair_find_none. exact Hn.
    - subst fl. apply J. exact Ht. }
  assert (Hnot' : ~ In (b, a, fl) l).
  { destruct Hc as [Hn | [Ht Hf]].
    - rewrite K in Hn. apply pair_find_none. exact Hn.
    - subst fl. apply J. rewrite <- K. exact Ht. }
  split; [|split].
  - constructor.
    + intros [H|H]; [inversion H; subst; apply Hab; reflexivity | apply Hnot; exact H].
    + constructor; assumption.
  - intros x y. simpl.
    destruct (String.eqb x a && String.eqb y b) eqn:E1;
    destruct (String.eqb y a && String.eqb x b) eqn:E2;
    destruct (String.eqb x b && String.eqb y a) eqn:E3;
    destruct (String.eqb y b && String.eqb x a) eqn:E4;
    try reflexivity; try apply K;
    repeat match goal with
    | H : (_ && _) = true |- _ => apply eqb_pair_cases in H; destruct H; subst
    end;
    repeat match goal with
    | H : (String.eqb ?u ?u && _) = false |- _ => rewrite String.eqb_refl in H; simpl in H
    | H : (_ && String.eqb ?u ?u) = false |- _ => rewrite String.eqb_refl, andb_true_r in H
    | H : String.eqb ?u ?u = false |- _ => rewrite String.eqb_refl in H; discriminate
    | H : true = false |- _ => discriminate
    end; try (exfalso; apply Hab; reflexivity).
  - intros x y Hf. simpl in Hf. intros [H|[H|H]].
    + injection H as E1 E2 E3. subst x y fl. rewrite !String.eqb_refl in Hf. simpl in Hf. discriminate.
    + injection H as E1 E2 E3. subst x y fl. rewrite !String.eqb_refl in Hf. simpl in Hf.
      destruct (String.eqb b a && String.eqb a b); discriminate.
    + destruct (String.eqb x a && String.eqb y b) eqn:E1.
      * apply eqb_pair_cases in E1. destruct E1; subst. inversion Hf; subst.
        destruct Hc as [Hn | [_ Hff]]; [|discriminate].
        apply (proj1 (pair_find_none a b l) Hn false). exact H.
      * destruct (String.eqb x b && String.eqb y a) eqn:E2.
        -- apply eqb_pair_cases in E2. destruct E2; subst. inversion Hf; subst.
           destruct Hc as [Hn | [_ Hff]]; [|discriminate].
           rewrite K in Hn. apply (proj1 (pair_find_none b a l) Hn false). exact H.
        -- apply (J x y Hf). exact H.
Qed.

(* ---- the fields/fragment memo ---- *)
Definition fentry4 := (ptype * N * name * bool)%type.

Lemma pt_eqb_eq : forall p q, pt_eqb p q = true <-> p = q.
Proof.
  intros [x|] [y|]; simpl; split; intro H; try discriminate; try reflexivity.
  - apply String.eqb_eq in H. subst. reflexivity.
  - inversion H. apply String.eqb_refl.
Qed.

Lemma ff_key_cases : forall p k g p' k' g',
  (pt_eqb p p' && N.eqb k k' && String.eqb g g') = true <-> (p = p' /\ k = k' /\ g = g').
Proof.
  intros. rewrite !andb_true_iff, pt_eqb_eq, N.eqb_eq, String.eqb_eq. tauto.
Qed.

Lemma ff_find_none : forall p k g l, ff_find p k g l = None <-> forall f, ~ In (p, k, g, f) l.
Proof.
  intros p k g l. induction l as [|[[[p' k'] g'] f] r IH]; simpl.
  - split; [intros _ f [] | reflexivity].
  - destruct (pt_eqb p p' && N.eqb k k' && String.eqb g g') eqn:E.
    + apply ff_key_cases in E. destruct E as [E1 [E2 E3]]. subst.
      split; [discriminate | intro H; exfalso; apply (H f); left; reflexivity].
    + rewrite IH. split.
      * intros H f' [H'|H']; [|apply (H f'); exact H'].
        inversion H'; subst.
        assert (T : (pt_eqb p p && N.eqb k k && String.eqb g g) = true) by (apply ff_key_cases; auto).
        congruence.
      * intros H f' H'. apply (H f'). right. exact H'.
Qed.

Definition ffs_inv (l : list fentry4) : Prop :=
  NoDup l /\ (forall p k g, ff_find p k g l = Some true -> ~ In (p, k, g, false) l).

Lemma ffs_inv_nil : ffs_inv [].
Proof. split; [constructor | intros p k g H; discriminate]. Qed.

Lemma ff_has_false : forall st p k g fl,
  ff_has st p k g fl = false ->
  ff_find p k g (m_ffs st) = None \/ (ff_find p k g (m_ffs st) = Some true /\ fl = false).
Proof.
  intros st p k g fl. unfold ff_has. destruct (ff_find p k g (m_ffs st)) as [s|]; [|auto].
  destruct fl; [discriminate|]. destruct s; simpl; [auto | discriminate].
Qed.

Lemma ffs_inv_add : forall l p k g fl,
  ffs_inv l ->
  (ff_find p k g l = None \/ (ff_find p k g l = Some true /\ fl = false)) ->
  ffs_inv ((p, k, g, fl) :: l).
Proof.
  intros l p k g fl (ND & J) Hc. split.
  - constructor; [|exact ND]. destruct Hc as [Hn | [Ht Hf]].
    + apply ff_find_none. exact Hn.
    + subst fl. apply J. exact Ht.
  - intros p' k' g' Hf. simpl in Hf. intros [H|H].
    + injection H as E1 E2 E3 E4. subst p' k' g' fl.
      assert (T : (pt_eqb p p && N.eqb k k && String.eqb g g) = true) by (apply ff_key_cases; auto).
      rewrite T in Hf. discriminate.
    + destruct (pt_eqb p' p && N.eqb k' k && String.eqb g' g) eqn:E.
      * apply ff_key_cases in E. destruct E as [E1 [E2 E3]]. subst. inversion Hf; subst.
        destruct Hc as [Hn | [_ Hff]]; [|discriminate].
        apply (proj1 (ff_find_none p k g l) Hn false). exact H.
      * apply (J p' k' g' Hf). exact H.
Qed.

(* ---- the invariant is preserved by every function of the algorithm ---- *)
Section Generic.
Variable minv : mst -> Prop.

Lemma seq_inv : forall {A} (step : A -> mst -> list N * mst) (l : list A),
  (forall x st, In x l -> minv st -> minv (snd (step x st))) ->
  forall st, minv st -> minv (snd (seq step l st)).
Proof.
  intros A step l. unfold seq.
  assert (G : forall acc,
    (forall x st, In x l -> minv st -> minv (snd (step x st))) ->
    minv (snd acc) ->
    minv (snd (fold_left (fun acc x => let '(cs, st') := step x (snd acc) in (fst acc ++ cs, st')) l acc))).
  { induction l as [|x r IH]; intros acc H Hacc; simpl; [exact Hacc|].
    apply IH.
    - intros y st Hy. apply H. right. exact Hy.
    - specialize (H x (snd acc) (or_introl eq_refl) Hacc).
      destruct (step x (snd acc)) as [cs st']. exact H. }
  intros H st Hst. apply G; [exact H | exact Hst].
Qed.

Variable S : schema.
Variable D : document.
Variable memo : bool.
Hypothesis HP_ff : forall st p k g fl,
  minv st -> ff_has st p k g fl = false -> minv (ff_add st p k g fl).
Hypothesis HP_oof : forall st, minv st -> minv (set_oof st).
Hypothesis HP_fc : forall st, minv st -> minv (inc_fc st).
Hypothesis HP_pair : forall st g1 g2 fl f1 f2,
  minv st -> frag D g1 = Some f1 -> frag D g2 = Some f2 -> String.eqb g1 g2 = false ->
  pair_has st g1 g2 fl = false -> minv (pair_add st g1 g2 fl).

Lemma all_inv : forall fuel,
  (forall fl a b st, minv st -> minv (snd (fc S D memo fuel fl a b st))) /\
  (forall fl l1 l2 st, minv st -> minv (snd (between S D memo fuel fl l1 l2 st))) /\
  (forall fl s1 s2 st, minv st -> minv (snd (subsets S D memo fuel fl s1 s2 st))) /\
  (forall fl s g st, minv st -> minv (snd (ffrag S D memo fuel fl s g st))) /\
  (forall fl g1 g2 st, minv st -> minv (snd (frfr S D memo fuel fl g1 g2 st))).
Proof.
  induction fuel as [|f IH]; [split; [|split; [|split; [|split]]]; intros; simpl; apply HP_oof; assumption|].
  destruct IH as (Ifc & Ibt & Isub & Iff & Ifr).
  split; [|split; [|split; [|split]]].
  - (* fc *) intros fl a b st H0. simpl. pose proof (HP_fc st H0) as H.
    destruct (negb (base_ok S (fl || excl S a b) a b)); [exact H|].
    destruct (has_sub a && has_sub b); [|exact H].
    specialize (Isub (fl || excl S a b) (sub_pt a, fe_sub a) (sub_pt b, fe_sub b) (inc_fc st) H).
    destruct (subsets S D memo f (fl || excl S a b) (sub_pt a, fe_sub a) (sub_pt b, fe_sub b) (inc_fc st)) as [cs st'].
    exact Isub.
  - (* between *) intros fl l1 l2 st H. simpl.
    apply seq_inv; [|exact H]. intros k st1 _ H1.
    apply seq_inv; [|exact H1]. intros a st2 _ H2.
    apply seq_inv; [|exact H2]. intros b st3 _ H3. apply Ifc. exact H3.
  - (* subsets *) intros fl s1 s2 st H. simpl.
    pose proof (Ibt fl (dfields S (fst s1) (snd s1)) (dfields S (fst s2) (snd s2)) st H) as H1.
    destruct (between S D memo f fl (dfields S (fst s1) (snd s1)) (dfields S (fst s2) (snd s2)) st) as [c1 st1].
    simpl in H1.
    pose proof (seq_inv (fun g => ffrag S D memo f fl s1 g) (dspreads (snd s2)) (fun g st0 _ H0 => Iff fl s1 g st0 H0) st1 H1) as H2.
    destruct (seq (fun g => ffrag S D memo f fl s1 g) (dspreads (snd s2)) st1) as [c2 st2]. simpl in H2.
    pose proof (seq_inv (fun g => ffrag S D memo f fl s2 g) (dspreads (snd s1)) (fun g st0 _ H0 => Iff fl s2 g st0 H0) st2 H2) as H3.
    destruct (seq (fun g => ffrag S D memo f fl s2 g) (dspreads (snd s1)) st2) as [c3 st3]. simpl in H3.
    pose proof (seq_inv (fun a => seq (fun b => frfr S D memo f fl a b) (dspreads (snd s2))) (dspreads (snd s1))
                 (fun a st0 _ H0 => seq_inv (fun b => frfr S D memo f fl a b) (dspreads (snd s2))
                                      (fun b st5 _ H5 => Ifr fl a b st5 H5) st0 H0) st3 H3) as H4.
    destruct (seq (fun a => seq (fun b => frfr S D memo f fl a b) (dspreads (snd s2))) (dspreads (snd s1)) st3) as [c4 st4].
    exact H4.
  - (* ffrag *) intros fl s g st H. simpl.
    destruct (memo && ff_has st (fst s) (first_id (snd s)) g fl) eqn:Eh; [exact H|].
    set (st0 := if memo then ff_add st (fst s) (first_id (snd s)) g fl else st).
    assert (H0 : minv st0).
    { unfold st0. destruct memo; [|exact H]. simpl in Eh. apply HP_ff; assumption. }
    destruct (frag D g) as [fr|]; [|exact H0].
    destruct (same_set s (resolve S (fr_cond fr), fr_sel fr)); [exact H0|].
    match goal with |- context [between S D memo f fl ?x ?y st0] =>
      pose proof (Ibt fl x y st0 H0) as H1; destruct (between S D memo f fl x y st0) as [c1 st1] end.
    simpl in H1.
    match goal with |- context [seq ?stp ?l st1] =>
      pose proof (seq_inv stp l (fun h st5 _ H5 => Iff fl s h st5 H5) st1 H1) as H2;
      destruct (seq stp l st1) as [c2 st2] end.
    exact H2.
  - (* frfr *) intros fl g1 g2 st H. simpl.
    destruct (frag D g1) as [f1|] eqn:Ef1; [|exact H].
    destruct (frag D g2) as [f2|] eqn:Ef2; [|exact H].
    destruct (String.eqb g1 g2) eqn:Eg; [exact H|].
    destruct (memo && pair_has st g1 g2 fl) eqn:Eh; [exact H|].
    set (st0 := if memo then pair_add st g1 g2 fl else st).
    assert (H0 : minv st0).
    { unfold st0. destruct memo; [|exact H]. simpl in Eh. apply (HP_pair st g1 g2 fl f1 f2); assumption. }
    match goal with |- context [between S D memo f fl ?x ?y st0] =>
      pose proof (Ibt fl x y st0 H0) as H1; destruct (between S D memo f fl x y st0) as [c1 st1] end.
    simpl in H1.
    match goal with |- context [seq ?stp ?l st1] =>
      pose proof (seq_inv stp l (fun h st5 _ H5 => Ifr fl g1 h st5 H5) st1 H1) as H2;
      destruct (seq stp l st1) as [c2 st2] end.
    simpl in H2.
    match goal with |- context [seq ?stp ?l st2] =>
      pose proof (seq_inv stp l (fun h st5 _ H5 => Ifr fl h g2 st5 H5) st2 H2) as H3;
      destruct (seq stp l st2) as [c3 st3] end.
    exact H3.
Qed.

Lemma pairs_within_inv : forall fuel l st, minv st -> minv (snd (pairs_within S D memo fuel l st)).
Proof.
  intros fuel l. induction l as [|a r IH]; intros st H; simpl; [exact H|].
  pose proof (seq_inv (fun b => fc S D memo fuel false a b) r
               (fun b st5 _ H5 => proj1 (all_inv fuel) false a b st5 H5) st H) as H1.
  destruct (seq (fun b => fc S D memo fuel false a b) r st) as [c1 st1]. simpl in H1.
  specialize (IH st1 H1). destruct (pairs_within S D memo fuel r st1) as [c2 st2]. exact IH.
Qed.

Lemma frags_within_inv : forall fuel s gs st, minv st -> minv (snd (frags_within S D memo fuel s gs st)).
Proof.
  intros fuel s gs. induction gs as [|g r IH]; intros st H; simpl; [exact H|].
  destruct (all_inv fuel) as (_ & _ & _ & Iff & Ifr).
  pose proof (Iff false s g st H) as H1.
  destruct (ffrag S D memo fuel false s g st) as [c1 st1]. simpl in H1.
  pose proof (seq_inv (fun h => frfr S D memo fuel false g h) r (fun h st5 _ H5 => Ifr false g h st5 H5) st1 H1) as H2.
  destruct (seq (fun h => frfr S D memo fuel false g h) r st1) as [c2 st2]. simpl in H2.
  specialize (IH st2 H2). destruct (frags_within S D memo fuel s r st2) as [c3 st3]. exact IH.
Qed.

Lemma within_set_inv : forall fuel s st, minv st -> minv (snd (within_set S D memo fuel s st)).
Proof.
  intros fuel s st H. unfold within_set.
  pose proof (seq_inv (fun k => pairs_within S D memo fuel (with_key k (dfields S (fst s) (snd s))))
               (keys_of (dfields S (fst s) (snd s)))
               (fun k st5 _ H5 => pairs_within_inv fuel _ st5 H5) st H) as H1.
  destruct (seq (fun k => pairs_within S D memo fuel (with_key k (dfields S (fst s) (snd s))))
                (keys_of (dfields S (fst s) (snd s))) st) as [c1 st1]. simpl in H1.
  pose proof (frags_within_inv fuel s (dspreads (snd s)) st1 H1) as H2.
  destruct (frags_within S D memo fuel s (dspreads (snd s)) st1) as [c2 st2]. exact H2.
Qed.

Lemma final_inv : minv mst0 -> forall fuel, minv (final_state S D memo fuel).
Proof.
  intros H0 fuel. unfold final_state. apply seq_inv.
  - intros s st _ H. apply within_set_inv. exact H.
  - exact H0.
Qed.

End Generic.

(* ---- instantiation: no entry is ever repeated, and pair entries name defined fragments ---- *)
Definition minv (D : document) (st : mst) : Prop :=
  pairs_inv (m_pairs st) /\ ffs_inv (m_ffs st) /\
  (forall a b f, In (a, b, f) (m_pairs st) -> frag D a <> None /\ frag D b <> None).

Lemma memo_invariant : forall S D memo fuel, minv D (final_state S D memo fuel).
Proof.
  intros S D memo fuel. apply final_inv.
  - intros st p k g fl (Hp & Hf & Hd) Eh. split; [exact Hp|]. split; [|exact Hd]. simpl.
    apply ffs_inv_add; [exact Hf | apply ff_has_false; exact Eh].
  - intros st H. exact H.
  - intros st H. exact H.
  - intros st g1 g2 fl f1 f2 (Hp & Hf & Hd) E1 E2 Eg Eh. split; [|split; [exact Hf|]]; simpl.
    + apply pairs_inv_add; [exact Hp | apply String.eqb_neq; exact Eg | apply pair_has_false; exact Eh].
    + intros a b f [H|[H|H]].
      * injection H as Ea Eb Ef. subst. rewrite E1, E2. split; discriminate.
      * injection H as Ea Eb Ef. subst. rewrite E1, E2. split; discriminate.
      * apply (Hd a b f H).
  - split; [apply pairs_inv_nil|]. split; [apply ffs_inv_nil|]. intros a b f [].
Qed.

Lemma last_fragment_in : forall g fs acc f,
  last_fragment g fs acc = Some f -> acc = Some f \/ In g (map fr_name fs).
Proof.
  intros g fs. induction fs as [|x r IH]; intros acc f H; simpl in *; [left; exact H|].
  destruct (IH _ f H) as [E|E]; [|right; right; exact E].
  destruct (String.eqb g (fr_name x)) eqn:Eg; [|left; exact E].
  apply String.eqb_eq in Eg. right. left. symmetry. exact Eg.
Qed.

Lemma frag_defined : forall D g, frag D g <> None -> In g (map fr_name (d_frags D)).
Proof.
  intros D g H. unfold frag in H. destruct (last_fragment g (d_frags D) None) as [f|] eqn:E; [|contradiction].
  destruct (last_fragment_in _ _ _ _ E) as [E'|E']; [discriminate | exact E'].
Qed.

Definition pair_universe (names : list name) : list pentry :=
  flat_map (fun a => flat_map (fun b => [(a, b, true); (a, b, false)]) names) names.

Lemma pair_universe_length : forall names,
  List.length (pair_universe names) = 2 * (List.length names * List.length names).
Proof.
  intro names. unfold pair_universe.
  assert (G : forall l : list name, List.length (flat_map (fun a : name => flat_map (fun b : name => [(a, b, true); (a, b, false)]) names) l)
                        = List.length l * (2 * List.length names)).
  { induction l as [|a r IH]; simpl; [reflexivity|]. rewrite app_length, IH.
    assert (E : List.length (flat_map (fun b : name => [(a, b, true); (a, b, false)]) names) = 2 * List.length names).
    { clear. induction names as [|b r IH]; simpl; [reflexivity|]. simpl in IH. rewrite IH. lia. }
    rewrite E. lia. }
  rewrite G. lia.
Qed.

Theorem memo_bound_pairs : forall S D fuel,
  let F := List.length (d_frags D) in
  List.length (m_pairs (final_state S D true fuel)) <= 2 * (F * F).
Proof.
  intros S D fuel F.
  destruct (memo_invariant S D true fuel) as ((ND & _) & _ & Hd).
  set (names := map fr_name (d_frags D)).
  assert (L : List.length names = F) by (unfold names, F; apply map_length).
  rewrite <- L, <- pair_universe_length.
  apply NoDup_incl_length; [exact ND|].
  intros [[a b] f] Hin. destruct (Hd a b f Hin) as [Ha Hb].
  apply frag_defined in Ha. apply frag_defined in Hb.
  unfold pair_universe. apply in_flat_map. exists a. split; [exact Ha|].
  apply in_flat_map. exists b. split; [exact Hb|]. destruct f; simpl; auto.
Qed.

Theorem memo_bound_ffs : forall S D fuel (U : list (ptype * N * name)),
  (forall p k g f, In (p, k, g, f) (m_ffs (final_state S D true fuel)) -> In (p, k, g) U) ->
  List.length (m_ffs (final_state S D true fuel)) <= 2 * List.length U.
Proof.
  intros S D fuel U HU.
  destruct (memo_invariant S D true fuel) as (_ & (ND & _) & _).
  set (UU := flat_map (fun x => [(x, true); (x, false)]) U).
  assert (L : List.length UU = 2 * List.length U).
  { unfold UU. clear. induction U as [|x r IH]; simpl; [reflexivity|]. simpl in IH. rewrite IH. lia. }
  rewrite <- L. apply NoDup_incl_length; [exact ND|].
  intros [[[p k] g] f] Hin. unfold UU. apply in_flat_map. exists (p, k, g).
  split; [apply (HU p k g f Hin) | destruct f; simpl; auto].
Qed.

(* ================= planning ================= *)
Lemma nlist_eqb'_eq : forall a b, nlist_eqb' a b = true <-> a = b.
Proof.
  induction a as [|x a IH]; destruct b as [|y b]; simpl; split; intro H; try reflexivity; try discriminate.
  - apply andb_true_iff in H. destruct H as [H1 H2]. apply N.eqb_eq in H1. apply IH in H2. subst. reflexivity.
  - inversion H; subst. rewrite N.eqb_refl. simpl. apply IH. reflexivity.
Qed.

Lemma pkey_eqb_eq : forall a b, pkey_eqb a b = true <-> a = b.
Proof.
  intros [a1 a2] [b1 b2]. unfold pkey_eqb. simpl. rewrite andb_true_iff, String.eqb_eq, nlist_eqb'_eq.
  split; [intros [H1 H2]; subst; reflexivity | intro H; inversion H; auto].
Qed.

Lemma pkey_mem_in : forall k l, pkey_mem k l = true <-> In k l.
Proof.
  intros k l. induction l as [|x r IH]; simpl.
  - split; [discriminate | intros []].
  - rewrite orb_true_iff, IH, pkey_eqb_eq. split; intros [H|H]; auto.
Qed.

Lemma fold_left_inv : forall {A B} (P : A -> Prop) (f : A -> B -> A) (l : list B),
  (forall a b, P a -> P (f a b)) -> forall a, P a -> P (fold_left f l a).
Proof.
  intros A B P f l H. induction l as [|b r IH]; intros a Ha; simpl; [exact Ha|].
  apply IH. apply H. exact Ha.
Qed.

(* with sharing, no (parent type, merged selection sets) group is planned twice *)
Lemma plan_nodup : forall S D cfuel fuel T sets st,
  NoDup (p_memo st) -> NoDup (p_memo (plan S D true cfuel fuel T sets st)).
Proof.
  intros S D cfuel fuel. induction fuel as [|f IH]; intros T sets st H; simpl; [exact H|].
  destruct (pkey_mem (T, map first_id sets) (p_memo st)) eqn:E; [exact H|].
  assert (H1 : NoDup ((T, map first_id sets) :: p_memo st)).
  { constructor; [|exact H]. intro Hin. apply pkey_mem_in in Hin. congruence. }
  destruct (collect_all cfuel S D [] T sets [] []) as [groups|]; [|exact H1].
  apply (fold_left_inv (fun st => NoDup (p_memo st))); [|exact H1].
  intros st' [k occs] Hst'. simpl. destruct occs as [|o r]; [exact Hst'|].
  destruct (plan_field_ty S T (oc_name o)) as [t|]; [|exact Hst'].
  destruct (is_object_ty S (named_of t)); [|exact Hst'].
  apply IH. exact Hst'.
Qed.

(* every call either returns at once (memo hit) or executes one body; calls are bounded by
   1 + the field groups of the bodies.  Here: the keys stay inside any universe that is
   closed under planning. *)
Theorem plan_bodies_bound : forall S D fuel (U : list pkey),
  (forall k, In k (p_memo (plan_doc S D true fuel)) -> In k U) ->
  List.length (p_memo (plan_doc S D true fuel)) <= List.length U.
Proof.
  intros S D fuel U HU. apply NoDup_incl_length; [|exact HU].
  unfold plan_doc. destruct (d_ops D) as [|o r]; [constructor|].
  apply plan_nodup. constructor.
Qed.

(* ---- planning does not look at the possible types of abstract types beyond the object
   types it visits: two schemas that agree on the reachable object types give the same
   plan cost (adding implementers / union members changes neither) ---- *)
Section Congr.
Variable S S' : schema.
Variable D : document.
Variable R : name -> Prop.      (* the object types planning can reach *)
Hypothesis R_match : forall T c, R T -> fragment_matches S c T = fragment_matches S' c T.
Hypothesis R_fields : forall T nm, R T -> plan_field_ty S T nm = plan_field_ty S' T nm.
Hypothesis R_closed : forall T nm t, R T -> plan_field_ty S T nm = Some t ->
                                     is_object_ty S (named_of t) = true -> R (named_of t).
Hypothesis R_obj : forall T nm t, R T -> plan_field_ty S T nm = Some t ->
                                  is_object_ty S (named_of t) = is_object_ty S' (named_of t).
Hypothesis incl_agree : forall ds vars, included S ds vars = included S' ds vars.

Lemma collect_congr : forall fuel vars T sels visited g, R T ->
  collect fuel S D vars T sels visited g = collect fuel S' D vars T sels visited g.
Proof.
  induction fuel as [|f IH]; intros vars T sels visited g HT; cbn [collect]; [reflexivity|].
  destruct sels as [|s rest]; [reflexivity|].
  destruct s as [id al nm args ds sub | id nm ds | id tc ds sub].
  - rewrite incl_agree. destruct (included S' ds vars); apply IH; exact HT.
  - rewrite incl_agree. destruct (included S' ds vars && negb (nmem nm visited)); [|apply IH; exact HT].
    destruct (find_fragment nm (d_frags D)) as [fr|]; [|apply IH; exact HT].
    rewrite (R_match T (Some (fr_cond fr)) HT).
    destruct (fragment_matches S' (Some (fr_cond fr)) T); [|apply IH; exact HT].
    rewrite (IH vars T (fr_sel fr) (nm :: visited) g HT).
    destruct (collect f S' D vars T (fr_sel fr) (nm :: visited) g) as [[g' v']|]; [|reflexivity].
    apply IH. exact HT.
  - rewrite incl_agree. rewrite (R_match T tc HT).
    destruct (included S' ds vars && fragment_matches S' tc T); [|apply IH; exact HT].
    rewrite (IH vars T sub visited g HT).
    destruct (collect f S' D vars T sub visited g) as [[g' v']|]; [|reflexivity].
    apply IH. exact HT.
Qed.

Lemma collect_all_congr : forall fuel vars T sets visited g, R T ->
  collect_all fuel S D vars T sets visited g = collect_all fuel S' D vars T sets visited g.
Proof.
  intros fuel vars T sets. induction sets as [|s r IH]; intros visited g HT; simpl; [reflexivity|].
  rewrite (collect_congr fuel vars T s visited g HT).
  destruct (collect fuel S' D vars T s visited g) as [[g' v']|]; [|reflexivity].
  apply IH. exact HT.
Qed.

Lemma plan_congr : forall share cfuel fuel T sets st, R T ->
  plan S D share cfuel fuel T sets st = plan S' D share cfuel fuel T sets st.
Proof.
  intros share cfuel fuel. induction fuel as [|f IH]; intros T sets st HT; simpl; [reflexivity|].
  destruct (share && pkey_mem (T, map first_id sets) (p_memo st)); [reflexivity|].
  rewrite (collect_all_congr cfuel [] T sets [] [] HT).
  destruct (collect_all cfuel S' D [] T sets [] []) as [groups|]; [|reflexivity].
  match goal with |- fold_left _ _ ?a = fold_left _ _ ?a => generalize a end.
  induction groups as [|[k occs] r IHg]; intros st0; simpl; [reflexivity|].
  destruct occs as [|o occs']; [apply IHg|].
  rewrite <- (R_fields T (oc_name o) HT).
  destruct (plan_field_ty S T (oc_name o)) as [t|] eqn:Et; [|apply IHg].
  rewrite <- (R_obj T (oc_name o) t HT Et).
  destruct (is_object_ty S (named_of t)) eqn:Eo; [|apply IHg].
  rewrite (IH (named_of t) _ st0 (R_closed T (oc_name o) t HT Et Eo)). apply IHg.
Qed.
End Congr.

Theorem plan_independent_of_implementers : forall S S' D share fuel (R : name -> Prop),
  (forall T c, R T -> fragment_matches S c T = fragment_matches S' c T) ->
  (forall T nm, R T -> plan_field_ty S T nm = plan_field_ty S' T nm) ->
  (forall T nm t, R T -> plan_field_ty S T nm = Some t -> is_object_ty S (named_of t) = true -> R (named_of t)) ->
  (forall T nm t, R T -> plan_field_ty S T nm = Some t ->
                  is_object_ty S (named_of t) = is_object_ty S' (named_of t)) ->
  (forall ds vars, included S ds vars = included S' ds vars) ->
  s_query S = s_query S' -> s_mutation S = s_mutation S' ->
  R (s_query S) -> (forall m, s_mutation S = Some m -> R m) ->
  plan_doc S D share fuel = plan_doc S' D share fuel.
Proof.
  intros S S' D share fuel R H1 H2 H3 H4 H5 Eq Em Rq Rm. unfold plan_doc.
  destruct (d_ops D) as [|o r]; [reflexivity|].
  rewrite <- Eq, <- Em.
  apply (plan_congr S S' D R H1 H2 H3 H4 H5).
  destruct (o_kind o); try exact Rq.
  destruct (s_mutation S) as [m|] eqn:E; [apply Rm; reflexivity | exact Rq].
Qed.
