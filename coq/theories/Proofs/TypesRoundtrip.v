(* C10 round trip, clause by clause: what introspection reports for a schema,
   rebuilt, is the schema. *)
From Coq Require Import List NArith ZArith Bool Lia Permutation String.
From GQL Require Import Base.Bytes Types.Schema Types.Consistent Types.Introspection
  Proofs.TypesNames Proofs.TypesPossible Proofs.TypesIntro.
Import ListNotations.
Open Scope string_scope.
Open Scope N_scope.

Lemma nodup_map_inj_in {A B} (f : A -> B) : forall l,
  (forall x y, In x l -> In y l -> f x = f y -> x = y) -> NoDup l -> NoDup (map f l).
Proof.
  induction l as [|a r IH]; simpl; intros Hinj Hnd; [constructor|].
  inversion Hnd as [|x l Hni Hnd']; subst. constructor.
  - intro Hin. apply in_map_iff in Hin. destruct Hin as (y & E & Hy).
    assert (y = a) by (apply Hinj; auto). subst. contradiction.
  - apply IH; auto.
Qed.

Lemma id_of_name_in : forall ts vt, NoDup (map vt_name ts) -> In vt ts -> id_of_name ts (vt_name vt) = Some (vt_id vt).
Proof.
  induction ts as [|t r IH]; simpl; intros vt Hnd Hin; [contradiction|].
  inversion Hnd as [|x l Hni Hnd']; subst.
  destruct Hin as [Hin|Hin].
  - subst. rewrite bytes_eqb_refl. reflexivity.
  - destruct (bytes_eqb (vt_name t) (vt_name vt)) eqn:E.
    + apply bytes_eqb_eq in E. exfalso. apply Hni. rewrite E. apply in_map. exact Hin.
    + exact (IH vt Hnd' Hin).
Qed.

Lemma named_ref_roundtrip ts i vt : NoDup (map vt_name ts) -> vfind ts i = Some vt ->
  named_ref ts i = DRNamed (kind_name (vt_def vt)) (vt_name vt) /\ tref_of ts (named_ref ts i) = TNamed i.
Proof.
  intros Hnd Hv. unfold named_ref. rewrite Hv. split; auto. simpl.
  destruct (vfind_some_in ts i vt Hv) as [Hin Hid]. rewrite (id_of_name_in ts vt Hnd Hin), Hid. reflexivity.
Qed.

Definition closed_ref (ts : list vtype) (t : tref) : Prop :=
  wf_ref t = true /\ exists i vt, get_named t = Some i /\ vfind ts i = Some vt.

Lemma ref_ok_closed ts allowed t : ref_ok ts allowed t = true -> closed_ref ts t.
Proof.
  unfold ref_ok, closed_ref. intro H. apply andb_true_iff in H. destruct H as [Hw H]. split; auto.
  destruct (get_named t) as [i|]; try discriminate. destruct (vfind ts i) as [vt|] eqn:E; try discriminate.
  exists i, vt. auto.
Qed.

(* ofType chains of any depth *)
Lemma tref_roundtrip ts : NoDup (map vt_name ts) -> forall t, closed_ref ts t -> tref_of ts (dref_of ts t) = t.
Proof.
  intros Hnd. induction t as [|i|t IH|t IH]; intros [Hw (j & vt & Hg & Hv)]; simpl in *.
  - discriminate.
  - inversion Hg; subst. exact (proj2 (named_ref_roundtrip ts j vt Hnd Hv)).
  - f_equal. apply IH. split; auto. exists j, vt. auto.
  - apply andb_true_iff in Hw. f_equal. apply IH. split; [exact (proj2 Hw)|]. exists j, vt. auto.
Qed.

Lemma in_sort_name {A} (key : A -> name) l x : In x (sort_name key l) <-> In x l.
Proof. split; apply Permutation_in; [|apply Permutation_sym]; apply sort_name_perm. Qed.

Lemma in_introspect V D dt : In dt (d_types (introspect V D)) <-> exists vt, In vt (v_types V) /\ dt = introspect_type V D vt.
Proof.
  unfold introspect, describe; simpl. rewrite in_map_iff. split.
  - intros (e & He & Hin). apply in_sort_name in Hin. apply in_map_iff in Hin. destruct Hin as (vt & Hvt & Hin).
    exists vt. split; auto. subst. reflexivity.
  - intros (vt & Hin & He). exists (describe_type V D vt). split; [symmetry; exact He|].
    apply in_sort_name. apply in_map. exact Hin.
Qed.

Lemma introspect_type_names V D : Permutation (map dt_name (d_types (introspect V D))) (map vt_name (v_types V)).
Proof.
  unfold introspect, describe; simpl. rewrite map_map.
  apply perm_trans with (map (fun x => dt_name (resolve_type (v_types V) x)) (map (describe_type V D) (v_types V))).
  - apply Permutation_map. apply sort_name_perm.
  - rewrite map_map. erewrite map_ext; [apply Permutation_refl|]. intro vt. simpl. apply describe_type_name.
Qed.

(* kind, name, description *)
Lemma type_kind V D vt : dt_name (introspect_type V D vt) = vt_name vt
  /\ dt_kind (introspect_type V D vt) = kind_name (vt_def vt)
  /\ dt_desc (introspect_type V D vt) = match assocN (vt_id vt) (dc_types D) with Some d => td_desc d | None => [] end.
Proof. unfold introspect_type, describe_type. destruct (vt_def vt); simpl; auto. Qed.

(* ---------- input values (arguments, input fields) ---------- *)
Lemma describe_input_facts ts n t ad : di_name (resolve_input ts (describe_input ts n t ad)) = n
  /\ di_type (resolve_input ts (describe_input ts n t ad)) = dref_of ts t.
Proof. unfold describe_input. destruct ad; simpl; auto. Qed.

Lemma rebuild_inputs ts (decs : name -> option argdec) (args : list (name * tref)) :
  NoDup (map vt_name ts) -> (forall a, In a args -> closed_ref ts (snd a)) ->
  Permutation (rebuild_args ts (map (resolve_input ts)
                 (sort_name di_name (map (fun a => describe_input ts (fst a) (snd a) (decs (fst a))) args)))) args.
Proof.
  intros Hnd Hc. unfold rebuild_args. rewrite map_map.
  eapply perm_trans; [apply Permutation_map; apply sort_name_perm|].
  rewrite map_map. erewrite map_ext_in; [rewrite map_id; apply Permutation_refl|].
  intros [n t] Hin. cbn beta iota delta [fst snd]. destruct (describe_input_facts ts n t (decs n)) as [E1 E2]. rewrite E1, E2.
  rewrite (tref_roundtrip ts Hnd t (Hc _ Hin)). reflexivity.
Qed.

(* ---------- fields ---------- *)
Section Fields.
  Variable V : view.
  Variable D : decor.
  Let ts := v_types V.
  Hypothesis Hnd : NoDup (map vt_name ts).

  Definition reported_fields (vt : vtype) (fs : list vfield) : list dfield :=
    map (resolve_field ts) (describe_fields ts (assocN (vt_id vt) (dc_types D)) fs).

  Lemma fields_reported vt : 
    (forall ifs fs, vt_def vt = VObject ifs fs -> dt_fields (introspect_type V D vt) = Some (reported_fields vt fs))
    /\ (forall fs, vt_def vt = VInterface fs -> dt_fields (introspect_type V D vt) = Some (reported_fields vt fs))
    /\ (vkind_object (vt_def vt) = false -> vkind_interface (vt_def vt) = false -> dt_fields (introspect_type V D vt) = None).
  Proof.
    unfold introspect_type, describe_type, reported_fields. fold ts. split; [|split].
    - intros ifs fs E. rewrite E. reflexivity.
    - intros fs E. rewrite E. reflexivity.
    - destruct (vt_def vt); simpl; try discriminate; auto.
  Qed.

  Lemma reported_field_names vt fs : Permutation (map df_name (reported_fields vt fs)) (map vf_name fs).
  Proof.
    unfold reported_fields, describe_fields. rewrite map_map.
    eapply perm_trans; [apply Permutation_map; apply sort_name_perm|].
    rewrite map_map. erewrite map_ext; [apply Permutation_refl|].
    intro f. unfold describe_field. simpl.
    destruct (match assocN (vt_id vt) (dc_types D) with Some d => find_dec (vf_name f) (td_fields d) | None => None end); reflexivity.
  Qed.

  Lemma reported_field_spec vt fs df : In df (reported_fields vt fs) ->
    exists f, In f fs /\ df_name df = vf_name f
      /\ df_type df = dref_of ts (vf_type f)
      /\ df_isdep df = is_dep (field_dep D (vt_id vt) (vf_name f))
      /\ df_reason df = dep_reason (field_dep D (vt_id vt) (vf_name f))
      /\ (field_ok ts f = true ->
            tref_of ts (df_type df) = vf_type f /\ Permutation (rebuild_args ts (df_args df)) (vf_args f)).
  Proof.
    unfold reported_fields, describe_fields. intro Hin. apply in_map_iff in Hin. destruct Hin as (e & He & Hin).
    apply in_sort_name in Hin. apply in_map_iff in Hin. destruct Hin as (f & Hf & Hin). subst e df.
    exists f. split; auto. unfold describe_field, field_dep.
    assert (Hargs : forall decs, field_ok ts f = true ->
              tref_of ts (dref_of ts (vf_type f)) = vf_type f /\
              Permutation (rebuild_args ts (map (resolve_input ts)
                 (sort_name di_name (map (fun a => describe_input ts (fst a) (snd a) (find_dec (fst a) decs)) (vf_args f))))) (vf_args f)).
    { intros decs Hok. unfold field_ok in Hok. apply andb_true_iff in Hok. destruct Hok as [Ht Ha]. split.
      - apply (tref_roundtrip ts Hnd). exact (ref_ok_closed _ _ _ Ht).
      - apply (rebuild_inputs ts (fun n => find_dec n decs)); auto.
        intros a Hain. exact (ref_ok_closed _ _ _ (proj1 (forallb_forall _ _) Ha a Hain)). }
    destruct (assocN (vt_id vt) (dc_types D)) as [td|]; [destruct (find_dec (vf_name f) (td_fields td)) as [fd|]|];
      (split; [reflexivity|]; split; [reflexivity|]; split; [reflexivity|]; split; [reflexivity|]).
    - exact (Hargs (fd_args fd)).
    - exact (Hargs []).
    - exact (Hargs []).
  Qed.

  (* fields(includeDeprecated: b): exactly the fields that are not deprecated, or all of them *)
  Lemma include_deprecated_fields vt fs b n :
    In n (map df_name (fields_resolver b (reported_fields vt fs))) <->
    exists f, In f fs /\ vf_name f = n /\ (b = true \/ field_dep D (vt_id vt) n = []).
  Proof.
    unfold fields_resolver. rewrite in_map_iff. split.
    - intros (df & E & Hin). apply filter_In in Hin. destruct Hin as [Hin Hk].
      destruct (reported_field_spec vt fs df Hin) as (f & Hf & En & _ & Hd & _).
      exists f. split; auto. split; [congruence|].
      destruct b; [left; reflexivity|right]. simpl in Hk. rewrite Hd in Hk. rewrite <- E, En.
      destruct (field_dep D (vt_id vt) (vf_name f)); auto; discriminate.
    - intros (f & Hf & En & Hb).
      assert (Hn : In (vf_name f) (map df_name (reported_fields vt fs))).
      { apply (Permutation_in _ (Permutation_sym (reported_field_names vt fs))). apply in_map. exact Hf. }
      apply in_map_iff in Hn. destruct Hn as (df & E & Hin). exists df. split; [congruence|].
      apply filter_In. split; auto.
      destruct (reported_field_spec vt fs df Hin) as (f' & _ & En' & _ & Hd & _).
      destruct Hb as [Hb|Hb]; [rewrite Hb; reflexivity|].
      rewrite Hd, <- En', E, En, Hb. destruct b; reflexivity.
  Qed.

  (* interfaces and possible types are reported by kind and name, each once *)
  Lemma reported_refs (l : list N) : (forall i, In i l -> exists vt, vfind ts i = Some vt) ->
    Permutation (map (ref_id ts) (sort_name dref_name (map (named_ref ts) l))) l
    /\ (NoDup l -> NoDup (sort_name dref_name (map (named_ref ts) l))).
  Proof.
    intros Hin. split.
    - eapply perm_trans; [apply Permutation_map; apply sort_name_perm|].
      rewrite map_map. erewrite map_ext_in; [rewrite map_id; apply Permutation_refl|].
      intros i Hi. destruct (Hin i Hi) as [vt Hv]. unfold ref_id.
      rewrite (proj2 (named_ref_roundtrip ts i vt Hnd Hv)). reflexivity.
    - intro Hl. apply (Permutation_NoDup (Permutation_sym (sort_name_perm dref_name _))).
      apply nodup_map_inj_in; auto.
      intros x y Hx Hy E. destruct (Hin x Hx) as [vx Hvx]. destruct (Hin y Hy) as [vy Hvy].
      pose proof (proj2 (named_ref_roundtrip ts x vx Hnd Hvx)) as Ex.
      pose proof (proj2 (named_ref_roundtrip ts y vy Hnd Hvy)) as Ey.
      rewrite E in Ex. rewrite Ex in Ey. inversion Ey. reflexivity.
  Qed.
End Fields.

Section Rest.
  Variable V : view.
  Variable D : decor.
  Let ts := v_types V.
  Hypothesis Hnd : NoDup (map vt_name ts).

  (* interfaces *)
  Lemma interfaces_reported vt :
    (forall ifs fs, vt_def vt = VObject ifs fs ->
       (forall i, In i ifs -> exists it, vfind ts i = Some it) ->
       exists l, dt_interfaces (introspect_type V D vt) = Some l /\ Permutation (map (ref_id ts) l) ifs
                 /\ (NoDup ifs -> NoDup l))
    /\ (vkind_object (vt_def vt) = false -> dt_interfaces (introspect_type V D vt) = None).
  Proof.
    unfold introspect_type, describe_type. fold ts. split.
    - intros ifs fs E Hin. rewrite E. simpl. eexists. split; [reflexivity|]. exact (reported_refs V Hnd ifs Hin).
    - destruct (vt_def vt); simpl; try discriminate; auto.
  Qed.

  (* possibleTypes: the declared possible types, each once *)
  Lemma possible_reported vt : Consistent V -> In vt ts ->
    (vkind_interface (vt_def vt) = true \/ exists ms, vt_def vt = VUnion ms) ->
    exists l, dt_possible (introspect_type V D vt) = Some l /\ NoDup l
      /\ forall o, In o (map (ref_id ts) l) <-> possible ts (vt_id vt) o = true.
  Proof.
    intros HC Hin Hk. destruct (cs_possible V HC vt Hin Hk) as (row & _ & Er & _ & Hndr & Hrow & _).
    assert (Hfound : forall o, In o row -> exists ot, vfind ts o = Some ot).
    { intros o Ho. apply Hrow in Ho. unfold possible in Ho. fold ts in Ho. destruct (vfind ts (vt_id vt)); try discriminate.
      destruct (vfind ts o) as [ot|]; try discriminate. exists ot. reflexivity. }
    destruct (reported_refs V Hnd row Hfound) as [Hperm Hnodup].
    exists (sort_name dref_name (map (named_ref ts) row)). split; [|split].
    - unfold introspect_type, describe_type. fold ts. rewrite Er.
      destruct Hk as [Hk|[ms Hk]]; [destruct (vt_def vt); try discriminate; reflexivity|rewrite Hk; reflexivity].
    - exact (Hnodup Hndr).
    - intro o. split; intro H; [apply Hrow; apply (Permutation_in _ Hperm); exact H|apply (Permutation_in _ (Permutation_sym Hperm)); apply Hrow; exact H].
  Qed.

  (* enum values with their deprecation *)
  Lemma enums_reported vt vs : vt_def vt = VEnum vs ->
    exists l, dt_enums (introspect_type V D vt) = Some l /\ Permutation (map de_name l) vs
      /\ forall e, In e l -> de_isdep e = is_dep (value_dep D (vt_id vt) (de_name e))
                              /\ de_reason e = dep_reason (value_dep D (vt_id vt) (de_name e)).
  Proof.
    intro E. unfold introspect_type, describe_type. rewrite E. simpl. eexists. split; [reflexivity|]. split.
    - eapply perm_trans; [apply Permutation_map; apply sort_name_perm|]. rewrite map_map.
      erewrite map_ext; [rewrite map_id; apply Permutation_refl|]. intro n.
      destruct (match assocN (vt_id vt) (dc_types D) with Some d => find_dec n (td_values d) | None => None end); reflexivity.
    - intros e He. apply in_sort_name in He. apply in_map_iff in He. destruct He as (n & En & _). subst e.
      unfold value_dep. destruct (assocN (vt_id vt) (dc_types D)) as [td|]; simpl; auto.
      destruct (find_dec n (td_values td)) eqn:Ef; simpl; rewrite ?Ef; auto.
  Qed.

  Lemma include_deprecated_enums vt vs l b n : vt_def vt = VEnum vs -> dt_enums (introspect_type V D vt) = Some l ->
    (In n (map de_name (enums_resolver b l)) <-> In n vs /\ (b = true \/ value_dep D (vt_id vt) n = [])).
  Proof.
    intros E El. destruct (enums_reported vt vs E) as (l' & El' & Hperm & Hdep). rewrite El in El'. inversion El'; subst l'.
    unfold enums_resolver. rewrite in_map_iff. split.
    - intros (e & En & Hin). apply filter_In in Hin. destruct Hin as [Hin Hk]. subst n. split.
      + apply (Permutation_in _ Hperm). apply in_map. exact Hin.
      + destruct b; [left; reflexivity|right]. simpl in Hk. rewrite (proj1 (Hdep e Hin)) in Hk.
        destruct (value_dep D (vt_id vt) (de_name e)); auto; discriminate.
    - intros [Hin Hb]. apply (Permutation_in _ (Permutation_sym Hperm)) in Hin. apply in_map_iff in Hin.
      destruct Hin as (e & En & Hin). exists e. split; auto. apply filter_In. split; auto.
      destruct Hb as [Hb|Hb]; [rewrite Hb; reflexivity|]. rewrite (proj1 (Hdep e Hin)), En, Hb. destruct b; reflexivity.
  Qed.

  (* input fields *)
  Lemma inputs_reported vt fs : vt_def vt = VInput fs -> (forall f, In f fs -> closed_ref ts (snd f)) ->
    exists l, dt_inputs (introspect_type V D vt) = Some l /\ Permutation (rebuild_args ts l) fs.
  Proof.
    intros E Hc. unfold introspect_type, describe_type. fold ts. rewrite E. simpl. eexists. split; [reflexivity|].
    exact (rebuild_inputs ts (fun n => match assocN (vt_id vt) (dc_types D) with Some d => find_dec n (td_ifields d) | None => None end) fs Hnd Hc).
  Qed.

  (* directives *)
  Lemma directives_reported :
    Permutation (map ddr_name (d_directives (introspect V D))) (map dd_name (dc_dirs D))
    /\ forall dd, In dd (d_directives (introspect V D)) ->
         exists d, In d (dc_dirs D) /\ ddr_name dd = dd_name d /\ ddr_desc dd = dd_desc d /\ ddr_locs dd = dd_locs d
           /\ ((forall a, In a (dd_args d) -> closed_ref ts (fst (snd a))) ->
               Permutation (rebuild_args ts (ddr_args dd)) (map (fun a => (fst a, fst (snd a))) (dd_args d))).
  Proof.
    unfold introspect, describe; simpl. fold ts. split.
    - rewrite map_map. eapply perm_trans; [apply Permutation_map; apply sort_name_perm|].
      rewrite map_map. apply Permutation_refl.
    - intros dd Hin. apply in_map_iff in Hin. destruct Hin as (e & Ee & Hin). apply in_sort_name in Hin.
      apply in_map_iff in Hin. destruct Hin as (d & Ed & Hin). subst e dd. exists d. repeat split; auto.
      intro Hc. simpl. unfold rebuild_args. rewrite map_map.
      eapply perm_trans; [apply Permutation_map; apply sort_name_perm|]. rewrite map_map.
      erewrite map_ext_in; [apply Permutation_refl|]. intros [n [t ad]] Ha. simpl. pose proof (tref_roundtrip ts Hnd t (Hc _ Ha)) as Er. simpl in Er. rewrite Er. reflexivity.
  Qed.

  (* root operation types *)
  Lemma roots_reported :
    (forall q vt, v_query V = Some q -> vfind ts q = Some vt -> d_query (introspect V D) = Some (vt_name vt))
    /\ (forall q vt, v_mutation V = Some q -> vfind ts q = Some vt -> d_mutation (introspect V D) = Some (vt_name vt))
    /\ (forall q vt, v_subscription V = Some q -> vfind ts q = Some vt -> d_subscription (introspect V D) = Some (vt_name vt))
    /\ (v_mutation V = None -> d_mutation (introspect V D) = None)
    /\ (v_subscription V = None -> d_subscription (introspect V D) = None).
  Proof.
    unfold introspect, describe, root_name; simpl. fold ts.
    repeat split; intros; repeat match goal with H : _ = _ |- _ => rewrite H end; reflexivity.
  Qed.
End Rest.
