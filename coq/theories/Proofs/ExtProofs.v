(* Proofs about the extension pipeline model (Ext/ExtensionsModel.v). *)
From Coq Require Import List NArith Bool Lia.
From GQL Require Import Ext.ExtensionsModel Ext.ExtensionsSpec.
Import ListNotations.
Open Scope N_scope.

(* ------------------------------------------------------------------ *)
(* 1. No panic escapes: every hook call sits under a catch.            *)
(* ------------------------------------------------------------------ *)

Definition noraise {A} (m : M A) : Prop := exists a, snd m = Ret a.

Lemma noraise_ret : forall A (a : A), noraise (ret a).
Proof. intros A a. exists a. reflexivity. Qed.

Lemma noraise_bind : forall A B (m : M A) (f : A -> M B),
  noraise m -> (forall a, noraise (f a)) -> noraise (bind m f).
Proof.
  intros A B [l r] f [a Ha] Hf. cbn in Ha. subst r. unfold bind.
  destruct (Hf a) as [b Hb]. destruct (f a) as [l' r']. cbn in Hb. subst r'.
  exists b. reflexivity.
Qed.

Lemma noraise_catch : forall A (m : M A) (h : pval -> M A),
  (forall v, noraise (h v)) -> noraise (catch m h).
Proof.
  intros A [l [a|v]] h Hh; unfold catch.
  - exists a. reflexivity.
  - destruct (Hh v) as [b Hb]. destruct (h v) as [l' r']. cbn in Hb. subst r'. exists b. reflexivity.
Qed.

Lemma noraise_if : forall A (b : bool) (m1 m2 : M A), noraise m1 -> noraise m2 -> noraise (if b then m1 else m2).
Proof. intros A [|] m1 m2 H1 H2; assumption. Qed.

Ltac nr :=
  repeat first
    [ apply noraise_ret
    | apply noraise_catch; intros ?
    | apply noraise_if
    | apply noraise_bind; [| intros ?] ].

Lemma handle_inits_noraise : forall xs, noraise (handle_inits xs).
Proof. induction xs as [|[i x] r IH]; cbn [handle_inits]; nr. exact IH. Qed.

Lemma handle_start_noraise : forall ph xs, noraise (handle_start ph xs).
Proof. intros ph. induction xs as [|[i x] r IH]; cbn [handle_start]; nr. exact IH. Qed.

Lemma run_finish_noraise : forall ph n fs, noraise (run_finish ph n fs).
Proof. intros ph n. induction fs as [|[i f] r IH]; cbn [run_finish]; nr. exact IH. Qed.

Lemma add_results_noraise : forall xs, noraise (add_results xs).
Proof. induction xs as [|[i x] r IH]; cbn [add_results]; nr. exact IH. Qed.

Lemma resolve_field_noraise : forall k fb xs, noraise (resolve_field k fb xs).
Proof.
  intros k fb xs. unfold resolve_field. apply noraise_bind; [apply handle_start_noraise|].
  intros sf. destruct fb; (apply noraise_bind; [apply run_finish_noraise | intros ?; apply noraise_ret]).
Qed.

Lemma exec_fields_noraise : forall fields k xs, noraise (exec_fields k fields xs).
Proof.
  induction fields as [|fb r IH]; intros k xs; cbn [exec_fields]; [apply noraise_ret|].
  apply noraise_bind; [apply resolve_field_noraise|]. intros a.
  apply noraise_bind; [apply IH|]. intros b. apply noraise_ret.
Qed.

Lemma run_body_noraise : forall c xs, noraise (run_body c xs).
Proof. intros [| | | |fields] xs; cbn [run_body]; try apply noraise_ret. apply exec_fields_noraise. Qed.

Lemma execute_plan_noraise : forall c xs, noraise (execute_plan c xs).
Proof.
  intros c xs. unfold execute_plan.
  apply noraise_bind; [apply handle_start_noraise|]. intros sf. apply noraise_if.
  - apply noraise_bind; [apply run_finish_noraise | intros ?; apply noraise_ret].
  - apply noraise_bind; [apply run_body_noraise|]. intros eb.
    apply noraise_bind; [apply run_finish_noraise|]. intros e6.
    apply noraise_bind; [apply add_results_noraise|]. intros a. apply noraise_ret.
Qed.

Lemma do_m_noraise : forall c xs, noraise (do_m c xs).
Proof.
  intros c xs. unfold do_m.
  apply noraise_bind; [apply handle_inits_noraise|]. intros e0. apply noraise_if; [apply noraise_ret|].
  apply noraise_bind; [apply handle_start_noraise|]. intros sf. apply noraise_if.
  { apply noraise_bind; [apply run_finish_noraise | intros ?; apply noraise_ret]. }
  assert (Hrest : noraise (bind (run_finish PParse 0 (snd sf)) (fun e2 =>
     if nz e2 then ret (e2, []) else
     bind (handle_start PValid xs) (fun sv =>
     if nz (fst sv) then bind (run_finish PValid (fst sv) (snd sv)) (fun e' => ret (fst sv + e', [])) else
     match c with
     | CInvalid m => bind (run_finish PValid (m + 1) (snd sv)) (fun e => ret (e + (m + 1), []))
     | _ => bind (run_finish PValid 0 (snd sv)) (fun e4 =>
            if nz e4 then ret (e4, []) else
            match c with COpErr => ret (1, []) | _ => execute_plan c xs end)
     end)))).
  { apply noraise_bind; [apply run_finish_noraise|]. intros e2. apply noraise_if; [apply noraise_ret|].
    apply noraise_bind; [apply handle_start_noraise|]. intros sv. apply noraise_if.
    { apply noraise_bind; [apply run_finish_noraise | intros ?; apply noraise_ret]. }
    assert (Hv : noraise (bind (run_finish PValid 0 (snd sv)) (fun e4 =>
            if nz e4 then ret (e4, []) else
            match c with COpErr => ret (1, []) | _ => execute_plan c xs end))).
    { apply noraise_bind; [apply run_finish_noraise|]. intros e4. apply noraise_if; [apply noraise_ret|].
      destruct c; try apply execute_plan_noraise. apply noraise_ret. }
    destruct c; try exact Hv.
    apply noraise_bind; [apply run_finish_noraise | intros ?; apply noraise_ret]. }
  destruct c; try exact Hrest.
  apply noraise_bind; [apply run_finish_noraise | intros ?; apply noraise_ret].
Qed.

Theorem do_model_never_crashes : forall c exts log, do_model c exts <> Crash log.
Proof.
  intros c exts log. unfold do_model.
  destruct (do_m_noraise c (index_from 0 exts)) as [a Ha].
  destruct (do_m c (index_from 0 exts)) as [l r]. cbn in Ha. subst r.
  destruct a as [n keys]. discriminate.
Qed.
